import GeomV.C03.Tie
import GeomV.C03.JudgeOp
import GeomV.C03.ModelGC
import GeomV.C03.SpecGC
/-!
Driver for C03: `geomv_c03 judge` reads `<input> => <implementation answer>` lines and prints one
verdict per line (`OK <class>` | `DIFF <class> <why>` | `SPEC <class> <why>`).

* SPEC verdicts are computed from `Spec` on the implementation's answer (exact `Rat` arithmetic on
  the exact values of the float64 inputs and outputs; tolerance 1e-9 relative where rounding enters).
* DIFF verdicts compare the implementation with the model (`Rat` model for area/centroid, the
  `Float` instance of the generic model for length/distance/buffer).
-/
namespace GeomV.C03
open GeomV

def eps : Rat := 1 / 1000000000

inductive FVal where
  | fin (q : Rat) | pinf | ninf | nan
deriving Repr

def fvOfBits (u : UInt64) : FVal :=
  match bitsToRat u with
  | some q => .fin q
  | none => if u.toNat % 2^52 ≠ 0 then .nan else if u.toNat / 2^63 = 1 then .ninf else .pinf

def fvOfTok (s : String) : Option FVal := (parseU64 s).map fvOfBits

def ratPt (p : Pt UInt64) : Option P := do
  let x ← bitsToRat p.x; let y ← bitsToRat p.y; pure ⟨x, y⟩
def ratRing (r : List (Pt UInt64)) : Option Ring := r.mapM ratPt
def ratPoly (p : List (List (Pt UInt64))) : Option Poly := p.mapM ratRing
def ratMPoly (p : List (List (List (Pt UInt64)))) : Option MPoly := p.mapM ratPoly
def fltPt (p : Pt UInt64) : Pt Float := ⟨Float.ofBits p.x, Float.ofBits p.y⟩
def ratOfFloat (f : Float) : Option Rat := bitsToRat f.toBits

def maxAbs (p : Poly) : Rat :=
  p.foldl (fun m r => r.foldl (fun m v => max m (max (absR v.x) (absR v.y))) m) 0

/-- Multiply every coordinate by one power of two that makes them all integers (coordinates are
dyadic rationals).  Validity and point-in-ring classification are invariant under this scaling; the
judge evaluates `ValidPoly`/`PipAgrees` of float cases on the scaled copy because `Rat` arithmetic on
integers is an order of magnitude faster. -/
def scaleInt (mp : MPoly) : MPoly :=
  let d : Nat := mp.foldl (fun d p => p.foldl (fun d r => r.foldl (fun d v => max d (max v.x.den v.y.den)) d) d) 1
  if d == 1 then mp else
  let k : Rat := (d : Nat)
  mp.map (·.map (·.map fun v => ⟨v.x * k, v.y * k⟩))

/-- `|a − b| ≤ eps · max(|b|, scale)` -/
def close (a b scale : Rat) : Bool := decide (absR (a - b) ≤ eps * max (absR b) scale)

def fvAgrees (exact : Bool) (impl : FVal) (m : FQ) (scale : Rat) : Bool :=
  match impl, m with
  | .fin a, .fin b => if exact then a == b else close a b scale
  | .pinf, .pinf => true
  | .ninf, .ninf => true
  | .nan, .nan => true
  | _, _ => false

def showFQ : FQ → String
  | .fin q => toString q | .pinf => "+Inf" | .ninf => "-Inf" | .nan => "NaN"
def showFV : FVal → String
  | .fin q => toString q | .pinf => "+Inf" | .ninf => "-Inf" | .nan => "NaN"

/-! class tags -/

def isClosedRing (r : Ring) : Bool := decide (2 ≤ r.length) && r.getLast? == r.head?

def tri (l : List Bool) : String :=
  if l.all id then "all" else if l.any id then "mixed" else "none"

/-- `-mag:far` (formerly `-mag:xl`, the signature of the known finding that fix 4edcec2 closed) when the coordinates are so large or so small that the cubic moment sums of the centroid
formula leave the float64 range (|coordinate| ≥ 2^340 or all ≤ 2^-340) -/
def magTag (p : Poly) : String :=
  let mx := maxAbsX p
  let my := maxAbsY p
  let far (m : Rat) : Bool := m ≥ (2:Rat)^340 || (0 < m && m ≤ 1 / (2:Rat)^340)
  -- `-aniso`: the extents in x and y differ by more than 2^200 (the per-axis rescaling of the centroids)
  let aniso : Bool := 0 < mx && 0 < my && (mx ≥ my * (2:Rat)^200 || my ≥ mx * (2:Rat)^200)
  (if far mx || far my then "-mag:far" else "") ++ (if aniso then "-aniso" else "")

def polyTag (p : Poly) : String :=
  s!"r{min p.length 6}-closed:{tri (p.map isClosedRing)}-cw:{tri (p.map fun r => decide (Spec.shoelace2 r < 0))}"

def mpolyTag (mp : MPoly) : String :=
  let rs := mp.flatten
  s!"m{min mp.length 5}r{min rs.length 9}-closed:{tri (rs.map isClosedRing)}-cw:{tri (rs.map fun r => decide (Spec.shoelace2 r < 0))}"

def bbox (rs : Poly) : Option (Rat × Rat × Rat × Rat) :=
  match rs.flatten with
  | [] => none
  | v :: t => some (t.foldl (fun (a : Rat × Rat × Rat × Rat) w => (min a.1 w.x, max a.2.1 w.x, min a.2.2.1 w.y, max a.2.2.2 w.y)) (v.x, v.x, v.y, v.y))

def inBBox (rs : Poly) (c : P) (scale : Rat × Rat) : Bool :=
  match bbox rs with
  | none => false
  | some (x0, x1, y0, y1) =>
    let tx := eps * scale.1
    let ty := eps * scale.2
    decide (x0 - tx ≤ c.x) && decide (c.x ≤ x1 + tx) && decide (y0 - ty ≤ c.y) && decide (c.y ≤ y1 + ty)

/-- `-offset:far` when the polygon lies further from the origin than 2^12 times its own extent: the
centroid sums formed in absolute coordinates cancel catastrophically there (relative error ≈
2^-53 · (offset/extent)²; finding 9, fixed by forming them relative to the first vertex) -/
def offTag (p : Poly) : String :=
  match bbox p with
  | none => ""
  | some (x0, x1, y0, y1) =>
    let ext := max (x1 - x0) (y1 - y0)
    let m := max (maxAbsX p) (maxAbsY p)
    if 0 < ext && m ≥ ext * (2:Rat)^12 then "-offset:far" else ""

/-- what the tolerance of one centroid coordinate is measured against: `m` the largest |coordinate| on
the axis, `ext` the extent of the bounding box on the axis, `off` its lower end -/
structure AxisScale where
  m : Rat
  ext : Rat
  off : Rat

/-- per-axis tolerance scales of a centroid -/
def centScales (p : Poly) : AxisScale × AxisScale :=
  match bbox p with
  | none => (⟨maxAbsX p, 0, 0⟩, ⟨maxAbsY p, 0, 0⟩)
  | some (x0, x1, y0, y1) => (⟨maxAbsX p, x1 - x0, x0⟩, ⟨maxAbsY p, y1 - y0, y0⟩)

/-- a centroid coordinate `a` against the wanted `b`: within 1e-9 of the EXTENT of the polygon on that
axis (plus 2^-20·1e-9 ≈ 8 ulp of the largest |coordinate|: the result is a float64 near the offset), or of
the distance of `b` from the polygon when that is larger — never more than the former tolerance
1e-9 · max(|b|, largest |coordinate|).  A polygon far from the origin relative to its size is judged by
its size, not by its offset. -/
def closeC (a b : Rat) (s : AxisScale) : Bool :=
  -- floor: one step of the subnormal grid, 2^-1074 absolute — the best any float64 answer can do (round h: polygons whose
  -- whole extent is subnormal; 1e-9 of such an extent is far below the grid and would demand an unrepresentable answer)
  decide (absR (a - b) ≤ max (eps * min (max (absR b) s.m) (max (absR (b - s.off)) (s.ext + s.m / (2:Rat)^20))) (1 / (2:Rat)^1074))

def fvAgreesC (impl : FVal) (m : FQ) (s : AxisScale) : Bool :=
  match impl, m with
  | .fin a, .fin b => closeC a b s
  | .pinf, .pinf => true
  | .ninf, .ninf => true
  | .nan, .nan => true
  | _, _ => false

/-- parse `ok hx hy` / `panic …` / `err` -/
inductive PRes where
  | pt (x y : FVal) | panic | err | bad
def pRes : Tok → PRes
  | ["ok", a, b] => match fvOfTok a, fvOfTok b with
    | some x, some y => .pt x y
    | _, _ => .bad
  | "panic" :: _ => .panic
  | ["err"] => .err
  | _ => .bad

def showPRes : PRes → String
  | .pt x y => s!"({showFV x},{showFV y})" | .panic => "panic" | .err => "err" | .bad => "unparsable"

/-- implementation centroid vs model centroid; the tolerance of each coordinate is relative to the
largest |coordinate| on ITS axis (`scale = (max |x|, max |y|)`) -/
def centAgrees (impl : PRes) (m : Except Fault (FQ × FQ)) (scale : AxisScale × AxisScale) : Bool :=
  match impl, m with
  | .pt x y, .ok (mx, my) => fvAgreesC x mx scale.1 && fvAgreesC y my scale.2
  | .panic, .error _ => true
  | _, _ => false

/-- implementation centroid vs a spec point -/
def centIs (impl : PRes) (c : P) (scale : AxisScale × AxisScale) : Bool :=
  match impl with
  | .pt (.fin x) (.fin y) => closeC x c.x scale.1 && closeC y c.y scale.2
  | _ => false

def showCent : Except Fault (FQ × FQ) → String
  | .ok (x, y) => s!"({showFQ x},{showFQ y})"
  | .error e => s!"panic:{repr e}"

/-- which ring is the shell, and whether the polygon is valid only in the wider class `ValidPolyT`
(rings touching in single points) -/
def orderOf (p : Poly) : Option (Nat × Bool) :=
  match Spec.shellIndex p with
  | some i => some (i, false)
  | none => (Spec.shellIndexT p).map (·, true)
def shellAt (o : Option (Nat × Bool)) : Nat := match o with | some (i, _) => i | none => 0
def validTag (o : Option (Nat × Bool)) : String :=
  match o with
  | none => "invalid"
  | some (_, true) => "valid-touch"
  | some (0, false) => "valid"
  | some (_, false) => "valid-holefirst"
def reorder (i : Nat) (p : Poly) : Poly := Spec.moveFront i p

def judgeArea (tag : String) (p : Poly) (rhs : Tok) : String :=
  let sp := (scaleInt [p]).headD []
  -- validity in any ring order; `c` lists the rings of `p` (exact values) shell first
  let order := orderOf (Spec.canon sp)
  let valid := order.isSome
  let c := reorder (shellAt order) (Spec.canon p)
  let cls := s!"area-{tag}-{validTag order}-{polyTag p}"
  match rhs with
  | [a, o] =>
    match fvOfTok a, fvOfTok o with
    | some (.fin ia), some (.fin io) =>
      let exact := tag.startsWith "g"
      let scale := Spec.sumR (p.map Spec.measure)
      let agree (x y : Rat) : Bool := if exact then x == y else close x y scale
      let m := polygonArea p
      let mo := opPolygonArea p
      if valid && !agree ia (Spec.area c) then
        s!"SPEC {cls} Area={ia} but shell-minus-holes={Spec.area c}"
      else if valid && Spec.Alternating c && !agree io (Spec.area c) then
        s!"SPEC {cls} op.Area={io} but shell-minus-holes={Spec.area c}"
      else if !agree ia m then s!"DIFF {cls} Area impl={ia} model={m}"
      else if !agree io mo then s!"DIFF {cls} op.Area impl={io} model={mo}"
      else if valid && !PipAgrees sp then s!"DIFF {cls} within-model-differs-from-crossing-number-spec"
      else s!"OK {cls}"
    | _, _ => if valid then s!"SPEC {cls} non-finite-area {a} {o}" else s!"DIFF {cls} non-finite-area {a} {o}"
  | _ => if valid then s!"SPEC {cls} {" ".intercalate rhs}" else s!"DIFF {cls} {" ".intercalate rhs}"

def judgeMArea (tag : String) (mp : MPoly) (rhs : Tok) : String :=
  let smp := scaleInt mp
  let orders := (smp.map Spec.canon).map orderOf
  let c := (mp.map Spec.canon).zipWith (fun p o => reorder (shellAt o) p) orders
  -- every member valid (possibly with touching rings), at least one member, members apart
  let valid := orders.all (·.isSome) && !smp.isEmpty && Spec.membersApart (smp.map Spec.canon) && c.all Spec.HolesFit
  let touch := orders.any fun o => match o with | some (_, true) => true | _ => false
  let cls := s!"marea-{tag}-{if valid then (if touch then "valid-touch" else "valid") else "invalid"}-{mpolyTag mp}"
  match rhs with
  | [a, o] =>
    match fvOfTok a, fvOfTok o with
    | some (.fin ia), some (.fin io) =>
      let exact := tag.startsWith "g"
      let scale := Spec.sumR (mp.flatten.map Spec.measure)
      let agree (x y : Rat) : Bool := if exact then x == y else close x y scale
      let m := multiPolygonArea mp
      let mo := opMultiPolygonArea mp
      if valid && !agree ia (Spec.marea c) then
        s!"SPEC {cls} Area={ia} but shells-minus-holes={Spec.marea c}"
      else if valid && c.all Spec.Alternating && !agree io (Spec.marea c) then
        s!"SPEC {cls} op.Area={io} but shells-minus-holes={Spec.marea c}"
      else if !agree ia m then s!"DIFF {cls} Area impl={ia} model={m}"
      else if !agree io mo then s!"DIFF {cls} op.Area impl={io} model={mo}"
      else if valid && !smp.all PipAgrees then s!"DIFF {cls} within-model-differs-from-crossing-number-spec"
      else s!"OK {cls}"
    | _, _ => if valid then s!"SPEC {cls} non-finite-area {a} {o}" else s!"DIFF {cls} non-finite-area {a} {o}"
  | _ => if valid then s!"SPEC {cls} {" ".intercalate rhs}" else s!"DIFF {cls} {" ".intercalate rhs}"

def judgeCent (tag : String) (p : Poly) (rhs : Tok) : String :=
  let order := orderOf (Spec.canon ((scaleInt [p]).headD []))
  let valid := order.isSome
  let c := reorder (shellAt order) (Spec.canon p)
  let closed := p.all isClosedRing
  let inStatement := valid && closed
  let cls := s!"cent-{tag}-{match order with | some (_, true) => "valid-touch" | some _ => "valid" | none => "invalid"}-{polyTag p}{magTag p}{offTag p}"
  let r1 := pRes (rhs.takeWhile (· ≠ "|"))
  let r2 := pRes (rhs.drop ((rhs.takeWhile (· ≠ "|")).length + 1))
  let bscale := (maxAbsX p, maxAbsY p)
  let scale := centScales p
  let m := polygonCentroid p
  let mo : Except Fault (FQ × FQ) := .ok (opCentroid p)
  let wantS := Spec.centroidSigned c
  if inStatement && !centIs r1 wantS scale then
    s!"SPEC {cls} Centroid={showPRes r1} but signed-area-weighted centroid={wantS.x},{wantS.y}"
  else if inStatement && Spec.Alternating c && !centIs r1 (Spec.centroid c) scale then
    s!"SPEC {cls} Centroid={showPRes r1} but area-weighted centroid={(Spec.centroid c).x},{(Spec.centroid c).y}"
  else if inStatement && !inBBox c wantS bscale then
    s!"SPEC {cls} Centroid={showPRes r1} outside the bounding box"
  else if inStatement && !centIs r2 wantS scale then
    s!"SPEC {cls} op.Centroid={showPRes r2} but signed-area-weighted centroid={wantS.x},{wantS.y}"
  else if !centAgrees r1 m scale then s!"DIFF {cls} Centroid impl={showPRes r1} model={showCent m}"
  else if !centAgrees r2 mo scale then s!"DIFF {cls} op.Centroid impl={showPRes r2} model={showCent mo}"
  else s!"OK {cls}"

def judgeMCent (tag : String) (mp : MPoly) (rhs : Tok) : String :=
  let smp := (scaleInt mp).map Spec.canon
  let orders := smp.map orderOf
  let c := (mp.map Spec.canon).zipWith (fun p o => reorder (shellAt o) p) orders
  let valid := orders.all (·.isSome) && !smp.isEmpty && Spec.membersApart smp
  let touch := orders.any fun o => match o with | some (_, true) => true | _ => false
  let closed := mp.all (·.all isClosedRing)
  let inStatement := valid && closed
  let cls := s!"mcent-{tag}-{if valid then (if touch then "valid-touch" else "valid") else "invalid"}-{mpolyTag mp}{magTag mp.flatten}{offTag mp.flatten}"
  let r := pRes rhs
  let bscale := (maxAbsX mp.flatten, maxAbsY mp.flatten)
  let scale := centScales mp.flatten
  let m : Except Fault (FQ × FQ) := .ok (multiPolygonCentroid mp)
  let want := Spec.mcentroid c
  if inStatement && !centIs r want scale then
    s!"SPEC {cls} Centroid={showPRes r} but area-weighted centroid={want.x},{want.y}"
  else if inStatement && !inBBox c.flatten want bscale then
    s!"SPEC {cls} Centroid={showPRes r} outside the bounding box"
  else if !centAgrees r m scale then s!"DIFF {cls} Centroid impl={showPRes r} model={showCent m}"
  else s!"OK {cls}"

/-! real-valued part -/

def fclose (a b scale : Float) : Bool :=
  (a == b) || (Float.abs (a - b) ≤ 1e-9 * (if Float.abs b ≤ scale then scale else Float.abs b))

def lineScale (ls : List (List (Pt Float))) : Float :=
  ls.foldl (fun m l => l.foldl (fun m v => let a := Float.abs v.x; let b := Float.abs v.y
                                              let c := if a ≤ b then b else a
                                              if m ≤ c then c else m) m) 0

def judgeLen (tag : String) (kind : String) (ls : List (List (Pt UInt64))) (rhs : Tok) : String :=
  let fl := ls.map (·.map fltPt)
  let cls := s!"len-{tag}-{kind}-n{min (ls.foldl (fun n l => n + l.length) 0) 10}"
  let m : Float := if kind == "LS" then lineStringLength (fl.headD []) else multiLineStringLength fl
  match rhs.map parseU64, ls.mapM ratRing with
  | [some a, some o], some rl =>
    let ia := Float.ofBits a; let io := Float.ofBits o
    let (lo, hi) := rl.foldl (fun (acc : Rat × Rat) l => let b := Spec.lengthBounds l; (acc.1 + b.1, acc.2 + b.2)) (0, 0)
    let okB (x : Float) : Bool := match ratOfFloat x with
      | some q => decide (lo * (1 - eps) ≤ q) && decide (q ≤ hi * (1 + eps))
      | none => false
    if !okB ia then s!"SPEC {cls} Length={ia} outside [{lo.floor},{hi.ceil}]-ish exact bounds of the sum of segment lengths"
    else if !okB io then s!"SPEC {cls} op.Length={io} outside the exact bounds of the sum of segment lengths"
    else if !fclose ia m 0 then s!"DIFF {cls} Length impl={ia} model={m}"
    else if !fclose io m 0 then s!"DIFF {cls} op.Length impl={io} model={m}"
    else s!"OK {cls}"
  | _, _ => s!"SPEC {cls} {" ".intercalate rhs}"

def judgeDist (tag : String) (kind : String) (q : Pt UInt64) (ls : List (List (Pt UInt64))) (rhs : Tok) : String :=
  let fl := ls.map (·.map fltPt)
  let fq := fltPt q
  let nseg := ls.foldl (fun n l => n + (l.length - 1)) 0
  let m : Option Float := if kind == "LS" then lineStringDistance (fl.headD []) fq else multiLineStringDistance fl fq
  match rhs.map parseU64, ls.mapM ratRing, ratPt q with
  | [some a], some rl, some rq =>
    let ia := Float.ofBits a
    let want : Option Rat := rl.foldl (fun m l => match m, Spec.lineDist2 rq l with
      | none, x => x | x, none => x | some x, some y => some (min x y)) none
    let S := maxAbs ([rq] :: rl)
    let where_ : String := match want, fvOfBits a with
      | some w, .fin d => if w == 0 then "on" else if d == 0 then "zero"
                          else if w * 1000000000000 ≤ S * S then "near" else "off"
      | none, _ => "nosegment" | _, _ => "nonfinite"
    let cls := s!"dist-{tag}-{kind}-seg{min nseg 9}-{where_}"
    -- tolerance: 1e-9 relative to the distance itself plus 1e-12 relative to the largest coordinate
    -- (the conditioning of the problem: each coordinate difference carries one rounding of size
    -- 2^-53·S, so a backward-stable evaluation is within a few 1e-16·S; a NaN is never accepted)
    let specOK : Bool := match want, fvOfBits a with
      | none, .pinf => true
      | some w, .fin d =>
        let t := eps * d + S / 1000000000000
        decide (0 ≤ d) && decide ((if d - t < 0 then 0 else (d - t) * (d - t)) ≤ w) && decide (w ≤ (d + t) * (d + t))
      | _, _ => false
    let modelOK : Bool := match m with
      | none => a == 0x7ff0000000000000
      | some x => (ia == x) || Float.abs (ia - x) ≤ 1e-9 * Float.abs x + 1e-12 * lineScale ([fq] :: fl)
    if !specOK then s!"SPEC {cls} Distance={ia} but exact squared minimum distance={match want with | some w => toString w | none => "none(+Inf)"}"
    else if !modelOK then s!"DIFF {cls} Distance impl={ia} model={m}"
    else s!"OK {cls}"
  | _, _, _ => s!"SPEC dist-{tag}-{kind} {" ".intercalate rhs}"

def cycP (l : List P) : List (P × P) := Spec.cycPairs l

def judgeBuf (c : Pt UInt64) (rad : UInt64) (n : Int) (rhs : Tok) : String :=
  let fc := fltPt c; let fr := Float.ofBits rad
  let m := buffer fc fr n
  let cls := s!"buf-n{if n < 3 then "lt3" else if n ≤ 8 then toString n else if n ≤ 90 then "9to90" else "gt90"}{if fr < 0 then "-neg" else ""}"
  match rhs, m with
  | "panic" :: _, .error _ => s!"OK {cls}-panic"
  | "panic" :: _, .ok _ => s!"SPEC {cls} Buffer-panicked-on-valid-request"
  | "ok" :: gt, .error _ => s!"DIFF {cls} model-panics impl={" ".intercalate (gt.take 4)}"
  | "ok" :: gt, .ok mr =>
    match Proto.pGeom 2 gt, ratPt c, bitsToRat rad with
    | some (.polygon [ring], _), some rc, some rr =>
      match ratRing ring with
      | none => s!"SPEC {cls} non-finite-vertex"
      | some vs =>
        let S := max (absR rc.x) (absR rc.y)
        let t := eps * (rr + S)
        let onCircle := vs.all fun v =>
          let d2 := Spec.dist2 v rc
          decide ((if rr - t < 0 then 0 else (rr - t) * (rr - t)) ≤ d2) && decide (d2 ≤ (rr + t) * (rr + t))
        -- chord² = 2r²(1 − cos(2π/n)); the cosine enters as the exact value of a double
        let cs : Rat := (ratOfFloat (Float.cos (2 * 3.141592653589793 / Float.ofInt n))).getD 2
        let chord2 := 2 * rr * rr * (1 - cs)
        let ct := 8 * t * rr + t * t + chord2 / 1000000
        let chords := (cycP vs).all fun e => decide (absR (Spec.dist2 e.1 e.2 - chord2) ≤ ct)
        let turns := (cycP vs).zip (cycP (Spec.rot1 vs)) |>.map fun ef => Spec.cross ef.1.1 ef.1.2 ef.2.2
        let convex := rr == 0 || S * 1000 > rr * 1000000000 || turns.all (fun x => decide (0 < x)) || turns.all (fun x => decide (x < 0))
        if vs.length ≠ n.toNat then s!"SPEC {cls} {vs.length}-vertices-for-{n}-segments"
        else if !onCircle then s!"SPEC {cls} vertex-not-on-the-circle"
        else if !chords then s!"SPEC {cls} sides-not-equal-to-2r·sin(π/n)"
        else if !convex then s!"SPEC {cls} not-convex"
        else
          let fm := (mr.headD [])
          let fi := ring.map fltPt
          let sc := (if Float.abs fc.x ≤ Float.abs fc.y then Float.abs fc.y else Float.abs fc.x) + fr
          if fm.length == fi.length && (fm.zip fi).all (fun ab => fclose ab.2.x ab.1.x sc && fclose ab.2.y ab.1.y sc)
          then s!"OK {cls}" else s!"DIFF {cls} vertices-differ-from-model"
    | _, _, _ => s!"SPEC {cls} result-is-not-a-one-ring-polygon"
  | _, _ => s!"DIFF {cls} {" ".intercalate rhs}"

def judgeBnd (mn mx : Pt UInt64) (rhs : Tok) : String :=
  match ratPt mn, ratPt mx, rhs.map fvOfTok with
  | some a, some b, [some (.fin ar), some (.fin cx), some (.fin cy)] =>
    let wantA := (b.x - a.x) * (b.y - a.y)
    let wantC : P := ⟨(a.x + b.x) / 2, (a.y + b.y) / 2⟩
    if ar != wantA || cx != wantC.x || cy != wantC.y then s!"SPEC bounds area/centroid impl={ar},{cx},{cy} want={wantA},{wantC.x},{wantC.y}"
    else if ar != boundsArea a b || (⟨cx, cy⟩ : P) != boundsCentroid a b then "DIFF bounds model-differs"
    else "OK bounds"
  | _, _, _ => s!"SPEC bounds {" ".intercalate rhs}"

/-! `opgc` lines: `op.Area` and `op.Length` on an arbitrary geometry (nested collections) -/

mutual
def ratGeom : BGeom → Option (Geom Rat)
  | .point p => do let q ← ratPt p; pure (.point q)
  | .multiPoint ps => do let q ← ratRing ps; pure (.multiPoint q)
  | .lineString ps => do let q ← ratRing ps; pure (.lineString q)
  | .multiLineString ls => do let q ← ratPoly ls; pure (.multiLineString q)
  | .polygon ls => do let q ← ratPoly ls; pure (.polygon q)
  | .multiPolygon ps => do let q ← ratMPoly ps; pure (.multiPolygon q)
  | .collection gs => do let q ← ratGeomL gs; pure (.collection q)
  | .bounds a b => do let x ← ratPt a; let y ← ratPt b; pure (.bounds x y)
  | .nil => some .nil
def ratGeomL : List BGeom → Option (List (Geom Rat))
  | [] => some []
  | g :: gs => do let q ← ratGeom g; let r ← ratGeomL gs; pure (q :: r)
end

/-- `opgc <tag> <geometry> => <op.Area> <op.Length>`.  SPEC: `op.Length` = the sum of the segment lengths of
all line strings in the geometry (exact rational bounds); `op.Area` = the sum of shells minus holes of all
polygons in it when each is valid, wound alternately (the assumption `op.Area` documents) and `HolesFit`.
DIFF: against `opAreaGeom` (exact) / `opLengthGeom` (Float instance). -/
def judgeGC (tag : String) (g : BGeom) (rhs : Tok) : String :=
  let lines := SpecGC.lineLeaves g
  let nl := lines.length
  -- third token: `op.Centroid(g)`: `err` (its `default` case: every geometry but a Polygon) or `pt:X:Y`
  let centTok := (rhs.drop 2).headD ""
  let isPoly := match g with | .polygon _ => true | _ => false
  match ratGeom g, (rhs.take 2).map parseU64, lines.mapM ratRing with
  | some rg, [some a, some l], some rl =>
    let polys := SpecGC.polyLeaves rg
    let cs := polys.map fun p =>
      let order := orderOf (Spec.canon ((scaleInt [p]).headD []))
      (order.isSome, reorder (shellAt order) (Spec.canon p))
    let valid := cs.all fun c => c.1 && Spec.Alternating c.2 && Spec.HolesFit c.2
    let cls := s!"opgc-{tag}-{if valid then "valid" else "invalid"}-d{min (Geom.depth g) 9}-p{min polys.length 9}-l{min nl 9}"
    let il := Float.ofBits l
    let (lo, hi) := rl.foldl (fun (acc : Rat × Rat) l => let b := Spec.lengthBounds l; (acc.1 + b.1, acc.2 + b.2)) (0, 0)
    let okB (x : Float) : Bool := match ratOfFloat x with
      | some q => decide (lo * (1 - eps) ≤ q) && decide (q ≤ hi * (1 + eps))
      | none => false
    let ml : Float := opLengthGeom (Geom.map Float.ofBits g)
    match fvOfBits a with
    | .fin ia =>
      let exact := tag.startsWith "g"
      let scale := Spec.sumR (polys.flatten.map Spec.measure)
      let agree (x y : Rat) : Bool := if exact then x == y else close x y scale
      let want := Spec.sumR (cs.map fun c => Spec.area c.2)
      let ma := opAreaGeom rg
      if !okB il then s!"SPEC {cls} op.Length={il} outside [{lo.floor},{hi.ceil}]-ish exact bounds of the sum of segment lengths of the line strings in the geometry"
      else if valid && !agree ia want then s!"SPEC {cls} op.Area={ia} but sum of shells-minus-holes of the polygons in the geometry={want}"
      else if !agree ia ma then s!"DIFF {cls} op.Area impl={ia} model={ma}"
      else if !fclose il ml 0 then s!"DIFF {cls} op.Length impl={il} model={ml}"
      else if !isPoly && centTok != "err" then s!"DIFF {cls} op.Centroid of a geometry that is not a Polygon is not an error: {centTok}"
      else if isPoly && centTok == "err" then s!"DIFF {cls} op.Centroid of a Polygon is an error"
      else s!"OK {cls}"
    | _ => if valid then s!"SPEC {cls} non-finite-area {rhs}" else s!"DIFF {cls} non-finite-area {rhs}"
  | none, _, _ => "OK opgc-skipped"
  | _, _, _ => s!"SPEC opgc-{tag} {" ".intercalate rhs}"


def judgeToks (toks : Tok) : String :=
  let (lhs, rhs) := splitArrow toks
  let mods := rhs.filter (·.startsWith "modified:")
  let stale := rhs.filter (·.startsWith "stale:")
  let rhs := rhs.filter (fun t => !t.startsWith "modified:" && !t.startsWith "stale:")
  match lhs with
  | kind :: tag :: rest =>
    if rhs.head? == some "harness-panic" then s!"DIFF {kind} harness-panic" else
    -- the measures are functions of the shape: a call that changes its receiver (seen by comparing
    -- the receiver's memory bit for bit before and after) violates the property whatever it returns
    if !mods.isEmpty then s!"SPEC {kind}-{tag}-receiver-modified {" ".intercalate mods}" else
    -- history on one object: after the caller doubled every coordinate of the receiver in place (exact) the second
    -- answer was not the first one scaled (×2, areas ×4) bit for bit: the function answered for a shape it remembered
    if !stale.isEmpty then s!"SPEC {kind}-{tag}-stale-after-update the second call on the same object, after every coordinate was doubled in place, did not return the first answer scaled exactly ({" ".intercalate stale})" else
    match kind with
    | "area" | "cent" =>
      match Proto.pGeom 2 rest with
      | some (.polygon rs, _) =>
        match ratPoly rs with
        | some p => if kind == "area" then judgeArea tag p rhs else judgeCent tag p rhs
        | none => s!"OK {kind}-skipped"
      | _ => "BAD parse"
    | "marea" | "mcent" =>
      match Proto.pGeom 2 rest with
      | some (.multiPolygon ps, _) =>
        match ratMPoly ps with
        | some p => if kind == "marea" then judgeMArea tag p rhs else judgeMCent tag p rhs
        | none => s!"OK {kind}-skipped"
      | _ => "BAD parse"
    | "len" =>
      match Proto.pGeom 2 rest with
      | some (.lineString l, _) => judgeLen tag "LS" [l] rhs
      | some (.multiLineString ls, _) => judgeLen tag "MLS" ls rhs
      | _ => "BAD parse"
    | "dist" =>
      match Proto.pPt rest with
      | some (q, rest) =>
        match Proto.pGeom 2 rest with
        | some (.lineString l, _) => judgeDist tag "LS" q [l] rhs
        | some (.multiLineString ls, _) => judgeDist tag "MLS" q ls rhs
        | _ => "BAD parse"
      | none => "BAD parse"
    | "buf" =>
      match Proto.pPt rest with
      | some (c, [r, n]) =>
        match parseU64 r, n.toInt? with
        | some r, some n => judgeBuf c r n rhs
        | _, _ => "BAD parse"
      | _ => "BAD parse"
    | "opgc" =>
      match Proto.pGeom 6 rest with
      | some (g, _) => judgeGC tag g rhs
      | none => "BAD parse"
    | "bnd" =>
      match Proto.pGeom 2 rest with
      | some (.bounds a b, _) => judgeBnd a b rhs
      | _ => "BAD parse"
    | _ => "BAD line"
  | _ => "BAD line"

/-- `cc <normal line>`: the answer is the first one that differed from the answer computed alone when
8 goroutines repeated the call on private copies while 8 others hammered the same API (or the answer
computed alone when none differed); it is judged like the plain call, class prefix `conc-`. -/
def judgeLine (line : String) : String :=
  match tokens line with
  | "cc" :: rest =>
    match (judgeToks rest).splitOn " " with
    | k :: cls :: why => " ".intercalate (k :: ("conc-" ++ cls) :: why)
    | _ => "BAD line"
  | toks => (judgeOp toks).getD (judgeToks toks)

end GeomV.C03

/-- all non-empty input lines -/
partial def GeomV.C03.readLines (h : IO.FS.Stream) (acc : Array String) : IO (Array String) := do
  let line ← h.getLine
  if line.isEmpty then return acc
  let l := (line.trimAscii).toString
  GeomV.C03.readLines h (if l ≠ "" then acc.push l else acc)

/-- `judgeLine` is a pure function of one line, so the lines are judged in chunks on the thread pool
(one verdict per line, printed in input order). -/
def GeomV.C03.judgeAll (lines : Array String) (chunk : Nat := 16) : Array (Task (Array String)) :=
  (Array.range ((lines.size + chunk - 1) / chunk)).map fun c =>
    Task.spawn fun _ => (lines.extract (c * chunk) ((c + 1) * chunk)).map GeomV.C03.judgeLine

open GeomV GeomV.C03 in
def main (args : List String) : IO Unit := do
  let out ← IO.getStdout
  match args with
  | ["judge"] =>
    let lines ← readLines (← IO.getStdin) #[]
    for t in judgeAll lines do
      for v in t.get do out.putStrLn v
  | ["judge1"] => forEachLine fun l => out.putStrLn (judgeLine l)
  | _ => IO.eprintln "usage: geomv_c03 judge"
