import GeomV.C03.LemmasArea
import Mathlib.Tactic.FieldSimp

/-! Closed form of the centroid loops; centroid sums under respelling. -/
namespace GeomV.C03
open Spec
set_option linter.unusedSimpArgs false

theorem two_le_of_shoelace_ne {r : Ring} (h : shoelace2 r ≠ 0) : 2 ≤ r.length := by
  by_contra hc
  apply h
  rw [shoelace2_eq']
  match r, hc with
  | [], _ => rfl
  | [a], _ => simp [cyc, pairSum, crossF]; try ring
  | _ :: _ :: _, hc => simp at hc; try omega

theorem signedArea_eq {r : Ring} (h : shoelace2 r ≠ 0) : signedArea r = shoelace2 r / 2 := by
  have := two_le_of_shoelace_ne h
  unfold signedArea; rw [if_neg (by omega), goCyc_eq_cyc, cyc_shoeF_eq_crossF, shoelace2_eq']

theorem pairSum_closeIfOpen (f : P → P → Rat) (hf : ∀ a, f a a = 0) {r rc : Ring}
    (h : closeIfOpen r = .ok rc) : pairSum f rc = cyc f r := by
  cases r with
  | nil => simp [closeIfOpen] at h
  | cons a t =>
    cases t using List.reverseRecOn with
    | nil =>
      simp [closeIfOpen] at h; subst h; simp [cyc, pairSum, hf]
    | append_singleton t' z =>
      unfold closeIfOpen at h
      rw [getLast?_cons_snoc] at h
      simp only [List.head?_cons] at h
      by_cases hz : z = a
      · subst hz
        simp only [if_true] at h
        injection h with h; subst h
        show _ = pairSum f ((z :: (t' ++ [z])) ++ [z])
        have e : (z :: (t' ++ [z])) ++ [z] = (z :: t') ++ [z, z] := by simp
        rw [e, pairSum_snoc2, hf]; simp
      · simp only [if_neg hz] at h
        injection h with h; subst h; rfl

theorem closeIfOpen_ok {r : Ring} (h : r ≠ []) : ∃ rc, closeIfOpen r = .ok rc := by
  cases r with
  | nil => exact absurd rfl h
  | cons a t =>
    have : ∃ z, (a :: t).getLast? = some z := by
      cases hh : (a :: t).getLast? with
      | none => simp at hh
      | some z => exact ⟨z, rfl⟩
    obtain ⟨z, hz⟩ := this
    unfold closeIfOpen; rw [hz]; simp only [List.head?_cons]
    exact ⟨_, rfl⟩

theorem CAcc.add_same (s : CAcc) (cxn cyn a : Rat) (ha : a ≠ 0) :
    s.add cxn cyn a a = ⟨s.A + a, s.xA + cxn / 6, s.yA + cyn / 6, s.nan⟩ := by
  unfold CAcc.add; rw [if_neg ha]
  congr 1 <;> field_simp

/-- closed form of the `Polygon.Centroid` loop -/
theorem polygonCentroidAcc_ok (p : Poly) (h : ∀ r ∈ p, shoelace2 r ≠ 0) (s : CAcc) :
    polygonCentroidAcc p s = .ok ⟨s.A + (p.map fun r => shoelace2 r / 2).sum,
      s.xA + (p.map fun r => momX r / 6).sum, s.yA + (p.map fun r => momY r / 6).sum, s.nan⟩ := by
  induction p generalizing s with
  | nil => simp [polygonCentroidAcc]
  | cons r rest ih =>
    have hr := h r (by simp)
    have hne : r ≠ [] := by intro e; have := two_le_of_shoelace_ne hr; rw [e] at this; simp at this
    obtain ⟨rc, hrc⟩ := closeIfOpen_ok hne
    unfold polygonCentroidAcc
    rw [hrc]
    simp only [bind, Except.bind]
    rw [pairSum_closeIfOpen cxF (fun a => by unfold cxF; ring) hrc,
      pairSum_closeIfOpen cyF (fun a => by unfold cyF; ring) hrc, signedArea_eq hr,
      CAcc.add_same _ _ _ _ (by intro e; apply hr; linarith), ih (fun q hq => h q (by simp [hq]))]
    simp only [List.map_cons, List.sum_cons, momX_eq', momY_eq']
    congr 2 <;> ring


theorem momX_ap (s : Spell) (r : Ring) : momX (s.ap r) = (if s.rev then -1 else 1) * momX r := by
  rw [momX_eq', momX_eq', cyc_spell cxF (fun a b => cxF_anti a b)]
theorem momY_ap (s : Spell) (r : Ring) : momY (s.ap r) = (if s.rev then -1 else 1) * momY r := by
  rw [momY_eq', momY_eq', cyc_spell cyF (fun a b => cyF_anti a b)]

/-- the ring centroid does not depend on the spelling -/
theorem ringCentroid_ap (s : Spell) (r : Ring) : ringCentroid (s.ap r) = ringCentroid r := by
  unfold ringCentroid; rw [momX_ap, momY_ap, shoelace2_ap]
  cases s.rev <;> simp [neg_div_neg_eq]

theorem sum_map_mul (σ : Rat) (F : Ring → Rat) (p : Poly) :
    (p.map fun r => σ * F r).sum = σ * (p.map F).sum := by
  induction p with
  | nil => simp
  | cons r t ih => simp only [List.map_cons, List.sum_cons, ih]; ring

theorem sum_map_respell (F : Ring → Rat) (σ : Rat) (ss : List Spell) (p : Poly)
    (hlen : ss.length = p.length) (hF : ∀ s ∈ ss, ∀ r, F (s.ap r) = σ * F r) :
    ((respell ss p).map F).sum = σ * (p.map F).sum := by
  induction p generalizing ss with
  | nil => cases ss <;> simp [respell]
  | cons r t ih =>
    cases ss with
    | nil => simp at hlen
    | cons s st =>
      simp only [respell, List.zipWith_cons_cons, List.map_cons, List.sum_cons]
      rw [hF s (by simp)]
      have := ih st (by simpa using hlen) (fun q hq => hF q (by simp [hq]))
      simp only [respell] at this
      rw [this]; ring

theorem wmean_signed (p : Poly) (h : ∀ r ∈ p, shoelace2 r ≠ 0) :
    centroidSigned p = ⟨(p.map fun r => momX r / 6).sum / (p.map fun r => shoelace2 r / 2).sum,
                        (p.map fun r => momY r / 6).sum / (p.map fun r => shoelace2 r / 2).sum⟩ := by
  unfold centroidSigned wmean ringCentroid
  simp only [sumR_eq_sum, List.map_map]
  have e1 : (p.map ((fun x : Rat × Ring => x.1 * (momX x.2 / (3 * shoelace2 x.2))) ∘ fun r => (shoelace2 r / 2, r)))
      = p.map fun r => momX r / 6 := by
    apply List.map_congr_left; intro r hr; have := h r hr; simp only [Function.comp]; field_simp; ring
  have e2 : (p.map ((fun x : Rat × Ring => x.1 * (momY x.2 / (3 * shoelace2 x.2))) ∘ fun r => (shoelace2 r / 2, r)))
      = p.map fun r => momY r / 6 := by
    apply List.map_congr_left; intro r hr; have := h r hr; simp only [Function.comp]; field_simp; ring
  have e3 : (p.map ((fun x : Rat × Ring => x.1) ∘ fun r => (shoelace2 r / 2, r))) = p.map fun r => shoelace2 r / 2 := by
    apply List.map_congr_left; intro r _; rfl
  rw [e1, e2, e3]

theorem mem_respell {ss : List Spell} {p : Poly} {r' : Ring} (h : r' ∈ respell ss p) :
    ∃ s ∈ ss, ∃ r ∈ p, r' = s.ap r := by
  induction p generalizing ss with
  | nil => cases ss <;> simp [respell] at h
  | cons r t ih =>
    cases ss with
    | nil => simp [respell] at h
    | cons s st =>
      simp only [respell, List.zipWith_cons_cons, List.mem_cons] at h
      rcases h with h | h
      · exact ⟨s, by simp, r, by simp, h⟩
      · obtain ⟨s', hs', q, hq, e⟩ := ih h
        exact ⟨s', by simp [hs'], q, by simp [hq], e⟩

end GeomV.C03
