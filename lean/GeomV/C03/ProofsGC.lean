import GeomV.C03.ProofsOpArea
import GeomV.C03.ProofsReal
import GeomV.C03.ModelGC
import GeomV.C03.SpecGC
/-!
# C03 — `op.Area` and `op.Length` on arbitrary geometries (GeometryCollection cases of their type switches)

`opAreaGeom` / `opLengthGeom` (ModelGC.lean; tied to the regenerated cases in Ties.lean,
`C03_tie_op_Area_Geom`, `C03_tie_op_Length_Geom`) model the functions on every geometry, through any
nesting of collections.  Here:

* `C03_opArea_leaves` — `op.Area(g)` = Σ `op.Area(p)` over the polygons `g` consists of (every `math.Abs`
  on the way up is the identity because the partial sums are non-negative);
* `C03_opArea_geom` — under the assumption `op.Area` documents (each polygon wound alternately, in a common
  direction of its own, any start vertices, closed or not) and `HolesFit`: `op.Area(g)` = Σ shells − holes;
* `C03_opLength_leaves`, `C03_opLength_geom` (over ℝ) — `op.Length(g)` = the sum of the segment lengths of
  all line strings `g` consists of.
-/
namespace GeomV.C03
open Spec
set_option linter.unusedSimpArgs false

theorem opPolygonArea_nonneg (p : Poly) : 0 ≤ opPolygonArea p := by
  unfold opPolygonArea; rw [absR_eq_abs]; exact abs_nonneg _

theorem sum_opPolygonArea_nonneg (l : List Poly) : 0 ≤ (l.map opPolygonArea).sum := by
  apply list_sum_nonneg
  intro x hx
  rw [List.mem_map] at hx
  obtain ⟨q, _, rfl⟩ := hx
  exact opPolygonArea_nonneg q

theorem absR_of_nonneg {q : Rat} (h : 0 ≤ q) : absR q = q := by
  rw [absR_eq_abs, abs_of_nonneg h]

mutual
/-- **`op.Area` of any geometry is the sum of `op.Area` of the polygons it consists of.** -/
theorem C03_opArea_leaves : ∀ g : Geom Rat, opAreaGeom g = ((SpecGC.polyLeaves g).map opPolygonArea).sum
  | .polygon p => by simp [opAreaGeom, SpecGC.polyLeaves]
  | .multiPolygon mp => by
    simp only [opAreaGeom, SpecGC.polyLeaves, opMultiPolygonArea]
    exact absR_of_nonneg (sum_opPolygonArea_nonneg mp)
  | .collection gs => by
    simp only [opAreaGeom, SpecGC.polyLeaves]
    rw [opAreaAcc_leaves gs 0, zero_add]
    exact absR_of_nonneg (sum_opPolygonArea_nonneg _)
  | .point _ => by simp [opAreaGeom, SpecGC.polyLeaves]
  | .multiPoint _ => by simp [opAreaGeom, SpecGC.polyLeaves]
  | .lineString _ => by simp [opAreaGeom, SpecGC.polyLeaves]
  | .multiLineString _ => by simp [opAreaGeom, SpecGC.polyLeaves]
  | .bounds _ _ => by simp [opAreaGeom, SpecGC.polyLeaves]
  | .nil => by simp [opAreaGeom, SpecGC.polyLeaves]
theorem opAreaAcc_leaves : ∀ (gs : List (Geom Rat)) (a : Rat),
    opAreaAcc gs a = a + ((SpecGC.polyLeavesL gs).map opPolygonArea).sum
  | [], a => by simp [opAreaAcc, SpecGC.polyLeavesL]
  | g :: gs, a => by
    rw [opAreaAcc, opAreaAcc_leaves gs, C03_opArea_leaves g]
    simp [SpecGC.polyLeavesL, add_assoc]
end

/-- `op.Area` on a collection is the sum over its members (the `math.Abs` of the case is the identity) -/
theorem C03_opArea_collection (gs : List (Geom Rat)) :
    opAreaGeom (.collection gs) = (gs.map opAreaGeom).sum := by
  rw [C03_opArea_leaves]
  simp only [SpecGC.polyLeaves]
  induction gs with
  | nil => simp [SpecGC.polyLeavesL]
  | cons g t ih => simp [SpecGC.polyLeavesL, ih, C03_opArea_leaves g]

/-- **op.Area clause on arbitrary geometries**: the polygons of `g` (through multi-polygons and collections at
any depth) are spellings — a common direction each, any start vertices, closed or unclosed — of polygons wound
alternately (the assumption `op.Area` documents) with `HolesFit` → `op.Area(g)` is the sum of their shells
minus holes. -/
theorem C03_opArea_geom (g : Geom Rat) (base : MPoly) (sss : List (List Spell))
    (hlen : List.Forall₂ (fun ss p => ss.length = p.length) sss base)
    (hb : ∀ ss ∈ sss, ∃ b : Bool, ∀ s ∈ ss, s.rev = b)
    (hv : ∀ p ∈ base, Alternating p = true ∧ HolesFit p = true)
    (hleaves : SpecGC.polyLeaves g = List.zipWith respell sss base) :
    opAreaGeom g = Spec.marea base := by
  rw [C03_opArea_leaves, hleaves]
  have hmap : (List.zipWith respell sss base).map opPolygonArea = base.map Spec.area := by
    clear hleaves
    induction hlen with
    | nil => rfl
    | @cons ss p sst mpt hl _ ih =>
      simp only [List.zipWith_cons_cons, List.map_cons]
      obtain ⟨b, hbb⟩ := hb ss (by simp)
      rw [C03_opArea p ss hl b hbb (hv p (by simp)).1 (hv p (by simp)).2,
        ih (fun q hq => hb q (by simp [hq])) (fun q hq => hv q (by simp [hq]))]
  rw [hmap]; unfold Spec.marea; rw [sumR_eq_sum]

/-- non-vacuity: a collection holding the alternating example polygon, a nested collection with the same
polygon all-reversed and rotated, a line string and a point -/
example :
    let ss : List Spell := exPolyAlt.map fun _ => ⟨1, true, true⟩
    let g : Geom Rat := .collection [.polygon exPolyAlt, .lineString [⟨0,0⟩, ⟨3,4⟩],
      .collection [.point ⟨1,1⟩, .multiPolygon [respell ss exPolyAlt]]]
    SpecGC.polyLeaves g = List.zipWith respell [exPolyAlt.map fun _ => ⟨0, false, false⟩, ss] [exPolyAlt, exPolyAlt]
      ∧ opAreaGeom g = Spec.marea [exPolyAlt, exPolyAlt] := by
  decide +kernel

/-! ### `op.Length` over ℝ -/

mutual
/-- **`op.Length` of any geometry is the sum of the lengths of the line strings it consists of** (exact real
arithmetic in place of float64). -/
theorem C03_opLength_leaves : ∀ g : Geom ℝ, opLengthGeom g = ((SpecGC.lineLeaves g).map lineStringLength).sum
  | .lineString l => by simp [opLengthGeom, SpecGC.lineLeaves]
  | .multiLineString ls => by simp [opLengthGeom, SpecGC.lineLeaves, C03_length_multi]
  | .collection gs => by
    simp only [opLengthGeom, SpecGC.lineLeaves]
    rw [opLengthAcc_leaves gs _]
    simp
  | .point _ => by simp [opLengthGeom, SpecGC.lineLeaves]
  | .multiPoint _ => by simp [opLengthGeom, SpecGC.lineLeaves]
  | .polygon _ => by simp [opLengthGeom, SpecGC.lineLeaves]
  | .multiPolygon _ => by simp [opLengthGeom, SpecGC.lineLeaves]
  | .bounds _ _ => by simp [opLengthGeom, SpecGC.lineLeaves]
  | .nil => by simp [opLengthGeom, SpecGC.lineLeaves]
theorem opLengthAcc_leaves : ∀ (gs : List (Geom ℝ)) (a : ℝ),
    opLengthAcc gs a = a + ((SpecGC.lineLeavesL gs).map lineStringLength).sum
  | [], a => by simp [opLengthAcc, SpecGC.lineLeavesL]
  | g :: gs, a => by
    rw [opLengthAcc, opLengthAcc_leaves gs, C03_opLength_leaves g]
    simp [SpecGC.lineLeavesL, add_assoc]
end

/-- **Length clause for `op.Length` on arbitrary geometries**: the sum, over all line strings of `g`, of the
Euclidean lengths of their consecutive segments. -/
theorem C03_opLength_geom (g : Geom ℝ) :
    opLengthGeom g = ((SpecGC.lineLeaves g).map fun l =>
      ((l.zip l.tail).map fun s => Real.sqrt ((s.2.x - s.1.x) ^ 2 + (s.2.y - s.1.y) ^ 2)).sum).sum := by
  rw [C03_opLength_leaves]
  congr 1
  apply List.map_congr_left
  intro l _
  exact C03_length l

end GeomV.C03
