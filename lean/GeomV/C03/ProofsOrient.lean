import GeomV.C03.ProofsBBox
import GeomV.C03.ModelOp
/-!
# C03 — `op.orientation` has the sign of the shoelace sum (partial: rings fan-monotone from their extreme vertex)

`orientation` (op/properties.go) scans a ring for its rightmost-lowest vertex `v` and returns the turn
`isLeft(previous, v, next)`; `FixOrientation` and `op.pointInPolygon` take its sign for the winding direction of the
ring.  For simple rings that sign is the sign of the shoelace sum — in general a Jordan-type fact, NOT proved here.
Proved (`C03_op_orientation_fan_partial`): the rings for which, seen from `v`, the other vertices come in angular
order — all fan triangles `v a b` counter-clockwise-or-flat, or all clockwise-or-flat; every convex ring is of this
kind — handed over closed and starting at ANY vertex:

* the scan (`opScan`) ends on `v` — on the closing vertex when the ring starts at `v` (ties go to the later index) —
  whatever vertex the ring starts at (`opOrientation1_start`, `opOrientation1_mid`: `opScan_append`, `opScan_skip`,
  `opScan_inv`), the closed-ring quirk `rmin == 0 || rmin == len-1` picks the right neighbours, no index fault;
* geometric core (`orient_fan_ccw`, `orient_fan_cw`): all other vertices lie in the half-plane `Above v` (angles in
  (0, π]); there `cross ≥ 0` is transitive (`cr_trans`, from `(a×c)·b_y = (a×b)·c_y + (b×c)·a_y`) and strict exactly
  when one step is (`cr_strict`), so along the chain the turn between the first and the last vertex has the sign of the
  sum of the fan triangles (`fan_chain`), which is the shoelace sum (`shoelace2_fan`, fan decomposition `cyc_fan`).
-/
set_option linter.unusedSimpArgs false
namespace GeomV.C03
open Spec

/-- twice the signed area of the triangle `v a b` -/
def cr (v a b : P) : Rat := (a.x - v.x) * (b.y - v.y) - (a.y - v.y) * (b.x - v.x)

/-- `a` lies strictly above `v`, or level with it and strictly to the left: the half-plane of directions
(angles in (0, π]) that all other vertices of a ring have as seen from its rightmost-lowest vertex `v` -/
def Above (v a : P) : Prop := v.y < a.y ∨ (a.y = v.y ∧ a.x < v.x)

theorem cr_identity (v a b c : P) :
    cr v a c * (b.y - v.y) = cr v a b * (c.y - v.y) + cr v b c * (a.y - v.y) := by
  unfold cr; ring

theorem above_y {v a : P} (h : Above v a) : 0 ≤ a.y - v.y := by
  rcases h with h | ⟨h, _⟩ <;> linarith

theorem cr_trans {v a b c : P} (ha : Above v a) (hb : Above v b) (hc : Above v c)
    (h1 : 0 ≤ cr v a b) (h2 : 0 ≤ cr v b c) : 0 ≤ cr v a c := by
  have hay := above_y ha; have hcy := above_y hc
  rcases hb with hb | ⟨hby, hbx⟩
  · have hpos : 0 < b.y - v.y := by linarith
    have := cr_identity v a b c
    have hr : 0 ≤ cr v a b * (c.y - v.y) + cr v b c * (a.y - v.y) :=
      add_nonneg (mul_nonneg h1 hcy) (mul_nonneg h2 hay)
    rw [← this] at hr
    by_contra hneg
    push Not at hneg
    nlinarith
  · -- b level with v, to the left
    have e2 : cr v b c = (b.x - v.x) * (c.y - v.y) := by unfold cr; rw [hby]; ring
    have hbx' : b.x - v.x < 0 := by linarith
    have hcy0 : c.y - v.y = 0 := by
      rw [e2] at h2
      by_contra hne
      have : 0 < c.y - v.y := lt_of_le_of_ne hcy (Ne.symm hne)
      nlinarith
    have hcx : c.x - v.x < 0 := by
      rcases hc with hc | ⟨_, hc⟩
      · linarith
      · linarith
    have e3 : cr v a c = -((a.y - v.y) * (c.x - v.x)) := by unfold cr; rw [hcy0]; ring
    rw [e3]
    have := mul_nonpos_of_nonneg_of_nonpos hay hcx.le
    linarith

theorem above_level {v a : P} (h : Above v a) (h0 : a.y - v.y = 0) : a.x - v.x < 0 := by
  rcases h with h | ⟨_, h⟩ <;> linarith

theorem cr_strict {v a b c : P} (ha : Above v a) (hb : Above v b) (hc : Above v c)
    (h1 : 0 ≤ cr v a b) (h2 : 0 ≤ cr v b c) : 0 < cr v a c ↔ (0 < cr v a b ∨ 0 < cr v b c) := by
  have hay := above_y ha; have hcy := above_y hc
  rcases hb with hb | ⟨hby, hbx⟩
  · have hB : 0 < b.y - v.y := by linarith
    have hid := cr_identity v a b c
    -- a level with v is impossible: cr v a b would be negative
    have hA : 0 < a.y - v.y := by
      rcases lt_or_eq_of_le hay with h | h
      · exact h
      · exfalso
        have hax := above_level ha h.symm
        have e : cr v a b = (a.x - v.x) * (b.y - v.y) := by unfold cr; rw [← h]; ring
        rw [e] at h1; nlinarith
    constructor
    · intro hac
      by_contra hno
      push Not at hno
      have e1 : cr v a b = 0 := le_antisymm hno.1 h1
      have e2 : cr v b c = 0 := le_antisymm hno.2 h2
      rw [e1, e2] at hid
      simp at hid
      rcases hid with h | h
      · linarith
      · linarith
    · intro h
      have hr : 0 < cr v a b * (c.y - v.y) + cr v b c * (a.y - v.y) := by
        rcases h with h | h
        · rcases lt_or_eq_of_le hcy with hC | hC
          · have := mul_pos h hC
            have := mul_nonneg h2 hay
            linarith
          · -- c level with v: cr v b c > 0
            have hcx := above_level hc hC.symm
            have e : cr v b c = -((b.y - v.y) * (c.x - v.x)) := by unfold cr; rw [← hC]; ring
            have hbc : 0 < cr v b c := by rw [e]; nlinarith
            have := mul_pos hbc hA
            have := mul_nonneg h1 hcy
            linarith
        · have := mul_pos h hA
          have := mul_nonneg h1 hcy
          linarith
      rw [← hid] at hr
      by_contra hneg
      push Not at hneg
      nlinarith
  · have e2 : cr v b c = (b.x - v.x) * (c.y - v.y) := by unfold cr; rw [hby]; ring
    have hbx' : b.x - v.x < 0 := by linarith
    have hcy0 : c.y - v.y = 0 := by
      rw [e2] at h2
      by_contra hne
      have : 0 < c.y - v.y := lt_of_le_of_ne hcy (Ne.symm hne)
      nlinarith
    have hcx := above_level hc hcy0
    have e3 : cr v a c = -((a.y - v.y) * (c.x - v.x)) := by unfold cr; rw [hcy0]; ring
    have e1 : cr v a b = -((a.y - v.y) * (b.x - v.x)) := by unfold cr; rw [hby]; ring
    have e2' : cr v b c = 0 := by rw [e2, hcy0]; ring
    rw [e3, e1, e2']
    constructor
    · intro h
      left
      have hA : 0 < a.y - v.y := by
        rcases lt_or_eq_of_le hay with h' | h'
        · exact h'
        · rw [← h'] at h; simp at h
      nlinarith
    · intro h
      rcases h with h | h
      · have hA : 0 < a.y - v.y := by
          rcases lt_or_eq_of_le hay with h' | h'
          · exact h'
          · rw [← h'] at h; simp at h
        nlinarith
      · exact absurd h (lt_irrefl 0)

theorem cr_self (v a : P) : cr v a a = 0 := by unfold cr; ring

/-- consecutive fan triangles `v a b` all counter-clockwise or flat -/
def FanUp (v : P) : List P → Prop
  | a :: b :: t => 0 ≤ cr v a b ∧ FanUp v (b :: t)
  | _ => True

theorem fan_chain (v : P) : ∀ (l : List P) (a : P), (∀ x ∈ a :: l, Above v x) → FanUp v (a :: l) →
    0 ≤ pairSum (cr v) (a :: l) ∧ 0 ≤ cr v a ((a :: l).getLast (by simp)) ∧
      (0 < pairSum (cr v) (a :: l) ↔ 0 < cr v a ((a :: l).getLast (by simp))) := by
  intro l
  induction l with
  | nil => intro a _ _; simp [pairSum, cr_self]
  | cons b t ih =>
    intro a hab hf
    obtain ⟨h1, hf'⟩ := hf
    have hA := hab a (by simp)
    have hB := hab b (by simp)
    obtain ⟨hs, hl, hiff⟩ := ih b (fun x hx => hab x (by simp [hx])) hf'
    have hZ : Above v ((b :: t).getLast (by simp)) := hab _ (by simp [List.getLast_mem])
    rw [pairSum_cons_cons, List.getLast_cons_cons]
    refine ⟨by linarith, cr_trans hA hB hZ h1 hl, ?_⟩
    rw [cr_strict hA hB hZ h1 hl, ← hiff]
    constructor
    · intro h
      by_contra hno
      push Not at hno
      linarith [hno.1, hno.2]
    · intro h
      rcases h with h | h <;> linarith

/-- consecutive fan triangles all clockwise or flat -/
def FanDown (v : P) : List P → Prop
  | a :: b :: t => 0 ≤ cr v b a ∧ FanDown v (b :: t)
  | _ => True

theorem fan_chain_down (v : P) : ∀ (l : List P) (a : P), (∀ x ∈ a :: l, Above v x) → FanDown v (a :: l) →
    0 ≤ pairSum (fun a b => cr v b a) (a :: l) ∧ 0 ≤ cr v ((a :: l).getLast (by simp)) a ∧
      (0 < pairSum (fun a b => cr v b a) (a :: l) ↔ 0 < cr v ((a :: l).getLast (by simp)) a) := by
  intro l
  induction l with
  | nil => intro a _ _; simp [pairSum, cr_self]
  | cons b t ih =>
    intro a hab hf
    obtain ⟨h1, hf'⟩ := hf
    have hA := hab a (by simp)
    have hB := hab b (by simp)
    obtain ⟨hs, hl, hiff⟩ := ih b (fun x hx => hab x (by simp [hx])) hf'
    have hZ : Above v ((b :: t).getLast (by simp)) := hab _ (by simp [List.getLast_mem])
    rw [pairSum_cons_cons, List.getLast_cons_cons]
    refine ⟨by linarith, cr_trans hZ hB hA hl h1, ?_⟩
    rw [cr_strict hZ hB hA hl h1, ← hiff]
    constructor
    · intro h
      by_contra hno
      push Not at hno
      linarith [hno.1, hno.2]
    · intro h
      rcases h with h | h <;> linarith

theorem cr_eq_tri (v a b : P) : cr v a b = crossF v a + crossF a b + crossF b v := by
  unfold cr crossF; ring

theorem cr_swap (v a b : P) : cr v b a = -cr v a b := by unfold cr; ring

/-- the shoelace sum of a ring written from the vertex `v` is the sum of its fan triangles -/
theorem shoelace2_fan (v : P) (ps : List P) : shoelace2 (v :: ps) = pairSum (cr v) ps := by
  rw [shoelace2_eq', cyc_fan crossF crossF_anti]
  congr 1
  funext a b
  exact (cr_eq_tri v a b).symm

theorem opIsLeft_eq_cr (v a z : P) : opIsLeft z v a = cr v a z := by
  unfold opIsLeft cr; ring

/-- **geometric core, counter-clockwise**: all other vertices in the half-plane of `v` (it is the rightmost-lowest
vertex), consecutive fan triangles counter-clockwise or flat → the turn at `v` (what `orientation` computes:
`isLeft(previous, v, next)`) and the shoelace sum are both ≥ 0 and positive together. -/
theorem orient_fan_ccw (v p1 : P) (rest : List P) (hab : ∀ x ∈ p1 :: rest, Above v x) (hf : FanUp v (p1 :: rest)) :
    0 ≤ shoelace2 (v :: p1 :: rest) ∧ 0 ≤ opIsLeft ((p1 :: rest).getLast (by simp)) v p1 ∧
      (0 < shoelace2 (v :: p1 :: rest) ↔ 0 < opIsLeft ((p1 :: rest).getLast (by simp)) v p1) := by
  rw [shoelace2_fan, opIsLeft_eq_cr]
  exact fan_chain v rest p1 hab hf

/-- **geometric core, clockwise** -/
theorem orient_fan_cw (v p1 : P) (rest : List P) (hab : ∀ x ∈ p1 :: rest, Above v x) (hf : FanDown v (p1 :: rest)) :
    shoelace2 (v :: p1 :: rest) ≤ 0 ∧ opIsLeft ((p1 :: rest).getLast (by simp)) v p1 ≤ 0 ∧
      (shoelace2 (v :: p1 :: rest) < 0 ↔ opIsLeft ((p1 :: rest).getLast (by simp)) v p1 < 0) := by
  have h := fan_chain_down v rest p1 hab hf
  have e : pairSum (fun a b => cr v b a) (p1 :: rest) = -pairSum (cr v) (p1 :: rest) := by
    rw [← pairSum_neg]; congr 1; funext a b; exact cr_swap v a b
  rw [shoelace2_fan, opIsLeft_eq_cr]
  rw [e, cr_swap v p1] at h
  obtain ⟨h1, h2, h3⟩ := h
  refine ⟨by linarith, by linarith, ?_⟩
  constructor
  · intro h; have := h3.mp (by linarith); linarith
  · intro h; have := h3.mpr (by linarith); linarith

/-! ### the scan of `orientation` -/

theorem opScan_append (l1 l2 : List P) : ∀ (i : Nat) (s : Nat × Rat × Rat),
    opScan (l1 ++ l2) i s = opScan l2 (i + l1.length) (opScan l1 i s) := by
  induction l1 with
  | nil => intro i s; simp [opScan]
  | cons p t ih =>
    intro i s
    obtain ⟨rm, xm, ym⟩ := s
    simp only [List.cons_append, opScan, List.length_cons]
    have e : i + (t.length + 1) = i + 1 + t.length := by omega
    split
    · rw [ih, e]
    · split
      · rw [ih, e]
      · rw [ih, e]

theorem opScan_skip (v : P) (l : List P) (h : ∀ p ∈ l, Above v p) : ∀ (i rm : Nat),
    opScan l i (rm, v.x, v.y) = (rm, v.x, v.y) := by
  induction l with
  | nil => intro i rm; simp [opScan]
  | cons p t ih =>
    intro i rm
    have hp := h p (by simp)
    have ht := ih (fun q hq => h q (by simp [hq]))
    simp only [opScan]
    rcases hp with hp | ⟨hy, hx⟩
    · rw [if_pos hp]; exact ht _ _
    · rw [if_neg (by rw [hy]; exact lt_irrefl _), if_pos ⟨hy, hx⟩]; exact ht _ _

theorem opScan_self (v : P) (i rm : Nat) : opScan [v] i (rm, v.x, v.y) = (i, v.x, v.y) := by
  simp [opScan]

theorem opIdx_nat (r : Ring) (k : Nat) (p : P) (h : r[k]? = some p) : opIdx r (k : Int) = .ok p := by
  unfold opIdx
  rw [if_neg (by omega)]
  simp [h]

theorem getElem?_cons_append_length (w : P) : ∀ (v : P) (l : List P) (h : l ≠ []),
    (v :: l ++ [w])[l.length]? = some (l.getLast h)
  | _, [a], _ => by simp
  | _, a :: b :: t, _ => by
    have := getElem?_cons_append_length w a (b :: t) (by simp)
    simpa using this

/-- `orientation` on a closed ring spelled from its rightmost-lowest vertex `v` (all other vertices in the half-plane
of `v`): the scan ends on the closing vertex and the turn is taken at `v` between the last and the first other vertex -/
theorem opOrientation1_start (v p1 : P) (rest : List P) (hab : ∀ x ∈ p1 :: rest, Above v x) :
    opOrientation1 (v :: (p1 :: rest) ++ [v]) = .ok (opIsLeft ((p1 :: rest).getLast (by simp)) v p1) := by
  have hscan : opScan (v :: (p1 :: rest) ++ [v]) 0 (0, v.x, v.y) = ((p1 :: rest).length + 1, v.x, v.y) := by
    have e : v :: (p1 :: rest) ++ [v] = [v] ++ ((p1 :: rest) ++ [v]) := by simp
    rw [e, opScan_append, opScan_self, opScan_append, opScan_skip v _ hab, opScan_self]
    simp; omega
  unfold opOrientation1
  have h0 : opIdx (v :: (p1 :: rest) ++ [v]) 0 = .ok v := opIdx_nat _ 0 v (by simp)
  simp only [h0, bind, Except.bind, hscan]
  have hn : ((v :: (p1 :: rest) ++ [v]).length : Int) = ((p1 :: rest).length : Int) + 2 := by simp; omega
  rw [if_pos (Or.inr (by rw [hn]; push_cast; ring))]
  have ha : opIdx (v :: (p1 :: rest) ++ [v]) (((v :: (p1 :: rest) ++ [v]).length : Int) - 2) =
      .ok ((p1 :: rest).getLast (by simp)) := by
    have : (((v :: (p1 :: rest) ++ [v]).length : Int) - 2) = (((p1 :: rest).length : Nat) : Int) := by rw [hn]; ring
    rw [this]
    apply opIdx_nat
    exact getElem?_cons_append_length v v (p1 :: rest) (by simp)
  have hc : opIdx (v :: (p1 :: rest) ++ [v]) 1 = .ok p1 := opIdx_nat _ 1 p1 (by simp)
  rw [ha]
  simp only [hc, pure, Except.pure]

theorem opScan_inv (Q : P → Prop) (l : List P) (hl : ∀ p ∈ l, Q p) : ∀ (i rm : Nat) (x y : Rat), Q ⟨x, y⟩ →
    Q ⟨(opScan l i (rm, x, y)).2.1, (opScan l i (rm, x, y)).2.2⟩ := by
  induction l with
  | nil => intro i rm x y h; simpa [opScan] using h
  | cons p t ih =>
    intro i rm x y h
    have ht := ih (fun q hq => hl q (by simp [hq]))
    simp only [opScan]
    split
    · exact ht _ _ _ _ h
    · split
      · exact ht _ _ _ _ h
      · exact ht _ _ _ _ (hl p (by simp))

theorem rotN_length_append (l1 : List P) : ∀ l2 : List P, rotN l1.length (l1 ++ l2) = l2 ++ l1 := by
  induction l1 with
  | nil => intro l2; simp [rotN]
  | cons a t ih =>
    intro l2
    show rotN t.length (rot1 (a :: (t ++ l2))) = _
    have : rot1 (a :: (t ++ l2)) = t ++ (l2 ++ [a]) := by simp [rot1]
    rw [this, ih]; simp

/-- `orientation` on a closed ring that starts at another vertex `a0`: the scan ends on `v` and the turn is taken
between its cyclic neighbours -/
theorem opOrientation1_mid (v a0 : P) (pre' post : List P)
    (hpre : ∀ x ∈ a0 :: pre', Above v x) (hpost : ∀ x ∈ post, Above v x) :
    opOrientation1 ((a0 :: pre') ++ v :: post ++ [a0]) =
      .ok (opIsLeft ((a0 :: pre').getLast (by simp)) v ((post ++ [a0]).head (by simp))) := by
  have ha0 := hpre a0 (by simp)
  have htail : ∀ x ∈ post ++ [a0], Above v x := by
    intro x hx
    rcases List.mem_append.mp hx with h | h
    · exact hpost x h
    · simp at h; rw [h]; exact ha0
  have hscan : opScan ((a0 :: pre') ++ v :: post ++ [a0]) 0 (0, a0.x, a0.y) = ((a0 :: pre').length, v.x, v.y) := by
    have e : (a0 :: pre') ++ v :: post ++ [a0] = (a0 :: pre') ++ ([v] ++ (post ++ [a0])) := by simp
    rw [e, opScan_append, opScan_append]
    have hQ := opScan_inv (Above v) (a0 :: pre') hpre 0 0 a0.x a0.y ha0
    generalize opScan (a0 :: pre') 0 (0, a0.x, a0.y) = s1 at hQ
    obtain ⟨rm, x, y⟩ := s1
    simp only at hQ
    have hstep : opScan [v] (0 + (a0 :: pre').length) (rm, x, y) = ((a0 :: pre').length, v.x, v.y) := by
      simp only [opScan, Nat.zero_add]
      rcases hQ with h | ⟨hy, hx⟩
      · simp only at h
        rw [if_neg (by intro hc; exact absurd (lt_trans h hc) (lt_irrefl _)),
          if_neg (by intro hc; rw [hc.1] at h; exact lt_irrefl _ h)]
      · simp only at hy hx
        rw [if_neg (by rw [hy]; exact lt_irrefl _),
          if_neg (by intro hc; exact absurd (lt_trans hx hc.2) (lt_irrefl _))]
    rw [hstep, opScan_skip v _ htail]
  unfold opOrientation1
  have h0 : opIdx ((a0 :: pre') ++ v :: post ++ [a0]) 0 = .ok a0 := opIdx_nat _ 0 a0 (by simp)
  simp only [h0, bind, Except.bind, hscan]
  have hlen : (((a0 :: pre') ++ v :: post ++ [a0]).length : Int) = ((a0 :: pre').length : Int) + (post.length : Int) + 2 := by
    simp; omega
  rw [if_neg (by
    intro hc
    rcases hc with hc | hc
    · simp at hc
    · rw [hlen] at hc; omega)]
  have ha : opIdx ((a0 :: pre') ++ v :: post ++ [a0]) ((((a0 :: pre').length : Nat) : Int) - 1) =
      .ok ((a0 :: pre').getLast (by simp)) := by
    have : ((((a0 :: pre').length : Nat) : Int) - 1) = ((pre'.length : Nat) : Int) := by simp
    rw [this]
    apply opIdx_nat
    rw [List.append_assoc, List.getElem?_append_left (by simp)]
    simp [List.getLast_eq_getElem]
  have hb : opIdx ((a0 :: pre') ++ v :: post ++ [a0]) (((a0 :: pre').length : Nat) : Int) = .ok v := by
    apply opIdx_nat
    rw [List.append_assoc, List.getElem?_append_right (by simp)]
    simp
  have hc : opIdx ((a0 :: pre') ++ v :: post ++ [a0]) ((((a0 :: pre').length : Nat) : Int) + 1) =
      .ok ((post ++ [a0]).head (by simp)) := by
    have : ((((a0 :: pre').length : Nat) : Int) + 1) = (((a0 :: pre').length + 1 : Nat) : Int) := by push_cast; ring
    rw [this]
    apply opIdx_nat
    rw [List.append_assoc, List.getElem?_append_right (by simp)]
    simp [List.head_eq_getElem]
  rw [ha]
  simp only [hb, hc, pure, Except.pure]

theorem shoelace2_closeRing_cut (v : P) (post pre : List P) :
    shoelace2 (closeRing (pre ++ v :: post)) = shoelace2 (v :: post ++ pre) := by
  have h := shoelace2_ap ⟨(v :: post).length, false, true⟩ ((v :: post) ++ pre)
  have e : Spec.Spell.ap ⟨(v :: post).length, false, true⟩ ((v :: post) ++ pre) = closeRing (pre ++ v :: post) := by
    simp only [Spec.Spell.ap]
    rw [rotN_length_append]
    simp
  rw [e] at h
  rw [h]; simp

/-- the sign statement for a turn `o` and a shoelace sum `s` that are both ≥ 0 (or both ≤ 0) and non-zero together -/
theorem sign_agree_of_ccw {o s : Rat} (h : 0 ≤ s ∧ 0 ≤ o ∧ (0 < s ↔ 0 < o)) : (0 < o ↔ 0 < s) ∧ (o < 0 ↔ s < 0) :=
  ⟨h.2.2.symm, ⟨fun ho => absurd ho (not_lt.mpr h.2.1), fun hs => absurd hs (not_lt.mpr h.1)⟩⟩

theorem sign_agree_of_cw {o s : Rat} (h : s ≤ 0 ∧ o ≤ 0 ∧ (s < 0 ↔ o < 0)) : (0 < o ↔ 0 < s) ∧ (o < 0 ↔ s < 0) :=
  ⟨⟨fun ho => absurd ho (not_lt.mpr h.2.1), fun hs => absurd hs (not_lt.mpr h.1)⟩, h.2.2.symm⟩

/-- **`op.orientation` has the sign of the shoelace sum — rings that are fan-monotone from their rightmost-lowest
vertex (every convex ring; partial case of "for simple rings").**  `v` is the rightmost-lowest vertex (every other
vertex is higher, or level and to the left); going round the ring from `v` (`post`, then `pre`) the fan triangles
`v a b` are all counter-clockwise-or-flat or all clockwise-or-flat; the ring is handed to `orientation` closed and
starting at ANY of its vertices (`pre ++ v :: post`, closing vertex repeated).  Then `orientation` returns, without
fault, a number that is positive / negative / zero exactly when the shoelace sum of the ring is. -/
theorem C03_op_orientation_fan_partial (v : P) (post pre : List P) (hne : post ++ pre ≠ [])
    (hab : ∀ x ∈ post ++ pre, Above v x) (hfan : FanUp v (post ++ pre) ∨ FanDown v (post ++ pre)) :
    ∃ o, opOrientation1 (closeRing (pre ++ v :: post)) = .ok o ∧
      (0 < o ↔ 0 < shoelace2 (closeRing (pre ++ v :: post))) ∧
      (o < 0 ↔ shoelace2 (closeRing (pre ++ v :: post)) < 0) := by
  rw [shoelace2_closeRing_cut]
  -- the turn at v between its cyclic neighbours
  have key : ∀ (p1 : P) (rest : List P), post ++ pre = p1 :: rest →
      opOrientation1 (closeRing (pre ++ v :: post)) = .ok (opIsLeft ((p1 :: rest).getLast (by simp)) v p1) := by
    intro p1 rest hps
    cases pre with
    | nil =>
      simp only [List.append_nil] at hps
      subst hps
      have := opOrientation1_start v p1 rest (by simpa using hab)
      simpa [closeRing] using this
    | cons a0 pre' =>
      have hpre : ∀ x ∈ a0 :: pre', Above v x := fun x hx => hab x (List.mem_append_right _ hx)
      have hpost : ∀ x ∈ post, Above v x := fun x hx => hab x (List.mem_append_left _ hx)
      have h := opOrientation1_mid v a0 pre' post hpre hpost
      have e : closeRing ((a0 :: pre') ++ v :: post) = (a0 :: pre') ++ v :: post ++ [a0] := by simp [closeRing]
      rw [e, h]
      have hl : (p1 :: rest).getLast (by simp) = (a0 :: pre').getLast (by simp) := by
        have : (post ++ a0 :: pre').getLast (by simp) = (a0 :: pre').getLast (by simp) :=
          List.getLast_append_of_ne_nil _ (by simp)
        rw [← this]; congr 1; exact hps.symm
      have hh : (post ++ [a0]).head (by simp) = p1 := by
        cases post with
        | nil => simp at hps ⊢; exact hps.1
        | cons b t => simp at hps ⊢; exact hps.1
      rw [hl, hh]
  cases hps : post ++ pre with
  | nil => exact absurd hps hne
  | cons p1 rest =>
    refine ⟨_, key p1 rest hps, ?_⟩
    have hab' : ∀ x ∈ p1 :: rest, Above v x := by rw [← hps]; exact hab
    have e : v :: post ++ pre = v :: p1 :: rest := by simp [hps]
    rw [e]
    rcases hfan with hf | hf
    · rw [hps] at hf
      exact sign_agree_of_ccw (orient_fan_ccw v p1 rest hab' hf)
    · rw [hps] at hf
      exact sign_agree_of_cw (orient_fan_cw v p1 rest hab' hf)

instance (v a : P) : Decidable (Above v a) := by unfold Above; infer_instance

/-- non-vacuity: the convex pentagon (4,0),(6,3),(3,6),(0,4),(1,1) — rightmost-lowest vertex (4,0) — handed over closed,
starting at (0,4), counter-clockwise: `orientation` = 11 > 0 and the shoelace sum is 43 > 0; and clockwise -/
example :
    let v : P := ⟨4,0⟩; let post : List P := [⟨6,3⟩, ⟨3,6⟩]; let pre : List P := [⟨0,4⟩, ⟨1,1⟩]
    (∀ x ∈ post ++ pre, Above v x) ∧ FanUp v (post ++ pre) ∧
      opOrientation1 (closeRing (pre ++ v :: post)) = .ok 11 ∧ shoelace2 (closeRing (pre ++ v :: post)) = 43 := by
  refine ⟨by decide +kernel, by simp [FanUp, cr]; norm_num, by decide +kernel, by decide +kernel⟩
example :
    let v : P := ⟨4,0⟩; let post : List P := [⟨1,1⟩, ⟨0,4⟩]; let pre : List P := [⟨3,6⟩, ⟨6,3⟩]
    (∀ x ∈ post ++ pre, Above v x) ∧ FanDown v (post ++ pre) ∧
      opOrientation1 (closeRing (pre ++ v :: post)) = .ok (-11) ∧ shoelace2 (closeRing (pre ++ v :: post)) = -43 := by
  refine ⟨by decide +kernel, by simp [FanDown, cr]; norm_num, by decide +kernel, by decide +kernel⟩


end GeomV.C03
