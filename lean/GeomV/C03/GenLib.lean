import GeomV.C03.Model
/-!
# Go constructs used by the regenerated definitions (`Gen.lean`) of C03

`harness/cmd/c03 extract` renders the measure code of area.go, op/properties.go, linestring.go,
multilinestring.go, simplify.go, point.go and bounds.go from the Go source of the tree under test
into the monad `M = Except Fault`: every Go construct that can panic (`a[i]`, `a[i] = v`,
`a[lo:hi]`, `a[lo:hi:max]`, `make(T, n)`, integer `%`, `panic(...)`) is a faulting operation here,
nothing is totalised.  Slices are values (`List`); the capacity of a slice is taken to be its length
(`a[lo:hi]` with `hi > len(a)` faults); aliasing is not modelled (the harness observes it: receivers
are compared bit for bit before/after every call).

Core Lean only.
-/
namespace GeomV.C03.Go
open GeomV GeomV.C03

inductive Fault
  | indexOutOfRange
  | sliceBounds
  | makeLen
  | divideByZero
  | explicitPanic
  | nilDeref
  /-- NOT a Go panic: a float64 division by zero in a function rendered over `Rat`.  Go continues with
  ±Inf or NaN, values that `Rat` lacks, so the exact rendering ends here instead of inventing one. -/
  | nonFinite
deriving Repr, DecidableEq, Inhabited

abbrev M := Except Fault

/-- the faults of the hand-written model are two of the faults of the Go constructs -/
def ofModel : GeomV.C03.Fault → Fault
  | .indexOutOfRange => .indexOutOfRange
  | .explicitPanic => .explicitPanic

/-- a result of the hand-written model as a result of the regenerated code -/
def lift {α : Type} : Except GeomV.C03.Fault α → M α
  | .ok a => .ok a
  | .error e => .error (ofModel e)

/-- `*Bounds` (a non-nil receiver) -/
structure Box (β : Type) where
  Min : β
  Max : β

/-- `len(l)` -/
def len {α : Type} (l : List α) : Int := l.length

/-- `l[i]` -/
def idx {α : Type} (l : List α) (i : Int) : M α :=
  if 0 ≤ i then
    match l[i.toNat]? with
    | some v => pure v
    | none => throw .indexOutOfRange
  else throw .indexOutOfRange

/-- `l[i] = v` -/
def setIdx {α : Type} (l : List α) (i : Int) (v : α) : M (List α) :=
  if 0 ≤ i ∧ i < l.length then pure (l.set i.toNat v) else throw .indexOutOfRange

/-- `l[i][j] = v` -/
def setIdx2 {α : Type} (l : List (List α)) (i j : Int) (v : α) : M (List (List α)) := do
  let row ← idx l i
  let row ← setIdx row j v
  setIdx l i row

/-- `l[lo:hi]` (capacity = length) -/
def slice {α : Type} (l : List α) (lo hi : Int) : M (List α) :=
  if 0 ≤ lo ∧ lo ≤ hi ∧ hi ≤ l.length then pure ((l.take hi.toNat).drop lo.toNat) else throw .sliceBounds

/-- `l[lo:hi:max]` (capacity = length): the value is that of `l[lo:hi]`, `max` only has to be in range -/
def slice3 {α : Type} (l : List α) (lo hi mx : Int) : M (List α) :=
  if 0 ≤ lo ∧ lo ≤ hi ∧ hi ≤ mx ∧ mx ≤ l.length then pure ((l.take hi.toNat).drop lo.toNat) else throw .sliceBounds

/-- `make([]T, n)` -/
def make {α : Type} (n : Int) (z : α) : M (List α) :=
  if 0 ≤ n then pure (List.replicate n.toNat z) else throw .makeLen

/-- float64 `a / b` in the exact mode (see `Fault.nonFinite`) -/
def fdiv (a b : Rat) : M Rat := if b = 0 then throw .nonFinite else pure (a / b)

/-- `copy(dst, src)`: the first `min(len(dst), len(src))` elements of `dst` are replaced -/
def copy {α : Type} (dst src : List α) : List α := src.take dst.length ++ dst.drop src.length

/-- `NewBounds()` (a fresh, non-nil `*Bounds`; the box type of property C02's model of within.go/bounds.go) -/
def newBounds : Option C02.Bounds := some C02.newBounds

/-- `b.extendPoints(ps)` on a `*Bounds` -/
def extendPoints (b : Option C02.Bounds) (ps : List P) : M (Option C02.Bounds) :=
  match b with
  | some b => pure (some (b.extendPoints ps))
  | none => throw .nilDeref

/-- the boxes a `[]*Bounds` points to; `none` when one of the pointers is nil -/
def derefAll {β : Type} : List (Option β) → Option (List β)
  | [] => some []
  | none :: _ => none
  | some b :: t => (derefAll t).map (b :: ·)

/-- `pointInPolygon(pt, pg, pgBounds)` (within.go): property C02's model, called with the polygon and the boxes
the code passes.  A nil box is a fault here (in Go: when it is first used). -/
def pointInPolygon (pt : P) (pg : List (List P)) (bs : List (Option C02.Bounds)) : M Side :=
  match derefAll bs with
  | none => throw .nilDeref
  | some l =>
    match C02.pointInPolygon pt pg l with
    | .ok s => pure (ofStatus s)
    | .error _ => throw .indexOutOfRange

/-- integer `a % b` (truncated, run-time panic for `b = 0`) -/
def imod (a b : Int) : M Int := if b = 0 then throw .divideByZero else pure (Int.tmod a b)

def forRangeAux {α σ : Type} (body : σ → Int → α → M σ) : List α → Int → σ → M σ
  | [], _, s => pure s
  | x :: xs, i, s => do
    let s ← body s i x
    forRangeAux body xs (i + 1) s

/-- `for i, x := range xs { body }` with the variables assigned in the body as state -/
def forRange {α σ : Type} (xs : List α) (init : σ) (body : σ → Int → α → M σ) : M σ :=
  forRangeAux body xs 0 init

def forLtAux {σ : Type} (body : σ → Int → M σ) : Nat → Int → σ → M σ
  | 0, _, s => pure s
  | n + 1, i, s => do
    let s ← body s i
    forLtAux body n (i + 1) s

/-- `for i := lo; i < hi; i++ { body }` where the body assigns neither `i` nor a variable that `hi`
mentions (checked by the extractor), with the variables assigned in the body as state -/
def forLt {σ : Type} (lo hi : Int) (init : σ) (body : σ → Int → M σ) : M σ :=
  forLtAux body (hi - lo).toNat lo init

/-- outcome of one pass through the body of a loop that contains `return` -/
inductive Ctl (ρ σ : Type)
  | ret (r : ρ)
  | next (s : σ)

def forRangeRetAux {α ρ σ : Type} (body : σ → Int → α → M (Ctl ρ σ)) : List α → Int → σ → M (Ctl ρ σ)
  | [], _, s => pure (.next s)
  | x :: xs, i, s => do
    match ← body s i x with
    | .ret r => pure (.ret r)
    | .next s => forRangeRetAux body xs (i + 1) s

/-- `for i, x := range xs { body }` whose body may `return` (`.ret`) or `continue`/fall through (`.next`) -/
def forRangeRet {α ρ σ : Type} (xs : List α) (init : σ) (body : σ → Int → α → M (Ctl ρ σ)) : M (Ctl ρ σ) :=
  forRangeRetAux body xs 0 init

def forLtRetAux {ρ σ : Type} (body : σ → Int → M (Ctl ρ σ)) : Nat → Int → σ → M (Ctl ρ σ)
  | 0, _, s => pure (.next s)
  | n + 1, i, s => do
    match ← body s i with
    | .ret r => pure (.ret r)
    | .next s => forLtRetAux body n (i + 1) s

/-- `for i := lo; i < hi; i++ { body }` whose body may `return` (`.ret`) or `continue`/fall through (`.next`) -/
def forLtRet {ρ σ : Type} (lo hi : Int) (init : σ) (body : σ → Int → M (Ctl ρ σ)) : M (Ctl ρ σ) :=
  forLtRetAux body (hi - lo).toNat lo init

/-- `a && b` where `b` can fault: `b` is evaluated only when `a` holds -/
def andAlso (a : Bool) (b : M Bool) : M Bool := if a then b else pure false
/-- `a || b` where `b` can fault: `b` is evaluated only when `a` does not hold -/
def orElse (a : Bool) (b : M Bool) : M Bool := if a then pure true else b

/-- `float64(i)` -/
def ofInt {α : Type} [RNum α] (i : Int) : α :=
  if 0 ≤ i then RNum.ofNat i.toNat else RNum.ofNat 0 - RNum.ofNat (-i).toNat

/-- `math.Min(d, x)` where `d` is a variable initialised with `math.Inf(1)` (`none`) -/
def minInf {α : Type} [RNum α] (d : Option α) (x : α) : Option α := ominL d x
/-- `math.Min(d, e)` where both may be `+Inf` -/
def minInf2 {α : Type} [RNum α] (d e : Option α) : Option α := omin d e

end GeomV.C03.Go
