import GeomV.C03.Model
import GeomV.C03.Spec
/-!
The one place where the model's point-in-polygon test (a transcription of within.go, the subject of
property C02) meets the mathematical classification of `Spec`.  `PipAgrees p` is the decidable
per-instance statement "on every call `area` makes for polygon `p`, within.go's answer is the
crossing-number answer".  C02 proves this for all inputs; here it is an explicit hypothesis of
`C03_area`, evaluated by the judge on every generated case.
-/
namespace GeomV.C03

def sideOfSpec : Spec.Side → Side
  | .outside => .outside
  | .inside => .inside
  | .onEdge => .onEdge

def PipAgrees (p : Poly) : Bool :=
  (withOthers [] p).all fun ro => ro.1.all fun v => pip v ro.2 == sideOfSpec (Spec.sideRings v ro.2)

end GeomV.C03
