import GeomV.C03.LemmasArea
/-!
# C03 — property theorems (exact part)

"For a valid polygon or multi-polygon, Area equals the area of the shells minus their holes
whatever the winding direction of each ring, which vertex each ring starts at and whether the
closing vertex is repeated; Centroid of closed rings is the area-weighted centroid …"

The real-valued clauses (Length, Distance, Buffer) are in `ProofsReal.lean`.
-/
namespace GeomV.C03
open Spec
set_option linter.unusedSimpArgs false

/-! ## Algebra of the sums the code computes (all vertex lists, no hypothesis) -/

/-- The trapezoid sum of `area`/`signedarea` (closing term first, as the Go loop writes it) is the
textbook shoelace sum of the ring. -/
theorem shoelace_eq_textbook (r : Ring) : goCyc shoeF r = shoelace2 r := by
  rw [goCyc_eq_cyc, cyc_shoeF_eq_crossF, shoelace2_eq']

/-- Reversing the vertex order negates the shoelace sum. -/
theorem shoelace_reverse (r : Ring) : goCyc shoeF r.reverse = -goCyc shoeF r := by
  rw [goCyc_eq_cyc, goCyc_eq_cyc, cyc_reverse, cyc_congr (g := fun a b => -shoeF a b) (fun a b => shoeF_anti a b), cyc_neg]

/-- Starting at another vertex (open spelling) does not change the shoelace sum. -/
theorem shoelace_rotate (k : Nat) (r : Ring) : goCyc shoeF (rotN k r) = goCyc shoeF r := by
  rw [goCyc_eq_cyc, goCyc_eq_cyc, cyc_rotN]

/-- Repeating the first vertex at the end does not change the shoelace sum. -/
theorem shoelace_close (r : Ring) : goCyc shoeF (closeRing r) = goCyc shoeF r := by
  rw [goCyc_eq_cyc, goCyc_eq_cyc, cyc_close _ (fun a => by unfold shoeF; ring)]

/-- The same three facts for both centroid numerators (`cxF`, `cyF`). -/
theorem centroidNum_reverse (r : Ring) :
    goCyc cxF r.reverse = -goCyc cxF r ∧ goCyc cyF r.reverse = -goCyc cyF r := by
  constructor
  · rw [goCyc_eq_cyc, goCyc_eq_cyc, cyc_reverse, cyc_congr (g := fun a b => -cxF a b) (fun a b => cxF_anti a b), cyc_neg]
  · rw [goCyc_eq_cyc, goCyc_eq_cyc, cyc_reverse, cyc_congr (g := fun a b => -cyF a b) (fun a b => cyF_anti a b), cyc_neg]

theorem centroidNum_rotate (k : Nat) (r : Ring) :
    goCyc cxF (rotN k r) = goCyc cxF r ∧ goCyc cyF (rotN k r) = goCyc cyF r := by
  constructor <;> rw [goCyc_eq_cyc, goCyc_eq_cyc, cyc_rotN]

theorem centroidNum_close (r : Ring) :
    goCyc cxF (closeRing r) = goCyc cxF r ∧ goCyc cyF (closeRing r) = goCyc cyF r := by
  constructor
  · rw [goCyc_eq_cyc, goCyc_eq_cyc, cyc_close _ (fun a => by unfold cxF; ring)]
  · rw [goCyc_eq_cyc, goCyc_eq_cyc, cyc_close _ (fun a => by unfold cyF; ring)]

/-- The measure of a ring does not depend on its spelling. -/
theorem measure_spelling (s : Spell) (r : Ring) : Spec.measure (s.ap r) = Spec.measure r := measure_ap s r

/-! ## Area -/

theorem list_sum_nonneg {l : List Rat} (h : ∀ x ∈ l, 0 ≤ x) : 0 ≤ l.sum := by
  induction l with
  | nil => simp
  | cons a t ih =>
    rw [List.sum_cons]
    have h1 := h a (by simp)
    have h2 := ih (fun x hx => h x (by simp [hx]))
    linarith

/-- **Area clause.** For every valid polygon `p` (shell :: holes, `ValidPoly`) and every combination
`ss` of per-ring reversal, rotation and closed/unclosed spelling, `Polygon.Area` of the spelled
polygon is measure(shell) − Σ measure(holes).  `PipAgrees` is the per-instance tie to property C02
(within.go's answer = crossing-number classification on the calls `area` makes); it is decidable,
and the judge evaluates it on every generated case. -/
theorem C03_area (p : Poly) (ss : List Spell) (hlen : ss.length = p.length)
    (hv : ValidPoly p = true) (hag : PipAgrees (respell ss p) = true) :
    polygonArea (respell ss p) = Spec.area p := by
  cases p with
  | nil => simp [ValidPoly] at hv
  | cons shell holes =>
    cases ss with
    | nil => simp at hlen
    | cons s0 sh => exact area_of_spelling shell holes s0 sh (by simpa using hlen) hv hag

/-- **Area clause, multi-polygons.** `MultiPolygon.Area` of any spelling of valid members is the sum
of shells minus holes.  (`HolesFit`: holes do not outweigh their shell — see Spec.) -/
theorem C03_marea (mp : MPoly) (sss : List (List Spell))
    (hlen : List.Forall₂ (fun ss p => ss.length = p.length) sss mp)
    (hv : ∀ p ∈ mp, ValidPoly p = true ∧ HolesFit p = true)
    (hag : ∀ p' ∈ List.zipWith respell sss mp, PipAgrees p' = true) :
    multiPolygonArea (List.zipWith respell sss mp) = Spec.marea mp := by
  have hmap : (List.zipWith respell sss mp).map polygonArea = mp.map Spec.area := by
    induction hlen with
    | nil => rfl
    | @cons ss p sst mpt hl _ ih =>
      simp only [List.zipWith_cons_cons, List.map_cons]
      rw [C03_area p ss hl (hv p (by simp)).1 (hag _ (by simp)),
        ih (fun q hq => hv q (by simp [hq])) (fun q hq => hag q (by simp [hq]))]
  unfold multiPolygonArea Spec.marea
  rw [hmap, ← sumR_eq_sum, absR_eq_abs, abs_of_nonneg]
  rw [sumR_eq_sum]
  apply list_sum_nonneg
  intro x hx
  rw [List.mem_map] at hx
  obtain ⟨q, hq, rfl⟩ := hx
  have := (hv q hq).2
  unfold HolesFit at this
  exact of_decide_eq_true this

/-! non-vacuity: a 10×10 square with a 2×3 hole, hole reversed, rotated and closed -/
def exPoly : Poly := [[⟨0,0⟩, ⟨10,0⟩, ⟨10,10⟩, ⟨0,10⟩], [⟨4,4⟩, ⟨6,4⟩, ⟨6,7⟩, ⟨4,7⟩]]
def exSpell : List Spell := [⟨1, false, true⟩, ⟨2, true, false⟩]
example : ValidPoly exPoly = true ∧ HolesFit exPoly = true ∧ PipAgrees (respell exSpell exPoly) = true ∧
    exSpell.length = exPoly.length := by decide +kernel
example : polygonArea (respell exSpell exPoly) = 94 := by
  rw [C03_area exPoly exSpell (by decide) (by decide +kernel) (by decide +kernel)]; decide +kernel

end GeomV.C03
