import GeomV.C03.Tie
namespace GeomV.C03
end GeomV.C03
