import GeomV.C03.LemmasMCentroid
import GeomV.C03.LemmasBBox
import GeomV.C03.LemmasPip
import GeomV.C03.ProofsReal
/-!
# C03 — property theorems (exact part)

"For a valid polygon or multi-polygon, Area equals the area of the shells minus their holes
whatever the winding direction of each ring, which vertex each ring starts at and whether the
closing vertex is repeated; Centroid of closed rings is the area-weighted centroid …"

The real-valued clauses (Length, Distance, Buffer) are in `ProofsReal.lean`.
-/
namespace GeomV.C03
open Spec
set_option linter.unusedSimpArgs false

/-! ## Algebra of the sums the code computes (all vertex lists, no hypothesis) -/

/-- The trapezoid sum of `area`/`signedarea` (closing term first, as the Go loop writes it) is the
textbook shoelace sum of the ring. -/
theorem shoelace_eq_textbook (r : Ring) : goCyc shoeF r = shoelace2 r := by
  rw [goCyc_eq_cyc, cyc_shoeF_eq_crossF, shoelace2_eq']

/-- Reversing the vertex order negates the shoelace sum. -/
theorem shoelace_reverse (r : Ring) : goCyc shoeF r.reverse = -goCyc shoeF r := by
  rw [goCyc_eq_cyc, goCyc_eq_cyc, cyc_reverse, cyc_congr (g := fun a b => -shoeF a b) (fun a b => shoeF_anti a b), cyc_neg]

/-- Starting at another vertex (open spelling) does not change the shoelace sum. -/
theorem shoelace_rotate (k : Nat) (r : Ring) : goCyc shoeF (rotN k r) = goCyc shoeF r := by
  rw [goCyc_eq_cyc, goCyc_eq_cyc, cyc_rotN]

/-- Repeating the first vertex at the end does not change the shoelace sum. -/
theorem shoelace_close (r : Ring) : goCyc shoeF (closeRing r) = goCyc shoeF r := by
  rw [goCyc_eq_cyc, goCyc_eq_cyc, cyc_close _ (fun a => by unfold shoeF; ring)]

/-- The same three facts for both centroid numerators (`cxF`, `cyF`). -/
theorem centroidNum_reverse (r : Ring) :
    goCyc cxF r.reverse = -goCyc cxF r ∧ goCyc cyF r.reverse = -goCyc cyF r := by
  constructor
  · rw [goCyc_eq_cyc, goCyc_eq_cyc, cyc_reverse, cyc_congr (g := fun a b => -cxF a b) (fun a b => cxF_anti a b), cyc_neg]
  · rw [goCyc_eq_cyc, goCyc_eq_cyc, cyc_reverse, cyc_congr (g := fun a b => -cyF a b) (fun a b => cyF_anti a b), cyc_neg]

theorem centroidNum_rotate (k : Nat) (r : Ring) :
    goCyc cxF (rotN k r) = goCyc cxF r ∧ goCyc cyF (rotN k r) = goCyc cyF r := by
  constructor <;> rw [goCyc_eq_cyc, goCyc_eq_cyc, cyc_rotN]

theorem centroidNum_close (r : Ring) :
    goCyc cxF (closeRing r) = goCyc cxF r ∧ goCyc cyF (closeRing r) = goCyc cyF r := by
  constructor
  · rw [goCyc_eq_cyc, goCyc_eq_cyc, cyc_close _ (fun a => by unfold cxF; ring)]
  · rw [goCyc_eq_cyc, goCyc_eq_cyc, cyc_close _ (fun a => by unfold cyF; ring)]

/-- The measure of a ring does not depend on its spelling. -/
theorem measure_spelling (s : Spell) (r : Ring) : Spec.measure (s.ap r) = Spec.measure r := measure_ap s r

/-! ## Area -/

theorem list_sum_nonneg {l : List Rat} (h : ∀ x ∈ l, 0 ≤ x) : 0 ≤ l.sum := by
  induction l with
  | nil => simp
  | cons a t ih =>
    rw [List.sum_cons]
    have h1 := h a (by simp)
    have h2 := ih (fun x hx => h x (by simp [hx]))
    linarith

/-- **Area clause.** For every valid polygon `p` (shell :: holes, `ValidPoly`) and every combination
`ss` of per-ring reversal, rotation and closed/unclosed spelling, `Polygon.Area` of the spelled
polygon is measure(shell) − Σ measure(holes).  The hole-sign logic goes through within.go's
point-in-polygon test; that it answers the crossing-number classification is property C02's theorem
(`GeomV.C02.pointInPolygon_spec`), composed here in `LemmasPip.lean` (`pip_spec`), so no per-case
hypothesis about it remains. -/
theorem C03_area (p : Poly) (ss : List Spell) (hlen : ss.length = p.length)
    (hv : ValidPoly p = true) :
    polygonArea (respell ss p) = Spec.area p := by
  have hag : PipAgrees (respell ss p) = true := pipAgrees_respell ss hv
  cases p with
  | nil => simp [ValidPoly] at hv
  | cons shell holes =>
    cases ss with
    | nil => simp at hlen
    | cons s0 sh => exact area_of_spelling shell holes s0 sh (by simpa using hlen) hv hag

/-- **Area clause, multi-polygons.** `MultiPolygon.Area` of any spelling of valid members is the sum
of shells minus holes.  (`HolesFit`: holes do not outweigh their shell — see Spec.) -/
theorem C03_marea (mp : MPoly) (sss : List (List Spell))
    (hlen : List.Forall₂ (fun ss p => ss.length = p.length) sss mp)
    (hv : ∀ p ∈ mp, ValidPoly p = true ∧ HolesFit p = true) :
    multiPolygonArea (List.zipWith respell sss mp) = Spec.marea mp := by
  have hmap : (List.zipWith respell sss mp).map polygonArea = mp.map Spec.area := by
    induction hlen with
    | nil => rfl
    | @cons ss p sst mpt hl _ ih =>
      simp only [List.zipWith_cons_cons, List.map_cons]
      rw [C03_area p ss hl (hv p (by simp)).1,
        ih (fun q hq => hv q (by simp [hq]))]
  unfold multiPolygonArea Spec.marea
  rw [hmap, ← sumR_eq_sum, absR_eq_abs, abs_of_nonneg]
  rw [sumR_eq_sum]
  apply list_sum_nonneg
  intro x hx
  rw [List.mem_map] at hx
  obtain ⟨q, hq, rfl⟩ := hx
  have := (hv q hq).2
  unfold HolesFit at this
  exact of_decide_eq_true this

/-! non-vacuity: a 10×10 square with a 2×3 hole, hole reversed, rotated and closed -/
def exPoly : Poly := [[⟨0,0⟩, ⟨10,0⟩, ⟨10,10⟩, ⟨0,10⟩], [⟨4,4⟩, ⟨6,4⟩, ⟨6,7⟩, ⟨4,7⟩]]
def exSpell : List Spell := [⟨1, false, true⟩, ⟨2, true, false⟩]
example : ValidPoly exPoly = true ∧ HolesFit exPoly = true ∧ PipAgrees (respell exSpell exPoly) = true ∧
    exSpell.length = exPoly.length := by decide +kernel
example : polygonArea (respell exSpell exPoly) = 94 := by
  rw [C03_area exPoly exSpell (by decide) (by decide +kernel)]; decide +kernel


/-! ## Centroid -/

/-- **Centroid clause (Polygon).** For every polygon whose rings have non-zero shoelace sum and whose
signed areas do not cancel — closed or unclosed spelling, any start vertex — `Polygon.Centroid`
returns (without fault, finite) the signed-area-weighted mean of the ring centroids. -/
theorem C03_centroid (p : Poly) (h : ∀ r ∈ p, shoelace2 r ≠ 0)
    (hW : (p.map fun r => shoelace2 r / 2).sum ≠ 0) :
    polygonCentroidCore p = .ok (.fin (centroidSigned p).x, .fin (centroidSigned p).y) := by
  unfold polygonCentroidCore
  rw [polygonCentroidAcc_ok p h, wmean_signed p h]
  simp only [Functor.map, Except.map, CAcc.zero, CAcc.finish, zero_add, fdiv, if_neg hW]
  simp

/-- **"unchanged by reversing all rings together or rotating ring start vertices"** (and by the
closed/unclosed spelling): if every ring is spelled with the same direction flag, the centroid is
that of the base polygon. -/
theorem C03_centroid_invariant (p : Poly) (ss : List Spell) (hlen : ss.length = p.length)
    (b : Bool) (hb : ∀ s ∈ ss, s.rev = b) (h : ∀ r ∈ p, shoelace2 r ≠ 0) :
    centroidSigned (respell ss p) = centroidSigned p := by
  have h' : ∀ r' ∈ respell ss p, shoelace2 r' ≠ 0 := by
    intro r' hr'
    obtain ⟨s, _, r, hr, e⟩ := mem_respell hr'
    rw [e, shoelace2_ap]; have := h r hr
    split <;> simpa using this
  rw [wmean_signed _ h', wmean_signed _ h]
  let σ : Rat := if b then -1 else 1
  have hσ : σ ≠ 0 := by simp only [σ]; split <;> norm_num
  have e1 := sum_map_respell (fun r => momX r / 6) σ ss p hlen
    (by intro s hs r; simp only [momX_ap, hb s hs, σ]; ring)
  have e2 := sum_map_respell (fun r => momY r / 6) σ ss p hlen
    (by intro s hs r; simp only [momY_ap, hb s hs, σ]; ring)
  have e3 := sum_map_respell (fun r => shoelace2 r / 2) σ ss p hlen
    (by intro s hs r; simp only [shoelace2_ap, hb s hs, σ]; ring)
  rw [e1, e2, e3, mul_div_mul_left _ _ hσ, mul_div_mul_left _ _ hσ]

theorem sum_map_mul2 (τ : Rat) (F : Rat × Ring → Rat) (l : List (Rat × Ring)) :
    (l.map fun x => τ * F x).sum = τ * (l.map F).sum := by
  induction l with
  | nil => simp
  | cons a t ih => simp only [List.map_cons, List.sum_cons, ih]; ring

/-- scaling all weights by a non-zero factor does not move the weighted mean -/
theorem wmean_scale (τ : Rat) (hτ : τ ≠ 0) (l : List (Rat × Ring)) :
    wmean (l.map fun x => (τ * x.1, x.2)) = wmean l := by
  unfold wmean
  simp only [sumR_eq_sum, List.map_map]
  have a1 : (l.map ((fun x : Rat × Ring => x.1) ∘ fun x => (τ * x.1, x.2)))
      = l.map fun x => τ * (fun y : Rat × Ring => y.1) x := by
    apply List.map_congr_left; intro x _; rfl
  have a2 : (l.map ((fun x : Rat × Ring => x.1 * (ringCentroid x.2).x) ∘ fun x => (τ * x.1, x.2)))
      = l.map fun x => τ * (fun y : Rat × Ring => y.1 * (ringCentroid y.2).x) x := by
    apply List.map_congr_left; intro x _; simp only [Function.comp]; ring
  have a3 : (l.map ((fun x : Rat × Ring => x.1 * (ringCentroid x.2).y) ∘ fun x => (τ * x.1, x.2)))
      = l.map fun x => τ * (fun y : Rat × Ring => y.1 * (ringCentroid y.2).y) x := by
    apply List.map_congr_left; intro x _; simp only [Function.comp]; ring
  rw [a1, a2, a3, sum_map_mul2, sum_map_mul2, sum_map_mul2, mul_div_mul_left _ _ hτ, mul_div_mul_left _ _ hτ]

/-- **"is the area-weighted centroid".** When every hole is wound against the shell (the layout
`Polygon.Centroid` documents), the signed-area-weighted mean is the centroid of the region:
shells weigh `+measure`, holes `−measure`. -/
theorem C03_centroid_true (p : Poly) (halt : Alternating p = true) (h : ∀ r ∈ p, shoelace2 r ≠ 0) :
    centroidSigned p = Spec.centroid p := by
  cases p with
  | nil => rfl
  | cons shell holes =>
    have hs := h shell (by simp)
    simp only [Alternating, List.all_eq_true, decide_eq_true_eq] at halt
    let τ : Rat := if shoelace2 shell < 0 then -1 else 1
    have hτ : τ ≠ 0 := by simp only [τ]; split <;> norm_num
    have hw : weights (shell :: holes) = ((shell :: holes).map fun r => (shoelace2 r / 2, r)).map fun x => (τ * x.1, x.2) := by
      simp only [weights, List.map_cons, List.map_map, Spec.measure, specAbsR_eq_abs]
      congr 1
      · congr 1
        simp only [τ]; split
        · rename_i hneg; rw [abs_of_neg hneg]; ring
        · rename_i hpos; rw [abs_of_nonneg (not_lt.mp hpos)]; ring
      · apply List.map_congr_left
        intro g hg
        have hg2 := halt g hg
        simp only [Function.comp]
        congr 1
        simp only [τ]; split
        · rename_i hneg
          have : 0 < shoelace2 g := by nlinarith
          rw [abs_of_pos this]; ring
        · rename_i hpos
          have hpos' : 0 < shoelace2 shell := lt_of_le_of_ne (not_lt.mp hpos) (Ne.symm hs)
          have : shoelace2 g < 0 := by nlinarith
          rw [abs_of_neg this]; ring
    unfold Spec.centroid centroidSigned
    rw [hw, wmean_scale τ hτ]


/-! ## The second implementation (package `op`) -/

theorem opRingArea_eq (r : Ring) : opRingArea r = shoelace2 r / 2 := by
  unfold opRingArea
  split
  · rename_i h
    have : r = [] := List.length_eq_zero_iff.mp h
    subst this; rw [shoelace2_eq']; simp [cyc]
  · rw [goCyc_eq_cyc, cyc_shoeF_eq_crossF, shoelace2_eq']

theorem signedArea_eq_op (r : Ring) : signedArea r = opRingArea r := by
  rw [opRingArea_eq]
  unfold signedArea
  split
  · rename_i h
    match r, h with
    | [], _ => rw [shoelace2_eq']; simp [cyc]
    | [a], _ => rw [shoelace2_eq']; simp [cyc, pairSum, crossF]; try ring
  · rw [goCyc_eq_cyc, cyc_shoeF_eq_crossF, shoelace2_eq']

/-- **op.Area** is the absolute value of the sum of the signed ring areas (so it needs the
alternating winding its documentation asks for, unlike `Polygon.Area`). -/
theorem op_agrees_area (p : Poly) : opPolygonArea p = |(p.map fun r => shoelace2 r / 2).sum| := by
  unfold opPolygonArea
  rw [absR_eq_abs]
  congr 2
  apply List.map_congr_left; intro r _; exact opRingArea_eq r

/-- **op.Centroid = Polygon.Centroid on closed rings** (the statement's "Centroid of closed rings"):
when no ring needs the closing vertex appended, the two loops compute the same thing, fault-free. -/
theorem op_agrees_centroid (p : Poly) (hc : ∀ r ∈ p, closeIfOpen r = .ok r) :
    polygonCentroidCore p = .ok (opCentroidCore p) := by
  have key : ∀ (q : Poly) (s : CAcc), (∀ r ∈ q, closeIfOpen r = .ok r) →
      polygonCentroidAcc q s = .ok (opCentroidAcc q s) := by
    intro q
    induction q with
    | nil => intro s _; rfl
    | cons r t ih =>
      intro s h
      unfold polygonCentroidAcc opCentroidAcc
      rw [h r (by simp)]
      simp only [bind, Except.bind]
      rw [signedArea_eq_op]
      exact ih _ (fun g hg => h g (by simp [hg]))
  unfold polygonCentroidCore opCentroidCore
  rw [key p _ hc]; rfl

/-- On an unclosed ring `op.Centroid` drops the closing term (outside the statement, which speaks of
closed rings): witness, the unclosed square (1,1)-(3,3). -/
theorem op_centroid_unclosed_differs :
    polygonCentroidCore [[⟨1,1⟩, ⟨3,1⟩, ⟨3,3⟩, ⟨1,3⟩]] = .ok (.fin 2, .fin 2) ∧
    opCentroidCore [[⟨1,1⟩, ⟨3,1⟩, ⟨3,3⟩, ⟨1,3⟩]] ≠ (.fin 2, .fin 2) := by decide +kernel

/-! ## MultiPolygon.Centroid: the defect that was fixed, on the model -/

/-- The code before commit 3f4603d (`cx /= 6 * a` with the hole-signed absolute area) returns
(−1,−1) for the closed clockwise 2×2 square; the fixed code returns (1,1). -/
theorem C03_mcentroid_unfixed_wrong :
    multiPolygonCentroidOld [[[⟨0,0⟩, ⟨0,2⟩, ⟨2,2⟩, ⟨2,0⟩, ⟨0,0⟩]]] = (.fin (-1), .fin (-1)) ∧
    multiPolygonCentroidCore [[[⟨0,0⟩, ⟨0,2⟩, ⟨2,2⟩, ⟨2,0⟩, ⟨0,0⟩]]] = (.fin 1, .fin 1) := by decide +kernel


/-- **Centroid clause (MultiPolygon), per ring.**  In the fixed `MultiPolygon.Centroid` loop, a
closed spelling `s.ap r` (any start vertex, either direction) of a ring with non-zero area contributes
exactly `w · ringCentroid r` to the moment sums and `w` to the area sum, whatever its weight
`w = area(r, i, p, b)` is: the contribution does not depend on the spelling, in particular not on the
direction of this single ring. -/
theorem C03_mcentroid_ring (s : Spell) (hs : s.closed = true) (r : Ring) (h : shoelace2 r ≠ 0)
    (w : Rat) (acc : CAcc) :
    acc.add (pairSum cxF (s.ap r)) (pairSum cyF (s.ap r)) (signedArea (s.ap r)) w =
      ⟨acc.A + w, acc.xA + w * (ringCentroid r).x, acc.yA + w * (ringCentroid r).y, acc.nan⟩ := by
  have h' : shoelace2 (s.ap r) ≠ 0 := by
    rw [shoelace2_ap]; split <;> simpa using h
  have hx : pairSum cxF (s.ap r) = momX (s.ap r) := by
    rw [momX_eq', Spec.Spell.ap_eq, if_pos hs, pairSum_closeRing, cyc_close _ (fun a => by unfold cxF; ring)]
  have hy : pairSum cyF (s.ap r) = momY (s.ap r) := by
    rw [momY_eq', Spec.Spell.ap_eq, if_pos hs, pairSum_closeRing, cyc_close _ (fun a => by unfold cyF; ring)]
  rw [hx, hy, signedArea_eq h', ← ringCentroid_ap s r]
  unfold CAcc.add ringCentroid
  rw [if_neg (by intro e; apply h'; linarith)]
  congr 1 <;> field_simp <;> ring

/-- The weighted mean of ring centroids (the specification's centroid) is unchanged when any single
ring — or any set of rings — is respelled: reversed, rotated, closed. -/
theorem C03_mcentroid_spec_invariant (wr : List (Rat × Ring)) (ss : List Spell) (hlen : ss.length = wr.length) :
    wmean (List.zipWith (fun s x => (x.1, s.ap x.2)) ss wr) = wmean wr := by
  unfold wmean
  have key : ∀ (F : Rat → P → Rat), (List.zipWith (fun s (x : Rat × Ring) => (x.1, s.ap x.2)) ss wr).map (fun x => F x.1 (ringCentroid x.2))
      = wr.map (fun x => F x.1 (ringCentroid x.2)) := by
    intro F
    induction wr generalizing ss with
    | nil => cases ss <;> simp
    | cons x t ih =>
      cases ss with
      | nil => simp at hlen
      | cons s st =>
        simp only [List.zipWith_cons_cons, List.map_cons, ringCentroid_ap]
        rw [ih st (by simpa using hlen)]
  have k1 := key (fun w _ => w)
  have k2 := key (fun w c => w * c.x)
  have k3 := key (fun w c => w * c.y)
  beta_reduce at k1 k2 k3
  rw [k1, k2, k3]


/-- **Centroid clause (MultiPolygon): "…for multi-polygons also unchanged by reversing any single
ring".**  For a multi-polygon `mp` of valid members, every choice `sss` of per-ring direction and
start vertex with closed spelling (the statement's "closed rings"), the FIXED `MultiPolygon.Centroid`
returns the area-weighted centroid of the base `mp` (shells `+measure`, holes `−measure`) — the same
point for every spelling, in particular when any single ring is reversed.  `hW`: the total weight is
not zero (otherwise the Go code divides by zero). -/
theorem C03_mcentroid (mp : MPoly) (sss : List (List Spell))
    (hlen : List.Forall₂ (fun ss p => ss.length = p.length) sss mp)
    (hclosed : ∀ ss ∈ sss, ∀ s ∈ ss, s.closed = true)
    (hv : ∀ p ∈ mp, ValidPoly p = true)
    (hW : ((mp.flatMap weights).map (·.1)).sum ≠ 0) :
    multiPolygonCentroidCore (List.zipWith respell sss mp) = (.fin (mcentroid mp).x, .fin (mcentroid mp).y) := by
  have hmem : ∀ p' ∈ List.zipWith respell sss mp, ∀ s,
      mpCentroidRings (p'.length == 1) (withOthers [] p') s = (weights p').foldl addW s := by
    clear hW
    induction hlen with
    | nil => intro p' hp'; simp at hp'
    | @cons ss p sst mpt hl _ ih =>
      intro p' hp'
      simp only [List.zipWith_cons_cons, List.mem_cons] at hp'
      rcases hp' with e | hp'
      · subst e
        exact mpCentroidRings_valid p ss hl (hclosed ss (by simp)) (hv p (by simp))
          (pipAgrees_respell ss (hv p (by simp)))
      · exact ih (fun q hq => hclosed q (by simp [hq])) (fun q hq => hv q (by simp [hq])) p' hp'
  have hrel := flatMap_weights_respell mp sss hlen
  unfold multiPolygonCentroidCore
  rw [mpCentroidAcc_fold _ hmem, foldl_addW]
  have hW' : (((List.zipWith respell sss mp).flatMap weights).map (·.1)).sum ≠ 0 := by
    rw [sumW_congr hrel]; exact hW
  have hm : mcentroid mp = mcentroid (List.zipWith respell sss mp) := (wmean_congr hrel).symm
  rw [hm]
  simp only [CAcc.zero, CAcc.finish, zero_add, fdiv, if_neg hW']
  unfold mcentroid wmean
  simp only [sumR_eq_sum]
  simp

/-! non-vacuity: the 10×10 square with a hole and a second member, every ring closed, some reversed -/
def exMP : MPoly := [exPoly, [[⟨20,0⟩, ⟨22,0⟩, ⟨22,2⟩, ⟨20,2⟩]]]
def exMSpell : List (List Spell) := [[⟨1, true, true⟩, ⟨2, true, true⟩], [⟨3, false, true⟩]]
example : List.Forall₂ (fun ss p => ss.length = p.length) exMSpell exMP := by
  unfold exMSpell exMP; exact .cons rfl (.cons rfl .nil)
example : (∀ p ∈ exMP, ValidPoly p = true) ∧ (∀ p' ∈ List.zipWith respell exMSpell exMP, PipAgrees p' = true) ∧
    ((exMP.flatMap weights).map (·.1)).sum ≠ 0 := by decide +kernel


/-- **Centroid clause, assembled.**  For a valid polygon whose holes are wound against its shell and
any spelling that keeps that (all rings reversed together or none; any start vertices; closed or
not), `Polygon.Centroid` returns — fault-free and finite — the area-weighted centroid of the base
polygon.  `hW`: the signed areas do not cancel (true of every genuinely valid polygon; explicit and
decidable like `HolesFit`). -/
theorem C03_centroid_valid (p : Poly) (ss : List Spell) (hlen : ss.length = p.length)
    (b : Bool) (hb : ∀ s ∈ ss, s.rev = b)
    (hv : ValidPoly p = true) (halt : Alternating p = true)
    (hW : (p.map fun r => shoelace2 r / 2).sum ≠ 0) :
    polygonCentroidCore (respell ss p) = .ok (.fin (Spec.centroid p).x, .fin (Spec.centroid p).y) := by
  have h : ∀ r ∈ p, shoelace2 r ≠ 0 := by
    intro r hr
    cases p with
    | nil => simp at hr
    | cons shell holes =>
      simp only [ValidPoly, Bool.and_eq_true, List.all_eq_true] at hv
      exact shoelace_ne_of_simple (hv.1.1.1 r hr)
  have h' : ∀ r' ∈ respell ss p, shoelace2 r' ≠ 0 := by
    intro r' hr'
    obtain ⟨s, _, r, hr, e⟩ := mem_respell hr'
    rw [e, shoelace2_ap]; have := h r hr
    split <;> simpa using this
  let σ : Rat := if b then -1 else 1
  have hσ : σ ≠ 0 := by simp only [σ]; split <;> norm_num
  have e3 := sum_map_respell (fun r => shoelace2 r / 2) σ ss p hlen
    (by intro s hs r; simp only [shoelace2_ap, hb s hs, σ]; ring)
  have hW' : ((respell ss p).map fun r => shoelace2 r / 2).sum ≠ 0 := by
    rw [e3]; exact mul_ne_zero hσ hW
  rw [C03_centroid _ h' hW', C03_centroid_invariant p ss hlen b hb h, C03_centroid_true p halt h]

/-- non-vacuity: `exPoly` with the hole reversed is alternating -/
def exPolyAlt : Poly := [[⟨0,0⟩, ⟨10,0⟩, ⟨10,10⟩, ⟨0,10⟩], [⟨4,7⟩, ⟨6,7⟩, ⟨6,4⟩, ⟨4,4⟩]]
example : ValidPoly exPolyAlt = true ∧ Alternating exPolyAlt = true ∧
    (exPolyAlt.map fun r => shoelace2 r / 2).sum ≠ 0 := by decide +kernel


/-- **"hence inside the bounding box" — partial.**  For a single ring `v0 :: rest` (open spelling)
that is star-shaped from its first vertex in the sense that all fan triangles `(v0, v_i, v_{i+1})`
have the same orientation (every convex ring, started anywhere, qualifies), with non-zero area, the
ring centroid lies in every axis-parallel box that contains the vertices — in particular in the
bounding box.

Full statement, NOT proved: for every valid polygon (shell and holes, arbitrary simple rings) the
centroid lies in the bounding box; that needs a triangulation of an arbitrary simple polygon with
holes.  It remains a per-case check of the judge (SPEC `outside the bounding box`). -/
theorem C03_centroid_bbox_partial (v0 : P) (rest : List P) (lo hi : P)
    (hbox : ∀ v ∈ v0 :: rest, lo.x ≤ v.x ∧ v.x ≤ hi.x ∧ lo.y ≤ v.y ∧ v.y ≤ hi.y)
    (hfan : (∀ e ∈ pairs rest, 0 ≤ tri2 v0 e.1 e.2) ∨ (∀ e ∈ pairs rest, tri2 v0 e.1 e.2 ≤ 0))
    (hA : shoelace2 (v0 :: rest) ≠ 0) :
    lo.x ≤ (ringCentroid (v0 :: rest)).x ∧ (ringCentroid (v0 :: rest)).x ≤ hi.x ∧
    lo.y ≤ (ringCentroid (v0 :: rest)).y ∧ (ringCentroid (v0 :: rest)).y ≤ hi.y := by
  unfold ringCentroid
  rw [shoelace2_eq'] at hA ⊢
  rw [momX_eq', momY_eq']
  have hx := fan_centroid_coord v0 rest (·.x) cxF cxF_tri (fun a b => cxF_anti a b) lo.x hi.x
    (fun v hv => ⟨(hbox v hv).1, (hbox v hv).2.1⟩) hfan hA
  have hy := fan_centroid_coord v0 rest (·.y) cyF cyF_tri (fun a b => cyF_anti a b) lo.y hi.y
    (fun v hv => ⟨(hbox v hv).2.2.1, (hbox v hv).2.2.2⟩) hfan hA
  exact ⟨hx.1, hx.2, hy.1, hy.2⟩

/-- non-vacuity: an L-shaped (non-convex) ring that is star-shaped from its first vertex -/
example : let r : List P := [⟨0,0⟩, ⟨4,0⟩, ⟨4,2⟩, ⟨2,2⟩, ⟨2,4⟩, ⟨0,4⟩]
    (∀ e ∈ pairs r.tail, 0 ≤ tri2 ⟨0,0⟩ e.1 e.2) ∧ shoelace2 r ≠ 0 := by decide +kernel

end GeomV.C03
