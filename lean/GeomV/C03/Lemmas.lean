import GeomV.C03.Tie
import Mathlib.Tactic.Ring
import Mathlib.Tactic.Linarith
import Mathlib.Algebra.Order.Field.Rat
import Mathlib.Data.List.Rotate

/-! Cyclic-sum algebra for C03: shoelace/centroid sums under rotation, reversal and closure. -/
namespace GeomV.C03
open Spec

/-! ### pairSum -/

theorem pairSum_cons_cons (f : P → P → Rat) (a b : P) (t : List P) :
    pairSum f (a :: b :: t) = f a b + pairSum f (b :: t) := rfl

/-- split a walk at a shared vertex -/
theorem pairSum_split (f : P → P → Rat) (l₁ : List P) (x : P) (l₂ : List P) :
    pairSum f (l₁ ++ x :: l₂) = pairSum f (l₁ ++ [x]) + pairSum f (x :: l₂) := by
  induction l₁ with
  | nil => simp [pairSum]
  | cons a t ih =>
    cases t with
    | nil => simp [pairSum]
    | cons b t' =>
      simp only [List.cons_append] at ih ⊢
      rw [pairSum_cons_cons, pairSum_cons_cons, ih]; ring

theorem pairSum_snoc2 (f : P → P → Rat) (l : List P) (a b : P) :
    pairSum f (l ++ [a, b]) = pairSum f (l ++ [a]) + f a b := by
  rw [pairSum_split]; simp [pairSum]

theorem pairSum_reverse (f : P → P → Rat) (l : List P) :
    pairSum f l.reverse = pairSum (fun a b => f b a) l := by
  induction l with
  | nil => simp [pairSum]
  | cons a t ih =>
    cases t with
    | nil => simp [pairSum]
    | cons b t' =>
      rw [List.reverse_cons, List.reverse_cons, List.append_assoc]
      show pairSum f ((t'.reverse) ++ b :: [a]) = _
      rw [pairSum_split, pairSum_cons_cons]
      rw [List.reverse_cons] at ih
      rw [ih]; simp [pairSum]; ring

/-- the closed walk through `l` -/
def cyc (f : P → P → Rat) : List P → Rat
  | [] => 0
  | a :: t => pairSum f (a :: t ++ [a])

theorem cyc_rot1 (f : P → P → Rat) (l : List P) : cyc f (rot1 l) = cyc f l := by
  cases l with
  | nil => rfl
  | cons a t =>
    cases t with
    | nil => rfl
    | cons b t' =>
      show pairSum f ((b :: t' ++ [a]) ++ [b]) = pairSum f (a :: b :: t' ++ [a])
      rw [List.append_assoc]
      show pairSum f ((b :: t') ++ [a, b]) = pairSum f (a :: (b :: t' ++ [a]))
      rw [pairSum_snoc2]
      show _ = f a b + pairSum f (b :: t' ++ [a])
      ring

theorem cyc_rotN (f : P → P → Rat) (k : Nat) (l : List P) : cyc f (rotN k l) = cyc f l := by
  induction k generalizing l with
  | zero => rfl
  | succ k ih => rw [rotN, ih, cyc_rot1]

theorem cyc_reverse (f : P → P → Rat) (l : List P) :
    cyc f l.reverse = cyc (fun a b => f b a) l := by
  cases l with
  | nil => rfl
  | cons h t =>
    have h1 : (h :: t).reverse = rot1 (h :: t.reverse) := by simp [rot1]
    rw [h1, cyc_rot1]
    show pairSum f (h :: t.reverse ++ [h]) = pairSum (fun a b => f b a) (h :: t ++ [h])
    rw [← pairSum_reverse]; simp

theorem cyc_close (f : P → P → Rat) (hf : ∀ a, f a a = 0) (l : List P) :
    cyc f (closeRing l) = cyc f l := by
  cases l with
  | nil => rfl
  | cons a t =>
    show pairSum f ((a :: (t ++ [a])) ++ [a]) = pairSum f (a :: t ++ [a])
    have e : (a :: (t ++ [a])) ++ [a] = (a :: t) ++ [a, a] := by simp
    rw [e, pairSum_snoc2, hf]; simp

theorem goCyc_eq_cyc (f : P → P → Rat) (l : List P) : goCyc f l = cyc f l := by
  cases l with
  | nil => rfl
  | cons a t =>
    cases t using List.reverseRecOn with
    | nil => simp [goCyc, cyc, pairSum]
    | append_singleton t' z =>
      have hl : (a :: (t' ++ [z])).getLast? = some z := by
        rw [← List.cons_append, List.getLast?_append]; simp
      simp only [goCyc, hl, List.head?_cons]
      show f z a + pairSum f (a :: (t' ++ [z])) = pairSum f ((a :: (t' ++ [z])) ++ [a])
      have e : (a :: (t' ++ [z])) ++ [a] = (a :: t') ++ [z, a] := by simp
      rw [e, pairSum_snoc2]; simp only [List.cons_append]; ring


/-! ### Spec sums are cyclic sums -/

theorem sumR_eq_sum (l : List Rat) : sumR l = l.sum := by
  induction l with
  | nil => rfl
  | cons a t ih => simp [sumR, List.foldr] at ih ⊢; rw [← ih]

theorem sumR_append (l₁ l₂ : List Rat) : sumR (l₁ ++ l₂) = sumR l₁ + sumR l₂ := by
  simp [sumR_eq_sum]

theorem sumR_pairs (g : P → P → Rat) (l : List P) :
    sumR ((pairs l).map fun e => g e.1 e.2) = pairSum g l := by
  induction l with
  | nil => rfl
  | cons a t ih =>
    cases t with
    | nil => rfl
    | cons b t' =>
      simp only [pairs, List.map_cons, pairSum_cons_cons]
      rw [← ih]; simp [sumR]

theorem sumR_cycPairs (g : P → P → Rat) (l : List P) :
    sumR ((cycPairs l).map fun e => g e.1 e.2) = cyc g l := by
  cases l with
  | nil => rfl
  | cons a t => exact sumR_pairs g _

theorem getLast?_cons_snoc (a : P) (t : List P) (z : P) : (a :: (t ++ [z])).getLast? = some z := by
  rw [← List.cons_append, List.getLast?_append]; simp

theorem dropLast_cons_snoc (a : P) (t : List P) (z : P) : (a :: (t ++ [z])).dropLast = a :: t := by
  rw [← List.cons_append, List.dropLast_concat]

theorem openRing_closeRing (l : List P) : openRing (closeRing l) = l := by
  cases l with
  | nil => rfl
  | cons a t =>
    show openRing (a :: (t ++ [a])) = a :: t
    have h1 := getLast?_cons_snoc a t a
    have h2 : 2 ≤ (a :: (t ++ [a])).length := by simp
    unfold openRing
    rw [if_pos ⟨h2, by rw [h1]; rfl⟩, dropLast_cons_snoc]

/-- an accidental closing vertex contributes nothing to a sum that vanishes on the diagonal -/
theorem cyc_openRing (f : P → P → Rat) (hf : ∀ a, f a a = 0) (l : List P) :
    cyc f (openRing l) = cyc f l := by
  unfold openRing
  split
  · rename_i h
    obtain ⟨h2, hl⟩ := h
    cases l with
    | nil => rfl
    | cons a t =>
      cases t using List.reverseRecOn with
      | nil => simp at h2
      | append_singleton t' z =>
        have hz : z = a := by
          rw [getLast?_cons_snoc] at hl; simpa using hl
        subst hz
        rw [dropLast_cons_snoc]
        have := cyc_close f hf (z :: t')
        simpa [closeRing] using this.symm
  · rfl

theorem cyc_congr {f g : P → P → Rat} (h : ∀ a b, f a b = g a b) (l : List P) : cyc f l = cyc g l := by
  have : f = g := by funext a b; exact h a b
  rw [this]

theorem pairSum_neg (f : P → P → Rat) (l : List P) : pairSum (fun a b => -f a b) l = -pairSum f l := by
  induction l with
  | nil => simp [pairSum]
  | cons a t ih =>
    cases t with
    | nil => simp [pairSum]
    | cons b t' => rw [pairSum_cons_cons, pairSum_cons_cons, ih]; ring

theorem cyc_neg (f : P → P → Rat) (l : List P) : cyc (fun a b => -f a b) l = -cyc f l := by
  cases l with
  | nil => simp [cyc]
  | cons a t => exact pairSum_neg f _

theorem pairSum_add (f g : P → P → Rat) (l : List P) :
    pairSum (fun a b => f a b + g a b) l = pairSum f l + pairSum g l := by
  induction l with
  | nil => simp [pairSum]
  | cons a t ih =>
    cases t with
    | nil => simp [pairSum]
    | cons b t' => rw [pairSum_cons_cons, pairSum_cons_cons, pairSum_cons_cons, ih]; ring

theorem cyc_add (f g : P → P → Rat) (l : List P) :
    cyc (fun a b => f a b + g a b) l = cyc f l + cyc g l := by
  cases l with
  | nil => simp [cyc]
  | cons a t => exact pairSum_add f g _

/-- telescoping walk -/
theorem pairSum_tele (φ : P → Rat) (a : P) (t : List P) (z : P) :
    pairSum (fun a b => φ b - φ a) (a :: t ++ [z]) = φ z - φ a := by
  induction t generalizing a with
  | nil => simp [pairSum]
  | cons b t' ih =>
    show pairSum _ (a :: b :: (t' ++ [z])) = _
    rw [pairSum_cons_cons]
    have := ih b
    simp only [List.cons_append] at this
    rw [this]; ring

theorem cyc_tele (φ : P → Rat) (l : List P) : cyc (fun a b => φ b - φ a) l = 0 := by
  cases l with
  | nil => rfl
  | cons a t => show pairSum _ (a :: t ++ [a]) = 0; rw [pairSum_tele]; ring

/-- antisymmetric, diagonal-free summands: value under any spelling -/
theorem cyc_spell (f : P → P → Rat) (hanti : ∀ a b, f b a = -f a b) (s : Spell) (r : Ring) :
    cyc f (s.ap r) = (if s.rev then -1 else 1) * cyc f r := by
  have hdiag : ∀ a, f a a = 0 := fun a => by have := hanti a a; linarith
  unfold Spell.ap
  simp only []
  have hrev : cyc f (if s.rev then (rotN s.rot r).reverse else rotN s.rot r) = (if s.rev then -1 else 1) * cyc f r := by
    cases s.rev with
    | false => simp [cyc_rotN]
    | true =>
      simp only [if_true]
      rw [cyc_reverse, cyc_congr (g := fun a b => -f a b) (fun a b => hanti a b), cyc_neg, cyc_rotN]; ring
  cases s.closed with
  | false => simpa using hrev
  | true => simp only [if_true]; rw [cyc_close f hdiag, hrev]

/-! ### the three summands -/

def crossF (a b : P) : Rat := a.x * b.y - b.x * a.y

theorem shoeF_anti (a b : P) : shoeF b a = -shoeF a b := by unfold shoeF; ring
theorem crossF_anti (a b : P) : crossF b a = -crossF a b := by unfold crossF; ring
theorem cxF_anti (a b : P) : cxF b a = -cxF a b := by unfold cxF; ring
theorem cyF_anti (a b : P) : cyF b a = -cyF a b := by unfold cyF; ring

/-- the trapezoid sum of area.go is the textbook shoelace sum -/
theorem cyc_shoeF_eq_crossF (l : List P) : cyc shoeF l = cyc crossF l := by
  have h : ∀ a b : P, shoeF a b = crossF a b + ((fun p : P => p.x * p.y) b - (fun p : P => p.x * p.y) a) := by
    intro a b; unfold shoeF crossF; ring
  rw [cyc_congr h, cyc_add, cyc_tele]; ring

theorem shoelace2_eq (r : Ring) : shoelace2 r = cyc crossF (openRing r) := by
  unfold shoelace2 edges; exact sumR_cycPairs crossF _
theorem momX_eq (r : Ring) : momX r = cyc cxF (openRing r) := by
  unfold momX edges; exact sumR_cycPairs cxF _
theorem momY_eq (r : Ring) : momY r = cyc cyF (openRing r) := by
  unfold momY edges; exact sumR_cycPairs cyF _

theorem shoelace2_eq' (r : Ring) : shoelace2 r = cyc crossF r := by
  rw [shoelace2_eq, cyc_openRing _ (fun a => by unfold crossF; ring)]
theorem momX_eq' (r : Ring) : momX r = cyc cxF r := by
  rw [momX_eq, cyc_openRing _ (fun a => by unfold cxF; ring)]
theorem momY_eq' (r : Ring) : momY r = cyc cyF r := by
  rw [momY_eq, cyc_openRing _ (fun a => by unfold cyF; ring)]

end GeomV.C03
