import GeomV.C03.Lemmas
import Mathlib.Data.List.Perm.Basic
import Mathlib.Data.List.Count

/-! Edges of a ring under respelling; the crossing-number classification depends only on the unoriented edge multiset. -/
namespace GeomV.C03
open Spec

/-! ### edges under respelling -/

theorem pairs_cons_cons (a b : P) (t : List P) : pairs (a :: b :: t) = (a, b) :: pairs (b :: t) := rfl

theorem pairs_snoc2 (l : List P) (a b : P) : pairs (l ++ [a, b]) = pairs (l ++ [a]) ++ [(a, b)] := by
  induction l with
  | nil => rfl
  | cons x t ih =>
    cases t with
    | nil => rfl
    | cons y t' =>
      simp only [List.cons_append] at ih ⊢
      rw [pairs_cons_cons, pairs_cons_cons, ih]; rfl

def swapP (e : P × P) : P × P := (e.2, e.1)

theorem pairs_reverse (l : List P) : pairs l.reverse = ((pairs l).map swapP).reverse := by
  induction l with
  | nil => rfl
  | cons a t ih =>
    cases t with
    | nil => rfl
    | cons b t' =>
      rw [List.reverse_cons, List.reverse_cons, List.append_assoc]
      show pairs (t'.reverse ++ [b, a]) = _
      rw [pairs_snoc2, ← List.reverse_cons, ih, pairs_cons_cons]
      simp [swapP]

theorem cycPairs_rot1_perm (l : List P) : (cycPairs (rot1 l)).Perm (cycPairs l) := by
  cases l with
  | nil => exact List.Perm.refl _
  | cons a t =>
    cases t with
    | nil => exact List.Perm.refl _
    | cons b t' =>
      show (pairs ((b :: t' ++ [a]) ++ [b])).Perm (pairs (a :: b :: t' ++ [a]))
      rw [List.append_assoc]
      show (pairs ((b :: t') ++ [a, b])).Perm ((a, b) :: pairs (b :: t' ++ [a]))
      rw [pairs_snoc2]
      exact List.perm_append_singleton _ _

theorem cycPairs_rotN_perm (k : Nat) (l : List P) : (cycPairs (rotN k l)).Perm (cycPairs l) := by
  induction k generalizing l with
  | zero => exact List.Perm.refl _
  | succ k ih => exact (ih (rot1 l)).trans (cycPairs_rot1_perm l)

theorem cycPairs_reverse_perm (l : List P) : (cycPairs l.reverse).Perm ((cycPairs l).map swapP) := by
  cases l with
  | nil => exact List.Perm.refl _
  | cons h t =>
    have h1 : (h :: t).reverse = rot1 (h :: t.reverse) := by simp [rot1]
    rw [h1]
    refine (cycPairs_rot1_perm _).trans ?_
    show (pairs (h :: t.reverse ++ [h])).Perm ((pairs (h :: t ++ [h])).map swapP)
    have : h :: t.reverse ++ [h] = (h :: t ++ [h]).reverse := by simp
    rw [this, pairs_reverse]
    exact List.reverse_perm _

/-! ### the point-against-ring classification only depends on the edge multiset, unoriented -/

theorem cross_swap (a b p : P) : Spec.cross b a p = -Spec.cross a b p := by unfold Spec.cross; ring

theorem onSeg_swap (p a b : P) : onSeg p b a = onSeg p a b := by
  unfold onSeg
  rw [cross_swap, min_comm b.x a.x, max_comm b.x a.x, min_comm b.y a.y, max_comm b.y a.y]
  congr 4
  simp

theorem crossHO_swap (p a b : P) : crossHO p b a = crossHO p a b := by
  unfold crossHO
  rcases lt_trichotomy a.y b.y with h | h | h
  · have h1 : a.y ≤ b.y := le_of_lt h
    have h2 : ¬ b.y ≤ a.y := not_le.mpr h
    simp [h1, h2]
  · have h1 : a.y ≤ b.y := le_of_eq h
    have h2 : b.y ≤ a.y := le_of_eq h.symm
    simp only [h1, h2, if_true]
    have e1 : ∀ q : Rat, (decide (b.y ≤ q) && decide (q < a.y)) = false := by
      intro q; rw [h]; simp
    have e2 : ∀ q : Rat, (decide (a.y ≤ q) && decide (q < b.y)) = false := by
      intro q; rw [h]; simp
    rw [e1, e2]; simp
  · have h1 : b.y ≤ a.y := le_of_lt h
    have h2 : ¬ a.y ≤ b.y := not_le.mpr h
    simp [h1, h2]

def sideOfEdges (p : P) (es : List (P × P)) : Spec.Side :=
  if es.any (fun e => onSeg p e.1 e.2) then .onEdge
  else if (es.countP fun e => crossHO p e.1 e.2) % 2 = 1 then .inside else .outside

theorem sideRing_eq (p : P) (r : Ring) : sideRing p r = sideOfEdges p (edges r) := rfl

theorem sideOfEdges_perm (p : P) {es es' : List (P × P)} (h : es.Perm es') :
    sideOfEdges p es = sideOfEdges p es' := by
  unfold sideOfEdges
  rw [h.countP_eq]
  have : es.any (fun e => onSeg p e.1 e.2) = es'.any (fun e => onSeg p e.1 e.2) := by
    rw [Bool.eq_iff_iff]; simp only [List.any_eq_true]
    constructor
    · rintro ⟨e, he, h2⟩; exact ⟨e, h.mem_iff.mp he, h2⟩
    · rintro ⟨e, he, h2⟩; exact ⟨e, h.mem_iff.mpr he, h2⟩
  rw [this]

theorem sideOfEdges_swap (p : P) (es : List (P × P)) :
    sideOfEdges p (es.map swapP) = sideOfEdges p es := by
  unfold sideOfEdges
  have h1 : (es.map swapP).any (fun e => onSeg p e.1 e.2) = es.any (fun e => onSeg p e.1 e.2) := by
    rw [List.any_map]; congr 1; funext e; simp [swapP, onSeg_swap]
  have h2 : (es.map swapP).countP (fun e => crossHO p e.1 e.2) = es.countP (fun e => crossHO p e.1 e.2) := by
    rw [List.countP_map]; congr 1; funext e; simp [swapP, crossHO_swap]
  rw [h1, h2]


/-! ### a spelling denotes the same curve -/

theorem absR_eq_abs (q : Rat) : absR q = |q| := by
  unfold absR; split
  · rename_i h; rw [abs_of_neg h]
  · rename_i h; rw [abs_of_nonneg (not_lt.mp h)]
theorem specAbsR_eq_abs (q : Rat) : Spec.absR q = |q| := by
  unfold Spec.absR; split
  · rename_i h; rw [abs_of_neg h]
  · rename_i h; rw [abs_of_nonneg (not_lt.mp h)]

theorem rot1_perm (l : List P) : (rot1 l).Perm l := by
  cases l with
  | nil => exact List.Perm.refl _
  | cons a t => exact List.perm_append_singleton a t
theorem rotN_perm (k : Nat) (l : List P) : (rotN k l).Perm l := by
  induction k generalizing l with
  | zero => exact List.Perm.refl _
  | succ k ih => exact (ih (rot1 l)).trans (rot1_perm l)

/-- rotated and possibly reversed, not yet closed -/
def Spec.Spell.ap0 (s : Spell) (r : Ring) : Ring := if s.rev then (rotN s.rot r).reverse else rotN s.rot r

theorem Spec.Spell.ap_eq (s : Spell) (r : Ring) : s.ap r = if s.closed then closeRing (s.ap0 r) else s.ap0 r := rfl

theorem ap0_perm (s : Spell) (r : Ring) : (s.ap0 r).Perm r := by
  unfold Spec.Spell.ap0; split
  · exact (List.reverse_perm _).trans (rotN_perm _ _)
  · exact rotN_perm _ _

theorem mem_closeRing {v : P} {l : List P} (h : v ∈ closeRing l) : v ∈ l := by
  cases l with
  | nil => exact h
  | cons a t =>
    simp only [closeRing, List.cons_append, List.mem_cons, List.mem_append, List.mem_singleton, List.not_mem_nil, or_false] at h
    rcases h with h | h | h
    · simp [h]
    · simp [h]
    · simp [h]

theorem length_closeRing_ge (l : List P) : l.length ≤ (closeRing l).length := by
  cases l with
  | nil => exact Nat.le_refl _
  | cons a t => simp [closeRing]

theorem mem_ap {v : P} {s : Spell} {r : Ring} (h : v ∈ s.ap r) : v ∈ r := by
  rw [Spec.Spell.ap_eq] at h
  split at h
  · exact (ap0_perm s r).mem_iff.mp (mem_closeRing h)
  · exact (ap0_perm s r).mem_iff.mp h

theorem length_ap_ge (s : Spell) (r : Ring) : r.length ≤ (s.ap r).length := by
  rw [Spec.Spell.ap_eq]
  have := (ap0_perm s r).length_eq
  split
  · exact this ▸ length_closeRing_ge _
  · exact Nat.le_of_eq this.symm

theorem last_head_mem_cycPairs (a : P) (t : List P) (z : P) (hz : (a :: t).getLast? = some z) :
    (z, a) ∈ cycPairs (a :: t) := by
  cases t using List.reverseRecOn with
  | nil => simp at hz; subst hz; simp [cycPairs, pairs]
  | append_singleton t' y =>
    rw [getLast?_cons_snoc] at hz
    have hy : y = z := by simpa using hz
    subst hy
    show (y, a) ∈ pairs ((a :: (t' ++ [y])) ++ [a])
    have e : (a :: (t' ++ [y])) ++ [a] = (a :: t') ++ [y, a] := by simp
    rw [e, pairs_snoc2]; simp

theorem cycPairs_ap0 (s : Spell) (r : Ring) :
    (cycPairs (s.ap0 r)).Perm (cycPairs r) ∨ (cycPairs (s.ap0 r)).Perm ((cycPairs r).map swapP) := by
  unfold Spec.Spell.ap0; split
  · right
    exact (cycPairs_reverse_perm _).trans ((cycPairs_rotN_perm _ _).map _)
  · left; exact cycPairs_rotN_perm _ _

theorem sideOfEdges_ap0 (v : P) (s : Spell) (r : Ring) :
    sideOfEdges v (cycPairs (s.ap0 r)) = sideOfEdges v (cycPairs r) := by
  rcases cycPairs_ap0 s r with h | h
  · exact sideOfEdges_perm v h
  · rw [sideOfEdges_perm v h, sideOfEdges_swap]

/-- what `SimpleRing` gives the proofs -/
structure RingFacts (r : Ring) : Prop where
  len : 3 ≤ r.length
  noZero : ∀ e ∈ cycPairs r, e.1 ≠ e.2
  isOpen : r.getLast? ≠ r.head?

theorem ringFacts_of_simple {r : Ring} (h : SimpleRing r = true) : RingFacts r := by
  unfold SimpleRing at h
  simp only [Bool.and_eq_true, decide_eq_true_eq, List.all_eq_true, bne_iff_ne, ne_eq] at h
  obtain ⟨⟨⟨⟨h1, h2⟩, _⟩, _⟩, h5⟩ := h
  exact ⟨h1, fun e he => h2 e he, h5⟩

theorem openRing_of_open {l : List P} (h : l.getLast? ≠ l.head?) : openRing l = l := by
  unfold openRing; rw [if_neg]; exact fun hh => h hh.2

theorem ap0_open {s : Spell} {r : Ring} (hf : RingFacts r) : (s.ap0 r).getLast? ≠ (s.ap0 r).head? := by
  intro hh
  have hlen : (s.ap0 r).length = r.length := (ap0_perm s r).length_eq
  cases hr : s.ap0 r with
  | nil => rw [hr] at hlen; have := hf.len; simp at hlen; omega
  | cons a t =>
    rw [hr] at hh
    have hz : (a :: t).getLast? = some a := by rw [hh]; rfl
    have hm := last_head_mem_cycPairs a t a hz
    rw [← hr] at hm
    rcases cycPairs_ap0 s r with h | h
    · exact hf.noZero _ (h.mem_iff.mp hm) rfl
    · have := h.mem_iff.mp hm
      rw [List.mem_map] at this
      obtain ⟨e, he, hee⟩ := this
      have : e.2 = e.1 := by
        have h1 := congrArg Prod.fst hee; have h2 := congrArg Prod.snd hee
        simp [swapP] at h1 h2; rw [h1, h2]
      exact hf.noZero e he this.symm

theorem edges_ap {s : Spell} {r : Ring} (hf : RingFacts r) : edges (s.ap r) = cycPairs (s.ap0 r) := by
  unfold edges; rw [Spec.Spell.ap_eq]
  split
  · rw [openRing_closeRing]
  · rw [openRing_of_open (ap0_open hf)]

theorem sideRing_ap (v : P) (s : Spell) {r : Ring} (hf : RingFacts r) :
    sideRing v (s.ap r) = sideRing v r := by
  rw [sideRing_eq, sideRing_eq, edges_ap hf, sideOfEdges_ap0]
  unfold edges; rw [openRing_of_open hf.isOpen]

theorem shoelace2_ap (s : Spell) (r : Ring) :
    shoelace2 (s.ap r) = (if s.rev then -1 else 1) * shoelace2 r := by
  rw [shoelace2_eq', shoelace2_eq', cyc_spell crossF (fun a b => crossF_anti a b)]

theorem measure_ap (s : Spell) (r : Ring) : Spec.measure (s.ap r) = Spec.measure r := by
  unfold Spec.measure; rw [shoelace2_ap, specAbsR_eq_abs, specAbsR_eq_abs]
  split <;> simp

/-- `g'` spells the curve `g` -/
structure SameCurve (g g' : Ring) : Prop where
  side : ∀ v, sideRing v g' = sideRing v g
  mem : ∀ v, v ∈ g' → v ∈ g
  meas : Spec.measure g' = Spec.measure g
  len : 2 ≤ g'.length

theorem sameCurve_ap (s : Spell) {r : Ring} (h : SimpleRing r = true) : SameCurve r (s.ap r) := by
  have hf := ringFacts_of_simple h
  exact ⟨fun v => sideRing_ap v s hf, fun v hv => mem_ap hv, measure_ap s r,
    by have := length_ap_ge s r; have := hf.len; omega⟩

end GeomV.C03
