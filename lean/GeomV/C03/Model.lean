import GeomV.Common.Geom
import GeomV.C02.Model
/-!
# C03 — executable model of the measure code of ctessum/geom

Exact part (core `Rat`): `area.go` (`Polygon.Area`, `area`, `signedarea`, `Polygon.Centroid`),
`multipolygon.go` (`Area`, `Centroid` — the FIXED code, see notes/C03.md), `within.go`/`simplify.go` (`pointInPolygon` and below: imported from `GeomV.C02.Model`), `similar.go`
(`pointsSimilar` as used by `area`), `bounds.go` (`Area`, `Centroid`), `op/properties.go`
(`Area`, `area`, `Centroid`).

Real-valued part (generic over `RNum`, instantiated at `Float` here and at `ℝ` in Lemmas):
`simplify.go` (`distPointToSegment`), `linestring.go`/`multilinestring.go` (`Length`, `Distance`),
`point.go` (`Buffer`), `op.Length`.

Core Lean only (the driver links against this file).
-/
namespace GeomV.C03

abbrev P := Pt Rat
abbrev Ring := List P
abbrev Poly := List Ring
abbrev MPoly := List Poly

/-- Go run-time faults that the modelled functions can raise. -/
inductive Fault where
  | indexOutOfRange   -- `r[len(r)-1]` on an empty ring
  | explicitPanic     -- `panic(fmt.Errorf(...))` in `Point.Buffer`
deriving Repr, DecidableEq

/-! ## Cyclic sums as the Go loops write them -/

/-- `for i := 0; i < len(r)-1; i++ { s += f(r[i], r[i+1]) }` -/
def pairSum (f : P → P → Rat) : List P → Rat
  | a :: b :: t => f a b + pairSum f (b :: t)
  | _ => 0

/-- `A := f(r[high], r[0]); for i < high { A += f(r[i], r[i+1]) }` (caller guarantees the guard) -/
def goCyc (f : P → P → Rat) (r : List P) : Rat :=
  match r.getLast?, r.head? with
  | some l, some h => f l h + pairSum f r
  | _, _ => 0

/-- trapezoid term of `area`/`signedarea`: `(r[i].X + r[i+1].X) * (r[i+1].Y - r[i].Y)` -/
def shoeF (a b : P) : Rat := (a.x + b.x) * (b.y - a.y)
/-- centroid terms: `(r[i].X + r[i+1].X) * (r[i].X*r[i+1].Y - r[i+1].X*r[i].Y)` and the Y analogue -/
def cxF (a b : P) : Rat := (a.x + b.x) * (a.x * b.y - b.x * a.y)
def cyF (a b : P) : Rat := (a.y + b.y) * (a.x * b.y - b.x * a.y)

/-- `signedarea` (area.go) -/
def signedArea (r : Ring) : Rat := if r.length < 2 then 0 else goCyc shoeF r / 2

/-- `op.area` (op/properties.go): guard is `len == 0` -/
def opRingArea (r : Ring) : Rat := if r.length = 0 then 0 else goCyc shoeF r / 2

/-! ## within.go / simplify.go: point in polygon, as called by `area` -/

/-- result of a float64 division where `x/0` and `0/0` matter -/
inductive FQ where
  | fin (q : Rat) | pinf | ninf | nan
deriving Repr, DecidableEq

def fdiv (a b : Rat) : FQ :=
  if b = 0 then (if 0 < a then .pinf else if a < 0 then .ninf else .nan) else .fin (a / b)

inductive Side where
  | outside | inside | onEdge
deriving Repr, DecidableEq

def ofStatus : C02.Status → Side
  | .outside => .outside
  | .inside => .inside
  | .onEdge => .onEdge

/-- `pointInPolygon(pp, pWithoutRing, boundsWithoutRing)` as `area` calls it: the model of within.go
is property C02's (`GeomV.C02.pointInPolygon`, tied to the same source by C02's own correspondence
and regenerated definitions, and here once more by this property's correspondence through
`Polygon.Area`), given the bounds of the very rings it is called with — `area` builds
`boundsWithoutRing` from the same rings.  With those bounds the `pgBounds[i]` index fault cannot occur
(`pip_no_fault` in LemmasPip.lean), so the unreachable error branch is given an arbitrary value. -/
def pip (pt : P) (rings : Poly) : Side :=
  match C02.pointInPolygon pt rings (C02.ringBounds rings) with
  | .ok s => ofStatus s
  | .error _ => .outside

/-! ## area.go -/

def absR (q : Rat) : Rat := if q < 0 then -q else q

/-- `similar(a, b, e)`: `math.Abs(a-b) < e` -/
def similar (a b e : Rat) : Bool := decide (absR (a - b) < e)

def pointsSimilar (e : Rat) : List P → List P → Bool
  | [], [] => true
  | a :: as, b :: bs => similar a.x b.x e && similar a.y b.y e && pointsSimilar e as bs
  | _, _ => false

/-- the `for _, pp := range r` loop of `area`: the first vertex that is not `OnEdge` decides -/
def firstDecisive (others : Poly) : List P → Option Side
  | [] => none
  | v :: t => match pip v others with
    | .onEdge => firstDecisive others t
    | s => some s

/-- `Point{X: r[ii].X/2 + r[jj].X/2, Y: r[ii].Y/2 + r[jj].Y/2}` -/
def mid (a b : P) : P := ⟨a.x / 2 + b.x / 2, a.y / 2 + b.y / 2⟩

/-- the middles of the edges `r[ii] r[(ii+1) % len(r)]`, in order (second loop of `area`, added by the
fix "area decides a ring whose vertices all lie on other rings by the middle of an edge") -/
def midsAux (first : P) : List P → List P
  | [] => []
  | [x] => [mid x first]
  | x :: y :: t => mid x y :: midsAux first (y :: t)
def edgeMids : List P → List P
  | [] => []
  | a :: t => midsAux a (a :: t)

/-- `area(r, i, p, bounds)` where `others` is `p` without ring `i` and `single = (len(p) == 1)`:
the vertices are asked first, then the edge middles; the first point that is not `OnEdge` decides -/
def ringArea (single : Bool) (r : Ring) (others : Poly) : Rat :=
  if r.length < 2 then 0 else
  let A := absR (goCyc shoeF r / 2)
  if single then A else
  match firstDecisive others (r ++ edgeMids r) with
  | some .outside => A
  | some _ => -A
  | none =>
    let m := (others.filter (pointsSimilar 0 r)).length
    if m % 2 = 1 then 0 else -A

/-- rings paired with "the polygon without this ring", in order -/
def withOthers : Poly → Poly → List (Ring × Poly)
  | _, [] => []
  | pre, r :: rest => (r, pre ++ rest) :: withOthers (pre ++ [r]) rest

/-- `Polygon.Area` -/
def polygonArea (p : Poly) : Rat :=
  ((withOthers [] p).map fun ro => ringArea (p.length == 1) ro.1 ro.2).sum

/-- `MultiPolygon.Area` -/
def multiPolygonArea (mp : MPoly) : Rat := absR (mp.map polygonArea).sum

/-- `op.Area` on a Polygon -/
def opPolygonArea (p : Poly) : Rat := absR (p.map opRingArea).sum
/-- `op.Area` on a MultiPolygon: each member's `Area` already took `math.Abs` -/
def opMultiPolygonArea (mp : MPoly) : Rat := absR (mp.map opPolygonArea).sum

/-! ## centroids -/

/-- a float64 result coordinate: finite value or the non-finite outcome of dividing by zero -/
abbrev FV := FQ

/-- accumulated state of the centroid loops: `none` once a NaN has been added in -/
structure CAcc where
  A : Rat
  xA : Rat
  yA : Rat
  nan : Bool
deriving Repr

def CAcc.zero : CAcc := ⟨0, 0, 0, false⟩

/-- one ring's contribution: `cx /= 6*den; cy /= 6*den; A += w; xA += cx*w; yA += cy*w`.
If `den = 0` the quotient is ±Inf or NaN and (as `w = 0` exactly when `den = 0` in every caller)
the product with `w` is NaN. -/
def CAcc.add (s : CAcc) (cxn cyn den w : Rat) : CAcc :=
  if den = 0 then { s with A := s.A + w, nan := true }
  else ⟨s.A + w, s.xA + cxn / (6 * den) * w, s.yA + cyn / (6 * den) * w, s.nan⟩

/-- `Point{X: xA / A, Y: yA / A}` -/
def CAcc.finish (s : CAcc) : FV × FV :=
  if s.nan then (.nan, .nan) else (fdiv s.xA s.A, fdiv s.yA s.A)

/-- `if r[len(r)-1] != r[0] { r = append(r, r[0]) }` -/
def closeIfOpen (r : Ring) : Except Fault Ring :=
  match r.getLast?, r.head? with
  | some l, some h => .ok (if l = h then r else r ++ [h])
  | _, _ => .error .indexOutOfRange

/-- the loop of `Polygon.Centroid` (below its range guard) -/
def polygonCentroidAcc : Poly → CAcc → Except Fault CAcc
  | [], s => .ok s
  | r :: rest, s => do
    let a := signedArea r
    let rc ← closeIfOpen r
    polygonCentroidAcc rest (s.add (pairSum cxF rc) (pairSum cyF rc) a a)

def polygonCentroidCore (p : Poly) : Except Fault (FV × FV) :=
  (polygonCentroidAcc p .zero).map CAcc.finish

/-- `op.Centroid` on a Polygon: no closing step, no fault on an empty ring -/
def opCentroidAcc : Poly → CAcc → CAcc
  | [], s => s
  | r :: rest, s =>
    let a := opRingArea r
    opCentroidAcc rest (s.add (pairSum cxF r) (pairSum cyF r) a a)

def opCentroidCore (p : Poly) : FV × FV := (opCentroidAcc p .zero).finish

/-- inner loop of the FIXED `MultiPolygon.Centroid`: weight `a = area(r, i, p, b)` (hole-signed),
ring centroid `= sums / (6 * signedarea(r))`. -/
def mpCentroidRings (single : Bool) : List (Ring × Poly) → CAcc → CAcc
  | [], s => s
  | (r, others) :: rest, s =>
    mpCentroidRings single rest (s.add (pairSum cxF r) (pairSum cyF r) (signedArea r) (ringArea single r others))

def mpCentroidAcc : MPoly → CAcc → CAcc
  | [], s => s
  | p :: rest, s => mpCentroidAcc rest (mpCentroidRings (p.length == 1) (withOthers [] p) s)

def multiPolygonCentroidCore (mp : MPoly) : FV × FV := (mpCentroidAcc mp .zero).finish

/-- the code before the fix (`cx /= 6 * a` with `a` the hole-signed absolute area); kept for the
negative theorem `C03_mcentroid_unfixed_wrong`. -/
def mpCentroidRingsOld (single : Bool) : List (Ring × Poly) → CAcc → CAcc
  | [], s => s
  | (r, others) :: rest, s =>
    let a := ringArea single r others
    mpCentroidRingsOld single rest (s.add (pairSum cxF r) (pairSum cyF r) a a)
def mpCentroidAccOld : MPoly → CAcc → CAcc
  | [], s => s
  | p :: rest, s => mpCentroidAccOld rest (mpCentroidRingsOld (p.length == 1) (withOthers [] p) s)
def multiPolygonCentroidOld (mp : MPoly) : FV × FV := (mpCentroidAccOld mp .zero).finish

/-! ## range guard of the centroids (fix 4edcec2, per axis since the fix "centroids rescale each axis by its own power of two")

`Polygon.Centroid`, `MultiPolygon.Centroid` and `op.Centroid` begin with
`if kx, ky := centroidScale(p); kx != 1 || ky != 1 { c := p.scaled(kx, ky).Centroid(); return Point{c.X * kx, c.Y * ky} }`:
when the largest |X| (resp. |Y|) is outside `[2^-300, 2^300]` the centroid of a copy whose X (resp. Y)
coordinates are divided by a power of two is calculated by the loops above (`…Core`) and multiplied back. -/

def maxAbsX (rings : Poly) : Rat :=
  rings.foldl (fun m r => r.foldl (fun m v => max m (absR v.x)) m) 0
def maxAbsY (rings : Poly) : Rat :=
  rings.foldl (fun m r => r.foldl (fun m v => max m (absR v.y)) m) 0

def pow2 (i : Int) : Rat := if 0 ≤ i then (2 : Rat) ^ i.toNat else 1 / (2 : Rat) ^ (-i).toNat

/-- `math.Ldexp(1, e-1)` with `_, e = math.Frexp(m)`: the power of two `k` with `k ≤ m < 2k` (`m > 0`) -/
def pow2Floor (m : Rat) : Rat :=
  let i : Int := (m.num.toNat.log2 : Int) - (m.den.log2 : Int)
  if pow2 i ≤ m then pow2 i else pow2 (i - 1)

/-- `centroidAxisScale` -/
def axisScale (m : Rat) : Rat :=
  if pow2 300 ≤ m ∨ (0 < m ∧ m ≤ pow2 (-300)) then pow2Floor m else 1

/-- `centroidScale` and the test `kx != 1 || ky != 1`: `none` stands for "no rescaling" -/
def centScale (rings : Poly) : Option (Rat × Rat) :=
  let kx := axisScale (maxAbsX rings)
  let ky := axisScale (maxAbsY rings)
  if kx ≠ 1 ∨ ky ≠ 1 then some (kx, ky) else none

/-- `Polygon.scaled(kx, ky)` -/
def scaleRing (kx ky : Rat) (r : Ring) : Ring := r.map fun v => ⟨v.x / kx, v.y / ky⟩
def scalePoly (kx ky : Rat) (p : Poly) : Poly := p.map (scaleRing kx ky)

/-- `c.X * k` for a positive finite `k`: infinities and NaN stay what they are -/
def FQ.mulPos (k : Rat) : FQ → FQ
  | .fin q => .fin (q * k)
  | x => x
def unscale (kx ky : Rat) (c : FV × FV) : FV × FV := (c.1.mulPos kx, c.2.mulPos ky)

/-- `Polygon.Centroid` below its first guard (the local origin): the range guard + the loops -/
def polygonCentroidScaled (p : Poly) : Except Fault (FV × FV) :=
  match centScale p with
  | some (kx, ky) => (polygonCentroidCore (scalePoly kx ky p)).map (unscale kx ky)
  | none => polygonCentroidCore p

/-- `op.Centroid` on a Polygon below its first guard -/
def opCentroidScaled (p : Poly) : FV × FV :=
  match centScale p with
  | some (kx, ky) => unscale kx ky (opCentroidCore (scalePoly kx ky p))
  | none => opCentroidCore p

/-- `MultiPolygon.Centroid` below its first guard -/
def multiPolygonCentroidScaled (mp : MPoly) : FV × FV :=
  match centScale mp.flatten with
  | some (kx, ky) => unscale kx ky (multiPolygonCentroidCore (mp.map (scalePoly kx ky)))
  | none => multiPolygonCentroidCore mp

/-! ## local origin of the centroids (fix "centroids form their moment sums relative to the first vertex")

`Polygon.Centroid`, `MultiPolygon.Centroid` and `op.Centroid` begin with
`if ox, oy := centroidOrigin(p); ox != 0 || oy != 0 { c := p.translated(ox, oy).Centroid(); return Point{c.X + ox, c.Y + oy} }`:
the centroid of a copy translated so that the first vertex of the first ring is the origin is calculated
by the code below (`…Scaled`: range guard, then the loops) and the vertex is added back.  (Over `Rat` every
coordinate is finite: `centroidAxisOrigin` is the identity.) -/

/-- `centroidOrigin(p)`: the first vertex of the first ring, `(0, 0)` when there is none -/
def firstVertex (rings : Poly) : Rat × Rat :=
  match rings with
  | (v :: _) :: _ => (v.x, v.y)
  | _ => (0, 0)

/-- `centroidOrigin(mp...)`: the first vertex of the first ring of the FIRST polygon -/
def firstVertexM (mp : MPoly) : Rat × Rat :=
  match mp with
  | p :: _ => firstVertex p
  | [] => (0, 0)

/-- `centroidOrigin(p)` and the test `ox != 0 || oy != 0`: `none` stands for "no translation" -/
def centOrigin (rings : Poly) : Option (Rat × Rat) :=
  let o := firstVertex rings
  if o.1 ≠ 0 ∨ o.2 ≠ 0 then some o else none

def centOriginM (mp : MPoly) : Option (Rat × Rat) :=
  let o := firstVertexM mp
  if o.1 ≠ 0 ∨ o.2 ≠ 0 then some o else none

/-- `Polygon.translated(ox, oy)` -/
def translateRing (ox oy : Rat) (r : Ring) : Ring := r.map fun v => ⟨v.x - ox, v.y - oy⟩
def translatePoly (ox oy : Rat) (p : Poly) : Poly := p.map (translateRing ox oy)

/-- `c.X + ox` for a finite `ox`: infinities and NaN stay what they are -/
def FQ.addFin (t : Rat) : FQ → FQ
  | .fin q => .fin (q + t)
  | x => x
def unshift (ox oy : Rat) (c : FV × FV) : FV × FV := (c.1.addFin ox, c.2.addFin oy)

/-- `Polygon.Centroid` -/
def polygonCentroid (p : Poly) : Except Fault (FV × FV) :=
  match centOrigin p with
  | some (ox, oy) => (polygonCentroidScaled (translatePoly ox oy p)).map (unshift ox oy)
  | none => polygonCentroidScaled p

/-- `op.Centroid` on a Polygon -/
def opCentroid (p : Poly) : FV × FV :=
  match centOrigin p with
  | some (ox, oy) => unshift ox oy (opCentroidScaled (translatePoly ox oy p))
  | none => opCentroidScaled p

/-- `MultiPolygon.Centroid` -/
def multiPolygonCentroid (mp : MPoly) : FV × FV :=
  match centOriginM mp with
  | some (ox, oy) => unshift ox oy (multiPolygonCentroidScaled (mp.map (translatePoly ox oy)))
  | none => multiPolygonCentroidScaled mp

/-! ## bounds.go (read only) -/
def boundsArea (mn mx : P) : Rat := (mx.x - mn.x) * (mx.y - mn.y)
def boundsCentroid (mn mx : P) : P := ⟨(mn.x + mx.x) / 2, (mn.y + mx.y) / 2⟩

/-! ## Real-valued code, written once -/

/-- the operations the length/distance/buffer code uses -/
class RNum (α : Type) extends Add α, Sub α, Mul α, Div α where
  ofNat : Nat → α
  le : α → α → Bool
  lt : α → α → Bool
  min : α → α → α
  max : α → α → α
  abs : α → α
  /-- `some k` when a magnitude `m` is so large or so small that squaring it would leave the float
  range; `k > 0` is the factor the coordinates are divided by (a power of two in the `Float`
  instance; over `ℝ` any positive factor gives the same value, see `dpsCore_rescale`) -/
  rescale : α → Option α
  sqrt : α → α
  hypot : α → α → α
  cos : α → α
  sin : α → α
  pi : α

section Real
variable {α : Type} [RNum α]
open RNum

def psub (a b : Pt α) : Pt α := ⟨a.x - b.x, a.y - b.y⟩
def dot (u v : Pt α) : α := u.x * v.x + u.y * v.y
def norm (v : Pt α) : α := sqrt (dot v v)
def dist (u v : Pt α) : α := norm (psub u v)

/-- `distPointToSegment` (simplify.go) below its range guard -/
def dpsCore (p s e : Pt α) : α :=
  let v := psub e s
  let w := psub p s
  let c1 := dot w v
  if le c1 (ofNat 0) then dist p s else
  let c2 := dot v v
  if le c2 c1 then dist p e else
  let b := c1 / c2
  dist p ⟨s.x + b * v.x, s.y + b * v.y⟩

/-- `distPointToSegment` (simplify.go, with the range guard of fix 676f013: when the largest
coordinate difference is outside `[2^-500, 2^500]` the point and the segment are translated to the
segment start, divided by a power of two, measured, and the result is scaled back) -/
def distPointToSegment (p s e : Pt α) : α :=
  let v := psub e s
  let w := psub p s
  let m := RNum.max (RNum.max (abs v.x) (abs v.y)) (RNum.max (abs w.x) (abs w.y))
  match rescale m with
  | some k => k * dpsCore ⟨w.x / k, w.y / k⟩ ⟨ofNat 0, ofNat 0⟩ ⟨v.x / k, v.y / k⟩
  | none => dpsCore p s e

/-- `LineString.Length` loop with its accumulator (also `op.length`) -/
def lengthGo : α → List (Pt α) → α
  | acc, a :: b :: t => lengthGo (acc + hypot (b.x - a.x) (b.y - a.y)) (b :: t)
  | acc, _ => acc

def lineStringLength (l : List (Pt α)) : α := lengthGo (ofNat 0) l

/-- `MultiLineString.Length` (also `op.Length` on a MultiLineString) -/
def multiLineStringLength (ls : List (List (Pt α))) : α :=
  ls.foldl (fun acc l => acc + lineStringLength l) (ofNat 0)

/-- `math.Min(d, x)` where `none` stands for `d = +Inf` -/
def ominL : Option α → α → Option α
  | none, x => some x
  | some d, x => some (RNum.min d x)
def omin : Option α → Option α → Option α
  | d, none => d
  | d, some x => ominL d x

/-- `LineString.Distance` loop; `none` is `+Inf` -/
def distanceGo (p : Pt α) : Option α → List (Pt α) → Option α
  | d, a :: b :: t => distanceGo p (ominL d (distPointToSegment p a b)) (b :: t)
  | d, _ => d

def lineStringDistance (l : List (Pt α)) (p : Pt α) : Option α := distanceGo p none l

def multiLineStringDistance (ls : List (List (Pt α))) (p : Pt α) : Option α :=
  ls.foldl (fun d l => omin d (lineStringDistance l p)) none

/-- `Point.Buffer` -/
def buffer (c : Pt α) (radius : α) (segments : Int) : Except Fault (List (List (Pt α))) :=
  if segments < 3 then .error .explicitPanic
  else if lt radius (ofNat 0) then .error .explicitPanic
  else
    let n := segments.toNat
    let dTheta := pi * ofNat 2 / (ofNat n : α)
    .ok [(List.range n).map fun i =>
      let theta := (ofNat i : α) * dTheta
      (⟨c.x + radius * cos theta, c.y + radius * sin theta⟩ : Pt α)]

end Real

/-- Go's `math.Hypot` protects against overflow and underflow of the squares -/
def floatHypot (x y : Float) : Float :=
  let a := Float.abs x; let b := Float.abs y
  let p := if a ≤ b then b else a
  let q := if a ≤ b then a else b
  if p == 0 then 0 else
    let t := q / p
    p * Float.sqrt (1 + t * t)

instance : RNum Float where
  ofNat := Float.ofNat
  le a b := a ≤ b
  lt a b := a < b
  min a b := if a ≤ b then a else b
  max a b := if a ≤ b then b else a
  abs := Float.abs
  rescale m :=
    -- `(m >= 0x1p500 || (m <= 0x1p-500 && m > 0)) && !math.IsInf(m, 0)`; `k = Ldexp(1, e-1)`, `_, e = Frexp(m)`
    if (Float.scaleB 1 500 ≤ m || (m ≤ Float.scaleB 1 (-500) && 0 < m)) && m < Float.ofBits 0x7ff0000000000000 then
      some (Float.scaleB 1 (m.frExp.2 - 1))
    else none
  sqrt := Float.sqrt
  hypot := floatHypot
  cos := Float.cos
  sin := Float.sin
  pi := Float.ofBits 0x400921FB54442D18

end GeomV.C03
