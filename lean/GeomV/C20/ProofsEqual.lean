import GeomV.C20.EqualTie
import GeomV.C20.Proofs
/-!
# C20 theorems about `Equal` and the nil decision of `NewTransform`, on the REGENERATED walk

Clauses: "parsing the same text twice gives Equal references" and "NewTransform returns the nil (identity)
transformer exactly for Equal references".  `EqualGen.lean` (field lists of `SR`/`datum`, the case bodies of `equal`,
the statements of `NewTransform` that decide) is regenerated from the Go source on every run; `EqualTie.lean` ties it
to the hand-written `equalSR`.  Here: `Equal` is an equivalence relation on parsed references EXACTLY when the
closeness test is one; for "within n units in the last place" it is reflexive and symmetric but NOT transitive.
-/
set_option linter.unusedSimpArgs false
set_option linter.unusedVariables false
namespace GeomV.C20
open Num

section
variable {α : Type} [Num α]

/-- **C20_equal_regenerated** — on references that carry a datum (every result of `Parse`) the REGENERATED `Equal`
(field lists of `SR` and `datum` in declaration order, translated case bodies) is the model's `equalSR`; with a nil
`datum` on either side it never answers `true` (the Go code panics inside `reflect` unless an earlier field differs). -/
theorem C20_equal_regenerated (close : α → α → Bool) (p q : SR α) :
    (p.datum.isSome → q.datum.isSome → genEqual close p q = equalSR close p q)
    ∧ ((p.datum = none ∨ q.datum = none) → genEqual close p q ≠ some true) := by
  constructor
  · intro hp hq
    cases hd : p.datum with
    | none => simp [hd] at hp
    | some d =>
      cases he : q.datum with
      | none => simp [he] at hq
      | some e =>
        unfold genEqual
        rw [genValsEq_eq, equalSR_eq_walk close p q d e hd he]
  · intro h
    unfold genEqual
    rw [genValsEq_eq]
    exact walk_nil_datum close p q h

/-- **C20_nil_iff_equal_regenerated** — for any two parse results, the regenerated `NewTransform` returns the nil
transformer exactly when the regenerated `source.Equal(dest, 3)` holds, and that is the model's `equalSR` with the
3-ULP closeness. -/
theorem C20_nil_iff_equal_regenerated (closeUlp : Nat → α → α → Bool) (c1 c2 : Str) (r1 r2 : SR α)
    (h1 : parse c1 = .ok r1) (h2 : parse c2 = .ok r2) :
    (genNewTransformIsNil closeUlp r1 r2 = some true ↔ equalSR (closeUlp 3) r1 r2 = some true)
    ∧ genNewTransformIsNil closeUlp r1 r2 = newTransformIsNil (closeUlp 3) r1 r2 := by
  have e : genNewTransformIsNil closeUlp r1 r2 = equalSR (closeUlp 3) r1 r2 := by
    unfold genNewTransformIsNil
    rw [newTransform_source_pins.2]
    exact (C20_equal_regenerated (closeUlp 3) r1 r2).1 (parse_datum c1 r1 h1) (parse_datum c2 r2 h2)
  exact ⟨by rw [e], e⟩

/-! ### transitivity, on the walk (any field list) -/

theorem feq_trans (close : α → α → Bool) (ht : ∀ x y z, close x y = true → close y z = true → close x z = true)
    (x y z : α) (h1 : feq close x y = true) (h2 : feq close y z = true) : feq close x z = true := by
  unfold feq at *
  cases hx : isNaN x <;> cases hy : isNaN y <;> cases hz : isNaN z <;> simp [hx, hy, hz] at h1 h2 ⊢
  exact ht x y z h1 h2

theorem sliceEq_trans (close : α → α → Bool) (ht : ∀ x y z, close x y = true → close y z = true → close x z = true) :
    ∀ a b c : List α, sliceEq close a b = true → sliceEq close b c = true → sliceEq close a c = true
  | [], [], [], _, _ => rfl
  | x :: a, y :: b, z :: c, h1, h2 => by
    simp only [sliceEq, Bool.and_eq_true] at h1 h2 ⊢
    exact ⟨feq_trans close ht x y z h1.1 h2.1, sliceEq_trans close ht a b c h1.2 h2.2⟩
  | [], [], _ :: _, _, h2 => by simp [sliceEq] at h2
  | [], _ :: _, _, h1, _ => by simp [sliceEq] at h1
  | _ :: _, [], _, h1, _ => by simp [sliceEq] at h1
  | _ :: _, _ :: _, [], _, h2 => by simp [sliceEq] at h2

theorem leafEq_trans (close : α → α → Bool) (ht : ∀ x y z, close x y = true → close y z = true → close x z = true)
    (x y z : Leaf α) (h1 : leafEq close x y = some true) (h2 : leafEq close y z = some true) :
    leafEq close x z = some true := by
  cases x <;> cases y <;> simp only [leafEq, Option.some.injEq, reduceCtorEq] at h1 <;>
    cases z <;> simp only [leafEq, Option.some.injEq, reduceCtorEq] at h2 ⊢
  · exact feq_trans close ht _ _ _ h1 h2
  · simp only [beq_iff_eq] at h1 h2 ⊢; exact h1.trans h2
  · simp only [beq_iff_eq] at h1 h2 ⊢; exact h1.trans h2
  · simp only [beq_iff_eq] at h1 h2 ⊢; exact h1.trans h2
  · exact sliceEq_trans close ht _ _ _ h1 h2

theorem leavesEq_trans (close : α → α → Bool) (ht : ∀ x y z, close x y = true → close y z = true → close x z = true) :
    ∀ a b c : List (Leaf α), leavesEq close a b = some true → leavesEq close b c = some true → leavesEq close a c = some true
  | [], _, _, _, _ => by simp [leavesEq]
  | _ :: _, [], _, h1, _ => by simp [leavesEq] at h1
  | _ :: _, _ :: _, [], _, h2 => by simp [leavesEq] at h2
  | x :: a, y :: b, z :: c, h1, h2 => by
    simp only [leavesEq, stepO] at h1 h2 ⊢
    cases e1 : leafEq close x y with
    | none => simp [e1] at h1
    | some b1 =>
      cases b1 with
      | false => simp [e1] at h1
      | true =>
        cases e2 : leafEq close y z with
        | none => simp [e2] at h2
        | some b2 =>
          cases b2 with
          | false => simp [e2] at h2
          | true =>
            simp only [e1, e2] at h1 h2
            simp only [leafEq_trans close ht x y z e1 e2]
            exact leavesEq_trans close ht a b c h1 h2

theorem valEq_trans (close : α → α → Bool) (ht : ∀ x y z, close x y = true → close y z = true → close x z = true)
    (x y z : FVal α) (h1 : valEq close x y = some true) (h2 : valEq close y z = some true) :
    valEq close x z = some true := by
  cases x with
  | leaf x =>
    cases y with
    | leaf y =>
      cases z with
      | leaf z => exact leafEq_trans close ht x y z h1 h2
      | ptr o => simp [valEq] at h2
    | ptr o => simp [valEq] at h1
  | ptr o1 =>
    cases y with
    | leaf y => simp [valEq] at h1
    | ptr o2 =>
      cases z with
      | leaf z => simp [valEq] at h2
      | ptr o3 =>
        cases o1 <;> cases o2 <;> cases o3 <;> simp only [valEq, reduceCtorEq] at h1 h2 ⊢
        exact leavesEq_trans close ht _ _ _ h1 h2

theorem valsEq_trans (close : α → α → Bool) (ht : ∀ x y z, close x y = true → close y z = true → close x z = true) :
    ∀ a b c : List (FVal α), valsEq close a b = some true → valsEq close b c = some true → valsEq close a c = some true
  | [], _, _, _, _ => by simp [valsEq]
  | _ :: _, [], _, h1, _ => by simp [valsEq] at h1
  | _ :: _, _ :: _, [], _, h2 => by simp [valsEq] at h2
  | x :: a, y :: b, z :: c, h1, h2 => by
    simp only [valsEq, stepO] at h1 h2 ⊢
    cases e1 : valEq close x y with
    | none => simp [e1] at h1
    | some b1 =>
      cases b1 with
      | false => simp [e1] at h1
      | true =>
        cases e2 : valEq close y z with
        | none => simp [e2] at h2
        | some b2 =>
          cases b2 with
          | false => simp [e2] at h2
          | true =>
            simp only [e1, e2] at h1 h2
            simp only [valEq_trans close ht x y z e1 e2]
            exact valsEq_trans close ht a b c h1 h2

theorem equalSR_datum (close : α → α → Bool) (p q : SR α) (b : Bool) (h : equalSR close p q = some b) :
    ∃ d e, p.datum = some d ∧ q.datum = some e := by
  unfold equalSR at h
  cases hp : p.datum <;> cases hq : q.datum <;> simp [hp, hq] at h
  exact ⟨_, _, rfl, rfl⟩

/-- **C20_equal_trans** — `Equal` is transitive whenever the closeness test is (e.g. `ulp = 0`: bit equality up
to the sign of zero).  With `C20_equal_refl` and `C20_equal_symm`: an equivalence relation on parsed references. -/
theorem C20_equal_trans (close : α → α → Bool) (ht : ∀ x y z, close x y = true → close y z = true → close x z = true)
    (p q r : SR α) (h1 : equalSR close p q = some true) (h2 : equalSR close q r = some true) :
    equalSR close p r = some true := by
  obtain ⟨d, e, hd, he⟩ := equalSR_datum close p q true h1
  obtain ⟨e', f, he', hf⟩ := equalSR_datum close q r true h2
  rw [← equalSR_eq_walk close p q d e hd he] at h1
  rw [← equalSR_eq_walk close q r e' f he' hf] at h2
  rw [← equalSR_eq_walk close p r d f hd hf]
  exact valsEq_trans close ht _ _ _ h1 h2

/-- one reference with every number equal to `y` except the origin latitude -/
def flatSR (y v : α) : SR α :=
  { rf := y, lat0 := v, lat1 := y, lat2 := y, latTS := y, long0 := y, long1 := y, long2 := y, longC := y, alpha := y,
    x0 := y, y0 := y, k0 := y, k := y, a := y, a2 := y, b := y, b2 := y, zone := y, toMeter := y, fromGreenwich := y,
    es := y, e := y, ep2 := y, datum := some { dtype := pjdWGS84, params := [], a := y, b := y, es := y, ep2 := y, nadGrids := [] } }

/-- **C20_equal_not_trans** — conversely, whenever the closeness test is NOT transitive on numbers (`x ~ y`,
`y ~ z`, `x ≁ z`: for "within 3 units in the last place" take `x`, `x + 3 ulp`, `x + 6 ulp`) `Equal` is not
transitive either: there are references with `Equal p q`, `Equal q r` and not `Equal p r`.  So `Equal(·,·,3)` is
reflexive and symmetric but NOT an equivalence relation; `NewTransform` can return nil for (p,q) and (q,r) and a
real transformer for (p,r). -/
theorem C20_equal_not_trans (close : α → α → Bool) (hrefl : ∀ x, close x x = true) (x y z : α)
    (hx : isNaN x = false) (hy : isNaN y = false) (hz : isNaN z = false)
    (hxy : close x y = true) (hyz : close y z = true) (hxz : close x z = false) :
    ∃ p q r : SR α, equalSR close p q = some true ∧ equalSR close q r = some true ∧ equalSR close p r = some false := by
  refine ⟨flatSR y x, flatSR y y, flatSR y z, ?_, ?_, ?_⟩ <;>
    simp [equalSR, flatSR, datumEq, sliceEq, feq_refl close hrefl, feq, hx, hy, hz, hxy, hyz, hxz, hrefl]

end

/-! ### a kernel-checked instance on PARSED references -/

/-- "within `n` units" on exact numbers (the shape of gonum's `EqualWithinULP`: distance on an integer lattice) -/
def closeUnits (n : Nat) (a b : XR) : Bool :=
  match a, b with
  | some p, some q => decide (p - q ≤ n ∧ q - p ≤ n)
  | _, _ => false

def equalTexts (close : XR → XR → Bool) (t1 t2 : String) : Option Bool :=
  match parse (α := XR) t1.toList, parse (α := XR) t2.toList with
  | .ok a, .ok b => equalSR close a b
  | _, _ => none

/-- **C20_equal_not_trans_parsed** — three PROJ.4 texts whose false eastings are 0, 3 and 6: with "within 3 units"
the first two and the last two parse to `Equal` references, the first and the last do not. -/
theorem C20_equal_not_trans_parsed :
    equalTexts (closeUnits 3) "+proj=merc +a=6378137 +rf=298.25 +x_0=0" "+proj=merc +a=6378137 +rf=298.25 +x_0=3" = some true
    ∧ equalTexts (closeUnits 3) "+proj=merc +a=6378137 +rf=298.25 +x_0=3" "+proj=merc +a=6378137 +rf=298.25 +x_0=6" = some true
    ∧ equalTexts (closeUnits 3) "+proj=merc +a=6378137 +rf=298.25 +x_0=0" "+proj=merc +a=6378137 +rf=298.25 +x_0=6" = some false := by
  decide +kernel

/-- non-vacuity of the hypotheses of `C20_equal_not_trans` and `C20_equal_trans` -/
example : closeUnits 3 (some 0) (some 3) = true ∧ closeUnits 3 (some 3) (some 6) = true ∧ closeUnits 3 (some 0) (some 6) = false := by
  decide +kernel
example : ∀ x y z : XR, (x == y) = true → (y == z) = true → (x == z) = true := by
  intro x y z h1 h2
  simp only [beq_iff_eq] at *
  exact h1.trans h2

end GeomV.C20
