import GeomV.C20.P4Lex
import GeomV.C20.Derive
/-!
# PROJ.4 at token level: `parseProj4Toks (toProj4Toks c st)` delivers `CoreOK c`
-/
set_option linter.unusedSimpArgs false
set_option linter.unusedVariables false
namespace GeomV.C20
open Num

/-! ## one key at a time (`projKV` on a concrete key reduces in the kernel) -/

section keys
variable (sr : SR XR) (v : Str)

def angK (f : XR → SR XR) : Except Err (SR XR) := do let x ← parseFloat v; pure (f (mul x deg2rad))
def numK (f : XR → SR XR) : Except Err (SR XR) := do let x ← parseFloat v; pure (f x)

theorem kv_proj : projKV sr (s "proj") v = .ok { sr with name := v } := rfl
theorem kv_title : projKV sr (s "title") v = .ok { sr with title := v } := rfl
theorem kv_datum : projKV sr (s "datum") v = .ok { sr with datumCode := v } := rfl
theorem kv_lat0 : projKV sr (s "lat_0") v = angK v fun x => { sr with lat0 := x } := rfl
theorem kv_lat1 : projKV sr (s "lat_1") v = angK v fun x => { sr with lat1 := x } := rfl
theorem kv_lat2 : projKV sr (s "lat_2") v = angK v fun x => { sr with lat2 := x } := rfl
theorem kv_lon0 : projKV sr (s "lon_0") v = angK v fun x => { sr with long0 := x } := rfl
theorem kv_x0 : projKV sr (s "x_0") v = numK v fun x => { sr with x0 := x } := rfl
theorem kv_y0 : projKV sr (s "y_0") v = numK v fun x => { sr with y0 := x } := rfl
theorem kv_k0 : projKV sr (s "k_0") v = numK v fun x => { sr with k0 := x } := rfl
theorem kv_k : projKV sr (s "k") v = numK v fun x => { sr with k0 := x } := rfl
theorem kv_a : projKV sr (s "a") v = numK v fun x => { sr with a := x } := rfl
theorem kv_rf : projKV sr (s "rf") v = numK v fun x => { sr with rf := x } := rfl
theorem kv_to_meter : projKV sr (s "to_meter") v = numK v fun x => { sr with toMeter := x } := rfl
theorem kv_no_defs : projKV sr (s "no_defs") v = .ok { sr with noDefs := true } := rfl
theorem kv_towgs84 : projKV sr (s "towgs84") v =
    (do let vs ← parseFloats (splitOn ',' v); pure { sr with datumParams := vs }) := rfl
theorem kv_units_m : projKV sr (s "units") (s "m") = .ok { sr with units := s "m" } := rfl
theorem kv_units_ft : projKV sr (s "units") (s "ft") = .ok { sr with units := s "ft", toMeter := some (mkRat 381 1250) } := rfl

theorem kvl_proj : projKV sr ['p', 'r', 'o', 'j'] v = .ok { sr with name := v } := rfl
theorem kvl_title : projKV sr ['t', 'i', 't', 'l', 'e'] v = .ok { sr with title := v } := rfl
theorem kvl_datum : projKV sr ['d', 'a', 't', 'u', 'm'] v = .ok { sr with datumCode := v } := rfl
theorem kvl_lat0 : projKV sr ['l', 'a', 't', '_', '0'] v = angK v fun x => { sr with lat0 := x } := rfl
theorem kvl_lat1 : projKV sr ['l', 'a', 't', '_', '1'] v = angK v fun x => { sr with lat1 := x } := rfl
theorem kvl_lat2 : projKV sr ['l', 'a', 't', '_', '2'] v = angK v fun x => { sr with lat2 := x } := rfl
theorem kvl_lon0 : projKV sr ['l', 'o', 'n', '_', '0'] v = angK v fun x => { sr with long0 := x } := rfl
theorem kvl_x0 : projKV sr ['x', '_', '0'] v = numK v fun x => { sr with x0 := x } := rfl
theorem kvl_y0 : projKV sr ['y', '_', '0'] v = numK v fun x => { sr with y0 := x } := rfl
theorem kvl_k0 : projKV sr ['k', '_', '0'] v = numK v fun x => { sr with k0 := x } := rfl
theorem kvl_k : projKV sr ['k'] v = numK v fun x => { sr with k0 := x } := rfl
theorem kvl_a : projKV sr ['a'] v = numK v fun x => { sr with a := x } := rfl
theorem kvl_rf : projKV sr ['r', 'f'] v = numK v fun x => { sr with rf := x } := rfl
theorem kvl_to_meter : projKV sr ['t', 'o', '_', 'm', 'e', 't', 'e', 'r'] v = numK v fun x => { sr with toMeter := x } := rfl
theorem kvl_no_defs : projKV sr ['n', 'o', '_', 'd', 'e', 'f', 's'] v = .ok { sr with noDefs := true } := rfl
theorem kvl_towgs84 : projKV sr ['t', 'o', 'w', 'g', 's', '8', '4'] v =
    (do let vs ← parseFloats (splitOn ',' v); pure { sr with datumParams := vs }) := rfl
theorem kvl_units_m : projKV sr ['u', 'n', 'i', 't', 's'] ['m'] = .ok { sr with units := s "m" } := rfl
theorem kvl_units_ft : projKV sr ['u', 'n', 'i', 't', 's'] ['f', 't'] = .ok { sr with units := s "ft", toMeter := some (mkRat 381 1250) } := rfl

end keys

/-! ## the numeral contract, unpacked -/

structure NumOK (d : Dec) : Prop where
  read : parseFloat (α := XR) (renderDec d) = .ok (some d.toRat)
  alpha : (renderDec d).all numCh = true
  ne : renderDec d ≠ []

theorem numOK_of (d : Dec) (h : numeralOK d = true) : NumOK d := by
  unfold numeralOK at h
  simp only [Bool.and_eq_true, Bool.not_eq_true', List.isEmpty_eq_false_iff] at h
  obtain ⟨⟨hne, ha⟩, hr⟩ := h
  refine ⟨?_, ha, hne⟩
  cases hp : parseFloat (α := XR) (renderDec d) with
  | error e => rw [hp] at hr; simp at hr
  | ok v =>
    rw [hp] at hr
    simp only [beq_iff_eq] at hr
    rw [hr]

theorem numOK_mem (c : Crs) (h : numeralsRead c = true) (d : Dec) (hd : d ∈ decsOf c) : NumOK d := by
  unfold numeralsRead at h
  rw [List.all_eq_true] at h
  exact numOK_of d (h d hd)

/-! ## effects of the token groups -/

def degX (d : Dec) : XR := some (d.toRat * deg2radQ)

theorem angK_read (d : Dec) (h : NumOK d) (f : XR → SR XR) : angK (renderDec d) f = .ok (f (degX d)) := by
  simp [angK, h.read, bind, Except.bind, pure, Except.pure, degX, Num.mul, XR.bin, deg2rad, Num.ofRat]

theorem numK_read (d : Dec) (h : NumOK d) (f : XR → SR XR) : numK (renderDec d) f = .ok (f (some d.toRat)) := by
  simp [numK, h.read, bind, Except.bind, pure, Except.pure]

theorem foldKVs_append (sr : SR XR) : ∀ l1 l2 : List (Str × Str),
    foldKVs sr (l1 ++ l2) = (foldKVs sr l1 >>= fun sr' => foldKVs sr' l2)
  | [], l2 => by simp [foldKVs, bind, Except.bind]
  | (k, v) :: r, l2 => by
    simp only [List.cons_append, foldKVs, bind, Except.bind]
    cases h : projKV sr k v with
    | error e => rfl
    | ok sr' => simpa [bind, Except.bind] using foldKVs_append sr' r l2

def effParams (c : Crs) (sr : SR XR) : SR XR :=
  match c.kind with
  | .geog => sr
  | .merc => { sr with long0 := degX c.lon0, k0 := some c.k0.toRat, x0 := some c.feM.toRat, y0 := some c.fnM.toRat }
  | .tmerc => { sr with lat0 := degX c.lat0, long0 := degX c.lon0, k0 := some c.k0.toRat, x0 := some c.feM.toRat, y0 := some c.fnM.toRat }
  | _ => { sr with lat1 := degX c.lat1, lat2 := degX c.lat2, lat0 := degX c.lat0, long0 := degX c.lon0,
                   x0 := some c.feM.toRat, y0 := some c.fnM.toRat }

theorem fold_params (c : Crs) (st : Style) (sr : SR XR) (hlo : st.leaveOut = 0)
    (h : ∀ d ∈ decsOf c, NumOK d) : foldKVs sr ((p4Params c st).map p4KV) = .ok (effParams c sr) := by
  have h0 := h c.lat0 (by simp [decsOf])
  have h1 := h c.lat1 (by simp [decsOf])
  have h2 := h c.lat2 (by simp [decsOf])
  have h4 := h c.lon0 (by simp [decsOf])
  have h5 := h c.k0 (by simp [decsOf])
  have h6 := h c.feM (by simp [decsOf])
  have h7 := h c.fnM (by simp [decsOf])
  cases hk : c.kind <;> cases hkk : st.k0key <;>
    simp [p4Params, effParams, hk, hkk, hlo, kv, p4KV, foldKVs, kvl_lat0, kvl_lat1, kvl_lat2, kvl_lon0, kvl_x0, kvl_y0, kvl_k0, kvl_k,
      angK_read, numK_read, h0, h1, h2, h4, h5, h6, h7, bind, Except.bind, s]

/-! ## the towgs84 value -/

theorem numCh_ne (c : Char) (h : numCh c = true) : c ≠ ',' ∧ c ≠ '+' ∧ c ≠ '=' ∧ isSpace c = false := by
  unfold numCh at h
  simp only [Bool.or_eq_true, Bool.and_eq_true, decide_eq_true_eq] at h
  have key : ∀ z : Char, z < '-' → c ≠ z := by
    intro z hz e
    subst e
    rcases h with (h | h) | h
    · exact absurd (Std.lt_of_lt_of_le (Std.lt_of_lt_of_le hz (by decide : '-' ≤ '0')) h.1) (by simp)
    · subst h; exact absurd hz (by decide)
    · subst h; exact absurd hz (by decide)
  refine ⟨key ',' (by decide), key '+' (by decide), ?_, ?_⟩
  · intro e; subst e; revert h; decide
  · unfold isSpace
    simp only [Bool.or_eq_false_iff, decide_eq_false_iff_not]
    exact ⟨⟨⟨⟨⟨key ' ' (by decide), key '\t' (by decide)⟩, key '\n' (by decide)⟩, key '\r' (by decide)⟩,
      key (Char.ofNat 11) (by decide)⟩, key (Char.ofNat 12) (by decide)⟩

theorem nocomma (d : Dec) (h : NumOK d) : ',' ∉ renderDec d := by
  intro hm
  have := h.alpha
  rw [List.all_eq_true] at this
  exact (numCh_ne _ (this _ hm)).1 rfl

theorem splitOn_join : ∀ ds : List Dec, ds ≠ [] → (∀ d ∈ ds, NumOK d) →
    splitOn ',' (joinWith [','] (ds.map renderDec)) = ds.map renderDec
  | [], h, _ => absurd rfl h
  | [d], _, hd => by simp [joinWith, splitOn_nosep ',' _ (nocomma d (hd d (by simp)))]
  | d :: d' :: r, _, hd => by
    have ih := splitOn_join (d' :: r) (by simp) (fun x hx => hd x (by simp [hx]))
    simp only [List.map_cons, joinWith] at ih ⊢
    rw [List.append_assoc, List.singleton_append, splitOn_append_sep ',' _ _ (nocomma d (hd d (by simp))), ih]

theorem parseFloats_map : ∀ ds : List Dec, (∀ d ∈ ds, NumOK d) →
    parseFloats (α := XR) (ds.map renderDec) = .ok (ds.map fun d => some d.toRat)
  | [], _ => rfl
  | d :: r, hd => by
    simp [parseFloats, (hd d (by simp)).read, parseFloats_map r (fun x hx => hd x (by simp [hx])), bind, Except.bind, pure,
      Except.pure]

/-! ## all groups -/

def effTitle (st : Style) (sr : SR XR) : SR XR := if st.title then { sr with title := s "a b (c/d)" } else sr

def effDatum (c : Crs) (sr : SR XR) : SR XR :=
  match c.datum with
  | .wgs84 => { sr with datumCode := s "WGS84" }
  | .nad83 => { sr with datumCode := s "NAD83" }
  | .custom => match c.towgs with
    | some ds => { sr with datumParams := ds.map fun d => some d.toRat }
    | none => sr

def effUnit (c : Crs) (sr : SR XR) : SR XR :=
  if c.kind = .geog then sr else
  match c.unit with
  | .metre => { sr with units := s "m" }
  | .foot => { sr with units := s "ft", toMeter := some (mkRat 381 1250) }
  | .usFootDec => { sr with toMeter := some usFootDecQ.toRat }
  | .usFoot => { sr with units := s "us-ft", toMeter := some (mkRat 1200 3937) }

def effAll (c : Crs) (st : Style) (sr : SR XR) : SR XR :=
  let sr := effTitle st sr
  let sr := { sr with name := (p4Kind c.kind).toList }
  let sr := effParams c sr
  let sr := { sr with a := some c.a.toRat, rf := some c.rf.toRat }
  let sr := effDatum c sr
  let sr := effUnit c sr
  { sr with noDefs := true }

theorem kvl_units_usft (sr : SR XR) : projKV sr ['u', 'n', 'i', 't', 's'] ['u', 's', '-', 'f', 't'] =
    .ok { sr with units := s "us-ft", toMeter := some (mkRat 1200 3937) } := rfl

theorem fold_datum (c : Crs) (sr : SR XR) (hw : datumWF c = true) (h : ∀ d ∈ decsOf c, NumOK d) :
    foldKVs sr ((p4Datum c).map p4KV) = .ok (effDatum c sr) := by
  cases hd : c.datum with
  | wgs84 => simp [p4Datum, effDatum, hd, kt, p4KV, foldKVs, kvl_datum, bind, Except.bind, s]
  | nad83 => simp [p4Datum, effDatum, hd, kt, p4KV, foldKVs, kvl_datum, bind, Except.bind, s]
  | custom =>
    cases ht : c.towgs with
    | none => simp [p4Datum, effDatum, hd, ht, foldKVs]
    | some ds =>
      have hds : ∀ d ∈ ds, NumOK d := fun d hm => h d (by simp [decsOf, ht, hm])
      have hne : ds ≠ [] := by
        intro e
        unfold datumWF at hw
        rw [hd, ht, e] at hw
        simp at hw
      simp [p4Datum, effDatum, hd, ht, p4KV, foldKVs, kvl_towgs84, splitOn_join ds hne hds, parseFloats_map ds hds, bind,
        Except.bind, pure, Except.pure, s]

theorem fold_unit (c : Crs) (sr : SR XR) (h : ∀ d ∈ decsOf c, NumOK d) :
    foldKVs sr ((p4Unit c).map p4KV) = .ok (effUnit c sr) := by
  have hu := h usFootDecQ (by simp [decsOf])
  by_cases hg : c.kind = .geog
  · simp [p4Unit, effUnit, hg, foldKVs]
  · cases hu' : c.unit <;>
      simp [p4Unit, effUnit, hg, hu', kt, kv, p4KV, foldKVs, kvl_units_m, kvl_units_ft, kvl_units_usft, kvl_to_meter, numK_read, hu,
        bind, Except.bind, s]

/-- **token-level PROJ.4**: the fold over the tokens of a description has exactly the intended effect -/
theorem foldKVs_toks (c : Crs) (st : Style) (hlo : st.leaveOut = 0) (hw : datumWF c = true)
    (h : ∀ d ∈ decsOf c, NumOK d) :
    foldKVs newSR ((toProj4Toks c st).map p4KV) = .ok (effAll c st newSR) := by
  have ha := h c.a (by simp [decsOf])
  have hrf := h c.rf (by simp [decsOf])
  have htitle : ∀ sr : SR XR, foldKVs sr ((if st.title then [kt "title" "a b (c/d)"] else []).map p4KV) = .ok (effTitle st sr) := by
    intro sr
    cases htt : st.title <;> simp [effTitle, htt, kt, p4KV, foldKVs, kvl_title, bind, Except.bind, s]
  have hproj : ∀ sr : SR XR, foldKVs sr ([kt "proj" (p4Kind c.kind)].map p4KV) = .ok { sr with name := (p4Kind c.kind).toList } := by
    intro sr
    simp [kt, p4KV, foldKVs, kvl_proj, bind, Except.bind, s]
  have harf : ∀ sr : SR XR, foldKVs sr ([kv "a" c.a, kv "rf" c.rf].map p4KV) = .ok { sr with a := some c.a.toRat, rf := some c.rf.toRat } := by
    intro sr
    simp [kv, p4KV, foldKVs, kvl_a, kvl_rf, numK_read, ha, hrf, bind, Except.bind, s]
  have hnd : ∀ sr : SR XR, foldKVs sr ([((s "no_defs"), (none : Option Str))].map p4KV) = .ok { sr with noDefs := true } := by
    intro sr
    simp [p4KV, foldKVs, bind, Except.bind, kvl_no_defs, s]
  unfold toProj4Toks effAll
  simp only [List.map_append, foldKVs_append, htitle, hproj, fold_params c st _ hlo h, harf, fold_datum c _ hw h, fold_unit c _ h, hnd,
    bind, Except.bind]

end GeomV.C20
