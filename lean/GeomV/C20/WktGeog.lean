import GeomV.C20.WktNodes
/-!
# WKT at token level: the GEOGCS section
-/
set_option linter.unusedSimpArgs false
set_option linter.unusedVariables false
namespace GeomV.C20
open Num

def allGeogNames : List String := ["Custom 1999", "GCS_Custom_1999", "WGS 84", "GCS_WGS_1984", "NAD83", "GCS_North_American_1983"]

def geogNameCheck (n : String) : Bool :=
  decide (2 ≤ (toLower (quoted n)).length) && decide (renameHead (toLower (quoted n)) ≠ s "wgs_1984")

theorem geogNames_ok : allGeogNames.all geogNameCheck = true := by decide +kernel

theorem geogName_facts (c : Crs) (st : Style) : geogNameCheck (wktGeogName c st) = true := by
  have := geogNames_ok
  rw [List.all_eq_true] at this
  apply this
  unfold wktGeogName allGeogNames
  cases c.datum <;> cases st.esri <;> simp

/-- the state a GEOGCS section is entered with -/
def InvG (top : Bool) (sr : SR XR) : Prop := top = true ∨ (sr.name ≠ s "longlat" ∧ sr.name ≠ s "Mercator_Auxiliary_Sphere")

def degUnitName (st : Style) : String := if st.esri then "Degree" else "degree"

/-- the angular UNIT of a GEOGCS that is the whole definition -/
def effUnitG (st : Style) (sr : SR XR) : SR XR :=
  { ll sr with units := unitNameOf (degUnitName st), toMeter := Num.mul (some degDec.toRat) sr.a }

def effGeogKids (c : Crs) (st : Style) (top : Bool) : SR XR → SR XR :=
  (if top then effUnitG st else id) ∘ effDatumNode c st top

theorem effTw_name (c : Crs) (x : SR XR) : (effTw c x).name = x.name := by
  unfold effTw; cases c.datum <;> cases c.towgs <;> rfl

theorem effTw_a (c : Crs) (x : SR XR) : (effTw c x).a = x.a := by
  unfold effTw; cases c.datum <;> cases c.towgs <;> rfl

section geog
variable (sp top : Bool) (c : Crs) (st : Style) (hnum : ∀ d ∈ decsOf c, NumOK d) (hdw : datumWF c = true)

abbrev stepG (sp top : Bool) (f : Nat) := sectionStep (treeOps (sepOf sp)) (parseWKTSectionG (α := XR) (treeOps (sepOf sp)) (f + 1)) (pathG top)

include hnum hdw in
theorem run_datum (f : Nat) : Runs (stepG sp top f) (InvG top)
    (s "DATUM", [.q (wktDatumName c st)] ++ wktAu st "6269" (wktDatumBody c st)) (effDatumNode c st top) := by
  intro sr hi
  cases top
  · have hn : sr.name ≠ s "Mercator_Auxiliary_Sphere" := by
      rcases hi with h | h
      · exact absurd h (by decide)
      · exact h.2
    refine ⟨?_, ?_⟩
    · show sectionStep (treeOps (sepOf sp)) _ pPG _ sr = _
      rw [d_pg_datum]
      have := datum_node sp false c st hnum hdw f sr (Or.inr hn)
      simp only [wOf, Bool.false_eq_true, if_false, id, pathD] at this
      rw [this]
      rfl
    · rcases hi with h | h
      · exact absurd h (by decide)
      · right
        have e : (effDatumNode c st false sr).name = sr.name := by
          unfold effDatumNode effDatumKids
          simp only [Function.comp, effTw_name]
          rfl
        rw [e]; exact h
  · refine ⟨?_, Or.inl rfl⟩
    show sectionStep (treeOps (sepOf sp)) _ pG _ sr = _
    rw [d_g_datum]
    have := datum_node sp true c st hnum hdw f sr (Or.inl rfl)
    simp only [wOf, if_true, pathD] at this
    exact this

theorem invG_w (sr : SR XR) (hi : InvG top sr) : InvG top (wOf top sr) := by
  cases top
  · exact hi
  · exact Or.inl rfl

include hnum in
theorem run_primem (f : Nat) : Runs (stepG sp top f) (InvG top)
    (s "PRIMEM", [.q "Greenwich", .num ⟨0, if st.esri then 1 else 0⟩] ++ authArg st "8901") (wOf top) := by
  intro sr hi
  have hz : NumOK ⟨0, if st.esri then 1 else 0⟩ := by
    cases st.esri
    · exact hnum ⟨0, 0⟩ (by simp [decsOf])
    · exact hnum ⟨0, 1⟩ (by simp [decsOf])
  refine ⟨?_, invG_w top sr hi⟩
  cases top
  · show sectionStep (treeOps (sepOf sp)) _ pPG _ sr = _
    rw [d_pg_primem, primem_leaf sp sr _ hz _ (authArg_shape st _)]
    rfl
  · show sectionStep (treeOps (sepOf sp)) _ pG _ sr = _
    rw [d_g_primem, primem_leaf sp (ll sr) _ hz _ (authArg_shape st _)]
    rfl

include hnum in
theorem run_degunit (f : Nat) : Runs (stepG sp top f) (InvG top)
    (s "UNIT", [.q (degUnitName st), .num degDec] ++ authArg st "9122") (if top then effUnitG st else id) := by
  intro sr hi
  have hd : NumOK degDec := hnum degDec (by simp [decsOf])
  cases top
  · rcases hi with h | h
    · exact absurd h (by decide)
    · refine ⟨?_, Or.inr h⟩
      show sectionStep (treeOps (sepOf sp)) _ pPG _ sr = _
      rw [d_pg_unit _ _ _ _ h.1]
      rfl
  · refine ⟨?_, Or.inl rfl⟩
    show sectionStep (treeOps (sepOf sp)) _ pG _ sr = _
    have hu : txtOK (degUnitName st).toList = true := by unfold degUnitName; split <;> decide
    rw [d_g_unit, unit_leaf sp (ll sr) _ degDec hu hd _ (authArg_shape st _)]
    rfl

theorem run_auth_g (f : Nat) (code : String) : Runs (stepG sp top f) (InvG top) (authSub code) (wOf top) := by
  intro sr hi
  refine ⟨?_, invG_w top sr hi⟩
  cases top <;> rfl

theorem run_axis_g (f : Nat) (as : List WArg) : Runs (stepG sp true f) (InvG true) (s "AXIS", as) ll := by
  intro sr hi
  exact ⟨rfl, Or.inl rfl⟩

theorem runL_axes (f : Nat) : RunsL (stepG sp top f) (InvG top) (subsOf (wktGeogAxes st top)) (if st.axis && top then ll else id) := by
  unfold wktGeogAxes
  cases ha : (st.axis && top)
  · simp only [Bool.false_eq_true, if_false]; exact runsL_nil
  · simp only [if_true]
    have ht : top = true := by simp at ha; exact ha.2
    subst ht
    have := runsL_cons (run_axis_g sp f [.q "Latitude", .bare "NORTH"]) (runsL_single (run_axis_g sp f [.q "Longitude", .bare "EAST"]))
    exact runsL_congr this (by funext sr; rfl)

theorem runL_authopt_g (f : Nat) (code : String) :
    RunsL (stepG sp top f) (InvG top) (if st.auth then [authSub code] else []) (if st.auth then wOf top else id) := by
  cases st.auth
  · exact runsL_nil
  · exact runsL_single (run_auth_g sp top f code)

theorem ll_effTw (x : SR XR) : ll (effTw c x) = effTw c (ll x) := by
  unfold effTw; cases c.datum <;> cases c.towgs <;> rfl

attribute [local irreducible] ellpsOf datumCodeOf in
theorem ll_effDatumNode (x : SR XR) : ll (effDatumNode c st true x) = effDatumNode c st true x := by
  unfold effDatumNode effDatumKids
  simp only [Function.comp, ll_effTw]
  rfl

attribute [local irreducible] ellpsOf datumCodeOf in
theorem effDatumNode_ll (x : SR XR) : effDatumNode c st true (ll x) = effDatumNode c st true x := rfl

attribute [local irreducible] ellpsOf datumCodeOf unitNameOf in
include hnum hdw in
theorem runL_geogKids (f : Nat) : RunsL (stepG sp top f) (InvG top) (subsOf (wktGeogBody c st top)) (effGeogKids c st top) := by
  have hD := runsL_single (run_datum sp top c st hnum hdw f)
  have hP := runsL_single (run_primem sp top c st hnum f)
  have hU := runsL_single (run_degunit sp top c st hnum f)
  have hA := runL_axes sp top st f
  have hau := runL_authopt_g sp top st f "4269"
  have hbody := runsL_append (runsL_append hD (runsL_append hP hU)) hA
  have e1 : subsOf ([wktDatum c st, wktPrimem st, wktDegUnit st] ++ wktGeogAxes st top) =
      ([(s "DATUM", [.q (wktDatumName c st)] ++ wktAu st "6269" (wktDatumBody c st))] ++
        ([(s "PRIMEM", [.q "Greenwich", .num ⟨0, if st.esri then 1 else 0⟩] ++ authArg st "8901")] ++
         [(s "UNIT", [.q (degUnitName st), .num degDec] ++ authArg st "9122")])) ++ subsOf (wktGeogAxes st top) := by
    rw [subsOf_append]; rfl
  unfold wktGeogBody
  rw [subsOf_au, e1]
  have h1 : ∀ x : SR XR, ll (effUnitG st x) = effUnitG st x := fun _ => rfl
  have h2 : ∀ x : SR XR, effUnitG st (ll x) = effUnitG st x := fun _ => rfl
  cases hf : st.authFirst
  · simp only [Bool.false_eq_true, if_false]
    refine runsL_congr (runsL_append hbody hau) ?_
    funext sr
    unfold effGeogKids
    cases top <;> cases st.auth <;> cases st.axis <;>
      simp only [wOf, Function.comp, if_true, if_false, Bool.false_eq_true, id, h1, h2, ll_effDatumNode, effDatumNode_ll,
        Bool.and_true, Bool.and_false, Bool.and_self]
  · simp only [if_true]
    refine runsL_congr (runsL_append hau hbody) ?_
    funext sr
    unfold effGeogKids
    cases top <;> cases st.auth <;> cases st.axis <;>
      simp only [wOf, Function.comp, if_true, if_false, Bool.false_eq_true, id, h1, h2, ll_effDatumNode, effDatumNode_ll,
        Bool.and_true, Bool.and_false, Bool.and_self]

/-- what a GEOGCS section does to the state it is entered with -/
def effGeogNode (c : Crs) (st : Style) (top : Bool) (sr : SR XR) : SR XR := effGeogKids c st top (wOf top sr)

theorem wktGeogBody_cons : ∃ y r, wktGeogBody c st top = y :: r := by
  unfold wktGeogBody
  exact wktAu_cons st "4269" _ (by simp)

attribute [local irreducible] ellpsOf datumCodeOf unitNameOf in
theorem effGeogKids_dc (J : Str) (x : SR XR) : effGeogKids c st top { x with datumCode := J } = effGeogKids c st top x := by
  unfold effGeogKids
  cases top <;> rfl

include hnum hdw in
/-- **the GEOGCS section** -/
theorem geog_node (f : Nat) (sr : SR XR) (hi : InvG top sr) :
    parseWKTGeogCSG (treeOps (sepOf sp)) (parseWKTSectionG (treeOps (sepOf sp)) (f + 2)) (pathG top)
      ([.q (wktGeogName c st)] ++ wktGeogBody c st top) (wOf top sr) = ok (effGeogNode c st top sr) := by
  have hfacts := geogName_facts c st
  unfold geogNameCheck at hfacts
  simp only [Bool.and_eq_true, decide_eq_true_eq] at hfacts
  obtain ⟨hlen, hnw⟩ := hfacts
  obtain ⟨y, r, hyr⟩ := wktGeogBody_cons top c st
  have hlast : (pathG top).getLastD [] = s "GEOGCS" := by cases top <;> rfl
  unfold parseWKTGeogCSG
  rw [hlast, if_pos rfl, hyr]
  have hsn : (treeOps (sepOf sp)).splitName ([.q (wktGeogName c st)] ++ y :: r) = some (quoted (wktGeogName c st), y :: r) := rfl
  rw [hsn]
  have hren : datumRename { (wOf top sr) with datumCode := toLower (quoted (wktGeogName c st)) } =
      ok { (wOf top sr) with datumCode := renameCode (toLower (quoted (wktGeogName c st))) } := by
    unfold datumRename
    have hl : ¬ (toLower (quoted (wktGeogName c st))).length < 2 := by omega
    simp only [hl, if_false, hnw]
  simp only [hren, ok]
  rw [← hyr, section_tree]
  have hinv : InvG top { (wOf top sr) with datumCode := renameCode (toLower (quoted (wktGeogName c st))) } := by
    cases top
    · exact hi
    · exact Or.inl rfl
  rw [(runL_geogKids sp top c st hnum hdw f _ hinv).1, effGeogKids_dc]
  rfl

end geog

end GeomV.C20
