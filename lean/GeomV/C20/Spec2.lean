import GeomV.C20.Spec
/-!
# C20 specification, additions of phase 3 (core Lean only; imported by the driver)

* `bumpShift` — the same description with ONE term of its datum shift changed (two realisations of a datum on
  the same ellipsoid): such references are NOT the same reference, so `Equal` must be false and `NewTransform`
  must not be the identity between them.
* `sphereTexts` — a SPHERE of radius `R` in the two notations: PROJ.4 `+a=R +b=R`, OGC WKT
  `SPHEROID["…",R,0]` (inverse flattening 0 is how OGC/ESRI write a sphere).  Both must mean the same.
-/
namespace GeomV.C20

/-- term `i % n` of the datum shift changed by 1 (`fine = false`) or by 0.01 (`fine = true`) -/
def bumpShift (c : Crs) (i : Nat) (fine : Bool) : Crs :=
  match c.towgs with
  | some ds =>
    if ds.isEmpty then c else
    let j := i % ds.length
    let b (d : Dec) : Dec := if fine then ⟨d.mant * 100 + 1, d.scale + 2⟩ else ⟨d.mant + 10 ^ d.scale, d.scale⟩
    { c with towgs := some ((List.range ds.length).zipWith (fun k d => if k = j then b d else d) ds) }
  | none => c

/-- the size of the change made by `bumpShift`, as a rational -/
def bumpSize (fine : Bool) : Rat := if fine then 1 / 100 else 1

/-- PROJ.4 tokens of `c` on a sphere of radius `c.a`: `+a=R +b=R` instead of `+a= +rf=` -/
def toProj4SphereToks (c : Crs) (st : Style) : List P4Tok :=
  (if st.title then [kt "title" "a b (c/d)"] else []) ++ [kt "proj" (p4Kind c.kind)] ++ p4Params c st ++
    [kv "a" c.a, kv "b" c.a] ++ p4Datum c ++ p4Unit c ++ [(s "no_defs", none)]

/-- the two notations of `c` on a sphere of radius `c.a` (`c.rf` is ignored) -/
def sphereTexts (c : Crs) (st : Style) : Str × Str :=
  (renderP4 (toProj4SphereToks c st), toWkt { c with rf := ⟨0, 0⟩ } st)

end GeomV.C20
