import GeomV.C20.ParseAgree
import GeomV.C20.Fold
import GeomV.C20.CodeFree
/-!
# C20_transform_agree: equal views give the same pipeline (C08's model of `NewTransform`'s closure)

`pipeSR` builds C08's `SR` record — everything the eight projection constructors, `datumTransform`
and the closure of `NewTransform` read — from a C20 `View` (exact rationals embedded by `ι`, NaN for
unset fields) and the one field a `View` does not carry, the datum code (DATA; `checkNotWGS` tests
`strings.EqualFold(DatumCode, "WGS84")` since fix b165df1, `DatumCode == "WGS84"` before it; the test decides whether the
closure goes through WGS84 in two hops).  The two parsed references of one description carry DIFFERENT codes
(`WGS84` / `wgs84`), so agreement of the pipelines needs `transform3_code` (CodeFree.lean: nothing below the route
decision reads the code) and the equality of the two folds.
-/
set_option linter.unusedSimpArgs false
set_option linter.unusedVariables false
namespace GeomV.C20
open GeomV

def pnameOf : Option String → C08.PName
  | some "LongLat" => .longlat | some "Merc" => .merc | some "LCC" => .lcc | some "AEA" => .aea
  | some "EqdC" => .eqdc | some "TMerc" => .tmerc | some "UTM" => .utm | some "Krovak" => .krovak
  | _ => .other

section
variable {α : Type} [C08.RTrans α] (ι : Rat → α)

def embedX : XR → α
  | some q => ι q
  | none => C08.RNum.nan

def pipeSR (v : View XR) (code : Str) : C08.SR α :=
  let p (i : Nat) : α := embedX ι ((v.datumParams[i]?).getD none)
  { name := pnameOf v.proj, lat0 := embedX ι v.lat0, lat1 := embedX ι v.lat1, lat2 := embedX ι v.lat2, latTS := embedX ι v.latTS,
    long0 := embedX ι v.long0, x0 := embedX ι v.x0, y0 := embedX ι v.y0, k0 := embedX ι v.k0, k := C08.RNum.nan,
    a := embedX ι v.a, b := embedX ι v.b, rf := embedX ι v.rf, es := embedX ι v.es, e := C08.RTrans.sqrt (embedX ι v.es),
    ep2 := embedX ι v.ep2, zone := C08.RNum.nan, toMeter := embedX ι v.toMeter, fromGreenwich := embedX ι v.fromGreenwich,
    sphere := v.sphere, ra := false, utmSouth := false, czech := false, axis := v.axis, datumCode := String.ofList code,
    datum := { dtype := v.datumType, a := embedX ι v.datumA, b := embedX ι v.datumB, es := embedX ι v.datumEs, ep2 := embedX ι v.datumEp2,
               np := v.datumParams.length, p0 := p 0, p1 := p 1, p2 := p 2, p3 := p 3, p4 := p 4, p5 := p 5, p6 := p 6 } }

/-- **C20_transform_agree_partial** — for every well-formed description, both texts parse to references
whose views are THE SAME value (`expected c`); hence C08's pipeline model built from either reference is
the same function of the position, to and from any other reference, for every number type (ℝ included)
and every embedding of the rationals.  Partial: the datum code is a parameter, the same on both sides
(`C20_transform_agree` below is about the real codes, which differ in case). -/
theorem C20_transform_agree_partial (c : Crs) (st : Style) (hw : wellFormed c = true) (hst : styleOK st = true)
    (hn : numeralsRead c = true) :
    ∃ rp rw vp vw, parse (α := XR) (toProj4 c st) = .ok rp ∧ parse (α := XR) (toWkt c st) = .ok rw ∧
      view rp = some vp ∧ view rw = some vw ∧
      ∀ (code : Str) (wgs other : C08.SR α) (x y : α),
        C08.transform wgs (pipeSR ι vp code) other x y = C08.transform wgs (pipeSR ι vw code) other x y ∧
        C08.transform wgs other (pipeSR ι vp code) x y = C08.transform wgs other (pipeSR ι vw code) x y := by
  unfold styleOK at hst
  simp only [Bool.and_eq_true, beq_iff_eq, decide_eq_true_eq] at hst
  have hf := wf_spheroid c hw
  obtain ⟨r1, hp1, hv1, _⟩ := p4_parse_agree c st hw hn hst.1 hf
  obtain ⟨r2, hp2, hv2, _⟩ := wkt_parse_agree c st hw hn hst.1 hst.2 hf
  exact ⟨r1, r2, expected c, expected c, hp1, hp2, hv1, hv2, fun _ _ _ _ _ => ⟨rfl, rfl⟩⟩

/-- what `checkNotWGS` of transform.go makes of a reference's code: `strings.EqualFold(DatumCode, "WGS84")` (after fix
b165df1; `genCheckNotWGS` of the regenerated `RouteGen.lean` is tied to this flag by `genCheckNotWGS_eq`, ProofsWgs.lean) -/
def codeWGS84 (r : SR XR) : Bool := equalFold r.datumCode (s "WGS84")

/-- the flag as the code computed it BEFORE fix b165df1: `DatumCode == "WGS84"`, case-sensitive -/
def codeWGS84Literal (r : SR XR) : Bool := r.datumCode = s "WGS84"

/-- C20's model of `EqualFold` and the one in C08's pipeline model are the same function -/
theorem equalFold_eq_c08 (x t : Str) : equalFold x t = C08.equalFoldAscii x t := by
  induction x generalizing t with
  | nil => cases t <;> rfl
  | cons a x ih =>
    cases t with
    | nil => rfl
    | cons b t => simp only [equalFold, C08.equalFoldAscii, ih]; rfl

theorem goEqualFold_ofList (x : Str) : C08.goEqualFold (String.ofList x) "WGS84" = equalFold x (s "WGS84") := by
  rw [equalFold_eq_c08]
  unfold C08.goEqualFold
  rw [String.toList_ofList]
  rfl

theorem pipeSR_withCode (v : View XR) (c c' : Str) : pipeSR ι v c' = withCode (pipeSR ι v c) (String.ofList c') := rfl

/-- the closure of `NewTransform` depends on the codes of its two references only through their folds -/
theorem transform_code (wgs a b : C08.SR α) (ca ca' cb cb' : String)
    (ha : C08.goEqualFold ca "WGS84" = C08.goEqualFold ca' "WGS84") (hb : C08.goEqualFold cb "WGS84" = C08.goEqualFold cb' "WGS84") :
    C08.transform wgs (withCode a ca) (withCode b cb) = C08.transform wgs (withCode a ca') (withCode b cb') := by
  funext x y
  have e1 : C08.checkNotWGS (withCode a ca) (withCode b cb) = C08.checkNotWGS (withCode a ca') (withCode b cb') := by
    unfold C08.checkNotWGS
    show (_ && !C08.goEqualFold cb "WGS84") = (_ && !C08.goEqualFold cb' "WGS84")
    rw [hb]; rfl
  have e2 : C08.checkNotWGS (withCode b cb) (withCode a ca) = C08.checkNotWGS (withCode b cb') (withCode a ca') := by
    unfold C08.checkNotWGS
    show (_ && !C08.goEqualFold ca "WGS84") = (_ && !C08.goEqualFold ca' "WGS84")
    rw [ha]; rfl
  have t1 : ∀ c, C08.transform3 (withCode a c) wgs = C08.transform3 a wgs := fun c => transform3_code a wgs c wgs.datumCode
  have t2 : ∀ c, C08.transform3 wgs (withCode b c) = C08.transform3 wgs b := fun c => transform3_code wgs b wgs.datumCode c
  have t3 : ∀ c c', C08.transform3 (withCode a c) (withCode b c') = C08.transform3 a b := fun c c' => transform3_code a b c c'
  unfold C08.transform
  rw [e1, e2, t1, t1, t2, t2, t3, t3]

/-- every datum name the WKT renderer writes, by flavour of the description -/
theorem wktDatumName_cases (c : Crs) (st : Style) :
    (c.datum = .wgs84 ∧ wktDatumName c st ∈ ["WGS_1984", "D_WGS_1984"]) ∨
    (c.datum ≠ .wgs84 ∧ wktDatumName c st ∈ customAllNames ++ ["North_American_Datum_1983", "D_North_American_1983"]) := by
  by_cases hd : c.datum = .wgs84
  · left
    refine ⟨hd, ?_⟩
    unfold wktDatumName; rw [hd]; cases st.esri <;> simp
  · right
    refine ⟨hd, ?_⟩
    unfold wktDatumName
    cases hdd : c.datum
    · unfold customAllNames
      cases st.esri <;> simp only [List.mem_append, List.mem_map, List.mem_cons, List.mem_nil_iff, or_false]
      · by_cases h : c.dname < customDatumNames.length
        · left; left; left
          exact ⟨customDatumNames[c.dname], List.getElem_mem h, by simp [List.getD_eq_getElem?_getD, h]⟩
        · left; right; left
          simp [List.getD_eq_getElem?_getD, List.getElem?_eq_none (Nat.le_of_not_lt h)]
      · by_cases h : c.dname < customDatumNames.length
        · left; left; right
          exact ⟨customDatumNames[c.dname], List.getElem_mem h, by simp [List.getD_eq_getElem?_getD, h]⟩
        · left; right; right
          simp [List.getD_eq_getElem?_getD, List.getElem?_eq_none (Nat.le_of_not_lt h)]
    · exact absurd hdd hd
    · cases st.esri <;> simp

/-- the WKT side: the code `wkt` derives from the DATUM name folds to `WGS84` exactly for the names of WGS 84
(`"WGS_1984"`, `"D_WGS_1984"` ↦ `"wgs84"`), and for none of the near-miss names (`WGS_1984_Variant`, `WGS_1972`, …) -/
theorem wkt_flag (c : Crs) (st : Style) :
    equalFold (datumCodeOf (wktDatumName c st)) (s "WGS84") = decide (c.datum = .wgs84) := by
  have h1 : (customAllNames ++ ["North_American_Datum_1983", "D_North_American_1983"]).all
      (fun n => !equalFold (datumCodeOf n) (s "WGS84")) = true := by decide +kernel
  have h2 : ["WGS_1984", "D_WGS_1984"].all (fun n => equalFold (datumCodeOf n) (s "WGS84")) = true := by decide +kernel
  rw [List.all_eq_true] at h1 h2
  rcases wktDatumName_cases c st with ⟨hd, hm⟩ | ⟨hd, hm⟩
  · rw [h2 _ hm]; simp [hd]
  · have := h1 _ hm
    simp only [Bool.not_eq_true'] at this
    rw [this]; simp [hd]

/-- the PROJ.4 side: `+datum=WGS84` keeps its code, every other flavour (`""`, `"nad83"`) does not fold to it -/
theorem p4_flag (c : Crs) : equalFold (lowerCode (dCode c [])) (s "WGS84") = decide (c.datum = .wgs84) := by
  cases hdd : c.datum <;> simp only [dCode, hdd] <;> decide

/-- **C20_transform_agree** — for EVERY well-formed description (a datum given by the name WGS84 included, since fix
b165df1): both texts parse, the views are the same value, the flag `checkNotWGS` reads (`EqualFold(DatumCode, "WGS84")`)
is the same on both references (PROJ.4 keeps `WGS84`, WKT yields `wgs84`: both fold; every other datum flavour and every
near-miss name folds on neither side), and nothing else in the closure reads the code (`transform3_code`), so C08's
pipeline built from the two parsed references — their REAL datum codes included — is the same function of the position,
to and from any other reference, for every number type (ℝ included) and every embedding of the rationals. -/
theorem C20_transform_agree (c : Crs) (st : Style) (hw : wellFormed c = true) (hst : styleOK st = true)
    (hn : numeralsRead c = true) :
    ∃ rp rw vp vw, parse (α := XR) (toProj4 c st) = .ok rp ∧ parse (α := XR) (toWkt c st) = .ok rw ∧
      view rp = some vp ∧ view rw = some vw ∧ codeWGS84 rp = codeWGS84 rw ∧
      ∀ (wgs other : C08.SR α) (x y : α),
        C08.transform wgs (pipeSR ι vp rp.datumCode) other x y = C08.transform wgs (pipeSR ι vw rw.datumCode) other x y ∧
        C08.transform wgs other (pipeSR ι vp rp.datumCode) x y = C08.transform wgs other (pipeSR ι vw rw.datumCode) x y := by
  unfold styleOK at hst
  simp only [Bool.and_eq_true, beq_iff_eq, decide_eq_true_eq] at hst
  have hf := wf_spheroid c hw
  obtain ⟨r1, hp1, hv1, hc1⟩ := p4_parse_agree c st hw hn hst.1 hf
  obtain ⟨r2, hp2, hv2, hc2⟩ := wkt_parse_agree c st hw hn hst.1 hst.2 hf
  have f1 : codeWGS84 r1 = decide (c.datum = .wgs84) := by
    unfold codeWGS84; rw [hc1]; exact p4_flag c
  have f2 : codeWGS84 r2 = decide (c.datum = .wgs84) := by
    unfold codeWGS84; rw [hc2]; exact wkt_flag c st
  have hfold : C08.goEqualFold (String.ofList r1.datumCode) "WGS84" = C08.goEqualFold (String.ofList r2.datumCode) "WGS84" := by
    rw [goEqualFold_ofList, goEqualFold_ofList]
    exact f1.trans f2.symm
  refine ⟨r1, r2, expected c, expected c, hp1, hp2, hv1, hv2, by rw [f1, f2], fun wgs other x y => ?_⟩
  have h1 := transform_code wgs (pipeSR ι (expected c) r1.datumCode) other (String.ofList r1.datumCode) (String.ofList r2.datumCode)
    other.datumCode other.datumCode hfold rfl
  have h2 := transform_code wgs other (pipeSR ι (expected c) r1.datumCode) other.datumCode other.datumCode
    (String.ofList r1.datumCode) (String.ofList r2.datumCode) rfl hfold
  exact ⟨congrFun (congrFun h1 x) y, congrFun (congrFun h2 x) y⟩

end

end GeomV.C20
