import GeomV.C20.ParseAgree
import GeomV.C08.ProjPipeline
/-!
# C20_transform_agree: equal views give the same pipeline (C08's model of `NewTransform`'s closure)

`pipeSR` builds C08's `SR` record — everything the eight projection constructors, `datumTransform`
and the closure of `NewTransform` read — from a C20 `View` (exact rationals embedded by `ι`, NaN for
unset fields) and the one field a `View` does not carry, `codeWGS84` (`DatumCode == "WGS84"`, which
decides whether the closure goes through WGS84 in two hops).
-/
set_option linter.unusedSimpArgs false
set_option linter.unusedVariables false
namespace GeomV.C20
open GeomV

def pnameOf : Option String → C08.PName
  | some "LongLat" => .longlat | some "Merc" => .merc | some "LCC" => .lcc | some "AEA" => .aea
  | some "EqdC" => .eqdc | some "TMerc" => .tmerc | some "UTM" => .utm | some "Krovak" => .krovak
  | _ => .other

section
variable {α : Type} [C08.RTrans α] (ι : Rat → α)

def embedX : XR → α
  | some q => ι q
  | none => C08.RNum.nan

def pipeSR (v : View XR) (codeWGS84 : Bool) : C08.SR α :=
  let p (i : Nat) : α := embedX ι ((v.datumParams[i]?).getD none)
  { name := pnameOf v.proj, lat0 := embedX ι v.lat0, lat1 := embedX ι v.lat1, lat2 := embedX ι v.lat2, latTS := embedX ι v.latTS,
    long0 := embedX ι v.long0, x0 := embedX ι v.x0, y0 := embedX ι v.y0, k0 := embedX ι v.k0, k := C08.RNum.nan,
    a := embedX ι v.a, b := embedX ι v.b, rf := embedX ι v.rf, es := embedX ι v.es, e := C08.RTrans.sqrt (embedX ι v.es),
    ep2 := embedX ι v.ep2, zone := C08.RNum.nan, toMeter := embedX ι v.toMeter, fromGreenwich := embedX ι v.fromGreenwich,
    sphere := v.sphere, ra := false, utmSouth := false, czech := false, axis := v.axis, codeWGS84 := codeWGS84,
    datum := { dtype := v.datumType, a := embedX ι v.datumA, b := embedX ι v.datumB, es := embedX ι v.datumEs, ep2 := embedX ι v.datumEp2,
               np := v.datumParams.length, p0 := p 0, p1 := p 1, p2 := p 2, p3 := p 3, p4 := p 4, p5 := p 5, p6 := p 6 } }

/-- **C20_transform_agree_partial** — for every well-formed description, both texts parse to references
whose views are THE SAME value (`expected c`); hence C08's pipeline model built from either reference is
the same function of the position, to and from any other reference, for every number type (ℝ included)
and every embedding of the rationals.  Partial: the flag `codeWGS84` is a parameter — for a datum given
by the NAME WGS84 the real flags differ (PROJ.4 keeps `WGS84`, WKT yields `wgs84`), so one side takes
the two-hop route; equality of the two routes is a statement about the geocentric conversions (C08),
measured here to 1 µm by the correspondence run. -/
theorem C20_transform_agree_partial (c : Crs) (st : Style) (hw : wellFormed c = true) (hst : styleOK st = true)
    (hn : numeralsRead c = true) :
    ∃ rp rw vp vw, parse (α := XR) (toProj4 c st) = .ok rp ∧ parse (α := XR) (toWkt c st) = .ok rw ∧
      view rp = some vp ∧ view rw = some vw ∧
      ∀ (code : Bool) (wgs other : C08.SR α) (x y : α),
        C08.transform wgs (pipeSR ι vp code) other x y = C08.transform wgs (pipeSR ι vw code) other x y ∧
        C08.transform wgs other (pipeSR ι vp code) x y = C08.transform wgs other (pipeSR ι vw code) x y := by
  unfold styleOK at hst
  simp only [Bool.and_eq_true, beq_iff_eq, decide_eq_true_eq] at hst
  have hf := wf_spheroid c hw
  obtain ⟨r1, hp1, hv1, _⟩ := p4_parse_agree c st hw hn hst.1 hf
  obtain ⟨r2, hp2, hv2, _⟩ := wkt_parse_agree c st hw hn hst.1 hst.2 hf
  exact ⟨r1, r2, expected c, expected c, hp1, hp2, hv1, hv2, fun _ _ _ _ _ => ⟨rfl, rfl⟩⟩

/-- `DatumCode == "WGS84"`, the field of the reference that `checkNotWGS` reads -/
def codeWGS84 (r : SR XR) : Bool := r.datumCode = s "WGS84"

/-- **C20_transform_agree** — for a datum that is NOT given by the name WGS84 (custom shifts, NAD83) the flag
`codeWGS84` is false on both references as well, so C08's pipeline built from the two parsed references —
real flags included — is literally the same function of the position, to and from any other reference. -/
theorem C20_transform_agree (c : Crs) (st : Style) (hw : wellFormed c = true) (hst : styleOK st = true)
    (hn : numeralsRead c = true) (hd : c.datum ≠ .wgs84) :
    ∃ rp rw vp vw, parse (α := XR) (toProj4 c st) = .ok rp ∧ parse (α := XR) (toWkt c st) = .ok rw ∧
      view rp = some vp ∧ view rw = some vw ∧
      ∀ (wgs other : C08.SR α) (x y : α),
        C08.transform wgs (pipeSR ι vp (codeWGS84 rp)) other x y = C08.transform wgs (pipeSR ι vw (codeWGS84 rw)) other x y ∧
        C08.transform wgs other (pipeSR ι vp (codeWGS84 rp)) x y = C08.transform wgs other (pipeSR ι vw (codeWGS84 rw)) x y := by
  unfold styleOK at hst
  simp only [Bool.and_eq_true, beq_iff_eq, decide_eq_true_eq] at hst
  have hf := wf_spheroid c hw
  obtain ⟨r1, hp1, hv1, hc1⟩ := p4_parse_agree c st hw hn hst.1 hf
  obtain ⟨r2, hp2, hv2, hc2⟩ := wkt_parse_agree c st hw hn hst.1 hst.2 hf
  have f1 : codeWGS84 r1 = false := by
    unfold codeWGS84
    rw [hc1]
    cases hdd : c.datum
    · simp [dCode, hdd, lowerCode, toLower]; decide
    · exact absurd hdd hd
    · simp only [dCode, hdd, lowerCode]
      rw [if_pos (by decide), toLower_NAD83]
      decide
  have f2 : codeWGS84 r2 = false := by
    unfold codeWGS84
    rw [hc2]
    simp [datumCode_notWGS84 c st]
  refine ⟨r1, r2, expected c, expected c, hp1, hp2, hv1, hv2, fun _ _ _ _ => ?_⟩
  rw [f1, f2]
  exact ⟨rfl, rfl⟩

end

end GeomV.C20
