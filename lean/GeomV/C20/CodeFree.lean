import GeomV.C08.ProjPipeline
/-!
# `transform3` does not read `DatumCode`

C08's pipeline record `C08.SR` carries the datum code as data; the closure of `NewTransform` reads it in ONE place,
`checkNotWGS` (the route decision).  Everything below that decision — `(*SR).Transformers` with the eight
constructors and their closures, `adjust_axis`, `datumTransform`, the unit / prime-meridian steps of `transform3` —
is proved here to be independent of the code: `transform3_code`.  (The constructors keep the whole mutated record
in their contexts, so this is not definitional: each constructor is shown to commute with replacing the code, and
each pair of closures to ignore it.)  Core Lean only.
-/
set_option linter.unusedSimpArgs false
set_option linter.unusedVariables false
namespace GeomV.C20
open GeomV GeomV.C08 RNum RTrans
variable {α : Type} [RTrans α]

/-- the same reference with another datum code -/
def withCode (s : C08.SR α) (c : String) : C08.SR α := { s with datumCode := c }

@[simp] theorem withCode_datumCode (s : C08.SR α) (c : String) : (withCode s c).datumCode = c := rfl
theorem withCode_self (s : C08.SR α) : withCode s s.datumCode = s := rfl

/-! ## Merc -/
theorem initMerc_code (s : C08.SR α) (c : String) :
    initMerc (withCode s c) = (initMerc s).map (fun k => { k with sr := withCode k.sr c }) := by
  rcases Bool.eq_false_or_eq_true (isNaN s.long0) with h1 | h1 <;>
  rcases Bool.eq_false_or_eq_true (isNaN s.x0) with h2 | h2 <;>
  rcases Bool.eq_false_or_eq_true (isNaN s.y0) with h3 | h3 <;>
  simp only [initMerc, withCode, Except.map, h1, h2, h3, ↓reduceIte, Bool.false_eq_true]
theorem fwdMerc_code (k : MercC α) (c : String) : fwdMerc { k with sr := withCode k.sr c } = fwdMerc k := rfl
theorem invMerc_code (k : MercC α) (c : String) : invMerc { k with sr := withCode k.sr c } = invMerc k := rfl

/-! ## LCC -/
theorem initLcc_code (s : C08.SR α) (c : String) :
    initLcc (withCode s c) = (initLcc s).map (fun k => { k with sr := withCode k.sr c }) := by
  rcases Bool.eq_false_or_eq_true (isNaN s.lat2) with h1 | h1 <;>
  rcases Bool.eq_false_or_eq_true (isNaN s.k0) with h2 | h2 <;>
  rcases Bool.eq_false_or_eq_true (isNaN s.x0) with h3 | h3 <;>
  rcases Bool.eq_false_or_eq_true (isNaN s.y0) with h4 | h4 <;>
  simp only [initLcc, withCode, h1, h2, h3, h4, ↓reduceIte, Bool.false_eq_true] <;>
  split <;> rfl
theorem fwdLcc_code (k : LccC α) (c : String) : fwdLcc { k with sr := withCode k.sr c } = fwdLcc k := rfl
theorem invLcc_code (k : LccC α) (c : String) : invLcc { k with sr := withCode k.sr c } = invLcc k := rfl

/-! ## AEA -/
theorem initAea_code (s : C08.SR α) (c : String) :
    initAea (withCode s c) = { initAea s with sr := withCode (initAea s).sr c } := rfl
theorem fwdAea_code (k : AeaC α) (c : String) : fwdAea { k with sr := withCode k.sr c } = fwdAea k := rfl
theorem invAea_code (k : AeaC α) (c : String) : invAea { k with sr := withCode k.sr c } = invAea k := rfl

/-! ## EqdC -/
theorem initEqdc_code (s : C08.SR α) (c : String) :
    initEqdc (withCode s c) = (initEqdc s).map (fun k => { k with sr := withCode k.sr c }) := by
  rcases Bool.eq_false_or_eq_true (isNaN s.lat2) with h1 | h1 <;>
  simp only [initEqdc, withCode, h1, ↓reduceIte, Bool.false_eq_true] <;>
  split <;> rfl
theorem fwdEqdc_code (k : EqdcC α) (c : String) : fwdEqdc { k with sr := withCode k.sr c } = fwdEqdc k := rfl
theorem invEqdc_code (k : EqdcC α) (c : String) : invEqdc { k with sr := withCode k.sr c } = invEqdc k := rfl

/-! ## TMerc / UTM -/
theorem initTmerc_code (s : C08.SR α) (c : String) :
    initTmerc (withCode s c) = (initTmerc s).map (fun k => { k with sr := withCode k.sr c }) := rfl
theorem initUtm_code (s : C08.SR α) (c : String) :
    initUtm (withCode s c) = (initUtm s).map (fun k => { k with sr := withCode k.sr c }) := by
  rcases Bool.eq_false_or_eq_true (isNaN s.zone) with h1 | h1 <;>
  simp only [initUtm, withCode, h1, ↓reduceIte, Bool.false_eq_true] <;> rfl
theorem tmercPhiLoop_code (k : TmercC α) (c : String) (con : α) (n : Nat) (phi : α) :
    tmercPhiLoop { k with sr := withCode k.sr c } con n phi = tmercPhiLoop k con n phi := by
  induction n generalizing phi with
  | zero => rfl
  | succ n ih =>
    unfold tmercPhiLoop
    simp only [ih]
    rfl
theorem fwdTmerc_code (k : TmercC α) (c : String) : fwdTmerc { k with sr := withCode k.sr c } = fwdTmerc k := rfl
theorem invTmerc_code (k : TmercC α) (c : String) : invTmerc { k with sr := withCode k.sr c } = invTmerc k := by
  funext x y
  unfold invTmerc
  simp only [tmercPhiLoop_code]
  rfl

/-! ## Krovak -/
theorem initKrovak_code (s : C08.SR α) (c : String) :
    initKrovak (withCode s c) = (initKrovak s).map (fun k => { k with sr := withCode k.sr c }) := by
  rcases Bool.eq_false_or_eq_true (isNaN s.lat0) with h1 | h1 <;>
  rcases Bool.eq_false_or_eq_true (isNaN s.long0) with h2 | h2 <;>
  rcases Bool.eq_false_or_eq_true (isNaN s.k0) with h3 | h3 <;>
  simp only [initKrovak, withCode, Except.map, h1, h2, h3, ↓reduceIte, Bool.false_eq_true]
theorem krovakLatLoop_code (k : KrovakC α) (c : String) (u : α) (n : Nat) (fi1 y : α) (iter : Nat) :
    krovakLatLoop { k with sr := withCode k.sr c } u n fi1 y iter = krovakLatLoop k u n fi1 y iter := by
  induction n generalizing fi1 y iter with
  | zero => rfl
  | succ n ih =>
    unfold krovakLatLoop
    simp only [ih]
    rfl
theorem fwdKrovak_code (k : KrovakC α) (c : String) : fwdKrovak { k with sr := withCode k.sr c } = fwdKrovak k := rfl
theorem invKrovak_code (k : KrovakC α) (c : String) : invKrovak { k with sr := withCode k.sr c } = invKrovak k := by
  funext x y
  unfold invKrovak invKrovakVals
  simp only [krovakLatLoop_code]
  rfl

/-- `(*SR).Transformers` builds the same two closures whatever the datum code -/
theorem transformers_code (s : C08.SR α) (c : String) : transformers (withCode s c) = transformers s := by
  have hnm : (withCode s c).name = s.name := rfl
  unfold transformers
  rw [hnm]
  cases hn : s.name <;> simp only []
  · rw [initMerc_code]; cases initMerc s <;> simp [Except.map, bind, Except.bind, pure, Except.pure, fwdMerc_code, invMerc_code]
  · rw [initLcc_code]; cases initLcc s <;> simp [Except.map, bind, Except.bind, pure, Except.pure, fwdLcc_code, invLcc_code]
  · rw [initAea_code]; simp only [fwdAea_code, invAea_code]
  · rw [initEqdc_code]; cases initEqdc s <;> simp [Except.map, bind, Except.bind, pure, Except.pure, fwdEqdc_code, invEqdc_code]
  · rw [initTmerc_code]; cases initTmerc s <;> simp [Except.map, bind, Except.bind, pure, Except.pure, fwdTmerc_code, invTmerc_code]
  · rw [initUtm_code]; cases initUtm s <;> simp [Except.map, bind, Except.bind, pure, Except.pure, fwdTmerc_code, invTmerc_code]
  · rw [initKrovak_code]; cases initKrovak s <;> simp [Except.map, bind, Except.bind, pure, Except.pure, fwdKrovak_code, invKrovak_code]

/-- **`transform3` ignores the datum code** of both references -/
theorem transform3_code (a b : C08.SR α) (ca cb : String) :
    transform3 (withCode a ca) (withCode b cb) = transform3 a b := by
  funext x y z
  unfold transform3
  rw [transformers_code, transformers_code]
  rfl

end GeomV.C20
