import GeomV.C20.Spec2
/-!
Driver for C20.  `geomv_c20 prep` renders each generated `Crs` in both notations with the Spec's own
renderers (and attaches the definition string of a registered name from the regenerated table);
`geomv_c20 judge` compares the implementation's answers with the model (bit for bit, `DIFF`) and with
the Spec (`SPEC`).
-/
namespace GeomV.C20
open GeomV

/-! ## protocol helpers -/

def hexOf (t : Str) : String :=
  if t.isEmpty then "-" else bytesToHex (t.map fun c => c.toNat.toUInt8)

def unhex (h : String) : Option Str :=
  if h = "-" then some [] else (hexToBytes h).map fun bs => bs.map fun b => Char.ofNat b.toNat

def parseDecTok (t : String) : Option Dec :=
  let cs := t.toList
  let (neg, cs) := match cs with | '-' :: r => (true, r) | _ => (false, cs)
  let ip := cs.takeWhile Char.isDigit
  let rest := cs.dropWhile Char.isDigit
  let fp := match rest with | '.' :: r => r | _ => []
  if ip.isEmpty || !(fp.all Char.isDigit) || (rest ≠ [] && rest.head? ≠ some '.') then none else
  let m := GeomV.Dec.digitsVal (ip ++ fp)
  some ⟨if neg then -(m : Int) else m, fp.length⟩

def parseKind : String → Option Kind
  | "geog" => some .geog | "merc" => some .merc | "lcc" => some .lcc | "aea" => some .aea
  | "eqdc" => some .eqdc | "tmerc" => some .tmerc | _ => none

def parseUnit : String → Option UnitK
  | "metre" => some .metre | "foot" => some .foot | "usFootDec" => some .usFootDec | "usFoot" => some .usFoot | _ => none

/-- `custom`, `custom:<index into customDatumNames>`, `wgs84`, `nad83` -/
def parseDatumK (t : String) : Option (DatumK × Nat) :=
  match t.splitOn ":" with
  | ["custom"] => some (.custom, 0)
  | ["custom", n] => n.toNat?.map fun i => (.custom, i)
  | ["wgs84"] => some (.wgs84, 0)
  | ["nad83"] => some (.nad83, 0)
  | _ => none

def parseTw (t : String) : Option (Option (List Dec)) :=
  if t = "none" then some none else
  (t.splitOn ",").foldr (fun x acc => do let a ← acc; let d ← parseDecTok x; pure (d :: a)) (some []) |>.map some

def parseStyle (t : String) : Style :=
  let h (c : Char) := t.toList.contains c
  { esri := h 'e', auth := h 'a', spaces := h 's', axis := h 'x', k0key := h 'k', title := h 't',
    unitPos := if h 'u' then 1 else if h 'm' then 2 else 0, projLast := h 'p', geogLast := h 'g', towgsFirst := h 'w',
    authFirst := h 'f' }

/-- the 15 description tokens + style -/
def parseCrs (t : Tok) : Option (Crs × Style) :=
  match t with
  | [k, lat0, lat1, lat2, lon0, k0, fe, fn, feM, fnM, a, rf, tw, u, d, st] => do
    let (dk, dn) ← parseDatumK d
    pure ({ dname := dn, kind := ← parseKind k, lat0 := ← parseDecTok lat0, lat1 := ← parseDecTok lat1, lat2 := ← parseDecTok lat2,
            lon0 := ← parseDecTok lon0, k0 := ← parseDecTok k0, fe := ← parseDecTok fe, fn := ← parseDecTok fn,
            feM := ← parseDecTok feM, fnM := ← parseDecTok fnM, a := ← parseDecTok a, rf := ← parseDecTok rf,
            towgs := ← parseTw tw, unit := ← parseUnit u, datum := dk }, parseStyle st)
  | _ => none

def prepLine (line : String) : String :=
  match tokens line with
  | "crs" :: rest =>
    match parseCrs (rest.take 16) with
    | some (c, st) => s!"pair {" ".intercalate rest} | {hexOf (toProj4 c st)} {hexOf (toWkt c st)}"
    | none => "skip bad-crs-line"
  | ["reg", name] =>
    match registryLookup name with
    | some d => s!"reg {name} | {hexOf d.toList}"
    | none => s!"reg {name} | none"
  | "twin" :: rest =>
    -- twin definitions: the same description with one parameter SET vs LEFT OUT, in both notations
    match parseCrs (rest.take 16), (rest.getD 16 "0").toNat? with
    | some (c, st), some om =>
      if om ≥ 10 then
        -- two realisations of one datum: term (om % 10) of the shift changed by 1 (10..19) or by 0.01 (20..29)
        let c' := bumpShift c (om % 10) (om ≥ 20)
        s!"twinx {" ".intercalate rest} | {hexOf (toProj4 c st)} {hexOf (toProj4 c' st)} {hexOf (toWkt c st)} {hexOf (toWkt c' st)}"
      else
      let so := { st with leaveOut := om }
      s!"twinx {" ".intercalate rest} | {hexOf (toProj4 c st)} {hexOf (toProj4 c so)} {hexOf (toWkt c st)} {hexOf (toWkt c so)}"
    | _, _ => "skip bad-twin-line"
  | "prjcrs" :: n :: rest =>
    -- a .prj file of at least `n` bytes: the WKT of a generated description, blanks after its first comma
    match parseCrs (rest.take 16), n.toNat? with
    | some (c, st), some n =>
      let w := toWkt c st
      let pad := List.replicate (n - w.length) ' '
      let w' := match w.span (· ≠ ',') with
        | (a, ',' :: b) => a ++ ',' :: pad ++ b
        | _ => w
      s!"prj {hexOf w'}"
    | _, _ => "skip bad-prjcrs-line"
  | "prjncrs" :: name :: call :: rest =>
    -- a layer of that NAME whose .prj is the WKT of a generated description, among decoy .prj files holding another one
    match parseCrs (rest.take 16), parseCrs ((rest.drop 17).take 16) with
    | some (c, st), some (c', st') => s!"prjn {name} {call} {hexOf (toWkt c st)} {hexOf (toWkt c' st')}"
    | _, _ => "skip bad-prjncrs-line"
  | "sph" :: rest =>
    -- a SPHERE in both notations: PROJ.4 `+a=R +b=R`, WKT `SPHEROID[..,R,0]`
    match parseCrs (rest.take 16) with
    | some (c, st) =>
      let (p4, w) := sphereTexts c st
      s!"pair2 {hexOf p4} {hexOf w} {rest.getD 16 "0"} {rest.getD 17 "0"} sphere-{rest.headD "?"}-{match c.unit with | .metre => "m" | .foot => "ft" | _ => "usft"}"
    | none => "skip bad-sph-line"
  | "reghist" :: hs =>
    -- a history: parse these texts first, THEN check every registered name against its definition string
    -- and every alias against its target
    let names := registryDefs.map fun (n, d) => s!"{n} {hexOf d.toList}"
    let als := (specAliases ++ registryAliases).map fun (a, t) => s!"{a} {t}"
    s!"reghist {" ".intercalate hs} | {" ".intercalate names} | {" ".intercalate als}"
  | ["regalias", i] =>
    match specAliases[i.toNat?.getD 999]? with
    | some (a, tg) => s!"regalias {a} {tg}"
    | none => "skip no-such-alias"
  | ["lregalias", i] =>
    match specAliases[i.toNat?.getD 999]? with
    | some (a, tg) => s!"lregalias {a} {tg}"
    | none => "skip no-such-alias"
  | ["lreg", name] =>
    match registryLookup name with
    | some d => s!"lreg {name} | {hexOf d.toList}"
    | none => s!"lreg {name} | none"
  | ["histall", n] =>
    -- every datum of the (regenerated) table used by name, on ONE line: a replayable batch
    let texts := datumTable.filterMap fun (k, _) => (namedDatumTexts k false).map (·.1)
    s!"histall {n} | {" ".intercalate (texts.map hexOf)}"
  | ["hist", key, kind, n] =>
    match namedDatumTexts key (kind = "tmerc") with
    | some (p4, w) => s!"hist {key} {kind} {n} | {hexOf p4} {hexOf w}"
    | none => "skip datum-not-in-table"
  | _ => line

/-! ## dumps (same token sequence as `dump` in harness/cmd/c20/main.go) -/

def flTok (x : Float) : String :=
  if x.isNaN then "nan" else if x == 0 then "0000000000000000" else u64Hex x.toBits

def strTok (t : Str) : String := "s" ++ hexOf t
def boolTok (b : Bool) : String := if b then "1" else "0"

def dumpSR (r : SR Float) : Tok :=
  [strTok r.name, strTok r.title, strTok r.srsCode, strTok r.datumCode, flTok r.rf, flTok r.lat0, flTok r.lat1, flTok r.lat2,
   flTok r.latTS, flTok r.long0, flTok r.long1, flTok r.long2, flTok r.longC, flTok r.alpha, flTok r.x0, flTok r.y0, flTok r.k0,
   flTok r.k, flTok r.a, flTok r.a2, flTok r.b, flTok r.b2, boolTok r.ra, flTok r.zone, boolTok r.utmSouth,
   toString r.datumParams.length] ++ r.datumParams.map flTok ++
  [flTok r.toMeter, strTok r.units, flTok r.fromGreenwich, strTok r.nadGrids, strTok r.axis, boolTok r.isLocal, boolTok r.sphere,
   strTok r.ellps, strTok r.ellipseName, flTok r.es, flTok r.e, flTok r.ep2, strTok r.datumName, boolTok r.noDefs] ++
  (match r.datum with
   | none => ["n"]
   | some d => ["d", toString d.dtype, toString d.params.length] ++ d.params.map flTok ++
       [flTok d.a, flTok d.b, flTok d.es, flTok d.ep2, strTok d.nadGrids]) ++
  [boolTok r.czech]

def fieldNames : List String :=
  ["Name", "Title", "SRSCode", "DatumCode", "Rf", "Lat0", "Lat1", "Lat2", "LatTS", "Long0", "Long1", "Long2", "LongC", "Alpha",
   "X0", "Y0", "K0", "K", "A", "A2", "B", "B2", "Ra", "Zone", "UTMSouth", "len(DatumParams)"]

def fOf (t : String) : Option Float :=
  if t = "nan" then some (Float.ofBits 0x7ff8000000000001) else (parseU64 t).map Float.ofBits

def sOf (t : String) : Option Str := if t.startsWith "s" then unhex (t.drop 1).toString else none
def bOf (t : String) : Option Bool := if t = "1" then some true else if t = "0" then some false else none

/-- a tiny token reader -/
abbrev Rd := StateT Tok Option
def nxt : Rd String := do
  match (← get) with
  | [] => failure
  | x :: r => set r; pure x
def rF : Rd Float := do let t ← nxt; liftM (m := Option) (fOf t)
def rS : Rd Str := do let t ← nxt; liftM (m := Option) (sOf t)
def rB : Rd Bool := do let t ← nxt; liftM (m := Option) (bOf t)
def rN : Rd Nat := do let t ← nxt; liftM (m := Option) t.toNat?
def rFs : Nat → Rd (List Float)
  | 0 => pure []
  | n+1 => do let x ← rF; let r ← rFs n; pure (x :: r)

def readSR : Rd (SR Float) := do
  let name ← rS; let title ← rS; let srsCode ← rS; let datumCode ← rS
  let rf ← rF; let lat0 ← rF; let lat1 ← rF; let lat2 ← rF; let latTS ← rF; let long0 ← rF; let long1 ← rF; let long2 ← rF
  let longC ← rF; let alpha ← rF; let x0 ← rF; let y0 ← rF; let k0 ← rF; let k ← rF; let a ← rF; let a2 ← rF; let b ← rF; let b2 ← rF
  let ra ← rB; let zone ← rF; let utmSouth ← rB
  let n ← rN; let datumParams ← rFs n
  let toMeter ← rF; let units ← rS; let fromGreenwich ← rF; let nadGrids ← rS; let axis ← rS; let isLocal ← rB; let sphere ← rB
  let ellps ← rS; let ellipseName ← rS; let es ← rF; let e ← rF; let ep2 ← rF; let datumName ← rS; let noDefs ← rB
  let tag ← nxt
  let datum ← (if tag = "n" then pure none else do
    let dtype ← rN; let m ← rN; let params ← rFs m
    let da ← rF; let db ← rF; let des ← rF; let dep2 ← rF; let nad ← rS
    pure (some { dtype, params, a := da, b := db, es := des, ep2 := dep2, nadGrids := nad } : Option (Datum Float)))
  let czech ← rB
  pure { name, title, srsCode, datumCode, rf, lat0, lat1, lat2, latTS, long0, long1, long2, longC, alpha, x0, y0, k0, k, a, a2, b, b2,
         ra, zone, utmSouth, datumParams, toMeter, units, fromGreenwich, nadGrids, axis, isLocal, sphere, ellps, ellipseName,
         es, e, ep2, datumName, noDefs, datum, czech }

def undump (t : Tok) : Option (SR Float) :=
  match readSR.run t with
  | some (sr, []) => some sr
  | _ => none

/-- an implementation result `ok <dump> ;` / `err ;` / `panic ;` at the head of `t`; returns the
result tokens and the rest -/
def takeRes (t : Tok) : Tok × Tok :=
  let r := t.takeWhile (· ≠ ";")
  (r, t.drop (r.length + 1))

/-- the model's result in the implementation's notation -/
def modelRes (r : Except Err (SR Float)) : Option Tok :=
  match r with
  | .ok sr => some ("ok" :: dumpSR sr)
  | .error (.error _) => some ["err"]
  | .error (.panic _) => some ["panic"]
  | .error (.unsupported _) => none

def firstDiff (a b : Tok) : String :=
  let rec go (i : Nat) : Tok → Tok → String
    | x :: r, y :: q => if x = y then go (i + 1) r q else s!"token#{i}({fieldNames.getD (i - 1) "…"}):model={x},impl={y}"
    | [], [] => "same"
    | _, _ => s!"length-differs-at-token#{i}"
  go 0 a b

/-- `DIFF` text if the implementation's result differs from the model's; `none` when equal or skipped -/
def cmpModel (what : String) (m : Except Err (SR Float)) (impl : Tok) : Option String :=
  match modelRes m with
  | none => none
  | some mt => if mt = impl then none else some s!"{what}:{firstDiff mt impl}"

/-! ## gonum `scalar.EqualWithinULP(a, b, 3)` -/

def closeUlpF (ulp : Nat) (a b : Float) : Bool :=
  if a == b then true
  else if a.isNaN || b.isNaN then false
  else
    let ba := a.abs.toBits.toNat
    let bb := b.abs.toBits.toNat
    if (a.toBits.toNat ≥ 2 ^ 63) != (b.toBits.toNat ≥ 2 ^ 63) then ba + bb ≤ ulp
    else (if ba ≥ bb then ba - bb else bb - ba) ≤ ulp

def closeF (a b : Float) : Bool := closeUlpF 3 a b

def eqTok : Option Bool → String
  | some true => "t" | some false => "f" | none => "panic"

def modelEq (a b : Except Err (SR Float)) : Option String :=
  match a, b with
  | .ok x, .ok y => some (eqTok (equalSR closeF x y))
  | .error (.unsupported _), _ | _, .error (.unsupported _) => none
  | _, _ => some "na"

/-! ## numeric comparisons for the Spec -/

def xrToFloat : XR → Float
  | none => Float.ofBits 0x7ff8000000000001
  | some q => ratToFloat q

/-- `x` is the double nearest to the exact value up to a few units of rounding -/
def near (tolRel tolAbs : Float) (x : Float) (e : XR) : Bool :=
  match e with
  | none => x.isNaN
  | some _ =>
    let v := xrToFloat e
    !x.isNaN && (x - v).abs ≤ tolRel * v.abs + tolAbs

def viewNear (skipDatum : Bool) (v : View Float) (e : View XR) : Option String :=
  let chk (nm : String) (ok : Bool) (acc : Option String) : Option String := if ok then acc else some nm
  let r : Option String := none
  let r := chk "datum-ellipsoid" (near 1e-13 0 v.datumA e.datumA && near 1e-13 0 v.datumB e.datumB && near 1e-11 1e-20 v.datumEs e.datumEs && near 1e-11 1e-20 v.datumEp2 e.datumEp2) r
  let r := chk "datum-params" (skipDatum || v.datumParams.length = e.datumParams.length &&
            (v.datumParams.zip e.datumParams).all fun (x, y) => near 1e-13 1e-25 x y) r
  let r := chk "datum-type" (skipDatum || v.datumType = e.datumType) r
  let r := chk "FromGreenwich" (near 0 0 v.fromGreenwich e.fromGreenwich) r
  let r := chk "Axis" (v.axis = e.axis) r
  let r := chk "ToMeter" (near 1e-15 0 v.toMeter e.toMeter) r
  let r := chk "sphere" (v.sphere = e.sphere) r
  let r := chk "Ep2" (near 1e-11 1e-20 v.ep2 e.ep2) r
  let r := chk "Es" (near 1e-11 1e-20 v.es e.es) r
  let r := chk "Rf" (near 1e-15 0 v.rf e.rf) r
  let r := chk "B" (near 1e-15 0 v.b e.b) r
  let r := chk "A" (near 1e-15 0 v.a e.a) r
  let r := chk "Y0-in-metres" (near 1e-15 1e-9 v.y0 e.y0) r
  let r := chk "X0-in-metres" (near 1e-15 1e-9 v.x0 e.x0) r
  let r := chk "K0" (near 1e-15 0 v.k0 e.k0) r
  let r := chk "Long0" (near 1e-15 1e-18 v.long0 e.long0) r
  let r := chk "LatTS" (near 0 0 v.latTS e.latTS) r
  let r := chk "Lat2" (near 1e-15 1e-18 v.lat2 e.lat2) r
  let r := chk "Lat1" (near 1e-15 1e-18 v.lat1 e.lat1) r
  let r := chk "Lat0" (near 1e-15 1e-18 v.lat0 e.lat0) r
  let r := chk "projection" (v.proj = e.proj) r
  r

def fmax (a b : Float) : Float := if a < b then b else a

/-- the two references' results on the position grid agree to a micrometre.  `scale` = metres per
unit of the projected coordinates; geographic output is in degrees (1 degree ≤ 111 320 m). -/
def gridAgree (geo : Bool) (scale : Float) : Nat → Tok → Option String
  | 0, _ => none
  | n+1, lon :: lat :: xp :: yp :: sp :: xw :: yw :: sw :: lp :: bp :: sip :: lw :: bw :: siw :: rest =>
    match fOf xp, fOf yp, fOf xw, fOf yw, fOf lp, fOf bp, fOf lw, fOf bw with
    | some xp, some yp, some xw, some yw, some lp, some bp, some lw, some bw =>
      let fs := if geo then 111320.0 else scale
      let nrm (x : String) := if x = "nil" then "ok" else x     -- the nil transformer is the identity
      let sp := nrm sp
      let sw := nrm sw
      let sip := nrm sip
      let siw := nrm siw
      if sp ≠ sw then some s!"forward-status-differs:{sp}/{sw}@{lon},{lat}"
      else if sp = "panic" then some "transform-panicked"
      else if sp = "ok" && (xp.isNaN || yp.isNaN || xw.isNaN || yw.isNaN) then some s!"forward-NaN-without-error@{lon},{lat}"
      else if sp = "ok" && !((xp - xw).abs * fs ≤ micrometre && (yp - yw).abs * fs ≤ micrometre) then
        some s!"forward-differs-by-{fmax ((xp - xw).abs * fs) ((yp - yw).abs * fs)}m@{lon},{lat}"
      else if sip ≠ siw then some s!"inverse-status-differs:{sip}/{siw}"
      else if sip = "ok" && (lp.isNaN || bp.isNaN || lw.isNaN || bw.isNaN) then some "inverse-NaN-without-error"
      else if sip = "ok" && !((lp - lw).abs * 111320.0 ≤ micrometre && (bp - bw).abs * 111320.0 ≤ micrometre) then
        some s!"inverse-differs-by-{fmax ((lp - lw).abs * 111320.0) ((bp - bw).abs * 111320.0)}m"
      else gridAgree geo scale n rest
    | _, _, _, _, _, _, _, _ => some "bad-grid-tokens"
  | _, _ => some "short-grid"

def unitTag : UnitK → String
  | .metre => "m" | .foot => "ft" | .usFootDec => "usftdec" | .usFoot => "usft"
def kindTag : Kind → String
  | .geog => "geog" | .merc => "merc" | .lcc => "lcc" | .aea => "aea" | .eqdc => "eqdc" | .tmerc => "tmerc"

/-- no stated non-zero tie to WGS84 (known finding `noshift`) -/
def noShift (c : Crs) : Bool :=
  c.datum = .custom && (match c.towgs with
    | none => true
    | some ds => (ds.take 3).all (fun d => d.mant = 0) && (ds.drop 3).all (fun d => d.mant = 0))

/-- the ellipsoid of `c` passes `compare_datums`' test against WGS84's (same `a`, `es` within 5e-11) without being
WGS84's (known finding `wgs84name`) -/
def nearWgs84Ellipsoid (c : Crs) : Bool :=
  let es (a rf : Rat) : Rat := let b := (1 - 1 / rf) * a; (a * a - b * b) / (a * a)
  let d := es c.a.toRat c.rf.toRat - es 6378137 (298257223563 / 1000000000)
  c.a.toRat = 6378137 && c.rf.toRat ≠ 298257223563 / 1000000000 && decide (d ≤ 5 / 100000000000) && decide (-d ≤ 5 / 100000000000)

def judgePair (lhs rhs : Tok) : String :=
  let desc := lhs.takeWhile (· ≠ "|")
  match parseCrs (desc.take 16) with
  | none => "BAD crs"
  | some (c, st) =>
    let cls := s!"pair-{kindTag c.kind}-{unitTag c.unit}" ++ (if noShift c then "-noshift" else "") ++ (if st.esri then "-esri" else "")
      ++ (if st.unitPos ≠ 0 || st.projLast || st.geogLast then "-reordered" else "") ++ (if c.dname ≠ 0 then "-nearname" else "")
      ++ (if c.datum = .wgs84 && nearWgs84Ellipsoid c then "-wgs84name-nearWGS84ellipsoid" else "")
    let p4 := toProj4 c st
    let w := toWkt c st
    match rhs with
    | "P" :: r1 =>
      let (rp, r2) := takeRes r1
      match r2 with
      | "W" :: r3 =>
        let (rw, r4) := takeRes r3
        match r4 with
        | "EQ" :: epp :: eww :: epw :: ewp :: "NIL" :: npp :: nww :: npw :: "GRID" :: n :: g =>
          -- Spec on the implementation's answers
          let spec : Option String :=
            match rp, rw with
            | "ok" :: dp, "ok" :: dw =>
              match undump dp, undump dw with
              | some sp, some sw =>
                match view sp, view sw with
                | some vp, some vw =>
                  let e := expected c
                  match viewNear (noShift c) vp e, viewNear (noShift c) vw e with
                  | some f, _ => some s!"PROJ.4-parse-misreads-{f}"
                  | _, some f => some s!"WKT-parse-misreads-{f}"
                  | none, none =>
                    if epp ≠ "t" then some s!"PROJ.4-text-parsed-twice-not-Equal({epp})"
                    else if eww ≠ "t" then some s!"WKT-text-parsed-twice-not-Equal({eww})"
                    else if npp ≠ "t" || nww ≠ "t" then some s!"NewTransform-not-nil-for-Equal-references({npp},{nww})"
                    else if epw ≠ ewp then some s!"Equal-not-symmetric({epw},{ewp})"
                    else if npw ≠ epw then some s!"NewTransform-nil({npw})-but-Equal({epw})"
                    else match gridAgree (c.kind = .geog) (xrToFloat (some c.unit.toMeter)) (n.toNat?.getD 0) g with
                      | some f => some f
                      | none =>
                        -- second grid: to and from a reference with a 7-parameter datum (for a datum given by the name
                        -- WGS84 the WKT side takes the two-hop route there, `C20_transform_route_wgs84`)
                        match g.drop (14 * n.toNat?.getD 0) with
                        | "GRID" :: n2 :: g2 =>
                          (gridAgree (c.kind = .geog) (xrToFloat (some c.unit.toMeter)) (n2.toNat?.getD 0) g2).map fun f => "via-7-parameter-datum:" ++ f
                        | _ => some "second-grid-missing"
                | _, _ => some "nil-datum-after-Parse"
              | _, _ => some "unreadable-dump"
            | _, _ => some s!"definition-rejected(PROJ.4:{rp.headD "?"},WKT:{rw.headD "?"})"
          match spec with
          | some f => s!"SPEC {cls} {f}"
          | none =>
            -- correspondence with the model
            let mp : Except Err (SR Float) := parse p4
            let mw : Except Err (SR Float) := parse w
            match cmpModel "proj4" mp rp, cmpModel "wkt" mw rw with
            | some d, _ => s!"DIFF {cls} {d}"
            | _, some d => s!"DIFF {cls} {d}"
            | none, none =>
              if modelEq mp mw != some epw then s!"DIFF {cls} Equal(P,W):model={modelEq mp mw},impl={epw}"
              -- the exact-arithmetic instance of the model (what the theorems talk about) on the same case
              else if !numeralsRead c then s!"DIFF {cls} numeral-contract-fails(hypothesis-of-C20_parse_agree)"
              else if wellFormed c && !agree c st then s!"DIFF {cls} exact-model-parses-do-not-equal-expected"
              else s!"OK {cls}"
        | _ => s!"DIFF {cls} malformed-impl-line"
      | _ => s!"DIFF {cls} malformed-impl-line"
    | _ => s!"DIFF {cls} impl-{" ".intercalate (rhs.take 3)}"

/-- one twin comparison `A <st> B <st> EQ ab ba NIL ab ba GRID n …` for the definitions `da`, `db`; returns the
verdict text without the class (`none` = fine) and the rest of the tokens -/
def judgeTwin (da db : Str) (r : Tok) (mustDiffer : Bool := false) : Option (String × String) × Tok :=
  match r with
  | "A" :: sa :: "B" :: sb :: "EQ" :: eab :: eba :: "NIL" :: nab :: nba :: "GRID" :: gn :: g =>
    let n := gn.toNat?.getD 0
    let rest := g.drop (14 * n)
    let v : Option (String × String) :=
      if sa ≠ "ok" || sb ≠ "ok" then
        (if sa = "panic" || sb = "panic" then some ("SPEC", "parse-panicked") else none)   -- an unparsable twin says nothing
      else if eab = "panic" || eba = "panic" || nab = "panic" || nba = "panic" then some ("SPEC", "Equal-or-NewTransform-panicked")
      else if eab ≠ eba then some ("SPEC", s!"Equal-not-symmetric({eab},{eba})")
      else if nab ≠ eab || nba ≠ eba then some ("SPEC", s!"NewTransform-nil({nab},{nba})-but-Equal({eab},{eba})")
      else if mustDiffer && eab = "t" then
        -- the two descriptions differ in a term of the datum shift by 0.01 or more: they are not "equal within 3 ULP"
        some ("SPEC", "Equal-and-nil-transformer-between-references-whose-datum-shifts-differ")
      else if eab = "t" then
        -- Equal references get the identity transformer: they must then BE the same projection
        (match gridAgree true 1.0 n g with
         | some f => some ("SPEC", s!"Equal-and-nil-transformer-between-different-references:{f}")
         | none => none)
      else none
    let v := match v with
      | some x => some x
      | none =>
        let ma : Except Err (SR Float) := parse da
        let mb : Except Err (SR Float) := parse db
        match modelEq ma mb with
        | none => none
        | some m => if sa = "ok" && sb = "ok" && m ≠ eab then some ("DIFF", s!"Equal:model={m},impl={eab}") else none
    (v, rest)
  | _ => (some ("DIFF", "malformed-impl-line"), [])

partial def judgeLine (line : String) : String :=
  let (lhs, rhs) := splitArrow (tokens line)
  match lhs with
  | "lreg" :: rest | "lregalias" :: rest =>
    -- the registry checks repeated after the whole run: a failure here depends on EARLIER lines, so it
    -- is reported as a broken correspondence (DIFF), not as a failing input
    let kind := if lhs.head? = some "lreg" then "reg" else "regalias"
    let v := judgeLine (" ".intercalate (kind :: rest) ++ " => " ++ " ".intercalate rhs)
    if v.startsWith "SPEC " then "DIFF late-" ++ (v.drop 5).toString else v
  | "pair" :: rest => judgePair rest rhs
  | "twinx" :: rest =>
    let desc := rest.takeWhile (· ≠ "|")
    let hs := rest.drop (desc.length + 1)
    let om := (desc.getD 16 "0").toNat?.getD 0
    let shift := om ≥ 10     -- the twin differs in one term of the datum shift (not in a parameter left out)
    let cls := if shift then s!"twin-{desc.headD "?"}-shift{om}" else s!"twin-{desc.headD "?"}-omit{desc.getD 16 "?"}"
    match hs.map unhex, rhs with
    | [some p, some po, some w, some wo], "P4" :: r1 =>
      let (v1, r2) := judgeTwin p po r1 shift
      match v1 with
      | some (k, m) => s!"{k} {cls} PROJ.4:{m}"
      | none =>
        let (v2, _) := judgeTwin w wo (r2.drop 1) shift
        match v2 with
        | some (k, m) => s!"{k} {cls} WKT:{m}"
        | none => s!"OK {cls}"
    | _, _ => "BAD twinx"
  | ["twin2", ha, hb, _, _] =>
    match unhex ha, unhex hb with
    | some a, some b =>
      match (judgeTwin a b rhs).1 with
      | some (k, m) => s!"{k} twin2 {m}"
      | none => "OK twin2"
    | _, _ => "BAD twin2"
  | "pair2" :: ha :: hb :: _ :: _ :: tag =>
    let cls := match tag with | [t] => s!"pair2-{t}" | _ => "pair2"
    match rhs with
    | "P" :: sa :: "W" :: sb :: "GRID" :: n :: g =>
      if sa ≠ "ok" || sb ≠ "ok" then s!"SPEC {cls} definition-rejected({sa},{sb})"
      else
      -- hand-written pairs: strictest scale (1 unit = 111 km); generated pairs say their kind and linear unit
      let tg := tag.headD ""
      let geo := tag.isEmpty || (tg.splitOn "-geog").length > 1
      let scale : Float := if tg.endsWith "-usft" then 0.3048006096012192 else if tg.endsWith "-ft" then 0.3048 else 1.0
      match gridAgree geo scale (n.toNat?.getD 0) g with
        | some f => s!"SPEC {cls} {f}"
        | none =>
          if tag.isEmpty then s!"OK {cls}" else
          -- generated spellings: the model must also read both (Equal decision of the model is not compared here)
          match unhex ha, unhex hb with
          | some a, some b =>
            let ma : Except Err (SR Float) := parse a
            let mb : Except Err (SR Float) := parse b
            (match ma, mb with
             | .ok _, .ok _ => s!"OK {cls}"
             | _, _ => s!"DIFF {cls} model-rejects-a-definition-the-implementation-reads")
          | _, _ => "BAD pair2"
    | _ => s!"DIFF {cls} malformed-impl-line"
  | ["raw", h] =>
    match unhex h with
    | none => "BAD hex"
    | some d =>
      let m : Except Err (SR Float) := parse d
      let (r, _) := takeRes rhs
      let cls := "raw-" ++ (if testWKT d then "wkt-" else "proj4-") ++ r.headD "?"
      match modelRes m with
      | none => "OK raw-skipped"
      | some _ => match cmpModel "parse" m r with
        | some df => s!"DIFF {cls} {df}"
        | none => s!"OK {cls}"
  | ["eq", ha, hb] =>
    match unhex ha, unhex hb, rhs with
    | some a, some b, "A" :: r1 =>
      let (ra, r2) := takeRes r1
      let (rb, r3) := takeRes (r2.drop 1)
      match r3 with
      | ["EQ", eab, eba, eaa, "NIL", nab, nba] =>
        let ma : Except Err (SR Float) := parse a
        let mb : Except Err (SR Float) := parse b
        if (modelRes ma).isNone || (modelRes mb).isNone then "OK eq-skipped"
        else if eab = "na" then (match cmpModel "A" ma ra, cmpModel "B" mb rb with
          | some d, _ | _, some d => s!"DIFF eq-unparsed {d}"
          | _, _ => "OK eq-unparsed")
        else if eab = "panic" || eba = "panic" || nab = "panic" then s!"SPEC eq Equal-or-NewTransform-panicked({eab},{eba},{nab})"
        else if eab ≠ eba then s!"SPEC eq Equal-not-symmetric({eab},{eba})"
        else if eaa ≠ "t" then "SPEC eq same-text-parsed-twice-not-Equal"
        else if nab ≠ eab || nba ≠ eba then s!"SPEC eq NewTransform-nil({nab},{nba})-but-Equal({eab},{eba})"
        else match cmpModel "A" ma ra, cmpModel "B" mb rb with
          | some d, _ | _, some d => s!"DIFF eq {d}"
          | _, _ => if modelEq ma mb = some eab then s!"OK eq-{eab}" else s!"DIFF eq Equal:model={modelEq ma mb},impl={eab}"
      | _ => "DIFF eq malformed-impl-line"
    | _, _, _ => "BAD eq"
  | ["reg", name, "|", hd] =>
    match rhs with
    | "N" :: r1 =>
      let (rn, r2) := takeRes r1
      let (rd, r3) := takeRes (r2.drop 1)
      let (rn2, r4) := takeRes (r3.drop 1)
      let known := hd ≠ "none"
      if !known then
        (if rn = ["err"] then "OK reg-unknown" else "SPEC reg-unknown unregistered-name-accepted")
      else match r4 with
        | "EQ" :: end_ :: edn :: "NIL" :: nnd :: "USE" :: _ :: _ :: _ :: _ :: _ :: _ :: "GRID" :: gn :: g =>
          if rn.head? ≠ some "ok" then "SPEC reg registered-name-rejected"
          else if rn ≠ rd then s!"SPEC reg name-and-definition-differ:{firstDiff rd rn}"
          else if end_ ≠ "t" || edn ≠ "t" then s!"SPEC reg name-not-Equal-to-definition({end_},{edn})"
          else if nnd ≠ "t" then s!"SPEC reg NewTransform(name,definition)-not-nil({nnd})"
          else if rn2 ≠ rn then s!"SPEC reg shared-definition-changed-by-use:{firstDiff rn rn2}"
          else if let some f := gridAgree true 1.0 (gn.toNat?.getD 0) g then s!"SPEC reg name-vs-definition:{f}"
          else
            let m : Except Err (SR Float) := parse name.toList
            match cmpModel "registry" m rn with
            | some d => s!"DIFF reg {d}"
            | none => "OK reg"
        | _ => "DIFF reg malformed-impl-line"
    | _ => "DIFF reg malformed-impl-line"
  | "reghist" :: _ =>
    -- blocks `R <name> <st> <st> EQ a b NIL n GRID 9 …`
    let rec go (fuel : Nat) (t : Tok) : Option String :=
      match fuel, t with
      | 0, _ => none
      | _, [] => none
      | fuel+1, "R" :: nm :: sa :: sb :: "EQ" :: e1 :: e2 :: "NIL" :: n1 :: "GRID" :: gn :: g =>
        let n := gn.toNat?.getD 0
        if sa ≠ "ok" || sb ≠ "ok" then some s!"{nm}:rejected-after-history({sa},{sb})"
        else if e1 ≠ "t" || e2 ≠ "t" then some s!"{nm}:not-Equal-after-history({e1},{e2})"
        else if n1 ≠ "t" then some s!"{nm}:NewTransform-not-nil-after-history({n1})"
        else match gridAgree true 1.0 n g with
          | some f => some s!"{nm}:{f}"
          | none => go fuel (g.drop (14 * n))
      | _, _ => some "malformed-impl-line"
    match go 64 rhs with
    | some f => s!"SPEC reghist registry-changed-by-an-earlier-Parse:{f}"
    | none => "OK reghist"
  | ["regalias", a, tg] =>
    -- Spec: an alias denotes the same reference as its target (Equal both ways, nil transformer, same
    -- positions off the equator, same fields)
    match rhs with
    | "A" :: r1 =>
      let (ra, r2) := takeRes r1
      let (rt, r3) := takeRes (r2.drop 1)
      match r3 with
      | "EQ" :: eat :: eta :: "NIL" :: nat_ :: nta :: "GRID" :: gn :: g =>
        if ra.head? ≠ some "ok" || rt.head? ≠ some "ok" then s!"SPEC regalias registered-name-rejected({a}:{ra.headD "?"},{tg}:{rt.headD "?"})"
        else if let some f := gridAgree true 1.0 (gn.toNat?.getD 0) g then s!"SPEC regalias {a}-vs-{tg}:{f}"
        else if eat ≠ "t" || eta ≠ "t" then s!"SPEC regalias {a}-not-Equal-to-{tg}({eat},{eta})"
        else if nat_ ≠ "t" || nta ≠ "t" then s!"SPEC regalias NewTransform({a},{tg})-not-nil({nat_},{nta})"
        else if ra ≠ rt then s!"SPEC regalias {a}-and-{tg}-differ:{firstDiff rt ra}"
        else
          let m : Except Err (SR Float) := parse a.toList
          match cmpModel "alias" m ra with
          | some d => s!"DIFF regalias {d}"
          | none => "OK regalias"
      | _ => "DIFF regalias malformed-impl-line"
    | _ => "DIFF regalias malformed-impl-line"
  | ["hist", key, kind, _, "|", hp, _] =>
    -- history: the named-datum text parsed several times in one process; the FIRST reference is used
    -- and re-inspected after the later parses; the WKT spells out the same shift
    match unhex hp, rhs with
    | some p4, "H" :: r1 =>
      let cls := s!"hist-{kind}-{key}"
      let (d1, r2) := takeRes r1
      let (dl, r3) := takeRes (r2.drop 1)
      let (dn, r4) := takeRes (r3.drop 1)
      let (dw, r5) := takeRes (r4.drop 1)
      match r5 with
      | "PREV" :: prev :: "GRID" :: gn :: g =>
        let n := gn.toNat?.getD 0
        let g2 := (g.drop (14 * n)).drop 2
        if d1.head? ≠ some "ok" || dw.head? ≠ some "ok" then s!"SPEC {cls} definition-rejected({d1.headD "?"},{dw.headD "?"})"
        else if dl ≠ d1 then s!"SPEC {cls} sr-changed-by-later-parse:{firstDiff d1 dl}"
        else if dn ≠ d1 then s!"SPEC {cls} same-text-parsed-again-differs:{firstDiff d1 dn}"
        else if prev ≠ "0" then s!"DIFF {cls} {prev}-references-of-earlier-lines-changed(cross-line;see-histall)"
        else if let some f := gridAgree (kind ≠ "tmerc") 1.0 n g then s!"SPEC {cls} first-parsed-vs-spelled-out-WKT:{f}"
        else if let some f := gridAgree (kind ≠ "tmerc") 1.0 n g2 then s!"SPEC {cls} last-parsed-vs-spelled-out-WKT:{f}"
        else
          let m : Except Err (SR Float) := parse p4
          match cmpModel "named" m d1 with
          | some d => s!"DIFF {cls} {d}"
          | none => s!"OK {cls}"
      | _ => s!"DIFF {cls} malformed-impl-line"
    | _, _ => "BAD hist"
  | "histall" :: _ =>
    match rhs with
    | ["CHANGED", k, "OF", n, "FIRST", i] =>
      if k = "0" then "OK histall" else s!"SPEC histall {k}-of-{n}-references-changed-by-later-parses(first:#{i})"
    | _ => "DIFF histall malformed-impl-line"
  | ["prj", h] =>
    match unhex h, rhs with
    | some d, "S" :: r1 =>
      let (rs, r2) := takeRes r1
      let (rp, _) := takeRes (r2.drop 1)
      if rs ≠ rp then s!"SPEC prj Decoder.SR-differs-from-Parse-of-the-bytes:{firstDiff rp rs}"
      else
        let m : Except Err (SR Float) := parse d
        match cmpModel "prj" m rs with
        | some df => s!"DIFF prj {df}"
        | none => s!"OK prj-{rs.headD "?"}"
    | _, _ => "BAD prj"
  | ["prjn", hn, call, h, _] =>
    -- the reference of a layer is what ITS OWN .prj says, whatever the layer is called and whatever lies next to it
    let cls := s!"prjn-{call}-{match unhex hn with | some n => (if n.contains '/' then "dir-" else "") ++ s!"{(n.filter (· == '.')).length}dots" | none => "?"}"
    -- "!" = the layer has no .prj of its own (`decoderSR none`: the read fails)
    match (if h = "!" then some [] else unhex h), rhs with
    | some d, "S" :: r1 =>
      let (rs, r2) := takeRes r1
      let (rp, _) := takeRes (r2.drop 1)
      if h = "!" && rs.head? ≠ some "err" then s!"SPEC {cls}-missing Decoder.SR-of-a-layer-without-.prj-does-not-fail:{rs.headD "?"}"
      else if rs ≠ rp then s!"SPEC {cls} Decoder.SR-of-a-named-layer-differs-from-Parse-of-its-own-.prj:{firstDiff rp rs}"
      else
        let m : Except Err (SR Float) := decoderSR (if h = "!" then none else some d)
        match cmpModel "prjn" m rs with
        | some df => s!"DIFF {cls} {df}"
        | none => s!"OK {cls}-{rs.headD "?"}"
    | _, _ => "BAD prjn"
  | "skip" :: _ => "OK skipped"
  | _ => "BAD line"

end GeomV.C20

open GeomV GeomV.C20 in
def main (args : List String) : IO Unit := do
  let out ← IO.getStdout
  match args with
  | ["prep"] => forEachLine fun l => out.putStrLn (prepLine l)
  | ["judge"] => forEachLine fun l => out.putStrLn (judgeLine l)
  | _ => IO.eprintln "usage: geomv_c20 prep|judge"
