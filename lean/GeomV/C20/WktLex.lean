import GeomV.C20.StrLemmas
/-!
# The WKT bracket matcher reads back what `renderArgs` writes

For every tree over the renderers' alphabet (names of capitals/digits/`_`; quoted, bare and numeric
tokens without brackets and commas; every bracket section begins with a simple token) the text-level
parser on the rendering equals the token-level parser on the tree:
`parseWKTSectionG strOps fuel path (lead ++ renderArgs sep args) = parseWKTSectionG (treeOps sep) fuel path args`.
Independent of `Crs`.
-/
set_option linter.unusedSimpArgs false
set_option linter.unusedVariables false
namespace GeomV.C20

/-! ## the alphabet -/

def txtOK (t : Str) : Bool := t.all (fun c => c != '[' && c != ']' && c != ',')

def nameCh (c : Char) : Bool := ('A' ≤ c && c ≤ 'Z') || ('0' ≤ c && c ≤ '9') || c = '_'
def nameOK (n : Str) : Bool := !n.isEmpty && n.all nameCh

def firstSimple : List WArg → Bool
  | x :: _ => x.isSimple
  | [] => false

mutual
def WArg.clean : WArg → Bool
  | .q t => txtOK t.toList
  | .bare t => txtOK t.toList
  | .num d => txtOK (renderDec d)
  | .sub n as => nameOK n.toList && firstSimple as && WArg.cleanL as
def WArg.cleanL : List WArg → Bool
  | [] => true
  | x :: r => WArg.clean x && WArg.cleanL r
end

/-- separators: a comma, optionally followed by a blank -/
def sepOf (sp : Bool) : Str := if sp then [',', ' '] else [',']
def spOf (sp : Bool) : Str := if sp then [' '] else []
theorem sepOf_eq (sp : Bool) : sepOf sp = ',' :: spOf sp := by cases sp <;> rfl

def noBr (t : Str) : Prop := ∀ c ∈ t, c ≠ '[' ∧ c ≠ ']'

theorem noBr_of_txtOK (t : Str) (h : txtOK t = true) : noBr t := by
  intro c hc
  unfold txtOK at h
  rw [List.all_eq_true] at h
  have := h c hc
  simp only [Bool.and_eq_true, bne_iff_ne, ne_eq] at this
  exact ⟨this.1.1, this.1.2⟩

theorem noComma_of_txtOK (t : Str) (h : txtOK t = true) : ',' ∉ t := by
  intro hc
  unfold txtOK at h
  rw [List.all_eq_true] at h
  have := h _ hc
  simp at this

theorem nameCh_props (c : Char) (h : nameCh c = true) : c ≠ '[' ∧ c ≠ ']' ∧ c ≠ ',' ∧ c ≠ ' ' ∧ isSpace c = false := by
  refine ⟨?_, ?_, ?_, ?_, ?_⟩
  · intro e; subst e; revert h; decide
  · intro e; subst e; revert h; decide
  · intro e; subst e; revert h; decide
  · intro e; subst e; revert h; decide
  · unfold isSpace
    simp only [Bool.or_eq_false_iff, decide_eq_false_iff_not]
    refine ⟨⟨⟨⟨⟨?_, ?_⟩, ?_⟩, ?_⟩, ?_⟩, ?_⟩ <;> (intro e; subst e; revert h; decide)

theorem noBr_sep (sp : Bool) : noBr (sepOf sp) := by
  cases sp <;> (intro c hc; simp [sepOf] at hc; rcases hc with rfl | rfl <;> decide) <;> skip
  all_goals (intro c hc; simp [sepOf] at hc; subst hc; decide)

/-! ## scanning text without brackets -/

theorem scan_noBr (k : Int) : ∀ (T seen rest : Str) (cur : Option Str) (acc : List (Str × Str)), noBr T →
    scanSections k seen (T ++ rest) cur acc = scanSections k (T.reverse ++ seen) rest (cur.map (T.reverse ++ ·)) acc
  | [], seen, rest, cur, acc, _ => by cases cur <;> simp
  | c :: T, seen, rest, cur, acc, h => by
    have hc := h c (by simp)
    have hT : noBr T := fun x hx => h x (by simp [hx])
    have ih := scan_noBr k T (c :: seen) rest (cur.map (c :: ·)) acc hT
    simp only [List.cons_append, scanSections, hc.1, hc.2, if_false]
    rw [ih]
    cases cur <;> simp

/-! ## simple tokens -/

theorem simple_text (sep : Str) : ∀ a : WArg, a.isSimple = true → a.clean = true →
    noBr (renderArg sep a) ∧ ',' ∉ renderArg sep a
  | .q t, _, h => by
    simp only [WArg.clean] at h
    have h1 := noBr_of_txtOK _ h
    have h2 := noComma_of_txtOK _ h
    refine ⟨?_, ?_⟩
    · intro c hc
      have hc' : c = '"' ∨ c ∈ t.toList := by
        have : c = '"' ∨ c ∈ t.toList ∨ c = '"' := by simpa [renderArg] using hc
        rcases this with h | h | h
        · exact Or.inl h
        · exact Or.inr h
        · exact Or.inl h
      rcases hc' with hc | hc
      · rw [hc]; decide
      · exact h1 c hc
    · intro hc
      simp only [renderArg, List.mem_cons, List.mem_append, List.mem_singleton, List.not_mem_nil, or_false] at hc
      rcases hc with (hc | hc) | hc
      · exact absurd hc (by decide)
      · exact h2 hc
      · exact absurd hc (by decide)
  | .bare t, _, h => by
    simp only [WArg.clean] at h
    exact ⟨by simpa [renderArg] using noBr_of_txtOK _ h, by simpa [renderArg] using noComma_of_txtOK _ h⟩
  | .num d, _, h => by
    simp only [WArg.clean] at h
    exact ⟨by simpa [renderArg] using noBr_of_txtOK _ h, by simpa [renderArg] using noComma_of_txtOK _ h⟩
  | .sub _ _, hs, _ => by simp [WArg.isSimple] at hs

theorem name_noBr (n : String) (h : nameOK n.toList = true) : noBr n.toList := by
  unfold nameOK at h
  simp only [Bool.and_eq_true, List.all_eq_true] at h
  intro c hc
  exact ⟨(nameCh_props c (h.2 c hc)).1, (nameCh_props c (h.2 c hc)).2.1⟩

/-! ## scanning a rendered tree inside an open section (nest ≥ 1) -/

mutual
theorem scan_arg (sep : Str) (hsep : noBr sep) : ∀ (a : WArg), a.clean = true → ∀ (k : Int), 1 ≤ k →
    ∀ (seen rest cu : Str) (acc : List (Str × Str)),
    scanSections k seen (renderArg sep a ++ rest) (some cu) acc =
      scanSections k ((renderArg sep a).reverse ++ seen) rest (some ((renderArg sep a).reverse ++ cu)) acc
  | .q t, h, k, hk, seen, rest, cu, acc => by
    have := scan_noBr k (renderArg sep (.q t)) seen rest (some cu) acc (simple_text sep _ rfl h).1
    simpa using this
  | .bare t, h, k, hk, seen, rest, cu, acc => by
    have := scan_noBr k (renderArg sep (.bare t)) seen rest (some cu) acc (simple_text sep _ rfl h).1
    simpa using this
  | .num d, h, k, hk, seen, rest, cu, acc => by
    have := scan_noBr k (renderArg sep (.num d)) seen rest (some cu) acc (simple_text sep _ rfl h).1
    simpa using this
  | .sub n as, h, k, hk, seen, rest, cu, acc => by
    simp only [WArg.clean, Bool.and_eq_true] at h
    obtain ⟨⟨hn, _⟩, hcl⟩ := h
    have h1 := scan_noBr k n.toList seen ('[' :: (renderArgs sep as ++ ']' :: rest)) (some cu) acc (name_noBr n hn)
    have hk0 : k ≠ 0 := by omega
    have hk1 : k + 1 - 1 ≠ 0 := by omega
    have h3 := scan_args sep hsep as hcl (k + 1) (by omega) ('[' :: (n.toList.reverse ++ seen)) (']' :: rest)
      ('[' :: (n.toList.reverse ++ cu)) acc
    simp only [renderArg, List.append_assoc, List.cons_append, List.singleton_append, List.nil_append] at h1 ⊢
    rw [h1]
    simp only [Option.map_some, scanSections, if_true, hk0, if_false]
    rw [h3]
    simp only [scanSections, hk1, if_false, if_true, Option.map_some, show ('[' : Char) ≠ ']' by decide, show (']' : Char) ≠ '[' by decide]
    have e : k + 1 - 1 = k := by omega
    rw [e]
    simp [List.reverse_append]
theorem scan_args (sep : Str) (hsep : noBr sep) : ∀ (as : List WArg), WArg.cleanL as = true → ∀ (k : Int), 1 ≤ k →
    ∀ (seen rest cu : Str) (acc : List (Str × Str)),
    scanSections k seen (renderArgs sep as ++ rest) (some cu) acc =
      scanSections k ((renderArgs sep as).reverse ++ seen) rest (some ((renderArgs sep as).reverse ++ cu)) acc
  | [], _, k, _, seen, rest, cu, acc => by simp [renderArgs]
  | [x], h, k, hk, seen, rest, cu, acc => by
    simp only [WArg.cleanL, Bool.and_true] at h
    simpa [renderArgs] using scan_arg sep hsep x h k hk seen rest cu acc
  | x :: y :: r, h, k, hk, seen, rest, cu, acc => by
    simp only [WArg.cleanL, Bool.and_eq_true] at h
    have h1 := scan_arg sep hsep x h.1 k hk seen (sep ++ (renderArgs sep (y :: r) ++ rest)) cu acc
    have h2 := scan_noBr k sep ((renderArg sep x).reverse ++ seen) (renderArgs sep (y :: r) ++ rest)
      (some ((renderArg sep x).reverse ++ cu)) acc hsep
    have h3 := scan_args sep hsep (y :: r) (by simp [WArg.cleanL, h.2]) k hk (sep.reverse ++ ((renderArg sep x).reverse ++ seen)) rest
      (sep.reverse ++ ((renderArg sep x).reverse ++ cu)) acc
    simp only [renderArgs, List.append_assoc] at h1 ⊢
    rw [h1, h2]
    simp only [Option.map_some]
    rw [h3]
    simp [List.reverse_append, List.append_assoc]
end

/-! ## scanning at the top level (nest 0, no open section) -/

def secOf (sep : Str) (pre0 : Str) : WArg → List (Str × Str)
  | .sub n as => [(pre0 ++ n.toList, renderArgs sep as)]
  | _ => []

/-- the sections of a rendered argument list with the whole text in front of each opening bracket -/
def secsFrom (sep : Str) : Str → List WArg → List (Str × Str)
  | _, [] => []
  | pre0, [x] => secOf sep pre0 x
  | pre0, x :: y :: r => secOf sep pre0 x ++ secsFrom sep (pre0 ++ renderArg sep x ++ sep) (y :: r)

theorem top_arg (sep : Str) (hsep : noBr sep) (x : WArg) (h : x.clean = true) (seen rest : Str) (acc : List (Str × Str)) :
    scanSections 0 seen (renderArg sep x ++ rest) none acc =
      scanSections 0 ((renderArg sep x).reverse ++ seen) rest none ((secOf sep seen.reverse x).reverse ++ acc) := by
  cases x with
  | q t => simpa [secOf] using scan_noBr 0 (renderArg sep (.q t)) seen rest none acc (simple_text sep _ rfl h).1
  | bare t => simpa [secOf] using scan_noBr 0 (renderArg sep (.bare t)) seen rest none acc (simple_text sep _ rfl h).1
  | num d => simpa [secOf] using scan_noBr 0 (renderArg sep (.num d)) seen rest none acc (simple_text sep _ rfl h).1
  | sub n as =>
    simp only [WArg.clean, Bool.and_eq_true] at h
    obtain ⟨⟨hn, _⟩, hcl⟩ := h
    have h1 := scan_noBr 0 n.toList seen ('[' :: (renderArgs sep as ++ ']' :: rest)) none acc (name_noBr n hn)
    have h3 := scan_args sep hsep as hcl 1 (by omega) ('[' :: (n.toList.reverse ++ seen)) (']' :: rest) []
      (((n.toList.reverse ++ seen).reverse, []) :: acc)
    simp only [renderArg, List.append_assoc, List.cons_append, List.singleton_append, List.nil_append] at h1 ⊢
    rw [h1]
    simp only [Option.map_none, scanSections, if_true]
    rw [h3]
    simp only [scanSections, if_true, show ('[' : Char) ≠ ']' by decide, show (']' : Char) ≠ '[' by decide, if_false,
      show (1 : Int) - 1 = 0 by decide]
    simp [secOf, List.reverse_append]

theorem top_args (sep : Str) (hsep : noBr sep) : ∀ (as : List WArg), WArg.cleanL as = true →
    ∀ (seen rest : Str) (acc : List (Str × Str)),
    scanSections 0 seen (renderArgs sep as ++ rest) none acc =
      scanSections 0 ((renderArgs sep as).reverse ++ seen) rest none ((secsFrom sep seen.reverse as).reverse ++ acc)
  | [], _, seen, rest, acc => by simp [renderArgs, secsFrom]
  | [x], h, seen, rest, acc => by
    simp only [WArg.cleanL, Bool.and_true] at h
    simpa [renderArgs, secsFrom] using top_arg sep hsep x h seen rest acc
  | x :: y :: r, h, seen, rest, acc => by
    simp only [WArg.cleanL, Bool.and_eq_true] at h
    have h1 := top_arg sep hsep x h.1 seen (sep ++ (renderArgs sep (y :: r) ++ rest)) acc
    have h2 := scan_noBr 0 sep ((renderArg sep x).reverse ++ seen) (renderArgs sep (y :: r) ++ rest) none
      ((secOf sep seen.reverse x).reverse ++ acc) hsep
    have h3 := top_args sep hsep (y :: r) (by simp [WArg.cleanL, h.2]) (sep.reverse ++ ((renderArg sep x).reverse ++ seen)) rest
      ((secOf sep seen.reverse x).reverse ++ acc)
    simp only [renderArgs, List.append_assoc] at h1 ⊢
    rw [h1, h2]
    simp only [Option.map_none]
    rw [h3]
    simp [secsFrom, List.reverse_append, List.append_assoc]

/-- **the bracket matcher on a rendering** -/
theorem findSections_render (sep lead : Str) (hsep : noBr sep) (hlead : noBr lead) (as : List WArg)
    (h : WArg.cleanL as = true) : findSections (lead ++ renderArgs sep as) = (secsFrom sep lead as, true) := by
  unfold findSections
  have h1 := scan_noBr 0 lead [] (renderArgs sep as) none [] hlead
  have h2 := top_args sep hsep as h (lead.reverse ++ []) [] []
  rw [h1]
  simp only [Option.map_none]
  have e : renderArgs sep as = renderArgs sep as ++ [] := by simp
  rw [e, h2]
  simp [scanSections]


theorem trim_of_edges' (p : Char → Bool) (t : Str) (x : Char) (r : Str) (y : Char) (q : Str)
    (e1 : t = x :: r) (e2 : t = q ++ [y]) (hx : p x = false) (hy : p y = false) : trim p t = t := by
  unfold trim
  rw [e1, trimLeft_head p x r hx, ← e1, e2, trimRight_last p q y hy]

theorem trim_cons_of_edges (p : Char → Bool) (t : Str) (x : Char) (r : Str) (y : Char) (q : Str) (z : Char)
    (e1 : t = x :: r) (e2 : t = q ++ [y]) (hx : p x = false) (hy : p y = false) (hz : p z = true) : trim p (z :: t) = t := by
  unfold trim
  rw [trimLeft_skip p z t hz]
  exact trim_of_edges' p t x r y q e1 e2 hx hy

/-! ## the section name -/

def setCS (c : Char) : Bool := inSet (s ", ") c

theorem setCS_iff (c : Char) : setCS c = true ↔ (c = ',' ∨ c = ' ') := by
  unfold setCS inSet s
  simp [List.contains_iff_mem]

theorem trimLeft_append_stop (p : Char → Bool) (x : Char) (r : Str) (hx : p x = false) :
    ∀ P : Str, trimLeft p (P ++ x :: r) = trimLeft p P ++ x :: r
  | [] => by simp [trimLeft, hx]
  | c :: P => by
    by_cases hc : p c = true
    · simp [trimLeft, hc, trimLeft_append_stop p x r hx P]
    · simp [trimLeft, hc]

theorem trimLeft_append_all (p : Char → Bool) (R : Str) (hR : ∀ c ∈ R, p c = true) :
    ∀ Q : Str, trimLeft p (Q ++ R) = if trimLeft p Q = [] then [] else trimLeft p Q ++ R
  | [] => by
    have : trimLeft p R = [] := by
      induction R with
      | nil => rfl
      | cons c R ih => simp [trimLeft, hR c (by simp), ih (fun x hx => hR x (by simp [hx]))]
    simp [trimLeft, this]
  | c :: Q => by
    by_cases hc : p c = true
    · simp [trimLeft, hc, trimLeft_append_all p R hR Q]
    · simp [trimLeft, hc]

theorem afterLast_snoc (c : Char) (A : Str) (B : Str) (hB : c ∉ B) : afterLast c (A ++ c :: B) = some B := by
  unfold afterLast
  rw [splitOn_append, splitOn_nosep c B hB]
  cases h : splitOn c A with
  | nil => exact absurd h (splitOn_ne_nil c A)
  | cons a t =>
    cases t with
    | nil => simp
    | cons b u =>
      simp only [List.cons_append]
      rw [List.getLast?_cons_cons]
      have : (b :: (u ++ [B])) = (b :: u) ++ [B] := rfl
      rw [this, List.getLast?_append]
      simp

theorem afterLast_none (c : Char) (B : Str) (hB : c ∉ B) : afterLast c B = none := by
  unfold afterLast
  rw [splitOn_nosep c B hB]

/-- what may stand in front of a section name -/
def GoodPre (P : Str) : Prop := P = [] ∨ P = [' '] ∨ ∃ Q, P = Q ++ [','] ∨ P = Q ++ [',', ' ']

theorem name_edges (N : Str) (h : nameOK N = true) :
    ∃ x r y q, N = x :: r ∧ N = q ++ [y] ∧ nameCh x = true ∧ nameCh y = true ∧ ',' ∉ N := by
  unfold nameOK at h
  simp only [Bool.and_eq_true, Bool.not_eq_true', List.isEmpty_eq_false_iff, List.all_eq_true] at h
  obtain ⟨hne, hall⟩ := h
  obtain ⟨x, r, e⟩ := List.exists_cons_of_ne_nil hne
  refine ⟨x, r, N.getLast hne, N.dropLast, e, (List.dropLast_concat_getLast hne).symm, hall x (by rw [e]; simp),
    hall _ (List.getLast_mem hne), fun hc => (nameCh_props _ (hall _ hc)).2.2.1 rfl⟩

theorem sectionName_pre (P N : Str) (hN : nameOK N = true) (hP : GoodPre P) : sectionName (P ++ N) = N := by
  obtain ⟨x, r, y, q, e1, e2, hx, hy, hnc⟩ := name_edges N hN
  have px : setCS x = false := by
    cases h : setCS x with
    | false => rfl
    | true =>
      rcases (setCS_iff x).mp h with e | e
      · exact absurd e (nameCh_props x hx).2.2.1
      · exact absurd e (nameCh_props x hx).2.2.2.1
  have py : setCS y = false := by
    cases h : setCS y with
    | false => rfl
    | true =>
      rcases (setCS_iff y).mp h with e | e
      · exact absurd e (nameCh_props y hy).2.2.1
      · exact absurd e (nameCh_props y hy).2.2.2.1
  have sx : isSpace x = false := (nameCh_props x hx).2.2.2.2
  have sy : isSpace y = false := (nameCh_props y hy).2.2.2.2
  -- the trimmed text is `trimLeft P ++ N`
  have htrim : trim setCS (P ++ N) = trimLeft setCS P ++ N := by
    unfold trim
    have : trimLeft setCS (P ++ N) = trimLeft setCS P ++ N := by rw [e1]; exact trimLeft_append_stop setCS x r px P
    rw [this, e2, ← List.append_assoc, trimRight_last setCS _ y py]
  have hplain : ∀ T : Str, T = N → (match afterLast ',' T with | some t => trimSpace t | none => T) = N := by
    intro T hT
    rw [hT, afterLast_none ',' N hnc]
  have hsep : ∀ (A sp : Str), (sp = [] ∨ sp = [' ']) →
      (match afterLast ',' (A ++ ',' :: (sp ++ N)) with | some t => trimSpace t | none => A ++ ',' :: (sp ++ N)) = N := by
    intro A sp hsp
    have hnc' : ',' ∉ sp ++ N := by
      rcases hsp with rfl | rfl
      · simpa using hnc
      · simp only [List.singleton_append, List.mem_cons, not_or]
        exact ⟨by decide, hnc⟩
    rw [afterLast_snoc ',' A _ hnc']
    rcases hsp with rfl | rfl
    · simp only [List.nil_append]
      exact trim_of_edges' isSpace N x r y q e1 e2 sx sy
    · exact trim_cons_of_edges isSpace N x r y q ' ' e1 e2 sx sy (by decide)
  show (match afterLast ',' (trim setCS (P ++ N)) with | some t => trimSpace t | none => trim setCS (P ++ N)) = N
  rw [htrim]
  rcases hP with rfl | rfl | ⟨Q, rfl | rfl⟩
  · exact hplain _ (by simp [trimLeft])
  · exact hplain _ (by simp [trimLeft, setCS, inSet, s])
  · have := trimLeft_append_all setCS [','] (by intro c hc; simp at hc; subst hc; decide) Q
    rw [this]
    by_cases hq : trimLeft setCS Q = []
    · rw [if_pos hq]; exact hplain _ (by simp)
    · rw [if_neg hq]
      have := hsep (trimLeft setCS Q) [] (Or.inl rfl)
      simpa [List.append_assoc] using this
  · have := trimLeft_append_all setCS [',', ' '] (by intro c hc; simp at hc; rcases hc with rfl | rfl <;> decide) Q
    rw [this]
    by_cases hq : trimLeft setCS Q = []
    · rw [if_pos hq]; exact hplain _ (by simp)
    · rw [if_neg hq]
      have := hsep (trimLeft setCS Q) [' '] (Or.inr rfl)
      simpa [List.append_assoc] using this

/-! ## the sections of a rendering, with their names -/

def renderSub (sep : Str) (p : Str × List WArg) : Str × Str := (p.1, renderArgs sep p.2)

theorem goodPre_sep (sp : Bool) (Q : Str) : GoodPre (Q ++ sepOf sp) := by
  cases sp
  · exact Or.inr (Or.inr ⟨Q, Or.inl rfl⟩)
  · exact Or.inr (Or.inr ⟨Q, Or.inr rfl⟩)

theorem secOf_names (sp : Bool) (pre0 : Str) (hp : GoodPre pre0) (x : WArg) (h : x.clean = true) :
    (secOf (sepOf sp) pre0 x).map (fun p => (sectionName p.1, p.2)) = (subsOf [x]).map (renderSub (sepOf sp)) := by
  cases x with
  | sub n as =>
    simp only [WArg.clean, Bool.and_eq_true] at h
    simp [secOf, subsOf, renderSub, sectionName_pre pre0 n.toList h.1.1 hp]
  | q t => simp [secOf, subsOf]
  | bare t => simp [secOf, subsOf]
  | num d => simp [secOf, subsOf]

theorem subsOf_cons (x : WArg) (r : List WArg) : subsOf (x :: r) = subsOf [x] ++ subsOf r := by
  cases x <;> simp [subsOf]

theorem secs_names (sp : Bool) : ∀ (as : List WArg) (pre0 : Str), GoodPre pre0 → WArg.cleanL as = true →
    (secsFrom (sepOf sp) pre0 as).map (fun p => (sectionName p.1, p.2)) = (subsOf as).map (renderSub (sepOf sp))
  | [], _, _, _ => by simp [secsFrom, subsOf]
  | [x], pre0, hp, h => by
    simp only [WArg.cleanL, Bool.and_true] at h
    simpa [secsFrom] using secOf_names sp pre0 hp x h
  | x :: y :: r, pre0, hp, h => by
    simp only [WArg.cleanL, Bool.and_eq_true] at h
    have h1 := secOf_names sp pre0 hp x h.1
    have h2 := secs_names sp (y :: r) (pre0 ++ renderArg (sepOf sp) x ++ sepOf sp) (goodPre_sep sp _) (by simp [WArg.cleanL, h.2])
    rw [subsOf_cons x (y :: r)]
    simp only [secsFrom, List.map_append, h1, h2]

theorem goodPre_lead (sp : Bool) : GoodPre (spOf sp) := by
  cases sp
  · exact Or.inl rfl
  · exact Or.inr (Or.inl rfl)

theorem noBr_sp (sp : Bool) : noBr (spOf sp) := by
  cases sp
  · intro c hc; simp [spOf] at hc
  · intro c hc; simp [spOf] at hc; subst hc; decide

/-- **`strOps.sections` on a rendering** (with or without the blank that follows the section name's comma) -/
theorem sections_render (sp : Bool) (lead : Str) (hl : lead = [] ∨ lead = spOf sp) (as : List WArg) (h : WArg.cleanL as = true) :
    strOps.sections (lead ++ renderArgs (sepOf sp) as) = ((subsOf as).map (renderSub (sepOf sp)), true) := by
  have hlead : noBr lead ∧ GoodPre lead := by
    rcases hl with rfl | rfl
    · exact ⟨fun c hc => by simp at hc, Or.inl rfl⟩
    · exact ⟨noBr_sp sp, goodPre_lead sp⟩
  show ((findSections _).1.map fun p => (sectionName p.1, p.2), (findSections _).2) = _
  rw [findSections_render (sepOf sp) lead (noBr_sep sp) hlead.1 as h]
  simp only [secs_names sp as lead hlead.2 h]

/-! ## `splitWKTName` on a rendering -/

theorem takeWhile_stop (c : Char) (b : Str) : ∀ a : Str, c ∉ a → (a ++ c :: b).takeWhile (· ≠ c) = a ∧ (a ++ c :: b).dropWhile (· ≠ c) = c :: b
  | [], _ => by simp
  | x :: a, h => by
    have hx : x ≠ c := fun e => h (by simp [e])
    have ih := takeWhile_stop c b a (fun e => h (by simp [e]))
    have ih' := ih
    simp only [ne_eq, decide_not] at ih'
    simp [List.takeWhile, List.dropWhile, hx, ih'.1, ih'.2]

theorem splitName_render (sp : Bool) (x y : WArg) (r : List WArg) (hs : x.isSimple = true) (hx : x.clean = true) :
    splitWKTName (renderArgs (sepOf sp) (x :: y :: r)) = some (renderArg (sepOf sp) x, spOf sp ++ renderArgs (sepOf sp) (y :: r)) := by
  have hnc := (simple_text (sepOf sp) x hs hx).2
  have e : renderArgs (sepOf sp) (x :: y :: r) = renderArg (sepOf sp) x ++ ',' :: (spOf sp ++ renderArgs (sepOf sp) (y :: r)) := by
    simp [renderArgs, sepOf_eq]
  obtain ⟨t1, t2⟩ := takeWhile_stop ',' (spOf sp ++ renderArgs (sepOf sp) (y :: r)) (renderArg (sepOf sp) x) hnc
  unfold splitWKTName
  rw [e]
  have hc : (renderArg (sepOf sp) x ++ ',' :: (spOf sp ++ renderArgs (sepOf sp) (y :: r))).contains ',' = true := by
    simp [List.contains_iff_mem]
  rw [if_pos hc, t1, t2]
  rfl

theorem splitName_single (sep : Str) (x : WArg) (hs : x.isSimple = true) (hx : x.clean = true) :
    splitWKTName (renderArgs sep [x]) = none := by
  have hnc := (simple_text sep x hs hx).2
  unfold splitWKTName
  simp [renderArgs, List.contains_iff_mem, hnc]

/-! ## the handlers agree -/

section agree
variable {α : Type} [Num α] (sp : Bool)

/-- the recursive calls (on the data behind a section's name) agree -/
def RecAgree (recS : Rec α Str) (recT : Rec α (List WArg)) : Prop :=
  ∀ (secName : List Str) (args : List WArg) (sr : SR α), WArg.cleanL args = true →
    recS secName (spOf sp ++ renderArgs (sepOf sp) args) sr = recT secName args sr

theorem splitName_agree (as : List WArg) (hc : WArg.cleanL as = true) (hf : firstSimple as = true) :
    (strOps.splitName (renderArgs (sepOf sp) as) = none ∧ (treeOps (sepOf sp)).splitName as = none) ∨
    (∃ nm rest, strOps.splitName (renderArgs (sepOf sp) as) = some (nm, spOf sp ++ renderArgs (sepOf sp) rest) ∧
      (treeOps (sepOf sp)).splitName as = some (nm, rest) ∧ WArg.cleanL rest = true) := by
  match as, hc, hf with
  | [], _, hf => simp [firstSimple] at hf
  | [x], hc, hf =>
    simp only [WArg.cleanL, Bool.and_true] at hc
    exact Or.inl ⟨splitName_single _ x hf hc, rfl⟩
  | x :: y :: r, hc, hf =>
    simp only [WArg.cleanL, Bool.and_eq_true] at hc
    refine Or.inr ⟨renderArg (sepOf sp) x, y :: r, splitName_render sp x y r hf hc.1, ?_, by simp [WArg.cleanL, hc.2]⟩
    simp [treeOps, show x.isSimple = true from hf]

theorem datumG_agree (recS : Rec α Str) (recT : Rec α (List WArg)) (hrec : RecAgree sp recS recT)
    (secName : List Str) (as : List WArg) (hc : WArg.cleanL as = true) (hf : firstSimple as = true) (sr : SR α) :
    parseWKTDatumG strOps recS secName (renderArgs (sepOf sp) as) sr = parseWKTDatumG (treeOps (sepOf sp)) recT secName as sr := by
  have ht : strOps.text (renderArgs (sepOf sp) as) = (treeOps (sepOf sp)).text as := rfl
  unfold parseWKTDatumG
  rw [ht]
  rcases splitName_agree sp as hc hf with ⟨h1, h2⟩ | ⟨nm, rest, h1, h2, hcl⟩
  · rw [h1, h2]
  · rw [h1, h2]
    simp only [hrec secName rest _ hcl]

theorem geogG_agree (recS : Rec α Str) (recT : Rec α (List WArg)) (hrec : RecAgree sp recS recT)
    (secName : List Str) (as : List WArg) (hc : WArg.cleanL as = true) (hf : firstSimple as = true) (sr : SR α) :
    parseWKTGeogCSG strOps recS secName (renderArgs (sepOf sp) as) sr = parseWKTGeogCSG (treeOps (sepOf sp)) recT secName as sr := by
  have ht : strOps.text (renderArgs (sepOf sp) as) = (treeOps (sepOf sp)).text as := rfl
  unfold parseWKTGeogCSG
  rw [ht, datumG_agree sp recS recT hrec secName as hc hf sr]
  rcases splitName_agree sp as hc hf with ⟨h1, h2⟩ | ⟨nm, rest, h1, h2, hcl⟩
  · rw [h1, h2]
  · rw [h1, h2]
    simp only [hrec secName rest _ hcl]

theorem projG_agree (recS : Rec α Str) (recT : Rec α (List WArg)) (hrec : RecAgree sp recS recT)
    (secName : List Str) (as : List WArg) (hc : WArg.cleanL as = true) (hf : firstSimple as = true) (sr : SR α) :
    parseWKTProjCSG strOps recS secName (renderArgs (sepOf sp) as) sr = parseWKTProjCSG (treeOps (sepOf sp)) recT secName as sr := by
  have ht : strOps.text (renderArgs (sepOf sp) as) = (treeOps (sepOf sp)).text as := rfl
  unfold parseWKTProjCSG
  rw [ht, geogG_agree sp recS recT hrec secName as hc hf sr]
  rcases splitName_agree sp as hc hf with ⟨h1, h2⟩ | ⟨nm, rest, h1, h2, hcl⟩
  · rw [h1, h2]
  · rw [h1, h2]
    simp only [hrec secName rest _ hcl]

theorem step_agree (recS : Rec α Str) (recT : Rec α (List WArg)) (hrec : RecAgree sp recS recT)
    (secName : List Str) (n : Str) (as : List WArg) (hc : WArg.cleanL as = true) (hf : firstSimple as = true) (sr : SR α) :
    sectionStep strOps recS secName (renderSub (sepOf sp) (n, as)) sr = sectionStep (treeOps (sepOf sp)) recT secName (n, as) sr := by
  unfold sectionStep renderSub
  simp only [projG_agree sp recS recT hrec _ as hc hf, geogG_agree sp recS recT hrec _ as hc hf]

theorem subsOf_clean : ∀ (as : List WArg), WArg.cleanL as = true → ∀ p ∈ subsOf as, WArg.cleanL p.2 = true ∧ firstSimple p.2 = true
  | [], _, p, hp => by simp [subsOf] at hp
  | x :: r, h, p, hp => by
    simp only [WArg.cleanL, Bool.and_eq_true] at h
    rw [subsOf_cons] at hp
    rcases List.mem_append.mp hp with hp | hp
    · cases x with
      | sub n as =>
        simp only [subsOf, List.mem_singleton] at hp
        subst hp
        simp only [WArg.clean, Bool.and_eq_true] at h
        exact ⟨h.1.2, h.1.1.2⟩
      | q t => simp [subsOf] at hp
      | bare t => simp [subsOf] at hp
      | num d => simp [subsOf] at hp
    · exact subsOf_clean r h.2 p hp

theorem run_agree (stepS : Str × Str → SR α → Res α) (stepT : Str × List WArg → SR α → Res α) :
    ∀ (l : List (Str × List WArg)), (∀ p ∈ l, ∀ sr, stepS (renderSub (sepOf sp) p) sr = stepT p sr) →
    ∀ sr, runSections stepS (l.map (renderSub (sepOf sp))) sr = runSections stepT l sr
  | [], _, sr => rfl
  | p :: r, h, sr => by
    simp only [List.map_cons, runSections, h p (by simp)]
    cases hres : stepT p sr with
    | mk sr' e =>
      cases e with
      | some e => rfl
      | none => exact run_agree stepS stepT r (fun q hq => h q (List.mem_cons_of_mem _ hq)) sr'

/-- **tokenizer round trip (WKT)**: on the rendering of a clean argument list the text-level parser
does exactly what the token-level parser does on the list itself -/
theorem parseWKTSection_render : ∀ (fuel : Nat) (secName : List Str) (lead : Str) (as : List WArg) (sr : SR α),
    (lead = [] ∨ lead = spOf sp) → WArg.cleanL as = true →
    parseWKTSectionG strOps fuel secName (lead ++ renderArgs (sepOf sp) as) sr =
      parseWKTSectionG (treeOps (sepOf sp)) fuel secName as sr
  | 0, _, _, _, _, _, _ => rfl
  | fuel+1, secName, lead, as, sr, hl, hc => by
    have hrec : RecAgree sp (parseWKTSectionG (α := α) strOps fuel) (parseWKTSectionG (treeOps (sepOf sp)) fuel) :=
      fun sn args sr' hcl => parseWKTSection_render fuel sn (spOf sp) args sr' (Or.inr rfl) hcl
    unfold parseWKTSectionG
    rw [sections_render sp lead hl as hc]
    show (if !true then _ else runSections _ ((subsOf as).map (renderSub (sepOf sp))) sr) =
      (if !true then _ else runSections _ (subsOf as) sr)
    simp only [Bool.not_true, Bool.false_eq_true, if_false]
    apply run_agree
    intro p hp sr'
    obtain ⟨hpc, hpf⟩ := subsOf_clean as hc p hp
    exact step_agree sp _ _ hrec secName p.1 p.2 hpc hpf sr'

end agree

end GeomV.C20
