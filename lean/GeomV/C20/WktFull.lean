import GeomV.C20.WktClean
import GeomV.C20.P4Full
/-!
# WKT, string level: `parse (toWkt c st)` reads `expected c`
-/
set_option linter.unusedSimpArgs false
set_option linter.unusedVariables false
namespace GeomV.C20
open Num

theorem wktSep_eq (st : Style) : wktSep st = sepOf st.spaces := by unfold wktSep sepOf; rfl

theorem hasPrefix_append : ∀ (p r : Str), hasPrefix (p ++ r) p = true
  | [], r => by cases r <;> rfl
  | a :: p, r => by simp [hasPrefix, hasPrefix_append p r]

theorem containsSub_prefix (p r : Str) (hp : p ≠ []) : containsSub (p ++ r) p = true := by
  obtain ⟨a, q, rfl⟩ := List.exists_cons_of_ne_nil hp
  show containsSub (a :: (q ++ r)) (a :: q) = true
  unfold containsSub
  have := hasPrefix_append (a :: q) r
  simp only [List.cons_append] at this
  rw [this]
  rfl

theorem lookup_none_of_ne {β : Type} (k : String) : ∀ tbl : List (String × β), (∀ p ∈ tbl, p.1 ≠ k) → List.lookup k tbl = none
  | [], _ => rfl
  | (a, b) :: r, h => by
    have hne : (k == a) = false := by
      cases hka : k == a with
      | false => rfl
      | true => exact absurd (by simpa using hka : k = a).symm (h (a, b) (by simp))
    simp only [List.lookup, hne]
    exact lookup_none_of_ne k r (fun p hp => h p (List.mem_cons_of_mem _ hp))

theorem registry_nobracket : (registryDefs.all fun p => !p.1.toList.contains '[') = true ∧
    (registryAliases.all fun p => !p.1.toList.contains '[') = true := by decide +kernel

theorem registryLookup_bracket (w : Str) (h : '[' ∈ w) : registryLookup (String.ofList w) = none := by
  unfold registryLookup
  have key : ∀ {β : Type} (tbl : List (String × β)), (tbl.all fun p => !p.1.toList.contains '[') = true →
      List.lookup (String.ofList w) tbl = none := by
    intro β tbl ht
    apply lookup_none_of_ne
    intro p hp e
    rw [List.all_eq_true] at ht
    have := ht p hp
    rw [e] at this
    simp [List.contains_iff_mem, h] at this
  rw [key _ registry_nobracket.1, key _ registry_nobracket.2]
  rfl

/-- the rendered text begins with its outermost keyword and a bracket -/
theorem toWkt_shape (c : Crs) (st : Style) :
    ∃ (kw : String) (rest : Str), (kw = "GEOGCS" ∨ kw = "PROJCS") ∧ toWkt c st = kw.toList ++ '[' :: rest := by
  unfold toWkt toWktTree
  split
  · exact ⟨"GEOGCS", _, Or.inl rfl, rfl⟩
  · exact ⟨"PROJCS", _, Or.inr rfl, rfl⟩

/-- **C20_parse_agree, WKT half (string level)** — for every well-formed description, every spelling
and every clause order, `Parse` of the rendered WKT text succeeds and the fields a transformer reads are
exactly `expected c`. -/
theorem wkt_parse_agree (c : Crs) (st : Style) (hw : wellFormed c = true) (hn : numeralsRead c = true)
    (hlo : st.leaveOut = 0) (hup : st.unitPos ≤ 2) (hf : SpheroidFacts c.a.toRat c.rf.toRat) :
    ∃ r, parse (α := XR) (toWkt c st) = .ok r ∧ view r = some (expected c) ∧ r.datumCode = datumCodeOf (wktDatumName c st) := by
  have hnum : ∀ d ∈ decsOf c, NumOK d := numOK_mem c hn
  obtain ⟨_, _, _, _, _, hdw⟩ := wf_parts c hw
  obtain ⟨kw, rest, hkw, hshape⟩ := toWkt_shape c st
  have hbr : '[' ∈ toWkt c st := by rw [hshape]; simp
  have htest : testWKT (toWkt c st) = true := by
    unfold testWKT
    rw [hshape]
    rcases hkw with rfl | rfl
    · have := containsSub_prefix "GEOGCS".toList ('[' :: rest) (by decide)
      simp only [s, this, Bool.true_or]
    · have := containsSub_prefix "PROJCS".toList ('[' :: rest) (by decide)
      simp only [s, this, Bool.true_or, Bool.or_true]
  have hlen : ∃ f, (toWkt c st).length + 1 = f + 4 := by
    refine ⟨(toWkt c st).length - 3, ?_⟩
    have : 7 ≤ (toWkt c st).length := by
      rw [hshape]
      rcases hkw with rfl | rfl <;> simp <;> omega
    omega
  obtain ⟨f, hfuel⟩ := hlen
  -- the text-level sections equal the token-level sections
  have hsec : parseWKTSection (α := XR) ((toWkt c st).length + 1) [] (toWkt c st) newSR = ok (wktRaw c st) := by
    have hlex := parseWKTSection_render (α := XR) st.spaces ((toWkt c st).length + 1) [] [] [toWktTree c st] newSR (Or.inl rfl)
      (clean_tree c st hnum hdw)
    have e : toWkt c st = [] ++ renderArgs (sepOf st.spaces) [toWktTree c st] := by
      unfold toWkt; rw [wktSep_eq]; rfl
    unfold parseWKTSection
    rw [e] at hlex ⊢
    rw [hlex]
    rw [← e, hfuel]
    exact sections_toks st.spaces c st hnum hdw hlo hup f
  have hwkt : wkt (α := XR) (toWkt c st) = .ok (wktFinish (wktRaw c st)) := by
    unfold wkt
    rw [hsec]
    rfl
  have hparse : parse (α := XR) (toWkt c st) = (wkt (toWkt c st) >>= deriveConstants) := by
    unfold parse
    rw [registryLookup_bracket _ hbr]
    unfold parseDef
    rw [htest]
    rfl
  rw [hparse, hwkt]
  obtain ⟨r, h1, h2, h3⟩ := derive_view c _ hf hdw (wkt_coreOK c st hw)
  refine ⟨r, h1, h2, ?_⟩
  rw [h3]
  exact wktFinish_datumCode c st

end GeomV.C20
