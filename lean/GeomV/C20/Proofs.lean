import GeomV.C20.Spec
/-! C20 theorems (in progress) -/
namespace GeomV.C20
end GeomV.C20
