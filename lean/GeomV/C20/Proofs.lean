import GeomV.C20.Spec
import GeomV.C20.ParseAgree
import GeomV.C20.TransformAgree
import GeomV.C20.Agree.Geog
import GeomV.C20.Agree.Merc
import GeomV.C20.Agree.Lcc
import GeomV.C20.Agree.Aea
import GeomV.C20.Agree.Eqdc
import GeomV.C20.Agree.Tmerc
/-!
# C20 theorems

Statement of the property (properties.jsonl): PROJ.4 and OGC WKT texts of one description yield
references whose transformers agree; registered names denote their definitions; parsing the same
text twice gives Equal references; NewTransform returns nil exactly for Equal references.
-/
set_option linter.unusedSimpArgs false
set_option linter.unusedVariables false
namespace GeomV.C20
open Num

/-! ## Equal -/

section eq
variable {α : Type} [Num α]

theorem feq_refl (close : α → α → Bool) (h : ∀ x, close x x = true) (x : α) : feq close x x = true := by
  unfold feq; cases hn : isNaN x <;> simp [h]

theorem sliceEq_refl (close : α → α → Bool) (h : ∀ x, close x x = true) : ∀ l : List α, sliceEq close l l = true
  | [] => rfl
  | x :: r => by simp [sliceEq, feq_refl close h, sliceEq_refl close h r]

theorem feq_symm (close : α → α → Bool) (h : ∀ x y, close x y = close y x) (x y : α) : feq close x y = feq close y x := by
  unfold feq; cases hx : isNaN x <;> cases hy : isNaN y <;> simp [h x y]

theorem sliceEq_symm (close : α → α → Bool) (h : ∀ x y, close x y = close y x) :
    ∀ a b : List α, sliceEq close a b = sliceEq close b a
  | [], [] => rfl
  | [], _ :: _ => rfl
  | _ :: _, [] => rfl
  | x :: a, y :: b => by simp [sliceEq, feq_symm close h x y, sliceEq_symm close h a b]

theorem dec_symm {β : Type} [DecidableEq β] (a b : β) : decide (a = b) = decide (b = a) := by
  by_cases h : a = b
  · subst h; rfl
  · have h' : ¬ b = a := fun e => h e.symm
    simp [h, h']

theorem datumEq_refl (close : α → α → Bool) (h : ∀ x, close x x = true) (d : Datum α) : datumEq close d d = true := by
  simp [datumEq, feq_refl close h, sliceEq_refl close h]

theorem datumEq_symm (close : α → α → Bool) (h : ∀ x y, close x y = close y x) (d e : Datum α) :
    datumEq close d e = datumEq close e d := by
  simp only [datumEq, feq_symm close h d.a, feq_symm close h d.b, feq_symm close h d.es, feq_symm close h d.ep2,
    sliceEq_symm close h d.params, dec_symm d.dtype, dec_symm d.nadGrids]

/-- `(*SR).Equal` is reflexive on every reference that carries a datum — NaN-initialised fields and
NaN towgs84 terms included — for any reflexive closeness test (`EqualWithinULP(x, x, 3)` is). -/
theorem equalSR_refl (close : α → α → Bool) (h : ∀ x, close x x = true) (p : SR α) (hd : p.datum.isSome) :
    equalSR close p p = some true := by
  unfold equalSR
  cases hdat : p.datum with
  | none => simp [hdat] at hd
  | some d => simp [feq_refl close h, sliceEq_refl close h, datumEq_refl close h]

/-- **C20_equal_symm** — `Equal` is symmetric (after the fix that compares slice lengths; the
unfixed code answered `true`/panic for towgs84 lists of 3 and 7 terms) for any symmetric closeness test. -/
theorem C20_equal_symm (close : α → α → Bool) (h : ∀ x y, close x y = close y x) (p q : SR α) :
    equalSR close p q = equalSR close q p := by
  unfold equalSR
  cases hp : p.datum <;> cases hq : q.datum <;> try rfl
  rename_i d e
  simp only [feq_symm close h p.rf, feq_symm close h p.lat0, feq_symm close h p.lat1, feq_symm close h p.lat2,
    feq_symm close h p.latTS, feq_symm close h p.long0, feq_symm close h p.long1, feq_symm close h p.long2,
    feq_symm close h p.longC, feq_symm close h p.alpha, feq_symm close h p.x0, feq_symm close h p.y0,
    feq_symm close h p.k0, feq_symm close h p.k, feq_symm close h p.a, feq_symm close h p.a2, feq_symm close h p.b,
    feq_symm close h p.b2, feq_symm close h p.zone, feq_symm close h p.toMeter, feq_symm close h p.fromGreenwich,
    feq_symm close h p.es, feq_symm close h p.e, feq_symm close h p.ep2, sliceEq_symm close h p.datumParams,
    datumEq_symm close h d, dec_symm p.name, dec_symm p.title, dec_symm p.srsCode, dec_symm p.datumCode,
    dec_symm p.ra, dec_symm p.utmSouth, dec_symm p.units, dec_symm p.nadGrids, dec_symm p.axis, dec_symm p.isLocal,
    dec_symm p.sphere, dec_symm p.ellps, dec_symm p.ellipseName, dec_symm p.datumName, dec_symm p.noDefs, dec_symm p.czech]

/-- **C20_nil_iff_equal** — `NewTransform` returns the nil (identity) transformer exactly when
`source.Equal(dest, 3)`; pins the decision of transform.go. -/
theorem C20_nil_iff_equal (close : α → α → Bool) (src dst : SR α) :
    newTransformIsNil close src dst = some true ↔ equalSR close src dst = some true := Iff.rfl

/-- **C20_prj** — `(*Decoder).SR` is `proj.Parse` of the bytes of the `.prj` file. -/
theorem C20_prj (b : Str) : decoderSR (α := α) (some b) = parse b := rfl

end eq

/-! ## parse results carry a datum; same text twice is Equal -/

section parse
variable {α : Type} [Num α]

theorem deriveConstants_datum (sr r : SR α) (h : deriveConstants sr = .ok r) : r.datum.isSome := by
  unfold deriveConstants attachDatum at h
  split at h
  · injection h with h; subst h; simp_all
  · split at h
    · exact absurd h (by simp)
    · injection h with h; subst h; rfl

theorem parseDef_datum (c : Str) (r : SR α) (h : parseDef c = .ok r) : r.datum.isSome := by
  unfold parseDef at h
  split at h
  · cases hw : wkt (α := α) c with
    | error e => simp [hw, bind, Except.bind] at h
    | ok s0 => simp [hw, bind, Except.bind] at h; exact deriveConstants_datum _ _ h
  · split at h
    · cases hw : projString (α := α) c with
      | error e => simp [hw, bind, Except.bind] at h
      | ok s0 => simp [hw, bind, Except.bind] at h; exact deriveConstants_datum _ _ h
    · exact absurd h (by simp)

theorem parse_datum (c : Str) (r : SR α) (h : parse c = .ok r) : r.datum.isSome := by
  unfold parse at h
  split at h <;> exact parseDef_datum _ _ h

/-- **C20_equal_refl** — parsing the same text twice gives `Equal` references: `Parse` is a function
of the text (the model is pure), and `Equal` is reflexive on every parse result, NaN-initialised
fields and NaN towgs84 terms included. -/
theorem C20_equal_refl (close : α → α → Bool) (h : ∀ x, close x x = true) (c : Str) (r1 r2 : SR α)
    (h1 : parse c = .ok r1) (h2 : parse c = .ok r2) : equalSR close r1 r2 = some true := by
  have : r1 = r2 := by rw [h1] at h2; injection h2
  subst this
  exact equalSR_refl close h r1 (parse_datum c r1 h1)

end parse

/-! ## registered names -/

/-- **C20_registry** — every registered name (a definition of `global.go` or an alias of one; the
table is regenerated from the source on every run) parses to exactly the reference its definition
string parses to. -/
theorem C20_registry {α : Type} [Num α] (name defn : String) (h : registryLookup name = some defn) :
    parse (α := α) name.toList = parseDef defn.toList := by
  unfold parse
  rw [String.ofList_toList, h]

/-- the names the property lists are registered, and the aliases resolve to the definition of
their target -/
theorem C20_registry_names :
    (registryLookup "EPSG:4326").isSome ∧ (registryLookup "EPSG:4269").isSome ∧ (registryLookup "EPSG:3857").isSome
    ∧ registryLookup "WGS84" = registryLookup "EPSG:4326"
    ∧ registryLookup "GOOGLE" = registryLookup "EPSG:3857" ∧ registryLookup "EPSG:3785" = registryLookup "EPSG:3857"
    ∧ registryLookup "EPSG:900913" = registryLookup "EPSG:3857" ∧ registryLookup "EPSG:102113" = registryLookup "EPSG:3857" := by
  decide +kernel

/-- non-vacuity: the three definitions parse (exact numbers), e.g. Web Mercator is a sphere -/
example : (match parse (α := XR) "EPSG:3857".toList with | .ok r => r.sphere && r.name == "merc".toList | _ => false) = true := by
  decide +kernel
example : (match parse (α := XR) "WGS84".toList with | .ok r => r.a == some 6378137 && r.datumCode == "WGS84".toList | _ => false) = true := by
  decide +kernel

/-! ## known finding `noshift`: the negation of parse agreement on a concrete description -/

/-- a Lambert conformal conic on the International 1924 spheroid with no stated tie to WGS84 -/
def noshiftWitness : Crs :=
  { kind := .lcc, lat0 := ⟨46, 0⟩, lat1 := ⟨45, 0⟩, lat2 := ⟨47, 0⟩, lon0 := ⟨3, 0⟩, k0 := ⟨1, 0⟩, fe := ⟨600000, 0⟩, fn := ⟨200000, 0⟩,
    feM := ⟨600000, 0⟩, fnM := ⟨200000, 0⟩, a := ⟨6378388, 0⟩, rf := ⟨297, 0⟩, towgs := none, unit := .metre, datum := .custom }

def datumTypeOf (r : Except Err (SR XR)) : Option Nat :=
  match r with
  | .ok sr => sr.datum.map (·.dtype)
  | _ => none

/-- **C20_noshift_datum_differs** — for a description without a datum shift the two notations do
NOT agree: PROJ.4 yields datum type `pjdNoDatum` (5: no ellipsoid change on the way to WGS84), WKT
yields `pjdWGS84` (4: geocentric ellipsoid change).  Every other field a transformer reads agrees. -/
theorem C20_noshift_datum_differs :
    datumTypeOf (parse (toProj4 noshiftWitness {})) = some pjdNoDatum ∧
    datumTypeOf (parse (toWkt noshiftWitness {})) = some pjdWGS84 := by
  decide +kernel

/-! ## parse agreement -/

/-
The full statement
  theorem C20_parse_agree (c : Crs) (st : Style) (hw : wellFormed c = true) (hst : styleOK st = true)
      (hn : numeralsRead c = true) : agree c st = true
is PROVED in `ParseAgree.lean` (imported above) for all descriptions, spellings and clause orders, at string
level, with the numeral contract `numeralsRead c` as its only extra hypothesis; `C20_parse_agree_tokens`,
`C20_lex_proj4`, `C20_lex_wkt` are its token-level and lexer parts.  The kernel-checked finite family below
is kept as a set of worked examples (it needs no numeral hypothesis: the kernel evaluates the numerals).
-/

/-- **C20_parse_agree_partial** — PROJ.4 and WKT of the same description parse to the same exact
fields, namely those intended (`expected`): kernel-checked on the family `family k` for every kind. -/
theorem C20_parse_agree_partial :
    ∀ k ∈ [Kind.geog, .merc, .lcc, .aea, .eqdc, .tmerc], ∀ x ∈ family k, (wellFormed x.1 && agree x.1 x.2) = true := by
  intro k hk
  simp only [List.mem_cons, List.not_mem_nil, or_false] at hk
  rcases hk with rfl | rfl | rfl | rfl | rfl | rfl
  · exact agree_geog
  · exact agree_merc
  · exact agree_lcc
  · exact agree_aea
  · exact agree_eqdc
  · exact agree_tmerc

/-- non-vacuity of `wellFormed` and sensitivity of `agree`: swapping the two standard parallels in
the description changes the intended reading -/
example : wellFormed (sample .lcc .foot 1) = true := by decide +kernel
example : isView (parse (toWkt (sample .lcc .metre 0) {})) (expected { sample .lcc .metre 0 with lat1 := ⟨46125, 3⟩, lat2 := ⟨443333, 4⟩ }) = false := by
  decide +kernel

/-! ## PARAMETER names and the unit of the false origin, for ALL numerals -/

/-- a `PARAMETER["name",value]` section is read as: the lower-cased unquoted name selects the field,
the value text is trimmed and parsed -/
theorem param_apply (sr : SR XR) (lit v name : Str) (x : XR) (hl : ',' ∉ lit) (hv : ',' ∉ v)
    (hx : parseFloat (α := XR) (trimSpace v) = .ok x) (hn : trim isQuote (toLower lit) = name) :
    parseWKTParameter sr (lit ++ ',' :: v) = paramSet sr name x := by
  unfold parseWKTParameter
  simp [splitOn_append_sep ',' v lit hl, splitOn_nosep ',' v hv, hx, hn]

/-- **C20_wkt_parameter_map** — for every value text `v` (no comma) that `ParseFloat` reads as `x`,
each PARAMETER name the renderers use — OGC lower case or ESRI capitalised — writes exactly the
intended field: angles times `deg2rad`, linear and scale values unchanged; in particular
`longitude_of_center` is NOT the central meridian field (it is copied to `Long0` by `wkt` for the
three projections that need it, see `wkt`). -/
theorem C20_wkt_parameter_map (sr : SR XR) (v : Str) (x : XR) (hv : ',' ∉ v)
    (hx : parseFloat (α := XR) (trimSpace v) = .ok x) :
    let r := Num.mul x (deg2rad : XR)
    parseWKTParameter sr (s "\"false_easting\"" ++ ',' :: v) = ok { sr with x0 := x }
    ∧ parseWKTParameter sr (s "\"False_Easting\"" ++ ',' :: v) = ok { sr with x0 := x }
    ∧ parseWKTParameter sr (s "\"false_northing\"" ++ ',' :: v) = ok { sr with y0 := x }
    ∧ parseWKTParameter sr (s "\"False_Northing\"" ++ ',' :: v) = ok { sr with y0 := x }
    ∧ parseWKTParameter sr (s "\"central_meridian\"" ++ ',' :: v) = ok { sr with long0 := r }
    ∧ parseWKTParameter sr (s "\"Central_Meridian\"" ++ ',' :: v) = ok { sr with long0 := r }
    ∧ parseWKTParameter sr (s "\"longitude_of_center\"" ++ ',' :: v) = ok { sr with longC := r }
    ∧ parseWKTParameter sr (s "\"latitude_of_origin\"" ++ ',' :: v) = ok { sr with lat0 := r }
    ∧ parseWKTParameter sr (s "\"Latitude_Of_Origin\"" ++ ',' :: v) = ok { sr with lat0 := r }
    ∧ parseWKTParameter sr (s "\"latitude_of_center\"" ++ ',' :: v) = ok { sr with lat0 := r }
    ∧ parseWKTParameter sr (s "\"standard_parallel_1\"" ++ ',' :: v) = ok { sr with lat1 := r }
    ∧ parseWKTParameter sr (s "\"Standard_Parallel_1\"" ++ ',' :: v) = ok { sr with lat1 := r }
    ∧ parseWKTParameter sr (s "\"standard_parallel_2\"" ++ ',' :: v) = ok { sr with lat2 := r }
    ∧ parseWKTParameter sr (s "\"Standard_Parallel_2\"" ++ ',' :: v) = ok { sr with lat2 := r }
    ∧ parseWKTParameter sr (s "\"scale_factor\"" ++ ',' :: v) = ok { sr with k0 := x }
    ∧ parseWKTParameter sr (s "\"Scale_Factor\"" ++ ',' :: v) = ok { sr with k0 := x } := by
  intro r
  refine ⟨?_, ?_, ?_, ?_, ?_, ?_, ?_, ?_, ?_, ?_, ?_, ?_, ?_, ?_, ?_, ?_⟩ <;>
    (rw [param_apply sr _ v _ x (by decide) hv hx rfl]; rfl)

theorem wktFinish_origin (sr : SR XR) :
    (wktFinish sr).x0 = Num.mul sr.x0 sr.toMeter ∧ (wktFinish sr).y0 = Num.mul sr.y0 sr.toMeter ∧ (wktFinish sr).toMeter = sr.toMeter := by
  unfold wktFinish
  simp only []
  refine ⟨?_, ?_, ?_⟩ <;> (repeat' split) <;> rfl

/-- **C20_wkt_false_origin_metres** — whatever the sections wrote, `wkt` returns the false origin
multiplied by the linear unit's factor (the WKT false origin is stated in the declared unit, the
transformer works in metres); the scaling happens AFTER all sections have been read, so the clause
order of the text cannot matter. -/
theorem C20_wkt_false_origin_metres (w : Str) (r : SR XR) (h : wkt (α := XR) w = .ok r) :
    let p := (parseWKTSection (α := XR) (w.length + 1) [] w newSR).1
    r.x0 = Num.mul p.x0 p.toMeter ∧ r.y0 = Num.mul p.y0 p.toMeter ∧ r.toMeter = p.toMeter := by
  unfold wkt at h
  simp only [] at h
  split at h
  · exact absurd h (by simp)
  · injection h with h
    subst h
    exact wktFinish_origin _

end GeomV.C20
