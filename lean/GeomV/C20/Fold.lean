import GeomV.C20.Model
/-!
# `strings.EqualFold` (core Lean only)

`checkNotWGS` of transform.go (after fix b165df1) tests `!strings.EqualFold(dest.DatumCode, "WGS84")`.
Go's `EqualFold` compares rune by rune under Unicode SIMPLE case folding.  For a pair of runes of which one is
ASCII the folding orbits are: `{X, x}` for every ASCII letter, plus the two three-element orbits
`{K, k, U+212A KELVIN SIGN}` and `{S, s, U+017F LATIN SMALL LETTER LONG S}`; every other ASCII rune folds only to
itself.  `foldEq c t` is that relation for an ASCII `t` (the only use: the second operand is the constant `"WGS84"`); `equalFold` is the rune-by-rune walk (both strings must end together).
-/
namespace GeomV.C20

/-- one rune `c` against an ASCII rune `t` under simple case folding: equal, or the other ASCII case of `t`, or the
non-ASCII member of `t`'s orbit (Kelvin sign for `K`/`k`, long s for `S`/`s`) -/
def foldEq (c t : Char) : Bool :=
  c == t || (t.isUpper && c == t.toLower) || (t.isLower && c == t.toUpper)
    || ((t == 'K' || t == 'k') && c == Char.ofNat 0x212A)
    || ((t == 'S' || t == 's') && c == Char.ofNat 0x17F)

/-- `strings.EqualFold(s, t)` -/
def equalFold : Str → Str → Bool
  | [], [] => true
  | a :: s, b :: t => foldEq a b && equalFold s t
  | _, _ => false

/-- `EqualFold` is implied by `==` -/
theorem equalFold_refl (x : Str) : equalFold x x = true := by
  induction x with
  | nil => rfl
  | cons a x ih => simp [equalFold, foldEq, ih]

theorem equalFold_of_eq {x y : Str} (h : x = y) : equalFold x y = true := h ▸ equalFold_refl x

example : equalFold (s "wgs84") (s "WGS84") = true ∧ equalFold (s "WGS84") (s "WGS84") = true ∧ equalFold (s "Wgs84") (s "WGS84") = true
    ∧ equalFold (s "wgs_84") (s "WGS84") = false ∧ equalFold (s "wgs8") (s "WGS84") = false ∧ equalFold (s "wgs844") (s "WGS84") = false
    ∧ equalFold [] (s "WGS84") = false ∧ equalFold (s "wgs72") (s "WGS84") = false
    ∧ equalFold ['w', 'g', Char.ofNat 0x17F, '8', '4'] (s "WGS84") = true := by decide

end GeomV.C20
