import GeomV.C20.StrLemmas
/-!
# The PROJ.4 tokenizer reads back what `renderP4` writes

`projString (renderP4 toks) = parseProj4Toks (toks.map p4KV)` for token lists over the renderers'
alphabet: keys of lower-case letters, digits and `_`; values without `+` and `=` that neither start
nor end with a blank.  Independent of `Crs`.
-/
set_option linter.unusedSimpArgs false
set_option linter.unusedVariables false
namespace GeomV.C20

def keyChar (c : Char) : Bool := ('a' ≤ c && c ≤ 'z') || ('0' ≤ c && c ≤ '9') || c = '_'

def keyOK (k : Str) : Bool := !k.isEmpty && k.all keyChar

def valOK (v : Str) : Bool := v.all (fun c => c != '+' && c != '=') && edgeOK isSpace v

def tokOK (t : P4Tok) : Bool := keyOK t.1 && (match t.2 with | some v => valOK v | none => true)

theorem keyChar_props (c : Char) (h : keyChar c = true) :
    c ≠ '+' ∧ c ≠ '=' ∧ isSpace c = false ∧ (!('A' ≤ c && c ≤ 'Z')) = true := by
  refine ⟨?_, ?_, ?_, ?_⟩
  · intro e; subst e; revert h; decide
  · intro e; subst e; revert h; decide
  · unfold isSpace
    simp only [Bool.or_eq_false_iff, decide_eq_false_iff_not]
    refine ⟨⟨⟨⟨⟨?_, ?_⟩, ?_⟩, ?_⟩, ?_⟩, ?_⟩ <;> (intro e; subst e; revert h; decide)
  · unfold keyChar at h
    simp only [Bool.or_eq_true, Bool.and_eq_true, decide_eq_true_eq] at h
    simp only [Bool.not_eq_true', Bool.and_eq_false_iff, decide_eq_false_iff_not, Char.not_le]
    rcases h with (h | h) | h
    · right; exact Std.lt_of_lt_of_le (by decide : 'Z' < 'a') h.1
    · left; exact Std.lt_of_le_of_lt h.2 (by decide : '9' < 'A')
    · subst h; right; decide

theorem key_facts (k : Str) (h : keyOK k = true) :
    '+' ∉ k ∧ '=' ∉ k ∧ toLower k = k ∧ ∃ x r, k = x :: r ∧ isSpace x = false ∧ (∀ y q, k = q ++ [y] → isSpace y = false) := by
  unfold keyOK at h
  simp only [Bool.and_eq_true, Bool.not_eq_true', List.all_eq_true] at h
  obtain ⟨hne, hall⟩ := h
  refine ⟨fun hm => (keyChar_props _ (hall _ hm)).1 rfl, fun hm => (keyChar_props _ (hall _ hm)).2.1 rfl, ?_, ?_⟩
  · apply toLower_id
    rw [List.all_eq_true]
    intro c hc
    exact (keyChar_props c (hall c hc)).2.2.2
  · cases k with
    | nil => simp at hne
    | cons x r =>
      refine ⟨x, r, rfl, (keyChar_props x (hall x (by simp))).2.2.1, ?_⟩
      intro y q e
      exact (keyChar_props y (hall y (by rw [e]; simp))).2.2.1

theorem trim_of_edges (p : Char → Bool) (t : Str) (x : Char) (r : Str) (y : Char) (q : Str)
    (e1 : t = x :: r) (e2 : t = q ++ [y]) (hx : p x = false) (hy : p y = false) : trim p t = t := by
  unfold trim
  rw [e1, trimLeft_head p x r hx, ← e1, e2, trimRight_last p q y hy]

theorem trim_of_edges_snoc (p : Char → Bool) (t : Str) (x : Char) (r : Str) (y : Char) (q : Str) (z : Char)
    (e1 : t = x :: r) (e2 : t = q ++ [y]) (hx : p x = false) (hy : p y = false) (hz : p z = true) : trim p (t ++ [z]) = t := by
  unfold trim
  have : trimLeft p (t ++ [z]) = t ++ [z] := by rw [e1]; exact trimLeft_head p x _ hx
  rw [this]
  unfold trimRight
  rw [List.reverse_append]
  simp only [List.reverse_cons, List.reverse_nil, List.nil_append, List.singleton_append]
  rw [trimLeft_skip p z _ hz, e2, List.reverse_append]
  simp [trimLeft, hy]

/-- the edges of a token body -/
theorem body_edges (t : P4Tok) (h : tokOK t = true) :
    ∃ x r y q, p4Body t = x :: r ∧ p4Body t = q ++ [y] ∧ isSpace x = false ∧ isSpace y = false := by
  unfold tokOK at h
  simp only [Bool.and_eq_true] at h
  obtain ⟨_, _, _, x, r, ek, hx, hlast⟩ := key_facts t.1 h.1
  cases hv : t.2 with
  | none =>
    have hne : t.1 ≠ [] := by rw [ek]; simp
    refine ⟨x, r, t.1.getLast hne, t.1.dropLast, ?_, ?_, hx, ?_⟩
    · simp [p4Body, hv, ek]
    · simp [p4Body, hv, List.dropLast_concat_getLast hne]
    · exact hlast _ _ (List.dropLast_concat_getLast hne).symm
  | some v =>
    have hvo := h.2
    rw [hv] at hvo
    unfold valOK at hvo
    simp only [Bool.and_eq_true] at hvo
    obtain ⟨x', r', y, q, e1, e2, _, hy⟩ := edgeOK_cons isSpace v hvo.2
    refine ⟨x, r ++ '=' :: v, y, t.1 ++ '=' :: q, ?_, ?_, hx, hy⟩
    · simp [p4Body, hv, ek]
    · simp [p4Body, hv]; rw [e2]

theorem splitOn_body (t : P4Tok) (h : tokOK t = true) :
    splitOn '=' (p4Body t) = match t.2 with | some v => [t.1, v] | none => [t.1] := by
  unfold tokOK at h
  simp only [Bool.and_eq_true] at h
  obtain ⟨_, heq, _, _⟩ := key_facts t.1 h.1
  cases hv : t.2 with
  | none => simp [p4Body, hv, splitOn_nosep '=' t.1 heq]
  | some v =>
    have hvo := h.2
    rw [hv] at hvo
    unfold valOK at hvo
    simp only [Bool.and_eq_true, List.all_eq_true, bne_iff_ne, ne_eq] at hvo
    have hveq : '=' ∉ v := fun hm => (hvo.1 _ hm).2 rfl
    simp [p4Body, hv, splitOn_append_sep '=' v t.1 heq, splitOn_nosep '=' v hveq]

theorem itemKV_body (t : P4Tok) (h : tokOK t = true) :
    itemKV (p4Body t) = p4KV t ∧ itemKV (p4Body t ++ [' ']) = p4KV t := by
  obtain ⟨x, r, y, q, e1, e2, hx, hy⟩ := body_edges t h
  have t1 : trimSpace (p4Body t) = p4Body t := trim_of_edges isSpace _ x r y q e1 e2 hx hy
  have t2 : trimSpace (p4Body t ++ [' ']) = p4Body t := trim_of_edges_snoc isSpace _ x r y q ' ' e1 e2 hx hy (by decide)
  have hk : toLower t.1 = t.1 := by
    unfold tokOK at h
    simp only [Bool.and_eq_true] at h
    exact (key_facts t.1 h.1).2.2.1
  have main : (toLower ((splitOn '=' (p4Body t) ++ [s "true"]).headD []), ((splitOn '=' (p4Body t) ++ [s "true"]).drop 1).headD []) = p4KV t := by
    rw [splitOn_body t h]
    cases hv : t.2 <;> simp [p4KV, hv, hk]
  constructor
  · unfold itemKV; rw [t1]; exact main
  · unfold itemKV; rw [t2]; exact main

/-- the pieces between the `+` signs of a rendered token list -/
def segs : List P4Tok → List Str
  | [] => []
  | [t] => [p4Body t]
  | t :: r => (p4Body t ++ [' ']) :: segs r

theorem body_noplus (t : P4Tok) (h : tokOK t = true) : '+' ∉ p4Body t := by
  unfold tokOK at h
  simp only [Bool.and_eq_true] at h
  obtain ⟨hp, _, _, _⟩ := key_facts t.1 h.1
  cases hv : t.2 with
  | none => simpa [p4Body, hv] using hp
  | some v =>
    have hvo := h.2
    rw [hv] at hvo
    unfold valOK at hvo
    simp only [Bool.and_eq_true, List.all_eq_true, bne_iff_ne, ne_eq] at hvo
    have : '+' ∉ v := fun hm => (hvo.1 _ hm).1 rfl
    simp [p4Body, hv, hp, this]

theorem splitOn_render : ∀ toks : List P4Tok, toks.all tokOK = true → toks ≠ [] →
    splitOn '+' (renderP4 toks) = [] :: segs toks
  | [], _, h => absurd rfl h
  | [t], h, _ => by
    simp only [List.all_cons, List.all_nil, Bool.and_true] at h
    simp [renderP4, segs, splitOn, splitOn_nosep '+' _ (body_noplus t h)]
  | t :: t' :: r, h, _ => by
    simp only [List.all_cons, Bool.and_eq_true] at h
    have ih := splitOn_render (t' :: r) (by simp [h.2.1, h.2.2]) (by simp)
    have hb := body_noplus t h.1
    have hb' : '+' ∉ p4Body t ++ [' '] := by simp [hb]
    -- renderP4 (t' :: r) begins with '+'
    have hstart : ∃ Y, renderP4 (t' :: r) = '+' :: Y := by
      cases r <;> exact ⟨_, rfl⟩
    obtain ⟨Y, hY⟩ := hstart
    have e : renderP4 (t :: t' :: r) = '+' :: ((p4Body t ++ [' ']) ++ '+' :: Y) := by
      simp [renderP4, hY]
    rw [hY] at ih
    simp only [splitOn, if_true] at ih
    have ihY : splitOn '+' Y = segs (t' :: r) := by
      have := ih
      simp at this
      exact this
    rw [e]
    simp only [splitOn, if_true]
    rw [splitOn_append_sep '+' Y _ hb', ihY]
    simp [segs]

section fold
variable {α : Type} [Num α]

theorem foldItems_segs : ∀ (toks : List P4Tok) (sr : SR α), toks.all tokOK = true →
    foldItems sr (segs toks) = foldKVs sr (toks.map p4KV)
  | [], sr, _ => rfl
  | [t], sr, h => by
    simp only [List.all_cons, List.all_nil, Bool.and_true] at h
    simp [segs, foldItems, foldKVs, projItem, (itemKV_body t h).1]
  | t :: t' :: r, sr, h => by
    simp only [List.all_cons, Bool.and_eq_true] at h
    have ih := fun sr' => foldItems_segs (t' :: r) sr' (by simp [h.2.1, h.2.2])
    simp only [segs, foldItems, List.map_cons, foldKVs, projItem, (itemKV_body t h.1).2]
    cases hres : projKV sr (p4KV t).1 (p4KV t).2 with
    | error e => simp [bind, Except.bind]
    | ok sr' =>
      simp only [bind, Except.bind]
      have := ih sr'
      rw [this]
      simp [foldKVs, bind, Except.bind]

/-- **tokenizer round trip (PROJ.4)** -/
theorem projString_render (toks : List P4Tok) (h : toks.all tokOK = true) :
    projString (α := α) (renderP4 toks) = parseProj4Toks (toks.map p4KV) := by
  unfold projString parseProj4Toks
  cases toks with
  | nil => simp [renderP4, splitOn, foldItems, foldKVs]
  | cons t r =>
    rw [splitOn_render (t :: r) h (by simp)]
    simp only [List.drop_succ_cons, List.drop_zero]
    rw [foldItems_segs (t :: r) newSR h]

end fold

end GeomV.C20
