import GeomV.C20.WktLex
import GeomV.C20.P4Sem
/-!
# WKT leaf sections on rendered argument lists (text level, both separators)
-/
set_option linter.unusedSimpArgs false
set_option linter.unusedVariables false
namespace GeomV.C20
open Num

/-! ## fields of a rendered leaf -/

/-- the first two fields of `A , B tail` -/
theorem fields_two (A B tl : Str) (hA : ',' ∉ A) (hB : ',' ∉ B) (htl : tl = [] ∨ ∃ X, tl = ',' :: X) :
    (splitOn ',' (A ++ ',' :: (B ++ tl))).headD [] = A ∧ (splitOn ',' (A ++ ',' :: (B ++ tl)))[1]? = some B := by
  rw [splitOn_append_sep ',' _ A hA]
  rcases htl with rfl | ⟨X, rfl⟩
  · simp [splitOn_nosep ',' B hB]
  · rw [splitOn_append_sep ',' X B hB]
    simp

theorem fields_three (A B C tl : Str) (hA : ',' ∉ A) (hB : ',' ∉ B) (hC : ',' ∉ C) (htl : tl = [] ∨ ∃ X, tl = ',' :: X) :
    (splitOn ',' (A ++ ',' :: (B ++ ',' :: (C ++ tl)))).headD [] = A ∧
    (splitOn ',' (A ++ ',' :: (B ++ ',' :: (C ++ tl))))[1]? = some B ∧
    (splitOn ',' (A ++ ',' :: (B ++ ',' :: (C ++ tl))))[2]? = some C := by
  rw [splitOn_append_sep ',' _ A hA, splitOn_append_sep ',' _ B hB]
  rcases htl with rfl | ⟨X, rfl⟩
  · simp [splitOn_nosep ',' C hC]
  · rw [splitOn_append_sep ',' X C hC]
    simp

/-- a numeral behind the separator's blank (or not) trims to the numeral -/
theorem trim_num (sp : Bool) (d : Dec) (h : NumOK d) : trimSpace (spOf sp ++ renderDec d) = renderDec d := by
  have ha := h.alpha
  rw [List.all_eq_true] at ha
  obtain ⟨x, r, e1⟩ := List.exists_cons_of_ne_nil h.ne
  have e2 : renderDec d = (renderDec d).dropLast ++ [(renderDec d).getLast h.ne] := (List.dropLast_concat_getLast h.ne).symm
  have hx : isSpace x = false := (numCh_ne x (ha x (by rw [e1]; simp))).2.2.2
  have hy : isSpace ((renderDec d).getLast h.ne) = false := (numCh_ne _ (ha _ (List.getLast_mem h.ne))).2.2.2
  cases sp
  · exact trim_of_edges' isSpace _ x r _ _ e1 e2 hx hy
  · exact trim_cons_of_edges isSpace _ x r _ _ ' ' e1 e2 hx hy (by decide)

theorem nocomma_sp (sp : Bool) (d : Dec) (h : NumOK d) : ',' ∉ spOf sp ++ renderDec d := by
  have := nocomma d h
  cases sp <;> simp [spOf, this]

/-- a quoted text -/
def quoted (t : String) : Str := '"' :: t.toList ++ ['"']

theorem quoted_nocomma (t : String) (h : txtOK t.toList = true) : ',' ∉ quoted t := by
  have := (simple_text [] (.q t) rfl (by simpa [WArg.clean] using h)).2
  simpa [renderArg, quoted] using this

/-! ## the text of a two/three-field leaf with an optional trailing AUTHORITY -/

theorem leaf2_text (sp : Bool) (a : String) (b : Dec) (auth : List WArg) (hauth : auth = [] ∨ ∃ z, auth = [z]) :
    ∃ tl, renderArgs (sepOf sp) ([.q a, .num b] ++ auth) = quoted a ++ ',' :: ((spOf sp ++ renderDec b) ++ tl) ∧
      (tl = [] ∨ ∃ X, tl = ',' :: X) := by
  rcases hauth with rfl | ⟨z, rfl⟩
  · exact ⟨[], by simp [renderArgs, renderArg, quoted, sepOf_eq], Or.inl rfl⟩
  · exact ⟨',' :: (spOf sp ++ renderArg (sepOf sp) z), by simp [renderArgs, renderArg, quoted, sepOf_eq], Or.inr ⟨_, rfl⟩⟩

theorem leaf3_text (sp : Bool) (a : String) (b c : Dec) (auth : List WArg) (hauth : auth = [] ∨ ∃ z, auth = [z]) :
    ∃ tl, renderArgs (sepOf sp) ([.q a, .num b, .num c] ++ auth) =
        quoted a ++ ',' :: ((spOf sp ++ renderDec b) ++ ',' :: ((spOf sp ++ renderDec c) ++ tl)) ∧
      (tl = [] ∨ ∃ X, tl = ',' :: X) := by
  rcases hauth with rfl | ⟨z, rfl⟩
  · exact ⟨[], by simp [renderArgs, renderArg, quoted, sepOf_eq], Or.inl rfl⟩
  · exact ⟨',' :: (spOf sp ++ renderArg (sepOf sp) z), by simp [renderArgs, renderArg, quoted, sepOf_eq], Or.inr ⟨_, rfl⟩⟩

/-! ## leaf handlers -/

/-- the unit name as `parseWKTUnit` stores it -/
def unitNameOf (u : String) : Str :=
  let x := trim isQuote (toLower (quoted u))
  if x = s "metre" then s "meter" else x

theorem unit_leaf (sp : Bool) (sr : SR XR) (u : String) (d : Dec) (hu : txtOK u.toList = true) (hd : NumOK d)
    (auth : List WArg) (hauth : auth = [] ∨ ∃ z, auth = [z]) :
    parseWKTUnit sr (renderArgs (sepOf sp) ([.q u, .num d] ++ auth)) =
      ok { sr with units := unitNameOf u, toMeter := if sr.name = s "longlat" then Num.mul (some d.toRat) sr.a else some d.toRat } := by
  obtain ⟨tl, e, htl⟩ := leaf2_text sp u d auth hauth
  obtain ⟨f0, f1⟩ := fields_two (quoted u) (spOf sp ++ renderDec d) tl (quoted_nocomma u hu) (nocomma_sp sp d hd) htl
  unfold parseWKTUnit
  rw [e]
  simp only [f0, f1, trim_num sp d hd, hd.read]
  rfl

/-- the parameter name as `parseWKTParameter` computes it -/
def paramNameOf (nm : String) : Str := trim isQuote (toLower (quoted nm))

theorem param_leaf (sp : Bool) (sr : SR XR) (nm : String) (d : Dec) (hn : txtOK nm.toList = true) (hd : NumOK d) :
    parseWKTParameter sr (renderArgs (sepOf sp) [.q nm, .num d]) = paramSet sr (paramNameOf nm) (some d.toRat) := by
  obtain ⟨tl, e, htl⟩ := leaf2_text sp nm d [] (Or.inl rfl)
  obtain ⟨f0, f1⟩ := fields_two (quoted nm) (spOf sp ++ renderDec d) tl (quoted_nocomma nm hn) (nocomma_sp sp d hd) htl
  unfold parseWKTParameter
  simp only [List.append_nil] at e
  rw [e]
  simp only [f0, f1, trim_num sp d hd, hd.read]
  rfl

theorem primem_leaf (sp : Bool) (sr : SR XR) (d : Dec) (hd : NumOK d) (auth : List WArg) (hauth : auth = [] ∨ ∃ z, auth = [z]) :
    parseWKTPrimeM sr (renderArgs (sepOf sp) ([.q "Greenwich", .num d] ++ auth)) = ok sr := by
  obtain ⟨tl, e, htl⟩ := leaf2_text sp "Greenwich" d auth hauth
  obtain ⟨f0, _⟩ := fields_two (quoted "Greenwich") (spOf sp ++ renderDec d) tl (quoted_nocomma _ (by decide)) (nocomma_sp sp d hd) htl
  unfold parseWKTPrimeM
  rw [e]
  simp only [f0]
  rfl

/-- the ellipsoid name as `parseWKTSpheroid` stores it -/
def ellpsOf (n : String) : Str :=
  let e := trim isQuote (quoted n)
  let e := replaceAll (s "_19") [] e.length e
  let e := replaceAll (s "clarke_18") (s "clrk") e.length e
  let e := replaceAll (s "Clarke_18") (s "clrk") e.length e
  if e.length ≥ 13 && toLower (e.take 13) = s "international" then s "intl" else e

theorem spheroid_leaf (sp : Bool) (sr : SR XR) (n : String) (a rf : Dec) (hn : txtOK n.toList = true) (ha : NumOK a) (hrf : NumOK rf)
    (auth : List WArg) (hauth : auth = [] ∨ ∃ z, auth = [z]) (hdc : containsSub sr.datumCode (s "osgb_1936") = false) :
    parseWKTSpheroid sr (renderArgs (sepOf sp) ([.q n, .num a, .num rf] ++ auth)) =
      ok { sr with ellps := ellpsOf n, a := some a.toRat, rf := some rf.toRat } := by
  obtain ⟨tl, e, htl⟩ := leaf3_text sp n a rf auth hauth
  obtain ⟨f0, f1, f2⟩ := fields_three (quoted n) (spOf sp ++ renderDec a) (spOf sp ++ renderDec rf) tl (quoted_nocomma n hn)
    (nocomma_sp sp a ha) (nocomma_sp sp rf hrf) htl
  unfold parseWKTSpheroid
  rw [e]
  simp only [f0, f1, f2, trim_num sp a ha, trim_num sp rf hrf, ha.read, hrf.read, hdc]
  rfl

/-! ## PROJECTION -/

theorem trim_quoted (p : Char → Bool) (hq : p '"' = true) (t : Str) (x : Char) (r : Str) (y : Char) (q : Str)
    (e1 : t = x :: r) (e2 : t = q ++ [y]) (hx : p x = false) (hy : p y = false) : trim p ('"' :: t ++ ['"']) = t := by
  unfold trim
  have h1 : trimLeft p ('"' :: t ++ ['"']) = t ++ ['"'] := by
    show trimLeft p ('"' :: (t ++ ['"'])) = _
    rw [trimLeft_skip p '"' _ hq, e1]
    exact trimLeft_head p x _ hx
  rw [h1]
  unfold trimRight
  rw [List.reverse_append]
  simp only [List.reverse_cons, List.reverse_nil, List.nil_append, List.singleton_append]
  rw [trimLeft_skip p '"' _ hq, e2, List.reverse_append]
  simp [trimLeft, hy]

/-- a text whose first and last characters are letters, digits or `_` (any case) -/
def wordEdges (t : Str) : Prop := ∃ x r y q, t = x :: r ∧ t = q ++ [y] ∧ x ≠ '"' ∧ x ≠ ' ' ∧ y ≠ '"' ∧ y ≠ ' '

theorem projection_leaf (sp : Bool) (sr : SR XR) (pn : String) (hp : txtOK pn.toList = true) (he : wordEdges pn.toList)
    (auth : List WArg) (hauth : auth = [] ∨ ∃ z, auth = [z]) :
    parseWKTProjection sr (renderArgs (sepOf sp) ([.q pn] ++ auth)) = { sr with name := pn.toList } := by
  obtain ⟨x, r, y, q, e1, e2, hx1, hx2, hy1, hy2⟩ := he
  have hnc := quoted_nocomma pn hp
  unfold parseWKTProjection
  rcases hauth with rfl | ⟨z, rfl⟩
  · have e : renderArgs (sepOf sp) ([.q pn] ++ []) = quoted pn := by simp [renderArgs, renderArg, quoted]
    rw [e]
    have hc : (quoted pn).contains ',' = false := by
      cases h : (quoted pn).contains ',' with
      | false => rfl
      | true => exact absurd (List.contains_iff_mem.mp h) hnc
    rw [if_neg (by simp [hc, hnc])]
    have := trim_quoted isQuote (by decide) pn.toList x r y q e1 e2 (by simp [isQuote, hx1]) (by simp [isQuote, hy1])
    simp only [quoted]
    rw [this]
  · have e : renderArgs (sepOf sp) ([.q pn] ++ [z]) = quoted pn ++ ',' :: (spOf sp ++ renderArg (sepOf sp) z) := by
      simp [renderArgs, renderArg, quoted, sepOf_eq]
    rw [e]
    have hc : (quoted pn ++ ',' :: (spOf sp ++ renderArg (sepOf sp) z)).contains ',' = true := by simp [List.contains_iff_mem]
    rw [if_pos hc, splitOn_append_sep ',' _ _ hnc]
    have := trim_quoted isQuoteOrSpace (by decide) pn.toList x r y q e1 e2 (by simp [isQuoteOrSpace, hx1, hx2]) (by simp [isQuoteOrSpace, hy1, hy2])
    simp only [List.headD_cons, quoted]
    rw [this]

/-! ## TOWGS84 -/

theorem splitOn_nums (sp : Bool) : ∀ (d : Dec) (r : List Dec), (∀ x ∈ d :: r, NumOK x) →
    splitOn ',' (renderArgs (sepOf sp) ((d :: r).map .num)) = renderDec d :: r.map (fun x => spOf sp ++ renderDec x)
  | d, [], h => by simp [renderArgs, renderArg, splitOn_nosep ',' _ (nocomma d (h d (by simp)))]
  | d, d' :: r, h => by
    have ih := splitOn_nums sp d' r (fun x hx => h x (by simp [hx]))
    have hd := nocomma d (h d (by simp))
    have hsp : splitOn ',' (spOf sp ++ renderArgs (sepOf sp) ((d' :: r).map .num)) =
        (spOf sp ++ renderDec d') :: r.map (fun x => spOf sp ++ renderDec x) := by
      cases sp
      · simpa [spOf] using ih
      · -- a blank in front of the first piece
        have : ∀ T : Str, splitOn ',' (' ' :: T) = match splitOn ',' T with | [] => [[' ']] | a :: t => (' ' :: a) :: t := by
          intro T; simp [splitOn]; rfl
        simp only [spOf, if_true, List.singleton_append] at ih ⊢
        rw [this, ih]
    simp only [List.map_cons, renderArgs, renderArg, sepOf_eq, List.append_assoc, List.cons_append] at hsp ⊢
    rw [splitOn_append_sep ',' _ _ hd]
    simpa using hsp

theorem towgs_go (sp : Bool) (sr : SR XR) : ∀ (ds : List Dec) (done : List XR) (pre : Dec → Str),
    (∀ x ∈ ds, NumOK x ∧ trimSpace (pre x) = renderDec x) →
    parseWKTTowgs84.go sr done (ds.map pre) = ok { sr with datumParams := done ++ ds.map fun d => some d.toRat }
  | [], done, pre, _ => by simp [parseWKTTowgs84.go]
  | d :: r, done, pre, h => by
    have hd := h d (by simp)
    simp only [List.map_cons, parseWKTTowgs84.go, hd.2, hd.1.read]
    rw [towgs_go sp sr r (done ++ [some d.toRat]) pre (fun x hx => h x (by simp [hx]))]
    simp

theorem towgs_leaf (sp : Bool) (sr : SR XR) (ds : List Dec) (hne : ds ≠ []) (h : ∀ x ∈ ds, NumOK x) :
    parseWKTTowgs84 sr (renderArgs (sepOf sp) (ds.map .num)) = ok { sr with datumParams := ds.map fun d => some d.toRat } := by
  obtain ⟨d, r, rfl⟩ := List.exists_cons_of_ne_nil hne
  unfold parseWKTTowgs84
  rw [splitOn_nums sp d r h]
  have h1 : parseWKTTowgs84.go sr [] (renderDec d :: r.map (fun x => spOf sp ++ renderDec x)) =
      parseWKTTowgs84.go sr [some d.toRat] (r.map (fun x => spOf sp ++ renderDec x)) := by
    have := trim_num false d (h d (by simp))
    simp only [spOf, Bool.false_eq_true, if_false, List.nil_append] at this
    simp [parseWKTTowgs84.go, this, (h d (by simp)).read]
  rw [h1, towgs_go sp sr r [some d.toRat] (fun x => spOf sp ++ renderDec x)
    (fun x hx => ⟨h x (by simp [hx]), trim_num sp x (h x (by simp [hx]))⟩)]
  simp

end GeomV.C20
