import GeomV.C20.WktFull
import GeomV.C20.DeriveArith
/-!
# C20_parse_agree for ALL descriptions

Composition of
* the two lexer round trips (`projString_render`, `parseWKTSection_render`: text-level parser on a
  rendering = token-level parser on the tokens, independent of `Crs`),
* the token-level semantics (`foldKVs_toks`/`p4_coreOK`, `sections_toks`/`wkt_coreOK`),
* `DeriveConstants` + `getDatum` (`derive_view`).
The only hypothesis beyond `wellFormed` and a meaning-preserving style is the numeral contract
`numeralsRead c` (strconv.ParseFloat reads the decimals of `c` as written) — decidable, evaluated by
the judge on every generated case.
-/
set_option linter.unusedSimpArgs false
set_option linter.unusedVariables false
namespace GeomV.C20
open Num

/-- the style changes spelling and clause order only -/
def styleOK (st : Style) : Bool := st.leaveOut == 0 && decide (st.unitPos ≤ 2)

theorem View.beq_refl (v : View XR) : v.beq v = true := by
  unfold View.beq
  simp

theorem isView_of (r : Except Err (SR XR)) (e : View XR) (sr : SR XR) (h1 : r = .ok sr) (h2 : view sr = some e) : isView r e = true := by
  unfold isView
  rw [h1]
  simp only [h2]
  exact View.beq_refl e

theorem wf_spheroid (c : Crs) (hw : wellFormed c = true) : SpheroidFacts c.a.toRat c.rf.toRat := by
  obtain ⟨h1, h2, h3, _⟩ := wf_parts c hw
  exact spheroid_facts _ _ h1 h2 h3

/-- **C20_parse_agree** — for EVERY well-formed description `c` (all kinds, units, datum flavours and
numerals) and every meaning-preserving style `st` (all spellings and clause orders), the PROJ.4 text
and the WKT text of `c` both parse, and every field a transformer reads (projection up to the alias
table, Lat0/1/2, Long0, K0, X0/Y0 in metres, A, B, Rf, Es, Ep2, sphere, ToMeter, axis, datum type,
datum parameters, datum ellipsoid) equals `expected c` as an exact rational — at STRING level, through
the model of `proj.Parse`.  Hypothesis: the numeral contract `numeralsRead c`. -/
theorem C20_parse_agree (c : Crs) (st : Style) (hw : wellFormed c = true) (hst : styleOK st = true)
    (hn : numeralsRead c = true) : agree c st = true := by
  unfold styleOK at hst
  simp only [Bool.and_eq_true, beq_iff_eq, decide_eq_true_eq] at hst
  have hf := wf_spheroid c hw
  obtain ⟨r1, hp1, hv1, _⟩ := p4_parse_agree c st hw hn hst.1 hf
  obtain ⟨r2, hp2, hv2, _⟩ := wkt_parse_agree c st hw hn hst.1 hst.2 hf
  unfold agree
  rw [isView_of _ _ r1 hp1 hv1, isView_of _ _ r2 hp2 hv2]
  rfl

/-- **C20_parse_agree_tokens** — the same at TOKEN level: the token-level parsers on the token list /
tree of the description (no text involved except inside the leaf sections) deliver `expected c`. -/
theorem C20_parse_agree_tokens (c : Crs) (st : Style) (hw : wellFormed c = true) (hst : styleOK st = true)
    (hn : numeralsRead c = true) :
    (∃ r, (parseProj4Toks (α := XR) ((toProj4Toks c st).map p4KV) >>= deriveConstants) = .ok r ∧ view r = some (expected c)) ∧
    (∃ r, (parseWktToks (α := XR) (wktSep st) (toWktTree c st) >>= deriveConstants) = .ok r ∧ view r = some (expected c)) := by
  unfold styleOK at hst
  simp only [Bool.and_eq_true, beq_iff_eq, decide_eq_true_eq] at hst
  have hf := wf_spheroid c hw
  have hnum : ∀ d ∈ decsOf c, NumOK d := numOK_mem c hn
  obtain ⟨_, _, _, _, _, hdw⟩ := wf_parts c hw
  constructor
  · have htok : parseProj4Toks (α := XR) ((toProj4Toks c st).map p4KV) = .ok (lowerDatum (effAll c st newSR)) := by
      unfold parseProj4Toks
      rw [foldKVs_toks c st hst.1 hdw hnum]
      rfl
    rw [htok]
    obtain ⟨r, h1, h2, _⟩ := derive_view c _ hf hdw (p4_coreOK c st hw)
    exact ⟨r, h1, h2⟩
  · have hsec := sections_toks st.spaces c st hnum hdw hst.1 hst.2 (toWktTree c st).depth
    have htok : parseWktToks (α := XR) (wktSep st) (toWktTree c st) = .ok (wktFinish (wktRaw c st)) := by
      unfold parseWktToks
      rw [wktSep_eq, hsec]
      rfl
    rw [htok]
    obtain ⟨r, h1, h2, _⟩ := derive_view c _ hf hdw (wkt_coreOK c st hw)
    exact ⟨r, h1, h2⟩

/-- **C20_lex_proj4** — tokenizer round trip, independent of `Crs`: on the rendering of any token list
over the lexer's alphabet the text-level `projString` is the token-level parser -/
theorem C20_lex_proj4 (toks : List P4Tok) (h : toks.all tokOK = true) :
    projString (α := XR) (renderP4 toks) = parseProj4Toks (toks.map p4KV) := projString_render toks h

/-- **C20_lex_wkt** — tokenizer round trip for the bracket matcher, independent of `Crs`: on the
rendering of any clean argument list (with either separator) the text-level `parseWKTSection` is the
token-level parser on the list -/
theorem C20_lex_wkt (sp : Bool) (fuel : Nat) (path : List Str) (as : List WArg) (sr : SR XR) (h : WArg.cleanL as = true) :
    parseWKTSectionG strOps fuel path (renderArgs (sepOf sp) as) sr = parseWKTSectionG (treeOps (sepOf sp)) fuel path as sr := by
  have := parseWKTSection_render (α := XR) sp fuel path [] as sr (Or.inl rfl) h
  simpa using this

/-- non-vacuity of the hypotheses: a US-foot Lambert with a 7-term shift satisfies all three -/
example : wellFormed (sample .lcc .usFootDec 1) = true ∧ styleOK { styleBusy with unitPos := 1 } = true ∧
    numeralsRead (sample .lcc .usFootDec 1) = true := by decide +kernel

end GeomV.C20
