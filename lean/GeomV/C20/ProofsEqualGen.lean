import GeomV.C20.ProofsEqual
/-!
# C20: `Equal` as a RELATION, stated on the REGENERATED walk (`genEqual`)

`genEqual` is `(*SR).Equal` put together from the pieces regenerated from Proj.go / datum.go on every run (field lists of
`SR` and `datum` in declaration order, the translated case bodies of `equal`).  For ALL references (parsed or not, with
or without a datum) and for any closeness test `close` (in the code: `scalar.EqualWithinULP(·,·,ulp)`):

* reflexive on every parse result (`C20_equal_gen_refl`) but NOT on a reference without a datum, e.g. `NewSR()` before
  `DeriveConstants` (`C20_equal_gen_not_refl_nil`: the Go code panics inside `reflect`);
* symmetric when `close` is (`C20_equal_gen_symm`);
* transitive when `close` is (`C20_equal_gen_trans`); NOT transitive when `close` is not, with a witness
  (`C20_equal_gen_not_trans`) — "within 3 ULP" is not: `x`, `x + 3 ulp`, `x + 6 ulp`.
-/
set_option linter.unusedSimpArgs false
set_option linter.unusedVariables false
namespace GeomV.C20
open Num

section
variable {α : Type} [Num α]

theorem genEqual_true_datum (close : α → α → Bool) (p q : SR α) (h : genEqual close p q = some true) :
    p.datum.isSome = true ∧ q.datum.isSome = true := by
  cases hp : p.datum with
  | none => exact absurd h ((C20_equal_regenerated close p q).2 (Or.inl hp))
  | some d =>
    cases hq : q.datum with
    | none => exact absurd h ((C20_equal_regenerated close p q).2 (Or.inr hq))
    | some e => exact ⟨rfl, rfl⟩

/-- **C20_equal_gen_refl** — parsing the same text twice gives references for which the REGENERATED `Equal` answers
true (clause "parsing the same text twice gives Equal references"). -/
theorem C20_equal_gen_refl (close : α → α → Bool) (h : ∀ x, close x x = true) (c : Str) (r1 r2 : SR α)
    (h1 : parse c = .ok r1) (h2 : parse c = .ok r2) : genEqual close r1 r2 = some true := by
  rw [(C20_equal_regenerated close r1 r2).1 (parse_datum c r1 h1) (parse_datum c r2 h2)]
  exact C20_equal_refl close h c r1 r2 h1 h2

/-- **C20_equal_gen_not_refl_nil** — on a reference that carries no datum (`NewSR()`, `&SR{}`: never through
`DeriveConstants`) `Equal` is NOT reflexive: `sr.Equal(sr, ulp)` never answers true (it panics in `reflect.Indirect(nil)
.NumField()` once the fields before `datum` have compared equal). -/
theorem C20_equal_gen_not_refl_nil (close : α → α → Bool) (p : SR α) (h : p.datum = none) :
    genEqual close p p ≠ some true := (C20_equal_regenerated close p p).2 (Or.inl h)

/-- **C20_equal_gen_symm** — for ALL references: the regenerated `Equal` answers true one way exactly when it does the
other way (when the closeness test is symmetric, as "within n ULP" is); on references with a datum the two answers are
the same value. -/
theorem C20_equal_gen_symm (close : α → α → Bool) (h : ∀ x y, close x y = close y x) (p q : SR α) :
    (genEqual close p q = some true ↔ genEqual close q p = some true)
    ∧ (p.datum.isSome → q.datum.isSome → genEqual close p q = genEqual close q p) := by
  have both : p.datum.isSome → q.datum.isSome → genEqual close p q = genEqual close q p := by
    intro hp hq
    rw [(C20_equal_regenerated close p q).1 hp hq, (C20_equal_regenerated close q p).1 hq hp]
    exact C20_equal_symm close h p q
  refine ⟨⟨fun e => ?_, fun e => ?_⟩, both⟩
  · obtain ⟨hp, hq⟩ := genEqual_true_datum close p q e
    rw [← both hp hq]; exact e
  · obtain ⟨hq, hp⟩ := genEqual_true_datum close q p e
    rw [both hp hq]; exact e

/-- **C20_equal_gen_trans** — the regenerated `Equal` is transitive on ALL references whenever the closeness test is. -/
theorem C20_equal_gen_trans (close : α → α → Bool) (ht : ∀ x y z, close x y = true → close y z = true → close x z = true)
    (p q r : SR α) (h1 : genEqual close p q = some true) (h2 : genEqual close q r = some true) :
    genEqual close p r = some true := by
  obtain ⟨hp, hq⟩ := genEqual_true_datum close p q h1
  obtain ⟨_, hr⟩ := genEqual_true_datum close q r h2
  rw [(C20_equal_regenerated close p q).1 hp hq] at h1
  rw [(C20_equal_regenerated close q r).1 hq hr] at h2
  rw [(C20_equal_regenerated close p r).1 hp hr]
  exact C20_equal_trans close ht p q r h1 h2

/-- **C20_equal_gen_not_trans** — where transitivity FAILS, with the witness: for any reflexive closeness test with
`x ~ y`, `y ~ z`, `x ≁ z` (non-NaN; for "within 3 ULP": `x`, `x + 3 ulp`, `x + 6 ulp`) the three references `flatSR y x`,
`flatSR y y`, `flatSR y z` (identical but for the origin latitude) satisfy: regenerated `Equal p q`, `Equal q r`, and
`Equal p r` answers false — `NewTransform` is nil for (p, q) and for (q, r) and a real transformer for (p, r). -/
theorem C20_equal_gen_not_trans (close : α → α → Bool) (hrefl : ∀ x, close x x = true) (x y z : α)
    (hx : isNaN x = false) (hy : isNaN y = false) (hz : isNaN z = false)
    (hxy : close x y = true) (hyz : close y z = true) (hxz : close x z = false) :
    genEqual close (flatSR y x) (flatSR y y) = some true ∧ genEqual close (flatSR y y) (flatSR y z) = some true
    ∧ genEqual close (flatSR y x) (flatSR y z) = some false := by
  rw [(C20_equal_regenerated close (flatSR y x) (flatSR y y)).1 rfl rfl,
    (C20_equal_regenerated close (flatSR y y) (flatSR y z)).1 rfl rfl,
    (C20_equal_regenerated close (flatSR y x) (flatSR y z)).1 rfl rfl]
  refine ⟨?_, ?_, ?_⟩ <;>
    simp [equalSR, flatSR, datumEq, sliceEq, feq_refl close hrefl, feq, hx, hy, hz, hxy, hyz, hxz, hrefl]

end

/-- non-vacuity (kernel-checked): "within 3 units" on exact numbers has such a triple, and `newSR` carries no datum -/
example : closeUnits 3 (some 0) (some 3) = true ∧ closeUnits 3 (some 3) (some 6) = true ∧ closeUnits 3 (some 0) (some 6) = false
    ∧ (newSR (α := XR)).datum = none := by decide +kernel

end GeomV.C20
