import GeomV.C20.Spec
/-!
# Groundwork for the numeral contract (`numeralsRead`, the one extra hypothesis of `C20_parse_agree`)

STATUS: not an obligation yet (not in CFG["lean_modules"]).  Proved here, for ALL numbers: the integer part written by
`natDigits` is a non-empty digit string over the numeral alphabet whose value is `n` (`natDigits_spec`), and the `k`
fractional digits written by `digitsFixed` continue a digit string with value `· 10^k + m % 10^k` (`digitsFixed_spec`).
MISSING for `∀ d, d.scale ≤ 400 → numeralOK d`: the composition through `Dec.parseLit` (sign, `takeWhile/dropWhile` at the
point, empty exponent) and through the guards of `parseFloat` (`inf`/`nan` words, `x`/`_` characters, the 400-digit bound).
-/
set_option linter.unusedSimpArgs false
set_option linter.unusedVariables false
namespace GeomV.C20
open GeomV

theorem digitChar_ok (n : Nat) :
    Dec.isDigit (digitChar n) = true ∧ (digitChar n).toNat - 48 = n % 10 ∧ numCh (digitChar n) = true := by
  have h : ∀ k, k < 10 → Dec.isDigit (Char.ofNat (48 + k)) = true ∧ (Char.ofNat (48 + k)).toNat - 48 = k ∧ numCh (Char.ofNat (48 + k)) = true := by
    decide
  exact h (n % 10) (Nat.mod_lt _ (by decide))

theorem digitsVal_snoc (a : Str) (c : Char) : Dec.digitsVal (a ++ [c]) = Dec.digitsVal a * 10 + (c.toNat - 48) := by
  simp [Dec.digitsVal, List.foldl_append]

/-- `natDigits.go` with enough fuel puts the digits of `n` in front of the accumulator -/
theorem go_spec : ∀ (f n : Nat) (acc : Str), n < 10 ^ (f + 1) →
    ∃ ds, natDigits.go (f + 1) n acc = ds ++ acc ∧ ds ≠ [] ∧ (∀ c ∈ ds, Dec.isDigit c = true ∧ numCh c = true) ∧ Dec.digitsVal ds = n := by
  intro f
  induction f with
  | zero =>
    intro n acc h
    have h10 : n < 10 := by simpa using h
    unfold natDigits.go
    simp only [h10, if_true]
    refine ⟨[digitChar n], rfl, by simp, ?_, ?_⟩
    · intro c hc; simp at hc; subst hc; exact ⟨(digitChar_ok n).1, (digitChar_ok n).2.2⟩
    · simp [Dec.digitsVal, (digitChar_ok n).2.1, Nat.mod_eq_of_lt h10]
  | succ f ih =>
    intro n acc h
    unfold natDigits.go
    by_cases h10 : n < 10
    · simp only [h10, if_true]
      refine ⟨[digitChar n], rfl, by simp, ?_, ?_⟩
      · intro c hc; simp at hc; subst hc; exact ⟨(digitChar_ok n).1, (digitChar_ok n).2.2⟩
      · simp [Dec.digitsVal, (digitChar_ok n).2.1, Nat.mod_eq_of_lt h10]
    · simp only [h10, if_false]
      have hlt : n / 10 < 10 ^ (f + 1) := by
        rw [Nat.pow_succ] at h
        exact Nat.div_lt_of_lt_mul (by rwa [Nat.mul_comm] at h)
      obtain ⟨ds, e, hne, hall, hv⟩ := ih (n / 10) (digitChar n :: acc) hlt
      refine ⟨ds ++ [digitChar n], by rw [e]; simp, by simp, ?_, ?_⟩
      · intro c hc
        rcases List.mem_append.mp hc with hc | hc
        · exact hall c hc
        · simp at hc; subst hc; exact ⟨(digitChar_ok n).1, (digitChar_ok n).2.2⟩
      · rw [digitsVal_snoc, hv, (digitChar_ok n).2.1]; omega

theorem natDigits_spec (n : Nat) :
    natDigits n ≠ [] ∧ (∀ c ∈ natDigits n, Dec.isDigit c = true ∧ numCh c = true) ∧ Dec.digitsVal (natDigits n) = n := by
  have hlt : n < 10 ^ (n + 1) := by
    have := Nat.lt_pow_self (n := n + 1) (a := 10) (by decide)
    omega
  obtain ⟨ds, e, hne, hall, hv⟩ := go_spec n n [] hlt
  unfold natDigits
  rw [e]; simp only [List.append_nil]
  exact ⟨hne, hall, hv⟩

theorem digitsFixed_spec : ∀ (k m : Nat) (pre : Str),
    (digitsFixed k m).length = k ∧ (∀ c ∈ digitsFixed k m, Dec.isDigit c = true ∧ numCh c = true) ∧
    Dec.digitsVal (pre ++ digitsFixed k m) = Dec.digitsVal pre * 10 ^ k + m % 10 ^ k
  | 0, m, pre => by simp [digitsFixed, Nat.mod_one]
  | k+1, m, pre => by
    obtain ⟨hl, hall, hv⟩ := digitsFixed_spec k (m / 10) pre
    unfold digitsFixed
    refine ⟨by simp [hl], ?_, ?_⟩
    · intro c hc
      rcases List.mem_append.mp hc with hc | hc
      · exact hall c hc
      · simp at hc; subst hc; exact ⟨(digitChar_ok m).1, (digitChar_ok m).2.2⟩
    · rw [← List.append_assoc, digitsVal_snoc, hv, (digitChar_ok m).2.1, Nat.pow_succ, Nat.mul_comm (10 ^ k) 10, Nat.mod_mul]
      have : Dec.digitsVal pre * (10 * 10 ^ k) = Dec.digitsVal pre * 10 ^ k * 10 := by
        rw [Nat.mul_comm 10, Nat.mul_assoc]
      omega

end GeomV.C20
