import GeomV.C20.Spec
/-!
# Groundwork for the numeral contract (`numeralsRead`, the one extra hypothesis of `C20_parse_agree`)

Proved here, for ALL numbers: the integer part written by
`natDigits` is a non-empty digit string over the numeral alphabet whose value is `n` (`natDigits_spec`), and the `k`
fractional digits written by `digitsFixed` continue a digit string with value `· 10^k + m % 10^k` (`digitsFixed_spec`).
MISSING for `∀ d, d.scale ≤ 400 → numeralOK d`: the composition through `Dec.parseLit` (sign, `takeWhile/dropWhile` at the
point, empty exponent) and through the guards of `parseFloat` (`inf`/`nan` words, `x`/`_` characters, the 400-digit bound).
-/
set_option linter.unusedSimpArgs false
set_option linter.unusedVariables false
namespace GeomV.C20
open GeomV

theorem digitChar_ok (n : Nat) :
    Dec.isDigit (digitChar n) = true ∧ (digitChar n).toNat - 48 = n % 10 ∧ numCh (digitChar n) = true := by
  have h : ∀ k, k < 10 → Dec.isDigit (Char.ofNat (48 + k)) = true ∧ (Char.ofNat (48 + k)).toNat - 48 = k ∧ numCh (Char.ofNat (48 + k)) = true := by
    decide
  exact h (n % 10) (Nat.mod_lt _ (by decide))

theorem digitsVal_snoc (a : Str) (c : Char) : Dec.digitsVal (a ++ [c]) = Dec.digitsVal a * 10 + (c.toNat - 48) := by
  simp [Dec.digitsVal, List.foldl_append]

/-- `natDigits.go` with enough fuel puts the digits of `n` in front of the accumulator -/
theorem go_spec : ∀ (f n : Nat) (acc : Str), n < 10 ^ (f + 1) →
    ∃ ds, natDigits.go (f + 1) n acc = ds ++ acc ∧ ds ≠ [] ∧ (∀ c ∈ ds, Dec.isDigit c = true ∧ numCh c = true) ∧ Dec.digitsVal ds = n := by
  intro f
  induction f with
  | zero =>
    intro n acc h
    have h10 : n < 10 := by simpa using h
    unfold natDigits.go
    simp only [h10, if_true]
    refine ⟨[digitChar n], rfl, by simp, ?_, ?_⟩
    · intro c hc; simp at hc; subst hc; exact ⟨(digitChar_ok n).1, (digitChar_ok n).2.2⟩
    · simp [Dec.digitsVal, (digitChar_ok n).2.1, Nat.mod_eq_of_lt h10]
  | succ f ih =>
    intro n acc h
    unfold natDigits.go
    by_cases h10 : n < 10
    · simp only [h10, if_true]
      refine ⟨[digitChar n], rfl, by simp, ?_, ?_⟩
      · intro c hc; simp at hc; subst hc; exact ⟨(digitChar_ok n).1, (digitChar_ok n).2.2⟩
      · simp [Dec.digitsVal, (digitChar_ok n).2.1, Nat.mod_eq_of_lt h10]
    · simp only [h10, if_false]
      have hlt : n / 10 < 10 ^ (f + 1) := by
        rw [Nat.pow_succ] at h
        exact Nat.div_lt_of_lt_mul (by rwa [Nat.mul_comm] at h)
      obtain ⟨ds, e, hne, hall, hv⟩ := ih (n / 10) (digitChar n :: acc) hlt
      refine ⟨ds ++ [digitChar n], by rw [e]; simp, by simp, ?_, ?_⟩
      · intro c hc
        rcases List.mem_append.mp hc with hc | hc
        · exact hall c hc
        · simp at hc; subst hc; exact ⟨(digitChar_ok n).1, (digitChar_ok n).2.2⟩
      · rw [digitsVal_snoc, hv, (digitChar_ok n).2.1]; omega

theorem natDigits_spec (n : Nat) :
    natDigits n ≠ [] ∧ (∀ c ∈ natDigits n, Dec.isDigit c = true ∧ numCh c = true) ∧ Dec.digitsVal (natDigits n) = n := by
  have hlt : n < 10 ^ (n + 1) := by
    have := Nat.lt_pow_self (n := n + 1) (a := 10) (by decide)
    omega
  obtain ⟨ds, e, hne, hall, hv⟩ := go_spec n n [] hlt
  unfold natDigits
  rw [e]; simp only [List.append_nil]
  exact ⟨hne, hall, hv⟩

theorem digitsFixed_spec : ∀ (k m : Nat) (pre : Str),
    (digitsFixed k m).length = k ∧ (∀ c ∈ digitsFixed k m, Dec.isDigit c = true ∧ numCh c = true) ∧
    Dec.digitsVal (pre ++ digitsFixed k m) = Dec.digitsVal pre * 10 ^ k + m % 10 ^ k
  | 0, m, pre => by simp [digitsFixed, Nat.mod_one]
  | k+1, m, pre => by
    obtain ⟨hl, hall, hv⟩ := digitsFixed_spec k (m / 10) pre
    unfold digitsFixed
    refine ⟨by simp [hl], ?_, ?_⟩
    · intro c hc
      rcases List.mem_append.mp hc with hc | hc
      · exact hall c hc
      · simp at hc; subst hc; exact ⟨(digitChar_ok m).1, (digitChar_ok m).2.2⟩
    · rw [← List.append_assoc, digitsVal_snoc, hv, (digitChar_ok m).2.1, Nat.pow_succ, Nat.mul_comm (10 ^ k) 10, Nat.mod_mul]
      have : Dec.digitsVal pre * (10 * 10 ^ k) = Dec.digitsVal pre * 10 ^ k * 10 := by
        rw [Nat.mul_comm 10, Nat.mul_assoc]
      omega

/-! ## the composition: `parseFloat (renderDec d) = d` -/

/-- what is needed of a decimal digit character -/
def DigitFacts (c : Char) : Prop :=
  lowerChar c = c ∧ c ≠ 'i' ∧ c ≠ 'n' ∧ c ≠ '-' ∧ c ≠ '+' ∧ c ≠ '.' ∧ c ≠ 'x' ∧ c ≠ 'X' ∧ c ≠ '_'

theorem digit_facts (c : Char) (h : Dec.isDigit c = true) : DigitFacts c := by
  have hall : ∀ m : Fin 58, 48 ≤ m.val → DigitFacts (Char.ofNat m.val) := by
    unfold DigitFacts; decide
  have hc : c = Char.ofNat c.toNat := (Char.ofNat_toNat c).symm
  unfold Dec.isDigit at h
  simp only [Bool.and_eq_true, decide_eq_true_eq] at h
  have h1 : 48 ≤ c.toNat := h.1
  have h2 : c.toNat ≤ 57 := h.2
  rw [hc]
  exact hall ⟨c.toNat, by omega⟩ h1

/-- a run of digits followed by nothing or by a non-digit is split there by `takeWhile` / `dropWhile` -/
theorem span_digits (I rest : Str) (hI : ∀ c ∈ I, Dec.isDigit c = true)
    (hr : rest = [] ∨ ∃ c r, rest = c :: r ∧ Dec.isDigit c = false) :
    (I ++ rest).takeWhile Dec.isDigit = I ∧ (I ++ rest).dropWhile Dec.isDigit = rest := by
  induction I with
  | nil =>
    rcases hr with rfl | ⟨c, r, rfl, hc⟩
    · simp
    · simp [List.takeWhile, List.dropWhile, hc]
  | cons a I ih =>
    have ha := hI a (by simp)
    obtain ⟨e1, e2⟩ := ih (fun c hc => hI c (by simp [hc]))
    simp [List.takeWhile, List.dropWhile, ha, e1, e2]

/-- the unsigned text of `d`: integer part, and the point with exactly `scale` digits when `scale > 0` -/
def renderBody (d : Dec) : Str :=
  natDigits (d.mant.natAbs / 10 ^ d.scale) ++
    (if d.scale = 0 then [] else '.' :: digitsFixed d.scale (d.mant.natAbs % 10 ^ d.scale))

theorem renderDec_eq (d : Dec) : renderDec d = (if d.mant < 0 then ['-'] else []) ++ renderBody d := by
  unfold renderDec renderBody
  simp [List.append_assoc]

/-- the body starts with a digit -/
theorem renderBody_head (d : Dec) : ∃ c r, renderBody d = c :: r ∧ Dec.isDigit c = true := by
  obtain ⟨hne, hall, _⟩ := natDigits_spec (d.mant.natAbs / 10 ^ d.scale)
  unfold renderBody
  cases h : natDigits (d.mant.natAbs / 10 ^ d.scale) with
  | nil => exact absurd h hne
  | cons c r => exact ⟨c, r ++ _, rfl, (hall c (by rw [h]; simp)).1⟩

theorem renderBody_numCh (d : Dec) : (renderBody d).all numCh = true := by
  obtain ⟨_, hall, _⟩ := natDigits_spec (d.mant.natAbs / 10 ^ d.scale)
  obtain ⟨_, hall2, _⟩ := digitsFixed_spec d.scale (d.mant.natAbs % 10 ^ d.scale) []
  unfold renderBody
  rw [List.all_eq_true]
  intro c hc
  rcases List.mem_append.mp hc with hc | hc
  · exact (hall c hc).2
  · by_cases hk : d.scale = 0
    · simp [hk] at hc
    · simp only [hk, if_false, List.mem_cons] at hc
      rcases hc with rfl | hc
      · decide
      · exact (hall2 c hc).2

/-- the literal scanner on the unsigned text: mantissa `|mant|`, exponent `-scale` -/
theorem parseLit_body (d : Dec) (neg : Bool) (pre : Str) (hpre : Dec.takeSign (pre ++ renderBody d) = (neg, renderBody d)) :
    Dec.parseLit (pre ++ renderBody d) = some ⟨neg, d.mant.natAbs, -(d.scale : Int)⟩ := by
  obtain ⟨hne, hall, hv⟩ := natDigits_spec (d.mant.natAbs / 10 ^ d.scale)
  obtain ⟨hl, hall2, hv2⟩ := digitsFixed_spec d.scale (d.mant.natAbs % 10 ^ d.scale) (natDigits (d.mant.natAbs / 10 ^ d.scale))
  have hI : ∀ c ∈ natDigits (d.mant.natAbs / 10 ^ d.scale), Dec.isDigit c = true := fun c hc => (hall c hc).1
  have hF : ∀ c ∈ digitsFixed d.scale (d.mant.natAbs % 10 ^ d.scale), Dec.isDigit c = true := fun c hc => (hall2 c hc).1
  unfold Dec.parseLit
  rw [hpre]
  simp only []
  by_cases hk : d.scale = 0
  · have hb : renderBody d = natDigits (d.mant.natAbs / 10 ^ d.scale) ++ [] := by unfold renderBody; simp [hk]
    obtain ⟨e1, e2⟩ := span_digits _ [] hI (Or.inl rfl)
    rw [hb, e1, e2]
    have hne' : (natDigits (d.mant.natAbs / 10 ^ d.scale)).isEmpty = false := by
      cases h : natDigits (d.mant.natAbs / 10 ^ d.scale) with
      | nil => exact absurd h hne
      | cons _ _ => rfl
    simp only [hne', Bool.false_and, Dec.parseExp, List.append_nil, hv, List.length_nil]
    simp [hk]
  · have hb : renderBody d = natDigits (d.mant.natAbs / 10 ^ d.scale) ++ ('.' :: digitsFixed d.scale (d.mant.natAbs % 10 ^ d.scale)) := by
      unfold renderBody; simp [hk]
    obtain ⟨e1, e2⟩ := span_digits _ ('.' :: digitsFixed d.scale (d.mant.natAbs % 10 ^ d.scale)) hI (Or.inr ⟨'.', _, rfl, by decide⟩)
    obtain ⟨f1, f2⟩ := span_digits _ [] hF (Or.inl rfl)
    simp only [List.append_nil] at f1 f2
    rw [hb, e1, e2]
    simp only [f1, f2]
    have hne' : (natDigits (d.mant.natAbs / 10 ^ d.scale)).isEmpty = false := by
      cases h : natDigits (d.mant.natAbs / 10 ^ d.scale) with
      | nil => exact absurd h hne
      | cons _ _ => rfl
    simp only [hne', Bool.false_and, Dec.parseExp, hv2, hv, hl]
    have hmod : d.mant.natAbs % 10 ^ d.scale % 10 ^ d.scale = d.mant.natAbs % 10 ^ d.scale := Nat.mod_mod _ _
    have hdm : d.mant.natAbs / 10 ^ d.scale * 10 ^ d.scale + d.mant.natAbs % 10 ^ d.scale = d.mant.natAbs := by
      rw [Nat.mul_comm]; exact Nat.div_add_mod _ _
    simp [hmod, hdm]

theorem lowerIs_false (c : Char) (r : Str) (w : String) (x : Char) (xs : Str) (hw : w.toList = x :: xs) (hne : lowerChar c ≠ x) :
    lowerIs (c :: r) w = false := by
  unfold lowerIs toLower
  rw [hw]
  simp [List.map, hne]

theorem numCh_plain (c : Char) (h : numCh c = true) : (decide (c = 'x') || decide (c = 'X') || decide (c = '_')) = false := by
  unfold numCh at h
  simp only [Bool.or_eq_true, decide_eq_true_eq] at h
  rcases h with (h | h) | h
  · have := digit_facts c h
    unfold DigitFacts at this
    simp [this]
  · subst h; decide
  · subst h; decide

theorem takeSign_digit (c : Char) (r : Str) (h : Dec.isDigit c = true) : Dec.takeSign (c :: r) = (false, c :: r) := by
  have hf := digit_facts c h
  unfold DigitFacts at hf
  unfold Dec.takeSign
  split
  · rename_i heq; injection heq with h1 _; exact absurd h1 hf.2.2.2.1
  · rename_i heq; injection heq with h1 _; exact absurd h1 hf.2.2.2.2.1
  · rfl

/-- the value the model's `ParseFloat` computes from the scanned literal of `d` -/
theorem litValue (d : Dec) :
    (if (if d.mant < 0 then true else false) = true then
        -(if -(d.scale : Int) ≥ 0 then ((d.mant.natAbs * 10 ^ (-(d.scale : Int)).toNat : Nat) : Rat)
          else mkRat d.mant.natAbs (10 ^ (-(-(d.scale : Int))).toNat))
      else (if -(d.scale : Int) ≥ 0 then ((d.mant.natAbs * 10 ^ (-(d.scale : Int)).toNat : Nat) : Rat)
          else mkRat d.mant.natAbs (10 ^ (-(-(d.scale : Int))).toNat))) = d.toRat := by
  unfold Dec.toRat
  have hto : (-(-(d.scale : Int))).toNat = d.scale := by simp
  by_cases hk : d.scale = 0
  · have h0 : -(d.scale : Int) ≥ 0 := by omega
    simp only [h0, if_true, hk]
    by_cases hm : d.mant < 0
    · simp only [hm, if_true]
      have : (d.mant.natAbs : Int) = -d.mant := by omega
      simp [Rat.mkRat_one, this]
      rw [← Rat.intCast_natCast, this, Rat.intCast_neg]; simp
    · simp only [hm, if_false]
      have : (d.mant.natAbs : Int) = d.mant := by omega
      simp [Rat.mkRat_one, this]
      rw [← Rat.intCast_natCast, this]
  · have h0 : ¬ (-(d.scale : Int) ≥ 0) := by omega
    simp only [h0, if_false, hto]
    by_cases hm : d.mant < 0
    · simp only [hm, if_true]
      have : (d.mant.natAbs : Int) = -d.mant := by omega
      rw [Rat.neg_mkRat, this]; simp
    · simp only [hm, if_false]
      have : (d.mant.natAbs : Int) = d.mant := by omega
      rw [this]; simp

/-- **the numeral contract, proved**: the model of `strconv.ParseFloat` reads the text `renderDec d` as the decimal `d`,
for EVERY decimal with at most 400 fractional digits (the bound of the model's exponent guard) -/
theorem parseFloat_render (d : Dec) (hk : d.scale ≤ 400) : parseFloat (α := XR) (renderDec d) = .ok (some d.toRat) := by
  obtain ⟨c, r, hb, hc⟩ := renderBody_head d
  have hf := digit_facts c hc
  have hall := renderBody_numCh d
  have hany : ∀ pre : Str, pre.all numCh = true →
      (pre ++ renderBody d).any (fun c => decide (c = 'x') || decide (c = 'X') || decide (c = '_')) = false := by
    intro pre hp
    rw [Bool.eq_false_iff]
    intro h
    rw [List.any_eq_true] at h
    obtain ⟨x, hx, hxx⟩ := h
    have hn : numCh x = true := by
      rcases List.mem_append.mp hx with hx | hx
      · exact (List.all_eq_true.mp hp) x hx
      · exact (List.all_eq_true.mp hall) x hx
    rw [numCh_plain x hn] at hxx
    exact Bool.noConfusion hxx
  have hinf : ∀ w x xs, w.toList = x :: xs → lowerChar c ≠ x → lowerIs (renderBody d) w = false := by
    intro w x xs hw hne
    rw [hb]; exact lowerIs_false c r w x xs hw hne
  unfold DigitFacts at hf
  have l1 := hinf "inf" 'i' ['n', 'f'] rfl (by rw [hf.1]; exact hf.2.1)
  have l2 := hinf "infinity" 'i' ['n', 'f', 'i', 'n', 'i', 't', 'y'] rfl (by rw [hf.1]; exact hf.2.1)
  have l3 := hinf "nan" 'n' ['a', 'n'] rfl (by rw [hf.1]; exact hf.2.2.1)
  have hval := litValue d
  rw [renderDec_eq]
  by_cases hm : d.mant < 0
  · simp only [hm, if_true] at hval ⊢
    have hlit := parseLit_body d true ['-'] rfl
    have ha := hany ['-'] (by decide)
    unfold parseFloat
    simp only [List.cons_append, List.nil_append] at hlit ha ⊢
    simp only [l1, l2, l3, ha, hlit, Bool.or_self, Bool.false_eq_true, if_false]
    have hs : ¬ ((-(d.scale : Int)).natAbs > 400) := by omega
    simp only [hs, if_false, Num.isInf, Num.ofRat, if_true]
    rw [hval]
    simp
  · simp only [hm, if_false, List.nil_append, Bool.false_eq_true] at hval ⊢
    have hts : Dec.takeSign ([] ++ renderBody d) = (false, renderBody d) := by
      rw [List.nil_append, hb]; exact takeSign_digit c r hc
    have hlit := parseLit_body d false [] hts
    have ha := hany [] (by decide)
    simp only [List.nil_append] at hlit ha
    unfold parseFloat
    split
    rename_i neg body hsplit
    have hnb : neg = false ∧ body = renderBody d := by
      revert hsplit
      rw [hb]
      split
      · rename_i heq; injection heq with h1 _; exact absurd h1 hf.2.2.2.1
      · rename_i heq; injection heq with h1 _; exact absurd h1 hf.2.2.2.2.1
      · intro h; injection h with h1 h2; exact ⟨h1.symm, h2.symm⟩
    obtain ⟨rfl, rfl⟩ := hnb
    simp only [l1, l2, l3, ha, hlit, Bool.or_self, Bool.false_eq_true, if_false]
    have hs : ¬ ((-(d.scale : Int)).natAbs > 400) := by omega
    simp only [hs, if_false, Num.isInf, Num.ofRat, if_true]
    rw [hval]
    simp

/-- `numeralOK d` — non-empty token over `[0-9.-]` that `ParseFloat` reads back as `d` — holds for EVERY decimal with at
most 400 fractional digits -/
theorem numeralOK_of_scale (d : Dec) (hk : d.scale ≤ 400) : numeralOK d = true := by
  unfold numeralOK
  rw [parseFloat_render d hk]
  obtain ⟨c, r, hb, _⟩ := renderBody_head d
  have hall := renderBody_numCh d
  have h1 : (renderDec d).isEmpty = false := by
    rw [renderDec_eq, hb]; cases (if d.mant < 0 then ['-'] else [] : Str) <;> rfl
  have h2 : (renderDec d).all numCh = true := by
    rw [renderDec_eq, List.all_append, hall]
    by_cases hm : d.mant < 0 <;> simp [hm] <;> decide
  simp [h1, h2]

/-- the decidable side condition that replaces the numeral contract: no numeral of `c` has more than 400 fractional
digits -/
def scalesOK (c : Crs) : Bool := (decsOf c).all (fun d => decide (d.scale ≤ 400))

/-- **numeralsRead_of_scales** — the numeral contract of `C20_parse_agree` is a THEOREM for every description whose
numerals have at most 400 fractional digits -/
theorem numeralsRead_of_scales (c : Crs) (h : scalesOK c = true) : numeralsRead c = true := by
  unfold numeralsRead
  unfold scalesOK at h
  rw [List.all_eq_true] at h ⊢
  intro d hd
  exact numeralOK_of_scale d (by simpa using h d hd)

end GeomV.C20
