import GeomV.C20.Model
/-!
# `encoding/shp`: which file `(*Decoder).SR` reads (core Lean only)

`NewDecoder(filename)` stores the name without a trailing `.shp` and opens `<that> + ".shp"`; `SR()` reads
`<stored name> + ".prj"` and hands its bytes to `proj.Parse`.  The three path EXPRESSIONS are regenerated from shp.go
(`WktGen.lean`: `genDecoderStored`, `genDecoderOpen`, `genDecoderPrj`); here are the string function they use and the
file system they are run against.  A file system is a function from paths to contents (`none` = no such file).
-/
namespace GeomV.C20

/-- `strings.TrimSuffix` -/
def trimSuffix (a suf : Str) : Str := if hasSuffix a suf then a.take (a.length - suf.length) else a

abbrev FS := Str → Option Str

/-- what `NewDecoder` leaves behind: the stored name (the shapefile itself has been opened) -/
structure DecoderM where
  filename : Str

section
variable {α : Type} [Num α]

/-- `NewDecoder` given the two regenerated path expressions: fails when the file it opens does not exist -/
def newDecoderG (stored opened : Str → Str) (fs : FS) (filename : Str) : Except Err DecoderM :=
  match fs (opened filename) with
  | none => .error (.error "open: no such file")
  | some _ => .ok { filename := stored filename }

/-- `(*Decoder).SR` given the regenerated path expression -/
def decoderSRG (prj : Str → Str) (fs : FS) (r : DecoderM) : Except Err (SR α) := decoderSR (fs (prj r.filename))

/-- open a layer and ask for its reference -/
def layerSRG (stored opened prj : Str → Str) (fs : FS) (filename : Str) : Except Err (SR α) :=
  newDecoderG stored opened fs filename >>= decoderSRG prj fs

end
end GeomV.C20
