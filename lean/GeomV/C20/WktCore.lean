import GeomV.C20.WktProj
/-!
# WKT at token level: the PROJCS section in every clause order
-/
set_option linter.unusedSimpArgs false
set_option linter.unusedVariables false
namespace GeomV.C20
open Num

section core
variable (sp : Bool) (c : Crs) (st : Style) (hnum : ∀ d ∈ decsOf c, NumOK d) (hdw : datumWF c = true)
  (hk : c.kind ≠ .geog) (hlo : st.leaveOut = 0)

include hnum hlo hk in
theorem runL_psU (f : Nat) : RunsL (stepP sp f) InvP (subsOf (wktPsU c st)) (effPsU c st) := by
  cases hkk : c.kind <;> cases he : st.esri
  all_goals first
    | exact absurd hkk hk
    | exact runL_psU_merc_o sp c st hnum hlo f hkk he
    | exact runL_psU_merc_e sp c st hnum hlo f hkk he
    | exact runL_psU_tmerc_o sp c st hnum hlo f hkk he
    | exact runL_psU_tmerc_e sp c st hnum hlo f hkk he
    | exact runL_psU_lcc_o sp c st hnum hlo f hkk he
    | exact runL_psU_lcc_e sp c st hnum hlo f hkk he
    | exact runL_psU_aea_o sp c st hnum hlo f hkk he
    | exact runL_psU_aea_e sp c st hnum hlo f hkk he
    | exact runL_psU_eqdc_o sp c st hnum hlo f hkk he
    | exact runL_psU_eqdc_e sp c st hnum hlo f hkk he

/-! ## the four effects commute -/

abbrev U := effUnitW c st
abbrev P := effParamsW c st
abbrev J := effProjW c st
abbrev G := effGeogNode c st false

theorem effTw_comm (F : SR XR → SR XR) (hF : ∀ (x : SR XR) (p : List XR), F { x with datumParams := p } = { F x with datumParams := p })
    (x : SR XR) : F (effTw c x) = effTw c (F x) := by
  unfold effTw
  cases c.datum <;> cases c.towgs <;> first | rfl | exact hF _ _

attribute [local irreducible] ellpsOf datumCodeOf unitNameOf in
theorem comm_lemmas :
    (∀ x, P c st (U c st x) = U c st (P c st x)) ∧ (∀ x, J c st (U c st x) = U c st (J c st x)) ∧ (∀ x, G c st (U c st x) = U c st (G c st x)) ∧
    (∀ x, J c st (P c st x) = P c st (J c st x)) ∧ (∀ x, G c st (P c st x) = P c st (G c st x)) ∧ (∀ x, G c st (J c st x) = J c st (G c st x)) := by
  refine ⟨fun _ => rfl, fun _ => rfl, ?_, fun _ => rfl, ?_, ?_⟩
  · intro x
    show effGeogNode c st false (effUnitW c st x) = effUnitW c st (effGeogNode c st false x)
    unfold effGeogNode effGeogKids effDatumNode effDatumKids
    simp only [Function.comp, wOf, Bool.false_eq_true, if_false, id]
    rw [effTw_comm c (effUnitW c st) (fun _ _ => rfl)]
    rfl
  · intro x
    show effGeogNode c st false (effParamsW c st x) = effParamsW c st (effGeogNode c st false x)
    unfold effGeogNode effGeogKids effDatumNode effDatumKids
    simp only [Function.comp, wOf, Bool.false_eq_true, if_false, id]
    rw [effTw_comm c (effParamsW c st) (fun _ _ => rfl)]
    rfl
  · intro x
    show effGeogNode c st false (effProjW c st x) = effProjW c st (effGeogNode c st false x)
    unfold effGeogNode effGeogKids effDatumNode effDatumKids
    simp only [Function.comp, wOf, Bool.false_eq_true, if_false, id]
    rw [effTw_comm c (effProjW c st) (fun _ _ => rfl)]
    rfl

/-- the whole PROJCS body, in canonical order -/
def effCoreW (c : Crs) (st : Style) : SR XR → SR XR := effUnitW c st ∘ effParamsW c st ∘ effProjW c st ∘ effGeogNode c st false

theorem wktPCore_eq : wktPCore c st =
    (let core := if st.projLast then wktPsU c st ++ [wktProjection c st] else [wktProjection c st] ++ wktPsU c st
     let core := if st.unitPos = 1 then [wktUnit c st] ++ core else core
     let core := if st.geogLast then core ++ [wktGeog c st false] else [wktGeog c st false] ++ core
     let core := if st.unitPos = 0 then core ++ [wktUnit c st] else core
     core ++ wktPAxes st) := rfl

theorem runL_axesP (f : Nat) : RunsL (stepP sp f) InvP (subsOf (wktPAxes st)) id := by
  unfold wktPAxes
  cases st.axis
  · exact runsL_nil
  · have := runsL_cons (run_noopP sp f "AXIS" [.q "X", .bare "EAST"] (Or.inl rfl))
      (runsL_single (run_noopP sp f "AXIS" [.q "Y", .bare "NORTH"] (Or.inl rfl)))
    exact runsL_congr this rfl

attribute [local irreducible] ellpsOf datumCodeOf unitNameOf in
include hnum hdw hk hlo in
theorem runL_core (f : Nat) (hup : st.unitPos ≤ 2) : RunsL (stepP sp f) InvP (subsOf (wktPCore c st)) (effCoreW c st) := by
  obtain ⟨c1, c2, c3, c4, c5, c6⟩ := comm_lemmas c st
  have hPs := runL_psU sp c st hnum hk hlo f
  have hJ : RunsL (stepP sp f) InvP (subsOf [wktProjection c st]) (effProjW c st) := runsL_single (run_projW sp c st hk f)
  have hU : RunsL (stepP sp f) InvP (subsOf [wktUnit c st]) (effUnitW c st) := by
    rw [wktUnit_eq]; exact runsL_single (run_unitW sp c st hnum f)
  have hG : RunsL (stepP sp f) InvP (subsOf [wktGeog c st false]) (effGeogNode c st false) := runsL_single (run_geogW sp c st hnum hdw f)
  have hA := runL_axesP sp st f
  rw [wktPCore_eq]
  simp only []
  -- level 0: PROJECTION and the parameters
  have h0 : RunsL (stepP sp f) InvP (subsOf (if st.projLast then wktPsU c st ++ [wktProjection c st] else [wktProjection c st] ++ wktPsU c st))
      (effProjW c st ∘ effPsU c st) := by
    cases st.projLast
    · simp only [Bool.false_eq_true, if_false, subsOf_append]
      refine runsL_congr (runsL_append hJ hPs) ?_
      funext x
      unfold effPsU
      split <;> simp only [Function.comp, c2, c4]
    · simp only [if_true, subsOf_append]
      exact runsL_append hPs hJ
  -- level 1: UNIT in front
  have h1 : RunsL (stepP sp f) InvP (subsOf (if st.unitPos = 1 then [wktUnit c st] ++
        (if st.projLast then wktPsU c st ++ [wktProjection c st] else [wktProjection c st] ++ wktPsU c st)
      else (if st.projLast then wktPsU c st ++ [wktProjection c st] else [wktProjection c st] ++ wktPsU c st)))
      (if st.unitPos = 1 then (effProjW c st ∘ effPsU c st) ∘ effUnitW c st else effProjW c st ∘ effPsU c st) := by
    split
    · rw [subsOf_append]; exact runsL_append hU h0
    · exact h0
  -- level 2: GEOGCS in front or behind
  have h2 := fun (E : SR XR → SR XR) (l : List WArg) (hl : RunsL (stepP sp f) InvP (subsOf l) E) =>
    (show RunsL (stepP sp f) InvP (subsOf (if st.geogLast then l ++ [wktGeog c st false] else [wktGeog c st false] ++ l))
        (if st.geogLast then effGeogNode c st false ∘ E else E ∘ effGeogNode c st false) by
      cases st.geogLast
      · simp only [Bool.false_eq_true, if_false, subsOf_append]; exact runsL_append hG hl
      · simp only [if_true, subsOf_append]; exact runsL_append hl hG)
  have h3 := fun (E : SR XR → SR XR) (l : List WArg) (hl : RunsL (stepP sp f) InvP (subsOf l) E) =>
    (show RunsL (stepP sp f) InvP (subsOf ((if st.unitPos = 0 then l ++ [wktUnit c st] else l) ++ wktPAxes st))
        (if st.unitPos = 0 then effUnitW c st ∘ E else E) by
      rw [subsOf_append]
      split
      · rw [subsOf_append]
        exact runsL_congr (runsL_append (runsL_append hl hU) hA) rfl
      · exact runsL_congr (runsL_append hl hA) rfl)
  refine runsL_congr (h3 _ _ (h2 _ _ h1)) ?_
  funext x
  unfold effCoreW effPsU
  have hcases : st.unitPos = 0 ∨ st.unitPos = 1 ∨ st.unitPos = 2 := by omega
  rcases hcases with h | h | h <;> cases st.geogLast <;>
    simp only [h, Function.comp, if_true, if_false, Bool.false_eq_true, c1, c2, c3, c4, c5, c6, Nat.reduceEqDiff,
      show (0 : Nat) ≠ 1 by decide, show (0 : Nat) ≠ 2 by decide, show (1 : Nat) ≠ 0 by decide, show (1 : Nat) ≠ 2 by decide,
      show (2 : Nat) ≠ 0 by decide, show (2 : Nat) ≠ 1 by decide]

end core

end GeomV.C20
