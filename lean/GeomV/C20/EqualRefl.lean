import GeomV.C20.Model
/-!
# `equal` of Proj.go as a walk over reflected fields (core Lean only)

`(*SR).Equal` walks the fields of the two structs by reflection.  `Leaf`/`FVal` are the field values it can meet
(the struct behind the one pointer field, `datum`, is flat), `valsEq` is the loop with its early `return false`
and its panics (`none`).  The field LISTS (`genSRVals`, `genDatumLeaves`) and the per-kind comparisons
(`genFloat`, `genSliceElem`, …) are REGENERATED from the Go source (`EqualGen.lean`); `EqualTie.lean` proves that
they coincide with the hand-written model (`equalSR`, `feq`, `sliceEq`) the theorems are about.
-/
namespace GeomV.C20

inductive Leaf (α : Type) where
  | flt (x : α)
  | int (n : Nat)          -- `datumType` (an `int` kind; its values are the non-negative `pjd…` constants)
  | bool (b : Bool)
  | str (s : Str)
  | slice (l : List α)     -- `[]float64`
  | other                  -- any other kind: `default: panic`

inductive FVal (α : Type) where
  | leaf (v : Leaf α)
  | ptr (o : Option (List (Leaf α)))   -- pointer to a (flat) struct; `none` = nil

section
variable {α : Type} [Num α]

/-- one field; `none` = panic (`default:` of the switch; kinds of the same field of two values of one struct type
never differ, so a kind mismatch is unreachable and modelled as panic) -/
def leafEq (close : α → α → Bool) : Leaf α → Leaf α → Option Bool
  | .flt x, .flt y => some (feq close x y)
  | .int a, .int b => some (a == b)
  | .bool a, .bool b => some (a == b)
  | .str a, .str b => some (a == b)
  | .slice a, .slice b => some (sliceEq close a b)
  | _, _ => none

/-- one step of the loop: go on after a field that compared equal, otherwise return `false` / propagate the panic -/
def stepO (r : Option Bool) (k : Option Bool) : Option Bool :=
  match r with
  | some true => k
  | r => r

/-- the loop `for i := 0; i < v1.NumField(); i++` with its early `return false` -/
def leavesEq (close : α → α → Bool) : List (Leaf α) → List (Leaf α) → Option Bool
  | [], _ => some true
  | _ :: _, [] => none
  | x :: a, y :: b => stepO (leafEq close x y) (leavesEq close a b)

/-- `reflect.Indirect` of a nil pointer is the zero `Value`: `NumField` / `Field` on it panic -/
def valEq (close : α → α → Bool) : FVal α → FVal α → Option Bool
  | .leaf x, .leaf y => leafEq close x y
  | .ptr (some a), .ptr (some b) => leavesEq close a b
  | _, _ => none

def valsEq (close : α → α → Bool) : List (FVal α) → List (FVal α) → Option Bool
  | [], _ => some true
  | _ :: _, [] => none
  | x :: a, y :: b => stepO (valEq close x y) (valsEq close a b)

/-- the element loop of the `Slice` case (after the length test), with an arbitrary body -/
def elemLoop (body : α → α → Bool) : List α → List α → Bool
  | x :: a, y :: b => body x y && elemLoop body a b
  | _, _ => true

end
end GeomV.C20
