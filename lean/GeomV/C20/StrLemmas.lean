import GeomV.C20.Spec
/-!
# String lemmas for the two tokenizers (core Lean only)

`splitOn`, `trim`, `toLower` on texts put together from pieces that do not contain the separator.
-/
set_option linter.unusedSimpArgs false
set_option linter.unusedVariables false
namespace GeomV.C20

/-! ## splitOn -/

theorem splitOn_ne_nil (c : Char) : ∀ v : Str, splitOn c v ≠ []
  | [] => by simp [splitOn]
  | x :: r => by
    unfold splitOn
    split
    · simp
    · split <;> simp

theorem splitOn_nosep (c : Char) : ∀ v : Str, c ∉ v → splitOn c v = [v]
  | [], _ => rfl
  | x :: r, h => by
    have hx : x ≠ c := fun e => h (by simp [e])
    have hr : c ∉ r := fun e => h (by simp [e])
    simp [splitOn, hx, splitOn_nosep c r hr]

/-- text up to the first separator is the first piece -/
theorem splitOn_append_sep (c : Char) (b : Str) : ∀ a : Str, c ∉ a → splitOn c (a ++ c :: b) = a :: splitOn c b
  | [], _ => by simp [splitOn]
  | x :: r, h => by
    have hx : x ≠ c := fun e => h (by simp [e])
    have hr : c ∉ r := fun e => h (by simp [e])
    simp [splitOn, hx, splitOn_append_sep c b r hr]

/-- pieces of `A ++ c :: B` are the pieces of `A` followed by the pieces of `B` -/
theorem splitOn_append (c : Char) (B : Str) : ∀ A : Str, splitOn c (A ++ c :: B) = splitOn c A ++ splitOn c B
  | [] => by simp [splitOn]
  | x :: r => by
    by_cases hx : x = c
    · subst hx
      simp [splitOn, splitOn_append x B r]
    · have ih := splitOn_append c B r
      simp only [List.cons_append, splitOn, hx, if_false, ih]
      cases h : splitOn c r with
      | nil => exact absurd h (splitOn_ne_nil c r)
      | cons a t => simp

/-! ## trim -/

theorem trimLeft_head (p : Char → Bool) (x : Char) (r : Str) (h : p x = false) : trimLeft p (x :: r) = x :: r := by
  simp [trimLeft, h]

theorem trimLeft_skip (p : Char → Bool) (x : Char) (r : Str) (h : p x = true) : trimLeft p (x :: r) = trimLeft p r := by
  simp [trimLeft, h]

/-- the text starts and ends with a character outside the cut set -/
def edgeOK (p : Char → Bool) (t : Str) : Bool :=
  match t.head?, t.getLast? with
  | some a, some b => !p a && !p b
  | _, _ => false

theorem edgeOK_cons (p : Char → Bool) (t : Str) (h : edgeOK p t = true) :
    ∃ x r y q, t = x :: r ∧ t = q ++ [y] ∧ p x = false ∧ p y = false := by
  unfold edgeOK at h
  cases t with
  | nil => simp at h
  | cons x r =>
    have hne : (x :: r) ≠ [] := by simp
    have hl : (x :: r).getLast? = some ((x :: r).getLast hne) := List.getLast?_eq_some_getLast hne
    rw [hl] at h
    simp at h
    exact ⟨x, r, (x :: r).getLast hne, (x :: r).dropLast, rfl, (List.dropLast_concat_getLast hne).symm, h.1, h.2⟩

theorem trimRight_last (p : Char → Bool) (q : Str) (y : Char) (h : p y = false) : trimRight p (q ++ [y]) = q ++ [y] := by
  simp [trimRight, trimLeft, h]

theorem trim_edgeOK (p : Char → Bool) (t : Str) (h : edgeOK p t = true) : trim p t = t := by
  obtain ⟨x, r, y, q, e1, e2, hx, hy⟩ := edgeOK_cons p t h
  unfold trim
  rw [e1, trimLeft_head p x r hx, ← e1, e2, trimRight_last p q y hy]

/-- one cut character behind a clean text goes away -/
theorem trim_edgeOK_snoc (p : Char → Bool) (t : Str) (z : Char) (hz : p z = true) (h : edgeOK p t = true) :
    trim p (t ++ [z]) = t := by
  obtain ⟨x, r, y, q, e1, e2, hx, hy⟩ := edgeOK_cons p t h
  unfold trim
  have : trimLeft p (t ++ [z]) = t ++ [z] := by rw [e1]; exact trimLeft_head p x _ hx
  rw [this]
  unfold trimRight
  rw [List.reverse_append]
  simp only [List.reverse_cons, List.reverse_nil, List.nil_append, List.singleton_append]
  rw [trimLeft_skip p z _ hz, e2, List.reverse_append]
  simp [trimLeft, hy]

/-- one cut character in front of a clean text goes away -/
theorem trim_edgeOK_cons (p : Char → Bool) (t : Str) (z : Char) (hz : p z = true) (h : edgeOK p t = true) :
    trim p (z :: t) = t := by
  unfold trim
  rw [trimLeft_skip p z t hz]
  exact trim_edgeOK p t h

/-! ## toLower -/

theorem toLower_id (t : Str) (h : t.all (fun c => !('A' ≤ c && c ≤ 'Z')) = true) : toLower t = t := by
  induction t with
  | nil => rfl
  | cons x r ih =>
    simp only [List.all_cons, Bool.and_eq_true] at h
    have hx : lowerChar x = x := by
      unfold lowerChar
      have := h.1
      simp at this
      split
      · rename_i hc
        rcases this with h' | h'
        · exact absurd hc.1 (Char.not_le.mpr h')
        · exact absurd hc.2 (Char.not_le.mpr h')
      · rfl
    simp only [toLower, List.map_cons, hx] at *
    rw [show List.map lowerChar r = r from ih h.2]

end GeomV.C20
