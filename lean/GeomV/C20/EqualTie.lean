import GeomV.C20.EqualGen
/-!
# Tie lemmas: the regenerated pieces of `equal` coincide with the hand-written model

`EqualGen.lean` is regenerated from the Go source on every run (pregen hook).  These lemmas break when
* a case of `equal` is changed (`genFloat`, `genInt`, `genBool`, `genString`, `genSliceLen`, `genSliceElem` are
  TRANSLATIONS of the case bodies; e.g. reading both slice operands from `f1` changes `genSliceElem`),
* a field is added to / removed from / retyped in `SR` or `datum` (`genSRVals`, `genDatumLeaves`),
* the loop, the switch, the pointer case, the default, `(*SR).Equal`, the statements of `NewTransform` before the
  closure, or `(*Decoder).SR` change (source-text pins).
-/
set_option linter.unusedSimpArgs false
set_option linter.unusedVariables false
namespace GeomV.C20
open Num

section
variable {α : Type} [Num α]

/-- the translated `Float64` case is the model's `feq` -/
theorem genFloat_eq (close : α → α → Bool) (x y : α) : genFloat close x y = feq close x y := by
  unfold genFloat feq
  cases h1 : isNaN x <;> cases h2 : isNaN y <;> cases h3 : close x y <;> simp [h1, h2, h3]

/-- the translated body of the slice element loop is the model's `feq` -/
theorem genSliceElem_eq (close : α → α → Bool) (x y : α) : genSliceElem close x y = feq close x y := by
  unfold genSliceElem feq
  cases h1 : isNaN x <;> cases h2 : isNaN y <;> cases h3 : close x y <;> simp [h1, h2, h3]

theorem genInt_eq (a b : Nat) : genInt a b = (a == b) := by
  unfold genInt; cases h : (a == b) <;> simp [bne, h]
theorem genBool_eq (a b : Bool) : genBool a b = (a == b) := by
  cases a <;> cases b <;> rfl
theorem genString_eq (a b : Str) : genString a b = (a == b) := by
  unfold genString; cases h : (a == b) <;> simp [bne, h]

theorem elemLoop_feq (close : α → α → Bool) : ∀ a b : List α, a.length = b.length →
    elemLoop (genSliceElem close) a b = sliceEq close a b
  | [], [], _ => rfl
  | x :: a, y :: b, h => by
    simp only [elemLoop, sliceEq, genSliceElem_eq]
    rw [elemLoop_feq close a b (by simpa using h)]
  | [], _ :: _, h => by simp at h
  | _ :: _, [], h => by simp at h

theorem sliceEq_len (close : α → α → Bool) : ∀ a b : List α, a.length ≠ b.length → sliceEq close a b = false
  | [], [], h => absurd rfl h
  | x :: a, y :: b, h => by
    simp only [sliceEq]
    rw [sliceEq_len close a b (by simpa using h)]; simp
  | [], _ :: _, _ => rfl
  | _ :: _, [], _ => rfl

/-- the translated `Slice` case (length test, then the element loop) is the model's `sliceEq` -/
theorem genSlice_eq (close : α → α → Bool) (a b : List α) :
    (genSliceLen a b && elemLoop (genSliceElem close) a b) = sliceEq close a b := by
  unfold genSliceLen
  by_cases h : a.length = b.length
  · simp [h, elemLoop_feq close a b h]
  · simp [h, sliceEq_len close a b h, bne]

/-- the walk over the regenerated field lists, with the regenerated case bodies -/
def genLeafEq (close : α → α → Bool) : Leaf α → Leaf α → Option Bool
  | .flt x, .flt y => some (genFloat close x y)
  | .int a, .int b => some (genInt a b)
  | .bool a, .bool b => some (genBool a b)
  | .str a, .str b => some (genString a b)
  | .slice a, .slice b => some (genSliceLen a b && elemLoop (genSliceElem close) a b)
  | _, _ => none

theorem genLeafEq_eq (close : α → α → Bool) (x y : Leaf α) : genLeafEq close x y = leafEq close x y := by
  cases x <;> cases y <;> simp [genLeafEq, leafEq, genFloat_eq, genInt_eq, genBool_eq, genString_eq, genSlice_eq]

/-- the walk with the regenerated case bodies -/
def genLeavesEq (close : α → α → Bool) : List (Leaf α) → List (Leaf α) → Option Bool
  | [], _ => some true
  | _ :: _, [] => none
  | x :: a, y :: b => stepO (genLeafEq close x y) (genLeavesEq close a b)

def genValEq (close : α → α → Bool) : FVal α → FVal α → Option Bool
  | .leaf x, .leaf y => genLeafEq close x y
  | .ptr (some a), .ptr (some b) => genLeavesEq close a b
  | _, _ => none

def genValsEq (close : α → α → Bool) : List (FVal α) → List (FVal α) → Option Bool
  | [], _ => some true
  | _ :: _, [] => none
  | x :: a, y :: b => stepO (genValEq close x y) (genValsEq close a b)

theorem genLeavesEq_eq (close : α → α → Bool) : ∀ a b, genLeavesEq close a b = leavesEq close a b
  | [], _ => rfl
  | _ :: _, [] => rfl
  | x :: a, y :: b => by simp only [genLeavesEq, leavesEq, genLeafEq_eq, genLeavesEq_eq close a b]

theorem genValEq_eq (close : α → α → Bool) (x y : FVal α) : genValEq close x y = valEq close x y := by
  cases x with
  | leaf x => cases y <;> simp [genValEq, valEq, genLeafEq_eq]
  | ptr o1 =>
    cases y with
    | leaf y => simp [genValEq, valEq]
    | ptr o2 => cases o1 <;> cases o2 <;> simp [genValEq, valEq, genLeavesEq_eq]

theorem genValsEq_eq (close : α → α → Bool) : ∀ a b, genValsEq close a b = valsEq close a b
  | [], _ => rfl
  | _ :: _, [] => rfl
  | x :: a, y :: b => by simp only [genValsEq, valsEq, genValEq_eq, genValsEq_eq close a b]

/-- `Equal` as the regenerated code computes it: the walk over the regenerated field list with the regenerated
case bodies -/
def genEqual (close : α → α → Bool) (p q : SR α) : Option Bool := genValsEq close (genSRVals p) (genSRVals q)

/-- the nil decision of `NewTransform` as regenerated: `if source.Equal(dest, 3) { return nil, nil }` is the only
statement before the closure that returns a nil transformer without an error (`newTransform_source_pins`) -/
def genNewTransformIsNil (closeUlp : Nat → α → α → Bool) (src dst : SR α) : Option Bool :=
  genEqual (closeUlp genNilUlp) src dst

/-! ### the walk is the conjunction -/

def andO (b : Bool) (r : Option Bool) : Option Bool := if b then r else some false

theorem andO_true (b : Bool) : andO b (some true) = some b := by cases b <;> rfl

theorem beq_decide {β : Type} [BEq β] [LawfulBEq β] [DecidableEq β] (a b : β) : (a == b) = decide (a = b) := by
  by_cases h : a = b <;> simp [h]

theorem some_and (b c : Bool) : some (b && c) = andO b (some c) := by cases b <;> rfl

theorem leavesEq_cons (close : α → α → Bool) (x y : Leaf α) (a c : List (Leaf α)) (b : Bool)
    (h : leafEq close x y = some b) : leavesEq close (x :: a) (y :: c) = andO b (leavesEq close a c) := by
  simp only [leavesEq, h, stepO]; cases b <;> rfl

theorem valsEq_cons_leaf (close : α → α → Bool) (x y : Leaf α) (a c : List (FVal α)) (b : Bool)
    (h : leafEq close x y = some b) : valsEq close (.leaf x :: a) (.leaf y :: c) = andO b (valsEq close a c) := by
  simp only [valsEq, valEq, h, stepO]; cases b <;> rfl

theorem valsEq_cons_ptr (close : α → α → Bool) (x y : List (Leaf α)) (a c : List (FVal α)) (b : Bool)
    (h : leavesEq close x y = some b) :
    valsEq close (.ptr (some x) :: a) (.ptr (some y) :: c) = andO b (valsEq close a c) := by
  simp only [valsEq, valEq, h, stepO]; cases b <;> rfl

theorem datumLeaves_eq (close : α → α → Bool) (d e : Datum α) :
    leavesEq close (genDatumLeaves d) (genDatumLeaves e) = some (datumEq close d e) := by
  unfold genDatumLeaves datumEq
  simp only [Bool.and_assoc, some_and]
  repeat (first
    | rw [leavesEq_cons close _ _ _ _ _ rfl]
    | rfl)
  simp only [leavesEq, andO_true, beq_decide]

/-- **the walk over the regenerated field list of `SR` is the model's `equalSR`** (for references that carry a
datum, i.e. every result of `Parse`) -/
theorem equalSR_eq_walk (close : α → α → Bool) (p q : SR α) (d e : Datum α) (hp : p.datum = some d) (hq : q.datum = some e) :
    valsEq close (genSRVals p) (genSRVals q) = equalSR close p q := by
  unfold genSRVals equalSR
  simp only [hp, hq, Option.map_some, Bool.and_assoc, some_and]
  repeat (first
    | rw [valsEq_cons_leaf close _ _ _ _ _ rfl]
    | rw [valsEq_cons_ptr close _ _ _ _ _ (datumLeaves_eq close d e)]
    | rfl)
  simp only [valsEq, andO_true, beq_decide]

/-- a nil `datum` on either side: the walk panics inside `reflect` unless an earlier field already differs -/
theorem andO_ne_true (b : Bool) (r : Option Bool) (h : r ≠ some true) : andO b r ≠ some true := by
  cases b <;> simp [andO, h]

theorem walk_nil_datum (close : α → α → Bool) (p q : SR α) (h : p.datum = none ∨ q.datum = none) :
    valsEq close (genSRVals p) (genSRVals q) ≠ some true := by
  unfold genSRVals
  repeat rw [valsEq_cons_leaf close _ _ _ _ _ rfl]
  repeat apply andO_ne_true
  rcases h with h | h
  · simp [h, valsEq, valEq, stepO]
  · cases hp : p.datum <;> simp [h, valsEq, valEq, stepO]

end

/-! ### source-text pins (regenerated strings compared with what the model assumes) -/

/-- the loop of `equal`, what it switches on, the kinds it handles, the pointer case (recursive call on the
pointed-to structs with the same tolerance), the default (panic), and `(*SR).Equal` (passes its `ulp` on) -/
theorem equal_source_pins :
    genEqualLoop = "i := 0; i < v1.NumField(); i++"
    ∧ genEqualSwitch = "f1 := v1.Field(i); f2 := v2.Field(i); ft := f1.Type().Kind(); switch ft"
    ∧ genEqualTail = "return true"
    ∧ genEqualDefault = "panic(fmt.Errorf(\"unsupported type %s\", ft))"
    ∧ genEqualKinds = ["Float64", "Int", "Bool", "Ptr", "String", "Slice"]
    ∧ genSliceLoop = "i := 0; i < f1.Len(); i++" ∧ genSliceAfterLoop = 0
    ∧ genPtrCase = "if !equal(reflect.Indirect(f1), reflect.Indirect(f2), ulp) { return false };"
    ∧ genEqualMethod = "v1 := reflect.ValueOf(sr).Elem() ;; v2 := reflect.ValueOf(sr2).Elem() ;; return equal(v1, v2, ulp)" :=
  ⟨rfl, rfl, rfl, rfl, rfl, rfl, rfl, rfl, rfl⟩

/-- `NewTransform` before the closure: nil destination is an error; `source.Equal(dest, 3)` ⇒ `return nil, nil`;
nothing else decides nil-ness -/
theorem newTransform_source_pins :
    genNewTransformPre = "if dest == nil { return nil, fmt.Errorf(\"proj: destination is nil\") } ;; const ulpTolerance = 3 ;; if source.Equal(dest, 3) { return nil, nil }"
    ∧ genNilUlp = 3 := ⟨rfl, rfl⟩

/-- `(*Decoder).SR`: read `<name>.prj`, parse its bytes; nothing else -/
theorem decoderSR_source_pin :
    genDecoderSR = "b, err := ioutil.ReadFile(r.filename + \".prj\") ;; if err != nil { return nil, err } ;; return proj.Parse(string(b))" := rfl

end GeomV.C20
