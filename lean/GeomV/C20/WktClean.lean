import GeomV.C20.WktCoreOK
/-!
# The rendered WKT tree is over the lexer's alphabet
-/
set_option linter.unusedSimpArgs false
set_option linter.unusedVariables false
namespace GeomV.C20
open Num

theorem cleanL_append : ∀ (A B : List WArg), WArg.cleanL (A ++ B) = (WArg.cleanL A && WArg.cleanL B)
  | [], B => by simp [WArg.cleanL]
  | x :: A, B => by simp [WArg.cleanL, cleanL_append A B, Bool.and_assoc]

theorem clean_num (d : Dec) (h : NumOK d) : WArg.clean (.num d) = true := by
  have ha := h.alpha
  rw [List.all_eq_true] at ha
  simp only [WArg.clean, txtOK, List.all_eq_true, Bool.and_eq_true, bne_iff_ne, ne_eq]
  intro ch hc
  have := numCh_ne ch (ha ch hc)
  refine ⟨⟨?_, ?_⟩, this.1⟩
  · intro e; subst e; have := ha _ hc; revert this; decide
  · intro e; subst e; have := ha _ hc; revert this; decide

theorem txtOK_num (d : Dec) (h : NumOK d) : txtOK (renderDec d) = true := by
  have := clean_num d h
  simpa [WArg.clean] using this

theorem nm_ok : nameOK "SPHEROID".toList = true ∧ nameOK "TOWGS84".toList = true ∧ nameOK "DATUM".toList = true ∧
    nameOK "PRIMEM".toList = true ∧ nameOK "UNIT".toList = true ∧ nameOK "GEOGCS".toList = true ∧ nameOK "AUTHORITY".toList = true ∧
    nameOK "AXIS".toList = true ∧ nameOK "PROJCS".toList = true ∧ nameOK "PROJECTION".toList = true ∧ nameOK "PARAMETER".toList = true := by
  decide

theorem clean_auth (st : Style) (code : String) (hc : txtOK code.toList = true) : WArg.cleanL (authArg st code) = true := by
  unfold authArg
  split
  · simp only [WArg.cleanL, WArg.clean, Bool.and_true, Bool.and_eq_true, firstSimple, WArg.isSimple, hc]
    decide
  · rfl

theorem cleanL_au (st : Style) (code : String) (hc : txtOK code.toList = true) (body : List WArg) (hb : WArg.cleanL body = true) :
    WArg.cleanL (wktAu st code body) = true := by
  unfold wktAu
  split <;> simp [cleanL_append, clean_auth st code hc, hb]

section
variable (c : Crs) (st : Style) (hnum : ∀ d ∈ decsOf c, NumOK d) (hdw : datumWF c = true)

include hnum in
theorem clean_sph : WArg.clean (wktSph c st) = true := by
  unfold wktSph
  simp [WArg.clean, firstSimple, WArg.isSimple, WArg.cleanL, cleanL_append,
    txtOK_num _ (hnum c.a (by simp [decsOf])), txtOK_num _ (hnum c.rf (by simp [decsOf])), clean_auth st "7019" (by decide), sphName_ok,
    nm_ok.1] <;> decide

include hnum hdw in
theorem cleanL_tw : WArg.cleanL (wktTw c) = true := by
  unfold wktTw
  cases hd : c.datum <;> cases ht : c.towgs <;> try rfl
  rename_i ds
  have hds : ∀ d ∈ ds, NumOK d := fun d hm => hnum d (by simp [decsOf, ht, hm])
  have hne : ds ≠ [] := by
    intro e
    unfold datumWF at hdw
    rw [hd, ht, e] at hdw
    simp at hdw
  have hall : ∀ l : List Dec, (∀ d ∈ l, NumOK d) → WArg.cleanL (l.map .num) = true := by
    intro l hl
    induction l with
    | nil => rfl
    | cons d r ih => simp [WArg.cleanL, clean_num d (hl d (by simp)), ih (fun x hx => hl x (by simp [hx]))]
  obtain ⟨d, r, rfl⟩ := List.exists_cons_of_ne_nil hne
  have := hall _ hds
  simp only [List.map_cons] at this
  simp [WArg.cleanL, WArg.clean, this, nm_ok.2.1, firstSimple, WArg.isSimple] <;> decide

include hnum hdw in
theorem clean_datum : WArg.clean (wktDatum c st) = true := by
  have hfacts := datumName_facts c st
  unfold datumNameCheck at hfacts
  simp only [Bool.and_eq_true] at hfacts
  have htxt := hfacts.1.1.1.1.1.1
  have hbody : WArg.cleanL (wktDatumBody c st) = true := by
    unfold wktDatumBody
    split <;> simp [cleanL_append, WArg.cleanL, clean_sph c st hnum, cleanL_tw c hnum hdw]
  unfold wktDatum
  simp [WArg.clean, firstSimple, WArg.isSimple, WArg.cleanL, htxt, cleanL_au st "6269" (by decide) _ hbody, nm_ok.2.2.1] <;> decide

include hnum in
theorem clean_primem : WArg.clean (wktPrimem st) = true := by
  have hz : NumOK ⟨0, if st.esri then 1 else 0⟩ := by
    cases st.esri
    · exact hnum ⟨0, 0⟩ (by simp [decsOf])
    · exact hnum ⟨0, 1⟩ (by simp [decsOf])
  unfold wktPrimem
  simp [WArg.clean, firstSimple, WArg.isSimple, WArg.cleanL, cleanL_append, txtOK_num _ hz,
    clean_auth st "8901" (by decide), nm_ok.2.2.2.1, show txtOK "Greenwich".toList = true by decide] <;> decide

include hnum in
theorem clean_degunit : WArg.clean (wktDegUnit st) = true := by
  have hu : txtOK (if st.esri then "Degree" else "degree" : String).toList = true := by split <;> decide
  unfold wktDegUnit
  simp [WArg.clean, firstSimple, WArg.isSimple, WArg.cleanL, cleanL_append,
    txtOK_num _ (hnum degDec (by simp [decsOf])), clean_auth st "9122" (by decide), hu, nm_ok.2.2.2.2.1] <;> decide

include hnum hdw in
theorem clean_geog (top : Bool) : WArg.clean (wktGeog c st top) = true := by
  have hgn : txtOK (wktGeogName c st).toList = true := by unfold wktGeogName; cases c.datum <;> cases st.esri <;> decide
  have hax : WArg.cleanL (wktGeogAxes st top) = true := by unfold wktGeogAxes; split <;> decide
  have hbody : WArg.cleanL (wktGeogBody c st top) = true := by
    unfold wktGeogBody
    apply cleanL_au st "4269" (by decide)
    simp [cleanL_append, WArg.cleanL, clean_datum c st hnum hdw, clean_primem c st hnum, clean_degunit c st hnum, hax]
  unfold wktGeog
  simp [WArg.clean, firstSimple, WArg.isSimple, WArg.cleanL, hgn, hbody, nm_ok.2.2.2.2.2.1] <;> decide

theorem clean_par (nm1 nm2 : String) (d : Dec) (h1 : txtOK nm1.toList = true) (h2 : txtOK nm2.toList = true) (hd : NumOK d) :
    WArg.clean (par st nm1 nm2 d) = true := by
  unfold par
  cases st.esri <;> simp [WArg.clean, firstSimple, WArg.isSimple, WArg.cleanL, h1, h2, txtOK_num d hd] <;> decide

include hnum in
theorem cleanL_params : WArg.cleanL (wktParams c st) = true := by
  have h0 := hnum c.lat0 (by simp [decsOf])
  have h1 := hnum c.lat1 (by simp [decsOf])
  have h2 := hnum c.lat2 (by simp [decsOf])
  have h4 := hnum c.lon0 (by simp [decsOf])
  have h5 := hnum c.k0 (by simp [decsOf])
  have h6 := hnum c.fe (by simp [decsOf])
  have h7 := hnum c.fn (by simp [decsOf])
  have key : ∀ (q : Nat × WArg → Bool) (l : List (Nat × WArg)), (∀ p ∈ l, WArg.clean p.2 = true) →
      WArg.cleanL ((l.filter q).map (·.2)) = true := by
    intro q l hl
    induction l with
    | nil => rfl
    | cons p r ih =>
      have ihr := ih (fun x hx => hl x (by simp [hx]))
      rw [List.filter_cons]
      split
      · simp only [List.map_cons, WArg.cleanL, hl p (by simp), Bool.true_and]
        exact ihr
      · exact ihr
  unfold wktParams
  apply key
  intro p hp
  cases hk : c.kind <;> cases he : st.esri <;> simp only [hk, he, List.mem_cons, List.mem_nil_iff, or_false, if_true, if_false,
    Bool.false_eq_true] at hp
  all_goals first
    | exact hp.elim
    | (rcases hp with rfl | rfl | rfl | rfl | rfl | rfl <;> apply clean_par <;> first | decide | assumption)
    | (rcases hp with rfl | rfl | rfl | rfl | rfl <;> apply clean_par <;> first | decide | assumption)
    | (rcases hp with rfl | rfl | rfl | rfl <;> apply clean_par <;> first | decide | assumption)

include hnum in
theorem clean_unitW : WArg.clean (wktUnit c st) = true := by
  rw [wktUnit_eq]
  have hd : NumOK (wktUnitDec c) := by
    unfold wktUnitDec
    cases c.unit
    · exact hnum ⟨1, 0⟩ (by simp [decsOf])
    · exact hnum ⟨3048, 4⟩ (by simp [decsOf])
    · exact hnum usFootDecQ (by simp [decsOf])
    · exact hnum usFootDecQ (by simp [decsOf])
  have hu : txtOK (wktUnitName c st).toList = true := by unfold wktUnitName; cases c.unit <;> cases st.esri <;> decide
  have ha : WArg.cleanL (wktUnitAuth c st) = true := by unfold wktUnitAuth; cases c.unit <;> exact clean_auth st _ (by decide)
  simp [WArg.clean, firstSimple, WArg.isSimple, WArg.cleanL, cleanL_append, hu, txtOK_num _ hd, ha] <;> decide

theorem clean_projection (hk : c.kind ≠ .geog) : WArg.clean (wktProjection c st) = true := by
  obtain ⟨h1, _, _, _⟩ := projName_facts c st hk
  unfold wktProjection
  have ha : WArg.cleanL (if st.esri then [] else authArg st "9802") = true := by
    split
    · rfl
    · exact clean_auth st _ (by decide)
  simp [WArg.clean, firstSimple, WArg.isSimple, WArg.cleanL, cleanL_append, h1, ha] <;> decide

theorem cleanL_take_drop (l : List WArg) (n : Nat) (h : WArg.cleanL l = true) : WArg.cleanL (l.take n) = true ∧ WArg.cleanL (l.drop n) = true := by
  induction l generalizing n with
  | nil => simp [WArg.cleanL]
  | cons x r ih =>
    simp only [WArg.cleanL, Bool.and_eq_true] at h
    cases n with
    | zero => simp [WArg.cleanL, h.1, h.2]
    | succ m => simp [WArg.cleanL, h.1, (ih m h.2).1, (ih m h.2).2]

include hnum hdw in
/-- **the rendered WKT tree is over the lexer's alphabet** -/
theorem clean_tree : WArg.cleanL [toWktTree c st] = true := by
  unfold toWktTree
  by_cases hk : c.kind = .geog
  · rw [if_pos hk]; simp [WArg.cleanL, clean_geog c st hnum hdw true]
  · rw [if_neg hk]
    have hps := cleanL_params c st hnum
    have hu := clean_unitW c st hnum
    have hj := clean_projection c st hk
    have hg := clean_geog c st hnum hdw false
    have hax : WArg.cleanL (wktPAxes st) = true := by unfold wktPAxes; split <;> decide
    have hpsU : WArg.cleanL (wktPsU c st) = true := by
      unfold wktPsU
      split
      · simp [cleanL_append, WArg.cleanL, (cleanL_take_drop _ 2 hps).1, (cleanL_take_drop _ 2 hps).2, hu]
      · exact hps
    have hcore : WArg.cleanL (wktPCore c st) = true := by
      rw [wktPCore_eq]
      simp only []
      cases st.projLast <;> cases st.geogLast <;> (repeat' split) <;> simp [cleanL_append, WArg.cleanL, hpsU, hu, hj, hg, hax]
    have hpn : txtOK (wktPName st).toList = true := by unfold wktPName; split <;> decide
    simp [WArg.cleanL, WArg.clean, firstSimple, WArg.isSimple, hpn, cleanL_au st "26910" (by decide) _ hcore] <;> decide

end

end GeomV.C20
