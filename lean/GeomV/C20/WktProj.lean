import GeomV.C20.WktGeog
/-!
# WKT at token level: the sections of PROJCS
-/
set_option linter.unusedSimpArgs false
set_option linter.unusedVariables false
namespace GeomV.C20
open Num

/-- the state between the sections of a PROJCS: the projection name read so far is neither of the two
names that change what UNIT and DATUM do -/
def InvP (sr : SR XR) : Prop := sr.name ≠ s "longlat" ∧ sr.name ≠ s "Mercator_Auxiliary_Sphere"

abbrev stepP (sp : Bool) (f : Nat) := sectionStep (treeOps (sepOf sp)) (parseWKTSectionG (α := XR) (treeOps (sepOf sp)) (f + 2)) pP

/-! ## PARAMETER -/

theorem degX_eq (q : Rat) : Num.mul (some q : XR) (deg2rad : XR) = some (q * deg2radQ) := rfl

section pnames
variable (sr : SR XR) (v : XR)
theorem ps_fe : paramSet sr (paramNameOf "false_easting") v = ok { sr with x0 := v } := rfl
theorem ps_FE : paramSet sr (paramNameOf "False_Easting") v = ok { sr with x0 := v } := rfl
theorem ps_fn : paramSet sr (paramNameOf "false_northing") v = ok { sr with y0 := v } := rfl
theorem ps_FN : paramSet sr (paramNameOf "False_Northing") v = ok { sr with y0 := v } := rfl
theorem ps_cm : paramSet sr (paramNameOf "central_meridian") v = ok { sr with long0 := Num.mul v deg2rad } := rfl
theorem ps_CM : paramSet sr (paramNameOf "Central_Meridian") v = ok { sr with long0 := Num.mul v deg2rad } := rfl
theorem ps_sp1 : paramSet sr (paramNameOf "standard_parallel_1") v = ok { sr with lat1 := Num.mul v deg2rad } := rfl
theorem ps_SP1 : paramSet sr (paramNameOf "Standard_Parallel_1") v = ok { sr with lat1 := Num.mul v deg2rad } := rfl
theorem ps_sp2 : paramSet sr (paramNameOf "standard_parallel_2") v = ok { sr with lat2 := Num.mul v deg2rad } := rfl
theorem ps_SP2 : paramSet sr (paramNameOf "Standard_Parallel_2") v = ok { sr with lat2 := Num.mul v deg2rad } := rfl
theorem ps_sf : paramSet sr (paramNameOf "scale_factor") v = ok { sr with k0 := v } := rfl
theorem ps_SF : paramSet sr (paramNameOf "Scale_Factor") v = ok { sr with k0 := v } := rfl
theorem ps_lo : paramSet sr (paramNameOf "latitude_of_origin") v = ok { sr with lat0 := Num.mul v deg2rad } := rfl
theorem ps_LO : paramSet sr (paramNameOf "Latitude_Of_Origin") v = ok { sr with lat0 := Num.mul v deg2rad } := rfl
theorem ps_lc : paramSet sr (paramNameOf "latitude_of_center") v = ok { sr with lat0 := Num.mul v deg2rad } := rfl
theorem ps_lonc : paramSet sr (paramNameOf "longitude_of_center") v = ok { sr with longC := Num.mul v deg2rad } := rfl
end pnames

/-- a PARAMETER section whose name selects the update `e` -/
theorem run_param (sp : Bool) (f : Nat) (nm : String) (d : Dec) (hn : txtOK nm.toList = true) (hd : NumOK d)
    (e : XR → SR XR → SR XR) (he : ∀ sr v, paramSet sr (paramNameOf nm) v = ok (e v sr))
    (hname : ∀ sr v, (e v sr).name = sr.name) :
    Runs (stepP sp f) InvP (s "PARAMETER", [.q nm, .num d]) (e (some d.toRat)) := by
  intro sr hi
  refine ⟨?_, ?_⟩
  · show sectionStep (treeOps (sepOf sp)) _ pP _ sr = _
    rw [d_p_parameter, param_leaf sp sr nm d hn hd, he]
  · unfold InvP; rw [hname]; exact hi

/-! ## the effects of the four kinds of section, as uniform record updates -/

def wLat0 (c : Crs) (x : XR) : XR := match c.kind with | .geog => x | .merc => x | _ => degX c.lat0
def wLat1 (c : Crs) (x : XR) : XR := match c.kind with | .geog => x | .merc => x | .tmerc => x | _ => degX c.lat1
def wLat2 (c : Crs) (x : XR) : XR := match c.kind with | .geog => x | .merc => x | .tmerc => x | _ => degX c.lat2
def wLong0 (c : Crs) (st : Style) (x : XR) : XR :=
  match c.kind with
  | .geog => x
  | .aea => if st.esri then degX c.lon0 else x
  | .eqdc => if st.esri then degX c.lon0 else x
  | _ => degX c.lon0
def wLongC (c : Crs) (st : Style) (x : XR) : XR :=
  match c.kind with
  | .aea => if st.esri then x else degX c.lon0
  | .eqdc => if st.esri then x else degX c.lon0
  | _ => x
def wK0 (c : Crs) (x : XR) : XR := match c.kind with | .merc => some c.k0.toRat | .tmerc => some c.k0.toRat | _ => x
def wX0 (c : Crs) (x : XR) : XR := match c.kind with | .geog => x | _ => some c.fe.toRat
def wY0 (c : Crs) (x : XR) : XR := match c.kind with | .geog => x | _ => some c.fn.toRat

/-- all PARAMETER sections of the description -/
def effParamsW (c : Crs) (st : Style) (sr : SR XR) : SR XR :=
  { sr with lat0 := wLat0 c sr.lat0, lat1 := wLat1 c sr.lat1, lat2 := wLat2 c sr.lat2, long0 := wLong0 c st sr.long0,
            longC := wLongC c st sr.longC, k0 := wK0 c sr.k0, x0 := wX0 c sr.x0, y0 := wY0 c sr.y0 }

def wktUnitName (c : Crs) (st : Style) : String :=
  match c.unit with
  | .metre => if st.esri then "Meter" else "metre"
  | .foot => if st.esri then "Foot" else "foot"
  | _ => if st.esri then "Foot_US" else "US survey foot"

def wktUnitDec (c : Crs) : Dec := match c.unit with | .metre => ⟨1, 0⟩ | .foot => ⟨3048, 4⟩ | _ => usFootDecQ

def wktUnitAuth (c : Crs) (st : Style) : List WArg :=
  match c.unit with | .metre => authArg st "9001" | .foot => authArg st "9002" | _ => authArg st "9003"

theorem wktUnit_eq (c : Crs) (st : Style) : wktUnit c st = .sub "UNIT" ([.q (wktUnitName c st), .num (wktUnitDec c)] ++ wktUnitAuth c st) := by
  unfold wktUnit wktUnitName wktUnitDec wktUnitAuth
  cases c.unit <;> rfl

/-- the linear UNIT of a PROJCS -/
def effUnitW (c : Crs) (st : Style) (sr : SR XR) : SR XR :=
  { sr with units := unitNameOf (wktUnitName c st), toMeter := some (wktUnitDec c).toRat }

def effProjW (c : Crs) (st : Style) (sr : SR XR) : SR XR := { sr with name := (wktProjName c.kind st.esri).toList }

section kids
variable (sp : Bool) (c : Crs) (st : Style) (hnum : ∀ d ∈ decsOf c, NumOK d) (hdw : datumWF c = true) (hk : c.kind ≠ .geog)

include hnum in
theorem run_unitW (f : Nat) : Runs (stepP sp f) InvP
    (s "UNIT", [.q (wktUnitName c st), .num (wktUnitDec c)] ++ wktUnitAuth c st) (effUnitW c st) := by
  intro sr hi
  have hd : NumOK (wktUnitDec c) := by
    unfold wktUnitDec
    cases c.unit
    · exact hnum ⟨1, 0⟩ (by simp [decsOf])
    · exact hnum ⟨3048, 4⟩ (by simp [decsOf])
    · exact hnum usFootDecQ (by simp [decsOf])
    · exact hnum usFootDecQ (by simp [decsOf])
  have hu : txtOK (wktUnitName c st).toList = true := by
    unfold wktUnitName; cases c.unit <;> cases st.esri <;> decide
  have hauth : wktUnitAuth c st = [] ∨ ∃ z, wktUnitAuth c st = [z] := by
    unfold wktUnitAuth; cases c.unit <;> exact authArg_shape st _
  refine ⟨?_, hi⟩
  show sectionStep (treeOps (sepOf sp)) _ pP _ sr = _
  rw [d_p_unit, unit_leaf sp sr _ _ hu hd _ hauth]
  simp only [hi.1, if_false]
  rfl

include hk in
theorem projName_facts : txtOK (wktProjName c.kind st.esri).toList = true ∧ wordEdgesB (wktProjName c.kind st.esri).toList = true ∧
    (wktProjName c.kind st.esri).toList ≠ s "longlat" ∧ (wktProjName c.kind st.esri).toList ≠ s "Mercator_Auxiliary_Sphere" := by
  cases hkk : c.kind <;> cases st.esri <;> first | exact absurd hkk hk | decide

include hk in
theorem run_projW (f : Nat) : Runs (stepP sp f) InvP
    (s "PROJECTION", [.q (wktProjName c.kind st.esri)] ++ (if st.esri then [] else authArg st "9802")) (effProjW c st) := by
  obtain ⟨h1, h2, h3, h4⟩ := projName_facts c st hk
  have hauth : (if st.esri then [] else authArg st "9802") = [] ∨ ∃ z, (if st.esri then [] else authArg st "9802") = [z] := by
    cases st.esri
    · exact authArg_shape st _
    · exact Or.inl rfl
  intro sr hi
  refine ⟨?_, ⟨h3, h4⟩⟩
  show sectionStep (treeOps (sepOf sp)) _ pP _ sr = _
  rw [d_p_projection, projection_leaf sp sr _ h1 (wordEdges_of_B _ h2) _ hauth]
  rfl

attribute [local irreducible] ellpsOf datumCodeOf in
include hnum hdw in
theorem run_geogW (f : Nat) : Runs (stepP sp f) InvP
    (s "GEOGCS", [.q (wktGeogName c st)] ++ wktGeogBody c st false) (effGeogNode c st false) := by
  intro sr hi
  have hg := geog_node sp false c st hnum hdw f sr (Or.inr hi)
  simp only [wOf, Bool.false_eq_true, if_false, id, pathG] at hg
  refine ⟨?_, ?_⟩
  · show sectionStep (treeOps (sepOf sp)) _ pP _ sr = _
    rw [d_p_geogcs, hg]
    rfl
  · have e : (effGeogNode c st false sr).name = sr.name := by
      unfold effGeogNode effGeogKids effDatumNode effDatumKids
      simp only [Function.comp, effTw_name, Bool.false_eq_true, if_false, id]
      rfl
    unfold InvP; rw [e]; exact hi

theorem run_noopP (f : Nat) (n : String) (as : List WArg) (hn : n = "AXIS" ∨ n = "AUTHORITY") :
    Runs (stepP sp f) InvP (s n, as) id := by
  intro sr hi
  rcases hn with rfl | rfl <;> exact ⟨rfl, hi⟩

end kids

/-! ## the PARAMETER sections, with the linear UNIT possibly between them -/

section params
variable (sp : Bool) (c : Crs) (st : Style) (hnum : ∀ d ∈ decsOf c, NumOK d) (hlo : st.leaveOut = 0)

/-- the PARAMETER list, with UNIT after the second one when the style says so -/
def wktPsU (c : Crs) (st : Style) : List WArg :=
  if st.unitPos = 2 then (wktParams c st).take 2 ++ [wktUnit c st] ++ (wktParams c st).drop 2 else wktParams c st

def effPsU (c : Crs) (st : Style) : SR XR → SR XR := if st.unitPos = 2 then effUnitW c st ∘ effParamsW c st else effParamsW c st

include hnum hlo in
theorem runL_psU_merc_e (f : Nat) (hk : c.kind = .merc) (he : st.esri = true) :
    RunsL (stepP sp f) InvP (subsOf (wktPsU c st)) (effPsU c st) := by
  have hps : subsOf (wktParams c st) = [(s "PARAMETER", [WArg.q "False_Easting", WArg.num c.fe]), (s "PARAMETER", [WArg.q "False_Northing", WArg.num c.fn]), (s "PARAMETER", [WArg.q "Central_Meridian", WArg.num c.lon0]), (s "PARAMETER", [WArg.q "Scale_Factor", WArg.num c.k0])] := by
    simp [wktParams, hk, he, hlo, par, subsOf, s]
  have hpsU : subsOf ((wktParams c st).take 2 ++ [wktUnit c st] ++ (wktParams c st).drop 2) = [(s "PARAMETER", [WArg.q "False_Easting", WArg.num c.fe]), (s "PARAMETER", [WArg.q "False_Northing", WArg.num c.fn]), (s "UNIT", [WArg.q (wktUnitName c st), WArg.num (wktUnitDec c)] ++ wktUnitAuth c st), (s "PARAMETER", [WArg.q "Central_Meridian", WArg.num c.lon0]), (s "PARAMETER", [WArg.q "Scale_Factor", WArg.num c.k0])] := by
    rw [wktUnit_eq]
    simp [wktParams, hk, he, hlo, par, subsOf, s]
  unfold wktPsU effPsU
  by_cases hu : st.unitPos = 2
  · rw [if_pos hu, if_pos hu, hpsU]
    refine runsL_congr (runsL_cons (run_param sp f "False_Easting" c.fe (by decide) (hnum c.fe (by simp [decsOf])) (fun v sr => { sr with x0 := v }) (fun sr v => ps_FE sr v) (fun _ _ => rfl)) (runsL_cons (run_param sp f "False_Northing" c.fn (by decide) (hnum c.fn (by simp [decsOf])) (fun v sr => { sr with y0 := v }) (fun sr v => ps_FN sr v) (fun _ _ => rfl)) (runsL_cons (run_unitW sp c st hnum f) (runsL_cons (run_param sp f "Central_Meridian" c.lon0 (by decide) (hnum c.lon0 (by simp [decsOf])) (fun v sr => { sr with long0 := Num.mul v deg2rad }) (fun sr v => ps_CM sr v) (fun _ _ => rfl)) (runsL_single (run_param sp f "Scale_Factor" c.k0 (by decide) (hnum c.k0 (by simp [decsOf])) (fun v sr => { sr with k0 := v }) (fun sr v => ps_SF sr v) (fun _ _ => rfl))))))) ?_
    funext sr
    simp only [Function.comp, effParamsW, effUnitW, wLat0, wLat1, wLat2, wLong0, wLongC, wK0, wX0, wY0, hk, he, degX_eq, degX, if_true, if_false,
      Bool.false_eq_true]
  · rw [if_neg hu, if_neg hu, hps]
    refine runsL_congr (runsL_cons (run_param sp f "False_Easting" c.fe (by decide) (hnum c.fe (by simp [decsOf])) (fun v sr => { sr with x0 := v }) (fun sr v => ps_FE sr v) (fun _ _ => rfl)) (runsL_cons (run_param sp f "False_Northing" c.fn (by decide) (hnum c.fn (by simp [decsOf])) (fun v sr => { sr with y0 := v }) (fun sr v => ps_FN sr v) (fun _ _ => rfl)) (runsL_cons (run_param sp f "Central_Meridian" c.lon0 (by decide) (hnum c.lon0 (by simp [decsOf])) (fun v sr => { sr with long0 := Num.mul v deg2rad }) (fun sr v => ps_CM sr v) (fun _ _ => rfl)) (runsL_single (run_param sp f "Scale_Factor" c.k0 (by decide) (hnum c.k0 (by simp [decsOf])) (fun v sr => { sr with k0 := v }) (fun sr v => ps_SF sr v) (fun _ _ => rfl)))))) ?_
    funext sr
    simp only [Function.comp, effParamsW, wLat0, wLat1, wLat2, wLong0, wLongC, wK0, wX0, wY0, hk, he, degX_eq, degX, if_true, if_false,
      Bool.false_eq_true]

include hnum hlo in
theorem runL_psU_merc_o (f : Nat) (hk : c.kind = .merc) (he : st.esri = false) :
    RunsL (stepP sp f) InvP (subsOf (wktPsU c st)) (effPsU c st) := by
  have hps : subsOf (wktParams c st) = [(s "PARAMETER", [WArg.q "central_meridian", WArg.num c.lon0]), (s "PARAMETER", [WArg.q "scale_factor", WArg.num c.k0]), (s "PARAMETER", [WArg.q "false_easting", WArg.num c.fe]), (s "PARAMETER", [WArg.q "false_northing", WArg.num c.fn])] := by
    simp [wktParams, hk, he, hlo, par, subsOf, s]
  have hpsU : subsOf ((wktParams c st).take 2 ++ [wktUnit c st] ++ (wktParams c st).drop 2) = [(s "PARAMETER", [WArg.q "central_meridian", WArg.num c.lon0]), (s "PARAMETER", [WArg.q "scale_factor", WArg.num c.k0]), (s "UNIT", [WArg.q (wktUnitName c st), WArg.num (wktUnitDec c)] ++ wktUnitAuth c st), (s "PARAMETER", [WArg.q "false_easting", WArg.num c.fe]), (s "PARAMETER", [WArg.q "false_northing", WArg.num c.fn])] := by
    rw [wktUnit_eq]
    simp [wktParams, hk, he, hlo, par, subsOf, s]
  unfold wktPsU effPsU
  by_cases hu : st.unitPos = 2
  · rw [if_pos hu, if_pos hu, hpsU]
    refine runsL_congr (runsL_cons (run_param sp f "central_meridian" c.lon0 (by decide) (hnum c.lon0 (by simp [decsOf])) (fun v sr => { sr with long0 := Num.mul v deg2rad }) (fun sr v => ps_cm sr v) (fun _ _ => rfl)) (runsL_cons (run_param sp f "scale_factor" c.k0 (by decide) (hnum c.k0 (by simp [decsOf])) (fun v sr => { sr with k0 := v }) (fun sr v => ps_sf sr v) (fun _ _ => rfl)) (runsL_cons (run_unitW sp c st hnum f) (runsL_cons (run_param sp f "false_easting" c.fe (by decide) (hnum c.fe (by simp [decsOf])) (fun v sr => { sr with x0 := v }) (fun sr v => ps_fe sr v) (fun _ _ => rfl)) (runsL_single (run_param sp f "false_northing" c.fn (by decide) (hnum c.fn (by simp [decsOf])) (fun v sr => { sr with y0 := v }) (fun sr v => ps_fn sr v) (fun _ _ => rfl))))))) ?_
    funext sr
    simp only [Function.comp, effParamsW, effUnitW, wLat0, wLat1, wLat2, wLong0, wLongC, wK0, wX0, wY0, hk, he, degX_eq, degX, if_true, if_false,
      Bool.false_eq_true]
  · rw [if_neg hu, if_neg hu, hps]
    refine runsL_congr (runsL_cons (run_param sp f "central_meridian" c.lon0 (by decide) (hnum c.lon0 (by simp [decsOf])) (fun v sr => { sr with long0 := Num.mul v deg2rad }) (fun sr v => ps_cm sr v) (fun _ _ => rfl)) (runsL_cons (run_param sp f "scale_factor" c.k0 (by decide) (hnum c.k0 (by simp [decsOf])) (fun v sr => { sr with k0 := v }) (fun sr v => ps_sf sr v) (fun _ _ => rfl)) (runsL_cons (run_param sp f "false_easting" c.fe (by decide) (hnum c.fe (by simp [decsOf])) (fun v sr => { sr with x0 := v }) (fun sr v => ps_fe sr v) (fun _ _ => rfl)) (runsL_single (run_param sp f "false_northing" c.fn (by decide) (hnum c.fn (by simp [decsOf])) (fun v sr => { sr with y0 := v }) (fun sr v => ps_fn sr v) (fun _ _ => rfl)))))) ?_
    funext sr
    simp only [Function.comp, effParamsW, wLat0, wLat1, wLat2, wLong0, wLongC, wK0, wX0, wY0, hk, he, degX_eq, degX, if_true, if_false,
      Bool.false_eq_true]

include hnum hlo in
theorem runL_psU_tmerc_e (f : Nat) (hk : c.kind = .tmerc) (he : st.esri = true) :
    RunsL (stepP sp f) InvP (subsOf (wktPsU c st)) (effPsU c st) := by
  have hps : subsOf (wktParams c st) = [(s "PARAMETER", [WArg.q "False_Easting", WArg.num c.fe]), (s "PARAMETER", [WArg.q "False_Northing", WArg.num c.fn]), (s "PARAMETER", [WArg.q "Central_Meridian", WArg.num c.lon0]), (s "PARAMETER", [WArg.q "Scale_Factor", WArg.num c.k0]), (s "PARAMETER", [WArg.q "Latitude_Of_Origin", WArg.num c.lat0])] := by
    simp [wktParams, hk, he, hlo, par, subsOf, s]
  have hpsU : subsOf ((wktParams c st).take 2 ++ [wktUnit c st] ++ (wktParams c st).drop 2) = [(s "PARAMETER", [WArg.q "False_Easting", WArg.num c.fe]), (s "PARAMETER", [WArg.q "False_Northing", WArg.num c.fn]), (s "UNIT", [WArg.q (wktUnitName c st), WArg.num (wktUnitDec c)] ++ wktUnitAuth c st), (s "PARAMETER", [WArg.q "Central_Meridian", WArg.num c.lon0]), (s "PARAMETER", [WArg.q "Scale_Factor", WArg.num c.k0]), (s "PARAMETER", [WArg.q "Latitude_Of_Origin", WArg.num c.lat0])] := by
    rw [wktUnit_eq]
    simp [wktParams, hk, he, hlo, par, subsOf, s]
  unfold wktPsU effPsU
  by_cases hu : st.unitPos = 2
  · rw [if_pos hu, if_pos hu, hpsU]
    refine runsL_congr (runsL_cons (run_param sp f "False_Easting" c.fe (by decide) (hnum c.fe (by simp [decsOf])) (fun v sr => { sr with x0 := v }) (fun sr v => ps_FE sr v) (fun _ _ => rfl)) (runsL_cons (run_param sp f "False_Northing" c.fn (by decide) (hnum c.fn (by simp [decsOf])) (fun v sr => { sr with y0 := v }) (fun sr v => ps_FN sr v) (fun _ _ => rfl)) (runsL_cons (run_unitW sp c st hnum f) (runsL_cons (run_param sp f "Central_Meridian" c.lon0 (by decide) (hnum c.lon0 (by simp [decsOf])) (fun v sr => { sr with long0 := Num.mul v deg2rad }) (fun sr v => ps_CM sr v) (fun _ _ => rfl)) (runsL_cons (run_param sp f "Scale_Factor" c.k0 (by decide) (hnum c.k0 (by simp [decsOf])) (fun v sr => { sr with k0 := v }) (fun sr v => ps_SF sr v) (fun _ _ => rfl)) (runsL_single (run_param sp f "Latitude_Of_Origin" c.lat0 (by decide) (hnum c.lat0 (by simp [decsOf])) (fun v sr => { sr with lat0 := Num.mul v deg2rad }) (fun sr v => ps_LO sr v) (fun _ _ => rfl)))))))) ?_
    funext sr
    simp only [Function.comp, effParamsW, effUnitW, wLat0, wLat1, wLat2, wLong0, wLongC, wK0, wX0, wY0, hk, he, degX_eq, degX, if_true, if_false,
      Bool.false_eq_true]
  · rw [if_neg hu, if_neg hu, hps]
    refine runsL_congr (runsL_cons (run_param sp f "False_Easting" c.fe (by decide) (hnum c.fe (by simp [decsOf])) (fun v sr => { sr with x0 := v }) (fun sr v => ps_FE sr v) (fun _ _ => rfl)) (runsL_cons (run_param sp f "False_Northing" c.fn (by decide) (hnum c.fn (by simp [decsOf])) (fun v sr => { sr with y0 := v }) (fun sr v => ps_FN sr v) (fun _ _ => rfl)) (runsL_cons (run_param sp f "Central_Meridian" c.lon0 (by decide) (hnum c.lon0 (by simp [decsOf])) (fun v sr => { sr with long0 := Num.mul v deg2rad }) (fun sr v => ps_CM sr v) (fun _ _ => rfl)) (runsL_cons (run_param sp f "Scale_Factor" c.k0 (by decide) (hnum c.k0 (by simp [decsOf])) (fun v sr => { sr with k0 := v }) (fun sr v => ps_SF sr v) (fun _ _ => rfl)) (runsL_single (run_param sp f "Latitude_Of_Origin" c.lat0 (by decide) (hnum c.lat0 (by simp [decsOf])) (fun v sr => { sr with lat0 := Num.mul v deg2rad }) (fun sr v => ps_LO sr v) (fun _ _ => rfl))))))) ?_
    funext sr
    simp only [Function.comp, effParamsW, wLat0, wLat1, wLat2, wLong0, wLongC, wK0, wX0, wY0, hk, he, degX_eq, degX, if_true, if_false,
      Bool.false_eq_true]

include hnum hlo in
theorem runL_psU_tmerc_o (f : Nat) (hk : c.kind = .tmerc) (he : st.esri = false) :
    RunsL (stepP sp f) InvP (subsOf (wktPsU c st)) (effPsU c st) := by
  have hps : subsOf (wktParams c st) = [(s "PARAMETER", [WArg.q "latitude_of_origin", WArg.num c.lat0]), (s "PARAMETER", [WArg.q "central_meridian", WArg.num c.lon0]), (s "PARAMETER", [WArg.q "scale_factor", WArg.num c.k0]), (s "PARAMETER", [WArg.q "false_easting", WArg.num c.fe]), (s "PARAMETER", [WArg.q "false_northing", WArg.num c.fn])] := by
    simp [wktParams, hk, he, hlo, par, subsOf, s]
  have hpsU : subsOf ((wktParams c st).take 2 ++ [wktUnit c st] ++ (wktParams c st).drop 2) = [(s "PARAMETER", [WArg.q "latitude_of_origin", WArg.num c.lat0]), (s "PARAMETER", [WArg.q "central_meridian", WArg.num c.lon0]), (s "UNIT", [WArg.q (wktUnitName c st), WArg.num (wktUnitDec c)] ++ wktUnitAuth c st), (s "PARAMETER", [WArg.q "scale_factor", WArg.num c.k0]), (s "PARAMETER", [WArg.q "false_easting", WArg.num c.fe]), (s "PARAMETER", [WArg.q "false_northing", WArg.num c.fn])] := by
    rw [wktUnit_eq]
    simp [wktParams, hk, he, hlo, par, subsOf, s]
  unfold wktPsU effPsU
  by_cases hu : st.unitPos = 2
  · rw [if_pos hu, if_pos hu, hpsU]
    refine runsL_congr (runsL_cons (run_param sp f "latitude_of_origin" c.lat0 (by decide) (hnum c.lat0 (by simp [decsOf])) (fun v sr => { sr with lat0 := Num.mul v deg2rad }) (fun sr v => ps_lo sr v) (fun _ _ => rfl)) (runsL_cons (run_param sp f "central_meridian" c.lon0 (by decide) (hnum c.lon0 (by simp [decsOf])) (fun v sr => { sr with long0 := Num.mul v deg2rad }) (fun sr v => ps_cm sr v) (fun _ _ => rfl)) (runsL_cons (run_unitW sp c st hnum f) (runsL_cons (run_param sp f "scale_factor" c.k0 (by decide) (hnum c.k0 (by simp [decsOf])) (fun v sr => { sr with k0 := v }) (fun sr v => ps_sf sr v) (fun _ _ => rfl)) (runsL_cons (run_param sp f "false_easting" c.fe (by decide) (hnum c.fe (by simp [decsOf])) (fun v sr => { sr with x0 := v }) (fun sr v => ps_fe sr v) (fun _ _ => rfl)) (runsL_single (run_param sp f "false_northing" c.fn (by decide) (hnum c.fn (by simp [decsOf])) (fun v sr => { sr with y0 := v }) (fun sr v => ps_fn sr v) (fun _ _ => rfl)))))))) ?_
    funext sr
    simp only [Function.comp, effParamsW, effUnitW, wLat0, wLat1, wLat2, wLong0, wLongC, wK0, wX0, wY0, hk, he, degX_eq, degX, if_true, if_false,
      Bool.false_eq_true]
  · rw [if_neg hu, if_neg hu, hps]
    refine runsL_congr (runsL_cons (run_param sp f "latitude_of_origin" c.lat0 (by decide) (hnum c.lat0 (by simp [decsOf])) (fun v sr => { sr with lat0 := Num.mul v deg2rad }) (fun sr v => ps_lo sr v) (fun _ _ => rfl)) (runsL_cons (run_param sp f "central_meridian" c.lon0 (by decide) (hnum c.lon0 (by simp [decsOf])) (fun v sr => { sr with long0 := Num.mul v deg2rad }) (fun sr v => ps_cm sr v) (fun _ _ => rfl)) (runsL_cons (run_param sp f "scale_factor" c.k0 (by decide) (hnum c.k0 (by simp [decsOf])) (fun v sr => { sr with k0 := v }) (fun sr v => ps_sf sr v) (fun _ _ => rfl)) (runsL_cons (run_param sp f "false_easting" c.fe (by decide) (hnum c.fe (by simp [decsOf])) (fun v sr => { sr with x0 := v }) (fun sr v => ps_fe sr v) (fun _ _ => rfl)) (runsL_single (run_param sp f "false_northing" c.fn (by decide) (hnum c.fn (by simp [decsOf])) (fun v sr => { sr with y0 := v }) (fun sr v => ps_fn sr v) (fun _ _ => rfl))))))) ?_
    funext sr
    simp only [Function.comp, effParamsW, wLat0, wLat1, wLat2, wLong0, wLongC, wK0, wX0, wY0, hk, he, degX_eq, degX, if_true, if_false,
      Bool.false_eq_true]

include hnum hlo in
theorem runL_psU_lcc_e (f : Nat) (hk : c.kind = .lcc) (he : st.esri = true) :
    RunsL (stepP sp f) InvP (subsOf (wktPsU c st)) (effPsU c st) := by
  have hps : subsOf (wktParams c st) = [(s "PARAMETER", [WArg.q "False_Easting", WArg.num c.fe]), (s "PARAMETER", [WArg.q "False_Northing", WArg.num c.fn]), (s "PARAMETER", [WArg.q "Central_Meridian", WArg.num c.lon0]), (s "PARAMETER", [WArg.q "Standard_Parallel_1", WArg.num c.lat1]), (s "PARAMETER", [WArg.q "Standard_Parallel_2", WArg.num c.lat2]), (s "PARAMETER", [WArg.q "Latitude_Of_Origin", WArg.num c.lat0])] := by
    simp [wktParams, hk, he, hlo, par, subsOf, s]
  have hpsU : subsOf ((wktParams c st).take 2 ++ [wktUnit c st] ++ (wktParams c st).drop 2) = [(s "PARAMETER", [WArg.q "False_Easting", WArg.num c.fe]), (s "PARAMETER", [WArg.q "False_Northing", WArg.num c.fn]), (s "UNIT", [WArg.q (wktUnitName c st), WArg.num (wktUnitDec c)] ++ wktUnitAuth c st), (s "PARAMETER", [WArg.q "Central_Meridian", WArg.num c.lon0]), (s "PARAMETER", [WArg.q "Standard_Parallel_1", WArg.num c.lat1]), (s "PARAMETER", [WArg.q "Standard_Parallel_2", WArg.num c.lat2]), (s "PARAMETER", [WArg.q "Latitude_Of_Origin", WArg.num c.lat0])] := by
    rw [wktUnit_eq]
    simp [wktParams, hk, he, hlo, par, subsOf, s]
  unfold wktPsU effPsU
  by_cases hu : st.unitPos = 2
  · rw [if_pos hu, if_pos hu, hpsU]
    refine runsL_congr (runsL_cons (run_param sp f "False_Easting" c.fe (by decide) (hnum c.fe (by simp [decsOf])) (fun v sr => { sr with x0 := v }) (fun sr v => ps_FE sr v) (fun _ _ => rfl)) (runsL_cons (run_param sp f "False_Northing" c.fn (by decide) (hnum c.fn (by simp [decsOf])) (fun v sr => { sr with y0 := v }) (fun sr v => ps_FN sr v) (fun _ _ => rfl)) (runsL_cons (run_unitW sp c st hnum f) (runsL_cons (run_param sp f "Central_Meridian" c.lon0 (by decide) (hnum c.lon0 (by simp [decsOf])) (fun v sr => { sr with long0 := Num.mul v deg2rad }) (fun sr v => ps_CM sr v) (fun _ _ => rfl)) (runsL_cons (run_param sp f "Standard_Parallel_1" c.lat1 (by decide) (hnum c.lat1 (by simp [decsOf])) (fun v sr => { sr with lat1 := Num.mul v deg2rad }) (fun sr v => ps_SP1 sr v) (fun _ _ => rfl)) (runsL_cons (run_param sp f "Standard_Parallel_2" c.lat2 (by decide) (hnum c.lat2 (by simp [decsOf])) (fun v sr => { sr with lat2 := Num.mul v deg2rad }) (fun sr v => ps_SP2 sr v) (fun _ _ => rfl)) (runsL_single (run_param sp f "Latitude_Of_Origin" c.lat0 (by decide) (hnum c.lat0 (by simp [decsOf])) (fun v sr => { sr with lat0 := Num.mul v deg2rad }) (fun sr v => ps_LO sr v) (fun _ _ => rfl))))))))) ?_
    funext sr
    simp only [Function.comp, effParamsW, effUnitW, wLat0, wLat1, wLat2, wLong0, wLongC, wK0, wX0, wY0, hk, he, degX_eq, degX, if_true, if_false,
      Bool.false_eq_true]
  · rw [if_neg hu, if_neg hu, hps]
    refine runsL_congr (runsL_cons (run_param sp f "False_Easting" c.fe (by decide) (hnum c.fe (by simp [decsOf])) (fun v sr => { sr with x0 := v }) (fun sr v => ps_FE sr v) (fun _ _ => rfl)) (runsL_cons (run_param sp f "False_Northing" c.fn (by decide) (hnum c.fn (by simp [decsOf])) (fun v sr => { sr with y0 := v }) (fun sr v => ps_FN sr v) (fun _ _ => rfl)) (runsL_cons (run_param sp f "Central_Meridian" c.lon0 (by decide) (hnum c.lon0 (by simp [decsOf])) (fun v sr => { sr with long0 := Num.mul v deg2rad }) (fun sr v => ps_CM sr v) (fun _ _ => rfl)) (runsL_cons (run_param sp f "Standard_Parallel_1" c.lat1 (by decide) (hnum c.lat1 (by simp [decsOf])) (fun v sr => { sr with lat1 := Num.mul v deg2rad }) (fun sr v => ps_SP1 sr v) (fun _ _ => rfl)) (runsL_cons (run_param sp f "Standard_Parallel_2" c.lat2 (by decide) (hnum c.lat2 (by simp [decsOf])) (fun v sr => { sr with lat2 := Num.mul v deg2rad }) (fun sr v => ps_SP2 sr v) (fun _ _ => rfl)) (runsL_single (run_param sp f "Latitude_Of_Origin" c.lat0 (by decide) (hnum c.lat0 (by simp [decsOf])) (fun v sr => { sr with lat0 := Num.mul v deg2rad }) (fun sr v => ps_LO sr v) (fun _ _ => rfl)))))))) ?_
    funext sr
    simp only [Function.comp, effParamsW, wLat0, wLat1, wLat2, wLong0, wLongC, wK0, wX0, wY0, hk, he, degX_eq, degX, if_true, if_false,
      Bool.false_eq_true]

include hnum hlo in
theorem runL_psU_lcc_o (f : Nat) (hk : c.kind = .lcc) (he : st.esri = false) :
    RunsL (stepP sp f) InvP (subsOf (wktPsU c st)) (effPsU c st) := by
  have hps : subsOf (wktParams c st) = [(s "PARAMETER", [WArg.q "standard_parallel_1", WArg.num c.lat1]), (s "PARAMETER", [WArg.q "standard_parallel_2", WArg.num c.lat2]), (s "PARAMETER", [WArg.q "latitude_of_origin", WArg.num c.lat0]), (s "PARAMETER", [WArg.q "central_meridian", WArg.num c.lon0]), (s "PARAMETER", [WArg.q "false_easting", WArg.num c.fe]), (s "PARAMETER", [WArg.q "false_northing", WArg.num c.fn])] := by
    simp [wktParams, hk, he, hlo, par, subsOf, s]
  have hpsU : subsOf ((wktParams c st).take 2 ++ [wktUnit c st] ++ (wktParams c st).drop 2) = [(s "PARAMETER", [WArg.q "standard_parallel_1", WArg.num c.lat1]), (s "PARAMETER", [WArg.q "standard_parallel_2", WArg.num c.lat2]), (s "UNIT", [WArg.q (wktUnitName c st), WArg.num (wktUnitDec c)] ++ wktUnitAuth c st), (s "PARAMETER", [WArg.q "latitude_of_origin", WArg.num c.lat0]), (s "PARAMETER", [WArg.q "central_meridian", WArg.num c.lon0]), (s "PARAMETER", [WArg.q "false_easting", WArg.num c.fe]), (s "PARAMETER", [WArg.q "false_northing", WArg.num c.fn])] := by
    rw [wktUnit_eq]
    simp [wktParams, hk, he, hlo, par, subsOf, s]
  unfold wktPsU effPsU
  by_cases hu : st.unitPos = 2
  · rw [if_pos hu, if_pos hu, hpsU]
    refine runsL_congr (runsL_cons (run_param sp f "standard_parallel_1" c.lat1 (by decide) (hnum c.lat1 (by simp [decsOf])) (fun v sr => { sr with lat1 := Num.mul v deg2rad }) (fun sr v => ps_sp1 sr v) (fun _ _ => rfl)) (runsL_cons (run_param sp f "standard_parallel_2" c.lat2 (by decide) (hnum c.lat2 (by simp [decsOf])) (fun v sr => { sr with lat2 := Num.mul v deg2rad }) (fun sr v => ps_sp2 sr v) (fun _ _ => rfl)) (runsL_cons (run_unitW sp c st hnum f) (runsL_cons (run_param sp f "latitude_of_origin" c.lat0 (by decide) (hnum c.lat0 (by simp [decsOf])) (fun v sr => { sr with lat0 := Num.mul v deg2rad }) (fun sr v => ps_lo sr v) (fun _ _ => rfl)) (runsL_cons (run_param sp f "central_meridian" c.lon0 (by decide) (hnum c.lon0 (by simp [decsOf])) (fun v sr => { sr with long0 := Num.mul v deg2rad }) (fun sr v => ps_cm sr v) (fun _ _ => rfl)) (runsL_cons (run_param sp f "false_easting" c.fe (by decide) (hnum c.fe (by simp [decsOf])) (fun v sr => { sr with x0 := v }) (fun sr v => ps_fe sr v) (fun _ _ => rfl)) (runsL_single (run_param sp f "false_northing" c.fn (by decide) (hnum c.fn (by simp [decsOf])) (fun v sr => { sr with y0 := v }) (fun sr v => ps_fn sr v) (fun _ _ => rfl))))))))) ?_
    funext sr
    simp only [Function.comp, effParamsW, effUnitW, wLat0, wLat1, wLat2, wLong0, wLongC, wK0, wX0, wY0, hk, he, degX_eq, degX, if_true, if_false,
      Bool.false_eq_true]
  · rw [if_neg hu, if_neg hu, hps]
    refine runsL_congr (runsL_cons (run_param sp f "standard_parallel_1" c.lat1 (by decide) (hnum c.lat1 (by simp [decsOf])) (fun v sr => { sr with lat1 := Num.mul v deg2rad }) (fun sr v => ps_sp1 sr v) (fun _ _ => rfl)) (runsL_cons (run_param sp f "standard_parallel_2" c.lat2 (by decide) (hnum c.lat2 (by simp [decsOf])) (fun v sr => { sr with lat2 := Num.mul v deg2rad }) (fun sr v => ps_sp2 sr v) (fun _ _ => rfl)) (runsL_cons (run_param sp f "latitude_of_origin" c.lat0 (by decide) (hnum c.lat0 (by simp [decsOf])) (fun v sr => { sr with lat0 := Num.mul v deg2rad }) (fun sr v => ps_lo sr v) (fun _ _ => rfl)) (runsL_cons (run_param sp f "central_meridian" c.lon0 (by decide) (hnum c.lon0 (by simp [decsOf])) (fun v sr => { sr with long0 := Num.mul v deg2rad }) (fun sr v => ps_cm sr v) (fun _ _ => rfl)) (runsL_cons (run_param sp f "false_easting" c.fe (by decide) (hnum c.fe (by simp [decsOf])) (fun v sr => { sr with x0 := v }) (fun sr v => ps_fe sr v) (fun _ _ => rfl)) (runsL_single (run_param sp f "false_northing" c.fn (by decide) (hnum c.fn (by simp [decsOf])) (fun v sr => { sr with y0 := v }) (fun sr v => ps_fn sr v) (fun _ _ => rfl)))))))) ?_
    funext sr
    simp only [Function.comp, effParamsW, wLat0, wLat1, wLat2, wLong0, wLongC, wK0, wX0, wY0, hk, he, degX_eq, degX, if_true, if_false,
      Bool.false_eq_true]

include hnum hlo in
theorem runL_psU_aea_e (f : Nat) (hk : c.kind = .aea) (he : st.esri = true) :
    RunsL (stepP sp f) InvP (subsOf (wktPsU c st)) (effPsU c st) := by
  have hps : subsOf (wktParams c st) = [(s "PARAMETER", [WArg.q "False_Easting", WArg.num c.fe]), (s "PARAMETER", [WArg.q "False_Northing", WArg.num c.fn]), (s "PARAMETER", [WArg.q "Central_Meridian", WArg.num c.lon0]), (s "PARAMETER", [WArg.q "Standard_Parallel_1", WArg.num c.lat1]), (s "PARAMETER", [WArg.q "Standard_Parallel_2", WArg.num c.lat2]), (s "PARAMETER", [WArg.q "Latitude_Of_Origin", WArg.num c.lat0])] := by
    simp [wktParams, hk, he, hlo, par, subsOf, s]
  have hpsU : subsOf ((wktParams c st).take 2 ++ [wktUnit c st] ++ (wktParams c st).drop 2) = [(s "PARAMETER", [WArg.q "False_Easting", WArg.num c.fe]), (s "PARAMETER", [WArg.q "False_Northing", WArg.num c.fn]), (s "UNIT", [WArg.q (wktUnitName c st), WArg.num (wktUnitDec c)] ++ wktUnitAuth c st), (s "PARAMETER", [WArg.q "Central_Meridian", WArg.num c.lon0]), (s "PARAMETER", [WArg.q "Standard_Parallel_1", WArg.num c.lat1]), (s "PARAMETER", [WArg.q "Standard_Parallel_2", WArg.num c.lat2]), (s "PARAMETER", [WArg.q "Latitude_Of_Origin", WArg.num c.lat0])] := by
    rw [wktUnit_eq]
    simp [wktParams, hk, he, hlo, par, subsOf, s]
  unfold wktPsU effPsU
  by_cases hu : st.unitPos = 2
  · rw [if_pos hu, if_pos hu, hpsU]
    refine runsL_congr (runsL_cons (run_param sp f "False_Easting" c.fe (by decide) (hnum c.fe (by simp [decsOf])) (fun v sr => { sr with x0 := v }) (fun sr v => ps_FE sr v) (fun _ _ => rfl)) (runsL_cons (run_param sp f "False_Northing" c.fn (by decide) (hnum c.fn (by simp [decsOf])) (fun v sr => { sr with y0 := v }) (fun sr v => ps_FN sr v) (fun _ _ => rfl)) (runsL_cons (run_unitW sp c st hnum f) (runsL_cons (run_param sp f "Central_Meridian" c.lon0 (by decide) (hnum c.lon0 (by simp [decsOf])) (fun v sr => { sr with long0 := Num.mul v deg2rad }) (fun sr v => ps_CM sr v) (fun _ _ => rfl)) (runsL_cons (run_param sp f "Standard_Parallel_1" c.lat1 (by decide) (hnum c.lat1 (by simp [decsOf])) (fun v sr => { sr with lat1 := Num.mul v deg2rad }) (fun sr v => ps_SP1 sr v) (fun _ _ => rfl)) (runsL_cons (run_param sp f "Standard_Parallel_2" c.lat2 (by decide) (hnum c.lat2 (by simp [decsOf])) (fun v sr => { sr with lat2 := Num.mul v deg2rad }) (fun sr v => ps_SP2 sr v) (fun _ _ => rfl)) (runsL_single (run_param sp f "Latitude_Of_Origin" c.lat0 (by decide) (hnum c.lat0 (by simp [decsOf])) (fun v sr => { sr with lat0 := Num.mul v deg2rad }) (fun sr v => ps_LO sr v) (fun _ _ => rfl))))))))) ?_
    funext sr
    simp only [Function.comp, effParamsW, effUnitW, wLat0, wLat1, wLat2, wLong0, wLongC, wK0, wX0, wY0, hk, he, degX_eq, degX, if_true, if_false,
      Bool.false_eq_true]
  · rw [if_neg hu, if_neg hu, hps]
    refine runsL_congr (runsL_cons (run_param sp f "False_Easting" c.fe (by decide) (hnum c.fe (by simp [decsOf])) (fun v sr => { sr with x0 := v }) (fun sr v => ps_FE sr v) (fun _ _ => rfl)) (runsL_cons (run_param sp f "False_Northing" c.fn (by decide) (hnum c.fn (by simp [decsOf])) (fun v sr => { sr with y0 := v }) (fun sr v => ps_FN sr v) (fun _ _ => rfl)) (runsL_cons (run_param sp f "Central_Meridian" c.lon0 (by decide) (hnum c.lon0 (by simp [decsOf])) (fun v sr => { sr with long0 := Num.mul v deg2rad }) (fun sr v => ps_CM sr v) (fun _ _ => rfl)) (runsL_cons (run_param sp f "Standard_Parallel_1" c.lat1 (by decide) (hnum c.lat1 (by simp [decsOf])) (fun v sr => { sr with lat1 := Num.mul v deg2rad }) (fun sr v => ps_SP1 sr v) (fun _ _ => rfl)) (runsL_cons (run_param sp f "Standard_Parallel_2" c.lat2 (by decide) (hnum c.lat2 (by simp [decsOf])) (fun v sr => { sr with lat2 := Num.mul v deg2rad }) (fun sr v => ps_SP2 sr v) (fun _ _ => rfl)) (runsL_single (run_param sp f "Latitude_Of_Origin" c.lat0 (by decide) (hnum c.lat0 (by simp [decsOf])) (fun v sr => { sr with lat0 := Num.mul v deg2rad }) (fun sr v => ps_LO sr v) (fun _ _ => rfl)))))))) ?_
    funext sr
    simp only [Function.comp, effParamsW, wLat0, wLat1, wLat2, wLong0, wLongC, wK0, wX0, wY0, hk, he, degX_eq, degX, if_true, if_false,
      Bool.false_eq_true]

include hnum hlo in
theorem runL_psU_aea_o (f : Nat) (hk : c.kind = .aea) (he : st.esri = false) :
    RunsL (stepP sp f) InvP (subsOf (wktPsU c st)) (effPsU c st) := by
  have hps : subsOf (wktParams c st) = [(s "PARAMETER", [WArg.q "standard_parallel_1", WArg.num c.lat1]), (s "PARAMETER", [WArg.q "standard_parallel_2", WArg.num c.lat2]), (s "PARAMETER", [WArg.q "latitude_of_center", WArg.num c.lat0]), (s "PARAMETER", [WArg.q "longitude_of_center", WArg.num c.lon0]), (s "PARAMETER", [WArg.q "false_easting", WArg.num c.fe]), (s "PARAMETER", [WArg.q "false_northing", WArg.num c.fn])] := by
    simp [wktParams, hk, he, hlo, par, subsOf, s]
  have hpsU : subsOf ((wktParams c st).take 2 ++ [wktUnit c st] ++ (wktParams c st).drop 2) = [(s "PARAMETER", [WArg.q "standard_parallel_1", WArg.num c.lat1]), (s "PARAMETER", [WArg.q "standard_parallel_2", WArg.num c.lat2]), (s "UNIT", [WArg.q (wktUnitName c st), WArg.num (wktUnitDec c)] ++ wktUnitAuth c st), (s "PARAMETER", [WArg.q "latitude_of_center", WArg.num c.lat0]), (s "PARAMETER", [WArg.q "longitude_of_center", WArg.num c.lon0]), (s "PARAMETER", [WArg.q "false_easting", WArg.num c.fe]), (s "PARAMETER", [WArg.q "false_northing", WArg.num c.fn])] := by
    rw [wktUnit_eq]
    simp [wktParams, hk, he, hlo, par, subsOf, s]
  unfold wktPsU effPsU
  by_cases hu : st.unitPos = 2
  · rw [if_pos hu, if_pos hu, hpsU]
    refine runsL_congr (runsL_cons (run_param sp f "standard_parallel_1" c.lat1 (by decide) (hnum c.lat1 (by simp [decsOf])) (fun v sr => { sr with lat1 := Num.mul v deg2rad }) (fun sr v => ps_sp1 sr v) (fun _ _ => rfl)) (runsL_cons (run_param sp f "standard_parallel_2" c.lat2 (by decide) (hnum c.lat2 (by simp [decsOf])) (fun v sr => { sr with lat2 := Num.mul v deg2rad }) (fun sr v => ps_sp2 sr v) (fun _ _ => rfl)) (runsL_cons (run_unitW sp c st hnum f) (runsL_cons (run_param sp f "latitude_of_center" c.lat0 (by decide) (hnum c.lat0 (by simp [decsOf])) (fun v sr => { sr with lat0 := Num.mul v deg2rad }) (fun sr v => ps_lc sr v) (fun _ _ => rfl)) (runsL_cons (run_param sp f "longitude_of_center" c.lon0 (by decide) (hnum c.lon0 (by simp [decsOf])) (fun v sr => { sr with longC := Num.mul v deg2rad }) (fun sr v => ps_lonc sr v) (fun _ _ => rfl)) (runsL_cons (run_param sp f "false_easting" c.fe (by decide) (hnum c.fe (by simp [decsOf])) (fun v sr => { sr with x0 := v }) (fun sr v => ps_fe sr v) (fun _ _ => rfl)) (runsL_single (run_param sp f "false_northing" c.fn (by decide) (hnum c.fn (by simp [decsOf])) (fun v sr => { sr with y0 := v }) (fun sr v => ps_fn sr v) (fun _ _ => rfl))))))))) ?_
    funext sr
    simp only [Function.comp, effParamsW, effUnitW, wLat0, wLat1, wLat2, wLong0, wLongC, wK0, wX0, wY0, hk, he, degX_eq, degX, if_true, if_false,
      Bool.false_eq_true]
  · rw [if_neg hu, if_neg hu, hps]
    refine runsL_congr (runsL_cons (run_param sp f "standard_parallel_1" c.lat1 (by decide) (hnum c.lat1 (by simp [decsOf])) (fun v sr => { sr with lat1 := Num.mul v deg2rad }) (fun sr v => ps_sp1 sr v) (fun _ _ => rfl)) (runsL_cons (run_param sp f "standard_parallel_2" c.lat2 (by decide) (hnum c.lat2 (by simp [decsOf])) (fun v sr => { sr with lat2 := Num.mul v deg2rad }) (fun sr v => ps_sp2 sr v) (fun _ _ => rfl)) (runsL_cons (run_param sp f "latitude_of_center" c.lat0 (by decide) (hnum c.lat0 (by simp [decsOf])) (fun v sr => { sr with lat0 := Num.mul v deg2rad }) (fun sr v => ps_lc sr v) (fun _ _ => rfl)) (runsL_cons (run_param sp f "longitude_of_center" c.lon0 (by decide) (hnum c.lon0 (by simp [decsOf])) (fun v sr => { sr with longC := Num.mul v deg2rad }) (fun sr v => ps_lonc sr v) (fun _ _ => rfl)) (runsL_cons (run_param sp f "false_easting" c.fe (by decide) (hnum c.fe (by simp [decsOf])) (fun v sr => { sr with x0 := v }) (fun sr v => ps_fe sr v) (fun _ _ => rfl)) (runsL_single (run_param sp f "false_northing" c.fn (by decide) (hnum c.fn (by simp [decsOf])) (fun v sr => { sr with y0 := v }) (fun sr v => ps_fn sr v) (fun _ _ => rfl)))))))) ?_
    funext sr
    simp only [Function.comp, effParamsW, wLat0, wLat1, wLat2, wLong0, wLongC, wK0, wX0, wY0, hk, he, degX_eq, degX, if_true, if_false,
      Bool.false_eq_true]

include hnum hlo in
theorem runL_psU_eqdc_e (f : Nat) (hk : c.kind = .eqdc) (he : st.esri = true) :
    RunsL (stepP sp f) InvP (subsOf (wktPsU c st)) (effPsU c st) := by
  have hps : subsOf (wktParams c st) = [(s "PARAMETER", [WArg.q "False_Easting", WArg.num c.fe]), (s "PARAMETER", [WArg.q "False_Northing", WArg.num c.fn]), (s "PARAMETER", [WArg.q "Central_Meridian", WArg.num c.lon0]), (s "PARAMETER", [WArg.q "Standard_Parallel_1", WArg.num c.lat1]), (s "PARAMETER", [WArg.q "Standard_Parallel_2", WArg.num c.lat2]), (s "PARAMETER", [WArg.q "Latitude_Of_Origin", WArg.num c.lat0])] := by
    simp [wktParams, hk, he, hlo, par, subsOf, s]
  have hpsU : subsOf ((wktParams c st).take 2 ++ [wktUnit c st] ++ (wktParams c st).drop 2) = [(s "PARAMETER", [WArg.q "False_Easting", WArg.num c.fe]), (s "PARAMETER", [WArg.q "False_Northing", WArg.num c.fn]), (s "UNIT", [WArg.q (wktUnitName c st), WArg.num (wktUnitDec c)] ++ wktUnitAuth c st), (s "PARAMETER", [WArg.q "Central_Meridian", WArg.num c.lon0]), (s "PARAMETER", [WArg.q "Standard_Parallel_1", WArg.num c.lat1]), (s "PARAMETER", [WArg.q "Standard_Parallel_2", WArg.num c.lat2]), (s "PARAMETER", [WArg.q "Latitude_Of_Origin", WArg.num c.lat0])] := by
    rw [wktUnit_eq]
    simp [wktParams, hk, he, hlo, par, subsOf, s]
  unfold wktPsU effPsU
  by_cases hu : st.unitPos = 2
  · rw [if_pos hu, if_pos hu, hpsU]
    refine runsL_congr (runsL_cons (run_param sp f "False_Easting" c.fe (by decide) (hnum c.fe (by simp [decsOf])) (fun v sr => { sr with x0 := v }) (fun sr v => ps_FE sr v) (fun _ _ => rfl)) (runsL_cons (run_param sp f "False_Northing" c.fn (by decide) (hnum c.fn (by simp [decsOf])) (fun v sr => { sr with y0 := v }) (fun sr v => ps_FN sr v) (fun _ _ => rfl)) (runsL_cons (run_unitW sp c st hnum f) (runsL_cons (run_param sp f "Central_Meridian" c.lon0 (by decide) (hnum c.lon0 (by simp [decsOf])) (fun v sr => { sr with long0 := Num.mul v deg2rad }) (fun sr v => ps_CM sr v) (fun _ _ => rfl)) (runsL_cons (run_param sp f "Standard_Parallel_1" c.lat1 (by decide) (hnum c.lat1 (by simp [decsOf])) (fun v sr => { sr with lat1 := Num.mul v deg2rad }) (fun sr v => ps_SP1 sr v) (fun _ _ => rfl)) (runsL_cons (run_param sp f "Standard_Parallel_2" c.lat2 (by decide) (hnum c.lat2 (by simp [decsOf])) (fun v sr => { sr with lat2 := Num.mul v deg2rad }) (fun sr v => ps_SP2 sr v) (fun _ _ => rfl)) (runsL_single (run_param sp f "Latitude_Of_Origin" c.lat0 (by decide) (hnum c.lat0 (by simp [decsOf])) (fun v sr => { sr with lat0 := Num.mul v deg2rad }) (fun sr v => ps_LO sr v) (fun _ _ => rfl))))))))) ?_
    funext sr
    simp only [Function.comp, effParamsW, effUnitW, wLat0, wLat1, wLat2, wLong0, wLongC, wK0, wX0, wY0, hk, he, degX_eq, degX, if_true, if_false,
      Bool.false_eq_true]
  · rw [if_neg hu, if_neg hu, hps]
    refine runsL_congr (runsL_cons (run_param sp f "False_Easting" c.fe (by decide) (hnum c.fe (by simp [decsOf])) (fun v sr => { sr with x0 := v }) (fun sr v => ps_FE sr v) (fun _ _ => rfl)) (runsL_cons (run_param sp f "False_Northing" c.fn (by decide) (hnum c.fn (by simp [decsOf])) (fun v sr => { sr with y0 := v }) (fun sr v => ps_FN sr v) (fun _ _ => rfl)) (runsL_cons (run_param sp f "Central_Meridian" c.lon0 (by decide) (hnum c.lon0 (by simp [decsOf])) (fun v sr => { sr with long0 := Num.mul v deg2rad }) (fun sr v => ps_CM sr v) (fun _ _ => rfl)) (runsL_cons (run_param sp f "Standard_Parallel_1" c.lat1 (by decide) (hnum c.lat1 (by simp [decsOf])) (fun v sr => { sr with lat1 := Num.mul v deg2rad }) (fun sr v => ps_SP1 sr v) (fun _ _ => rfl)) (runsL_cons (run_param sp f "Standard_Parallel_2" c.lat2 (by decide) (hnum c.lat2 (by simp [decsOf])) (fun v sr => { sr with lat2 := Num.mul v deg2rad }) (fun sr v => ps_SP2 sr v) (fun _ _ => rfl)) (runsL_single (run_param sp f "Latitude_Of_Origin" c.lat0 (by decide) (hnum c.lat0 (by simp [decsOf])) (fun v sr => { sr with lat0 := Num.mul v deg2rad }) (fun sr v => ps_LO sr v) (fun _ _ => rfl)))))))) ?_
    funext sr
    simp only [Function.comp, effParamsW, wLat0, wLat1, wLat2, wLong0, wLongC, wK0, wX0, wY0, hk, he, degX_eq, degX, if_true, if_false,
      Bool.false_eq_true]

include hnum hlo in
theorem runL_psU_eqdc_o (f : Nat) (hk : c.kind = .eqdc) (he : st.esri = false) :
    RunsL (stepP sp f) InvP (subsOf (wktPsU c st)) (effPsU c st) := by
  have hps : subsOf (wktParams c st) = [(s "PARAMETER", [WArg.q "standard_parallel_1", WArg.num c.lat1]), (s "PARAMETER", [WArg.q "standard_parallel_2", WArg.num c.lat2]), (s "PARAMETER", [WArg.q "latitude_of_center", WArg.num c.lat0]), (s "PARAMETER", [WArg.q "longitude_of_center", WArg.num c.lon0]), (s "PARAMETER", [WArg.q "false_easting", WArg.num c.fe]), (s "PARAMETER", [WArg.q "false_northing", WArg.num c.fn])] := by
    simp [wktParams, hk, he, hlo, par, subsOf, s]
  have hpsU : subsOf ((wktParams c st).take 2 ++ [wktUnit c st] ++ (wktParams c st).drop 2) = [(s "PARAMETER", [WArg.q "standard_parallel_1", WArg.num c.lat1]), (s "PARAMETER", [WArg.q "standard_parallel_2", WArg.num c.lat2]), (s "UNIT", [WArg.q (wktUnitName c st), WArg.num (wktUnitDec c)] ++ wktUnitAuth c st), (s "PARAMETER", [WArg.q "latitude_of_center", WArg.num c.lat0]), (s "PARAMETER", [WArg.q "longitude_of_center", WArg.num c.lon0]), (s "PARAMETER", [WArg.q "false_easting", WArg.num c.fe]), (s "PARAMETER", [WArg.q "false_northing", WArg.num c.fn])] := by
    rw [wktUnit_eq]
    simp [wktParams, hk, he, hlo, par, subsOf, s]
  unfold wktPsU effPsU
  by_cases hu : st.unitPos = 2
  · rw [if_pos hu, if_pos hu, hpsU]
    refine runsL_congr (runsL_cons (run_param sp f "standard_parallel_1" c.lat1 (by decide) (hnum c.lat1 (by simp [decsOf])) (fun v sr => { sr with lat1 := Num.mul v deg2rad }) (fun sr v => ps_sp1 sr v) (fun _ _ => rfl)) (runsL_cons (run_param sp f "standard_parallel_2" c.lat2 (by decide) (hnum c.lat2 (by simp [decsOf])) (fun v sr => { sr with lat2 := Num.mul v deg2rad }) (fun sr v => ps_sp2 sr v) (fun _ _ => rfl)) (runsL_cons (run_unitW sp c st hnum f) (runsL_cons (run_param sp f "latitude_of_center" c.lat0 (by decide) (hnum c.lat0 (by simp [decsOf])) (fun v sr => { sr with lat0 := Num.mul v deg2rad }) (fun sr v => ps_lc sr v) (fun _ _ => rfl)) (runsL_cons (run_param sp f "longitude_of_center" c.lon0 (by decide) (hnum c.lon0 (by simp [decsOf])) (fun v sr => { sr with longC := Num.mul v deg2rad }) (fun sr v => ps_lonc sr v) (fun _ _ => rfl)) (runsL_cons (run_param sp f "false_easting" c.fe (by decide) (hnum c.fe (by simp [decsOf])) (fun v sr => { sr with x0 := v }) (fun sr v => ps_fe sr v) (fun _ _ => rfl)) (runsL_single (run_param sp f "false_northing" c.fn (by decide) (hnum c.fn (by simp [decsOf])) (fun v sr => { sr with y0 := v }) (fun sr v => ps_fn sr v) (fun _ _ => rfl))))))))) ?_
    funext sr
    simp only [Function.comp, effParamsW, effUnitW, wLat0, wLat1, wLat2, wLong0, wLongC, wK0, wX0, wY0, hk, he, degX_eq, degX, if_true, if_false,
      Bool.false_eq_true]
  · rw [if_neg hu, if_neg hu, hps]
    refine runsL_congr (runsL_cons (run_param sp f "standard_parallel_1" c.lat1 (by decide) (hnum c.lat1 (by simp [decsOf])) (fun v sr => { sr with lat1 := Num.mul v deg2rad }) (fun sr v => ps_sp1 sr v) (fun _ _ => rfl)) (runsL_cons (run_param sp f "standard_parallel_2" c.lat2 (by decide) (hnum c.lat2 (by simp [decsOf])) (fun v sr => { sr with lat2 := Num.mul v deg2rad }) (fun sr v => ps_sp2 sr v) (fun _ _ => rfl)) (runsL_cons (run_param sp f "latitude_of_center" c.lat0 (by decide) (hnum c.lat0 (by simp [decsOf])) (fun v sr => { sr with lat0 := Num.mul v deg2rad }) (fun sr v => ps_lc sr v) (fun _ _ => rfl)) (runsL_cons (run_param sp f "longitude_of_center" c.lon0 (by decide) (hnum c.lon0 (by simp [decsOf])) (fun v sr => { sr with longC := Num.mul v deg2rad }) (fun sr v => ps_lonc sr v) (fun _ _ => rfl)) (runsL_cons (run_param sp f "false_easting" c.fe (by decide) (hnum c.fe (by simp [decsOf])) (fun v sr => { sr with x0 := v }) (fun sr v => ps_fe sr v) (fun _ _ => rfl)) (runsL_single (run_param sp f "false_northing" c.fn (by decide) (hnum c.fn (by simp [decsOf])) (fun v sr => { sr with y0 := v }) (fun sr v => ps_fn sr v) (fun _ _ => rfl)))))))) ?_
    funext sr
    simp only [Function.comp, effParamsW, wLat0, wLat1, wLat2, wLong0, wLongC, wK0, wX0, wY0, hk, he, degX_eq, degX, if_true, if_false,
      Bool.false_eq_true]

end params

end GeomV.C20
