import GeomV.C20.WktGen
import GeomV.C20.Proofs
/-!
# C20: which `.prj` a layer's reference is read from (mechanism "reading .prj files next to shapefiles")

The path expressions of `shp.NewDecoder` (`strings.TrimSuffix(filename, ".shp")`, stored in `r.filename`; `fname + ".shp"`
is opened) and of `(*Decoder).SR` (`r.filename + ".prj"` is read) are REGENERATED from encoding/shp/shp.go on every run
(`WktGen.lean`: `genDecoderStored`, `genDecoderOpen`, `genDecoderPrj`).  Over an arbitrary file system (a function from
paths to contents) and for EVERY layer name — dots, blanks, directories, a name that ends in `.prj`, the empty name — the
reference of the layer `b.shp` is `proj.Parse` of the bytes of `b.prj`: the file with the same directory and base name,
never another one.  (Seeded change C20-g1, "replace the extension" applied to the already stripped name, reads
`zones.prj` for the layer `zones.v2.shp`: it changes `genDecoderPrj` and breaks `C20_prj_path`.)
-/
set_option linter.unusedSimpArgs false
namespace GeomV.C20
open Num

theorem hasSuffix_append (b suf : Str) : hasSuffix (b ++ suf) suf = true := by
  unfold hasSuffix
  rw [List.reverse_append]
  exact hasPrefix_append _ _

/-- `strings.TrimSuffix` removes a suffix that is there … -/
theorem trimSuffix_append (b suf : Str) : trimSuffix (b ++ suf) suf = b := by
  unfold trimSuffix
  rw [hasSuffix_append]
  simp

/-- … and leaves a string without it alone -/
theorem trimSuffix_none (a suf : Str) (h : hasSuffix a suf = false) : trimSuffix a suf = a := by
  unfold trimSuffix
  simp [h]

section
variable {α : Type} [Num α]

/-- `NewDecoder(filename)` followed by `SR()` with the path expressions of the current source -/
def layerSR (fs : FS) (filename : Str) : Except Err (SR α) :=
  layerSRG genDecoderStored genDecoderOpen genDecoderPrj fs filename

/-- **C20_prj_siblings** — for EVERY argument of `NewDecoder` the file it opens and the file `SR()` reads are siblings:
`b.shp` and `b.prj` for one and the same `b` (the argument without a trailing `.shp`). -/
theorem C20_prj_siblings (filename : Str) :
    genDecoderOpen filename = trimSuffix filename (s ".shp") ++ s ".shp"
    ∧ genDecoderPrj (genDecoderStored filename) = trimSuffix filename (s ".shp") ++ s ".prj" := ⟨rfl, rfl⟩

/-- **C20_prj_path** — over every file system and for every layer name `b` whose shapefile `b.shp` exists: the reference
of the layer, asked for as `b.shp` or (when `b` does not itself end in `.shp`) as `b`, is `proj.Parse` of the bytes of
`b.prj` — an error when that file does not exist, whatever other `.prj` files there are. -/
theorem C20_prj_path (fs : FS) (b : Str) (hshp : (fs (b ++ s ".shp")).isSome = true) :
    layerSR (α := α) fs (b ++ s ".shp") = decoderSR (fs (b ++ s ".prj"))
    ∧ (hasSuffix b (s ".shp") = false → layerSR (α := α) fs b = decoderSR (fs (b ++ s ".prj")))
    ∧ (∀ t, fs (b ++ s ".prj") = some t → layerSR (α := α) fs (b ++ s ".shp") = parse t) := by
  have key : layerSR (α := α) fs (b ++ s ".shp") = decoderSR (fs (b ++ s ".prj")) := by
    unfold layerSR layerSRG newDecoderG decoderSRG genDecoderOpen genDecoderStored genDecoderPrj
    simp only [trimSuffix_append]
    cases h : fs (b ++ s ".shp") with
    | none => simp [h] at hshp
    | some x => rfl
  refine ⟨key, ?_, ?_⟩
  · intro hb
    unfold layerSR layerSRG newDecoderG decoderSRG genDecoderOpen genDecoderStored genDecoderPrj
    simp only [trimSuffix_none b _ hb]
    cases h : fs (b ++ s ".shp") with
    | none => simp [h] at hshp
    | some x => rfl
  · intro t ht
    rw [key, ht]
    rfl

/-- **C20_prj_own_file** — two layers in one file system each get the reference of their OWN `.prj`: the paths read for
different layer names differ, so with `b₁.prj` holding `t₁` and `b₂.prj` holding `t₂` the references are `Parse t₁` and
`Parse t₂` (for `zones.v2` and `zones`, `a.b` and `a.c`, …). -/
theorem C20_prj_own_file (fs : FS) (b1 b2 t1 t2 : Str)
    (h1 : (fs (b1 ++ s ".shp")).isSome = true) (h2 : (fs (b2 ++ s ".shp")).isSome = true)
    (p1 : fs (b1 ++ s ".prj") = some t1) (p2 : fs (b2 ++ s ".prj") = some t2) :
    layerSR (α := α) fs (b1 ++ s ".shp") = parse t1 ∧ layerSR (α := α) fs (b2 ++ s ".shp") = parse t2
    ∧ (b1 ≠ b2 → genDecoderPrj (genDecoderStored (b1 ++ s ".shp")) ≠ genDecoderPrj (genDecoderStored (b2 ++ s ".shp"))) := by
  refine ⟨(C20_prj_path fs b1 h1).2.2 t1 p1, (C20_prj_path fs b2 h2).2.2 t2 p2, ?_⟩
  intro hne h
  unfold genDecoderPrj genDecoderStored at h
  simp only [trimSuffix_append] at h
  exact hne (List.append_cancel_right h)

/-- **C20_prj_same_text_equal** — two layers whose `.prj` files hold the same text have `Equal` references (and so a nil
transformer between them): "parsing the same text twice gives Equal references" through `(*Decoder).SR`. -/
theorem C20_prj_same_text_equal (close : α → α → Bool) (hc : ∀ x, close x x = true) (fs : FS) (b1 b2 t : Str) (r1 r2 : SR α)
    (h1 : (fs (b1 ++ s ".shp")).isSome = true) (h2 : (fs (b2 ++ s ".shp")).isSome = true)
    (p1 : fs (b1 ++ s ".prj") = some t) (p2 : fs (b2 ++ s ".prj") = some t)
    (e1 : layerSR fs (b1 ++ s ".shp") = .ok r1) (e2 : layerSR fs (b2 ++ s ".shp") = .ok r2) :
    equalSR close r1 r2 = some true ∧ newTransformIsNil close r1 r2 = some true := by
  rw [(C20_prj_path fs b1 h1).2.2 t p1] at e1
  rw [(C20_prj_path fs b2 h2).2.2 t p2] at e2
  exact ⟨C20_equal_refl close hc t r1 r2 e1 e2, C20_equal_refl close hc t r1 r2 e1 e2⟩

end

/-- non-vacuity, kernel-checked: a directory with `zones.v2.shp`, `zones.v2.prj` (web Mercator) and a decoy `zones.prj`
(EPSG:4326): the layer `zones.v2` is read as a sphere Mercator, and asking without the extension gives the same -/
def demoFS : FS := fun p =>
  if p = s "d.1/zones.v2.shp" then some [] else
  if p = s "d.1/zones.v2.prj" then some (s "EPSG:3857") else
  if p = s "d.1/zones.prj" then some (s "EPSG:4326") else none

example : (match layerSR (α := XR) demoFS (s "d.1/zones.v2.shp"), layerSR (α := XR) demoFS (s "d.1/zones.v2") with
    | .ok r, .ok r' => r.sphere && r.name == s "merc" && r'.name == s "merc"
    | _, _ => false) = true := by decide +kernel
example : hasSuffix (s "d.1/zones.v2") (s ".shp") = false ∧ (demoFS (s "d.1/zones.v2" ++ s ".shp")).isSome = true := by decide +kernel

end GeomV.C20
