import GeomV.C20.Spec
/-! kernel check of `family .eqdc` (one module per kind so that lake builds them in parallel) -/
namespace GeomV.C20
theorem agree_eqdc : ∀ x ∈ family .eqdc, (wellFormed x.1 && agree x.1 x.2) = true := by decide +kernel
end GeomV.C20
