import GeomV.C20.Spec
/-! kernel check of `family .lcc` (one module per kind so that lake builds them in parallel) -/
namespace GeomV.C20
theorem agree_lcc : ∀ x ∈ family .lcc, (wellFormed x.1 && agree x.1 x.2) = true := by decide +kernel
end GeomV.C20
