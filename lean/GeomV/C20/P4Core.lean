import GeomV.C20.P4Sem
/-!
# PROJ.4: the token-level result satisfies `CoreOK`
-/
set_option linter.unusedSimpArgs false
set_option linter.unusedVariables false
namespace GeomV.C20
open Num

theorem wf_parts (c : Crs) (hw : wellFormed c = true) :
    0 < c.a.toRat ∧ 1 < c.rf.toRat ∧ c.rf.toRat ≤ c.a.toRat * 1000000000 ∧ c.unit ≠ .usFoot ∧
    (c.kind ≠ .geog → c.feM.toRat = c.fe.toRat * c.unit.toMeter ∧ c.fnM.toRat = c.fn.toRat * c.unit.toMeter) ∧
    datumWF c = true := by
  unfold wellFormed at hw
  simp only [Bool.and_eq_true, decide_eq_true_eq, bne_iff_ne, ne_eq, Bool.or_eq_true] at hw
  obtain ⟨⟨⟨⟨⟨h1, h2⟩, h3⟩, h4⟩, h5⟩, h6⟩ := hw
  refine ⟨h1, h2, h3, h4, ?_, h6⟩
  intro hg
  rcases h5 with h5 | h5
  · exact absurd h5 hg
  · exact h5

theorem lookup_WGS84 : List.lookup "WGS84" datumTable = none := by decide +kernel
theorem lookup_nad83 : ∃ d, List.lookup "nad83" datumTable = some d ∧ d.towgs84 = some [0, 0, 0] := by
  have h : (List.lookup "nad83" datumTable).map (·.towgs84) = some (some [0, 0, 0]) := by decide +kernel
  cases hl : List.lookup "nad83" datumTable with
  | none => rw [hl] at h; simp at h
  | some d => rw [hl] at h; simp at h; exact ⟨d, rfl, h⟩

/-! ## each group as ONE record update -/

def lowerCode (d : Str) : Str := if d ≠ s "WGS84" then toLower d else d
theorem lowerDatum_eq (sr : SR XR) : lowerDatum sr = { sr with datumCode := lowerCode sr.datumCode } := by
  unfold lowerDatum lowerCode; split <;> rfl

def pLat0 (c : Crs) (x : XR) : XR := match c.kind with | .geog => x | .merc => x | _ => degX c.lat0
def pLat1 (c : Crs) (x : XR) : XR := match c.kind with | .geog => x | .merc => x | .tmerc => x | _ => degX c.lat1
def pLat2 (c : Crs) (x : XR) : XR := match c.kind with | .geog => x | .merc => x | .tmerc => x | _ => degX c.lat2
def pLong0 (c : Crs) (x : XR) : XR := match c.kind with | .geog => x | _ => degX c.lon0
def pK0 (c : Crs) (x : XR) : XR := match c.kind with | .merc => some c.k0.toRat | .tmerc => some c.k0.toRat | _ => x
def pX0 (c : Crs) (x : XR) : XR := match c.kind with | .geog => x | _ => some c.feM.toRat
def pY0 (c : Crs) (x : XR) : XR := match c.kind with | .geog => x | _ => some c.fnM.toRat

theorem effParams_eq (c : Crs) (sr : SR XR) : effParams c sr =
    { sr with lat0 := pLat0 c sr.lat0, lat1 := pLat1 c sr.lat1, lat2 := pLat2 c sr.lat2, long0 := pLong0 c sr.long0,
              k0 := pK0 c sr.k0, x0 := pX0 c sr.x0, y0 := pY0 c sr.y0 } := by
  unfold effParams pLat0 pLat1 pLat2 pLong0 pK0 pX0 pY0
  cases c.kind <;> rfl

def dCode (c : Crs) (x : Str) : Str := match c.datum with | .wgs84 => s "WGS84" | .nad83 => s "NAD83" | .custom => x
def dParams (c : Crs) (x : List XR) : List XR :=
  match c.datum with
  | .custom => (match c.towgs with | some ds => ds.map fun d => some d.toRat | none => x)
  | _ => x

theorem effDatum_eq (c : Crs) (sr : SR XR) : effDatum c sr =
    { sr with datumCode := dCode c sr.datumCode, datumParams := dParams c sr.datumParams } := by
  unfold effDatum dCode dParams
  cases c.datum <;> try rfl
  cases c.towgs <;> rfl

def uUnits (c : Crs) (x : Str) : Str :=
  if c.kind = .geog then x else match c.unit with | .metre => s "m" | .foot => s "ft" | .usFootDec => x | .usFoot => s "us-ft"
def uToMeter (c : Crs) (x : XR) : XR :=
  if c.kind = .geog then x else
  match c.unit with | .metre => x | .foot => some (mkRat 381 1250) | .usFootDec => some usFootDecQ.toRat | .usFoot => some (mkRat 1200 3937)

theorem effUnit_eq (c : Crs) (sr : SR XR) : effUnit c sr = { sr with units := uUnits c sr.units, toMeter := uToMeter c sr.toMeter } := by
  unfold effUnit uUnits uToMeter
  split
  · rfl
  · cases c.unit <;> rfl

def tTitle (st : Style) (x : Str) : Str := if st.title then s "a b (c/d)" else x
theorem effTitle_eq (st : Style) (sr : SR XR) : effTitle st sr = { sr with title := tTitle st sr.title } := by
  unfold effTitle tTitle; split <;> rfl

/-- the token-level PROJ.4 result, field by field -/
theorem p4_result (c : Crs) (st : Style) : lowerDatum (effAll c st newSR) =
    { (newSR : SR XR) with
      title := tTitle st [], name := (p4Kind c.kind).toList,
      lat0 := pLat0 c none, lat1 := pLat1 c none, lat2 := pLat2 c none, long0 := pLong0 c none, k0 := pK0 c none,
      x0 := pX0 c none, y0 := pY0 c none, a := some c.a.toRat, rf := some c.rf.toRat,
      datumCode := lowerCode (dCode c []), datumParams := dParams c [],
      units := uUnits c [], toMeter := uToMeter c (some 1), noDefs := true } := by
  unfold effAll
  simp only [effTitle_eq, effParams_eq, effDatum_eq, effUnit_eq, lowerDatum_eq]
  rfl

theorem toLower_NAD83 : toLower (s "NAD83") = s "nad83" := by decide

theorem p4_coreOK (c : Crs) (st : Style) (hw : wellFormed c = true) : CoreOK c (lowerDatum (effAll c st newSR)) := by
  obtain ⟨_, _, _, hus, hfe, hdw⟩ := wf_parts c hw
  rw [p4_result]
  refine { proj := ?_, geo := ?_, lat0 := ?_, lat1 := ?_, lat2 := ?_, latTS := rfl, long0 := ?_, k0 := ?_, x0 := ?_, y0 := ?_,
           toMeter := ?_, a := rfl, rf := rfl, b := rfl, ra := rfl, sphere := rfl, axis := rfl, fromGreenwich := rfl,
           nadGrids := rfl, datumNone := rfl, dat := ?_ }
  · show projOf (p4Kind c.kind).toList = some (p4FuncName c.kind)
    cases c.kind <;> decide +kernel
  · show ((p4Kind c.kind).toList = s "longlat") ↔ c.kind = .geog
    cases c.kind <;> decide
  · show pLat0 c none = (expected c).lat0
    cases hk : c.kind <;> simp [pLat0, expected, hk, degX]
  · show pLat1 c none = (expected c).lat1
    cases hk : c.kind <;> simp [pLat1, expected, hk, degX]
  · show pLat2 c none = (expected c).lat2
    cases hk : c.kind <;> simp [pLat2, expected, hk, degX]
  · show pLong0 c none = (expected c).long0
    cases hk : c.kind <;> simp [pLong0, expected, hk, degX]
  · show pK0 c none = _
    cases hk : c.kind <;> simp [pK0, hk]
  · intro hg
    show pX0 c none = (expected c).x0
    have := (hfe hg).1
    cases hk : c.kind <;> simp_all [pX0, expected]
  · intro hg
    show pY0 c none = (expected c).y0
    have := (hfe hg).2
    cases hk : c.kind <;> simp_all [pY0, expected]
  · intro hg
    show uToMeter c (some 1) = (expected c).toMeter
    cases hu : c.unit <;> simp_all [uToMeter, expected, UnitK.toMeter]
  · -- the datum
    cases hd : c.datum with
    | wgs84 =>
      have hcode : lowerCode (dCode c []) = s "WGS84" := by simp [dCode, hd, lowerCode]
      refine DatumSit.namedPlain (by simp [hd]) ?_ ?_ ?_ ?_
      · show dParams c [] = []
        simp [dParams, hd]
      · show lowerCode (dCode c []) ≠ []
        rw [hcode]; decide
      · show lowerCode (dCode c []) ≠ s "none"
        rw [hcode]; decide
      · show List.lookup (String.ofList (lowerCode (dCode c []))) datumTable = none
        rw [hcode]; exact lookup_WGS84
    | nad83 =>
      have hcode : lowerCode (dCode c []) = s "nad83" := by
        simp only [dCode, hd, lowerCode]
        rw [if_pos (by decide), toLower_NAD83]
      obtain ⟨d, hl, hz⟩ := lookup_nad83
      refine DatumSit.namedTable (by simp [hd]) d ?_ ?_ ?_ hz
      · show lowerCode (dCode c []) ≠ []
        rw [hcode]; decide
      · show lowerCode (dCode c []) ≠ s "none"
        rw [hcode]; decide
      · show List.lookup (String.ofList (lowerCode (dCode c []))) datumTable = some d
        rw [hcode]; exact hl
    | custom =>
      have hcode : lowerCode (dCode c []) = [] := by simp [dCode, hd, lowerCode, toLower]
      cases ht : c.towgs with
      | none => unfold datumWF at hdw; rw [hd, ht] at hdw; simp at hdw
      | some ds =>
        refine DatumSit.shift ds hd ht ?_ ?_
        · show dParams c [] = _
          simp [dParams, hd, ht]
        · show (lowerCode (dCode c []) ≠ [] && lowerCode (dCode c []) ≠ s "none") = true → _
          rw [hcode]; simp

end GeomV.C20
