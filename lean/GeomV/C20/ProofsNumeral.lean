import GeomV.C20.TransformAgree
import GeomV.C20.Numeral
/-!
# C20: the numeral contract is a theorem

`C20_parse_agree` / `C20_transform_agree` carry the hypothesis `numeralsRead c` (every numeral of `c`, as `renderDec`
writes it, is a non-empty token over `[0-9.-]` that the model of `strconv.ParseFloat` reads back as that decimal).
`Numeral.lean` proves it for EVERY decimal with at most 400 fractional digits (`numeralOK_of_scale`: `natDigits` /
`digitsFixed` digit strings, the literal scanner `Dec.parseLit`, the `inf`/`nan`/hex/underscore guards and the
400-digit exponent guard of `parseFloat`, the sign, exact rational value).  So the hypothesis is replaced by the plain
side condition `scalesOK c` (no numeral has more than 400 fractional digits; the generator writes at most 16).
-/
namespace GeomV.C20
open GeomV

/-- **C20_numeral_contract** — for every decimal `d = mant / 10^scale` with `scale ≤ 400`: `renderDec d` is non-empty, over
`[0-9.-]`, and `parseFloat (renderDec d) = d` exactly. -/
theorem C20_numeral_contract (d : Dec) (h : d.scale ≤ 400) :
    renderDec d ≠ [] ∧ (renderDec d).all numCh = true ∧ parseFloat (α := XR) (renderDec d) = .ok (some d.toRat) := by
  have hok := numeralOK_of_scale d h
  unfold numeralOK at hok
  simp only [Bool.and_eq_true, Bool.not_eq_true', List.isEmpty_eq_false_iff] at hok
  exact ⟨hok.1.1, hok.1.2, parseFloat_render d h⟩

/-- **C20_parse_agree_scales** — `C20_parse_agree` WITHOUT the numeral contract as a hypothesis: for every well-formed
description whose numerals have at most 400 fractional digits and every meaning-preserving style, both texts parse and
every field a transformer reads equals `expected c` as an exact rational. -/
theorem C20_parse_agree_scales (c : Crs) (st : Style) (hw : wellFormed c = true) (hst : styleOK st = true)
    (hs : scalesOK c = true) : agree c st = true :=
  C20_parse_agree c st hw hst (numeralsRead_of_scales c hs)

/-- **C20_transform_agree_scales** — the same for `C20_transform_agree` (real datum codes, every datum). -/
theorem C20_transform_agree_scales {α : Type} [C08.RTrans α] (ι : Rat → α) (c : Crs) (st : Style)
    (hw : wellFormed c = true) (hst : styleOK st = true) (hs : scalesOK c = true) :
    ∃ rp rw vp vw, parse (α := XR) (toProj4 c st) = .ok rp ∧ parse (α := XR) (toWkt c st) = .ok rw ∧
      view rp = some vp ∧ view rw = some vw ∧ codeWGS84 rp = codeWGS84 rw ∧
      ∀ (wgs other : C08.SR α) (x y : α),
        C08.transform wgs (pipeSR ι vp rp.datumCode) other x y = C08.transform wgs (pipeSR ι vw rw.datumCode) other x y ∧
        C08.transform wgs other (pipeSR ι vp rp.datumCode) x y = C08.transform wgs other (pipeSR ι vw rw.datumCode) x y :=
  C20_transform_agree ι c st hw hst (numeralsRead_of_scales c hs)

/-- non-vacuity: the side condition holds for a US-foot Lambert sample, and fails for a numeral with 401 fractional digits
(the model's `parseFloat` refuses it: outside the model, not a claim about strconv) -/
example : scalesOK (sample .lcc .usFootDec 2) = true ∧ wellFormed (sample .lcc .usFootDec 2) = true := by decide +kernel
example : numeralOK ⟨1, 401⟩ = false := by decide +kernel

end GeomV.C20
