import GeomV.C20.Spec
/-!
# C20: from the fields a parser delivers to the fields a transformer reads

`CoreOK c sr` says what EITHER parser must have written into the reference before `DeriveConstants`
runs; `derive_view` shows that `DeriveConstants` + `getDatum` then produce exactly `expected c`.
Both halves of `C20_parse_agree` go through this lemma.
-/
set_option linter.unusedSimpArgs false
set_option linter.unusedVariables false
namespace GeomV.C20
open Num

/-- the arithmetic facts about a well-formed spheroid that `DeriveConstants` relies on (proved from
`0 < a`, `1 < 1/f`, `1/f ≤ a·10⁹` in `DeriveArith.lean`) -/
structure SpheroidFacts (a rf : Rat) : Prop where
  rf0 : rf ≠ 0
  a2 : a * a ≠ 0
  b2 : ((1 - 1 / rf) * a) * ((1 - 1 / rf) * a) ≠ 0
  notSphere : ¬ ((if a - (1 - 1 / rf) * a < 0 then -(a - (1 - 1 / rf) * a) else a - (1 - 1 / rf) * a) < epslnQ)

/-! ## the stages of `deriveCore` leave everything else alone -/

section stages
variable (sr : SR XR)

theorem dcDatum_eq : dcDatum sr = sr ∨ ∃ P E N, dcDatum sr = { sr with datumParams := P, ellps := E, datumName := N } := by
  unfold dcDatum
  split
  · split
    · exact Or.inr ⟨_, _, _, rfl⟩
    · exact Or.inl rfl
  · exact Or.inl rfl

end stages

/-- the fields of the datum-table step that matter afterwards -/
structure DatumStep (sr : SR XR) (P : List XR) : Prop where
  params : (dcDatum sr).datumParams = P
  rest : ∀ {β : Type} (f : SR XR → β), (∀ r P' E N, f { r with datumParams := P', ellps := E, datumName := N } = f r) → f (dcDatum sr) = f sr

theorem datumStep_rest (sr : SR XR) {β : Type} (f : SR XR → β)
    (hf : ∀ r P' E N, f { r with datumParams := P', ellps := E, datumName := N } = f r) : f (dcDatum sr) = f sr := by
  rcases dcDatum_eq sr with h | ⟨P, E, N, h⟩
  · rw [h]
  · rw [h, hf]

/-! ## what a parser must deliver -/

/-- how the datum of the description shows up in the parsed reference before `DeriveConstants` -/
inductive DatumSit (c : Crs) (sr : SR XR) : Prop
  /-- a custom datum with its own shift; the datum code (if any) is not in the library's table -/
  | shift (ds : List Dec) (hd : c.datum = .custom) (ht : c.towgs = some ds)
      (hp : sr.datumParams = ds.map fun d => some d.toRat)
      (hnt : (sr.datumCode ≠ [] && sr.datumCode ≠ s "none") = true →
        List.lookup (String.ofList sr.datumCode) datumTable = none)
  /-- a named datum whose code the table does not know (PROJ.4 `WGS84`, WKT `north_american_…`) -/
  | namedPlain (hd : c.datum ≠ .custom) (hp : sr.datumParams = [])
      (hc1 : sr.datumCode ≠ []) (hc2 : sr.datumCode ≠ s "none")
      (hnt : List.lookup (String.ofList sr.datumCode) datumTable = none)
  /-- a named datum found in the table with an all-zero shift (PROJ.4 `nad83`, WKT `wgs84`) -/
  | namedTable (hd : c.datum ≠ .custom) (d : DatumDef)
      (hc1 : sr.datumCode ≠ []) (hc2 : sr.datumCode ≠ s "none")
      (hl : List.lookup (String.ofList sr.datumCode) datumTable = some d) (hz : d.towgs84 = some [0, 0, 0])

structure CoreOK (c : Crs) (sr : SR XR) : Prop where
  proj : projOf sr.name = some (p4FuncName c.kind)
  geo : (sr.name = s "longlat") ↔ c.kind = .geog
  lat0 : sr.lat0 = (expected c).lat0
  lat1 : sr.lat1 = (expected c).lat1
  lat2 : sr.lat2 = (expected c).lat2
  latTS : sr.latTS = none
  long0 : sr.long0 = (expected c).long0
  k0 : sr.k0 = if c.kind = .merc || c.kind = .tmerc then some c.k0.toRat else none
  x0 : c.kind ≠ .geog → sr.x0 = (expected c).x0
  y0 : c.kind ≠ .geog → sr.y0 = (expected c).y0
  toMeter : c.kind ≠ .geog → sr.toMeter = (expected c).toMeter
  a : sr.a = some c.a.toRat
  rf : sr.rf = some c.rf.toRat
  b : sr.b = none
  ra : sr.ra = false
  sphere : sr.sphere = false
  axis : sr.axis = []
  fromGreenwich : sr.fromGreenwich = none
  nadGrids : sr.nadGrids = []
  datumNone : sr.datum = none
  dat : DatumSit c sr

/-! ## the eight stages after the datum step -/

def rest8 (sr : SR XR) : SR XR := dcAxis (dcK0 (dcEp2 (dcRa (dcSquares (dcSphere (dcB (dcEllps sr)))))))

theorem deriveCore_eq (sr : SR XR) : deriveCore sr = rest8 (dcDatum sr) := rfl

theorem rest8_eq (sr : SR XR) (a rf : Rat) (hf : SpheroidFacts a rf)
    (ha : sr.a = some a) (hrf : sr.rf = some rf) (hb : sr.b = none) (hra : sr.ra = false) :
    rest8 sr = { sr with
      b := some ((1 - 1 / rf) * a), a2 := some (a * a), b2 := some (((1 - 1 / rf) * a) * ((1 - 1 / rf) * a)),
      es := some ((a * a - ((1 - 1 / rf) * a) * ((1 - 1 / rf) * a)) / (a * a)), e := none,
      ep2 := some ((a * a - ((1 - 1 / rf) * a) * ((1 - 1 / rf) * a)) / (((1 - 1 / rf) * a) * ((1 - 1 / rf) * a))),
      k0 := if sr.k0.isNone then some 1 else sr.k0,
      axis := if sr.axis = [] then s "enu" else sr.axis } := by
  obtain ⟨h1, h2, h3, h4⟩ := hf
  have e1 : dcEllps sr = sr := by simp [dcEllps, ha, Num.isNaN]
  have e2 : dcB sr = { sr with b := some ((1 - 1 / rf) * a) } := by
    simp [dcB, ha, hrf, hb, Num.isNaN, Num.mul, Num.sub, Num.div, Num.ofRat, XR.bin, h1]
  rw [rest8, e1, e2]
  have e3 : dcSphere { sr with b := some ((1 - 1 / rf) * a) } = { sr with b := some ((1 - 1 / rf) * a) } := by
    simp [dcSphere, ha, hrf, Num.eq, Num.lt, Num.abs, Num.sub, Num.ofRat, XR.bin, h1, h4]
  rw [e3]
  simp [dcSquares, dcRa, dcEp2, dcK0, dcAxis, ha, hra, Num.mul, Num.sub, Num.div, Num.ofRat, Num.sqrt, Num.isNaN, XR.bin, h2, h3]
  split <;> split <;> rfl

/-! ## `getDatum` on the four shapes of `DatumParams` -/

section getDatum
variable (R : SR XR)

theorem getDatum_plain (hc1 : R.datumCode ≠ []) (hc2 : R.datumCode ≠ s "none") (hp : R.datumParams = []) (hn : R.nadGrids = []) :
    getDatum R = .ok ({ dtype := pjdWGS84, params := [], a := R.a, b := R.b, es := R.es, ep2 := R.ep2, nadGrids := [] }, []) := by
  simp [getDatum, hc1, hc2, hp, hn, bind, Except.bind, pure, Except.pure, pjdWGS84, pjdGridShift]

theorem getDatum_zero (hc1 : R.datumCode ≠ []) (hc2 : R.datumCode ≠ s "none")
    (hp : R.datumParams = [some 0, some 0, some 0]) (hn : R.nadGrids = []) :
    getDatum R = .ok ({ dtype := pjdWGS84, params := [some 0, some 0, some 0], a := R.a, b := R.b, es := R.es, ep2 := R.ep2,
                        nadGrids := [] }, [some 0, some 0, some 0]) := by
  simp [getDatum, hc1, hc2, hp, hn, bind, Except.bind, pure, Except.pure, pjdWGS84, pjdGridShift, anyNonzero, idx, neq0,
    Num.eq, Num.ofRat]

theorem getDatum_three (x y z : Rat) (hnz : (x ≠ 0 || y ≠ 0 || z ≠ 0) = true)
    (hp : R.datumParams = [some x, some y, some z]) (hn : R.nadGrids = []) :
    getDatum R = .ok ({ dtype := pjd3Param, params := [some x, some y, some z], a := R.a, b := R.b, es := R.es, ep2 := R.ep2,
                        nadGrids := [] }, [some x, some y, some z]) := by
  have : anyNonzero (α := XR) [some x, some y, some z] [0, 1, 2] = .ok true := by
    simp [anyNonzero, idx, neq0, Num.eq, Num.ofRat, bind, Except.bind, pure, Except.pure]
    by_cases hx : x = 0 <;> by_cases hy : y = 0 <;> by_cases hz : z = 0 <;> simp_all
  simp [getDatum, hp, hn, this, bind, Except.bind, pure, Except.pure, pjd3Param, pjdGridShift]

theorem getDatum_seven (x y z rx ry rz sc : Rat) (hnz : (x ≠ 0 || y ≠ 0 || z ≠ 0) = true)
    (hp : R.datumParams = [some x, some y, some z, some rx, some ry, some rz, some sc]) (hn : R.nadGrids = []) :
    getDatum R = .ok (
      if rx ≠ 0 || ry ≠ 0 || rz ≠ 0 || sc ≠ 0 then
        ({ dtype := pjd7Param,
           params := [some x, some y, some z, some (rx * secToRadQ), some (ry * secToRadQ), some (rz * secToRadQ), some (sc / 1000000 + 1)],
           a := R.a, b := R.b, es := R.es, ep2 := R.ep2, nadGrids := [] },
         [some x, some y, some z, some (rx * secToRadQ), some (ry * secToRadQ), some (rz * secToRadQ), some (sc / 1000000 + 1)])
      else
        ({ dtype := pjd3Param, params := [some x, some y, some z, some rx, some ry, some rz, some sc],
           a := R.a, b := R.b, es := R.es, ep2 := R.ep2, nadGrids := [] },
         [some x, some y, some z, some rx, some ry, some rz, some sc])) := by
  have h1 : anyNonzero (α := XR) [some x, some y, some z, some rx, some ry, some rz, some sc] [0, 1, 2] = .ok true := by
    simp [anyNonzero, idx, neq0, Num.eq, Num.ofRat, bind, Except.bind, pure, Except.pure]
    by_cases hx : x = 0 <;> by_cases hy : y = 0 <;> by_cases hz : z = 0 <;> simp_all
  have h2 : anyNonzero (α := XR) [some x, some y, some z, some rx, some ry, some rz, some sc] [3, 4, 5, 6]
      = .ok (rx ≠ 0 || ry ≠ 0 || rz ≠ 0 || sc ≠ 0) := by
    simp [anyNonzero, idx, neq0, Num.eq, Num.ofRat, bind, Except.bind, pure, Except.pure]
    by_cases h3 : rx = 0 <;> by_cases h4 : ry = 0 <;> by_cases h5 : rz = 0 <;> by_cases h6 : sc = 0 <;> simp_all
  have hm : (1000000 : Rat) ≠ 0 := by decide +kernel
  simp [getDatum, hp, hn, h1, h2, bind, Except.bind, pure, Except.pure, pjd3Param, pjd7Param, pjdGridShift, idx,
    Num.mul, Num.add, Num.div, Num.ofRat, XR.bin, hm]
  by_cases hP : ((¬rx = 0 ∨ ¬ry = 0) ∨ ¬rz = 0) ∨ ¬sc = 0 <;> simp [hP]

end getDatum

/-! ## the reference after `DeriveConstants`, and its view -/

/-- the result of `DeriveConstants` on a reference whose datum step gave `sr0` -/
def finalSR (sr0 : SR XR) (a rf : Rat) (d : Datum XR) (ps : List XR) : SR XR :=
  { sr0 with
    b := some ((1 - 1 / rf) * a), a2 := some (a * a), b2 := some (((1 - 1 / rf) * a) * ((1 - 1 / rf) * a)),
    es := some ((a * a - ((1 - 1 / rf) * a) * ((1 - 1 / rf) * a)) / (a * a)), e := none,
    ep2 := some ((a * a - ((1 - 1 / rf) * a) * ((1 - 1 / rf) * a)) / (((1 - 1 / rf) * a) * ((1 - 1 / rf) * a))),
    k0 := if sr0.k0.isNone then some 1 else sr0.k0,
    axis := if sr0.axis = [] then s "enu" else sr0.axis,
    datum := some d, datumParams := ps }

theorem view_finalSR (c : Crs) (sr sr0 : SR XR) (h : CoreOK c sr)
    (hsr0 : sr0 = sr ∨ ∃ P E N, sr0 = { sr with datumParams := P, ellps := E, datumName := N })
    (d : Datum XR) (ps : List XR)
    (hda : d.a = some c.a.toRat) (hdb : d.b = (expected c).b) (hdes : d.es = (expected c).es) (hdep : d.ep2 = (expected c).ep2)
    (hdt : d.dtype = (expDatum c).1)
    (hdp : (if d.dtype = pjd3Param || d.dtype = pjd7Param then d.params else []) = (expDatum c).2.map some) :
    view (finalSR sr0 c.a.toRat c.rf.toRat d ps) = some (expected c) := by
  have hname : sr0.name = sr.name := by rcases hsr0 with r | ⟨_, _, _, r⟩ <;> rw [r]
  have hf : ∀ {β : Type} (f : SR XR → β), (∀ r P E N, f { r with datumParams := P, ellps := E, datumName := N } = f r) →
      f sr0 = f sr := by
    intro β f hf
    rcases hsr0 with r | ⟨_, _, _, r⟩ <;> rw [r]
    exact hf _ _ _ _
  have e_lat0 : sr0.lat0 = sr.lat0 := hf (·.lat0) (fun _ _ _ _ => rfl)
  have e_lat1 : sr0.lat1 = sr.lat1 := hf (·.lat1) (fun _ _ _ _ => rfl)
  have e_lat2 : sr0.lat2 = sr.lat2 := hf (·.lat2) (fun _ _ _ _ => rfl)
  have e_latTS : sr0.latTS = sr.latTS := hf (·.latTS) (fun _ _ _ _ => rfl)
  have e_long0 : sr0.long0 = sr.long0 := hf (·.long0) (fun _ _ _ _ => rfl)
  have e_k0 : sr0.k0 = sr.k0 := hf (·.k0) (fun _ _ _ _ => rfl)
  have e_x0 : sr0.x0 = sr.x0 := hf (·.x0) (fun _ _ _ _ => rfl)
  have e_y0 : sr0.y0 = sr.y0 := hf (·.y0) (fun _ _ _ _ => rfl)
  have e_a : sr0.a = sr.a := hf (·.a) (fun _ _ _ _ => rfl)
  have e_rf : sr0.rf = sr.rf := hf (·.rf) (fun _ _ _ _ => rfl)
  have e_sph : sr0.sphere = sr.sphere := hf (·.sphere) (fun _ _ _ _ => rfl)
  have e_tm : sr0.toMeter = sr.toMeter := hf (·.toMeter) (fun _ _ _ _ => rfl)
  have e_ax : sr0.axis = sr.axis := hf (·.axis) (fun _ _ _ _ => rfl)
  have e_fg : sr0.fromGreenwich = sr.fromGreenwich := hf (·.fromGreenwich) (fun _ _ _ _ => rfl)
  simp only [view, finalSR, hname, e_lat0, e_lat1, e_lat2, e_latTS, e_long0, e_k0, e_x0, e_y0, e_a, e_rf, e_sph, e_tm, e_ax,
    e_fg, h.proj, h.lat0, h.lat1, h.lat2, h.latTS, h.long0, h.k0, h.a, h.rf, h.sphere, h.axis, h.fromGreenwich, hda, hdb, hdes,
    hdep, hdt, hdp, Option.some.injEq]
  by_cases hg : c.kind = .geog
  · have hn : sr.name = s "longlat" := h.geo.mpr hg
    simp [expected, hn, hg, Num.nan, Num.ofRat]
    simpa [hdt] using hdp
  · have hn : ¬ sr.name = s "longlat" := fun e => hg (h.geo.mp e)
    simp only [hn, h.x0 hg, h.y0 hg, h.toMeter hg]
    simp [expected, hg]
    refine ⟨?_, ?_⟩
    · cases hk : c.kind <;> simp_all
    · simpa [hdt] using hdp

/-! ## `DeriveConstants` delivers `expected` -/

theorem hsr0_fields {sr sr0 : SR XR}
    (hsr0 : sr0 = sr ∨ ∃ P E N, sr0 = { sr with datumParams := P, ellps := E, datumName := N }) :
    sr0.a = sr.a ∧ sr0.rf = sr.rf ∧ sr0.b = sr.b ∧ sr0.ra = sr.ra ∧ sr0.datum = sr.datum ∧ sr0.datumCode = sr.datumCode
    ∧ sr0.nadGrids = sr.nadGrids := by
  rcases hsr0 with r | ⟨_, _, _, r⟩ <;> rw [r] <;> exact ⟨rfl, rfl, rfl, rfl, rfl, rfl, rfl⟩

theorem derive_finish (c : Crs) (sr sr0 : SR XR) (hf : SpheroidFacts c.a.toRat c.rf.toRat) (h : CoreOK c sr)
    (hdc : dcDatum sr = sr0)
    (hsr0 : sr0 = sr ∨ ∃ P E N, sr0 = { sr with datumParams := P, ellps := E, datumName := N })
    (d : Datum XR) (ps : List XR) (hg : getDatum (rest8 sr0) = .ok (d, ps))
    (hda : d.a = some c.a.toRat) (hdb : d.b = (expected c).b) (hdes : d.es = (expected c).es) (hdep : d.ep2 = (expected c).ep2)
    (hdt : d.dtype = (expDatum c).1)
    (hdp : (if d.dtype = pjd3Param || d.dtype = pjd7Param then d.params else []) = (expDatum c).2.map some) :
    ∃ r, deriveConstants sr = .ok r ∧ view r = some (expected c) ∧ r.datumCode = sr.datumCode := by
  obtain ⟨ea, erf, eb, era, edat, edc, _⟩ := hsr0_fields hsr0
  have e8 := rest8_eq sr0 c.a.toRat c.rf.toRat hf (ea.trans h.a) (erf.trans h.rf) (eb.trans h.b) (era.trans h.ra)
  refine ⟨finalSR sr0 c.a.toRat c.rf.toRat d ps, ?_, view_finalSR c sr sr0 h hsr0 d ps hda hdb hdes hdep hdt hdp, edc⟩
  have hnone : (rest8 sr0).datum = none := by rw [e8]; exact edat.trans h.datumNone
  unfold deriveConstants
  rw [deriveCore_eq, hdc]
  unfold attachDatum
  rw [hnone, hg]
  simp only []
  rw [e8]
  rfl

theorem dcDatum_noTable (sr : SR XR)
    (hnt : (sr.datumCode ≠ [] && sr.datumCode ≠ s "none") = true → List.lookup (String.ofList sr.datumCode) datumTable = none) :
    dcDatum sr = sr := by
  unfold dcDatum
  split
  · rename_i hc
    rw [hnt hc]
  · rfl

theorem derive_view (c : Crs) (sr : SR XR) (hf : SpheroidFacts c.a.toRat c.rf.toRat) (hd : datumWF c = true)
    (h : CoreOK c sr) : ∃ r, deriveConstants sr = .ok r ∧ view r = some (expected c) ∧ r.datumCode = sr.datumCode := by
  have hbv : (expected c).b = some ((1 - 1 / c.rf.toRat) * c.a.toRat) := rfl
  rcases h.dat with ⟨ds, hcus, ht, hp, hnt⟩ | ⟨hnc, hp, hc1, hc2, hnt⟩ | ⟨hnc, dd, hc1, hc2, hl, hz⟩
  · -- a custom datum with its own shift
    have hdc := dcDatum_noTable sr hnt
    have e8 := rest8_eq sr c.a.toRat c.rf.toRat hf h.a h.rf h.b h.ra
    unfold datumWF at hd
    rw [hcus, ht] at hd
    match ds, hd, hp with
    | [x, y, z], hd, hp =>
      have hg := getDatum_three (rest8 sr) x.toRat y.toRat z.toRat hd (by rw [e8]; exact hp) (by rw [e8]; exact h.nadGrids)
      refine derive_finish c sr sr hf h hdc (Or.inl rfl) _ _ hg ?_ ?_ ?_ ?_ ?_ ?_
      · rw [e8]; exact h.a
      · rw [e8]; rfl
      · rw [e8]; rfl
      · rw [e8]; rfl
      · simp [expDatum, hcus, ht, expectedParams]
      · simp [expDatum, hcus, ht, expectedParams, pjd3Param, pjd7Param]
    | [x, y, z, rx, ry, rz, sc], hd, hp =>
      have hg := getDatum_seven (rest8 sr) x.toRat y.toRat z.toRat rx.toRat ry.toRat rz.toRat sc.toRat hd
        (by rw [e8]; exact hp) (by rw [e8]; exact h.nadGrids)
      by_cases hr : (rx.toRat ≠ 0 || ry.toRat ≠ 0 || rz.toRat ≠ 0 || sc.toRat ≠ 0) = true
      · rw [if_pos hr] at hg
        have hr' := hr
        simp at hr'
        refine derive_finish c sr sr hf h hdc (Or.inl rfl) _ _ hg ?_ ?_ ?_ ?_ ?_ ?_
        · rw [e8]; exact h.a
        · rw [e8]; rfl
        · rw [e8]; rfl
        · rw [e8]; rfl
        · simp [expDatum, hcus, ht, expectedParams, hr']
        · simp [expDatum, hcus, ht, expectedParams, hr', pjd3Param, pjd7Param]
      · rw [if_neg hr] at hg
        have hr' := hr
        simp at hr'
        refine derive_finish c sr sr hf h hdc (Or.inl rfl) _ _ hg ?_ ?_ ?_ ?_ ?_ ?_
        · rw [e8]; exact h.a
        · rw [e8]; rfl
        · rw [e8]; rfl
        · rw [e8]; rfl
        · simp [expDatum, hcus, ht, expectedParams, hr']
        · simp [expDatum, hcus, ht, expectedParams, hr', pjd3Param, pjd7Param]
  · -- a named datum the table does not know
    have hdc := dcDatum_noTable sr (fun _ => hnt)
    have e8 := rest8_eq sr c.a.toRat c.rf.toRat hf h.a h.rf h.b h.ra
    have hg := getDatum_plain (rest8 sr) (by rw [e8]; exact hc1) (by rw [e8]; exact hc2) (by rw [e8]; exact hp)
      (by rw [e8]; exact h.nadGrids)
    have hexp : expDatum c = (pjdWGS84, []) := by
      unfold expDatum; cases hdat : c.datum <;> simp_all
    refine derive_finish c sr sr hf h hdc (Or.inl rfl) _ _ hg ?_ ?_ ?_ ?_ ?_ ?_
    · rw [e8]; exact h.a
    · rw [e8]; rfl
    · rw [e8]; rfl
    · rw [e8]; rfl
    · rw [hexp]
    · rw [hexp]; simp [pjdWGS84, pjd3Param, pjd7Param]
  · -- a named datum of the table, all-zero shift
    have hdc : dcDatum sr = { sr with datumParams := [some 0, some 0, some 0], ellps := dd.ellipse.toList, datumName := if dd.datumName ≠ "" then dd.datumName.toList else sr.datumCode } := by
      unfold dcDatum
      simp [hc1, hc2, hl, hz, Num.ofRat]
    have hs0 : ∀ sr0, sr0 = { sr with datumParams := [some 0, some 0, some 0], ellps := dd.ellipse.toList, datumName := if dd.datumName ≠ "" then dd.datumName.toList else sr.datumCode } →
        ∃ r, deriveConstants sr = .ok r ∧ view r = some (expected c) ∧ r.datumCode = sr.datumCode := by
      intro sr0 hsr0
      have e8 := rest8_eq sr0 c.a.toRat c.rf.toRat hf (by rw [hsr0]; exact h.a) (by rw [hsr0]; exact h.rf)
        (by rw [hsr0]; exact h.b) (by rw [hsr0]; exact h.ra)
      have hg := getDatum_zero (rest8 sr0) (by rw [e8, hsr0]; exact hc1) (by rw [e8, hsr0]; exact hc2)
        (by rw [e8, hsr0]) (by rw [e8, hsr0]; exact h.nadGrids)
      have hexp : expDatum c = (pjdWGS84, []) := by
        unfold expDatum; cases hdat : c.datum <;> simp_all
      refine derive_finish c sr sr0 hf h (hdc.trans hsr0.symm) (Or.inr ⟨_, _, _, hsr0⟩) _ _ hg ?_ ?_ ?_ ?_ ?_ ?_
      · rw [e8, hsr0]; exact h.a
      · rw [e8]; rfl
      · rw [e8]; rfl
      · rw [e8]; rfl
      · rw [hexp]
      · rw [hexp]; simp [pjdWGS84, pjd3Param, pjd7Param]
    exact hs0 _ rfl

end GeomV.C20
