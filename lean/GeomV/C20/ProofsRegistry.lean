import GeomV.C20.Proofs
/-!
# C20: registered names — every alias, over the REGENERATED registry

Clause: "registered names (WGS84, EPSG:4326, EPSG:3857 and aliases) denote the same references as their
definitions".  `registryDefs` / `registryAliases` are regenerated from global.go on every run; `specAliases` is the
list written from the property.  `C20_registry` (Proofs.lean) says a name parses to what its definition string parses
to; here: EVERY alias (of the source and of the Spec) resolves, to the same definition as its target, hence parses to
the same reference for every number type, and that reference is `Equal` to the target's; and what the three
definitions MEAN (exact numbers a transformer reads).
-/
set_option linter.unusedSimpArgs false
set_option linter.unusedVariables false
namespace GeomV.C20
open Num

/-- decidable core: every alias resolves, and to the definition of its target -/
def aliasOK (p : String × String) : Bool :=
  (registryLookup p.1).isSome && registryLookup p.1 == registryLookup p.2

theorem aliases_ok : (registryAliases ++ specAliases).all aliasOK = true := by decide +kernel

/-- every name the property lists is registered in the source's registry -/
theorem aliases_cover :
    (specAliases.all fun p => (registryLookup p.1).isSome && (registryLookup p.2).isSome) = true := by decide +kernel

/-- **C20_registry_aliases** — for EVERY alias `a ↦ t` (the `defs[a] = defs[t]` assignments of global.go as
regenerated, and the list written from the property): `a` is registered, stands for the same definition string as
`t`, and `Parse(a)` is `Parse(t)` — for every number type. -/
theorem C20_registry_aliases {α : Type} [Num α] (p : String × String) (hp : p ∈ registryAliases ++ specAliases) :
    (registryLookup p.1).isSome ∧ registryLookup p.1 = registryLookup p.2
    ∧ parse (α := α) p.1.toList = parse (α := α) p.2.toList := by
  have h := List.all_eq_true.mp aliases_ok p hp
  unfold aliasOK at h
  simp only [Bool.and_eq_true, beq_iff_eq] at h
  refine ⟨h.1, h.2, ?_⟩
  unfold parse
  rw [String.ofList_toList, String.ofList_toList, ← h.2]
  cases hl : registryLookup p.1 with
  | none => rw [hl] at h; simp at h
  | some d => rfl

/-- **C20_registry_alias_equal** — an alias and its target are `Equal` (for any reflexive closeness), so
`NewTransform` between them is the nil transformer. -/
theorem C20_registry_alias_equal {α : Type} [Num α] (close : α → α → Bool) (hr : ∀ x, close x x = true)
    (p : String × String) (hp : p ∈ registryAliases ++ specAliases) (ra rt : SR α)
    (ha : parse p.1.toList = .ok ra) (ht : parse p.2.toList = .ok rt) :
    equalSR close ra rt = some true ∧ newTransformIsNil close ra rt = some true := by
  have e := (C20_registry_aliases (α := α) p hp).2.2
  rw [e] at ha
  have : ra = rt := by rw [ha] at ht; injection ht
  subst this
  exact ⟨equalSR_refl close hr ra (parse_datum _ ra ha), equalSR_refl close hr ra (parse_datum _ ra ha)⟩

/-- every registered definition parses (exact numbers), so the hypotheses above are not vacuous -/
theorem registry_defs_parse :
    ((registryDefs.map (·.1) ++ registryAliases.map (·.1)).all fun n =>
      match parse (α := XR) n.toList with | .ok _ => true | .error _ => false) = true := by decide +kernel

/-! ### what the definitions mean -/

/-- WGS 84 longitude/latitude as a description -/
def crs4326 : Crs :=
  { kind := .geog, lat0 := ⟨0, 0⟩, lat1 := ⟨0, 0⟩, lat2 := ⟨0, 0⟩, lon0 := ⟨0, 0⟩, k0 := ⟨1, 0⟩, fe := ⟨0, 0⟩, fn := ⟨0, 0⟩,
    feM := ⟨0, 0⟩, fnM := ⟨0, 0⟩, a := ⟨6378137, 0⟩, rf := ⟨298257223563, 9⟩, towgs := none, unit := .metre, datum := .wgs84 }

/-- the fields a transformer reads of the spherical ("Pseudo-") Mercator of radius 6378137 with no datum shift -/
def isWebMercator (r : Except Err (SR XR)) : Bool :=
  match r with
  | .ok sr =>
    projOf sr.name == some "Merc" && sr.sphere && sr.a == some 6378137 && sr.b == some 6378137 && sr.es == some 0
    && sr.long0 == some 0 && sr.x0 == some 0 && sr.y0 == some 0 && sr.k0 == some 1 && sr.toMeter == some 1
    && sr.axis == s "enu" && sr.fromGreenwich == none && (sr.datum.map (·.dtype)) == some pjdNoDatum
  | _ => false

/-- **C20_registry_meaning** — `EPSG:4326` and `WGS84` are WGS 84 longitude/latitude (`expected crs4326`: the same
reading as the PROJ.4 / WKT texts of that description, by `C20_parse_agree`); `EPSG:3857` and its four aliases are
the spherical Mercator of radius 6378137 without datum shift; `EPSG:4269` is geographic on GRS80 with the NAD83 datum. -/
theorem C20_registry_meaning :
    wellFormed crs4326 = true
    ∧ isView (parse "EPSG:4326".toList) (expected crs4326) = true ∧ isView (parse "WGS84".toList) (expected crs4326) = true
    ∧ (["EPSG:3857", "EPSG:3785", "GOOGLE", "EPSG:900913", "EPSG:102113"].all fun n => isWebMercator (parse n.toList)) = true
    ∧ (match parse (α := XR) "EPSG:4269".toList with
       | .ok sr => projOf sr.name == some "LongLat" && sr.a == some 6378137 && sr.b == some (mkRat 635675231414036 100000000)
                   && sr.datumCode == s "nad83" && (sr.datum.map (·.dtype)) == some pjdWGS84
       | _ => false) = true := by
  decide +kernel

end GeomV.C20
