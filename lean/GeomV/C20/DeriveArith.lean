import GeomV.C20.Derive
import Mathlib.Tactic.Linarith
import Mathlib.Tactic.Positivity
import Mathlib.Tactic.FieldSimp
import Mathlib.Tactic.Ring
import Mathlib.Tactic.NormNum
/-! arithmetic side conditions of `Derive.lean`, from the hypotheses of `wellFormed` -/
namespace GeomV.C20

theorem spheroid_facts (a rf : Rat) (ha : 0 < a) (hrf : 1 < rf) (h : rf ≤ a * 1000000000) : SpheroidFacts a rf := by
  have hrf0 : 0 < rf := by linarith
  have hb : 0 < (1 - 1 / rf) * a := by
    have : 1 / rf < 1 := by rw [div_lt_one hrf0]; exact hrf
    have : 0 < 1 - 1 / rf := by linarith
    positivity
  refine ⟨ne_of_gt hrf0, by positivity, by positivity, ?_⟩
  have e : a - (1 - 1 / rf) * a = a / rf := by field_simp; ring
  have hpos : 0 < a / rf := by positivity
  rw [e, if_neg (not_lt.mpr hpos.le)]
  unfold epslnQ
  rw [not_lt, le_div_iff₀ hrf0]
  norm_num
  nlinarith

end GeomV.C20
