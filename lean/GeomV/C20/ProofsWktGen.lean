import GeomV.C20.WktGen
/-!
# Ties of the REGENERATED pieces of wkt.go (`WktGen.lean`) to the hand-written model (`Model.lean`)

`genParamSet` (the `switch name` of `parseWKTParameter`, case by case), `genWktFinish` (the statements of `wkt` after the
sections have been read: auxiliary-sphere flag, false origin × `ToMeter`, `Lat0 ← Lat1`, `Long0 ← LongC`) and `genUnitSet`
(what `parseWKTUnit` does with the conversion factor) are translated from the Go source of the tree under test on every
run.  The theorems here say that they ARE the model's `paramSet`, `wktFinish` and the `ToMeter` rule of `parseWKTUnit`,
i.e. the universally quantified theorems about the model (`C20_parse_agree`, `C20_wkt_parameter_map`,
`C20_wkt_false_origin_metres`) are theorems about the translated source.  A PARAMETER name mapped to another field, a
dropped `deg2rad`, a false origin scaled elsewhere or rounded, `Lat0 == 0` treated as unset: each changes the generated
definition and breaks its tie.
-/
set_option linter.unusedSimpArgs false
namespace GeomV.C20
open Num

section
variable {α : Type} [Num α]

/-- the PARAMETER switch of the current source is the model's `paramSet` -/
theorem genParamSet_eq (sr : SR α) (name : Str) (val : α) : genParamSet sr name val = paramSet sr name val := by
  unfold genParamSet paramSet
  simp only [decide_eq_true_eq, Bool.or_eq_true]

/-- the tail of `wkt()` of the current source is the model's `wktFinish` -/
theorem genWktFinish_eq (sr : SR α) : genWktFinish sr = wktFinish sr := by
  unfold genWktFinish wktFinish
  by_cases h1 : (decide (sr.name = s "Mercator_Auxiliary_Sphere") && decide (sr.datumCode = s "wgs84")) = true <;>
  by_cases h2 : isNaN sr.lat0 = true <;>
  by_cases h3 : isNaN sr.long0 = true <;>
  by_cases h4 : isNaN sr.longC = true <;>
  by_cases h5 : (decide (sr.name = s "Albers_Conic_Equal_Area") || decide (sr.name = s "Equidistant_Conic") ||
      decide (sr.name = s "Lambert_Azimuthal_Equal_Area")) = true <;>
  simp [h1, h2, h3, h4, h5] <;> simp_all

/-- the use of the UNIT conversion factor in the current source is the model's rule: `convert * A` for a geographic
system (the name is `longlat` while GEOGCS is being read), `convert` otherwise -/
theorem genUnitSet_eq (sr : SR α) (c : α) :
    genUnitSet sr c = { sr with toMeter := if sr.name = s "longlat" then mul c sr.a else c } := by
  unfold genUnitSet
  by_cases h : sr.name = s "longlat" <;> simp [h]

/-- `parseWKTParameter` of the model, written with the regenerated switch -/
theorem parseWKTParameter_gen (sr : SR α) (d : Str) :
    parseWKTParameter sr d =
      (match (splitOn ',' d)[1]? with
       | none => panicR sr "index out of range [1]"
       | some v1 =>
         match parseFloat (α := α) (trimSpace v1) with
         | .error (.unsupported m) => (sr, some (.unsupported m))
         | .error _ => fail sr "parseWKTParameter"
         | .ok val => genParamSet sr (trim isQuote (toLower ((splitOn ',' d).headD []))) val) := by
  unfold parseWKTParameter
  simp only [genParamSet_eq]
  cases (splitOn ',' d)[1]? with
  | none => rfl
  | some v1 =>
    simp only
    cases parseFloat (α := α) (trimSpace v1) with
    | error e => cases e <;> rfl
    | ok v => rfl

/-- `wkt` of the model, written with the regenerated tail -/
theorem wkt_gen (w : Str) :
    wkt (α := α) w =
      (match parseWKTSection (w.length + 1) [] w newSR with
       | (sr, some e) => (let _ := genWktFinish sr; .error e)
       | (sr, none) => .ok (genWktFinish sr)) := by
  unfold wkt
  rcases parseWKTSection (α := α) (w.length + 1) [] w newSR with ⟨sr, e⟩
  cases e <;> simp [genWktFinish_eq]

/-- `parseWKTUnit` of the model, written with the regenerated use of the factor -/
theorem parseWKTUnit_gen (sr : SR α) (d : Str) (v1 : Str) (c : α) (h1 : (splitOn ',' d)[1]? = some v1)
    (hc : parseFloat (α := α) (trimSpace v1) = .ok c) :
    parseWKTUnit sr d =
      ok (genUnitSet { sr with units := (let u := trim isQuote (toLower ((splitOn ',' d).headD []))
                                           if u = s "metre" then s "meter" else u) } c) := by
  unfold parseWKTUnit
  simp only [h1, hc, genUnitSet_eq]

end

/-- what the ties are about, on the source text: every PARAMETER name the property's projections use is a case label, the
switch is on the lower-cased, unquoted name, and `wkt` runs the translated statements between reading the sections and
returning -/
theorem wktgen_source_pins :
    genParamTag = "name"
    ∧ (["standard_parallel_1", "standard_parallel_2", "false_easting", "false_northing", "latitude_of_origin", "scale_factor",
        "latitude_of_center", "longitude_of_center", "central_meridian"].all fun n => (genParamTable.lookup n).isSome) = true
    ∧ genWktHead = "sr := NewSR() ;; err := sr.parseWKTSection([]string{}, wkt)" ∧ genWktReturn = "return sr, err" := by
  decide +kernel

end GeomV.C20
