import GeomV.C20.WktGen
/-!
# Ties of the REGENERATED pieces of wkt.go (`WktGen.lean`) to the hand-written model (`Model.lean`)

`genParamSet` (the `switch name` of `parseWKTParameter`, case by case), `genWktFinish` (the statements of `wkt` after the
sections have been read: auxiliary-sphere flag, false origin × `ToMeter`, `Lat0 ← Lat1`, `Long0 ← LongC`) and `genUnitSet`
(what `parseWKTUnit` does with the conversion factor) are translated from the Go source of the tree under test on every
run.  The theorems here say that they ARE the model's `paramSet`, `wktFinish` and the `ToMeter` rule of `parseWKTUnit`,
i.e. the universally quantified theorems about the model (`C20_parse_agree`, `C20_wkt_parameter_map`,
`C20_wkt_false_origin_metres`) are theorems about the translated source.  A PARAMETER name mapped to another field, a
dropped `deg2rad`, a false origin scaled elsewhere or rounded, `Lat0 == 0` treated as unset: each changes the generated
definition and breaks its tie.
-/
set_option linter.unusedSimpArgs false
namespace GeomV.C20
open Num

section
variable {α : Type} [Num α]

/-- a fold with early exit (the loop of `projString` with an arbitrary body) -/
def foldKVs' (step : SR α → Str → Except Err (SR α)) (sr : SR α) : List Str → Except Err (SR α)
  | [] => .ok sr
  | x :: r => do let sr' ← step sr x; foldKVs' step sr' r

/-- the PARAMETER switch of the current source is the model's `paramSet` -/
theorem genParamSet_eq (sr : SR α) (name : Str) (val : α) : genParamSet sr name val = paramSet sr name val := by
  unfold genParamSet paramSet
  simp only [decide_eq_true_eq, Bool.or_eq_true]

/-- the tail of `wkt()` of the current source is the model's `wktFinish` -/
theorem genWktFinish_eq (sr : SR α) : genWktFinish sr = wktFinish sr := by
  unfold genWktFinish wktFinish
  by_cases h1 : (decide (sr.name = s "Mercator_Auxiliary_Sphere") && decide (sr.datumCode = s "wgs84")) = true <;>
  by_cases h2 : isNaN sr.lat0 = true <;>
  by_cases h3 : isNaN sr.long0 = true <;>
  by_cases h4 : isNaN sr.longC = true <;>
  by_cases h5 : (decide (sr.name = s "Albers_Conic_Equal_Area") || decide (sr.name = s "Equidistant_Conic") ||
      decide (sr.name = s "Lambert_Azimuthal_Equal_Area")) = true <;>
  simp [h1, h2, h3, h4, h5] <;> simp_all

/-- the use of the UNIT conversion factor in the current source is the model's rule: `convert * A` for a geographic
system (the name is `longlat` while GEOGCS is being read), `convert` otherwise -/
theorem genUnitSet_eq (sr : SR α) (c : α) :
    genUnitSet sr c = { sr with toMeter := if sr.name = s "longlat" then mul c sr.a else c } := by
  unfold genUnitSet
  by_cases h : sr.name = s "longlat" <;> simp [h]

/-- `parseWKTParameter` of the model, written with the regenerated switch -/
theorem parseWKTParameter_gen (sr : SR α) (d : Str) :
    parseWKTParameter sr d =
      (match (splitOn ',' d)[1]? with
       | none => panicR sr "index out of range [1]"
       | some v1 =>
         match parseFloat (α := α) (trimSpace v1) with
         | .error (.unsupported m) => (sr, some (.unsupported m))
         | .error _ => fail sr "parseWKTParameter"
         | .ok val => genParamSet sr (trim isQuote (toLower ((splitOn ',' d).headD []))) val) := by
  unfold parseWKTParameter
  simp only [genParamSet_eq]
  cases (splitOn ',' d)[1]? with
  | none => rfl
  | some v1 =>
    simp only
    cases parseFloat (α := α) (trimSpace v1) with
    | error e => cases e <;> rfl
    | ok v => rfl

/-- `wkt` of the model, written with the regenerated tail -/
theorem wkt_gen (w : Str) :
    wkt (α := α) w =
      (match parseWKTSection (w.length + 1) [] w newSR with
       | (sr, some e) => (let _ := genWktFinish sr; .error e)
       | (sr, none) => .ok (genWktFinish sr)) := by
  unfold wkt
  rcases parseWKTSection (α := α) (w.length + 1) [] w newSR with ⟨sr, e⟩
  cases e <;> simp [genWktFinish_eq]

/-- `parseWKTUnit` of the model, written with the regenerated use of the factor -/
theorem parseWKTUnit_gen (sr : SR α) (d : Str) (v1 : Str) (c : α) (h1 : (splitOn ',' d)[1]? = some v1)
    (hc : parseFloat (α := α) (trimSpace v1) = .ok c) :
    parseWKTUnit sr d =
      ok (genUnitSet { sr with units := (let u := trim isQuote (toLower ((splitOn ',' d).headD []))
                                           if u = s "metre" then s "meter" else u) } c) := by
  unfold parseWKTUnit
  simp only [h1, hc, genUnitSet_eq]

end

/-- what the ties are about, on the source text: every PARAMETER name the property's projections use is a case label, the
switch is on the lower-cased, unquoted name, and `wkt` runs the translated statements between reading the sections and
returning -/
theorem wktgen_source_pins :
    genParamTag = "name"
    ∧ (["standard_parallel_1", "standard_parallel_2", "false_easting", "false_northing", "latitude_of_origin", "scale_factor",
        "latitude_of_center", "longitude_of_center", "central_meridian"].all fun n => (genParamTable.lookup n).isSome) = true
    ∧ genWktHead = "sr := NewSR() ;; err := sr.parseWKTSection([]string{}, wkt)" ∧ genWktReturn = "return sr, err" := by
  decide +kernel

end GeomV.C20

/-! ## projString.go -/
namespace GeomV.C20
open Num
section
variable {α : Type} [Num α]

/-- the `switch paramName` of `projString` of the current source is the model's `projKV`: every key that stores a text,
sets a flag or reads a number (19 numeric keys, 10 of them in degrees) TRANSLATED; the five cases of another shape
(`genProjHandModelled`) are the model's own -/
theorem genProjKV_eq (sr : SR α) (name val : Str) : genProjKV sr name val = projKV sr name val := by
  unfold genProjKV projKV
  simp only [decide_eq_true_eq, Bool.or_eq_true]
  repeat (apply ite_congr rfl ?_ (fun _ => ?_); · intro _; rfl)
  rfl

omit [Num α] in
/-- the statement after the loop of `projString` of the current source is the model's `lowerDatum` -/
theorem genLowerDatum_eq (sr : SR α) : genLowerDatum sr = lowerDatum sr := by
  unfold genLowerDatum lowerDatum
  by_cases h : sr.datumCode = s "WGS84" <;> simp [h]

/-- `projString` of the model, written with the regenerated switch and tail -/
theorem projString_gen (d : Str) :
    projString (α := α) d =
      (do let sr ← foldKVs' (fun sr seg => genProjKV sr (itemKV seg).1 (itemKV seg).2) newSR ((splitOn '+' d).drop 1)
          pure (genLowerDatum sr)) := by
  have hf : ∀ (l : List Str) (sr : SR α),
      foldItems sr l = foldKVs' (fun sr seg => genProjKV sr (itemKV seg).1 (itemKV seg).2) sr l := by
    intro l
    induction l with
    | nil => intro sr; rfl
    | cons x r ih =>
      intro sr
      simp only [foldItems, foldKVs', projItem, genProjKV_eq]
      cases projKV sr (itemKV x).1 (itemKV x).2 with
      | error e => rfl
      | ok sr' => simpa [bind, Except.bind, genProjKV_eq] using ih sr'
  unfold projString
  simp only [hf, genLowerDatum_eq]

end

/-- exactly these five cases of `projString`'s switch are hand-modelled -/
theorem genProjHandModelled_pin : genProjHandModelled = ["towgs84", "units", "pm", "nadgrids", "axis"] := by decide +kernel

end GeomV.C20

/-! ## deriveConstants.go -/
namespace GeomV.C20
open Num

/-- the numeric constants of the current source (`epsln`, `sixth`, `ra4`, `ra6` of deriveConstants.go, `deg2rad` of
projString.go, read as exact rationals) are the model's -/
theorem gen_consts_eq : gen_epsln = epslnQ ∧ gen_sixth = sixthQ ∧ gen_ra4 = ra4Q ∧ gen_ra6 = ra6Q ∧ gen_deg2rad = deg2radQ := by
  decide +kernel

section
variable {α : Type} [Num α]

/-- the statements of `DeriveConstants` of the current source between the table lookups and the datum object —
`B` from `1/f`, the sphere test (`Rf == 0 || |A − B| < epsln`), `A2`, `B2`, `Es`, `E`, the `+R_A` radius, `Ep2`, the default
`K0 = 1`, the default axis — are the model's `dcB … dcAxis`, statement for statement -/
theorem genDeriveArith_eq (sr : SR α) :
    genDeriveArith sr = dcAxis (dcK0 (dcEp2 (dcRa (dcSquares (dcSphere (dcB sr)))))) := by
  unfold genDeriveArith dcAxis dcK0 dcEp2 dcRa dcSquares dcSphere dcB
  simp only [decide_eq_true_eq, gen_consts_eq.1, gen_consts_eq.2.1, gen_consts_eq.2.2.1, gen_consts_eq.2.2.2.1,
    show s "" = ([] : Str) from rfl]
  all_goals rfl

/-- `deriveCore` of the model, written with the regenerated statements -/
theorem deriveCore_gen (sr : SR α) : deriveCore sr = genDeriveArith (dcEllps (dcDatum sr)) := by
  rw [genDeriveArith_eq]; rfl

end

/-- the order of the statement groups of `DeriveConstants`: datum table, ellipsoid table, the translated run, datum object -/
theorem genDeriveFrame_pin : genDeriveFrame.length = 4 ∧ genDeriveFrame[2]? = some "<translated>" := by decide +kernel

end GeomV.C20

/-! ## wkt.go: datumRename -/
namespace GeomV.C20
open Num
section
variable {α : Type} [Num α]

/-- one renaming statement of `datumRename`: `if c(code) { code = f(code) }` -/
def renStep (c : Str → Bool) (f : Str → Str) (sr : SR α) : SR α :=
  if c sr.datumCode then { sr with datumCode := f sr.datumCode } else sr

/-- the `wgs_1984` statement: it also sets the sphere flag when the projection name is already known -/
def wgsStep (sr : SR α) : SR α :=
  if decide (sr.datumCode = s "wgs_1984") then
    let sr : SR α := if decide (sr.name = s "Mercator_Auxiliary_Sphere") then { sr with sphere := true } else sr
    { sr with datumCode := s "wgs84" }
  else sr

omit [Num α] in
theorem renStep_eq (c : Str → Bool) (f : Str → Str) (sr : SR α) :
    renStep c f sr = { sr with datumCode := if c sr.datumCode then f sr.datumCode else sr.datumCode } := by
  unfold renStep; cases c sr.datumCode <;> rfl

omit [Num α] in
theorem wgsStep_eq (sr : SR α) :
    wgsStep sr = { sr with datumCode := if sr.datumCode = s "wgs_1984" then s "wgs84" else sr.datumCode,
                           sphere := if sr.datumCode = s "wgs_1984" then sr.sphere || decide (sr.name = s "Mercator_Auxiliary_Sphere")
                                     else sr.sphere } := by
  unfold wgsStep
  by_cases h : sr.datumCode = s "wgs_1984"
  · simp only [h, decide_true, if_true]
    cases decide (sr.name = s "Mercator_Auxiliary_Sphere") <;> simp
  · simp [h]

omit [Num α] in
theorem genDatumRename_steps (sr : SR α) :
    genDatumRename sr =
      renStep (fun dc => containsSub dc (s "belge")) (fun _ => s "rnb72")
        (renStep (fun dc => hasSuffix dc (s "_jakarta")) (fun dc => trimSuffix dc (s "_jakarta"))
          (renStep (fun dc => hasSuffix dc (s "_ferro")) (fun dc => trimSuffix dc (s "_ferro"))
            (wgsStep
              (renStep (fun dc => decide (dc = s "new_zealand_geodetic_datum_1949") || decide (dc = s "new_zealand_1949")) (fun _ => s "nzgd49")
                (renStep (fun dc => decide (dc.take 2 = s "d_")) (fun dc => dc.drop 2) sr))))) := by
  rfl

omit [Num α] in
theorem ite_trimSuffix (dc suf : Str) :
    (if hasSuffix dc suf = true then trimSuffix dc suf else dc) = if hasSuffix dc suf = true then dc.take (dc.length - suf.length) else dc := by
  unfold trimSuffix; by_cases h : hasSuffix dc suf = true <;> simp [h]

omit [Num α] in
/-- `(*SR).datumRename` of the current source is the model's `datumRename` (prefix `d_`, the New Zealand names, `wgs_1984` with
the auxiliary-sphere flag, the suffixes `_ferro` / `_jakarta`, `belge`), for every code of at least two bytes (shorter ones
panic in the slice expression: modelled as panic) -/
theorem genDatumRename_eq (sr : SR α) (h : 2 ≤ sr.datumCode.length) : datumRename sr = ok (genDatumRename sr) := by
  unfold datumRename
  rw [if_neg (by omega), genDatumRename_steps]
  simp only [renStep_eq, wgsStep_eq, ite_trimSuffix, decide_eq_true_eq, Bool.or_eq_true]
  unfold renameCode renameHead
  simp only [show (s "_ferro").length = 6 from rfl, show (s "_jakarta").length = 8 from rfl, decide_eq_true_eq, Bool.or_eq_true]

end
end GeomV.C20

/-! ## wkt.go: parseWKTProjection -/
namespace GeomV.C20
open Num

theorem containsSub_single (c : Char) : ∀ d : Str, containsSub d [c] = d.contains c
  | [] => rfl
  | x :: r => by
    have ih := containsSub_single c r
    simp only [containsSub, List.contains_cons, ih]
    congr 1
    by_cases h : x = c
    · subst h; cases r <;> simp [hasPrefix]
    · have h' : ¬ c = x := fun e => h e.symm
      cases r <;> simp [hasPrefix, h, h']

section
variable {α : Type} [Num α]

omit [Num α] in
/-- `(*SR).parseWKTProjection` of the current source is the model's: the projection name is the text before the first
comma (an AUTHORITY may follow) without quotes and blanks, or the whole text without quotes -/
theorem genWktProjection_eq (sr : SR α) (d : Str) : genWktProjection sr d = parseWKTProjection sr d := by
  unfold genWktProjection parseWKTProjection
  rw [show s "," = [','] from rfl, containsSub_single]
  all_goals (cases d.contains ',' <;> rfl)

end
end GeomV.C20

/-! ## parseCode.go: testWKT -/
namespace GeomV.C20

/-- `testWKT` of the model recognises a WKT text by exactly the `codeWords` of the current source, each looked for with
`strings.Contains` in a loop that returns `true` at the first hit -/
theorem genCodeWords_eq (c : Str) : testWKT c = genCodeWords.any (fun w => containsSub c w.toList) := by
  unfold testWKT genCodeWords
  simp only [List.any_cons, List.any_nil, Bool.or_false, s, Bool.or_assoc]

theorem genTestWKTLoop_pin :
    genTestWKTLoop = "for _, c := range codeWords { if strings.Contains(code, c) { return true } } ;; return false" := by
  decide +kernel

end GeomV.C20

/-! ## the assembly -/
namespace GeomV.C20
open Num
section
variable {α : Type} [Num α]

/-- `DeriveConstants` with the regenerated arithmetic between the hand-modelled table lookups and the datum object -/
def deriveConstantsGen (sr : SR α) : Except Err (SR α) := attachDatum (genDeriveArith (dcEllps (dcDatum sr)))

/-- **parseDef_gen** — `proj.Parse` of a text that is not a registered name, ASSEMBLED FROM THE REGENERATED PARTS: the code
words of `testWKT`; for WKT the section reader followed by the regenerated tail of `wkt()`; for PROJ.4 the loop over the
`+key=value` items with the regenerated switch and the regenerated statement after the loop; then `DeriveConstants` with its
regenerated arithmetic.  It IS the model's `parseDef`, so every theorem about `parse` (`C20_parse_agree`,
`C20_transform_agree`, …) is a theorem about this assembly. -/
theorem parseDef_gen (c : Str) :
    parseDef (α := α) c =
      if genCodeWords.any (fun w => containsSub c w.toList) then
        (match parseWKTSection (c.length + 1) [] c newSR with
         | (_, some e) => .error e
         | (sr, none) => .ok (genWktFinish sr)) >>= deriveConstantsGen
      else if testProj c then
        (do let sr ← foldKVs' (fun sr seg => genProjKV sr (itemKV seg).1 (itemKV seg).2) newSR ((splitOn '+' c).drop 1)
            pure (genLowerDatum sr)) >>= deriveConstantsGen
      else .error (.error "unsupported projection definition") := by
  have hd : (deriveConstants : SR α → Except Err (SR α)) = deriveConstantsGen := by
    funext sr; unfold deriveConstants deriveConstantsGen; rw [deriveCore_gen]
  unfold parseDef
  rw [genCodeWords_eq, wkt_gen, projString_gen, hd]
  all_goals
    rcases parseWKTSection (α := α) (c.length + 1) [] c newSR with ⟨sr, e⟩
    cases e <;> rfl
end
end GeomV.C20
