import GeomV.C20.Model
/-!
# C20 specification

A coordinate reference system is described ONCE, structurally (`Crs`): projection kind, angular
parameters in degrees, false origin in the declared linear unit, spheroid `(a, 1/f)`, datum (a
named one, or a 3/7-term shift to WGS84), linear unit.  `toProj4` and `toWkt` write that description
in the two notations (the generator uses THESE renderers, so what is proved is what is tested), and
`expected` says which numbers a transformer must end up reading, straight from the description and
without going through either parser.  The property is: both parsers deliver `expected`.
-/
namespace GeomV.C20

/-- a decimal number `mant · 10^-scale` as it is written in a definition -/
structure Dec where
  mant : Int
  scale : Nat
deriving Repr, DecidableEq, Inhabited

def Dec.toRat (d : Dec) : Rat := mkRat d.mant (10 ^ d.scale)

def digitChar (n : Nat) : Char := Char.ofNat (48 + n % 10)

/-- exactly `k` decimal digits of `n` (most significant first) -/
def digitsFixed : Nat → Nat → Str
  | 0, _ => []
  | k+1, n => digitsFixed k (n / 10) ++ [digitChar n]

/-- decimal digits of `n` without leading zeros (`0` ↦ "0") -/
def natDigits (n : Nat) : Str :=
  let rec go : Nat → Nat → Str → Str
    | 0, _, acc => acc
    | f+1, n, acc => if n < 10 then digitChar n :: acc else go f (n / 10) (digitChar n :: acc)
  go (n + 1) n []

/-- `-12.0340`-style text: sign, integer part, and exactly `scale` fractional digits -/
def renderDec (d : Dec) : Str :=
  let n := d.mant.natAbs
  let p := 10 ^ d.scale
  (if d.mant < 0 then ['-'] else []) ++ natDigits (n / p) ++
    (if d.scale = 0 then [] else '.' :: digitsFixed d.scale (n % p))

inductive Kind where
  | geog | merc | lcc | aea | eqdc | tmerc
deriving Repr, DecidableEq, Inhabited

inductive UnitK where
  | metre | foot
  | usFootDec     -- US survey foot by its conversion factor 0.3048006096012192 in both notations
  | usFoot        -- PROJ.4 `+units=us-ft` (1200/3937), WKT UNIT[…,0.3048006096012192]: equal to 1e-16 only
deriving Repr, DecidableEq, Inhabited

inductive DatumK where
  | custom        -- a datum unknown to the library, tied to WGS84 by TOWGS84 (or by nothing)
  | wgs84 | nad83 -- `+datum=` names of PROJ.4 with their usual WKT names
deriving Repr, DecidableEq, Inhabited

structure Crs where
  kind : Kind
  lat0 : Dec
  lat1 : Dec
  lat2 : Dec
  lon0 : Dec
  k0 : Dec
  fe : Dec       -- false easting / northing in the linear unit (as WKT states them)
  fn : Dec
  feM : Dec      -- the same in metres (as PROJ.4 states them)
  fnM : Dec
  a : Dec
  rf : Dec
  towgs : Option (List Dec)
  unit : UnitK
  datum : DatumK
  dname : Nat := 0   -- which name a `custom` datum carries in WKT (see `customDatumNames`): names that come
                     -- close to an entry of the library's alias/definition tables but must NOT be taken for it
deriving Repr, DecidableEq, Inhabited

/-- spelling choices that do not change the meaning -/
structure Style where
  esri : Bool := false      -- ESRI names: D_ datum, GCS_ names, capitalised parameters, Central_Meridian for conics
  auth : Bool := false      -- AUTHORITY clauses everywhere OGC allows them
  spaces : Bool := false    -- a blank after every comma
  axis : Bool := false      -- AXIS clauses
  k0key : Bool := false     -- PROJ.4 `+k_0=` instead of `+k=`
  title : Bool := false     -- PROJ.4 `+title=`
  -- clause ORDER inside the WKT (every order the grammar-agnostic parser accepts must mean the same)
  unitPos : Nat := 0        -- linear UNIT: 0 last (ESRI / current GDAL), 1 right after GEOGCS and before PROJECTION and
                            -- the PARAMETERs (EPSG registry / older GDAL), 2 between the PARAMETERs
  projLast : Bool := false  -- PROJECTION after the PARAMETERs
  geogLast : Bool := false  -- GEOGCS after PROJECTION and the PARAMETERs
  towgsFirst : Bool := false -- TOWGS84 before SPHEROID inside DATUM
  authFirst : Bool := false -- AUTHORITY right after the name (PROJCS, GEOGCS, DATUM) instead of last
  -- NOT meaning-preserving: leave one parameter out of both notations ("twin" definitions: set vs omitted).
  -- 0 none, 1 lat_0, 2 lat_1, 3 lat_2, 4 lon_0, 5 k_0, 6 false easting, 7 false northing
  leaveOut : Nat := 0
deriving Repr, DecidableEq, Inhabited

def usFootDecQ : Dec := ⟨3048006096012192, 16⟩
def degDec : Dec := ⟨174532925199433, 16⟩

def UnitK.toMeter : UnitK → Rat
  | .metre => 1
  | .foot => mkRat 381 1250
  | .usFootDec => usFootDecQ.toRat
  | .usFoot => usFootDecQ.toRat

/-! ## PROJ.4 -/

/-- a PROJ.4 token: key and (unless it is a bare flag) value text -/
abbrev P4Tok := Str × Option Str

def kv (k : String) (d : Dec) : P4Tok := (k.toList, some (renderDec d))
def kt (k v : String) : P4Tok := (k.toList, some v.toList)

def joinWith (sep : Str) : List Str → Str
  | [] => []
  | [x] => x
  | x :: r => x ++ sep ++ joinWith sep r

def p4Kind : Kind → String
  | .geog => "longlat" | .merc => "merc" | .lcc => "lcc" | .aea => "aea" | .eqdc => "eqdc" | .tmerc => "tmerc"

def p4Params (c : Crs) (st : Style) : List P4Tok :=
  let kk := if st.k0key then "k_0" else "k"
  let lat0 := (1, kv "lat_0" c.lat0)
  let lon0 := (4, kv "lon_0" c.lon0)
  let k0 := (5, kv kk c.k0)
  let x0 := (6, kv "x_0" c.feM)
  let y0 := (7, kv "y_0" c.fnM)
  let all : List (Nat × P4Tok) := match c.kind with
    | .geog => []
    | .merc => [lon0, k0, x0, y0]
    | .tmerc => [lat0, lon0, k0, x0, y0]
    | _ => [(2, kv "lat_1" c.lat1), (3, kv "lat_2" c.lat2), lat0, lon0, x0, y0]
  (all.filter fun p => p.1 ≠ st.leaveOut).map (·.2)

def p4Datum (c : Crs) : List P4Tok :=
  match c.datum with
  | .wgs84 => [kt "datum" "WGS84"]
  | .nad83 => [kt "datum" "NAD83"]
  | .custom => match c.towgs with
    | some ds => [(s "towgs84", some (joinWith [','] (ds.map renderDec)))]
    | none => []

def p4Unit (c : Crs) : List P4Tok :=
  if c.kind = .geog then [] else
  match c.unit with
  | .metre => [kt "units" "m"]
  | .foot => [kt "units" "ft"]
  | .usFootDec => [kv "to_meter" usFootDecQ]
  | .usFoot => [kt "units" "us-ft"]

/-- the PROJ.4 definition as a token list -/
def toProj4Toks (c : Crs) (st : Style) : List P4Tok :=
  (if st.title then [kt "title" "a b (c/d)"] else []) ++ [kt "proj" (p4Kind c.kind)] ++ p4Params c st ++
    [kv "a" c.a, kv "rf" c.rf] ++ p4Datum c ++ p4Unit c ++ [(s "no_defs", none)]

/-- text of one token: `+key=value` or `+key` -/
def p4Body (t : P4Tok) : Str := t.1 ++ (match t.2 with | some v => '=' :: v | none => [])

/-- tokens separated by one blank -/
def renderP4 : List P4Tok → Str
  | [] => []
  | [t] => '+' :: p4Body t
  | t :: r => '+' :: (p4Body t ++ ' ' :: renderP4 r)

def toProj4 (c : Crs) (st : Style) : Str := renderP4 (toProj4Toks c st)

/-- what the token-level parser is given: key and value text (`true` for a bare flag) -/
def p4KV (t : P4Tok) : Str × Str := (t.1, t.2.getD (s "true"))

/-! ## OGC WKT -/

inductive WArg where
  | q (t : String)        -- "quoted"
  | bare (t : String)     -- EAST
  | num (d : Dec)
  | sub (name : String) (args : List WArg)

mutual
def renderArg (sep : Str) : WArg → Str
  | .q t => '"' :: t.toList ++ ['"']
  | .bare t => t.toList
  | .num d => renderDec d
  | .sub n as => n.toList ++ '[' :: renderArgs sep as ++ [']']
def renderArgs (sep : Str) : List WArg → Str
  | [] => []
  | [x] => renderArg sep x
  | x :: y :: r => renderArg sep x ++ sep ++ renderArgs sep (y :: r)
end

/-! ### token level: the argument list of a section as its "data" -/

def WArg.isSimple : WArg → Bool
  | .sub _ _ => false
  | _ => true

/-- the bracket sections among the arguments: (name, arguments) -/
def subsOf : List WArg → List (Str × List WArg)
  | [] => []
  | .sub n as :: r => (n.toList, as) :: subsOf r
  | _ :: r => subsOf r

/-- the token-level instance of `DataOps`: a section's data is its argument list; its name is its
first (simple) argument, its sections are its bracketed arguments; only the leaf handlers look at text -/
def treeOps (sep : Str) : DataOps (List WArg) where
  splitName args := match args with
    | x :: y :: r => if x.isSimple then some (renderArg sep x, y :: r) else none
    | _ => none
  text args := renderArgs sep args
  sections args := (subsOf args, true)

mutual
def WArg.depth : WArg → Nat
  | .sub _ as => WArg.depthL as + 1
  | _ => 0
def WArg.depthL : List WArg → Nat
  | [] => 0
  | x :: r => max (WArg.depth x) (WArg.depthL r)
end

/-- TOKEN level `wkt`: the same handlers over the tree instead of over the text -/
def parseWktToks {α} [Num α] (sep : Str) (tree : WArg) : Except Err (SR α) :=
  let (sr, e) := parseWKTSectionG (treeOps sep) (tree.depth + 4) [] [tree] newSR
  let sr := wktFinish sr
  match e with
  | some e => .error e
  | none => .ok sr

def authArg (st : Style) (code : String) : List WArg :=
  if st.auth then [.sub "AUTHORITY" [.q "EPSG", .q code]] else []

/-- WKT names (OGC, ESRI) of datums the library does not know: they keep their own TOWGS84 -/
def customDatumNames : List (String × String) :=
  [("Custom_Datum_1999", "D_Custom_1999"), ("WGS_1972", "D_WGS_1972"), ("WGS_1966", "D_WGS_1966"),
   ("NAD83_High_Accuracy_Reference_Network", "D_North_American_1983_HARN"), ("New_Zealand_Geodetic_Datum_2000", "D_NZGD_2000"),
   ("OSGB_1970_SN", "D_OSGB_1970_SN"), ("North_American_Datum_1927", "D_North_American_1927"), ("S_JTSK_05", "D_S_JTSK_05"),
   ("Potsdam_Datum_83", "D_Potsdam_83"), ("WGS_1984_Variant", "D_WGS_1984_Variant"), ("Nouvelle_Triangulation_Francaise", "D_NTF")]

def wktDatumName (c : Crs) (st : Style) : String :=
  match c.datum, st.esri with
  | .custom, false => (customDatumNames.getD c.dname ("Custom_Datum_1999", "")).1
  | .custom, true => (customDatumNames.getD c.dname ("", "D_Custom_1999")).2
  | .wgs84, false => "WGS_1984" | .wgs84, true => "D_WGS_1984"
  | .nad83, false => "North_American_Datum_1983" | .nad83, true => "D_North_American_1983"

def wktGeogName (c : Crs) (st : Style) : String :=
  match c.datum, st.esri with
  | .custom, false => "Custom 1999" | .custom, true => "GCS_Custom_1999"
  | .wgs84, false => "WGS 84" | .wgs84, true => "GCS_WGS_1984"
  | .nad83, false => "NAD83" | .nad83, true => "GCS_North_American_1983"

def wktSphName (st : Style) : String := if st.esri then "Sph_1999" else "Sph 1999"
def wktSph (c : Crs) (st : Style) : WArg := .sub "SPHEROID" ([.q (wktSphName st), .num c.a, .num c.rf] ++ authArg st "7019")
def wktTw (c : Crs) : List WArg :=
  match c.datum, c.towgs with
  | .custom, some ds => [.sub "TOWGS84" (ds.map .num)]
  | _, _ => []
/-- AUTHORITY first or last -/
def wktAu (st : Style) (code : String) (body : List WArg) : List WArg :=
  if st.authFirst then authArg st code ++ body else body ++ authArg st code
def wktDatumBody (c : Crs) (st : Style) : List WArg := if st.towgsFirst then wktTw c ++ [wktSph c st] else [wktSph c st] ++ wktTw c
def wktDatum (c : Crs) (st : Style) : WArg := .sub "DATUM" ([.q (wktDatumName c st)] ++ wktAu st "6269" (wktDatumBody c st))
def wktPrimem (st : Style) : WArg := .sub "PRIMEM" ([.q "Greenwich", .num ⟨0, if st.esri then 1 else 0⟩] ++ authArg st "8901")
def wktDegUnit (st : Style) : WArg := .sub "UNIT" ([.q (if st.esri then "Degree" else "degree"), .num degDec] ++ authArg st "9122")
def wktGeogAxes (st : Style) (top : Bool) : List WArg :=
  if st.axis && top then [.sub "AXIS" [.q "Latitude", .bare "NORTH"], .sub "AXIS" [.q "Longitude", .bare "EAST"]] else []
def wktGeogBody (c : Crs) (st : Style) (top : Bool) : List WArg :=
  wktAu st "4269" ([wktDatum c st, wktPrimem st, wktDegUnit st] ++ wktGeogAxes st top)

def wktGeog (c : Crs) (st : Style) (top : Bool) : WArg := .sub "GEOGCS" ([.q (wktGeogName c st)] ++ wktGeogBody c st top)

def wktProjName (k : Kind) (esri : Bool) : String :=
  match k, esri with
  | .merc, false => "Mercator_1SP" | .merc, true => "Mercator"
  | .lcc, false => "Lambert_Conformal_Conic_2SP" | .lcc, true => "Lambert_Conformal_Conic"
  | .aea, false => "Albers_Conic_Equal_Area" | .aea, true => "Albers"
  | .eqdc, _ => "Equidistant_Conic"
  | .tmerc, _ => "Transverse_Mercator"
  | .geog, _ => ""

def par (st : Style) (ogc esri : String) (d : Dec) : WArg :=
  .sub "PARAMETER" [.q (if st.esri then esri else ogc), .num d]

def wktParams (c : Crs) (st : Style) : List WArg :=
  let fe := (6, par st "false_easting" "False_Easting" c.fe)
  let fn := (7, par st "false_northing" "False_Northing" c.fn)
  let cm := (4, par st "central_meridian" "Central_Meridian" c.lon0)
  let sp1 := (2, par st "standard_parallel_1" "Standard_Parallel_1" c.lat1)
  let sp2 := (3, par st "standard_parallel_2" "Standard_Parallel_2" c.lat2)
  let sf := (5, par st "scale_factor" "Scale_Factor" c.k0)
  let lo := (1, par st "latitude_of_origin" "Latitude_Of_Origin" c.lat0)
  let all : List (Nat × WArg) := match c.kind with
    | .geog => []
    | .merc => if st.esri then [fe, fn, cm, sf] else [cm, sf, fe, fn]
    | .tmerc => if st.esri then [fe, fn, cm, sf, lo] else [lo, cm, sf, fe, fn]
    | .lcc => if st.esri then [fe, fn, cm, sp1, sp2, lo] else [sp1, sp2, lo, cm, fe, fn]
    | _ =>  -- Albers / Equidistant conic: OGC says latitude_of_center / longitude_of_center
      if st.esri then [fe, fn, cm, sp1, sp2, lo]
      else [sp1, sp2, (1, par st "latitude_of_center" "" c.lat0), (4, par st "longitude_of_center" "" c.lon0), fe, fn]
  (all.filter fun p => p.1 ≠ st.leaveOut).map (·.2)

def wktUnit (c : Crs) (st : Style) : WArg :=
  match c.unit with
  | .metre => .sub "UNIT" ([.q (if st.esri then "Meter" else "metre"), .num ⟨1, 0⟩] ++ authArg st "9001")
  | .foot => .sub "UNIT" ([.q (if st.esri then "Foot" else "foot"), .num ⟨3048, 4⟩] ++ authArg st "9002")
  | _ => .sub "UNIT" ([.q (if st.esri then "Foot_US" else "US survey foot"), .num usFootDecQ] ++ authArg st "9003")

def wktProjection (c : Crs) (st : Style) : WArg :=
  .sub "PROJECTION" ([.q (wktProjName c.kind st.esri)] ++ (if st.esri then [] else authArg st "9802"))
def wktPAxes (st : Style) : List WArg := if st.axis then [.sub "AXIS" [.q "X", .bare "EAST"], .sub "AXIS" [.q "Y", .bare "NORTH"]] else []
def wktPName (st : Style) : String := if st.esri then "Sample_Projected_1999" else "Sample / Projected 1999"

/-- the sections of PROJCS in the order chosen by the style -/
def wktPCore (c : Crs) (st : Style) : List WArg :=
  let geog := wktGeog c st false
  let proj := wktProjection c st
  let unit := wktUnit c st
  let ps := wktParams c st
  let ps := if st.unitPos = 2 then ps.take 2 ++ [unit] ++ ps.drop 2 else ps
  let core := if st.projLast then ps ++ [proj] else [proj] ++ ps
  let core := if st.unitPos = 1 then [unit] ++ core else core
  let core := if st.geogLast then core ++ [geog] else [geog] ++ core
  let core := if st.unitPos = 0 then core ++ [unit] else core
  core ++ wktPAxes st

def toWktTree (c : Crs) (st : Style) : WArg :=
  if c.kind = .geog then wktGeog c st true else
  .sub "PROJCS" ([.q (wktPName st)] ++ wktAu st "26910" (wktPCore c st))

def wktSep (st : Style) : Str := if st.spaces then [',', ' '] else [',']

def toWkt (c : Crs) (st : Style) : Str := renderArg (wktSep st) (toWktTree c st)

/-! ## what a transformer reads -/

/-- the fields of a parsed reference that `NewTransform`'s closure, `Transformers()` of the six
projections and `datumTransform` read, with the projection identified through the alias table
(`registerTrans`) and fields that the code ignores for the case at hand masked (ToMeter / false
origin of a geographic system; towgs84 terms of a datum that is not of the 3/7-parameter type) -/
structure View (α : Type) where
  proj : Option String
  lat0 : α
  lat1 : α
  lat2 : α
  latTS : α
  long0 : α
  k0 : α
  x0 : α
  y0 : α
  a : α
  b : α
  rf : α
  es : α
  ep2 : α
  sphere : Bool
  toMeter : α
  axis : Str
  fromGreenwich : α
  datumType : Nat
  datumParams : List α
  datumA : α
  datumB : α
  datumEs : α
  datumEp2 : α

def projOf (name : Str) : Option String := List.lookup (String.ofList (toLower name)) projAliases

def view {α} [Num α] (sr : SR α) : Option (View α) :=
  match sr.datum with
  | none => none
  | some d =>
    let geo := sr.name = s "longlat"
    some { proj := projOf sr.name, lat0 := sr.lat0, lat1 := sr.lat1, lat2 := sr.lat2, latTS := sr.latTS,
           long0 := sr.long0, k0 := sr.k0, x0 := if geo then Num.nan else sr.x0, y0 := if geo then Num.nan else sr.y0,
           a := sr.a, b := sr.b, rf := sr.rf, es := sr.es, ep2 := sr.ep2, sphere := sr.sphere,
           toMeter := if geo then Num.ofRat 1 else sr.toMeter, axis := sr.axis, fromGreenwich := sr.fromGreenwich,
           datumType := d.dtype, datumParams := if d.dtype = pjd3Param || d.dtype = pjd7Param then d.params else [],
           datumA := d.a, datumB := d.b, datumEs := d.es, datumEp2 := d.ep2 }

def p4FuncName : Kind → String
  | .geog => "LongLat" | .merc => "Merc" | .lcc => "LCC" | .aea => "AEA" | .eqdc => "EqdC" | .tmerc => "TMerc"

/-- towgs84 as `getDatum` leaves it: rotations in radians, scale as a factor -/
def expectedParams (ds : List Rat) : Nat × List Rat :=
  match ds with
  | [x, y, z] => (pjd3Param, [x, y, z])
  | [x, y, z, rx, ry, rz, sc] =>
    if rx ≠ 0 || ry ≠ 0 || rz ≠ 0 || sc ≠ 0 then
      (pjd7Param, [x, y, z, rx * secToRadQ, ry * secToRadQ, rz * secToRadQ, sc / 1000000 + 1])
    else (pjd3Param, ds)
  | _ => (0, ds)

/-- datum type and (for 3/7-parameter datums) the terms a transformer reads -/
def expDatum (c : Crs) : Nat × List Rat :=
  match c.datum, c.towgs with
  | .custom, some ds => expectedParams (ds.map Dec.toRat)
  | _, _ => (pjdWGS84, [])

/-- the intended reading of a description, in exact numbers -/
def expected (c : Crs) : View XR :=
  let a := c.a.toRat
  let rf := c.rf.toRat
  let b := (1 - 1 / rf) * a
  let es := (a * a - b * b) / (a * a)
  let ep2 := (a * a - b * b) / (b * b)
  let deg (d : Dec) : XR := some (d.toRat * deg2radQ)
  let conic := c.kind = .lcc || c.kind = .aea || c.kind = .eqdc
  { proj := some (p4FuncName c.kind),
    lat0 := if conic || c.kind = .tmerc then deg c.lat0 else none,
    lat1 := if conic then deg c.lat1 else none,
    lat2 := if conic then deg c.lat2 else none,
    latTS := none,
    long0 := if c.kind = .geog then none else deg c.lon0,
    k0 := if c.kind = .merc || c.kind = .tmerc then some c.k0.toRat else some 1,
    x0 := if c.kind = .geog then none else some (c.fe.toRat * c.unit.toMeter),
    y0 := if c.kind = .geog then none else some (c.fn.toRat * c.unit.toMeter),
    a := some a, b := some b, rf := some rf, es := some es, ep2 := some ep2, sphere := false,
    toMeter := if c.kind = .geog then some 1 else some c.unit.toMeter,
    axis := s "enu", fromGreenwich := none,
    datumType := (expDatum c).1, datumParams := (expDatum c).2.map some,
    datumA := some a, datumB := some b, datumEs := some es, datumEp2 := some ep2 }

/-- the datum is stated consistently: a custom datum has a 3- or 7-term shift whose translation is not
zero (no stated tie to WGS84 is the known finding `noshift`), a named datum has none -/
def datumWF (c : Crs) : Bool :=
  match c.datum, c.towgs with
  | .custom, some [x, y, z] => x.toRat ≠ 0 || y.toRat ≠ 0 || z.toRat ≠ 0
  | .custom, some [x, y, z, _, _, _, _] => x.toRat ≠ 0 || y.toRat ≠ 0 || z.toRat ≠ 0
  | .custom, _ => false
  | _, none => true
  | _, some _ => false

/-- the description is meaningful and is written exactly in both notations -/
def wellFormed (c : Crs) : Bool :=
  decide (0 < c.a.toRat) && decide (1 < c.rf.toRat) && decide (c.rf.toRat ≤ c.a.toRat * 1000000000)
  && c.unit != .usFoot
  && (c.kind = .geog || (decide (c.feM.toRat = c.fe.toRat * c.unit.toMeter) && decide (c.fnM.toRat = c.fn.toRat * c.unit.toMeter)))
  && datumWF c



/-! ## the numeral contract (strconv) -/

/-- characters of a decimal numeral as the renderers write it -/
def numCh (c : Char) : Bool := ('0' ≤ c && c ≤ '9') || c = '-' || c = '.'

/-- `strconv.ParseFloat` reads the text `renderDec d` as the decimal `d`, and that text is a non-empty
token over the numeral alphabet.  Decidable; evaluated by the judge for every numeral of every case. -/
def numeralOK (d : Dec) : Bool :=
  !(renderDec d).isEmpty && (renderDec d).all numCh &&
  (match parseFloat (α := XR) (renderDec d) with
   | .ok v => v == some d.toRat
   | .error _ => false)

/-- every numeral that occurs in the two notations of `c` -/
def decsOf (c : Crs) : List Dec :=
  [c.lat0, c.lat1, c.lat2, c.lon0, c.k0, c.fe, c.fn, c.feM, c.fnM, c.a, c.rf] ++ c.towgs.getD [] ++
  [usFootDecQ, degDec, ⟨0, 0⟩, ⟨0, 1⟩, ⟨1, 0⟩, ⟨3048, 4⟩]

/-- the numeral contract for the description `c` -/
def numeralsRead (c : Crs) : Bool := (decsOf c).all numeralOK

/-! ## exact agreement (decidable; what `C20_parse_agree` is about) -/

def View.beq (a b : View XR) : Bool :=
  a.proj == b.proj && a.lat0 == b.lat0 && a.lat1 == b.lat1 && a.lat2 == b.lat2 && a.latTS == b.latTS && a.long0 == b.long0
  && a.k0 == b.k0 && a.x0 == b.x0 && a.y0 == b.y0 && a.a == b.a && a.b == b.b && a.rf == b.rf && a.es == b.es && a.ep2 == b.ep2
  && a.sphere == b.sphere && a.toMeter == b.toMeter && a.axis == b.axis && a.fromGreenwich == b.fromGreenwich
  && a.datumType == b.datumType && a.datumParams == b.datumParams && a.datumA == b.datumA && a.datumB == b.datumB
  && a.datumEs == b.datumEs && a.datumEp2 == b.datumEp2

/-- the parse result exists and every field a transformer reads equals `e` as an exact rational -/
def isView (r : Except Err (SR XR)) (e : View XR) : Bool :=
  match r with
  | .ok sr => match view sr with | some v => v.beq e | none => false
  | _ => false

/-- both notations of `c` (in spelling `st`) parse, in exact arithmetic, to the intended reading -/
def agree (c : Crs) (st : Style) : Bool :=
  isView (parse (toProj4 c st)) (expected c) && isView (parse (toWkt c st)) (expected c)

/-- a description with generic (pairwise distinct, not round) numbers for a given kind, unit and
datum flavour (0: 3-term shift, 1: 7-term shift, 2: WGS84 by name, 3: NAD83 by name); the false
origin is chosen so that its metre value is a finite decimal in every unit -/
def sample (k : Kind) (u : UnitK) (dk : Nat) : Crs :=
  let fe : Dec := ⟨39370000123, 4⟩
  let fn : Dec := ⟨-7874000321, 4⟩
  let m (d : Dec) : Dec := match u with
    | .metre => d
    | .foot => ⟨d.mant * 3048, d.scale + 4⟩
    | _ => ⟨d.mant * 3048006096012192, d.scale + 16⟩
  { kind := k, lat0 := ⟨4366666, 5⟩, lat1 := ⟨443333, 4⟩, lat2 := ⟨46125, 3⟩, lon0 := ⟨-1205, 1⟩, k0 := ⟨9996, 4⟩,
    fe := fe, fn := fn, feM := m fe, fnM := m fn, a := ⟨6378206400, 3⟩, rf := ⟨2949786982, 7⟩,
    towgs := match dk with
      | 0 => some [⟨-87, 0⟩, ⟨-98, 0⟩, ⟨-121, 0⟩]
      | 1 => some [⟨4464, 1⟩, ⟨-1251, 1⟩, ⟨5420, 1⟩, ⟨15, 2⟩, ⟨247, 3⟩, ⟨8421, 4⟩, ⟨-204894, 4⟩]
      | _ => none,
    unit := u, datum := match dk with | 2 => .wgs84 | 3 => .nad83 | _ => .custom }

def styleOgc : Style := {}
def styleEsri : Style := { esri := true }
def styleBusy : Style := { auth := true, spaces := true, axis := true, k0key := true, title := true }
def styleEsriBusy : Style := { esri := true, spaces := true, axis := true, k0key := true }

/-- exact zeros and ones everywhere a parameter may legitimately be 0 or 1 -/
def zeroSample (k : Kind) : Crs :=
  let c := sample k .metre 0
  { c with lat0 := ⟨0, 0⟩, lon0 := ⟨0, 1⟩, k0 := ⟨1, 0⟩, fe := ⟨0, 0⟩, fn := ⟨0, 1⟩, feM := ⟨0, 0⟩, fnM := ⟨0, 1⟩,
           towgs := some [⟨-87, 0⟩, ⟨0, 0⟩, ⟨0, 0⟩, ⟨0, 0⟩, ⟨0, 0⟩, ⟨554, 3⟩, ⟨0, 0⟩] }

/-- the finite family checked by the kernel in `C20_parse_agree_partial`: every kind with every
unit, every datum flavour and every spelling switch at least once -/
def family (k : Kind) : List (Crs × Style) :=
  [({ sample k .metre 0 with dname := 1 }, { styleOgc with geogLast := true, towgsFirst := true }),   -- DATUM["WGS_1972",TOWGS84,SPHEROID], GEOGCS last
   (sample k .foot 1, { styleEsri with unitPos := 1 }),                        -- UNIT["Foot"] BEFORE PROJECTION and the PARAMETERs
   (sample k .usFootDec 2, { styleBusy with unitPos := 2, authFirst := true }), -- UNIT between the PARAMETERs, AUTHORITY first
   (sample k .metre 3, { styleEsriBusy with projLast := true }),                -- PROJECTION after the PARAMETERs
   ({ sample k .usFootDec 1 with dname := 9 }, { styleOgc with unitPos := 1, projLast := true, towgsFirst := true, auth := true }),
   (sample k .foot 0, styleOgc),                                               -- the plain layout (UNIT last)
   -- exact zeros and ones: origin latitude 0 with standard_parallel_1 ≠ 0 (must NOT default to it), lon_0 = 0,
   -- false origin 0, scale factor 1, zero terms inside the datum shift
   (zeroSample k, styleOgc)]


/-! ## registered names and named datums (second-round additions) -/

/-- the aliases the property speaks of, written HERE from the property and the EPSG registry (not
regenerated from global.go): `alias` must denote the same reference as `target` -/
def specAliases : List (String × String) :=
  [("WGS84", "EPSG:4326"), ("EPSG:3785", "EPSG:3857"), ("GOOGLE", "EPSG:3857"), ("EPSG:900913", "EPSG:3857"),
   ("EPSG:102113", "EPSG:3857"), ("EPSG:4326", "WGS84"), ("EPSG:3857", "GOOGLE")]

/-- `q` rounded to `scale` fractional digits (exact when `q` is such a decimal), trailing zeros dropped -/
def ratToDec (q : Rat) (scale : Nat) : Dec :=
  let n : Int := (q * (10 ^ scale : Nat)).floor
  let rec strip : Nat → Int → Nat → Dec
    | 0, m, sc => ⟨m, sc⟩
    | f+1, m, sc => if sc > 0 && m % 10 = 0 then strip f (m / 10) (sc - 1) else ⟨m, sc⟩
  strip scale n scale

/-- A datum of the library's table used BY NAME in PROJ.4 (`+datum=key`) and SPELLED OUT in WKT
(`DATUM["Spelled_Out_Datum",SPHEROID[a,1/f],TOWGS84[the table's terms]]`): the same datum shift said in two
ways.  `none` when the key or its ellipsoid is not in the (regenerated) tables. -/
def namedDatumTexts (key : String) (projected : Bool) : Option (Str × Str) := do
  let d ← List.lookup key datumTable
  let e ← List.lookup d.ellipse ellipsoidTable
  let rf : Rat := if e.rf ≠ 0 then e.rf else if e.a = e.b then 0 else e.a / (e.a - e.b)
  if rf = 0 then none else
  let c : Crs := { sample (if projected then .tmerc else .geog) .metre 0 with
    a := ratToDec e.a 6, rf := ratToDec rf 25, towgs := d.towgs84.map (·.map fun q => ratToDec q 12), datum := .custom, dname := 0 }
  let p4 := renderP4 ([kt "proj" (p4Kind c.kind)] ++ p4Params c {} ++ [kt "datum" key] ++
    (if projected then [kt "units" "m"] else []) ++ [(s "no_defs", none)])
  pure (p4, toWkt { c with towgs := match c.towgs with | some [] => none | x => x } {})

/-! ## tolerances for the compiled code (numeric part of the property) -/

/-- one micrometre, in metres -/
def micrometre : Float := 1e-6

end GeomV.C20
