import GeomV.C20.WktLeaf
/-!
# WKT at token level: which handler each section of a rendered tree reaches, and what the
DATUM and GEOGCS sections do
-/
set_option linter.unusedSimpArgs false
set_option linter.unusedVariables false
namespace GeomV.C20
open Num

section dispatch
variable (sep : Str) (rec : Rec XR (List WArg)) (as : List WArg) (sr : SR XR)

def pP : List Str := [s "PROJCS"]
def pPG : List Str := [s "PROJCS", s "GEOGCS"]
def pPGD : List Str := [s "PROJCS", s "GEOGCS", s "DATUM"]
def pG : List Str := [s "GEOGCS"]
def pGD : List Str := [s "GEOGCS", s "DATUM"]

def ll (sr : SR XR) : SR XR := { sr with name := s "longlat" }

-- top level
theorem d_top_projcs : sectionStep (treeOps sep) rec [] (s "PROJCS", as) sr = parseWKTProjCSG (treeOps sep) rec pP as sr := rfl
theorem d_top_geogcs : sectionStep (treeOps sep) rec [] (s "GEOGCS", as) sr = parseWKTGeogCSG (treeOps sep) rec pG as (ll sr) := rfl
-- children of PROJCS
theorem d_p_geogcs : sectionStep (treeOps sep) rec pP (s "GEOGCS", as) sr = dropErr (parseWKTGeogCSG (treeOps sep) rec pPG as sr) := rfl
theorem d_p_projection : sectionStep (treeOps sep) rec pP (s "PROJECTION", as) sr = ok (parseWKTProjection sr (renderArgs sep as)) := rfl
theorem d_p_parameter : sectionStep (treeOps sep) rec pP (s "PARAMETER", as) sr = parseWKTParameter sr (renderArgs sep as) := rfl
theorem d_p_unit : sectionStep (treeOps sep) rec pP (s "UNIT", as) sr = parseWKTUnit sr (renderArgs sep as) := rfl
theorem d_p_axis : sectionStep (treeOps sep) rec pP (s "AXIS", as) sr = ok sr := rfl
theorem d_p_authority : sectionStep (treeOps sep) rec pP (s "AUTHORITY", as) sr = ok sr := rfl
-- children of PROJCS/GEOGCS
theorem d_pg_datum : sectionStep (treeOps sep) rec pPG (s "DATUM", as) sr = dropErr (parseWKTDatumG (treeOps sep) rec pPGD as sr) := rfl
theorem d_pg_primem : sectionStep (treeOps sep) rec pPG (s "PRIMEM", as) sr = dropErr (parseWKTPrimeM sr (renderArgs sep as)) := rfl
theorem d_pg_unit (h : sr.name ≠ s "longlat") : sectionStep (treeOps sep) rec pPG (s "UNIT", as) sr = ok sr := by
  have e : sectionStep (treeOps sep) rec pPG (s "UNIT", as) sr =
      dropErr (if (true && decide (sr.name = s "longlat")) = true then parseWKTUnit sr (renderArgs sep as)
               else fail sr "parseWKTGeogCS: unknown WKT section") := rfl
  rw [e]
  simp [h, dropErr, fail, ok]
theorem d_pg_authority : sectionStep (treeOps sep) rec pPG (s "AUTHORITY", as) sr = dropErr (ok sr) := rfl
-- children of PROJCS/GEOGCS/DATUM
theorem d_pgd_spheroid : sectionStep (treeOps sep) rec pPGD (s "SPHEROID", as) sr = dropErr (parseWKTSpheroid sr (renderArgs sep as)) := rfl
theorem d_pgd_towgs84 : sectionStep (treeOps sep) rec pPGD (s "TOWGS84", as) sr = dropErr (parseWKTTowgs84 sr (renderArgs sep as)) := rfl
theorem d_pgd_authority : sectionStep (treeOps sep) rec pPGD (s "AUTHORITY", as) sr = dropErr (ok sr) := rfl
-- children of a top-level GEOGCS
theorem d_g_datum : sectionStep (treeOps sep) rec pG (s "DATUM", as) sr = parseWKTDatumG (treeOps sep) rec pGD as (ll sr) := rfl
theorem d_g_primem : sectionStep (treeOps sep) rec pG (s "PRIMEM", as) sr = parseWKTPrimeM (ll sr) (renderArgs sep as) := rfl
theorem d_g_unit : sectionStep (treeOps sep) rec pG (s "UNIT", as) sr = parseWKTUnit (ll sr) (renderArgs sep as) := rfl
theorem d_g_axis : sectionStep (treeOps sep) rec pG (s "AXIS", as) sr = ok (ll sr) := rfl
theorem d_g_authority : sectionStep (treeOps sep) rec pG (s "AUTHORITY", as) sr = ok (ll sr) := rfl
-- children of GEOGCS/DATUM
theorem d_gd_spheroid : sectionStep (treeOps sep) rec pGD (s "SPHEROID", as) sr = parseWKTSpheroid (ll sr) (renderArgs sep as) := rfl
theorem d_gd_towgs84 : sectionStep (treeOps sep) rec pGD (s "TOWGS84", as) sr = parseWKTTowgs84 (ll sr) (renderArgs sep as) := rfl
theorem d_gd_authority : sectionStep (treeOps sep) rec pGD (s "AUTHORITY", as) sr = ok (ll sr) := rfl

end dispatch

/-! ## running a list of sections that all succeed -/

section runs
variable {δ : Type}

/-- on every state satisfying `Inv` the section succeeds with state `e sr`, which satisfies `Inv` again -/
def Runs (step : Str × δ → SR XR → Res XR) (Inv : SR XR → Prop) (x : Str × δ) (e : SR XR → SR XR) : Prop :=
  ∀ sr, Inv sr → step x sr = ok (e sr) ∧ Inv (e sr)

def RunsL (step : Str × δ → SR XR → Res XR) (Inv : SR XR → Prop) (l : List (Str × δ)) (e : SR XR → SR XR) : Prop :=
  ∀ sr, Inv sr → runSections step l sr = ok (e sr) ∧ Inv (e sr)

variable {step : Str × δ → SR XR → Res XR} {Inv : SR XR → Prop}

theorem runsL_nil : RunsL step Inv [] id := fun sr h => ⟨rfl, h⟩

theorem runsL_cons {x : Str × δ} {l : List (Str × δ)} {e E : SR XR → SR XR}
    (hx : Runs step Inv x e) (hl : RunsL step Inv l E) : RunsL step Inv (x :: l) (E ∘ e) := by
  intro sr h
  obtain ⟨h1, h2⟩ := hx sr h
  obtain ⟨h3, h4⟩ := hl (e sr) h2
  refine ⟨?_, h4⟩
  simp only [runSections, h1, ok]
  exact h3

theorem runSections_append (step : Str × δ → SR XR → Res XR) : ∀ (A B : List (Str × δ)) (sr : SR XR),
    runSections step (A ++ B) sr =
      (match runSections step A sr with
       | (sr', some e) => (sr', some e)
       | (sr', none) => runSections step B sr')
  | [], B, sr => by simp [runSections, ok]
  | x :: A, B, sr => by
    simp only [List.cons_append, runSections]
    cases hs : step x sr with
    | mk sr' e =>
      cases e with
      | some e => rfl
      | none => exact runSections_append step A B sr'

theorem runsL_append {A B : List (Str × δ)} {EA EB : SR XR → SR XR}
    (hA : RunsL step Inv A EA) (hB : RunsL step Inv B EB) : RunsL step Inv (A ++ B) (EB ∘ EA) := by
  intro sr h
  obtain ⟨h1, h2⟩ := hA sr h
  rw [runSections_append, h1]
  exact hB (EA sr) h2

theorem runsL_congr {l : List (Str × δ)} {E E' : SR XR → SR XR} (h : RunsL step Inv l E) (e : E = E') : RunsL step Inv l E' := e ▸ h

end runs

/-! ## the concrete names of the renderer -/

def wordEdgesB (t : Str) : Bool :=
  match t.head?, t.getLast? with
  | some x, some y => x != '"' && x != ' ' && y != '"' && y != ' '
  | _, _ => false

theorem wordEdges_of_B (t : Str) (h : wordEdgesB t = true) : wordEdges t := by
  unfold wordEdgesB at h
  cases t with
  | nil => simp at h
  | cons x r =>
    have hne : (x :: r) ≠ [] := by simp
    have hl : (x :: r).getLast? = some ((x :: r).getLast hne) := List.getLast?_eq_some_getLast hne
    rw [hl] at h
    simp only [List.head?_cons, Bool.and_eq_true, bne_iff_ne, ne_eq] at h
    exact ⟨x, r, _, _, rfl, (List.dropLast_concat_getLast hne).symm, h.1.1.1, h.1.1.2, h.1.2, h.2⟩

/-- every datum name the renderer can write -/
def allDatumNames : List String :=
  customDatumNames.map (·.1) ++ customDatumNames.map (·.2) ++
  ["Custom_Datum_1999", "D_Custom_1999", "WGS_1984", "D_WGS_1984", "North_American_Datum_1983", "D_North_American_1983"]

def datumCodeOf (n : String) : Str := renameCode (toLower n.toList)

def datumNameCheck (n : String) : Bool :=
  txtOK n.toList && wordEdgesB n.toList && decide (2 ≤ (toLower n.toList).length) &&
  !containsSub (datumCodeOf n) (s "osgb_1936") && decide (datumCodeOf n ≠ []) && decide (datumCodeOf n ≠ s "none") &&
  (if renameHead (toLower n.toList) = s "wgs_1984" then
     (match List.lookup (String.ofList (datumCodeOf n)) datumTable with
      | some d => d.towgs84 == some [0, 0, 0]
      | none => false)
   else (List.lookup (String.ofList (datumCodeOf n)) datumTable).isNone)

theorem datumNames_ok : allDatumNames.all datumNameCheck = true := by decide +kernel

theorem wktDatumName_mem (c : Crs) (st : Style) : wktDatumName c st ∈ allDatumNames := by
  unfold wktDatumName allDatumNames
  cases c.datum <;> cases st.esri <;> simp only [List.mem_append, List.mem_map, List.mem_cons, List.mem_nil_iff]
  · by_cases h : c.dname < customDatumNames.length
    · left; left
      exact ⟨customDatumNames[c.dname], List.getElem_mem h, by simp [List.getD_eq_getElem?_getD, h]⟩
    · right; left
      simp [List.getD_eq_getElem?_getD, List.getElem?_eq_none (Nat.le_of_not_lt h)]
  · by_cases h : c.dname < customDatumNames.length
    · left; right
      exact ⟨customDatumNames[c.dname], List.getElem_mem h, by simp [List.getD_eq_getElem?_getD, h]⟩
    · right; right; left
      simp [List.getD_eq_getElem?_getD, List.getElem?_eq_none (Nat.le_of_not_lt h)]
  all_goals simp

theorem datumName_facts (c : Crs) (st : Style) : datumNameCheck (wktDatumName c st) = true := by
  have := datumNames_ok
  rw [List.all_eq_true] at this
  exact this _ (wktDatumName_mem c st)

/-! ## subsOf of the renderer's pieces -/

theorem subsOf_append : ∀ (A B : List WArg), subsOf (A ++ B) = subsOf A ++ subsOf B
  | [], B => rfl
  | x :: A, B => by
    rw [List.cons_append, subsOf_cons, subsOf_cons x A, subsOf_append A B, List.append_assoc]

def authSub (code : String) : Str × List WArg := (s "AUTHORITY", [.q "EPSG", .q code])

theorem subsOf_auth (st : Style) (code : String) : subsOf (authArg st code) = if st.auth then [authSub code] else [] := by
  unfold authArg; split <;> rfl

theorem subsOf_au (st : Style) (code : String) (body : List WArg) :
    subsOf (wktAu st code body) =
      if st.authFirst then (if st.auth then [authSub code] else []) ++ subsOf body
      else subsOf body ++ (if st.auth then [authSub code] else []) := by
  unfold wktAu
  split <;> simp [subsOf_append, subsOf_auth]

theorem dropErr_ok (sr : SR XR) : dropErr (ok sr) = ok sr := rfl

/-! ## the DATUM section -/

def wOf (top : Bool) : SR XR → SR XR := if top then ll else id
def pathG (top : Bool) : List Str := if top then pG else pPG
def pathD (top : Bool) : List Str := if top then pGD else pPGD

def effSph (c : Crs) (st : Style) (sr : SR XR) : SR XR :=
  { sr with ellps := ellpsOf (wktSphName st), a := some c.a.toRat, rf := some c.rf.toRat }

def effTw (c : Crs) (sr : SR XR) : SR XR :=
  match c.datum, c.towgs with
  | .custom, some ds => { sr with datumParams := ds.map fun d => some d.toRat }
  | _, _ => sr

def InvD (sr : SR XR) : Prop := containsSub sr.datumCode (s "osgb_1936") = false

theorem authArg_shape (st : Style) (code : String) : authArg st code = [] ∨ ∃ z, authArg st code = [z] := by
  unfold authArg; split
  · exact Or.inr ⟨_, rfl⟩
  · exact Or.inl rfl

section datum
variable (sp top : Bool) (rec : Rec XR (List WArg)) (c : Crs) (st : Style) (hnum : ∀ d ∈ decsOf c, NumOK d) (hdw : datumWF c = true)

theorem sphName_ok (st : Style) : txtOK (wktSphName st).toList = true := by unfold wktSphName; split <;> decide

include hnum in
theorem run_sph : Runs (sectionStep (treeOps (sepOf sp)) rec (pathD top)) InvD
    (s "SPHEROID", [.q (wktSphName st), .num c.a, .num c.rf] ++ authArg st "7019") (effSph c st ∘ wOf top) := by
  intro sr hi
  have ha := hnum c.a (by simp [decsOf])
  have hrf := hnum c.rf (by simp [decsOf])
  cases top
  · refine ⟨?_, hi⟩
    show sectionStep (treeOps (sepOf sp)) rec pPGD _ sr = _
    rw [d_pgd_spheroid, spheroid_leaf sp sr _ c.a c.rf (sphName_ok st) ha hrf _ (authArg_shape st _) hi]
    rfl
  · refine ⟨?_, hi⟩
    show sectionStep (treeOps (sepOf sp)) rec pGD _ sr = _
    rw [d_gd_spheroid, spheroid_leaf sp (ll sr) _ c.a c.rf (sphName_ok st) ha hrf _ (authArg_shape st _) hi]
    rfl

theorem run_auth_d (code : String) : Runs (sectionStep (treeOps (sepOf sp)) rec (pathD top)) InvD (authSub code) (wOf top) := by
  intro sr hi
  cases top
  · exact ⟨rfl, hi⟩
  · exact ⟨rfl, hi⟩

/-- the effect of the (optional) TOWGS84 section under a DATUM at nesting `top` -/
def twEff (c : Crs) (top : Bool) : SR XR → SR XR :=
  match c.datum, c.towgs with
  | .custom, some _ => effTw c ∘ wOf top
  | _, _ => id

include hnum hdw in
theorem runL_tw : RunsL (sectionStep (treeOps (sepOf sp)) rec (pathD top)) InvD (subsOf (wktTw c)) (twEff c top) := by
  unfold wktTw twEff effTw
  cases hd : c.datum with
  | custom =>
    cases ht : c.towgs with
    | none => intro sr hi; exact ⟨rfl, hi⟩
    | some ds =>
      have hds : ∀ d ∈ ds, NumOK d := fun d hm => hnum d (by simp [decsOf, ht, hm])
      have hne : ds ≠ [] := by
        intro e
        unfold datumWF at hdw
        rw [hd, ht, e] at hdw
        simp at hdw
      intro sr hi
      cases top
      · refine ⟨?_, hi⟩
        show runSections (sectionStep (treeOps (sepOf sp)) rec pPGD) [(s "TOWGS84", ds.map .num)] sr = _
        simp only [runSections, d_pgd_towgs84, towgs_leaf sp sr ds hne hds]
        rfl
      · refine ⟨?_, hi⟩
        show runSections (sectionStep (treeOps (sepOf sp)) rec pGD) [(s "TOWGS84", ds.map .num)] sr = _
        simp only [runSections, d_gd_towgs84, towgs_leaf sp (ll sr) ds hne hds]
        rfl
  | wgs84 => cases c.towgs <;> (intro sr hi; exact ⟨rfl, hi⟩)
  | nad83 => cases c.towgs <;> (intro sr hi; exact ⟨rfl, hi⟩)

/-- effect of all sections under DATUM -/
def effDatumKids (c : Crs) (st : Style) (top : Bool) : SR XR → SR XR := effTw c ∘ effSph c st ∘ wOf top

theorem runsL_single {δ : Type} {step : Str × δ → SR XR → Res XR} {Inv : SR XR → Prop} {x : Str × δ} {e : SR XR → SR XR}
    (h : Runs step Inv x e) : RunsL step Inv [x] e := by
  have := runsL_cons h (runsL_nil (step := step) (Inv := Inv))
  simpa using this

theorem runL_authopt (code : String) :
    RunsL (sectionStep (treeOps (sepOf sp)) rec (pathD top)) InvD (if st.auth then [authSub code] else [])
      (if st.auth then wOf top else id) := by
  cases st.auth
  · exact runsL_nil
  · exact runsL_single (run_auth_d sp top rec code)

attribute [local irreducible] ellpsOf in
include hnum hdw in
theorem runL_datumKids : RunsL (sectionStep (treeOps (sepOf sp)) rec (pathD top)) InvD
    (subsOf (wktAu st "6269" (wktDatumBody c st))) (effDatumKids c st top) := by
  have hsph := runsL_single (run_sph sp top rec c st hnum)
  have htw := runL_tw sp top rec c hnum hdw
  have hau := runL_authopt sp top rec st "6269"
  have hbody : RunsL (sectionStep (treeOps (sepOf sp)) rec (pathD top)) InvD (subsOf (wktDatumBody c st))
      (if st.towgsFirst then (effSph c st ∘ wOf top) ∘ twEff c top else twEff c top ∘ (effSph c st ∘ wOf top)) := by
    unfold wktDatumBody
    cases st.towgsFirst
    · simp only [Bool.false_eq_true, if_false, subsOf_append]
      exact runsL_append hsph htw
    · simp only [if_true, subsOf_append]
      exact runsL_append htw hsph
  rw [subsOf_au]
  have key : ∀ (b1 b2 b3 : Bool),
      (if b1 then ((if b3 then (effSph c st ∘ wOf top) ∘ twEff c top else twEff c top ∘ (effSph c st ∘ wOf top)) ∘ (if b2 then wOf top else id))
       else ((if b2 then wOf top else id) ∘ (if b3 then (effSph c st ∘ wOf top) ∘ twEff c top else twEff c top ∘ (effSph c st ∘ wOf top))))
      = effDatumKids c st top := by
    intro b1 b2 b3
    funext sr
    have hll : ∀ x : SR XR, ll (ll x) = ll x := fun _ => rfl
    have h1 : ∀ x : SR XR, effSph c st (ll x) = ll (effSph c st x) := fun _ => rfl
    have h2 : ∀ x : SR XR, effTw c (ll x) = ll (effTw c x) := by
      intro x; unfold effTw; cases c.datum <;> cases c.towgs <;> rfl
    have h3 : ∀ x : SR XR, effTw c (effSph c st x) = effSph c st (effTw c x) := by
      intro x; unfold effTw; cases c.datum <;> cases c.towgs <;> rfl
    have htw : twEff c top = effTw c ∘ wOf top ∨ (twEff c top = id ∧ effTw c = id) := by
      unfold twEff effTw
      cases c.datum <;> cases c.towgs <;> first | exact Or.inl rfl | exact Or.inr ⟨rfl, rfl⟩
    unfold effDatumKids
    rcases htw with e | ⟨e, e'⟩
    · rw [e]
      cases top <;> cases b1 <;> cases b2 <;> cases b3 <;>
        simp only [wOf, Function.comp, if_true, if_false, Bool.false_eq_true, id, hll, h1, h2, h3]
    · rw [e, e']
      cases top <;> cases b1 <;> cases b2 <;> cases b3 <;>
        simp only [wOf, Function.comp, if_true, if_false, Bool.false_eq_true, id, hll, h1]
  cases hf : st.authFirst
  · simp only [Bool.false_eq_true, if_false]
    have := runsL_append hbody hau
    exact runsL_congr this (by have := key false st.auth st.towgsFirst; simpa using this)
  · simp only [if_true]
    have := runsL_append hau hbody
    exact runsL_congr this (by have := key true st.auth st.towgsFirst; simpa using this)

/-- what the DATUM section does to a state (`top`: the GEOGCS is the whole definition) -/
def effDatumNode (c : Crs) (st : Style) (top : Bool) (sr : SR XR) : SR XR :=
  effDatumKids c st top { (wOf top sr) with datumCode := datumCodeOf (wktDatumName c st) }

theorem wktAu_cons (st : Style) (code : String) (body : List WArg) (hb : body ≠ []) : ∃ y r, wktAu st code body = y :: r := by
  obtain ⟨b0, br, rfl⟩ := List.exists_cons_of_ne_nil hb
  unfold wktAu authArg
  cases st.authFirst <;> cases st.auth <;> simp

theorem wktDatumBody_ne (c : Crs) (st : Style) : wktDatumBody c st ≠ [] := by
  unfold wktDatumBody
  cases st.towgsFirst <;> simp

theorem splitName_q (sep : Str) (n : String) (y : WArg) (r : List WArg) :
    (treeOps sep).splitName (.q n :: y :: r) = some (quoted n, y :: r) := rfl

theorem trimQS_quoted (n : String) (h : wordEdgesB n.toList = true) : trim isQuoteOrSpace (quoted n) = n.toList := by
  obtain ⟨x, r, y, q, e1, e2, hx1, hx2, hy1, hy2⟩ := wordEdges_of_B _ h
  exact trim_quoted isQuoteOrSpace (by decide) n.toList x r y q e1 e2 (by simp [isQuoteOrSpace, hx1, hx2]) (by simp [isQuoteOrSpace, hy1, hy2])

/-- one level of `parseWKTSectionG` on the token side -/
theorem section_tree (sep : Str) (f : Nat) (path : List Str) (args : List WArg) (sr : SR XR) :
    parseWKTSectionG (treeOps sep) (f + 1) path args sr =
      runSections (sectionStep (treeOps sep) (parseWKTSectionG (treeOps sep) f) path) (subsOf args) sr := rfl

include hnum hdw in
/-- **the DATUM section** (inside PROJCS: `top = false`, the state's projection name is not the auxiliary sphere) -/
theorem datum_node (f : Nat) (sr : SR XR) (hname : top = true ∨ sr.name ≠ s "Mercator_Auxiliary_Sphere") :
    parseWKTDatumG (treeOps (sepOf sp)) (parseWKTSectionG (treeOps (sepOf sp)) (f + 1)) (pathD top)
      ([.q (wktDatumName c st)] ++ wktAu st "6269" (wktDatumBody c st)) (wOf top sr) = ok (effDatumNode c st top sr) := by
  have hfacts := datumName_facts c st
  unfold datumNameCheck at hfacts
  simp only [Bool.and_eq_true, decide_eq_true_eq, Bool.not_eq_true'] at hfacts
  obtain ⟨⟨⟨⟨⟨⟨htxt, hedge⟩, hlen⟩, hosgb⟩, _⟩, _⟩, _⟩ := hfacts
  obtain ⟨y, r, hyr⟩ := wktAu_cons st "6269" (wktDatumBody c st) (wktDatumBody_ne c st)
  have hlast : (pathD top).getLastD [] = s "DATUM" := by cases top <;> rfl
  unfold parseWKTDatumG
  rw [hlast, if_pos rfl, hyr]
  have hsn : (treeOps (sepOf sp)).splitName ([.q (wktDatumName c st)] ++ y :: r) = some (quoted (wktDatumName c st), y :: r) := rfl
  rw [hsn]
  simp only [trimQS_quoted _ hedge]
  have hren : datumRename { (wOf top sr) with datumCode := toLower (wktDatumName c st).toList } =
      ok { (wOf top sr) with datumCode := datumCodeOf (wktDatumName c st) } := by
    unfold datumRename
    have hl : ¬ (toLower (wktDatumName c st).toList).length < 2 := by omega
    simp only [hl, if_false]
    have hs : (if renameHead (toLower (wktDatumName c st).toList) = s "wgs_1984"
        then (wOf top sr).sphere || decide ((wOf top sr).name = s "Mercator_Auxiliary_Sphere") else (wOf top sr).sphere) = (wOf top sr).sphere := by
      have hn : (wOf top sr).name ≠ s "Mercator_Auxiliary_Sphere" := by
        rcases hname with h | h
        · subst h; show s "longlat" ≠ _; decide
        · cases top
          · exact h
          · show s "longlat" ≠ _; decide
      split <;> simp [hn]
    rw [hs]
    rfl
  rw [hren]
  simp only [ok]
  rw [← hyr, section_tree]
  have hinv : InvD { (wOf top sr) with datumCode := datumCodeOf (wktDatumName c st) } := hosgb
  exact (runL_datumKids sp top _ c st hnum hdw _ hinv).1

end datum

end GeomV.C20
