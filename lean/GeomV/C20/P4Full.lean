import GeomV.C20.P4Core
/-!
# PROJ.4, string level: `parse (toProj4 c st)` reads `expected c`

Composition of the lexer round trip (`P4Lex`), the token-level semantics (`P4Sem`, `P4Core`) and
`DeriveConstants` (`Derive`).  The only hypothesis beyond `wellFormed` is the numeral contract.
-/
set_option linter.unusedSimpArgs false
set_option linter.unusedVariables false
namespace GeomV.C20
open Num

/-! ## the rendered tokens are over the lexer's alphabet and contain no `C` -/

def tokGood (t : P4Tok) : Bool := tokOK t && (p4Body t).all (· != 'C')

theorem edgeOK_of_all (p : Char → Bool) (t : Str) (hne : t ≠ []) (h : ∀ c ∈ t, p c = false) : edgeOK p t = true := by
  unfold edgeOK
  cases t with
  | nil => exact absurd rfl hne
  | cons x r =>
    have hl : (x :: r).getLast? = some ((x :: r).getLast hne) := List.getLast?_eq_some_getLast hne
    rw [hl]
    simp [h x (by simp), h _ (List.getLast_mem hne)]

theorem numCh_notC (c : Char) (h : numCh c = true) : c ≠ 'C' := by
  intro e; subst e; revert h; decide

theorem valOK_num (d : Dec) (h : NumOK d) : valOK (renderDec d) = true ∧ (renderDec d).all (· != 'C') = true := by
  have ha := h.alpha
  rw [List.all_eq_true] at ha
  refine ⟨?_, ?_⟩
  · unfold valOK
    simp only [Bool.and_eq_true, List.all_eq_true, bne_iff_ne, ne_eq]
    refine ⟨fun c hc => ⟨(numCh_ne c (ha c hc)).2.1, (numCh_ne c (ha c hc)).2.2.1⟩, ?_⟩
    exact edgeOK_of_all isSpace _ h.ne (fun c hc => (numCh_ne c (ha c hc)).2.2.2)
  · rw [List.all_eq_true]
    intro c hc
    simpa using numCh_notC c (ha c hc)

theorem tokGood_kv (k : String) (hk : (keyOK k.toList && k.toList.all (· != 'C')) = true) (d : Dec) (h : NumOK d) :
    tokGood (kv k d) = true := by
  simp only [Bool.and_eq_true] at hk
  obtain ⟨hv, hc⟩ := valOK_num d h
  unfold tokGood tokOK
  simp only [kv, Bool.and_eq_true, hk.1, hv, true_and, p4Body, List.all_append, List.all_cons, hk.2, hc]
  decide

/-- chars of a comma-joined numeral list -/
theorem join_chars : ∀ ds : List Dec, (∀ d ∈ ds, NumOK d) → ∀ c ∈ joinWith [','] (ds.map renderDec), numCh c = true ∨ c = ','
  | [], _, c, hc => by simp [joinWith] at hc
  | [d], hd, c, hc => by
    have ha := (hd d (by simp)).alpha
    rw [List.all_eq_true] at ha
    simp only [List.map_cons, List.map_nil, joinWith] at hc
    exact Or.inl (ha c hc)
  | d :: d' :: r, hd, c, hc => by
    have ha := (hd d (by simp)).alpha
    rw [List.all_eq_true] at ha
    simp only [List.map_cons, joinWith, List.mem_append, List.mem_singleton] at hc
    rcases hc with (hc | hc) | hc
    · exact Or.inl (ha c hc)
    · exact Or.inr hc
    · exact join_chars (d' :: r) (fun x hx => hd x (by simp [hx])) c (by simpa [joinWith] using hc)

theorem join_edges : ∀ ds : List Dec, ds ≠ [] → (∀ d ∈ ds, NumOK d) →
    ∃ x r y q, joinWith [','] (ds.map renderDec) = x :: r ∧ joinWith [','] (ds.map renderDec) = q ++ [y] ∧ numCh x = true ∧ numCh y = true
  | [], h, _ => absurd rfl h
  | [d], _, hd => by
    have h := hd d (by simp)
    have ha := h.alpha
    rw [List.all_eq_true] at ha
    obtain ⟨x, r, e⟩ := List.exists_cons_of_ne_nil h.ne
    refine ⟨x, r, (renderDec d).getLast h.ne, (renderDec d).dropLast, by simp [joinWith, e], ?_, ha x (by rw [e]; simp), ha _ (List.getLast_mem h.ne)⟩
    simp [joinWith, List.dropLast_concat_getLast h.ne]
  | d :: d' :: r, _, hd => by
    have h := hd d (by simp)
    have ha := h.alpha
    rw [List.all_eq_true] at ha
    obtain ⟨x, r0, e⟩ := List.exists_cons_of_ne_nil h.ne
    obtain ⟨x', r', y, q, e1, e2, _, hy⟩ := join_edges (d' :: r) (by simp) (fun z hz => hd z (by simp [hz]))
    refine ⟨x, r0 ++ ',' :: joinWith [','] ((d' :: r).map renderDec), y, renderDec d ++ ',' :: q, ?_, ?_, ha x (by rw [e]; simp), hy⟩
    · simp [joinWith, e]
    · simp only [List.map_cons, joinWith] at e2 ⊢
      rw [e2]; simp

theorem tokGood_towgs (ds : List Dec) (hne : ds ≠ []) (hd : ∀ d ∈ ds, NumOK d) :
    tokGood (s "towgs84", some (joinWith [','] (ds.map renderDec))) = true := by
  have hch := join_chars ds hd
  obtain ⟨x, r, y, q, e1, e2, hx, hy⟩ := join_edges ds hne hd
  have hedge : edgeOK isSpace (joinWith [','] (ds.map renderDec)) = true := by
    unfold edgeOK
    have hl : (joinWith [','] (ds.map renderDec)).getLast? = some y := by rw [e2]; simp
    rw [hl, e1]
    simp [(numCh_ne x hx).2.2.2, (numCh_ne y hy).2.2.2]
  have hall : ∀ c ∈ joinWith [','] (ds.map renderDec), c ≠ '+' ∧ c ≠ '=' ∧ c ≠ 'C' := by
    intro c hc
    rcases hch c hc with h | h
    · exact ⟨(numCh_ne c h).2.1, (numCh_ne c h).2.2.1, numCh_notC c h⟩
    · subst h; decide
  unfold tokGood tokOK valOK
  simp only [Bool.and_eq_true, List.all_eq_true, bne_iff_ne, ne_eq, p4Body, List.mem_append, List.mem_cons]
  refine ⟨⟨by decide, fun c hc => ⟨(hall c hc).1, (hall c hc).2.1⟩, hedge⟩, ?_⟩
  intro c hc
  rcases hc with hc | hc | hc
  · revert c; decide
  · subst hc; decide
  · exact (hall c hc).2.2


def paramKeys : List String := ["lat_0", "lat_1", "lat_2", "lon_0", "k", "k_0", "x_0", "y_0"]

theorem params_shape (c : Crs) (st : Style) : ∀ t ∈ p4Params c st,
    ∃ k d, t = kv k d ∧ k ∈ paramKeys ∧ d ∈ [c.lat0, c.lat1, c.lat2, c.lon0, c.k0, c.feM, c.fnM] := by
  intro t ht
  unfold p4Params at ht
  simp only [List.mem_map, List.mem_filter] at ht
  obtain ⟨p, ⟨hm, _⟩, rfl⟩ := ht
  cases hk : c.kind <;> cases hkk : st.k0key <;>
    simp only [hk, hkk, List.mem_cons, List.mem_nil_iff, or_false, Bool.false_eq_true, if_false, if_true] at hm
  case merc.false => rcases hm with rfl | rfl | rfl | rfl <;> exact ⟨_, _, rfl, by decide, by simp⟩
  case merc.true => rcases hm with rfl | rfl | rfl | rfl <;> exact ⟨_, _, rfl, by decide, by simp⟩
  case tmerc.false => rcases hm with rfl | rfl | rfl | rfl | rfl <;> exact ⟨_, _, rfl, by decide, by simp⟩
  case tmerc.true => rcases hm with rfl | rfl | rfl | rfl | rfl <;> exact ⟨_, _, rfl, by decide, by simp⟩
  all_goals (rcases hm with rfl | rfl | rfl | rfl | rfl | rfl <;> exact ⟨_, _, rfl, by decide, by simp⟩)

/-- every token of a rendered description is good -/
theorem toks_good (c : Crs) (st : Style) (hdw : datumWF c = true) (h : ∀ d ∈ decsOf c, NumOK d) :
    ∀ t ∈ toProj4Toks c st, tokGood t = true := by
  intro t ht
  unfold toProj4Toks at ht
  simp only [List.mem_append, List.mem_cons, List.mem_singleton, List.not_mem_nil, or_false] at ht
  rcases ht with ((((((ht | ht) | ht) | ht) | ht) | ht) | ht)
  · -- title
    split at ht
    · simp at ht; subst ht; decide
    · simp at ht
  · subst ht; cases c.kind <;> decide
  · -- parameters
    obtain ⟨k, d, rfl, hk, hd⟩ := params_shape c st t ht
    have hkey : (keyOK k.toList && k.toList.all (· != 'C')) = true := by
      simp only [paramKeys, List.mem_cons, List.mem_nil_iff, or_false] at hk
      rcases hk with rfl | rfl | rfl | rfl | rfl | rfl | rfl | rfl <;> decide
    exact tokGood_kv k hkey d (h d (by
      simp only [List.mem_cons, List.mem_nil_iff, or_false] at hd
      rcases hd with rfl | rfl | rfl | rfl | rfl | rfl | rfl <;> simp [decsOf]))
  · rcases ht with ht | ht
    · subst ht; exact tokGood_kv _ (by decide) _ (h c.a (by simp [decsOf]))
    · subst ht; exact tokGood_kv _ (by decide) _ (h c.rf (by simp [decsOf]))
  · -- datum
    unfold p4Datum at ht
    cases hd : c.datum with
    | wgs84 => rw [hd] at ht; simp at ht; subst ht; decide
    | nad83 => rw [hd] at ht; simp at ht; subst ht; decide
    | custom =>
      rw [hd] at ht
      cases hto : c.towgs with
      | none => rw [hto] at ht; simp at ht
      | some ds =>
        rw [hto] at ht
        simp at ht
        subst ht
        have hne : ds ≠ [] := by
          intro e
          unfold datumWF at hdw
          rw [hd, hto, e] at hdw
          simp at hdw
        exact tokGood_towgs ds hne (fun d hm => h d (by simp [decsOf, hto, hm]))
  · -- unit
    unfold p4Unit at ht
    split at ht
    · simp at ht
    · cases hu : c.unit <;> rw [hu] at ht <;> simp at ht <;> subst ht
      · decide
      · decide
      · exact tokGood_kv _ (by decide) _ (h usFootDecQ (by simp [decsOf]))
      · decide
  · subst ht; decide

/-! ## the rendered text is not WKT and not a registered name -/

theorem hasPrefix_mem : ∀ (t p : Str), hasPrefix t p = true → ∀ x ∈ p, x ∈ t
  | _, [], _, x, hx => by simp at hx
  | [], _ :: _, h, _, _ => by simp [hasPrefix] at h
  | a :: t, b :: p, h, x, hx => by
    simp only [hasPrefix, Bool.and_eq_true, decide_eq_true_eq] at h
    rcases List.mem_cons.mp hx with e | e
    · rw [e, ← h.1]; simp
    · exact List.mem_cons_of_mem _ (hasPrefix_mem t p h.2 x e)

theorem containsSub_mem : ∀ (t sub : Str), sub ≠ [] → containsSub t sub = true → ∀ x ∈ sub, x ∈ t
  | [], sub, hne, h, _, _ => by simp [containsSub, hne] at h
  | c :: r, sub, hne, h, x, hx => by
    simp only [containsSub, Bool.or_eq_true] at h
    rcases h with h | h
    · exact hasPrefix_mem _ _ h x hx
    · exact List.mem_cons_of_mem _ (containsSub_mem r sub hne h x hx)

theorem testWKT_noC (t : Str) (h : 'C' ∉ t) : testWKT t = false := by
  unfold testWKT
  have k : ∀ w : String, 'C' ∈ w.toList → containsSub t (s w) = false := by
    intro w hw
    cases hc : containsSub t (s w) with
    | false => rfl
    | true => exact absurd (containsSub_mem t (s w) (by intro e; unfold s at e; rw [e] at hw; simp at hw) hc 'C' hw) h
  rw [k "GEOGCS" (by decide), k "GEOCCS" (by decide), k "PROJCS" (by decide), k "LOCAL_CS" (by decide)]
  rfl

theorem render_chars : ∀ toks : List P4Tok, ∀ x ∈ renderP4 toks, x = '+' ∨ x = ' ' ∨ ∃ t ∈ toks, x ∈ p4Body t
  | [], x, hx => by simp [renderP4] at hx
  | [t], x, hx => by
    simp only [renderP4, List.mem_cons] at hx
    rcases hx with hx | hx
    · exact Or.inl hx
    · exact Or.inr (Or.inr ⟨t, by simp, hx⟩)
  | t :: t' :: r, x, hx => by
    simp only [renderP4, List.mem_cons, List.mem_append] at hx
    rcases hx with hx | hx | hx | hx
    · exact Or.inl hx
    · exact Or.inr (Or.inr ⟨t, by simp, hx⟩)
    · exact Or.inr (Or.inl hx)
    · rcases render_chars (t' :: r) x hx with h | h | ⟨u, hu, hxu⟩
      · exact Or.inl h
      · exact Or.inr (Or.inl h)
      · exact Or.inr (Or.inr ⟨u, List.mem_cons_of_mem _ hu, hxu⟩)

theorem lookup_none_of_head {β : Type} (k : String) : ∀ tbl : List (String × β),
    (∀ p ∈ tbl, p.1.toList.head? ≠ k.toList.head?) → List.lookup k tbl = none
  | [], _ => rfl
  | (a, b) :: r, h => by
    have hne : (k == a) = false := by
      cases hka : k == a with
      | false => rfl
      | true =>
        have : k = a := by simpa using hka
        exact absurd (by rw [this]) (h (a, b) (by simp))
    simp only [List.lookup, hne]
    exact lookup_none_of_head k r (fun p hp => h p (List.mem_cons_of_mem _ hp))

theorem registry_heads : (registryDefs.all fun p => p.1.toList.head? != some '+') = true ∧
    (registryAliases.all fun p => p.1.toList.head? != some '+') = true := by decide +kernel

theorem registryLookup_plus (r : Str) : registryLookup (String.ofList ('+' :: r)) = none := by
  unfold registryLookup
  have h1 : List.lookup (String.ofList ('+' :: r)) registryDefs = none := by
    apply lookup_none_of_head
    intro p hp
    have := registry_heads.1
    rw [List.all_eq_true] at this
    simpa using this p hp
  have h2 : List.lookup (String.ofList ('+' :: r)) registryAliases = none := by
    apply lookup_none_of_head
    intro p hp
    have := registry_heads.2
    rw [List.all_eq_true] at this
    simpa using this p hp
  rw [h1, h2]
  rfl

/-- **C20_parse_agree, PROJ.4 half (string level)** — for every well-formed description and every
spelling that leaves no parameter out, `Parse` of the rendered PROJ.4 text succeeds and the fields a
transformer reads are exactly `expected c`.  Hypotheses: `wellFormed`, and the numeral contract
(`strconv.ParseFloat` reads the numerals of `c` as written). -/
theorem p4_parse_agree (c : Crs) (st : Style) (hw : wellFormed c = true) (hn : numeralsRead c = true)
    (hlo : st.leaveOut = 0) (hf : SpheroidFacts c.a.toRat c.rf.toRat) :
    ∃ r, parse (α := XR) (toProj4 c st) = .ok r ∧ view r = some (expected c) ∧ r.datumCode = lowerCode (dCode c []) := by
  have hnum : ∀ d ∈ decsOf c, NumOK d := numOK_mem c hn
  obtain ⟨_, _, _, _, _, hdw⟩ := wf_parts c hw
  have hgood := toks_good c st hdw hnum
  have hall : (toProj4Toks c st).all tokOK = true := by
    rw [List.all_eq_true]
    intro t ht
    have := hgood t ht
    unfold tokGood at this
    simp only [Bool.and_eq_true] at this
    exact this.1
  have hnoC : 'C' ∉ renderP4 (toProj4Toks c st) := by
    intro hm
    rcases render_chars _ _ hm with h | h | ⟨t, ht, hx⟩
    · exact absurd h (by decide)
    · exact absurd h (by decide)
    · have := hgood t ht
      unfold tokGood at this
      simp only [Bool.and_eq_true, List.all_eq_true, bne_iff_ne, ne_eq] at this
      exact this.2 _ hx rfl
  have hstart : ∃ r, renderP4 (toProj4Toks c st) = '+' :: r := by
    have hne : toProj4Toks c st ≠ [] := by unfold toProj4Toks; simp
    cases hts : toProj4Toks c st with
    | nil => exact absurd hts hne
    | cons t r => cases r <;> exact ⟨_, rfl⟩
  obtain ⟨r0, hr0⟩ := hstart
  -- Parse → parseDef → projString → tokens
  have hparse : parse (α := XR) (toProj4 c st) = (parseProj4Toks ((toProj4Toks c st).map p4KV) >>= deriveConstants) := by
    unfold parse toProj4
    rw [hr0, registryLookup_plus, ← hr0]
    unfold parseDef
    rw [testWKT_noC _ hnoC]
    have htp : testProj (renderP4 (toProj4Toks c st)) = true := by rw [hr0]; rfl
    simp only [Bool.false_eq_true, if_false, htp, if_true]
    rw [projString_render _ hall]
  have htok : parseProj4Toks (α := XR) ((toProj4Toks c st).map p4KV) = .ok (lowerDatum (effAll c st newSR)) := by
    unfold parseProj4Toks
    rw [foldKVs_toks c st hlo hdw hnum]
    rfl
  rw [hparse, htok]
  obtain ⟨r, h1, h2, h3⟩ := derive_view c _ hf hdw (p4_coreOK c st hw)
  refine ⟨r, h1, h2, ?_⟩
  rw [h3, p4_result]

end GeomV.C20
