import GeomV.C20.WktCore
/-!
# WKT at token level: `parseWktToks (toWktTree c st)` delivers `CoreOK c`
-/
set_option linter.unusedSimpArgs false
set_option linter.unusedVariables false
namespace GeomV.C20
open Num

section top
variable (sp : Bool) (c : Crs) (st : Style) (hnum : ∀ d ∈ decsOf c, NumOK d) (hdw : datumWF c = true) (hlo : st.leaveOut = 0)
  (hup : st.unitPos ≤ 2)

theorem runL_authoptP (f : Nat) (code : String) :
    RunsL (stepP sp f) InvP (if st.auth then [authSub code] else []) id := by
  cases st.auth
  · exact runsL_nil
  · exact runsL_single (run_noopP sp f "AUTHORITY" _ (Or.inr rfl))

attribute [local irreducible] ellpsOf datumCodeOf unitNameOf in
include hnum hdw hlo hup in
/-- **the PROJCS section** -/
theorem projcs_node (hk : c.kind ≠ .geog) (f : Nat) (sr : SR XR) (hi : InvP sr) :
    parseWKTProjCSG (treeOps (sepOf sp)) (parseWKTSectionG (treeOps (sepOf sp)) (f + 3)) pP
      ([.q (wktPName st)] ++ wktAu st "26910" (wktPCore c st)) sr = ok (effCoreW c st { sr with srsCode := quoted (wktPName st) }) := by
  have hcore_ne : wktPCore c st ≠ [] := by
    rw [wktPCore_eq]
    simp only []
    cases st.geogLast <;> split <;> simp
  obtain ⟨y, r, hyr⟩ := wktAu_cons st "26910" (wktPCore c st) hcore_ne
  unfold parseWKTProjCSG
  simp only [pP]
  rw [hyr]
  have hsn : (treeOps (sepOf sp)).splitName ([.q (wktPName st)] ++ y :: r) = some (quoted (wktPName st), y :: r) := rfl
  rw [hsn]
  simp only []
  rw [← hyr, section_tree]
  generalize hsr0 : ({ sr with srsCode := quoted (wktPName st) } : SR XR) = sr0
  have hinv : InvP sr0 := by rw [← hsr0]; exact hi
  have hcore := runL_core sp c st hnum hdw hk hlo f hup
  have hau := runL_authoptP sp st f "26910"
  rw [subsOf_au]
  cases st.authFirst
  · simp only [Bool.false_eq_true, if_false]
    exact ((runsL_append hcore hau) _ hinv).1
  · simp only [if_true]
    exact ((runsL_append hau hcore) _ hinv).1

/-- the state after all sections of the definition have been read (before `wktFinish`) -/
def wktRaw (c : Crs) (st : Style) : SR XR :=
  if c.kind = .geog then effGeogNode c st true newSR
  else effCoreW c st { (newSR : SR XR) with srsCode := quoted (wktPName st) }

attribute [local irreducible] ellpsOf datumCodeOf unitNameOf in
include hnum hdw hlo hup in
/-- **token-level WKT, sections**: with any fuel ≥ 4 the token-level parser runs through the whole tree
without an error and leaves exactly `wktRaw c st` -/
theorem sections_toks (f : Nat) :
    parseWKTSectionG (treeOps (sepOf sp)) (f + 4) [] [toWktTree c st] (newSR : SR XR) = ok (wktRaw c st) := by
  unfold toWktTree wktRaw
  by_cases hk : c.kind = .geog
  · rw [if_pos hk, if_pos hk]
    show runSections (sectionStep (treeOps (sepOf sp)) (parseWKTSectionG (treeOps (sepOf sp)) (f + 3)) [])
      [(s "GEOGCS", [.q (wktGeogName c st)] ++ wktGeogBody c st true)] newSR = _
    simp only [runSections, d_top_geogcs]
    have := geog_node sp true c st hnum hdw (f + 1) newSR (Or.inl rfl)
    simp only [wOf, if_true, pathG] at this
    rw [this]
    rfl
  · rw [if_neg hk, if_neg hk]
    show runSections (sectionStep (treeOps (sepOf sp)) (parseWKTSectionG (treeOps (sepOf sp)) (f + 3)) [])
      [(s "PROJCS", [.q (wktPName st)] ++ wktAu st "26910" (wktPCore c st))] newSR = _
    have hinv : InvP (newSR : SR XR) := ⟨by show ([] : Str) ≠ _; decide, by show ([] : Str) ≠ _; decide⟩
    simp only [runSections, d_top_projcs, projcs_node sp c st hnum hdw hlo hup hk f newSR hinv]
    rfl

end top

end GeomV.C20
