import GeomV.C20.TransformAgree
/-!
# C20: a datum given by the NAME WGS84 — which route `NewTransform`'s closure takes, with the REAL flags

`C20_transform_agree` covers every datum not named WGS84 (both `DatumCode`s differ from `"WGS84"`, so the flag
`codeWGS84` is false on both sides and the two pipelines are literally one function).  For `+datum=WGS84` /
`DATUM["WGS_1984"|"D_WGS_1984"]` the flags DIFFER — proved here — and this is exactly what that does to the closure.
-/
set_option linter.unusedSimpArgs false
set_option linter.unusedVariables false
namespace GeomV.C20
open GeomV

section
variable {α : Type} [C08.RTrans α] (ι : Rat → α)

/-- does the closure of `NewTransform` go through WGS84 in two hops? (`checkNotWGS(source, dest) || checkNotWGS(dest, source)`) -/
def twoHops (a b : C08.SR α) : Bool := C08.checkNotWGS a b || C08.checkNotWGS b a

theorem transform_route (wgs a b : C08.SR α) (x y : α) :
    C08.transform wgs a b x y =
      if twoHops a b then (do
        let (x, y, z) ← C08.transform3 a wgs x y 0.0
        let (x, y, _) ← C08.transform3 wgs b x y z
        pure (x, y))
      else (do
        let (x, y, _) ← C08.transform3 a b x y 0.0
        pure (x, y)) := by
  unfold C08.transform twoHops
  rfl

/-- **C20_transform_route_wgs84** — for a well-formed description whose datum is given by the name WGS84:
* both texts parse, to the same view (`expected c`), of datum type `pjdWGS84`;
* the REAL flags differ: PROJ.4 keeps `DatumCode = "WGS84"` (flag true), WKT yields `"wgs84"` (flag false);
  the two pipeline records differ in NOTHING but that flag;
* PROJ.4 side: the closure to and from ANY other reference is the direct route `transform3`;
* WKT side: the closure takes two hops through `defs["WGS84"]` exactly when the other reference has a 3- or
  7-parameter datum, and the direct route otherwise.
Hence against references without a 3/7-parameter shift both sides run `transform3` on records that differ only in
a field `transform3` never reads; against 3/7-parameter references the WKT side inserts the hop through WGS84
(geodetic → degrees → geodetic on the WGS84 ellipsoid), whose effect is the geocentric round trip of C08,
measured ≤ 1 µm by every `pair…` line of the run (the run's grid goes to and from WGS84 and, for `hist` lines,
3/7-parameter datums). -/
theorem C20_transform_route_wgs84 (c : Crs) (st : Style) (hw : wellFormed c = true) (hst : styleOK st = true)
    (hn : numeralsRead c = true) (hd : c.datum = .wgs84) :
    ∃ rp rw v, parse (α := XR) (toProj4 c st) = .ok rp ∧ parse (α := XR) (toWkt c st) = .ok rw ∧
      view rp = some v ∧ view rw = some v ∧ v.datumType = pjdWGS84 ∧
      codeWGS84 rp = true ∧ codeWGS84 rw = false ∧
      pipeSR ι v (codeWGS84 rw) = { pipeSR ι v (codeWGS84 rp) with codeWGS84 := false } ∧
      ∀ (other : C08.SR α),
        twoHops other (pipeSR ι v (codeWGS84 rp)) = false ∧ twoHops (pipeSR ι v (codeWGS84 rp)) other = false ∧
        twoHops other (pipeSR ι v (codeWGS84 rw)) = C08.checkDatumParams other.datum.dtype ∧
        twoHops (pipeSR ι v (codeWGS84 rw)) other = C08.checkDatumParams other.datum.dtype := by
  unfold styleOK at hst
  simp only [Bool.and_eq_true, beq_iff_eq, decide_eq_true_eq] at hst
  have hf := wf_spheroid c hw
  obtain ⟨r1, hp1, hv1, hc1⟩ := p4_parse_agree c st hw hn hst.1 hf
  obtain ⟨r2, hp2, hv2, hc2⟩ := wkt_parse_agree c st hw hn hst.1 hst.2 hf
  have f1 : codeWGS84 r1 = true := by
    unfold codeWGS84
    rw [hc1]
    simp [dCode, hd, lowerCode]
  have f2 : codeWGS84 r2 = false := by
    unfold codeWGS84
    rw [hc2]
    simp [datumCode_notWGS84 c st]
  have ht : (expected c).datumType = pjdWGS84 := by
    simp [expected, expDatum, hd]
  refine ⟨r1, r2, expected c, hp1, hp2, hv1, hv2, ht, f1, f2, ?_, fun other => ?_⟩
  · rw [f1, f2]; rfl
  · rw [f1, f2]
    have hX : ∀ b, (pipeSR ι (expected c) b).datum.dtype = 4 := fun b => by
      show (expected c).datumType = 4
      rw [ht]; rfl
    have hcode : ∀ b, (pipeSR ι (expected c) b).codeWGS84 = b := fun b => rfl
    simp [twoHops, C08.checkNotWGS, C08.checkDatumParams, hX, hcode, C08.pjd3Param, C08.pjd7Param]

end

/-! ### known finding `wgs84name`: the second hop is skipped although the ellipsoids differ -/

/-- `compare_datums` of datum_transform.go on two views whose datum type is not 3- or 7-parameter, in exact numbers:
same type, same `a`, `es` within 5e-11 -/
def compareDatumsQ (v w : View XR) : Bool :=
  v.datumType == w.datumType &&
  (match v.datumA, w.datumA, v.datumEs, w.datumEs with
   | some a, some a', some e, some e' => a == a' && decide (e - e' ≤ 5 / 100000000000) && decide (e' - e ≤ 5 / 100000000000)
   | _, _, _, _ => false)

/-- geographic coordinates on GRS80 (a = 6378137, 1/f = 298.257222101) with the datum given by the NAME WGS84 -/
def grs80NamedWgs84 : Crs :=
  { kind := .geog, lat0 := ⟨0, 0⟩, lat1 := ⟨0, 0⟩, lat2 := ⟨0, 0⟩, lon0 := ⟨0, 0⟩, k0 := ⟨1, 0⟩, fe := ⟨0, 0⟩, fn := ⟨0, 0⟩,
    feM := ⟨0, 0⟩, fnM := ⟨0, 0⟩, a := ⟨6378137, 0⟩, rf := ⟨298257222101, 9⟩, towgs := none, unit := .metre, datum := .wgs84 }

def viewOf (r : Except Err (SR XR)) : Option (View XR) := match r with | .ok sr => view sr | _ => none

/-- **C20_wgs84name_second_hop_skipped** (negation of literal agreement for the known finding `wgs84name`) — for
GRS80 named WGS84 the description is well-formed and its numerals are read (so `C20_transform_route_wgs84` applies:
against a 3- or 7-parameter reference the WKT side goes through `defs["WGS84"]`, the PROJ.4 side does not); the
reference's datum and that of `defs["WGS84"]` pass `compare_datums` (`datumTransform` returns its input unchanged
on the second hop) ALTHOUGH their ellipsoids differ (`b` by 0.1 mm): latitudes computed on the WGS84 ellipsoid are
used as latitudes on GRS80. -/
theorem C20_wgs84name_second_hop_skipped :
    wellFormed grs80NamedWgs84 = true ∧ numeralsRead grs80NamedWgs84 = true ∧ grs80NamedWgs84.datum = .wgs84
    ∧ (match viewOf (parse (toWkt grs80NamedWgs84 {})), viewOf (parse "WGS84".toList) with
       | some v, some w => compareDatumsQ v w && v.datumEs != w.datumEs && v.datumB != w.datumB
       | _, _ => false) = true := by
  decide +kernel

/-- non-vacuity: a US-foot Lambert on the datum named WGS84 satisfies the hypotheses -/
example : wellFormed (sample .lcc .usFootDec 2) = true ∧ styleOK { styleBusy with unitPos := 1 } = true ∧
    numeralsRead (sample .lcc .usFootDec 2) = true ∧ (sample .lcc .usFootDec 2).datum = .wgs84 := by decide +kernel

end GeomV.C20
