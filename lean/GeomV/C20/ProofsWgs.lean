import GeomV.C20.TransformAgree
import GeomV.C20.RouteGen
/-!
# C20: a datum given by the NAME WGS84 — which route `NewTransform`'s closure takes, with the REAL datum codes

`C20_transform_agree` (TransformAgree.lean) covers every datum: since fix b165df1 `checkNotWGS` folds the case of
`DatumCode`, the PROJ.4 code `WGS84` and the WKT code `wgs84` give the same decision.  Here:

* the tie of that decision to the source: `RouteGen.lean` is REGENERATED from transform.go / datum.go on every run
  (`harness/cmd/c20 routegen`): the body of `checkNotWGS` translated (`genCheckNotWGS`), the condition of the
  workaround in the closure translated (`genTwoHops`), the `pjd…` constants, the statements of the closure as text.
  `genCheckNotWGS_eq` / `genTwoHops_eq` / `genPjd_eq` / `route_source_pins` tie them to C08's pipeline model, which
  the theorems are about.  Re-introducing `dest.DatumCode != "WGS84"` changes `genCheckNotWGS` and breaks
  `genCheckNotWGS_eq` (the old body is `checkNotWGSLiteral`, which `literal_differs` separates from the new one);
* `C20_transform_route_wgs84`: with the real codes both sides take the DIRECT route against every other reference;
* `C20_wgs84name_prefix_routes_differ`: what the pre-fix flag function (`DatumCode == "WGS84"`) did — kept as the
  negation for the fixed finding `wgs84name` — and `C20_wgs84name_second_hop_skipped`: why that cost 16 µm.
-/
set_option linter.unusedSimpArgs false
set_option linter.unusedVariables false
namespace GeomV.C20
open GeomV

section
variable {α : Type} [C08.RTrans α] (ι : Rat → α)

/-- does the closure of `NewTransform` go through WGS84 in two hops? (`checkNotWGS(source, dest) || checkNotWGS(dest, source)`) -/
def twoHops (a b : C08.SR α) : Bool := C08.checkNotWGS a b || C08.checkNotWGS b a

/-- the same with the decision as it was before fix b165df1 -/
def twoHopsUnfixed (a b : C08.SR α) : Bool := C08.checkNotWGSUnfixed a b || C08.checkNotWGSUnfixed b a

theorem transform_route (wgs a b : C08.SR α) (x y : α) :
    C08.transform wgs a b x y =
      if twoHops a b then (do
        let (x, y, z) ← C08.transform3 a wgs x y 0.0
        let (x, y, _) ← C08.transform3 wgs b x y z
        pure (x, y))
      else (do
        let (x, y, _) ← C08.transform3 a b x y 0.0
        pure (x, y)) := by
  unfold C08.transform twoHops
  rfl

/-! ### ties to the regenerated source (`RouteGen.lean`) -/

/-- the `datumType` constants of datum.go are the ones of C08's pipeline model and of C20's model of `getDatum` -/
theorem genPjd_eq : gen_pjd3Param = C08.pjd3Param ∧ gen_pjd7Param = C08.pjd7Param ∧ gen_pjdGridShift = C08.pjdGridShift ∧
    gen_pjdWGS84 = C08.pjdWGS84 ∧ gen_pjdNoDatum = C08.pjdNoDatum ∧
    gen_pjd3Param = pjd3Param ∧ gen_pjd7Param = pjd7Param ∧ gen_pjdGridShift = pjdGridShift ∧ gen_pjdWGS84 = pjdWGS84 ∧
    gen_pjdNoDatum = pjdNoDatum ∧ genPjdConsts.map (·.1) = ["pjd3Param", "pjd7Param", "pjdGridShift", "pjdWGS84", "pjdNoDatum"] := by
  decide

/-- the TRANSLATED body of `checkNotWGS` (current source) is the decision of C08's pipeline model on a reference whose
code is `code`: it reads the datum type of the first and the code of the second reference and nothing else -/
theorem genCheckNotWGS_eq (a b : C08.SR α) (code sc : Str) (dt : Nat) :
    genCheckNotWGS a.datum.dtype sc dt code = C08.checkNotWGS a (withCode b (String.ofList code)) := by
  unfold genCheckNotWGS C08.checkNotWGS
  rw [withCode_datumCode, goEqualFold_ofList]
  simp only [gen_pjd3Param, gen_pjd7Param, C08.pjd3Param, C08.pjd7Param, withCode]
  cases h1 : a.datum.dtype == 1 <;> cases h2 : a.datum.dtype == 2 <;> simp_all

/-- … and in terms of the flag of a parsed reference -/
theorem genCheckNotWGS_flag (srcType : Nat) (r : SR XR) (sc : Str) (dt : Nat) :
    genCheckNotWGS srcType sc dt r.datumCode = ((srcType == 1 || srcType == 2) && !codeWGS84 r) := by
  unfold genCheckNotWGS codeWGS84
  rfl

/-- the translated condition of the workaround is `twoHops` -/
theorem genTwoHops_eq (a b : C08.SR α) : genTwoHops C08.checkNotWGS a b = twoHops a b := rfl

/-- the body of `checkNotWGS` BEFORE fix b165df1 (`… && dest.DatumCode != "WGS84"`), as the translator renders it -/
def checkNotWGSLiteral (source_datum_datum_type : Nat) (dest_DatumCode : Str) : Bool :=
  (((source_datum_datum_type == gen_pjd3Param) || (source_datum_datum_type == gen_pjd7Param)) && (dest_DatumCode != (s "WGS84")))

/-- the two bodies differ exactly on the code the WKT reader writes: a reintroduced literal comparison cannot satisfy
`genCheckNotWGS_eq` -/
theorem literal_differs : genCheckNotWGS 2 [] 4 (s "wgs84") = false ∧ checkNotWGSLiteral 2 (s "wgs84") = true ∧
    (∀ t, genCheckNotWGS t [] 4 (s "WGS84") = checkNotWGSLiteral t (s "WGS84")) := by
  refine ⟨by decide, by decide, fun t => ?_⟩
  simp [genCheckNotWGS, checkNotWGSLiteral, equalFold_refl]

theorem route_source_pins :
    genCheckNotWGSSig = "func(source, dest *SR) bool" ∧
    genClosureStmts = "source := source ;; var err error ;; z := 0. ;; if <workaround> {…} ;; x, y, _, err = transform3(source, dest, x, y, z) ;; if err != nil { return math.NaN(), math.NaN(), err } ;; return x, y, nil" ∧
    genWorkaroundBody = "wgs84, err := Parse(\"WGS84\") ;; if err != nil { return math.NaN(), math.NaN(), err } ;; x, y, z, err = transform3(source, wgs84, x, y, z) ;; if err != nil { return math.NaN(), math.NaN(), err } ;; source = wgs84" :=
  ⟨rfl, rfl, rfl⟩

/-! ### the routes -/

theorem unfixed_ofList (a b : C08.SR α) (code : Str) :
    C08.checkNotWGSUnfixed a (withCode b (String.ofList code)) = (C08.checkDatumParams a.datum.dtype && !decide (code = s "WGS84")) := by
  unfold C08.checkNotWGSUnfixed C08.checkDatumParams
  rw [withCode_datumCode]
  have : (String.ofList code == "WGS84") = decide (code = s "WGS84") := by
    by_cases h : code = s "WGS84"
    · subst h; simp [s]
    · have : String.ofList code ≠ "WGS84" := fun e => h (by rw [← String.toList_ofList (l := code), e]; rfl)
      simp [h, this]
  rw [this]

/-- **C20_transform_route_wgs84** — for a well-formed description whose datum is given by the name WGS84, with the
REAL datum codes (after fix b165df1):
* both texts parse, to the same view (`expected c`), of datum type `pjdWGS84`;
* PROJ.4 keeps `DatumCode = "WGS84"`, WKT yields `"wgs84"` — different strings, and BOTH count as WGS84 for
  `checkNotWGS` (`codeWGS84` = `EqualFold(·, "WGS84")` is true on both);
* hence to and from ANY other reference both sides take the DIRECT route `transform3` (never the two hops through
  `defs["WGS84"]`), on records that differ only in the code, which `transform3` does not read (`transform3_code`). -/
theorem C20_transform_route_wgs84 (c : Crs) (st : Style) (hw : wellFormed c = true) (hst : styleOK st = true)
    (hn : numeralsRead c = true) (hd : c.datum = .wgs84) :
    ∃ rp rw v, parse (α := XR) (toProj4 c st) = .ok rp ∧ parse (α := XR) (toWkt c st) = .ok rw ∧
      view rp = some v ∧ view rw = some v ∧ v.datumType = pjdWGS84 ∧
      rp.datumCode = s "WGS84" ∧ rw.datumCode = s "wgs84" ∧ codeWGS84 rp = true ∧ codeWGS84 rw = true ∧
      ∀ (other : C08.SR α),
        twoHops other (pipeSR ι v rp.datumCode) = false ∧ twoHops (pipeSR ι v rp.datumCode) other = false ∧
        twoHops other (pipeSR ι v rw.datumCode) = false ∧ twoHops (pipeSR ι v rw.datumCode) other = false := by
  unfold styleOK at hst
  simp only [Bool.and_eq_true, beq_iff_eq, decide_eq_true_eq] at hst
  have hf := wf_spheroid c hw
  obtain ⟨r1, hp1, hv1, hc1⟩ := p4_parse_agree c st hw hn hst.1 hf
  obtain ⟨r2, hp2, hv2, hc2⟩ := wkt_parse_agree c st hw hn hst.1 hst.2 hf
  have c1 : r1.datumCode = s "WGS84" := by rw [hc1]; simp only [dCode, hd]; decide
  have c2 : r2.datumCode = s "wgs84" := by
    rw [hc2]
    have h2 : ["WGS_1984", "D_WGS_1984"].all (fun n => decide (datumCodeOf n = s "wgs84")) = true := by decide +kernel
    rw [List.all_eq_true] at h2
    rcases wktDatumName_cases c st with ⟨_, hm⟩ | ⟨hnd, _⟩
    · simpa using h2 _ hm
    · exact absurd hd hnd
  have ht : (expected c).datumType = pjdWGS84 := by
    simp [expected, expDatum, hd]
  refine ⟨r1, r2, expected c, hp1, hp2, hv1, hv2, ht, c1, c2, by rw [codeWGS84, c1]; decide, by rw [codeWGS84, c2]; decide,
    fun other => ?_⟩
  have hX : ∀ code, (pipeSR ι (expected c) code).datum.dtype = 4 := fun b => by
    show (expected c).datumType = 4
    rw [ht]; rfl
  have hF : ∀ code, equalFold code (s "WGS84") = true →
      C08.goEqualFold (pipeSR ι (expected c) code).datumCode "WGS84" = true := fun code h => by
    show C08.goEqualFold (String.ofList code) "WGS84" = true
    rw [goEqualFold_ofList, h]
  have k1 := hF r1.datumCode (by rw [c1]; decide)
  have k2 := hF r2.datumCode (by rw [c2]; decide)
  simp [twoHops, C08.checkNotWGS, hX, k1, k2, C08.pjd3Param, C08.pjd7Param]

/-- **C20_wgs84name_prefix_routes_differ** (the negation kept for the FIXED finding `wgs84name`; a statement about the
pre-fix flag function `DatumCode == "WGS84"` and the pre-fix decision `C08.checkNotWGSUnfixed`) — for a datum given by
the name WGS84 the pre-fix flags DIFFER (PROJ.4 true, WKT false); the PROJ.4 side always took the direct route, the
WKT side took two hops through `defs["WGS84"]` exactly when the other reference has a 3- or 7-parameter datum. -/
theorem C20_wgs84name_prefix_routes_differ (c : Crs) (st : Style) (hw : wellFormed c = true) (hst : styleOK st = true)
    (hn : numeralsRead c = true) (hd : c.datum = .wgs84) :
    ∃ rp rw v, parse (α := XR) (toProj4 c st) = .ok rp ∧ parse (α := XR) (toWkt c st) = .ok rw ∧
      view rp = some v ∧ view rw = some v ∧
      codeWGS84Literal rp = true ∧ codeWGS84Literal rw = false ∧
      ∀ (other : C08.SR α),
        twoHopsUnfixed other (pipeSR ι v rp.datumCode) = false ∧ twoHopsUnfixed (pipeSR ι v rp.datumCode) other = false ∧
        twoHopsUnfixed other (pipeSR ι v rw.datumCode) = C08.checkDatumParams other.datum.dtype ∧
        twoHopsUnfixed (pipeSR ι v rw.datumCode) other = C08.checkDatumParams other.datum.dtype := by
  obtain ⟨r1, r2, v, hp1, hp2, hv1, hv2, ht, c1, c2, _, _, _⟩ := C20_transform_route_wgs84 ι c st hw hst hn hd
  refine ⟨r1, r2, v, hp1, hp2, hv1, hv2, by rw [codeWGS84Literal, c1]; decide, by rw [codeWGS84Literal, c2]; decide, fun other => ?_⟩
  have hX : ∀ code, (pipeSR ι v code).datum.dtype = 4 := fun b => by
    show v.datumType = 4
    rw [ht]; rfl
  have u1 := unfixed_ofList other (pipeSR ι v []) r1.datumCode
  have u2 := unfixed_ofList other (pipeSR ι v []) r2.datumCode
  rw [← pipeSR_withCode] at u1 u2
  rw [c1] at u1
  rw [c2] at u2
  have n1 : ∀ code, C08.checkNotWGSUnfixed (pipeSR ι v code) other = false := fun code => by
    simp [C08.checkNotWGSUnfixed, hX, C08.pjd3Param, C08.pjd7Param]
  rw [c1, c2]
  simp only [twoHopsUnfixed, u1, u2, n1]
  have ne : decide (s "wgs84" = s "WGS84") = false := by decide
  have eq : decide (s "WGS84" = s "WGS84") = true := by decide
  simp [ne]

end

/-! ### known finding `wgs84name`: the second hop is skipped although the ellipsoids differ -/

/-- `compare_datums` of datum_transform.go on two views whose datum type is not 3- or 7-parameter, in exact numbers:
same type, same `a`, `es` within 5e-11 -/
def compareDatumsQ (v w : View XR) : Bool :=
  v.datumType == w.datumType &&
  (match v.datumA, w.datumA, v.datumEs, w.datumEs with
   | some a, some a', some e, some e' => a == a' && decide (e - e' ≤ 5 / 100000000000) && decide (e' - e ≤ 5 / 100000000000)
   | _, _, _, _ => false)

/-- geographic coordinates on GRS80 (a = 6378137, 1/f = 298.257222101) with the datum given by the NAME WGS84 -/
def grs80NamedWgs84 : Crs :=
  { kind := .geog, lat0 := ⟨0, 0⟩, lat1 := ⟨0, 0⟩, lat2 := ⟨0, 0⟩, lon0 := ⟨0, 0⟩, k0 := ⟨1, 0⟩, fe := ⟨0, 0⟩, fn := ⟨0, 0⟩,
    feM := ⟨0, 0⟩, fnM := ⟨0, 0⟩, a := ⟨6378137, 0⟩, rf := ⟨298257222101, 9⟩, towgs := none, unit := .metre, datum := .wgs84 }

def viewOf (r : Except Err (SR XR)) : Option (View XR) := match r with | .ok sr => view sr | _ => none

/-- **C20_wgs84name_second_hop_skipped** (negation of literal agreement for the known finding `wgs84name`) — for
GRS80 named WGS84 the description is well-formed and its numerals are read (so `C20_transform_route_wgs84` applies:
against a 3- or 7-parameter reference the WKT side goes through `defs["WGS84"]`, the PROJ.4 side does not); the
reference's datum and that of `defs["WGS84"]` pass `compare_datums` (`datumTransform` returns its input unchanged
on the second hop) ALTHOUGH their ellipsoids differ (`b` by 0.1 mm): latitudes computed on the WGS84 ellipsoid are
used as latitudes on GRS80. -/
theorem C20_wgs84name_second_hop_skipped :
    wellFormed grs80NamedWgs84 = true ∧ numeralsRead grs80NamedWgs84 = true ∧ grs80NamedWgs84.datum = .wgs84
    ∧ (match viewOf (parse (toWkt grs80NamedWgs84 {})), viewOf (parse "WGS84".toList) with
       | some v, some w => compareDatumsQ v w && v.datumEs != w.datumEs && v.datumB != w.datumB
       | _, _ => false) = true := by
  decide +kernel

/-- non-vacuity: a US-foot Lambert on the datum named WGS84 satisfies the hypotheses -/
example : wellFormed (sample .lcc .usFootDec 2) = true ∧ styleOK { styleBusy with unitPos := 1 } = true ∧
    numeralsRead (sample .lcc .usFootDec 2) = true ∧ (sample .lcc .usFootDec 2).datum = .wgs84 := by decide +kernel

end GeomV.C20
