import GeomV.C20.WktSem
import GeomV.C20.P4Core
/-!
# WKT: the token-level result satisfies `CoreOK`
-/
set_option linter.unusedSimpArgs false
set_option linter.unusedVariables false
namespace GeomV.C20
open Num

theorem effTw_eq (c : Crs) (sr : SR XR) : effTw c sr = { sr with datumParams := dParams c sr.datumParams } := by
  unfold effTw dParams
  cases c.datum <;> cases c.towgs <;> rfl

attribute [local irreducible] ellpsOf datumCodeOf unitNameOf quoted in
/-- the raw state of a projected definition, field by field -/
theorem wktRaw_proj (c : Crs) (st : Style) (hk : c.kind ≠ .geog) : wktRaw c st =
    { (newSR : SR XR) with
      srsCode := quoted (wktPName st), name := (wktProjName c.kind st.esri).toList,
      lat0 := wLat0 c none, lat1 := wLat1 c none, lat2 := wLat2 c none, long0 := wLong0 c st none, longC := wLongC c st none,
      k0 := wK0 c none, x0 := wX0 c none, y0 := wY0 c none,
      units := unitNameOf (wktUnitName c st), toMeter := some (wktUnitDec c).toRat,
      datumCode := datumCodeOf (wktDatumName c st), ellps := ellpsOf (wktSphName st), a := some c.a.toRat, rf := some c.rf.toRat,
      datumParams := dParams c [] } := by
  unfold wktRaw
  rw [if_neg hk]
  unfold effCoreW effGeogNode effGeogKids effDatumNode effDatumKids
  simp only [Function.comp, wOf, Bool.false_eq_true, if_false, id, effTw_eq]
  rfl

attribute [local irreducible] ellpsOf datumCodeOf unitNameOf quoted in
theorem wktRaw_geog (c : Crs) (st : Style) (hk : c.kind = .geog) : wktRaw c st =
    { (newSR : SR XR) with
      name := s "longlat", units := unitNameOf (degUnitName st), toMeter := Num.mul (some degDec.toRat) (some c.a.toRat),
      datumCode := datumCodeOf (wktDatumName c st), ellps := ellpsOf (wktSphName st), a := some c.a.toRat, rf := some c.rf.toRat,
      datumParams := dParams c [] } := by
  unfold wktRaw
  rw [if_pos hk]
  unfold effGeogNode effGeogKids effDatumNode effDatumKids
  simp only [Function.comp, wOf, if_true, effTw_eq]
  rfl

/-! ## the datum facts per kind of name -/

def customAllNames : List String := customDatumNames.map (·.1) ++ customDatumNames.map (·.2) ++ ["Custom_Datum_1999", "D_Custom_1999"]

theorem custom_notWgs : (customAllNames ++ ["North_American_Datum_1983", "D_North_American_1983"]).all
    (fun n => decide (renameHead (toLower n.toList) ≠ s "wgs_1984")) = true := by decide +kernel
theorem wgs_isWgs : ["WGS_1984", "D_WGS_1984"].all (fun n => decide (renameHead (toLower n.toList) = s "wgs_1984")) = true := by
  decide +kernel

theorem datumName_kind (c : Crs) (st : Style) :
    (c.datum = .wgs84 → renameHead (toLower (wktDatumName c st).toList) = s "wgs_1984") ∧
    (c.datum ≠ .wgs84 → renameHead (toLower (wktDatumName c st).toList) ≠ s "wgs_1984") := by
  have h1 := custom_notWgs
  have h2 := wgs_isWgs
  rw [List.all_eq_true] at h1 h2
  constructor
  · intro hd
    have : wktDatumName c st ∈ ["WGS_1984", "D_WGS_1984"] := by
      unfold wktDatumName; rw [hd]; cases st.esri <;> simp
    simpa using h2 _ this
  · intro hd
    have : wktDatumName c st ∈ customAllNames ++ ["North_American_Datum_1983", "D_North_American_1983"] := by
      have hm := wktDatumName_mem c st
      unfold wktDatumName allDatumNames at *
      cases hdd : c.datum
      · -- custom
        simp only [hdd] at hm ⊢
        unfold customAllNames
        cases st.esri <;> simp only [List.mem_append, List.mem_map, List.mem_cons, List.mem_nil_iff, or_false] at hm ⊢
        · by_cases h : c.dname < customDatumNames.length
          · left; left; left
            exact ⟨customDatumNames[c.dname], List.getElem_mem h, by simp [List.getD_eq_getElem?_getD, h]⟩
          · left; right; left
            simp [List.getD_eq_getElem?_getD, List.getElem?_eq_none (Nat.le_of_not_lt h)]
        · by_cases h : c.dname < customDatumNames.length
          · left; left; right
            exact ⟨customDatumNames[c.dname], List.getElem_mem h, by simp [List.getD_eq_getElem?_getD, h]⟩
          · left; right; right
            simp [List.getD_eq_getElem?_getD, List.getElem?_eq_none (Nat.le_of_not_lt h)]
      · exact absurd hdd hd
      · cases st.esri <;> simp
    simpa using h1 _ this

/-- how the WKT datum of the description appears before `DeriveConstants` -/
theorem wkt_datumSit (c : Crs) (st : Style) (hdw : datumWF c = true) (sr : SR XR)
    (hcode : sr.datumCode = datumCodeOf (wktDatumName c st)) (hpar : sr.datumParams = dParams c []) : DatumSit c sr := by
  have hfacts := datumName_facts c st
  unfold datumNameCheck at hfacts
  simp only [Bool.and_eq_true, decide_eq_true_eq, Bool.not_eq_true'] at hfacts
  obtain ⟨⟨⟨⟨⟨⟨_, _⟩, _⟩, _⟩, hne⟩, hnone⟩, hlook⟩ := hfacts
  obtain ⟨hw1, hw2⟩ := datumName_kind c st
  cases hd : c.datum with
  | custom =>
    have hnw := hw2 (by rw [hd]; decide)
    rw [if_neg hnw] at hlook
    cases ht : c.towgs with
    | none => unfold datumWF at hdw; rw [hd, ht] at hdw; simp at hdw
    | some ds =>
      refine DatumSit.shift ds hd ht ?_ ?_
      · rw [hpar]; simp [dParams, hd, ht]
      · intro _
        rw [hcode]
        simpa using hlook
  | wgs84 =>
    have hiw := hw1 hd
    rw [if_pos hiw] at hlook
    cases hl : List.lookup (String.ofList (datumCodeOf (wktDatumName c st))) datumTable with
    | none => rw [hl] at hlook; simp at hlook
    | some d =>
      rw [hl] at hlook
      refine DatumSit.namedTable (by rw [hd]; decide) d (by rw [hcode]; exact hne) (by rw [hcode]; exact hnone) (by rw [hcode]; exact hl) ?_
      simpa using hlook
  | nad83 =>
    have hnw := hw2 (by rw [hd]; decide)
    rw [if_neg hnw] at hlook
    refine DatumSit.namedPlain (by rw [hd]; decide) ?_ (by rw [hcode]; exact hne) (by rw [hcode]; exact hnone) ?_
    · rw [hpar]; simp [dParams, hd]
    · rw [hcode]; simpa using hlook

/-! ## CoreOK -/

theorem unitDec_toMeter (c : Crs) (hus : c.unit ≠ .usFoot) : (wktUnitDec c).toRat = c.unit.toMeter := by
  unfold wktUnitDec UnitK.toMeter
  cases hu : c.unit
  · decide +kernel
  · decide +kernel
  · rfl
  · exact absurd hu hus

theorem projOf_wkt (k : Kind) (e : Bool) (hk : k ≠ .geog) : projOf (wktProjName k e).toList = some (p4FuncName k) := by
  cases k <;> cases e <;> first | exact absurd rfl hk | decide +kernel

def longCond (n : Str) : Bool :=
  n = s "Albers_Conic_Equal_Area" || n = s "Equidistant_Conic" || n = s "Lambert_Azimuthal_Equal_Area"

theorem wktFinish_fields (x : SR XR) (hn : x.name ≠ s "Mercator_Auxiliary_Sphere") :
    (wktFinish x).name = x.name ∧ (wktFinish x).lat1 = x.lat1 ∧ (wktFinish x).lat2 = x.lat2 ∧ (wktFinish x).latTS = x.latTS ∧
    (wktFinish x).k0 = x.k0 ∧ (wktFinish x).a = x.a ∧ (wktFinish x).rf = x.rf ∧ (wktFinish x).b = x.b ∧ (wktFinish x).ra = x.ra ∧
    (wktFinish x).sphere = x.sphere ∧ (wktFinish x).axis = x.axis ∧ (wktFinish x).fromGreenwich = x.fromGreenwich ∧
    (wktFinish x).nadGrids = x.nadGrids ∧ (wktFinish x).datum = x.datum ∧ (wktFinish x).datumCode = x.datumCode ∧
    (wktFinish x).datumParams = x.datumParams ∧ (wktFinish x).toMeter = x.toMeter ∧
    (wktFinish x).x0 = Num.mul x.x0 x.toMeter ∧ (wktFinish x).y0 = Num.mul x.y0 x.toMeter ∧
    (wktFinish x).lat0 = (if x.lat0.isNone then x.lat1 else x.lat0) ∧
    (wktFinish x).long0 = (if x.long0.isNone && !x.longC.isNone && longCond x.name then x.longC else x.long0) := by
  unfold wktFinish longCond
  simp only [hn, decide_false, Bool.false_and, Bool.false_eq_true, if_false, Num.isNaN]
  refine ⟨?_, ?_, ?_, ?_, ?_, ?_, ?_, ?_, ?_, ?_, ?_, ?_, ?_, ?_, ?_, ?_, ?_, ?_, ?_, ?_, ?_⟩ <;> (repeat' split) <;> first | rfl | simp_all

attribute [local irreducible] ellpsOf datumCodeOf unitNameOf quoted in
theorem wkt_coreOK (c : Crs) (st : Style) (hw : wellFormed c = true) : CoreOK c (wktFinish (wktRaw c st)) := by
  obtain ⟨_, _, _, hus, _, hdw⟩ := wf_parts c hw
  by_cases hk : c.kind = .geog
  · -- a geographic system
    have e := wktRaw_geog c st hk
    have hfin : ∀ x : SR XR, x.name = s "longlat" → x.lat0 = none → x.lat1 = none → x.long0 = none → x.longC = none →
        (wktFinish x).name = x.name ∧ (wktFinish x).lat0 = none ∧ (wktFinish x).lat1 = x.lat1 ∧ (wktFinish x).lat2 = x.lat2 ∧
        (wktFinish x).latTS = x.latTS ∧ (wktFinish x).long0 = none ∧ (wktFinish x).k0 = x.k0 ∧ (wktFinish x).a = x.a ∧
        (wktFinish x).rf = x.rf ∧ (wktFinish x).b = x.b ∧ (wktFinish x).ra = x.ra ∧ (wktFinish x).sphere = x.sphere ∧
        (wktFinish x).axis = x.axis ∧ (wktFinish x).fromGreenwich = x.fromGreenwich ∧ (wktFinish x).nadGrids = x.nadGrids ∧
        (wktFinish x).datum = x.datum ∧ (wktFinish x).datumCode = x.datumCode ∧ (wktFinish x).datumParams = x.datumParams := by
      intro x h1 h2 h3 h4 h5
      unfold wktFinish
      have hn : ¬ (x.name = s "Mercator_Auxiliary_Sphere") := by rw [h1]; decide
      simp [hn, h2, h3, h4, h5, Num.isNaN]
    obtain ⟨f1, f2, f3, f4, f5, f6, f7, f8, f9, f10, f11, f12, f13, f14, f15, f16, f17, f18⟩ :=
      hfin (wktRaw c st) (by rw [e]) (by rw [e]; rfl) (by rw [e]; rfl) (by rw [e]; rfl) (by rw [e]; rfl)
    refine { proj := ?_, geo := ?_, lat0 := ?_, lat1 := ?_, lat2 := ?_, latTS := ?_, long0 := ?_, k0 := ?_, x0 := fun h => absurd hk h,
             y0 := fun h => absurd hk h, toMeter := fun h => absurd hk h, a := ?_, rf := ?_, b := ?_, ra := ?_, sphere := ?_, axis := ?_,
             fromGreenwich := ?_, nadGrids := ?_, datumNone := ?_, dat := ?_ }
    · rw [f1, e, hk]; show projOf (s "longlat") = some (p4FuncName .geog); decide +kernel
    · rw [f1, e]; exact ⟨fun _ => hk, fun _ => rfl⟩
    · rw [f2]; simp [expected, hk]
    · rw [f3, e]; simp [expected, hk]; rfl
    · rw [f4, e]; simp [expected, hk]; rfl
    · rw [f5, e]; rfl
    · rw [f6]; simp [expected, hk]
    · rw [f7, e]; simp [hk]; rfl
    · rw [f8, e]
    · rw [f9, e]
    · rw [f10, e]; rfl
    · rw [f11, e]; rfl
    · rw [f12, e]; rfl
    · rw [f13, e]; rfl
    · rw [f14, e]; rfl
    · rw [f15, e]; rfl
    · rw [f16, e]; rfl
    · exact wkt_datumSit c st hdw _ (by rw [f17, e]) (by rw [f18, e])
  · -- a projected system
    have e := wktRaw_proj c st hk
    obtain ⟨hp1, hp2, hp3, hp4⟩ := projName_facts c st hk
    have hfe := (wf_parts c hw).2.2.2.2.1 hk
    obtain ⟨f1, f2, f3, f4, f5, f6, f7, f8, f9, f10, f11, f12, f13, f14, f15, f16, f17, f18, f19, f20, f21⟩ :=
      wktFinish_fields (wktRaw c st) (by rw [e]; exact hp4)
    have htm := unitDec_toMeter c hus
    refine { proj := ?_, geo := ?_, lat0 := ?_, lat1 := ?_, lat2 := ?_, latTS := ?_, long0 := ?_, k0 := ?_, x0 := ?_, y0 := ?_,
             toMeter := ?_, a := ?_, rf := ?_, b := ?_, ra := ?_, sphere := ?_, axis := ?_, fromGreenwich := ?_, nadGrids := ?_,
             datumNone := ?_, dat := ?_ }
    · rw [f1, e]; exact projOf_wkt c.kind st.esri hk
    · rw [f1, e]; exact ⟨fun h => absurd h hp3, fun h => absurd h hk⟩
    · rw [f20, e]
      show (if (wLat0 c none).isNone then wLat1 c none else wLat0 c none) = (expected c).lat0
      cases hkk : c.kind <;> simp [wLat0, wLat1, expected, hkk, degX]
    · rw [f2, e]
      show wLat1 c none = (expected c).lat1
      cases hkk : c.kind <;> simp [wLat1, expected, hkk, degX]
    · rw [f3, e]
      show wLat2 c none = (expected c).lat2
      cases hkk : c.kind <;> simp [wLat2, expected, hkk, degX]
    · rw [f4, e]; rfl
    · rw [f21, e]
      show (if (wLong0 c st none).isNone && !(wLongC c st none).isNone && longCond (wktProjName c.kind st.esri).toList
            then wLongC c st none else wLong0 c st none) = (expected c).long0
      cases hkk : c.kind <;> cases he : st.esri <;> first
        | exact absurd hkk hk
        | (simp only [wLong0, wLongC, wktProjName, expected, hkk, he, degX]; first | rfl | decide +kernel | simp [longCond, s])
    · rw [f5, e]
      show wK0 c none = _
      cases hkk : c.kind <;> simp [wK0, hkk]
    · intro _
      rw [f18, e]
      show Num.mul (wX0 c none) (some (wktUnitDec c).toRat) = (expected c).x0
      rw [htm]
      cases hkk : c.kind <;> first | exact absurd hkk hk | simp [wX0, expected, hkk, Num.mul, XR.bin]
    · intro _
      rw [f19, e]
      show Num.mul (wY0 c none) (some (wktUnitDec c).toRat) = (expected c).y0
      rw [htm]
      cases hkk : c.kind <;> first | exact absurd hkk hk | simp [wY0, expected, hkk, Num.mul, XR.bin]
    · intro _
      rw [f17, e]
      show some (wktUnitDec c).toRat = (expected c).toMeter
      rw [htm]; simp [expected, hk]
    · rw [f6, e]
    · rw [f7, e]
    · rw [f8, e]; rfl
    · rw [f9, e]; rfl
    · rw [f10, e]; rfl
    · rw [f11, e]; rfl
    · rw [f12, e]; rfl
    · rw [f13, e]; rfl
    · rw [f14, e]; rfl
    · exact wkt_datumSit c st hdw _ (by rw [f15, e]) (by rw [f16, e])

theorem wktFinish_dc (x : SR XR) : (wktFinish x).datumCode = x.datumCode := by
  unfold wktFinish
  simp only []
  (repeat' split) <;> rfl

attribute [local irreducible] ellpsOf datumCodeOf unitNameOf quoted in
theorem wktFinish_datumCode (c : Crs) (st : Style) : (wktFinish (wktRaw c st)).datumCode = datumCodeOf (wktDatumName c st) := by
  rw [wktFinish_dc]
  by_cases hk : c.kind = .geog
  · rw [wktRaw_geog c st hk]
  · rw [wktRaw_proj c st hk]

/-- no WKT datum name the renderer writes becomes the literal code `WGS84` (the code of PROJ.4 `+datum=WGS84`) -/
theorem datumCode_notWGS84 (c : Crs) (st : Style) : datumCodeOf (wktDatumName c st) ≠ s "WGS84" := by
  have h : allDatumNames.all (fun n => decide (datumCodeOf n ≠ s "WGS84")) = true := by decide +kernel
  rw [List.all_eq_true] at h
  simpa using h _ (wktDatumName_mem c st)

end GeomV.C20
