import GeomV.C20.WktSem
import GeomV.C20.P4Core
/-!
# WKT: the token-level result satisfies `CoreOK`
-/
set_option linter.unusedSimpArgs false
set_option linter.unusedVariables false
namespace GeomV.C20
open Num

theorem effTw_eq (c : Crs) (sr : SR XR) : effTw c sr = { sr with datumParams := dParams c sr.datumParams } := by
  unfold effTw dParams
  cases c.datum <;> cases c.towgs <;> rfl

/-- the raw state of a projected definition, field by field -/
theorem wktRaw_proj (c : Crs) (st : Style) (hk : c.kind ≠ .geog) : wktRaw c st =
    { (newSR : SR XR) with
      srsCode := quoted (wktPName st), name := (wktProjName c.kind st.esri).toList,
      lat0 := wLat0 c none, lat1 := wLat1 c none, lat2 := wLat2 c none, long0 := wLong0 c st none, longC := wLongC c st none,
      k0 := wK0 c none, x0 := wX0 c none, y0 := wY0 c none,
      units := unitNameOf (wktUnitName c st), toMeter := some (wktUnitDec c).toRat,
      datumCode := datumCodeOf (wktDatumName c st), ellps := ellpsOf (wktSphName st), a := some c.a.toRat, rf := some c.rf.toRat,
      datumParams := dParams c [] } := by
  unfold wktRaw
  rw [if_neg hk]
  unfold effCoreW effGeogNode effGeogKids effDatumNode effDatumKids
  simp only [Function.comp, wOf, Bool.false_eq_true, if_false, id, effTw_eq]
  rfl

theorem wktRaw_geog (c : Crs) (st : Style) (hk : c.kind = .geog) : wktRaw c st =
    { (newSR : SR XR) with
      name := s "longlat", units := unitNameOf (degUnitName st), toMeter := Num.mul (some degDec.toRat) (some c.a.toRat),
      datumCode := datumCodeOf (wktDatumName c st), ellps := ellpsOf (wktSphName st), a := some c.a.toRat, rf := some c.rf.toRat,
      datumParams := dParams c [] } := by
  unfold wktRaw
  rw [if_pos hk]
  unfold effGeogNode effGeogKids effDatumNode effDatumKids
  simp only [Function.comp, wOf, if_true, effTw_eq]
  rfl

end GeomV.C20
