import GeomV.Common.Geom
import GeomV.C17.Dec
import GeomV.C20.Tables
/-!
# C20 model: `proj.Parse` and what it calls

Function-by-function model of /repo/proj/{parseCode,projString,wkt,defs,global,deriveConstants,Proj,
datum(getDatum),transform(NewTransform decision)}.go.  Strings are `List Char` (ASCII; Go strings are
bytes) and every string function used by the Go code is written here structurally so that it
reduces in the kernel.  Numbers are abstract (`class Num α`): the instance `Float` (IEEE binary64, the
same operations the compiled Go code performs, decimal literals rounded by exact arithmetic) is
what the correspondence stage runs against the real code bit for bit; the instance `XR`
(`Option Rat`, `none` = NaN) is what the theorems are about.  Go panics are values (`Err.panic`).

The tables (`datumDefs`, `ellipsoidDefs`, `units`, the registry of `global.go`) live in
`Tables.lean`, which is REGENERATED from the Go source by the `pregen` hook on every run.
-/
namespace GeomV.C20

abbrev Str := List Char

/-! ## numbers -/

class Num (α : Type) where
  ofRat : Rat → α            -- a Go float constant / strconv.ParseFloat of a decimal literal
  nan : α
  inf : Bool → α             -- ParseFloat("inf"/"-inf")
  isNaN : α → Bool
  isInf : α → Bool
  add : α → α → α
  sub : α → α → α
  mul : α → α → α
  div : α → α → α
  sqrt : α → α
  abs : α → α
  lt : α → α → Bool          -- IEEE `<`  (false when either side is NaN)
  eq : α → α → Bool          -- IEEE `==` (false when either side is NaN)

/-- nearest binary64 of a rational (ties to even), via the exact rounding of `GeomV.Dec` -/
def ratToFloat (q : Rat) : Float :=
  let b := GeomV.Dec.roundPos q.num.natAbs q.den
  Float.ofBits (UInt64.ofNat (if q.num < 0 then b + 2 ^ 63 else b))

instance : Num Float where
  ofRat := ratToFloat
  nan := Float.ofBits 0x7ff8000000000001
  inf neg := if neg then Float.ofBits 0xfff0000000000000 else Float.ofBits 0x7ff0000000000000
  isNaN x := x.isNaN
  isInf x := x.isInf
  add := (· + ·)
  sub := (· - ·)
  mul := (· * ·)
  div := (· / ·)
  sqrt := Float.sqrt
  abs := Float.abs
  lt a b := a < b
  eq a b := a == b

/-- exact numbers: `none` is NaN; there is no infinity (division by zero gives NaN — never reached
under the hypotheses of the theorems) and `sqrt` is not interpreted (`E = sqrt Es` is therefore left
out of the exact statements: it is a function of `Es`). -/
abbrev XR := Option Rat

def XR.bin (f : Rat → Rat → Rat) : XR → XR → XR
  | some a, some b => some (f a b)
  | _, _ => none

instance : Num XR where
  ofRat q := some q
  nan := none
  inf _ := none
  isNaN x := x.isNone
  isInf _ := false
  add := XR.bin (· + ·)
  sub := XR.bin (· - ·)
  mul := XR.bin (· * ·)
  div a b := match a, b with
    | some x, some y => if y = 0 then none else some (x / y)
    | _, _ => none
  sqrt _ := none
  abs x := x.map fun q => if q < 0 then -q else q
  lt a b := match a, b with
    | some x, some y => decide (x < y)
    | _, _ => false
  eq a b := match a, b with
    | some x, some y => decide (x = y)
    | _, _ => false

/-! ## string functions (Go `strings` on ASCII) -/

def splitOn (c : Char) : Str → List Str
  | [] => [[]]
  | x :: r =>
    if x = c then [] :: splitOn c r
    else match splitOn c r with
      | [] => [[x]]
      | h :: t => (x :: h) :: t

def isSpace (c : Char) : Bool :=
  c = ' ' || c = '\t' || c = '\n' || c = '\r' || c = Char.ofNat 11 || c = Char.ofNat 12

def trimLeft (p : Char → Bool) : Str → Str
  | [] => []
  | c :: r => if p c then trimLeft p r else c :: r

def trimRight (p : Char → Bool) (s : Str) : Str := (trimLeft p s.reverse).reverse

/-- `strings.Trim(s, cutset)` / `strings.TrimSpace` -/
def trim (p : Char → Bool) (s : Str) : Str := trimRight p (trimLeft p s)
def trimSpace (s : Str) : Str := trim isSpace s
def inSet (cs : Str) (c : Char) : Bool := cs.contains c

def lowerChar (c : Char) : Char := if 'A' ≤ c ∧ c ≤ 'Z' then Char.ofNat (c.toNat + 32) else c
def toLower (s : Str) : Str := s.map lowerChar

def hasPrefix : Str → Str → Bool
  | _, [] => true
  | [], _ :: _ => false
  | a :: s, b :: p => a = b && hasPrefix s p

def hasSuffix (s suf : Str) : Bool := hasPrefix s.reverse suf.reverse

def containsSub : Str → Str → Bool
  | [], sub => sub.isEmpty
  | c :: r, sub => hasPrefix (c :: r) sub || containsSub r sub

/-- `strings.Replace(s, old, new, -1)` for non-empty `old` -/
def replaceAll (old new : Str) : Nat → Str → Str
  | 0, s => s
  | _, [] => []
  | f+1, c :: r =>
    if hasPrefix (c :: r) old then new ++ replaceAll old new f ((c :: r).drop old.length)
    else c :: replaceAll old new f r

/-- text after the last occurrence of `c` (`none` when `c` does not occur) -/
def afterLast (c : Char) (s : Str) : Option Str :=
  match splitOn c s with
  | [] | [_] => none
  | l => l.getLast?

/-! ## faults and results -/

inductive Err where
  | error (msg : String)      -- a Go `error` return
  | panic (msg : String)      -- a Go run-time panic (index/slice out of range)
  | unsupported (msg : String) -- outside the model (hex floats, `+pm=`): the judge skips the case
deriving Repr, DecidableEq, Inhabited

/-! ## strconv.ParseFloat -/

def lowerIs (s : Str) (w : String) : Bool := toLower s == w.toList

/-- `strconv.ParseFloat(s, 64)`: decimal literals with optional exponent (correctly rounded — the
`strconv` contract), `inf`/`infinity`/`nan` with optional sign; overflow is an error (`ErrRange`).
Hexadecimal floats and digit-separating underscores are outside the model. -/
def parseFloat {α} [Num α] (s : Str) : Except Err α :=
  let (neg, body) := match s with
    | '-' :: r => (true, r)
    | '+' :: r => (false, r)
    | _ => (false, s)
  if lowerIs body "inf" || lowerIs body "infinity" then .ok (Num.inf neg)
  else if lowerIs body "nan" then (if s.length = body.length then .ok Num.nan else .error (.error "ParseFloat"))
  else if s.any (fun c => c = 'x' || c = 'X' || c = '_') then .error (.unsupported "hex float or underscore")
  else match GeomV.Dec.parseLit s with
    | none => .error (.error "ParseFloat")
    | some l =>
      if l.scale.natAbs > 400 then .error (.unsupported "huge exponent") else
      let q : Rat := if l.scale ≥ 0 then ((l.mant * 10 ^ l.scale.toNat : Nat) : Rat)
                     else mkRat l.mant (10 ^ (-l.scale).toNat)
      let v : α := Num.ofRat (if l.neg then -q else q)
      if Num.isInf v then .error (.error "ParseFloat: value out of range") else .ok v

/-! ## the spatial reference record -/

structure Datum (α : Type) where
  dtype : Nat
  params : List α
  a : α
  b : α
  es : α
  ep2 : α
  nadGrids : Str

structure SR (α : Type) where
  name : Str := []
  title : Str := []
  srsCode : Str := []
  datumCode : Str := []
  rf : α
  lat0 : α
  lat1 : α
  lat2 : α
  latTS : α
  long0 : α
  long1 : α
  long2 : α
  longC : α
  alpha : α
  x0 : α
  y0 : α
  k0 : α
  k : α
  a : α
  a2 : α
  b : α
  b2 : α
  ra : Bool := false
  zone : α
  utmSouth : Bool := false
  datumParams : List α := []
  toMeter : α
  units : Str := []
  fromGreenwich : α
  nadGrids : Str := []
  axis : Str := []
  isLocal : Bool := false
  sphere : Bool := false
  ellps : Str := []
  ellipseName : Str := []
  es : α
  e : α
  ep2 : α
  datumName : Str := []
  noDefs : Bool := false
  datum : Option (Datum α) := none
  czech : Bool := false

section
variable {α : Type} [Num α]
open Num

/-- `NewSR`: floats NaN, `ToMeter = 1` -/
def newSR : SR α :=
  { rf := nan, lat0 := nan, lat1 := nan, lat2 := nan, latTS := nan, long0 := nan, long1 := nan,
    long2 := nan, longC := nan, alpha := nan, x0 := nan, y0 := nan, k0 := nan, k := nan, a := nan,
    a2 := nan, b := nan, b2 := nan, zone := nan, toMeter := ofRat 1, fromGreenwich := nan,
    es := nan, e := nan, ep2 := nan }

def deg2radQ : Rat := 1745329251994329577 / 100000000000000000000
def deg2rad : α := ofRat deg2radQ

def s (x : String) : Str := x.toList

/-! ## projString.go -/

def legalAxis (v : Str) : Bool :=
  match v with
  | [a, b, c] => inSet (s "ewnsud") a && inSet (s "ewnsud") b && inSet (s "ewnsud") c
  | _ => false

def parseFloats : List Str → Except Err (List α)
  | [] => .ok []
  | x :: r => do
    let v ← parseFloat x
    let vs ← parseFloats r
    pure (v :: vs)

/-- key (lower-cased) and value text of one `+key=value` item (`true` when there is no `=`) -/
def itemKV (seg : Str) : Str × Str :=
  let a := trimSpace seg
  let split := splitOn '=' a ++ [s "true"]
  (toLower (split.headD []), (split.drop 1).headD [])

/-- the `switch paramName` of the loop body: one key with its value text -/
def projKV (sr : SR α) (name val : Str) : Except Err (SR α) :=
  let num (f : α → SR α) : Except Err (SR α) := do let v ← parseFloat val; pure (f v)
  let ang (f : α → SR α) : Except Err (SR α) := do let v ← parseFloat val; pure (f (mul v deg2rad))
  if name = s "proj" then .ok { sr with name := val }
  else if name = s "title" then .ok { sr with title := val }
  else if name = s "datum" then .ok { sr with datumCode := val }
  else if name = s "rf" then num fun v => { sr with rf := v }
  else if name = s "lat_0" then ang fun v => { sr with lat0 := v }
  else if name = s "lat_1" then ang fun v => { sr with lat1 := v }
  else if name = s "lat_2" then ang fun v => { sr with lat2 := v }
  else if name = s "lat_ts" then ang fun v => { sr with latTS := v }
  else if name = s "lon_0" then ang fun v => { sr with long0 := v }
  else if name = s "lon_1" then ang fun v => { sr with long1 := v }
  else if name = s "lon_2" then ang fun v => { sr with long2 := v }
  else if name = s "alpha" then ang fun v => { sr with alpha := v }
  else if name = s "lonc" then ang fun v => { sr with longC := v }
  else if name = s "x_0" then num fun v => { sr with x0 := v }
  else if name = s "y_0" then num fun v => { sr with y0 := v }
  else if name = s "k_0" || name = s "k" then num fun v => { sr with k0 := v }
  else if name = s "a" then num fun v => { sr with a := v }
  else if name = s "b" then num fun v => { sr with b := v }
  else if name = s "ellps" then .ok { sr with ellps := val }
  else if name = s "r_a" then .ok { sr with ra := true }
  else if name = s "zone" then num fun v => { sr with zone := v }
  else if name = s "south" then .ok { sr with utmSouth := true }
  else if name = s "no_defs" then .ok { sr with noDefs := true }
  else if name = s "towgs84" then do
    let vs ← parseFloats (splitOn ',' val)
    pure { sr with datumParams := vs }
  else if name = s "to_meter" then num fun v => { sr with toMeter := v }
  else if name = s "units" then
    match List.lookup (String.ofList val) unitsTable with
    | some q => .ok { sr with units := val, toMeter := ofRat q }
    | none => .ok { sr with units := val }
  else if name = s "from_greenwich" then ang fun v => { sr with fromGreenwich := v }
  else if name = s "pm" then .error (.unsupported "pm")
  else if name = s "nadgrids" then
    if val = s "@null" then .ok { sr with datumCode := s "none" } else .ok { sr with nadGrids := val }
  else if name = s "axis" then
    if legalAxis val then .ok { sr with axis := val } else .ok sr
  else .error (.error "invalid field")

/-- one `+key=value` item of `projString` (the body of the loop) -/
def projItem (sr : SR α) (seg : Str) : Except Err (SR α) := projKV sr (itemKV seg).1 (itemKV seg).2

def foldItems (sr : SR α) : List Str → Except Err (SR α)
  | [] => .ok sr
  | x :: r => do let sr' ← projItem sr x; foldItems sr' r

/-- the statement after the loop: every datum code except the literal `WGS84` is lower-cased -/
def lowerDatum (sr : SR α) : SR α :=
  if sr.datumCode ≠ s "WGS84" then { sr with datumCode := toLower sr.datumCode } else sr

def projString (def_ : Str) : Except Err (SR α) := do
  let sr ← foldItems newSR ((splitOn '+' def_).drop 1)
  pure (lowerDatum sr)

/-- TOKEN level: the loop over (key, value text) pairs instead of over the text between `+` signs -/
def foldKVs (sr : SR α) : List (Str × Str) → Except Err (SR α)
  | [] => .ok sr
  | (k, v) :: r => do let sr' ← projKV sr k v; foldKVs sr' r

def parseProj4Toks (kvs : List (Str × Str)) : Except Err (SR α) := do
  let sr ← foldKVs newSR kvs
  pure (lowerDatum sr)


/-! ## datum.go: getDatum (it aliases and rewrites `DatumParams` in place) -/

def neq0 (x : α) : Bool := !(eq x (ofRat 0))     -- Go `x != 0` (true for NaN)

/-- `l[i]` as Go evaluates it: a run-time panic when out of range -/
def idx (l : List α) (i : Nat) : Except Err α :=
  match l[i]? with
  | some v => .ok v
  | none => .error (.panic "index out of range")

/-- short-circuit `l[i0] != 0 || l[i1] != 0 || …` -/
def anyNonzero (l : List α) : List Nat → Except Err Bool
  | [] => .ok false
  | i :: r => do
    let v ← idx l i
    if neq0 v then pure true else anyNonzero l r

def secToRadQ : Rat := 484813681109535993589914102357 / 100000000000000000000000000000000000

def pjd3Param := 1
def pjd7Param := 2
def pjdGridShift := 3
def pjdWGS84 := 4
def pjdNoDatum := 5

/-- returns the datum and the (possibly rewritten) `DatumParams` slice -/
def getDatum (sr : SR α) : Except Err (Datum α × List α) := do
  let t0 := if sr.datumCode = [] || sr.datumCode = s "none" then pjdNoDatum else pjdWGS84
  let (t1, ps) ← (do
    if sr.datumParams.length > 0 then
      let ps := sr.datumParams
      let t1 := if (← anyNonzero ps [0, 1, 2]) then pjd3Param else t0
      if ps.length > 3 then
        if (← anyNonzero ps [3, 4, 5, 6]) then
          let p3 ← idx ps 3
          let p4 ← idx ps 4
          let p5 ← idx ps 5
          let p6 ← idx ps 6
          let ps' := ps.take 3 ++ [mul p3 (ofRat secToRadQ), mul p4 (ofRat secToRadQ), mul p5 (ofRat secToRadQ),
                                   add (div p6 (ofRat 1000000)) (ofRat 1)] ++ ps.drop 7
          pure (pjd7Param, ps')
        else pure (t1, ps)
      else pure (t1, ps)
    else pure (t0, sr.datumParams) : Except Err (Nat × List α))
  let t2 := if sr.nadGrids ≠ [] then pjdGridShift else t1
  let d : Datum α := { dtype := t2, params := ps, a := sr.a, b := sr.b, es := sr.es, ep2 := sr.ep2,
                        nadGrids := if t2 = pjdGridShift then sr.nadGrids else [] }
  pure (d, ps)

/-! ## deriveConstants.go -/

def epslnQ : Rat := 1 / 10000000000
def sixthQ : Rat := 1666666666666666667 / 10000000000000000000
def ra4Q : Rat := 4722222222222222222 / 100000000000000000000
def ra6Q : Rat := 2215608465608465608 / 100000000000000000000

def ofRat0 (q : Rat) (dflt : α) : α := if q = 0 then dflt else ofRat q

/-! `DeriveConstants` before the datum object is attached, statement group by statement group -/

/-- a known `DatumCode` brings its table entry -/
def dcDatum (sr : SR α) : SR α :=
  if sr.datumCode ≠ [] && sr.datumCode ≠ s "none" then
    match List.lookup (String.ofList sr.datumCode) datumTable with
    | some d =>
      { sr with datumParams := (d.towgs84.getD []).map ofRat, ellps := d.ellipse.toList,
                datumName := if d.datumName ≠ "" then d.datumName.toList else sr.datumCode }
    | none => sr
  else sr

/-- no semi-major axis: take the named ellipsoid (default WGS84) -/
def dcEllps (sr : SR α) : SR α :=
  if isNaN sr.a then
    let e : EllDef := match List.lookup (String.ofList sr.ellps) ellipsoidTable with
      | some e => e
      | none => (List.lookup "WGS84" ellipsoidTable).getD ⟨0, 0, 0, ""⟩
    { sr with a := ofRat0 e.a sr.a, b := ofRat0 e.b sr.b, rf := ofRat0 e.rf sr.rf, ellipseName := e.name.toList }
  else sr

def dcB (sr : SR α) : SR α :=
  if !isNaN sr.rf && isNaN sr.b then { sr with b := mul (sub (ofRat 1) (div (ofRat 1) sr.rf)) sr.a } else sr

def dcSphere (sr : SR α) : SR α :=
  if eq sr.rf (ofRat 0) || lt (abs (sub sr.a sr.b)) (ofRat epslnQ) then { sr with sphere := true, b := sr.a } else sr

def dcSquares (sr : SR α) : SR α :=
  let a2 := mul sr.a sr.a
  let b2 := mul sr.b sr.b
  let es := div (sub a2 b2) a2
  { sr with a2 := a2, b2 := b2, es := es, e := sqrt es }

def dcRa (sr : SR α) : SR α :=
  if sr.ra then
    let a := mul sr.a (sub (ofRat 1) (mul sr.es (add (ofRat sixthQ) (mul sr.es (add (ofRat ra4Q) (mul sr.es (ofRat ra6Q)))))))
    { sr with a := a, a2 := mul a a, b2 := mul sr.b sr.b, es := ofRat 0 }
  else sr

def dcEp2 (sr : SR α) : SR α := { sr with ep2 := div (sub sr.a2 sr.b2) sr.b2 }
def dcK0 (sr : SR α) : SR α := if isNaN sr.k0 then { sr with k0 := ofRat 1 } else sr
def dcAxis (sr : SR α) : SR α := if sr.axis = [] then { sr with axis := s "enu" } else sr

/-- everything of `DeriveConstants` before the datum object is attached -/
def deriveCore (sr : SR α) : SR α :=
  dcAxis (dcK0 (dcEp2 (dcRa (dcSquares (dcSphere (dcB (dcEllps (dcDatum sr))))))))

/-- `if json.datum == nil { json.datum = json.getDatum() }` -/
def attachDatum (sr : SR α) : Except Err (SR α) :=
  match sr.datum with
  | some _ => .ok sr
  | none =>
    match getDatum sr with
    | .error e => .error e
    | .ok (d, ps) => .ok { sr with datum := some d, datumParams := ps }

def deriveConstants (sr : SR α) : Except Err (SR α) := attachDatum (deriveCore sr)

/-! ## wkt.go -/

/-- the state travels with the error: `parseWKTProjCS` drops the error of its GEOGCS branch but the
fields written before the error stay written -/
abbrev Res (α : Type) := SR α × Option Err

def ok (sr : SR α) : Res α := (sr, none)
def fail (sr : SR α) (m : String) : Res α := (sr, some (.error m))
def panicR (sr : SR α) (m : String) : Res α := (sr, some (.panic m))

/-- `splitWKTName`: text before / after the first comma; slice-bounds panic without a comma -/
def splitWKTName (d : Str) : Option (Str × Str) :=
  if d.contains ',' then some (d.takeWhile (· ≠ ','), (d.dropWhile (· ≠ ',')).drop 1) else none

/-- `findWKTSections` + the slicing done by `parseWKTSection`: the top-level bracket sections of
`d` as pairs (whole text before the opening bracket, text inside), and whether every opened section
was closed.  (Opens and closes recorded by the Go loop alternate strictly, so pairing the i-th open
with the i-th close is pairing each open with the next close.) -/
def scanSections : Int → Str → Str → Option Str → List (Str × Str) → List (Str × Str) × Bool
  -- nest, reversed text seen so far, rest, (reversed inner text of the open section), done
  | _, _, [], cur, acc => (acc.reverse, cur.isNone)
  | nest, seen, c :: r, cur, acc =>
    if c = '[' then
      if nest = 0 then scanSections 1 (c :: seen) r (some []) ((seen.reverse, []) :: acc)
      else scanSections (nest + 1) (c :: seen) r (cur.map (c :: ·)) acc
    else if c = ']' then
      if nest - 1 = 0 then
        match cur, acc with
        | some inner, (pre, _) :: acc' => scanSections 0 (c :: seen) r none ((pre, inner.reverse) :: acc')
        | _, _ => scanSections 0 (c :: seen) r none acc
      else scanSections (nest - 1) (c :: seen) r (cur.map (c :: ·)) acc
    else scanSections nest (c :: seen) r (cur.map (c :: ·)) acc

def findSections (d : Str) : List (Str × Str) × Bool := scanSections 0 [] d none []

/-- the section name computed by `parseWKTSection` from the text before the bracket -/
def sectionName (pre : Str) : Str :=
  let name := trim (inSet (s ", ")) pre
  match afterLast ',' name with
  | some t => trimSpace t
  | none => name

/-- the renaming chain of `datumRename` on the code alone -/
def renameHead (dc : Str) : Str :=
  let dc := if dc.take 2 = s "d_" then dc.drop 2 else dc
  if dc = s "new_zealand_geodetic_datum_1949" || dc = s "new_zealand_1949" then s "nzgd49" else dc

def renameCode (dc0 : Str) : Str :=
  let dc := renameHead dc0
  let dc := if dc = s "wgs_1984" then s "wgs84" else dc
  let dc := if hasSuffix dc (s "_ferro") then dc.take (dc.length - 6) else dc
  let dc := if hasSuffix dc (s "_jakarta") then dc.take (dc.length - 8) else dc
  if containsSub dc (s "belge") then s "rnb72" else dc

def datumRename (sr : SR α) : Res α :=
  if sr.datumCode.length < 2 then panicR sr "slice bounds out of range" else
  ok { sr with datumCode := renameCode sr.datumCode,
               sphere := if renameHead sr.datumCode = s "wgs_1984" then sr.sphere || sr.name = s "Mercator_Auxiliary_Sphere"
                         else sr.sphere }

def isQuote (c : Char) : Bool := c = '"'
def isQuoteOrSpace (c : Char) : Bool := c = '"' || c = ' '

def parseWKTSpheroid (sr : SR α) (d : Str) : Res α :=
  let f := splitOn ',' d
  let e := trim isQuote (f.headD [])
  let e := replaceAll (s "_19") [] e.length e
  let e := replaceAll (s "clarke_18") (s "clrk") e.length e
  let e := replaceAll (s "Clarke_18") (s "clrk") e.length e
  let e := if e.length ≥ 13 && toLower (e.take 13) = s "international" then s "intl" else e
  let sr := { sr with ellps := e }
  match f[1]? with
  | none => panicR sr "index out of range [1]"
  | some f1 =>
    match parseFloat (α := α) (trimSpace f1) with
    | .error (.unsupported m) => (sr, some (.unsupported m))
    | .error _ => fail sr "parseWKTSpheroid a"
    | .ok a =>
      let sr := { sr with a := a }
      match f[2]? with
      | none => panicR sr "index out of range [2]"
      | some f2 =>
        match parseFloat (α := α) (trimSpace f2) with
        | .error (.unsupported m) => (sr, some (.unsupported m))
        | .error _ => fail { sr with rf := ofRat 0 } "parseWKTSpheroid rf"
        | .ok rf =>
          let sr := { sr with rf := rf }
          let sr := if containsSub sr.datumCode (s "osgb_1936") then { sr with datumCode := s "osgb36" } else sr
          ok (if isInf sr.b then { sr with b := sr.a } else sr)

def parseWKTProjection (sr : SR α) (d : Str) : SR α :=
  if d.contains ',' then { sr with name := trim isQuoteOrSpace ((splitOn ',' d).headD []) }
  else { sr with name := trim isQuote d }

/-- the `switch name` of `parseWKTParameter` -/
def paramSet (sr : SR α) (name : Str) (val : α) : Res α :=
  let r := mul val deg2rad
  if name = s "standard_parallel_1" then ok { sr with lat1 := r }
  else if name = s "standard_parallel_2" then ok { sr with lat2 := r }
  else if name = s "false_easting" then ok { sr with x0 := val }
  else if name = s "false_northing" then ok { sr with y0 := val }
  else if name = s "latitude_of_origin" then ok { sr with lat0 := r }
  else if name = s "central_parallel" then ok { sr with lat0 := r }
  else if name = s "scale_factor" then ok { sr with k0 := val }
  else if name = s "latitude_of_center" then ok { sr with lat0 := r }
  else if name = s "longitude_of_center" then ok { sr with longC := r }
  else if name = s "central_meridian" then ok { sr with long0 := r }
  else if name = s "azimuth" then ok { sr with alpha := r }
  else if name = s "auxiliary_sphere_type" || name = s "rectified_grid_angle" then ok sr
  else fail sr "parseWKTParameter: unknown name"

def parseWKTParameter (sr : SR α) (d : Str) : Res α :=
  let v := splitOn ',' d
  let name := trim isQuote (toLower (v.headD []))
  match v[1]? with
  | none => panicR sr "index out of range [1]"
  | some v1 =>
    match parseFloat (α := α) (trimSpace v1) with
    | .error (.unsupported m) => (sr, some (.unsupported m))
    | .error _ => fail sr "parseWKTParameter"
    | .ok val => paramSet sr name val

def parseWKTPrimeM (sr : SR α) (d : Str) : Res α :=
  let v := splitOn ',' d
  if toLower (trim isQuote (v.headD [])) = s "greenwich" then ok sr else fail sr "prime meridian"

def parseWKTUnit (sr : SR α) (d : Str) : Res α :=
  let v := splitOn ',' d
  let u := trim isQuote (toLower (v.headD []))
  let u := if u = s "metre" then s "meter" else u
  let sr := { sr with units := u }
  match v[1]? with
  | none => ok sr
  | some v1 =>
    match parseFloat (α := α) (trimSpace v1) with
    | .error (.unsupported m) => (sr, some (.unsupported m))
    | .error _ => fail sr "parseWKTUnit"
    | .ok c => ok { sr with toMeter := if sr.name = s "longlat" then mul c sr.a else c }

def parseWKTTowgs84 (sr : SR α) (d : Str) : Res α :=
  -- the Go loop writes element by element into a fresh slice of full length (zeros behind the error)
  let f := splitOn ',' d
  let rec go (done : List α) : List Str → Res α
    | [] => ok { sr with datumParams := done }
    | x :: r =>
      match parseFloat (α := α) (trimSpace x) with
      | .ok v => go (done ++ [v]) r
      | .error (.unsupported m) => (sr, some (.unsupported m))
      | .error _ => fail { sr with datumParams := done ++ List.replicate (r.length + 1) (ofRat 0) } "TOWGS84"
  go [] f

/-- What the section handlers need from the "data" of a section.  The Go code works on the text
(`strOps`: δ = `Str`); the token-level parser works on the argument list of the section (`treeOps`
in Spec.lean).  The handlers below are written ONCE, over `DataOps`, so both levels run the same code. -/
structure DataOps (δ : Type) where
  /-- `splitWKTName`: the name (text before the first comma) and the data behind it -/
  splitName : δ → Option (Str × δ)
  /-- the text of the section as the leaf handlers (`strings.Split(secData, ",")`) see it -/
  text : δ → Str
  /-- `findWKTSections` + slicing + name: the top-level bracket sections (name, data) and whether
  every opened section was closed -/
  sections : δ → List (Str × δ) × Bool

abbrev Rec (α δ : Type) := List Str → δ → SR α → Res α

variable {δ : Type}

def parseWKTDatumG (ops : DataOps δ) (rec : Rec α δ) (secName : List Str) (d : δ) (sr : SR α) : Res α :=
  let last := secName.getLastD []
  if last = s "DATUM" then
    match ops.splitName d with
    | none => panicR sr "slice bounds out of range [:-1]"
    | some (name, data) =>
      match datumRename { sr with datumCode := toLower (trim isQuoteOrSpace name) } with
      | (sr, some e) => (sr, some e)
      | (sr, none) => rec secName data sr
  else if last = s "SPHEROID" then parseWKTSpheroid sr (ops.text d)
  else if last = s "TOWGS84" then parseWKTTowgs84 sr (ops.text d)
  else if last = s "AUTHORITY" then ok sr
  else fail sr "parseWKTDatum: unknown WKT section"

def parseWKTGeogCSG (ops : DataOps δ) (rec : Rec α δ) (secName : List Str) (d : δ) (sr : SR α) : Res α :=
  let last := secName.getLastD []
  if last = s "GEOGCS" then
    match ops.splitName d with
    | none => panicR sr "slice bounds out of range [:-1]"
    | some (name, data) =>
      match datumRename { sr with datumCode := toLower name } with
      | (sr, some e) => (sr, some e)
      | (sr, none) => rec secName data sr
  else if secName.contains (s "DATUM") then parseWKTDatumG ops rec secName d sr
  else if last = s "PRIMEM" then parseWKTPrimeM sr (ops.text d)
  else if last = s "UNIT" && sr.name = s "longlat" then parseWKTUnit sr (ops.text d)
  else if last = s "AUTHORITY" then ok sr
  else if last = s "METADATA" then ok sr
  else if last = s "AXIS" then ok sr
  else fail sr "parseWKTGeogCS: unknown WKT section"

/-- `sr.parseWKTGeogCS(secName, secData)` as a statement: the returned error is dropped (a panic is not) -/
def dropErr (r : Res α) : Res α :=
  match r with
  | (sr, some (.error _)) => ok sr
  | r => r

def parseWKTProjCSG (ops : DataOps δ) (rec : Rec α δ) (secName : List Str) (d : δ) (sr : SR α) : Res α :=
  match secName with
  | [_] =>
    match ops.splitName d with
    | none => panicR sr "slice bounds out of range [:-1]"
    | some (name, data) => rec secName data { sr with srsCode := name }
  | _ :: k :: _ =>
    if k = s "GEOGCS" then dropErr (parseWKTGeogCSG ops rec secName d sr)
    else if k = s "PRIMEM" then parseWKTPrimeM sr (ops.text d)
    else if k = s "PROJECTION" then ok (parseWKTProjection sr (ops.text d))
    else if k = s "PARAMETER" then parseWKTParameter sr (ops.text d)
    else if k = s "UNIT" then parseWKTUnit sr (ops.text d)
    else if k = s "AUTHORITY" || k = s "AXIS" then ok sr
    else fail sr "parseWKTProjCS: unknown WKT section"
  | [] => panicR sr "index out of range"

def runSections (step : Str × δ → SR α → Res α) : List (Str × δ) → SR α → Res α
  | [], sr => ok sr
  | x :: r, sr =>
    match step x sr with
    | (sr, some e) => (sr, some e)
    | (sr, none) => runSections step r sr

/-- one top-level section of `parseWKTSection`'s loop -/
def sectionStep (ops : DataOps δ) (rec : Rec α δ) (secName : List Str) (x : Str × δ) (sr : SR α) : Res α :=
  let secNameO := secName ++ [x.1]
  let top := secNameO.headD []
  if top = s "PROJCS" then parseWKTProjCSG ops rec secNameO x.2 sr
  else if top = s "GEOGCS" then parseWKTGeogCSG ops rec secNameO x.2 { sr with name := s "longlat" }
  else if top = s "LOCAL_CS" then ok { sr with name := s "identity", isLocal := true }
  else fail sr "unknown WKT section name"

/-- `parseWKTSection` (fuel = bracket nesting depth) -/
def parseWKTSectionG (ops : DataOps δ) : Nat → List Str → δ → SR α → Res α
  | 0, _, _, sr => (sr, some (.unsupported "fuel"))
  | fuel+1, secName, d, sr =>
    let (secs, balanced) := ops.sections d
    if !balanced then fail sr "malformed WKT section" else
    runSections (sectionStep ops (parseWKTSectionG ops fuel) secName) secs sr

/-- the text level (what the Go code does) -/
def strOps : DataOps Str where
  splitName := splitWKTName
  text := id
  sections d := ((findSections d).1.map fun p => (sectionName p.1, p.2), (findSections d).2)

def parseWKTSection : Nat → List Str → Str → SR α → Res α := parseWKTSectionG strOps

/-- the statements of `wkt` after the sections have been read -/
def wktFinish (sr : SR α) : SR α :=
  let sr := if sr.name = s "Mercator_Auxiliary_Sphere" && sr.datumCode = s "wgs84" then { sr with sphere := true } else sr
  let sr := { sr with x0 := mul sr.x0 sr.toMeter, y0 := mul sr.y0 sr.toMeter }
  let sr := if isNaN sr.lat0 then { sr with lat0 := sr.lat1 } else sr
  if isNaN sr.long0 && !isNaN sr.longC &&
      (sr.name = s "Albers_Conic_Equal_Area" || sr.name = s "Equidistant_Conic" || sr.name = s "Lambert_Azimuthal_Equal_Area")
    then { sr with long0 := sr.longC } else sr

/-- `wkt`.  Order independence: every section handler only WRITES its own fields (PARAMETER values are
stored raw, UNIT stores `ToMeter`), and the steps that combine fields written by different sections —
false origin × `ToMeter`, `Lat0 ← Lat1`, `Long0 ← LongC`, the auxiliary-sphere flag — run HERE, after all
sections have been read, so the clause order of the text cannot matter (`C20_wkt_false_origin_metres`;
the order switches of `Style` exercise it on the real code). -/
def wkt (w : Str) : Except Err (SR α) :=
  let (sr, e) := parseWKTSection (w.length + 1) [] w newSR
  let sr := wktFinish sr
  match e with
  | some e => .error e
  | none => .ok sr

/-! ## parseCode.go, defs.go, global.go -/

def testWKT (c : Str) : Bool :=
  containsSub c (s "GEOGCS") || containsSub c (s "GEOCCS") || containsSub c (s "PROJCS") || containsSub c (s "LOCAL_CS")

def testProj (c : Str) : Bool := c.head? = some '+'

/-- `Parse` on anything that is not a registered name -/
def parseDef (c : Str) : Except Err (SR α) :=
  if testWKT c then wkt c >>= deriveConstants
  else if testProj c then projString c >>= deriveConstants
  else .error (.error "unsupported projection definition")

/-- the definition string a registered name stands for (`addDef` + the alias assignments) -/
def registryLookup (name : String) : Option String :=
  match List.lookup name registryDefs with
  | some d => some d
  | none => (List.lookup name registryAliases).bind (fun t => List.lookup t registryDefs)

/-- `Parse`.  A PURE function of the text and of the registry, and the registry (`registryDefs`,
`registryAliases`: what `init` of global.go stores) is a CONSTANT: no `Parse` writes to it.  (The
harness checks this on the real code with one-line histories `reghist`: parse texts that carry
registered codes in AUTHORITY clauses, then compare every registered name with its definition.) -/
def parse (c : Str) : Except Err (SR α) :=
  match registryLookup (String.ofList c) with
  | some d => parseDef d.toList     -- `init` stored `Parse(def)`; the pointer is shared
  | none => parseDef c

/-! ## Proj.go: Equal (reflection over the fields in declaration order) -/

/-- the float comparison of `equal`: both NaN, or neither and within `ulp` (abstract `close`) -/
def feq (close : α → α → Bool) (x y : α) : Bool :=
  if isNaN x != isNaN y then false else isNaN x || close x y

/-- `Slice` case (after the fixes: lengths are compared first, elements like float fields) -/
def sliceEq (close : α → α → Bool) : List α → List α → Bool
  | [], [] => true
  | x :: a, y :: b => feq close x y && sliceEq close a b
  | _, _ => false

def datumEq (close : α → α → Bool) (d1 d2 : Datum α) : Bool :=
  d1.dtype = d2.dtype && sliceEq close d1.params d2.params && feq close d1.a d2.a && feq close d1.b d2.b
  && feq close d1.es d2.es && feq close d1.ep2 d2.ep2 && d1.nadGrids = d2.nadGrids

/-- `(*SR).Equal` for references that went through `DeriveConstants` (`datum` non-nil; a nil
`datum` makes the Go code panic inside `reflect`, modelled as `none`) -/
def equalSR (close : α → α → Bool) (p q : SR α) : Option Bool :=
  match p.datum, q.datum with
  | some d1, some d2 =>
    some (p.name = q.name && p.title = q.title && p.srsCode = q.srsCode && p.datumCode = q.datumCode
      && feq close p.rf q.rf && feq close p.lat0 q.lat0 && feq close p.lat1 q.lat1 && feq close p.lat2 q.lat2
      && feq close p.latTS q.latTS && feq close p.long0 q.long0 && feq close p.long1 q.long1
      && feq close p.long2 q.long2 && feq close p.longC q.longC && feq close p.alpha q.alpha
      && feq close p.x0 q.x0 && feq close p.y0 q.y0 && feq close p.k0 q.k0 && feq close p.k q.k
      && feq close p.a q.a && feq close p.a2 q.a2 && feq close p.b q.b && feq close p.b2 q.b2
      && p.ra = q.ra && feq close p.zone q.zone && p.utmSouth = q.utmSouth
      && sliceEq close p.datumParams q.datumParams && feq close p.toMeter q.toMeter && p.units = q.units
      && feq close p.fromGreenwich q.fromGreenwich && p.nadGrids = q.nadGrids && p.axis = q.axis
      && p.isLocal = q.isLocal && p.sphere = q.sphere && p.ellps = q.ellps && p.ellipseName = q.ellipseName
      && feq close p.es q.es && feq close p.e q.e && feq close p.ep2 q.ep2 && p.datumName = q.datumName
      && p.noDefs = q.noDefs && datumEq close d1 d2 && p.czech = q.czech)
  | _, _ => none

/-! ## encoding/shp/shp.go: (*Decoder).SR -/

/-- `Decoder.SR`: `ioutil.ReadFile(name + ".prj")` (`none` = the read failed) then `proj.Parse(string(b))` -/
def decoderSR (prjFile : Option Str) : Except Err (SR α) :=
  match prjFile with
  | none => .error (.error "ReadFile")
  | some b => parse b

/-- `NewTransform` returns the nil transformer (decision only) -/
def newTransformIsNil (close : α → α → Bool) (src dst : SR α) : Option Bool := equalSR close src dst

end
end GeomV.C20
