import GeomV.C19.Gen
import GeomV.C19.Build
/-!
# C19 — T1 tie lemmas: the definitions REGENERATED from `route/route.go` (Gen.lean) denote the model (Model.lean)

`Rep geoOf g net` relates the Go-shaped state `g : Go.Network α` (maps as association lists, the two R-trees as lists,
pointers as options) to the model's `Net α`.  Every regenerated function returns WITHOUT FAULT the value of the
model's function on related states, and the state-changing ones preserve `Rep`:

* `tie_NewNetwork`, `tie_Has`, `tie_newNodeID`, `tie_newNode`, `tie_addNode`, `tie_AddLink` (incl. the `maximumSpeed` and
  `heuristicScale` updates, the self-edge panic and the empty-link index fault), `tie_build` (every AddLink history),
* `tie_Weight`, `tie_costHeuristic`, `tie_Edge`.

If route.go changes so that a regenerated definition no longer denotes the model, this file stops building and the
check reports the tie broken.
-/
set_option linter.unusedVariables false
set_option linter.unusedSimpArgs false
set_option linter.unusedSectionVars false
namespace GeomV.C19.Ties
open GeomV GeomV.C19 GeomV.C19.Go GeomV.C19.Gen

variable {α : Type} [Field α] [LinearOrder α] [IsStrictOrderedRing α]
-- the geometry passed to the `i`-th `AddLink` call of the history (the model's edges carry the index `link` only)
variable {geoOf : Nat → List (Pt α)}

/-- `Distance MinimizeOption = iota` (0), `Time` (1) -/
def optNum : Opt → α
  | .distance => 0
  | .time => 1

/-- a Go `edge` and a model edge carry the same numbers and end-node ids, and the Go edge's `LineString` is the geometry
of the `AddLink` call the model edge stands for -/
def ERel (geoOf : Nat → List (Pt α)) (ge : Edge α) (me : MEdge α) : Prop :=
  ge.length = me.length ∧ ge.speed = me.speed ∧ ge.time = me.time ∧
  ge.start.map (·.id) = some me.a ∧ ge.end_.map (·.id) = some me.b ∧ ge.LineString = geoOf me.link

/-- the entry `neighbors[u][v]` of the Go state against the model's `neighbor net u v` -/
def NbRel (geoOf : Nat → List (Pt α)) (x : Option (Option (Edge α))) (y : Option (MEdge α)) : Prop :=
  match x, y with
  | some (some ge), some me => ERel geoOf ge me
  | none, none => True
  | _, _ => False

structure Rep (geoOf : Nat → List (Pt α)) (g : Network α) (net : Net α) : Prop where
  nodes : g.nodes = net.nodes
  nodeMap : g.nodeMap = net.nodes.map (fun n => (n.id, some n))
  nbKeys : ∀ u, (lookup u g.neighbors).isSome = hasNode net u
  nb : ∀ u v, NbRel geoOf (lookup v (mapGetD g.neighbors u [])) (neighbor net u v)
  maxID : g.maxID = net.maxID
  opt : g.minimizeOption = optNum net.opt
  speed : g.maximumSpeed = net.maxSpeed
  scale : g.heuristicScale = net.hscale
  /-- the keys of every inner map `neighbors[u]` are distinct (a Go map holds one entry per key) -/
  nbNodup : ∀ u, ((mapGetD g.neighbors u []).map Prod.fst).Nodup

/-! ### association lists -/

theorem mem_keys_mapSet {β : Type} (m : Map Nat β) (k : Nat) (v : β) (x : Nat) (h : x ∈ (mapSet m k v).map Prod.fst) :
    x = k ∨ x ∈ m.map Prod.fst := by
  induction m with
  | nil => simp [mapSet] at h; exact Or.inl h
  | cons a r ih =>
    obtain ⟨ka, va⟩ := a
    simp only [mapSet] at h
    by_cases hk : k = ka
    · simp only [if_pos hk, List.map_cons, List.mem_cons] at h
      rcases h with h | h
      · exact Or.inl h
      · exact Or.inr (by simp [h])
    · simp only [if_neg hk, List.map_cons, List.mem_cons] at h
      rcases h with h | h
      · exact Or.inr (by simp [h])
      · rcases ih h with h | h
        · exact Or.inl h
        · exact Or.inr (by simp [h])

/-- `m[k] = v` keeps the keys of an association list distinct -/
theorem mapSet_keys_nodup {β : Type} (m : Map Nat β) (k : Nat) (v : β) (h : (m.map Prod.fst).Nodup) :
    ((mapSet m k v).map Prod.fst).Nodup := by
  induction m with
  | nil => simp [mapSet]
  | cons a r ih =>
    obtain ⟨ka, va⟩ := a
    simp only [List.map_cons, List.nodup_cons] at h
    simp only [mapSet]
    by_cases hk : k = ka
    · simp only [if_pos hk, List.map_cons, List.nodup_cons]
      subst hk; exact h
    · simp only [if_neg hk, List.map_cons, List.nodup_cons]
      refine ⟨fun hm => ?_, ih h.2⟩
      rcases mem_keys_mapSet r k v ka hm with e | e
      · exact hk e.symm
      · exact h.1 e

theorem lookup_append_single {β : Type} (m : Map Nat β) (k k' : Nat) (v : β) :
    lookup k' (m ++ [(k, v)]) = match lookup k' m with | some x => some x | none => if k' = k then some v else none := by
  induction m with
  | nil => simp [lookup]
  | cons a r ih =>
    obtain ⟨ka, va⟩ := a
    simp only [List.cons_append, lookup]
    split
    · rfl
    · exact ih

theorem lookup_mapSet {β : Type} (m : Map Nat β) (k k' : Nat) (v : β) :
    lookup k' (mapSet m k v) = if k' = k then some v else lookup k' m := by
  induction m with
  | nil => simp [mapSet, lookup]
  | cons a r ih =>
    obtain ⟨ka, va⟩ := a
    simp only [mapSet]
    by_cases hk : k = ka
    · subst hk
      simp only [if_true, lookup]
      split <;> rfl
    · simp only [if_neg hk, lookup]
      by_cases hk' : k' = ka
      · subst hk'
        simp [Ne.symm hk]
      · simp only [if_neg hk']
        exact ih

theorem mapSet_absent {β : Type} (m : Map Nat β) (k : Nat) (v : β) (h : lookup k m = none) :
    mapSet m k v = m ++ [(k, v)] := by
  induction m with
  | nil => rfl
  | cons a r ih =>
    obtain ⟨ka, va⟩ := a
    simp only [lookup] at h
    by_cases hk : k = ka
    · simp [hk] at h
    · simp only [if_neg hk] at h
      simp [mapSet, hk, ih h]

theorem lookup_nodeMap (l : List (MNode α)) (k : Nat) :
    lookup k (l.map (fun n => (n.id, some n))) = (l.find? (fun n => n.id == k)).map some := by
  induction l with
  | nil => rfl
  | cons a r ih =>
    simp only [List.map_cons, lookup, List.find?_cons]
    by_cases h : k = a.id
    · subst h; simp
    · have h2 : (a.id == k) = false := by
        simp only [beq_eq_false_iff_ne, ne_eq]; exact fun e => h e.symm
      simp only [if_neg h, h2, ih]

theorem lookup_nodeMap_isSome (l : List (MNode α)) (k : Nat) :
    (lookup k (l.map (fun n => (n.id, some n)))).isSome = l.any (fun n => n.id == k) := by
  rw [lookup_nodeMap]
  induction l with
  | nil => rfl
  | cons a r ih =>
    simp only [List.find?_cons, List.any_cons]
    cases h : (a.id == k) <;> simp [ih]

/-! ### the read-only methods -/

theorem tie_NewNetwork (C : Ctx α) (o : Opt) :
    ∃ g, network_NewNetwork C (optNum o) = .ok g ∧ Rep geoOf g (newNetwork o) := by
  refine ⟨_, rfl, ?_⟩
  constructor <;> simp [newNetwork, hasNode, lookup, mapGetD, mapGet?, neighbor, NbRel]

theorem tie_Has (C : Ctx α) (g : Network α) (net : Net α) (hR : Rep geoOf g net) (n : Nat) :
    network_Has C g n = .ok (hasNode net n) := by
  unfold network_Has mapGetOk mapGet?
  simp only [bind, Except.bind, pure, Except.pure]
  have := lookup_nodeMap_isSome net.nodes n
  rw [← hR.nodeMap] at this
  unfold hasNode
  rw [← this]
  cases lookup n g.nodeMap <;> rfl

/-! ### node creation -/

theorem rep_bump {g : Network α} {net : Net α} (hR : Rep geoOf g net) :
    Rep geoOf { g with maxID := g.maxID + 1 } { net with maxID := net.maxID + 1 } := by
  constructor
  · exact hR.nodes
  · exact hR.nodeMap
  · exact hR.nbKeys
  · exact hR.nb
  · simp [hR.maxID]
  · exact hR.opt
  · exact hR.speed
  · exact hR.scale
  · exact hR.nbNodup

theorem tie_newNodeID (C : Ctx α) (g : Network α) (net : Net α) (hR : Rep geoOf g net) (hmax : net.maxID ≠ Go.maxInt) :
    network_newNodeID C g = .ok (net.maxID + 1, { g with maxID := g.maxID + 1 }) := by
  unfold network_newNodeID
  have : g.maxID ≠ Go.maxInt := by rw [hR.maxID]; exact hmax
  simp [this, hmax, bind, Except.bind, pure, Except.pure, hR.maxID]

/-- `newNode`: the same node (the nearest one when it is PointEquals, a fresh one at `p` otherwise) and related states;
nothing but `maxID` changes -/
theorem tie_newNode (C : Ctx α) (g : Network α) (net : Net α) (hR : Rep geoOf g net) (hmax : net.maxID ≠ Go.maxInt)
    (hnil : ∀ p, C.geo.nearest [] p = none) (p : Pt α) :
    ∃ g', network_newNode C g p = .ok (some (newNode C.geo net p).1, g') ∧ Rep geoOf g' (newNode C.geo net p).2 := by
  have hid := tie_newNodeID C g net hR hmax
  have hgn := hR.nodes
  obtain ⟨gn, ge, gnb, gnm, gid, go, gs, gh⟩ := g
  obtain ⟨no, nn, ne, nid, ns, nh⟩ := net
  simp only at hgn
  subst hgn
  unfold network_newNode newNode
  simp only
  cases gn with
  | nil =>
    simp only [hnil, Go.treeSize, List.length_nil, bind, Except.bind, pure, Except.pure, hid]
    refine ⟨_, rfl, ?_⟩
    exact rep_bump hR
  | cons a r =>
    have hsz : decide (Go.treeSize (a :: r) ≠ (0 : Int)) = true := by
      simp [Go.treeSize]; omega
    simp only [hsz, if_true]
    cases hn : C.geo.nearest (a :: r) p with
    | none =>
      simp only [Option.isSome_none, Bool.false_eq_true, if_false, bind, Except.bind, pure, Except.pure, hid]
      refine ⟨_, rfl, ?_⟩
      exact rep_bump hR
    | some n =>
      by_cases he : C.geo.ptEq p n.p = true
      · simp only [Option.isSome_some, if_true, bind, Except.bind, pure, Except.pure, Go.assert, Go.deref, he]
        refine ⟨_, rfl, ?_⟩
        exact hR
      · have he' : C.geo.ptEq p n.p = false := by simpa using he
        simp only [Option.isSome_some, if_true, bind, Except.bind, pure, Except.pure, Go.assert, Go.deref, he', hid,
          Bool.false_eq_true, if_false]
        refine ⟨_, rfl, ?_⟩
        exact rep_bump hR

theorem newNode_maxID_le (geo : Geo α) (net : Net α) (p : Pt α) :
    (newNode geo net p).2.maxID ≤ net.maxID + 1 ∧ net.maxID ≤ (newNode geo net p).2.maxID := by
  unfold newNode
  split
  · split <;> simp
  · simp

/-- `addNode` for a node whose id is not in the table: one more entry in `nodeMap`, an empty inner map in `neighbors`,
one more object in the node R-tree -/
theorem tie_addNode (C : Ctx α) (g : Network α) (net : Net α) (hR : Rep geoOf g net) (m : MNode α) (hno : hasNode net m.id = false) :
    ∃ g', network_addNode C g (some m) = .ok g' ∧ Rep geoOf g' { net with nodes := net.nodes ++ [m] } := by
  have hl : lookup m.id g.nodeMap = none := by
    have := lookup_nodeMap_isSome net.nodes m.id
    rw [← hR.nodeMap] at this
    unfold hasNode at hno
    rw [hno] at this
    simpa using this
  have hk : lookup m.id g.neighbors = none := by
    have := hR.nbKeys m.id
    rw [hno] at this
    simpa using this
  unfold network_addNode
  simp only [mapGetOk, mapGet?, Go.deref, Go.assert, hl, bind, Except.bind, pure, Except.pure, Bool.false_eq_true, if_false]
  refine ⟨_, rfl, ?_⟩
  constructor
  · simp [Go.treeInsert, hR.nodes]
  · show mapSet g.nodeMap m.id (some m) = _
    rw [mapSet_absent _ _ _ hl, hR.nodeMap]
    simp
  · intro u
    simp only [lookup_mapSet]
    have := hR.nbKeys u
    unfold hasNode at this ⊢
    by_cases hu : u = m.id
    · subst hu; simp
    · have h2 : (m.id == u) = false := by
        simp only [beq_eq_false_iff_ne, ne_eq]; exact fun e => hu e.symm
      simp [hu, this, h2]
  · intro u v
    have := hR.nb u v
    have e : mapGetD (mapSet g.neighbors m.id []) u [] = mapGetD g.neighbors u [] := by
      unfold mapGetD mapGet?
      rw [lookup_mapSet]
      by_cases hu : u = m.id
      · subst hu; simp [hk]
      · simp [hu]
    simp only [e]
    exact this
  · exact hR.maxID
  · exact hR.opt
  · exact hR.speed
  · exact hR.scale
  · intro u
    have e : mapGetD (mapSet g.neighbors m.id []) u [] = mapGetD g.neighbors u [] := by
      unfold mapGetD mapGet?
      rw [lookup_mapSet]
      by_cases hu : u = m.id
      · subst hu; simp [hk]
      · simp [hu]
    show ((mapGetD (mapSet g.neighbors m.id []) u []).map Prod.fst).Nodup
    rw [e]
    exact hR.nbNodup u

/-- `if !net.Has(n.ID()) { net.addNode(n) }` is the model's `addNode` -/
theorem tie_ensureNode (C : Ctx α) (g : Network α) (net : Net α) (hR : Rep geoOf g net) (m : MNode α) :
    ∃ g', (if (!hasNode net m.id) = true then network_addNode C g (some m) else (.ok g : M (Network α))) = .ok g' ∧
      Rep geoOf g' (addNode net m) := by
  unfold addNode
  by_cases h : hasNode net m.id = true
  · simp only [h, Bool.not_true, Bool.false_eq_true, if_false, if_true]
    exact ⟨_, rfl, hR⟩
  · have h' : hasNode net m.id = false := by simpa using h
    simp only [h', Bool.not_false, Bool.false_eq_true, if_false, if_true]
    exact tie_addNode C g net hR m h'

theorem hasNode_addNode_self (net : Net α) (m : MNode α) : hasNode (addNode net m) m.id = true := by
  unfold addNode
  by_cases h : hasNode net m.id = true
  · simp [h]
  · have h' : hasNode net m.id = false := by simpa using h
    simp only [h', Bool.false_eq_true, if_false]
    unfold hasNode
    simp only [List.any_append, List.any_cons, beq_self_eq_true, List.any_nil, Bool.or_false, Bool.or_true]

theorem hasNode_addNode_mono (net : Net α) (m : MNode α) (u : Nat) (h : hasNode net u = true) :
    hasNode (addNode net m) u = true := by
  unfold addNode
  split
  · exact h
  · unfold hasNode at h ⊢
    simp only [List.any_append, h, Bool.true_or]

theorem mapSet2_spec {β : Type} (m : Map Nat (Map Nat β)) (k1 k2 : Nat) (v : β) (h : (lookup k1 m).isSome = true) :
    ∃ m', mapSet2 m k1 k2 v = .ok m' ∧ (∀ u, (lookup u m').isSome = (lookup u m).isSome) ∧
      (∀ u w, lookup w (mapGetD m' u []) = if u = k1 ∧ w = k2 then some v else lookup w (mapGetD m u [])) ∧
      ((∀ u, ((mapGetD m u []).map Prod.fst).Nodup) → ∀ u, ((mapGetD m' u []).map Prod.fst).Nodup) := by
  unfold mapSet2 mapGet?
  cases hk : lookup k1 m with
  | none => simp [hk] at h
  | some inner =>
    refine ⟨_, rfl, ?_, ?_, ?_⟩
    rotate_left 2
    · intro hnd u
      unfold mapGetD mapGet?
      rw [lookup_mapSet]
      by_cases hu : u = k1
      · subst hu
        simp only [if_true, Option.getD_some]
        have := hnd u
        unfold mapGetD mapGet? at this
        rw [hk] at this
        exact mapSet_keys_nodup inner k2 v this
      · simp only [if_neg hu]
        exact hnd u
    · intro u
      rw [lookup_mapSet]
      by_cases hu : u = k1
      · subst hu; simp [hk]
      · simp [hu]
    · intro u w
      unfold mapGetD mapGet?
      rw [lookup_mapSet]
      by_cases hu : u = k1
      · subst hu
        simp only [if_true, Option.getD_some, hk, true_and]
        rw [lookup_mapSet]
      · simp [hu]

theorem neighbor_append (net net' : Net α) (e : MEdge α) (h : net'.edges = net.edges ++ [e]) (u v : Nat) :
    neighbor net' u v =
      if ((e.a == u && e.b == v) || (e.a == v && e.b == u)) = true then some e else neighbor net u v := by
  unfold neighbor
  rw [h]
  simp only [ List.reverse_append, List.reverse_cons, List.reverse_nil, List.nil_append, List.singleton_append,
    List.find?_cons]
  split <;> simp_all

theorem idx_zero_cons {β : Type} (p : β) (r : List β) : Go.idx (p :: r) (0 : Int) = .ok p := by simp [Go.idx]; rfl
theorem idx_last_cons {β : Type} (p : β) (r : List β) :
    Go.idx (p :: r) (Go.len (p :: r) - (1 : Int)) = .ok ((p :: r).getLast (List.cons_ne_nil _ _)) := by
  have h1 : (Go.len (p :: r) - 1 : Int) = (r.length : Int) := by simp [Go.len]
  rw [h1]
  unfold Go.idx
  simp [List.getLast_eq_getElem]
  rfl
theorem idx_nil {β : Type} (i : Int) : Go.idx ([] : List β) i = .error .index := by unfold Go.idx; split <;> simp <;> rfl

theorem ite_ok {ε β : Type} (c : Prop) [Decidable c] (x y : β) :
    (if c then (Except.ok x : Except ε β) else Except.ok y) = Except.ok (if c then x else y) := by split <;> rfl

theorem rep_speed {g : Network α} {net : Net α} (hR : Rep geoOf g net) (speed : α) :
    Rep geoOf (if decide (speed > g.maximumSpeed) = true then { g with maximumSpeed := speed } else g)
      (if net.maxSpeed < speed then { net with maxSpeed := speed } else net) := by
  rw [hR.speed]
  by_cases h : net.maxSpeed < speed
  · have h' : decide (speed > net.maxSpeed) = true := by simpa using h
    simp only [h, h', if_true]
    exact ⟨hR.nodes, hR.nodeMap, hR.nbKeys, hR.nb, hR.maxID, hR.opt, rfl, hR.scale, hR.nbNodup⟩
  · have h' : decide (speed > net.maxSpeed) = false := by simpa using h
    simp only [h, h', Bool.false_eq_true, if_false]
    exact hR

/-- the last lines of `AddLink`: both `neighbors` entries, the edge R-tree, the heuristic scale -/
theorem rep_final {g5 : Network α} {net5 : Net α} (hR5 : Rep geoOf g5 net5) (ge : Edge α) (me : MEdge α) (hrel : ERel geoOf ge me)
    (m2 : Map Nat (Map Nat (Option (Edge α))))
    (k : ∀ u, (lookup u m2).isSome = (lookup u g5.neighbors).isSome)
    (s : ∀ u w, lookup w (mapGetD m2 u []) = if u = me.b ∧ w = me.a then some (some ge) else
      if u = me.a ∧ w = me.b then some (some ge) else lookup w (mapGetD g5.neighbors u []))
    (nd : ∀ u, ((mapGetD m2 u []).map Prod.fst).Nodup)
    (hs : α) (edges' : List (Edge α)) :
    Rep geoOf { g5 with edges := edges', neighbors := m2, heuristicScale := hs }
      { net5 with edges := net5.edges ++ [me], hscale := hs } := by
  constructor
  · exact hR5.nodes
  · exact hR5.nodeMap
  · intro u
    show (lookup u m2).isSome = _
    rw [k]; exact hR5.nbKeys u
  · intro u w
    show NbRel geoOf (lookup w (mapGetD m2 u [])) _
    rw [s, neighbor_append net5 _ me rfl]
    have old := hR5.nb u w
    by_cases h1 : u = me.b ∧ w = me.a
    · obtain ⟨rfl, rfl⟩ := h1
      simp only [and_self, if_true, beq_self_eq_true, Bool.and_self, Bool.or_true]
      exact hrel
    · by_cases h2 : u = me.a ∧ w = me.b
      · obtain ⟨rfl, rfl⟩ := h2
        simp only [h1, if_false, and_self, if_true, beq_self_eq_true, Bool.and_self, Bool.true_or]
        exact hrel
      · have hc : ((me.a == u && me.b == w) || (me.a == w && me.b == u)) = false := by
          simp only [Bool.or_eq_false_iff, Bool.and_eq_false_imp, beq_iff_eq, beq_eq_false_iff_ne, ne_eq]
          constructor
          · intro e1 e2; exact h2 ⟨e1.symm, e2.symm⟩
          · intro e1 e2; exact h1 ⟨e2.symm, e1.symm⟩
        simp only [h1, h2, if_false, hc, Bool.false_eq_true]
        exact old
  · exact hR5.maxID
  · exact hR5.opt
  · exact hR5.speed
  · rfl
  · exact nd

/-- **`AddLink`** as regenerated returns, on related states, exactly what the model's `addLink` returns: the same
outcome (new state related again; the empty-link index fault; the self-edge panic) -/
theorem tie_AddLink (C : Ctx α) (g : Network α) (net : Net α) (hR : Rep geoOf g net) (hmax : net.maxID + 2 ≤ Go.maxInt)
    (hnil : ∀ p, C.geo.nearest [] p = none) (i : Nat) (l : Link α) (hgeo : geoOf i = l.pts) :
    match addLink C.geo net i l with
    | .ok net' => ∃ g', network_AddLink C g l.pts l.speed = .ok g' ∧ Rep geoOf g' net'
    | .error .emptyLink => network_AddLink C g l.pts l.speed = .error .index
    | .error .selfEdge => network_AddLink C g l.pts l.speed = .error (.panic "concrete: adding self edge")
    | .error _ => True := by
  obtain ⟨pts, speed⟩ := l
  cases pts with
  | nil =>
    have : addLink C.geo net i ⟨[], speed⟩ = .error .emptyLink := by simp [addLink]
    rw [this]; unfold network_AddLink
    simp only [bind, Except.bind, idx_nil]
  | cons p0 r =>
    have hlast : (p0 :: r).getLast? = some ((p0 :: r).getLast (List.cons_ne_nil _ _)) := List.getLast?_eq_some_getLast _
    have hix := idx_last_cons p0 r
    generalize (p0 :: r).getLast (List.cons_ne_nil _ _) = pn at hlast hix
    obtain ⟨g1, h1, hR1⟩ := tie_newNode C g net hR (by omega) hnil p0
    have hb1 := newNode_maxID_le C.geo net p0
    obtain ⟨g2, h2, hR2⟩ := tie_newNode C g1 _ hR1 (by omega) hnil pn
    rcases hn1 : newNode C.geo net p0 with ⟨a, net1⟩
    rw [hn1] at h1 hR1 h2 hR2
    simp only at h1 hR1 h2 hR2
    rcases hn2 : newNode C.geo net1 pn with ⟨b, net2⟩
    rw [hn2] at h2 hR2
    simp only at h2 hR2
    have hR3 := rep_speed hR2 speed
    generalize hg3 : (if decide (speed > g2.maximumSpeed) = true then { g2 with maximumSpeed := speed } else g2) = g3 at hR3
    generalize hnet3 : (if net2.maxSpeed < speed then { net2 with maxSpeed := speed } else net2) = net3 at hR3
    unfold addLink network_AddLink
    simp only [List.head?_cons, hlast, hn1, hn2, bind_pure]
    simp only [bind, Except.bind, pure, Except.pure, Go.deref, idx_zero_cons, hix, h1, h2, ite_ok, hg3, hnet3]
    by_cases hab : a.id = b.id
    · simp only [hab, decide_true, if_true]
      rfl
    · have hab' : decide (a.id = b.id) = false := by simpa using hab
      simp only [hab, hab', Bool.false_eq_true, if_false]
      obtain ⟨g4, e4, hR4⟩ := tie_ensureNode C g3 net3 hR3 a
      obtain ⟨g5, e5, hR5⟩ := tie_ensureNode C g4 _ hR4 b
      simp only [tie_Has C g3 net3 hR3, e4, tie_Has C g4 _ hR4, e5]
      generalize hnet5 : addNode (addNode net3 a) b = net5 at hR5 ⊢
      have hka : (lookup a.id g5.neighbors).isSome = true := by
        rw [hR5.nbKeys, ← hnet5]; exact hasNode_addNode_mono _ _ _ (hasNode_addNode_self _ _)
      have hkb : (lookup b.id g5.neighbors).isSome = true := by
        rw [hR5.nbKeys, ← hnet5]; exact hasNode_addNode_self _ _
      generalize hge : ({ LineString := p0 :: r, start := some a, end_ := some b, length := C.geo.length (p0 :: r), speed := speed, time := C.geo.length (p0 :: r) / speed } : Edge α) = ge
      obtain ⟨m1, em1, k1, s1, n1⟩ := mapSet2_spec g5.neighbors a.id b.id (some ge) hka
      obtain ⟨m2, em2, k2, s2, n2⟩ := mapSet2_spec m1 b.id a.id (some ge) (by rw [k1]; exact hkb)
      rw [if_neg (by simp)]
      simp only [em1, em2]
      refine ⟨_, rfl, ?_⟩
      have hrel : ERel geoOf ge ⟨i, a.id, b.id, C.geo.length (p0 :: r), speed, C.geo.length (p0 :: r) / speed⟩ := by
        subst hge; simp [ERel, hgeo]
      have hfin := fun hs => rep_final hR5 ge ⟨i, a.id, b.id, C.geo.length (p0 :: r), speed, C.geo.length (p0 :: r) / speed⟩ hrel m2
        (fun u => by rw [k2, k1])
        (fun u w => by rw [s2, s1]) (n2 (n1 hR5.nbNodup)) hs (treeInsert g5.edges ge)
      rw [hR5.scale]
      by_cases hc : 0 < C.geo.euclid a.p b.p ∧ C.geo.length (p0 :: r) / C.geo.euclid a.p b.p < net5.hscale
      · have hc' : (decide (C.geo.euclid a.p b.p > 0) &&
            decide (C.geo.length (p0 :: r) / C.geo.euclid a.p b.p < net5.hscale)) = true := by
          simp [hc.1, hc.2]
        simp only [hc, hc', if_true, and_self]
        exact hfin _
      · have hc' : (decide (C.geo.euclid a.p b.p > 0) &&
            decide (C.geo.length (p0 :: r) / C.geo.euclid a.p b.p < net5.hscale)) = false := by
          rw [Bool.eq_false_iff]; intro h
          simp only [Bool.and_eq_true, decide_eq_true_eq, gt_iff_lt] at h
          exact hc h
        simp only [hc, hc', Bool.false_eq_true, if_false]
        have := hfin net5.hscale
        rw [← hR5.scale] at this ⊢
        exact this

/-! ### what gonum sees: `Weight`, `costHeuristic`, `Edge` -/

theorem optNum_time_ne : (optNum Opt.distance : α) ≠ 1 := by simp [optNum]

/-- `Weight(xid, yid)`: `(w, true)` exactly when the model's `weightOf` is `some w`, `(+Inf, false)` otherwise; never a fault -/
theorem tie_Weight (C : Ctx α) (g : Network α) (net : Net α) (hR : Rep geoOf g net) (x y : Nat) :
    network_Weight C g x y = .ok (match weightOf net x y with | some w => (w, true) | none => (C.inf, false)) := by
  unfold network_Weight weightOf
  by_cases hxy : x = y
  · simp [hxy, bind, Except.bind, pure, Except.pure]
  · have hd : decide (x = y) = false := by simpa using hxy
    simp only [hxy, hd, Bool.false_eq_true, if_false, bind, Except.bind, pure, Except.pure]
    have hnb := hR.nb x y
    unfold NbRel at hnb
    unfold mapGetOk mapGet?
    cases hm : neighbor net x y with
    | none =>
      cases hl : lookup y (mapGetD g.neighbors x []) with
      | none => simp
      | some v => rw [hm, hl] at hnb; cases v <;> simp at hnb
    | some me =>
      cases hl : lookup y (mapGetD g.neighbors x []) with
      | none => rw [hm, hl] at hnb; simp at hnb
      | some v =>
        cases v with
        | none => rw [hm, hl] at hnb; simp at hnb
        | some ge =>
          rw [hm, hl] at hnb
          simp only at hnb
          obtain ⟨hlen, _, htime, _, _, _⟩ := hnb
          simp only [if_true, Go.deref, pure, Except.pure, hR.opt]
          cases ho : net.opt with
          | time => simp [optNum, htime]
          | distance => simp [optNum, hlen]

/-- `costHeuristic(x, y)` on two stored nodes: the scaled straight-line distance (divided by the maximum speed under Time) -/
theorem tie_costHeuristic (C : Ctx α) (g : Network α) (net : Net α) (hR : Rep geoOf g net) (n1 n2 : MNode α) :
    network_costHeuristic C g (some n1) (some n2) = .ok (match net.opt with
      | .time => C.geo.euclid n1.p n2.p * net.hscale / net.maxSpeed
      | .distance => C.geo.euclid n1.p n2.p * net.hscale) := by
  unfold network_costHeuristic
  simp only [Go.assert, Go.deref, bind, Except.bind, pure, Except.pure, hR.opt, hR.scale, hR.speed]
  cases net.opt <;> simp [optNum]

/-! ### every AddLink history -/

/-- a sequence of `AddLink` calls on the regenerated code -/
def genBuild (C : Ctx α) : Network α → List (Link α) → M (Network α)
  | g, [] => pure g
  | g, l :: ls => do
    let g' ← network_AddLink C g l.pts l.speed
    genBuild C g' ls

theorem addLink_maxID_le (geo : Geo α) (net net' : Net α) (i : Nat) (l : Link α) (h : addLink geo net i l = .ok net') :
    net'.maxID ≤ net.maxID + 2 := by
  unfold addLink at h
  split at h
  · rename_i p0 pn _ _
    have b1 := (newNode_maxID_le geo net p0).1
    rcases hn1 : newNode geo net p0 with ⟨a, net1⟩
    rw [hn1] at b1 h
    simp only at h b1
    have b2 := (newNode_maxID_le geo net1 pn).1
    rcases hn2 : newNode geo net1 pn with ⟨b, net2⟩
    rw [hn2] at b2 h
    simp only at h b2
    split at h
    · cases h
    · simp only [Except.ok.injEq] at h
      subst h
      simp only [addNode]
      split <;> split <;> split <;> simp <;> omega
  · cases h

/-- **every history**: the network built by the regenerated `NewNetwork` + `AddLink` calls is related to the model's
`build` (same outcome for every link sequence the model accepts), as long as node ids stay below `maxInt = 2^63-1` -/
theorem tie_buildFrom (C : Ctx α) (hnil : ∀ p, C.geo.nearest [] p = none) :
    ∀ (ls : List (Link α)) (g : Network α) (net : Net α) (i : Nat), Rep geoOf g net → net.maxID + 2 * ls.length ≤ Go.maxInt →
    (∀ j (h : j < ls.length), geoOf (i + j) = ls[j].pts) →
    ∀ net', buildFrom C.geo net i ls = .ok net' → ∃ g', genBuild C g ls = .ok g' ∧ Rep geoOf g' net' := by
  intro ls
  induction ls with
  | nil =>
    intro g net i hR _ _ net' h
    simp only [buildFrom, Except.ok.injEq] at h
    subst h
    exact ⟨g, rfl, hR⟩
  | cons l ls ih =>
    intro g net i hR hmax hgeo net' h
    simp only [buildFrom] at h
    have t := tie_AddLink C g net hR (by simp only [List.length_cons] at hmax; omega) hnil i l
      (by have := hgeo 0 (by simp); simpa using this)
    cases ha : addLink C.geo net i l with
    | error e => rw [ha] at h; cases h
    | ok net1 =>
      rw [ha] at h t
      simp only at h t
      obtain ⟨g1, e1, hR1⟩ := t
      have hb := addLink_maxID_le C.geo net net1 i l ha
      obtain ⟨g', e', hR'⟩ := ih g1 net1 (i + 1) hR1 (by simp only [List.length_cons] at hmax; omega)
        (fun j hj => by
          have := hgeo (j + 1) (by simp only [List.length_cons]; omega)
          simp only [List.getElem_cons_succ] at this
          rw [← this]; congr 1; omega) net' h
      refine ⟨g', ?_, hR'⟩
      simp only [genBuild, bind, Except.bind, e1]
      exact e'

theorem tie_build (C : Ctx α) (hnil : ∀ p, C.geo.nearest [] p = none) (o : Opt) (ls : List (Link α))
    (hmax : 2 * ls.length ≤ Go.maxInt) (hgeo : ∀ j (h : j < ls.length), geoOf j = ls[j].pts)
    (net' : Net α) (h : build C.geo o ls = .ok net') :
    ∃ g0 g', network_NewNetwork C (optNum o) = .ok g0 ∧ genBuild C g0 ls = .ok g' ∧ Rep geoOf g' net' := by
  obtain ⟨g0, e0, hR0⟩ := tie_NewNetwork (geoOf := geoOf) C o
  obtain ⟨g', e', hR'⟩ := tie_buildFrom C hnil ls g0 (newNetwork o) 0 hR0 (by simp [newNetwork]; exact hmax)
    (fun j hj => by rw [Nat.zero_add]; exact hgeo j hj) net' h
  exact ⟨g0, g', e0, e', hR'⟩

end GeomV.C19.Ties
