import GeomV.C19.Net
/-
C19: every network built by a sequence of `AddLink` calls is well formed (`WF`) — the "all
histories" part: ids are `1 … |nodes|`, every stored link joins two distinct stored nodes, has
non-negative length and time, positive speed at most the tracked maximum speed, `time = length/speed`.
-/
set_option linter.unusedVariables false
set_option linter.unusedSimpArgs false
set_option linter.unusedSectionVars false
namespace GeomV.C19

variable {α : Type} [Field α] [LinearOrder α] [IsStrictOrderedRing α]

/-- contracts of the geometric primitives used by `AddLink` -/
structure GeoContract (geo : Geo α) : Prop where
  nearestMem : ∀ l p x, geo.nearest l p = some x → x ∈ l
  lengthNonneg : ∀ pts, 0 ≤ geo.length pts
  euclidNonneg : ∀ p q, 0 ≤ geo.euclid p q
  euclidSymm : ∀ p q, geo.euclid p q = geo.euclid q p

/-- invariant of `AddLink` histories -/
structure BInv (geo : Geo α) (net : Net α) : Prop where
  maxid : net.maxID = net.nodes.length
  idle : ∀ m ∈ net.nodes, 1 ≤ m.id ∧ m.id ≤ net.maxID
  nonneg : ∀ e ∈ net.edges, 0 ≤ e.length ∧ 0 ≤ e.time
  noself : ∀ e ∈ net.edges, e.a ≠ e.b
  ends : ∀ e ∈ net.edges, hasNode net e.a = true ∧ hasNode net e.b = true
  speed : ∀ e ∈ net.edges, 0 < e.speed ∧ e.speed ≤ net.maxSpeed ∧ e.time = e.length / e.speed
  nodup : (net.nodes.map (·.id)).Nodup
  scale : 0 ≤ net.hscale ∧ net.hscale ≤ 1
  /-- the scaled distance between a link's end NODES never exceeds the link's length -/
  chord : ∀ e ∈ net.edges, ∀ pa pb, nodePos net e.a = some pa → nodePos net e.b = some pb →
    net.hscale * geo.euclid pa pb ≤ e.length

theorem BInv.wf {geo : Geo α} {net : Net α} (h : BInv geo net) : WF net :=
  ⟨h.nonneg, h.noself, h.ends, fun m hm => by have := h.idle m hm; have := h.maxid; omega⟩

theorem newNode_spec (geo : Geo α) (hc : GeoContract geo) (net : Net α) (p : Pt α) (m : MNode α) (net' : Net α)
    (h : newNode geo net p = (m, net')) :
    net'.nodes = net.nodes ∧ net'.edges = net.edges ∧ (net'.maxSpeed = net.maxSpeed ∧ net'.hscale = net.hscale) ∧
    ((m ∈ net.nodes ∧ net'.maxID = net.maxID) ∨ (m.id = net.maxID + 1 ∧ net'.maxID = net.maxID + 1)) := by
  unfold newNode at h
  cases hn : geo.nearest net.nodes p with
  | none =>
    simp only [hn, Prod.mk.injEq] at h
    obtain ⟨rfl, rfl⟩ := h
    exact ⟨rfl, rfl, ⟨rfl, rfl⟩, Or.inr ⟨rfl, rfl⟩⟩
  | some x =>
    simp only [hn] at h
    split_ifs at h with he
    · simp only [Prod.mk.injEq] at h
      obtain ⟨rfl, rfl⟩ := h
      exact ⟨rfl, rfl, ⟨rfl, rfl⟩, Or.inl ⟨hc.nearestMem _ _ _ hn, rfl⟩⟩
    · simp only [Prod.mk.injEq] at h
      obtain ⟨rfl, rfl⟩ := h
      exact ⟨rfl, rfl, ⟨rfl, rfl⟩, Or.inr ⟨rfl, rfl⟩⟩

/-- the node list after `addNode from; addNode to` -/
def nodes2 (l : List (MNode α)) (a b : MNode α) : List (MNode α) :=
  if ((if (l.any fun n => n.id == a.id) then l else l ++ [a]).any fun n => n.id == b.id)
  then (if (l.any fun n => n.id == a.id) then l else l ++ [a])
  else (if (l.any fun n => n.id == a.id) then l else l ++ [a]) ++ [b]

theorem nodes2_spec (l : List (MNode α)) (a b : MNode α) (K M1 M2 : Nat)
    (hK : K = l.length) (hid : ∀ m ∈ l, 1 ≤ m.id ∧ m.id ≤ K) (hab : a.id ≠ b.id)
    (hF : (a ∈ l ∧ M1 = K) ∨ (a.id = K + 1 ∧ M1 = K + 1))
    (hT : (b ∈ l ∧ M2 = M1) ∨ (b.id = M1 + 1 ∧ M2 = M1 + 1)) :
    M2 = (nodes2 l a b).length ∧ (∀ m ∈ nodes2 l a b, 1 ≤ m.id ∧ m.id ≤ M2) ∧
    (∃ m ∈ nodes2 l a b, m.id = a.id) ∧ (∃ m ∈ nodes2 l a b, m.id = b.id) ∧ (∀ m ∈ l, m ∈ nodes2 l a b) := by
  have anyiff : ∀ (l' : List (MNode α)) (i : Nat), (l'.any fun n => n.id == i) = true ↔ ∃ m ∈ l', m.id = i := by
    intro l' i; simp
  have notin : ∀ i, K < i → ¬ ∃ m ∈ l, m.id = i := by
    rintro i hi ⟨m, hm, rfl⟩
    have := hid m hm; omega
  rcases hF with ⟨ha, rfl⟩ | ⟨ha, rfl⟩
  · have h1 : (l.any fun n => n.id == a.id) = true := (anyiff l a.id).2 ⟨a, ha, rfl⟩
    rcases hT with ⟨hb, rfl⟩ | ⟨hb, rfl⟩
    · have h2 : (l.any fun n => n.id == b.id) = true := (anyiff l b.id).2 ⟨b, hb, rfl⟩
      have hn : nodes2 l a b = l := by unfold nodes2; rw [if_pos h1, if_pos h2]
      rw [hn]
      exact ⟨hK, hid, ⟨a, ha, rfl⟩, ⟨b, hb, rfl⟩, fun m hm => hm⟩
    · have h2 : ¬ (l.any fun n => n.id == b.id) = true := by
        rw [anyiff]; exact notin _ (by omega)
      have hn : nodes2 l a b = l ++ [b] := by unfold nodes2; rw [if_pos h1, if_neg h2]
      rw [hn]
      refine ⟨by simp [hK], ?_, ⟨a, by simp [ha], rfl⟩, ⟨b, by simp, rfl⟩, fun m hm => by simp [hm]⟩
      intro m hm
      rcases List.mem_append.1 hm with h | h
      · have := hid m h; omega
      · simp at h; subst h; omega
  · have h1 : ¬ (l.any fun n => n.id == a.id) = true := by
      rw [anyiff]; exact notin _ (by omega)
    rcases hT with ⟨hb, rfl⟩ | ⟨hb, rfl⟩
    · have h2 : ((l ++ [a]).any fun n => n.id == b.id) = true :=
        (anyiff _ b.id).2 ⟨b, by simp [hb], rfl⟩
      have hn : nodes2 l a b = l ++ [a] := by unfold nodes2; rw [if_neg h1, if_pos h2]
      rw [hn]
      refine ⟨by simp [hK], ?_, ⟨a, by simp, rfl⟩, ⟨b, by simp [hb], rfl⟩, fun m hm => by simp [hm]⟩
      intro m hm
      rcases List.mem_append.1 hm with h | h
      · have := hid m h; omega
      · simp at h; subst h; omega
    · have h2 : ¬ ((l ++ [a]).any fun n => n.id == b.id) = true := by
        rw [anyiff]
        rintro ⟨m, hm, hmid⟩
        rcases List.mem_append.1 hm with h | h
        · have := hid m h; omega
        · simp at h; subst h; exact hab hmid
      have hn : nodes2 l a b = (l ++ [a]) ++ [b] := by unfold nodes2; rw [if_neg h1, if_neg h2]
      rw [hn]
      refine ⟨by simp [hK], ?_, ⟨a, by simp, rfl⟩, ⟨b, by simp, rfl⟩, fun m hm => by simp [hm]⟩
      intro m hm
      simp only [List.mem_append, List.mem_singleton] at hm
      rcases hm with (h | h) | h
      · have := hid m h; omega
      · subst h; omega
      · subst h; omega

theorem find_id_of_mem (l : List (MNode α)) (hnd : (l.map (·.id)).Nodup) (m : MNode α) (hm : m ∈ l) :
    l.find? (fun n => n.id == m.id) = some m := by
  induction l with
  | nil => cases hm
  | cons x l ih =>
    simp only [List.map_cons, List.nodup_cons] at hnd
    rcases List.mem_cons.1 hm with rfl | h
    · simp
    · have hx : x.id ≠ m.id := by
        intro e; exact hnd.1 (e ▸ List.mem_map.2 ⟨m, h, rfl⟩)
      have hx' : (x.id == m.id) = false := by simpa using hx
      simp [List.find?, hx', ih hnd.2 h]

theorem addNode_hscale (net : Net α) (n : MNode α) : (addNode net n).hscale = net.hscale := by
  unfold addNode; split_ifs <;> rfl

/-- node ids are unique, so the position stored under a node's id is that node's position -/
theorem nodePos_of_mem (net : Net α) (hnd : (net.nodes.map (·.id)).Nodup) (m : MNode α) (hm : m ∈ net.nodes) :
    nodePos net m.id = some m.p := by
  simp [nodePos, find_id_of_mem net.nodes hnd m hm]

/-- `nodes2` keeps ids unique and contains both end nodes themselves -/
theorem nodes2_nodup (l : List (MNode α)) (a b : MNode α) (K M1 : Nat)
    (hid : ∀ m ∈ l, 1 ≤ m.id ∧ m.id ≤ K) (hab : a.id ≠ b.id) (hnd : (l.map (·.id)).Nodup)
    (hF : (a ∈ l ∧ M1 = K) ∨ (a.id = K + 1 ∧ M1 = K + 1))
    (hT : b ∈ l ∨ b.id = M1 + 1) :
    ((nodes2 l a b).map (·.id)).Nodup ∧ a ∈ nodes2 l a b ∧ b ∈ nodes2 l a b := by
  have anyiff : ∀ (l' : List (MNode α)) (i : Nat), (l'.any fun n => n.id == i) = true ↔ ∃ m ∈ l', m.id = i := by
    intro l' i; simp
  have notin : ∀ i, K < i → ¬ ∃ m ∈ l, m.id = i := by
    rintro i hi ⟨m, hm, rfl⟩
    have := hid m hm; omega
  have notin' : ∀ i, K < i → i ∉ l.map (·.id) := by
    intro i hi hmem
    obtain ⟨m, hm, hmi⟩ := List.mem_map.1 hmem
    exact notin _ hi ⟨m, hm, hmi⟩
  rcases hF with ⟨ha, rfl⟩ | ⟨ha, rfl⟩
  · have h1 : (l.any fun n => n.id == a.id) = true := (anyiff l a.id).2 ⟨a, ha, rfl⟩
    rcases hT with hb | hb
    · have h2 : (l.any fun n => n.id == b.id) = true := (anyiff l b.id).2 ⟨b, hb, rfl⟩
      have hn : nodes2 l a b = l := by unfold nodes2; rw [if_pos h1, if_pos h2]
      rw [hn]; exact ⟨hnd, ha, hb⟩
    · have h2 : ¬ (l.any fun n => n.id == b.id) = true := by
        rw [anyiff]; exact notin _ (by omega)
      have hn : nodes2 l a b = l ++ [b] := by unfold nodes2; rw [if_pos h1, if_neg h2]
      rw [hn]
      refine ⟨?_, by simp [ha], by simp⟩
      rw [List.map_append, List.nodup_append]
      refine ⟨hnd, by simp, ?_⟩
      intro x hx y hy
      simp at hy; subst hy
      intro e; subst e; exact notin' _ (by omega) hx
  · have h1 : ¬ (l.any fun n => n.id == a.id) = true := by
      rw [anyiff]; exact notin _ (by omega)
    have hnda : ((l ++ [a]).map (·.id)).Nodup := by
      rw [List.map_append, List.nodup_append]
      refine ⟨hnd, by simp, ?_⟩
      intro x hx y hy
      simp at hy; subst hy
      intro e; subst e; exact notin' _ (by omega) hx
    rcases hT with hb | hb
    · have h2 : ((l ++ [a]).any fun n => n.id == b.id) = true :=
        (anyiff _ b.id).2 ⟨b, by simp [hb], rfl⟩
      have hn : nodes2 l a b = l ++ [a] := by unfold nodes2; rw [if_neg h1, if_pos h2]
      rw [hn]; exact ⟨hnda, by simp, by simp [hb]⟩
    · have h2 : ¬ ((l ++ [a]).any fun n => n.id == b.id) = true := by
        rw [anyiff]
        rintro ⟨m, hm, hmid⟩
        rcases List.mem_append.1 hm with h | h
        · have := hid m h; omega
        · simp at h; subst h; exact hab hmid
      have hn : nodes2 l a b = (l ++ [a]) ++ [b] := by unfold nodes2; rw [if_neg h1, if_neg h2]
      rw [hn]
      refine ⟨?_, by simp, by simp⟩
      rw [List.map_append, List.nodup_append]
      refine ⟨hnda, by simp, ?_⟩
      intro x hx y hy
      simp at hy; subst hy
      intro e; subst e
      rw [List.map_append, List.mem_append] at hx
      rcases hx with hx | hx
      · exact notin' _ (by omega) hx
      · simp at hx; omega

theorem addLink_inv (geo : Geo α) (hc : GeoContract geo) (net net' : Net α) (i : Nat) (l : Link α)
    (hI : BInv geo net) (hsp : 0 < l.speed) (h : addLink geo net i l = .ok net') : BInv geo net' := by
  unfold addLink at h
  cases hh : l.pts.head? with
  | none => simp [hh] at h
  | some p0 =>
    cases hl : l.pts.getLast? with
    | none => simp [hh, hl] at h
    | some pn =>
      simp only [hh, hl] at h
      rcases hn1 : newNode geo net p0 with ⟨a, net1⟩
      rcases hn2 : newNode geo net1 pn with ⟨b, net2⟩
      simp only [hn1, hn2] at h
      obtain ⟨e1, e2, ⟨e3, e4⟩, hF⟩ := newNode_spec geo hc net p0 a net1 hn1
      obtain ⟨f1, f2, ⟨f3, f4⟩, hT⟩ := newNode_spec geo hc net1 pn b net2 hn2
      by_cases hab : a.id = b.id
      · simp [hab] at h
      · simp only [if_neg hab] at h
        have hlen := hc.lengthNonneg l.pts
        have htime : 0 ≤ geo.length l.pts / l.speed := div_nonneg hlen (le_of_lt hsp)
        -- the node list of the result
        have hT' : (b ∈ net.nodes ∧ net2.maxID = net1.maxID) ∨ (b.id = net1.maxID + 1 ∧ net2.maxID = net1.maxID + 1) := by
          rw [f1, e1] at *; exact hT
        have key := nodes2_spec net.nodes a b net.maxID net1.maxID net2.maxID hI.maxid hI.idle hab hF hT'
        obtain ⟨k1, k2, k3, k4, k5⟩ := key
        obtain ⟨n1, n2, n3⟩ := nodes2_nodup net.nodes a b net.maxID net1.maxID hI.idle hab hI.nodup hF
          (by rcases hT' with h | h; exact Or.inl h.1; exact Or.inr h.1)
        -- maximum speed of the result
        set ms : α := if net2.maxSpeed < l.speed then l.speed else net2.maxSpeed with hms
        have hms1 : l.speed ≤ ms := by
          rw [hms]; split_ifs with hx
          · exact le_refl _
          · exact not_lt.1 hx
        have hms2 : net.maxSpeed ≤ ms := by
          rw [hms, f3, e3]; split_ifs with hx
          · exact le_of_lt hx
          · exact le_refl _
        -- heuristic scale of the result
        set hs : α := if 0 < geo.euclid a.p b.p ∧ geo.length l.pts / geo.euclid a.p b.p < net.hscale
          then geo.length l.pts / geo.euclid a.p b.p else net.hscale with hhs
        have hnodes : net'.nodes = nodes2 net.nodes a b ∧ net'.maxID = net2.maxID ∧ net'.maxSpeed = ms ∧
            net'.edges = net.edges ++ [⟨i, a.id, b.id, geo.length l.pts, l.speed, geo.length l.pts / l.speed⟩] := by
          simp only [Except.ok.injEq] at h
          subst h
          simp only [addNode, hasNode, nodes2, hms]
          split_ifs <;> simp_all
        obtain ⟨g1, g2, g3, g4⟩ := hnodes
        have g5 : net'.hscale = hs := by
          simp only [Except.ok.injEq] at h
          subst h
          simp only [addNode_hscale, hhs]
          split_ifs <;> simp_all
        have hasN : ∀ j, (∃ m ∈ nodes2 net.nodes a b, m.id = j) → hasNode net' j = true := by
          intro j hj; rw [hasNode_iff, g1]; exact hj
        have hnd' : (net'.nodes.map (·.id)).Nodup := by rw [g1]; exact n1
        have hd0 := hc.euclidNonneg a.p b.p
        have hs_le : hs ≤ net.hscale := by
          rw [hhs]; split_ifs with hx
          · exact le_of_lt hx.2
          · exact le_refl _
        have hs0 : 0 ≤ hs := by
          rw [hhs]; split_ifs with hx
          · exact div_nonneg hlen (le_of_lt hx.1)
          · exact hI.scale.1
        have hs_new : hs * geo.euclid a.p b.p ≤ geo.length l.pts := by
          rw [hhs]; split_ifs with hx
          · rw [div_mul_cancel₀ _ (ne_of_gt hx.1)]
          · by_cases hpos : 0 < geo.euclid a.p b.p
            · have : ¬ geo.length l.pts / geo.euclid a.p b.p < net.hscale := fun hlt => hx ⟨hpos, hlt⟩
              have := not_lt.1 this
              rwa [le_div_iff₀ hpos] at this
            · have h0 : geo.euclid a.p b.p = 0 := le_antisymm (not_lt.1 hpos) hd0
              rw [h0]; simpa using hlen
        refine ⟨by rw [g2, g1]; exact k1, by rw [g1, g2]; exact k2, ?_, ?_, ?_, ?_, hnd', ?_, ?_⟩
        · intro e he
          rw [g4] at he
          rcases List.mem_append.1 he with h' | h'
          · exact hI.nonneg e h'
          · simp at h'; subst h'; exact ⟨hlen, htime⟩
        · intro e he
          rw [g4] at he
          rcases List.mem_append.1 he with h' | h'
          · exact hI.noself e h'
          · simp at h'; subst h'; exact hab
        · intro e he
          rw [g4] at he
          rcases List.mem_append.1 he with h' | h'
          · obtain ⟨x1, x2⟩ := hI.ends e h'
            obtain ⟨m1, hm1, hid1⟩ := (hasNode_iff net e.a).1 x1
            obtain ⟨m2, hm2, hid2⟩ := (hasNode_iff net e.b).1 x2
            exact ⟨hasN _ ⟨m1, k5 m1 hm1, hid1⟩, hasN _ ⟨m2, k5 m2 hm2, hid2⟩⟩
          · simp at h'; subst h'; exact ⟨hasN _ k3, hasN _ k4⟩
        · intro e he
          rw [g4] at he
          rcases List.mem_append.1 he with h' | h'
          · obtain ⟨x1, x2, x3⟩ := hI.speed e h'
            exact ⟨x1, by rw [g3]; exact le_trans x2 hms2, x3⟩
          · simp at h'; subst h'; exact ⟨hsp, by rw [g3]; exact hms1, rfl⟩
        · rw [g5]; exact ⟨hs0, le_trans hs_le hI.scale.2⟩
        · intro e he pa pb hpa hpb
          rw [g5]
          rw [g4] at he
          rcases List.mem_append.1 he with h' | h'
          · -- an older link: its end nodes and their positions are unchanged
            obtain ⟨x1, x2⟩ := hI.ends e h'
            obtain ⟨m1, hm1, hid1⟩ := (hasNode_iff net e.a).1 x1
            obtain ⟨m2, hm2, hid2⟩ := (hasNode_iff net e.b).1 x2
            have q1 := nodePos_of_mem net' hnd' m1 (by rw [g1]; exact k5 m1 hm1)
            have q2 := nodePos_of_mem net' hnd' m2 (by rw [g1]; exact k5 m2 hm2)
            rw [hid1, hpa] at q1; rw [hid2, hpb] at q2
            have r1 := nodePos_of_mem net hI.nodup m1 hm1
            have r2 := nodePos_of_mem net hI.nodup m2 hm2
            rw [hid1] at r1; rw [hid2] at r2
            cases q1; cases q2
            have := hI.chord e h' _ _ r1 r2
            exact le_trans (mul_le_mul_of_nonneg_right hs_le (hc.euclidNonneg _ _)) this
          · simp at h'; subst h'
            have q1 := nodePos_of_mem net' hnd' a (by rw [g1]; exact n2)
            have q2 := nodePos_of_mem net' hnd' b (by rw [g1]; exact n3)
            simp only [] at hpa hpb
            rw [hpa] at q1; rw [hpb] at q2
            cases q1; cases q2
            exact hs_new

theorem buildFrom_inv (geo : Geo α) (hc : GeoContract geo) (ls : List (Link α)) (net net' : Net α) (i : Nat)
    (hI : BInv geo net) (hsp : ∀ l ∈ ls, 0 < l.speed) (h : buildFrom geo net i ls = .ok net') : BInv geo net' := by
  induction ls generalizing net i with
  | nil => simp [buildFrom] at h; subst h; exact hI
  | cons l ls ih =>
    simp only [buildFrom] at h
    cases ha : addLink geo net i l with
    | error e => simp [ha] at h
    | ok net1 =>
      simp only [ha] at h
      exact ih net1 (i + 1) (addLink_inv geo hc net net1 i l hI (hsp l (by simp)) ha)
        (fun x hx => hsp x (List.mem_cons_of_mem _ hx)) h

end GeomV.C19
