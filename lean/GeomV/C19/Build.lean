import GeomV.C19.Net
/-
C19: every network built by a sequence of `AddLink` calls is well formed (`WF`) — the "all
histories" part: ids are `1 … |nodes|`, every stored link joins two distinct stored nodes, has
non-negative length and time, positive speed at most the tracked maximum speed, `time = length/speed`.
-/
set_option linter.unusedVariables false
set_option linter.unusedSimpArgs false
set_option linter.unusedSectionVars false
namespace GeomV.C19

variable {α : Type} [Field α] [LinearOrder α] [IsStrictOrderedRing α]

/-- contracts of the geometric primitives used by `AddLink` -/
structure GeoContract (geo : Geo α) : Prop where
  nearestMem : ∀ l p x, geo.nearest l p = some x → x ∈ l
  lengthNonneg : ∀ pts, 0 ≤ geo.length pts

/-- invariant of `AddLink` histories -/
structure BInv (net : Net α) : Prop where
  maxid : net.maxID = net.nodes.length
  idle : ∀ m ∈ net.nodes, 1 ≤ m.id ∧ m.id ≤ net.maxID
  nonneg : ∀ e ∈ net.edges, 0 ≤ e.length ∧ 0 ≤ e.time
  noself : ∀ e ∈ net.edges, e.a ≠ e.b
  ends : ∀ e ∈ net.edges, hasNode net e.a = true ∧ hasNode net e.b = true
  speed : ∀ e ∈ net.edges, 0 < e.speed ∧ e.speed ≤ net.maxSpeed ∧ e.time = e.length / e.speed

theorem BInv.wf {net : Net α} (h : BInv net) : WF net :=
  ⟨h.nonneg, h.noself, h.ends, fun m hm => by have := h.idle m hm; have := h.maxid; omega⟩

theorem newNode_spec (geo : Geo α) (hc : GeoContract geo) (net : Net α) (p : Pt α) (m : MNode α) (net' : Net α)
    (h : newNode geo net p = (m, net')) :
    net'.nodes = net.nodes ∧ net'.edges = net.edges ∧ net'.maxSpeed = net.maxSpeed ∧
    ((m ∈ net.nodes ∧ net'.maxID = net.maxID) ∨ (m.id = net.maxID + 1 ∧ net'.maxID = net.maxID + 1)) := by
  unfold newNode at h
  cases hn : geo.nearest net.nodes p with
  | none =>
    simp only [hn, Prod.mk.injEq] at h
    obtain ⟨rfl, rfl⟩ := h
    exact ⟨rfl, rfl, rfl, Or.inr ⟨rfl, rfl⟩⟩
  | some x =>
    simp only [hn] at h
    split_ifs at h with he
    · simp only [Prod.mk.injEq] at h
      obtain ⟨rfl, rfl⟩ := h
      exact ⟨rfl, rfl, rfl, Or.inl ⟨hc.nearestMem _ _ _ hn, rfl⟩⟩
    · simp only [Prod.mk.injEq] at h
      obtain ⟨rfl, rfl⟩ := h
      exact ⟨rfl, rfl, rfl, Or.inr ⟨rfl, rfl⟩⟩

/-- the node list after `addNode from; addNode to` -/
def nodes2 (l : List (MNode α)) (a b : MNode α) : List (MNode α) :=
  if ((if (l.any fun n => n.id == a.id) then l else l ++ [a]).any fun n => n.id == b.id)
  then (if (l.any fun n => n.id == a.id) then l else l ++ [a])
  else (if (l.any fun n => n.id == a.id) then l else l ++ [a]) ++ [b]

theorem nodes2_spec (l : List (MNode α)) (a b : MNode α) (K M1 M2 : Nat)
    (hK : K = l.length) (hid : ∀ m ∈ l, 1 ≤ m.id ∧ m.id ≤ K) (hab : a.id ≠ b.id)
    (hF : (a ∈ l ∧ M1 = K) ∨ (a.id = K + 1 ∧ M1 = K + 1))
    (hT : (b ∈ l ∧ M2 = M1) ∨ (b.id = M1 + 1 ∧ M2 = M1 + 1)) :
    M2 = (nodes2 l a b).length ∧ (∀ m ∈ nodes2 l a b, 1 ≤ m.id ∧ m.id ≤ M2) ∧
    (∃ m ∈ nodes2 l a b, m.id = a.id) ∧ (∃ m ∈ nodes2 l a b, m.id = b.id) ∧ (∀ m ∈ l, m ∈ nodes2 l a b) := by
  have anyiff : ∀ (l' : List (MNode α)) (i : Nat), (l'.any fun n => n.id == i) = true ↔ ∃ m ∈ l', m.id = i := by
    intro l' i; simp
  have notin : ∀ i, K < i → ¬ ∃ m ∈ l, m.id = i := by
    rintro i hi ⟨m, hm, rfl⟩
    have := hid m hm; omega
  rcases hF with ⟨ha, rfl⟩ | ⟨ha, rfl⟩
  · have h1 : (l.any fun n => n.id == a.id) = true := (anyiff l a.id).2 ⟨a, ha, rfl⟩
    rcases hT with ⟨hb, rfl⟩ | ⟨hb, rfl⟩
    · have h2 : (l.any fun n => n.id == b.id) = true := (anyiff l b.id).2 ⟨b, hb, rfl⟩
      have hn : nodes2 l a b = l := by unfold nodes2; rw [if_pos h1, if_pos h2]
      rw [hn]
      exact ⟨hK, hid, ⟨a, ha, rfl⟩, ⟨b, hb, rfl⟩, fun m hm => hm⟩
    · have h2 : ¬ (l.any fun n => n.id == b.id) = true := by
        rw [anyiff]; exact notin _ (by omega)
      have hn : nodes2 l a b = l ++ [b] := by unfold nodes2; rw [if_pos h1, if_neg h2]
      rw [hn]
      refine ⟨by simp [hK], ?_, ⟨a, by simp [ha], rfl⟩, ⟨b, by simp, rfl⟩, fun m hm => by simp [hm]⟩
      intro m hm
      rcases List.mem_append.1 hm with h | h
      · have := hid m h; omega
      · simp at h; subst h; omega
  · have h1 : ¬ (l.any fun n => n.id == a.id) = true := by
      rw [anyiff]; exact notin _ (by omega)
    rcases hT with ⟨hb, rfl⟩ | ⟨hb, rfl⟩
    · have h2 : ((l ++ [a]).any fun n => n.id == b.id) = true :=
        (anyiff _ b.id).2 ⟨b, by simp [hb], rfl⟩
      have hn : nodes2 l a b = l ++ [a] := by unfold nodes2; rw [if_neg h1, if_pos h2]
      rw [hn]
      refine ⟨by simp [hK], ?_, ⟨a, by simp, rfl⟩, ⟨b, by simp [hb], rfl⟩, fun m hm => by simp [hm]⟩
      intro m hm
      rcases List.mem_append.1 hm with h | h
      · have := hid m h; omega
      · simp at h; subst h; omega
    · have h2 : ¬ ((l ++ [a]).any fun n => n.id == b.id) = true := by
        rw [anyiff]
        rintro ⟨m, hm, hmid⟩
        rcases List.mem_append.1 hm with h | h
        · have := hid m h; omega
        · simp at h; subst h; exact hab hmid
      have hn : nodes2 l a b = (l ++ [a]) ++ [b] := by unfold nodes2; rw [if_neg h1, if_neg h2]
      rw [hn]
      refine ⟨by simp [hK], ?_, ⟨a, by simp, rfl⟩, ⟨b, by simp, rfl⟩, fun m hm => by simp [hm]⟩
      intro m hm
      simp only [List.mem_append, List.mem_singleton] at hm
      rcases hm with (h | h) | h
      · have := hid m h; omega
      · subst h; omega
      · subst h; omega

theorem addLink_inv (geo : Geo α) (hc : GeoContract geo) (net net' : Net α) (i : Nat) (l : Link α)
    (hI : BInv net) (hsp : 0 < l.speed) (h : addLink geo net i l = .ok net') : BInv net' := by
  unfold addLink at h
  cases hh : l.pts.head? with
  | none => simp [hh] at h
  | some p0 =>
    cases hl : l.pts.getLast? with
    | none => simp [hh, hl] at h
    | some pn =>
      simp only [hh, hl] at h
      rcases hn1 : newNode geo net p0 with ⟨a, net1⟩
      rcases hn2 : newNode geo net1 pn with ⟨b, net2⟩
      simp only [hn1, hn2] at h
      obtain ⟨e1, e2, e3, hF⟩ := newNode_spec geo hc net p0 a net1 hn1
      obtain ⟨f1, f2, f3, hT⟩ := newNode_spec geo hc net1 pn b net2 hn2
      by_cases hab : a.id = b.id
      · simp [hab] at h
      · simp only [if_neg hab] at h
        have hlen := hc.lengthNonneg l.pts
        have htime : 0 ≤ geo.length l.pts / l.speed := div_nonneg hlen (le_of_lt hsp)
        -- the node list of the result
        have key := nodes2_spec net.nodes a b net.maxID net1.maxID net2.maxID hI.maxid hI.idle hab hF
          (by rw [f1, e1] at *; exact hT)
        obtain ⟨k1, k2, k3, k4, k5⟩ := key
        -- maximum speed of the result
        set ms : α := if net2.maxSpeed < l.speed then l.speed else net2.maxSpeed with hms
        have hms1 : l.speed ≤ ms := by
          rw [hms]; split_ifs with hx
          · exact le_refl _
          · exact not_lt.1 hx
        have hms2 : net.maxSpeed ≤ ms := by
          rw [hms, f3, e3]; split_ifs with hx
          · exact le_of_lt hx
          · exact le_refl _
        have hnodes : net'.nodes = nodes2 net.nodes a b ∧ net'.maxID = net2.maxID ∧ net'.maxSpeed = ms ∧
            net'.edges = net.edges ++ [⟨i, a.id, b.id, geo.length l.pts, l.speed, geo.length l.pts / l.speed⟩] := by
          simp only [Except.ok.injEq] at h
          subst h
          simp only [addNode, hasNode, nodes2, hms]
          split_ifs <;> simp_all
        obtain ⟨g1, g2, g3, g4⟩ := hnodes
        have hasN : ∀ j, (∃ m ∈ nodes2 net.nodes a b, m.id = j) → hasNode net' j = true := by
          intro j hj; rw [hasNode_iff, g1]; exact hj
        refine ⟨by rw [g2, g1]; exact k1, by rw [g1, g2]; exact k2, ?_, ?_, ?_, ?_⟩
        · intro e he
          rw [g4] at he
          rcases List.mem_append.1 he with h' | h'
          · exact hI.nonneg e h'
          · simp at h'; subst h'; exact ⟨hlen, htime⟩
        · intro e he
          rw [g4] at he
          rcases List.mem_append.1 he with h' | h'
          · exact hI.noself e h'
          · simp at h'; subst h'; exact hab
        · intro e he
          rw [g4] at he
          rcases List.mem_append.1 he with h' | h'
          · obtain ⟨x1, x2⟩ := hI.ends e h'
            obtain ⟨m1, hm1, hid1⟩ := (hasNode_iff net e.a).1 x1
            obtain ⟨m2, hm2, hid2⟩ := (hasNode_iff net e.b).1 x2
            exact ⟨hasN _ ⟨m1, k5 m1 hm1, hid1⟩, hasN _ ⟨m2, k5 m2 hm2, hid2⟩⟩
          · simp at h'; subst h'; exact ⟨hasN _ k3, hasN _ k4⟩
        · intro e he
          rw [g4] at he
          rcases List.mem_append.1 he with h' | h'
          · obtain ⟨x1, x2, x3⟩ := hI.speed e h'
            exact ⟨x1, by rw [g3]; exact le_trans x2 hms2, x3⟩
          · simp at h'; subst h'; exact ⟨hsp, by rw [g3]; exact hms1, rfl⟩

theorem buildFrom_inv (geo : Geo α) (hc : GeoContract geo) (ls : List (Link α)) (net net' : Net α) (i : Nat)
    (hI : BInv net) (hsp : ∀ l ∈ ls, 0 < l.speed) (h : buildFrom geo net i ls = .ok net') : BInv net' := by
  induction ls generalizing net i with
  | nil => simp [buildFrom] at h; subst h; exact hI
  | cons l ls ih =>
    simp only [buildFrom] at h
    cases ha : addLink geo net i l with
    | error e => simp [ha] at h
    | ok net1 =>
      simp only [ha] at h
      exact ih net1 (i + 1) (addLink_inv geo hc net net1 i l hI (hsp l (by simp)) ha)
        (fun x hx => hsp x (List.mem_cons_of_mem _ hx)) h

end GeomV.C19
