import GeomV.C19.AStar
/-
C19: from node paths to chains of links — the `route.go` side (`neighbors`, `From`, `Weight`,
the path → links loop of `ShortestRoute`) and the invariants of networks built by `AddLink`.
-/
set_option linter.unusedVariables false
set_option linter.unusedSimpArgs false
set_option linter.unusedSectionVars false
namespace GeomV.C19

variable {α : Type} [Field α] [LinearOrder α] [IsStrictOrderedRing α]

/-- the weighted graph gonum sees through the (fixed) adapter -/
def netGraph (net : Net α) (ord : Nat → List Nat → List Nat) : Graph α :=
  { adj := fromOf net ord, w := fun u v => (weightOf net u v).getD 0 }

/-- edge `e` joins the nodes `u` and `v` -/
def Joins (e : MEdge α) (u v : Nat) : Prop := (e.a = u ∧ e.b = v) ∨ (e.a = v ∧ e.b = u)

/-- a chain of links from node `u` to node `v`: each link has the current node as one end and
hands over to its other end ("each link sharing an end node with the next") -/
def EChain : Nat → List (MEdge α) → Nat → Prop
  | u, [], v => u = v
  | u, e :: es, v => (e.a = u ∧ EChain e.b es v) ∨ (e.b = u ∧ EChain e.a es v)

def esum (f : MEdge α → α) : List (MEdge α) → α
  | [] => 0
  | e :: es => f e + esum f es

def ecost (o : Opt) (e : MEdge α) : α := match o with | .time => e.time | .distance => e.length

/-- invariants of a network (established by `AddLink`, see `build_wf`) -/
structure WF (net : Net α) : Prop where
  nonneg : ∀ e ∈ net.edges, 0 ≤ e.length ∧ 0 ≤ e.time
  noself : ∀ e ∈ net.edges, e.a ≠ e.b
  ends : ∀ e ∈ net.edges, hasNode net e.a = true ∧ hasNode net e.b = true
  ids : ∀ m ∈ net.nodes, m.id < net.nodes.length + 1

/-- no two links join the same pair of nodes (the property's quantifier excludes parallel links) -/
def NoParallel (net : Net α) : Prop := ∀ e ∈ net.edges, ∀ e' ∈ net.edges, ∀ u v, Joins e u v → Joins e' u v → e = e'

theorem mem_insertSorted (x y : Nat) (l : List Nat) : x ∈ insertSorted y l ↔ x = y ∨ x ∈ l := by
  induction l with
  | nil => simp [insertSorted]
  | cons z l ih =>
    simp only [insertSorted]
    split_ifs with h1 h2
    · simp
    · subst h2; simp
    · simp [ih]; tauto

theorem mem_neighborIds (net : Net α) (u v : Nat) :
    v ∈ neighborIds net u ↔ ∃ e ∈ net.edges, (e.a = u ∧ e.b = v) ∨ (e.b = u ∧ e.a = v) := by
  unfold neighborIds
  suffices h : ∀ (es : List (MEdge α)) (acc : List Nat),
      v ∈ es.foldl (fun acc e => if e.a = u then insertSorted e.b acc else if e.b = u then insertSorted e.a acc else acc) acc ↔
        v ∈ acc ∨ ∃ e ∈ es, (e.a = u ∧ e.b = v) ∨ (e.b = u ∧ e.a = v) by
    simpa using h net.edges []
  intro es
  induction es with
  | nil => intro acc; simp
  | cons e es ih =>
    intro acc
    simp only [List.foldl_cons, ih, List.mem_cons, exists_eq_or_imp]
    split_ifs with h1 h2
    · rw [mem_insertSorted]
      constructor
      · rintro ((h | h) | h)
        · right; left; left; exact ⟨h1, h.symm⟩
        · left; exact h
        · right; right; exact h
      · rintro (h | (h | h) | h)
        · left; right; exact h
        · left; left; exact h.2.symm
        · -- e.b = u ∧ e.a = v with e.a = u
          left; left; rw [← h.2, h1, ← h.1]
        · right; exact h
    · rw [mem_insertSorted]
      constructor
      · rintro ((h | h) | h)
        · right; left; right; exact ⟨h2, h.symm⟩
        · left; exact h
        · right; right; exact h
      · rintro (h | (h | h) | h)
        · left; right; exact h
        · exact absurd h.1 h1
        · left; left; exact h.2.symm
        · right; exact h
    · constructor
      · rintro (h | h)
        · left; exact h
        · right; right; exact h
      · rintro (h | (h | h) | h)
        · left; exact h
        · exact absurd h.1 h1
        · exact absurd h.1 h2
        · right; exact h

theorem neighbor_some (net : Net α) (u v : Nat) (e : MEdge α) (h : neighbor net u v = some e) :
    e ∈ net.edges ∧ Joins e u v := by
  unfold neighbor at h
  have h1 := List.mem_of_find?_eq_some h
  have h2 := List.find?_some h
  refine ⟨by simpa using h1, ?_⟩
  simp only [Bool.or_eq_true, Bool.and_eq_true, beq_iff_eq] at h2
  exact h2

theorem neighbor_of_joins (net : Net α) (u v : Nat) (e : MEdge α) (he : e ∈ net.edges) (hj : Joins e u v) :
    ∃ e', neighbor net u v = some e' := by
  cases h : neighbor net u v with
  | some e' => exact ⟨e', rfl⟩
  | none =>
    unfold neighbor at h
    have := List.find?_eq_none.1 h e (by simpa using he)
    simp only [Bool.or_eq_true, Bool.and_eq_true, beq_iff_eq] at this
    exact absurd hj this

theorem hasNode_iff (net : Net α) (i : Nat) : hasNode net i = true ↔ ∃ m ∈ net.nodes, m.id = i := by
  simp [hasNode]

/-- an adjacency of the adapter is a stored link, and `Weight` is that link's cost -/
theorem adj_edge (net : Net α) (ord : Nat → List Nat → List Nat) (hord : ∀ u l x, x ∈ ord u l ↔ x ∈ l)
    (hwf : WF net) (u v : Nat) (h : v ∈ (netGraph net ord).adj u) :
    ∃ e, neighbor net u v = some e ∧ e ∈ net.edges ∧ Joins e u v ∧ u ≠ v ∧
      weightOf net u v = some (ecost net.opt e) ∧ (netGraph net ord).w u v = ecost net.opt e := by
  simp only [netGraph, fromOf] at h
  split_ifs at h with hn
  · rw [hord, mem_neighborIds] at h
    obtain ⟨e0, he0, hj0⟩ := h
    have hj0' : Joins e0 u v := by
      rcases hj0 with h | h
      · exact Or.inl h
      · exact Or.inr ⟨h.2, h.1⟩
    obtain ⟨e, he⟩ := neighbor_of_joins net u v e0 he0 hj0'
    obtain ⟨hm, hj⟩ := neighbor_some net u v e he
    have huv : u ≠ v := by
      intro e'
      have := hwf.noself e hm
      rcases hj with h | h
      · exact this (h.1.trans (e'.trans h.2.symm))
      · exact this (h.1.trans (e'.symm.trans h.2.symm))
    have hw : weightOf net u v = some (ecost net.opt e) := by
      simp only [weightOf, if_neg huv, he, ecost]
      cases net.opt <;> rfl
    exact ⟨e, he, hm, hj, huv, hw, by simp [netGraph, hw]⟩
  · simp at h

theorem weightsOk_net (geo : Geo α) (net : Net α) (ord : Nat → List Nat → List Nat)
    (hord : ∀ u l x, x ∈ ord u l ↔ x ∈ l) (hwf : WF net) :
    WeightsOk (adapter geo net true ord) (netGraph net ord) := by
  refine ⟨fun u => rfl, ?_⟩
  intro u v h
  obtain ⟨e, _, hm, _, _, hw, hw'⟩ := adj_edge net ord hord hwf u v h
  refine ⟨by simp [adapter, hw, hw'], ?_⟩
  rw [hw']
  have := hwf.nonneg e hm
  unfold ecost; cases net.opt <;> simp [this.1, this.2]

theorem inRange_net (net : Net α) (ord : Nat → List Nat → List Nat)
    (hord : ∀ u l x, x ∈ ord u l ↔ x ∈ l) (hwf : WF net) :
    InRange (netGraph net ord) (net.nodes.length + 1) := by
  intro u v h
  obtain ⟨e, _, hm, hj, _, _, _⟩ := adj_edge net ord hord hwf u v h
  obtain ⟨ha, hb⟩ := hwf.ends e hm
  have : hasNode net v = true := by
    rcases hj with h | h
    · rw [← h.2]; exact hb
    · rw [← h.1]; exact ha
  obtain ⟨m, hm, hid⟩ := (hasNode_iff net v).1 this
  rw [← hid]; exact hwf.ids m hm

/-- the path → links loop of `ShortestRoute` on a walk: a chain of stored links with the same cost -/
theorem collect_walk (net : Net α) (ord : Nat → List Nat → List Nat) (hord : ∀ u l x, x ∈ ord u l ↔ x ∈ l)
    (hwf : WF net) (p : List Nat) (u : Nat) (hp : isWalk (netGraph net ord) u p) :
    ∃ es, collect net (u :: p) = .ok (es.map (·.link), esum (·.length) es, esum (·.time) es) ∧
      EChain u es (endOf u p) ∧ (∀ e ∈ es, e ∈ net.edges) ∧
      cost (netGraph net ord) u p = esum (ecost net.opt) es := by
  induction p generalizing u with
  | nil => exact ⟨[], by simp [collect, esum], by simp [EChain, endOf], by simp, by simp [cost, esum]⟩
  | cons v p ih =>
    simp only [isWalk] at hp
    obtain ⟨e, he, hm, hj, _, _, hw⟩ := adj_edge net ord hord hwf u v hp.1
    obtain ⟨es, h1, h2, h3, h4⟩ := ih v hp.2
    refine ⟨e :: es, ?_, ?_, ?_, ?_⟩
    · simp [collect, he, h1, esum]
    · simp only [EChain, endOf]
      rcases hj with h | h
      · left; exact ⟨h.1, by rw [h.2]; exact h2⟩
      · right; exact ⟨h.2, by rw [h.1]; exact h2⟩
    · intro x hx
      rcases List.mem_cons.1 hx with rfl | hx
      · exact hm
      · exact h3 x hx
    · simp only [cost, esum, hw, h4]

/-- conversely every chain of stored links is a walk of the adapter graph of the same cost
(no parallel links: `Weight` of a node pair is THE link between them) -/
theorem chain_walk (net : Net α) (ord : Nat → List Nat → List Nat) (hord : ∀ u l x, x ∈ ord u l ↔ x ∈ l)
    (hwf : WF net) (hnp : NoParallel net) (es : List (MEdge α)) (u v : Nat) (hes : ∀ e ∈ es, e ∈ net.edges)
    (hc : EChain u es v) :
    ∃ p, isWalk (netGraph net ord) u p ∧ endOf u p = v ∧ cost (netGraph net ord) u p = esum (ecost net.opt) es := by
  induction es generalizing u with
  | nil =>
    simp only [EChain] at hc
    exact ⟨[], by simp [isWalk], by simp [endOf, hc], by simp [cost, esum]⟩
  | cons e es ih =>
    simp only [EChain] at hc
    have hem := hes e (by simp)
    -- the other end of e and the rest of the chain
    obtain ⟨y, hj, hrest⟩ : ∃ y, Joins e u y ∧ EChain y es v := by
      rcases hc with h | h
      · exact ⟨e.b, Or.inl ⟨h.1, rfl⟩, h.2⟩
      · exact ⟨e.a, Or.inr ⟨rfl, h.1⟩, h.2⟩
    obtain ⟨p, hp1, hp2, hp3⟩ := ih y (fun x hx => hes x (List.mem_cons_of_mem _ hx)) hrest
    have hadj : y ∈ (netGraph net ord).adj u := by
      have hu : hasNode net u = true := by
        rcases hj with h | h
        · rw [← h.1]; exact (hwf.ends e hem).1
        · rw [← h.2]; exact (hwf.ends e hem).2
      simp only [netGraph, fromOf, hu, if_true]
      rw [hord, mem_neighborIds]
      refine ⟨e, hem, ?_⟩
      rcases hj with h | h
      · exact Or.inl h
      · exact Or.inr ⟨h.2, h.1⟩
    obtain ⟨e', _, hm', hj', _, _, hw⟩ := adj_edge net ord hord hwf u y hadj
    have : e' = e := hnp e' hm' e hem u y hj' hj
    subst this
    exact ⟨y :: p, ⟨hadj, hp1⟩, by simp [endOf, hp2], by simp [cost, esum, hw, hp3]⟩

end GeomV.C19
