import GeomV.C11.Proofs
import GeomV.C12.Proofs
import GeomV.C19.IdentGen
/-
C19: the R-tree query `net.nodes.NearestNeighbor(p)` — a PARAMETER of the C19 model (`Geo.nearest`, contracts
`NearestIn`, `GeoContract.nearestMem`, `IdGeo.nearest_none/nearest_min`) — instantiated with the MODELS that
properties C11 and C12 verify, and its contract PROVED from their theorems:

* `rtreeOf l` : the tree `rtree.NewTree(25, 50)` (route.NewNetwork) after `Insert`ing the nodes of the node table
  in table order (`addNode` inserts a node exactly when it is appended to `nodeMap`), C11's model `runOps` with
  the exact transcription `goHeur` of the Go heuristics; a network node's `Bounds()` is the degenerate box of
  its point.
* `nearestRtreeE order l p` : `if net.nodes.Size() != 0 { net.nodes.NearestNeighbor(p) }` (the guard of
  route.go `newNode`), C12's model `nearestNeighbor` on that tree, every fault carried (`Except C11.Fault`).
* `C19_nearest_rtree_nofault` : no fault occurs (C11_reachable + C12_nn), so the total function
  `nearestRtreeWith order` (`none` on a fault) loses nothing.
* `C19_nearest_rtree_min`, `C19_nearest_rtree_none`, `C19_geo_rtree_contract` : the answer is a stored node at
  minimum squared Euclidean distance; no answer iff the table is empty; hence `NearestIn`, `IdGeo.nearest_*`.

Hypotheses that remain: `C12.OrderOK order` — the visiting order of `sortEntries` (Go's unstable `sort.Sort`) is
SOME permutation of the entry indices; discharged for the model's own order by `C12.C12_stableOrder_ok`
(`nearestRtree`).  The heuristics hypothesis `Heur.InRange` of C11 is discharged by `C11.C11_goHeur_inRange`.
What is NOT covered here: IEEE rounding (C11/C12 are exact-`Rat` models), and the tie between the C19 harness
and this instance (the C19 driver still computes its own exact nearest node; the theorems of C19 hold for any
`Geo` satisfying the contracts, this file shows the R-tree model is one).
-/
set_option linter.unusedVariables false
set_option linter.unusedSimpArgs false
set_option linter.unusedSectionVars false
namespace GeomV.C19

deriving instance DecidableEq for MNode

/-- route.go `node` embeds `geom.Point`: its `Bounds()` is the degenerate box of the point -/
instance nodeBounded : C11.Bounded (MNode Rat) := ⟨fun n => ⟨n.p.x, n.p.y, n.p.x, n.p.y⟩⟩

/-- `net.nodes` (an `rtree.NewTree(25, 50)`) after `Insert`ing the nodes in table order: C11's model -/
def rtreeOf (l : List (MNode Rat)) : Except C11.Fault (C11.Tree (MNode Rat)) :=
  C11.runOps C11.goHeur (C11.newTree 25 50) (l.map C11.Op.ins)

/-- route.go `newNode`: `if net.nodes.Size() != 0 { nearest := net.nodes.NearestNeighbor(p) … }` on the tree
built from the node table; C12's model `nearestNeighbor`, all faults carried -/
def nearestRtreeE (order : List Rat → List Nat) (l : List (MNode Rat)) (p : Pt Rat) :
    Except C11.Fault (Option (MNode Rat)) :=
  match rtreeOf l with
  | .error e => .error e
  | .ok t =>
    if t.size = 0 then .ok none
    else match C12.nearestNeighbor order t p.x p.y with
      | .error e => .error e
      | .ok o => .ok (some o)

/-- the total function of the type `Geo.nearest` wants; a fault would become `none`, but none occurs
(`C19_nearest_rtree_nofault`) -/
def nearestRtreeWith (order : List Rat → List Nat) (l : List (MNode Rat)) (p : Pt Rat) : Option (MNode Rat) :=
  match nearestRtreeE order l p with
  | .ok r => r
  | .error _ => none

/-- with the model's own visiting order (stable sort of the branches by MINDIST) -/
def nearestRtree (l : List (MNode Rat)) (p : Pt Rat) : Option (MNode Rat) := nearestRtreeWith C12.stableOrder l p

/-! ### the tree built from the node table -/

theorem specRun_ins (l : List (MNode Rat)) (s : List (MNode Rat)) :
    (l.map C11.Op.ins).foldl C11.specStep s = l.reverse ++ s := by
  induction l generalizing s with
  | nil => rfl
  | cons a l ih => simp [List.foldl_cons, C11.specStep, ih]

/-- **Building the node R-tree never panics** and gives a well-formed tree (C11's `WF`: balanced, exact
envelopes, fan-out ≤ 50) that stores exactly the nodes of the table, `Size` = their number — `C11_reachable`
at `NewTree(25, 50)` with the Go heuristics. -/
theorem rtreeOf_ok (l : List (MNode Rat)) :
    ∃ t, rtreeOf l = .ok t ∧ t.WF = true ∧ t.abs.Perm l ∧ t.size = l.length := by
  obtain ⟨t, h1, _, h3, h4, h5, _⟩ :=
    C11.C11_reachable (O := MNode Rat) C11.C11_goHeur_inRange 25 50 (by omega) (by omega) (l.map C11.Op.ins)
  have hs : C11.specRun (l.map C11.Op.ins) = l.reverse := by
    unfold C11.specRun; rw [specRun_ins]; simp
  rw [hs] at h4 h5
  exact ⟨t, h1, h3, h4.trans (List.reverse_perm l), by simpa using h5⟩

theorem node_box_valid (n : MNode Rat) : (C11.Bounded.bounds n).valid = true := by
  simp [C11.Bounded.bounds, C11.Box.valid]

/-- for a degenerate box the R-tree's squared box distance is the squared Euclidean distance to the point -/
theorem odist_node (p : Pt Rat) (n : MNode Rat) : C12.odist p.x p.y n = sqDist p n.p := by
  unfold C12.odist C12.boxDist2 C12.pdist2 sqDist
  simp only [C11.Bounded.bounds]
  have hx : (if p.x < n.p.x then n.p.x else if n.p.x < p.x then n.p.x else p.x) = n.p.x := by
    split_ifs with h1 h2
    · rfl
    · rfl
    · exact le_antisymm (not_lt.1 h2) (not_lt.1 h1)
  have hy : (if p.y < n.p.y then n.p.y else if n.p.y < p.y then n.p.y else p.y) = n.p.y := by
    split_ifs with h1 h2
    · rfl
    · rfl
    · exact le_antisymm (not_lt.1 h2) (not_lt.1 h1)
  rw [hx, hy]

/-! ### the query -/

/-- the two outcomes of the guarded query, for any visiting order that is a permutation -/
theorem nearestRtreeE_spec {order : List Rat → List Nat} (hO : C12.OrderOK order) (l : List (MNode Rat)) (p : Pt Rat) :
    (l = [] ∧ nearestRtreeE order l p = .ok none) ∨
    (l ≠ [] ∧ ∃ x, nearestRtreeE order l p = .ok (some x) ∧ x ∈ l ∧ ∀ y ∈ l, sqDist p x.p ≤ sqDist p y.p) := by
  obtain ⟨t, h1, hwf, hperm, hsize⟩ := rtreeOf_ok l
  by_cases hl : l = []
  · left
    refine ⟨hl, ?_⟩
    have : t.size = 0 := by rw [hsize, hl]; rfl
    simp only [nearestRtreeE, h1, this, if_true]
  · right
    refine ⟨hl, ?_⟩
    have hs : ¬ t.size = 0 := by
      rw [hsize]; exact fun h => hl (List.length_eq_zero_iff.1 h)
    have hne : t.abs ≠ [] := by
      intro h; rw [h] at hperm; exact hl (List.perm_nil.1 hperm.symm) |> False.elim
    obtain ⟨o, ho, _, hmem, hmin⟩ := C12.C12_nn hO t hwf hne p.x p.y (fun o _ => node_box_valid o)
    refine ⟨o, ?_, hperm.mem_iff.1 hmem, ?_⟩
    · simp only [nearestRtreeE, h1, hs, if_false, ho]
    · intro y hy
      have := hmin y (hperm.mem_iff.2 hy)
      rwa [odist_node, odist_node] at this

/-- **No fault occurs in the R-tree models** (C11 `Insert` history, C12 `NearestNeighbor`) on any node table and
any query point: the guarded query returns `.ok`, and the total function `nearestRtreeWith` is its value. -/
theorem C19_nearest_rtree_nofault {order : List Rat → List Nat} (hO : C12.OrderOK order) (l : List (MNode Rat))
    (p : Pt Rat) : nearestRtreeE order l p = .ok (nearestRtreeWith order l p) := by
  unfold nearestRtreeWith
  rcases nearestRtreeE_spec hO l p with ⟨_, h⟩ | ⟨_, x, h, _⟩ <;> rw [h]

/-- **The R-tree's answer is a stored node at minimum distance** (C12_nn on the tree of C11_reachable): the
contract `IdGeo.nearest_min` / `NearestIn.mem` / `GeoContract.nearestMem` that C19 assumed, with
`dist = ` squared Euclidean distance. -/
theorem C19_nearest_rtree_min {order : List Rat → List Nat} (hO : C12.OrderOK order) (l : List (MNode Rat))
    (p : Pt Rat) (x : MNode Rat) (h : nearestRtreeWith order l p = some x) :
    x ∈ l ∧ ∀ y ∈ l, sqDist p x.p ≤ sqDist p y.p := by
  unfold nearestRtreeWith at h
  rcases nearestRtreeE_spec hO l p with ⟨_, h'⟩ | ⟨_, x', h', hm, hmin⟩
  · rw [h'] at h; cases h
  · rw [h'] at h
    simp only [Option.some.injEq] at h
    subst h
    exact ⟨hm, hmin⟩

/-- **No answer iff the node table is empty** (`Size() = 0` guard; C12_nn excludes `none` on a non-empty tree):
the contract `IdGeo.nearest_none` / `NearestIn.none_nil`, as an equivalence. -/
theorem C19_nearest_rtree_none {order : List Rat → List Nat} (hO : C12.OrderOK order) (l : List (MNode Rat))
    (p : Pt Rat) : nearestRtreeWith order l p = none ↔ l = [] := by
  unfold nearestRtreeWith
  rcases nearestRtreeE_spec hO l p with ⟨hl, h'⟩ | ⟨hl, x', h', _⟩
  · rw [h']; exact ⟨fun _ => hl, fun _ => rfl⟩
  · rw [h']; exact ⟨fun h => (by cases h), fun h => absurd h hl⟩

/-- **The UNGUARDED call of `ShortestRoute`** (`net.nodes.NearestNeighbor(from).(*node)`): on the tree of a
non-empty node table C12's `NearestNeighbor` returns `.ok` exactly the node `nearestRtreeWith` gives; on the
empty table it raises its explicit panic (`nnNil`), which the C19 model renders as `nearest = none` ⇒
`Fault.nilNode`. -/
theorem C19_nearest_rtree_unguarded {order : List Rat → List Nat} (hO : C12.OrderOK order) (l : List (MNode Rat))
    (p : Pt Rat) : ∃ t, rtreeOf l = .ok t ∧
      (l = [] → C12.nearestNeighbor order t p.x p.y = .error C11.Fault.nnNil ∧ nearestRtreeWith order l p = none) ∧
      (l ≠ [] → ∃ x, C12.nearestNeighbor order t p.x p.y = .ok x ∧ nearestRtreeWith order l p = some x) := by
  obtain ⟨t, h1, hwf, hperm, hsize⟩ := rtreeOf_ok l
  refine ⟨t, h1, ?_, ?_⟩
  · intro hl
    have he : t.abs = [] := by rw [hl] at hperm; exact List.perm_nil.1 hperm
    exact ⟨C12.C12_empty hO t hwf he p.x p.y, (C19_nearest_rtree_none hO l p).2 hl⟩
  · intro hl
    have hs : ¬ t.size = 0 := by
      rw [hsize]; exact fun h => hl (List.length_eq_zero_iff.1 h)
    cases hq : C12.nearestNeighbor order t p.x p.y with
    | error e =>
      have := C19_nearest_rtree_nofault hO l p
      simp only [nearestRtreeE, h1, hs, if_false, hq] at this
      cases this
    | ok o =>
      refine ⟨o, rfl, ?_⟩
      simp only [nearestRtreeWith, nearestRtreeE, h1, hs, if_false, hq]

/-! ### C19's contracts for the geometry whose `nearest` is the R-tree model -/

/-- replace the `nearest` parameter of a geometry by the R-tree model -/
def withRtree (order : List Rat → List Nat) (geo : Geo Rat) : Geo Rat := { geo with nearest := nearestRtreeWith order }

/-- **C19's assumptions about the R-tree hold for the R-tree MODEL proved in C11/C12**: for any `Geo ℚ` whose
`nearest` is `nearestRtreeWith order` (any visiting order that is a permutation), `NearestIn` (used by
`C19_ident_general`, `C19_nearest_meaning`), `GeoContract.nearestMem`/`Proofs.NearestMem` (used by `C19_route`,
`C19_built`, `build_wf`) and `IdGeo.nearest_none`, `IdGeo.nearest_min` with `dist = sqDist` (used by
`C19_ident`) hold.  The remaining fields of `GeoContract`/`IdGeo` concern `op.Length`, `op.Distance`,
`op.PointEquals` and stay hypotheses. -/
theorem C19_geo_rtree_contract {order : List Rat → List Nat} (hO : C12.OrderOK order) (geo : Geo Rat)
    (hgeo : geo.nearest = nearestRtreeWith order) :
    NearestIn geo ∧
    (∀ l p x, geo.nearest l p = some x → x ∈ l) ∧
    (∀ l p, geo.nearest l p = none → l = []) ∧
    (∀ l p x, geo.nearest l p = some x → x ∈ l ∧ ∀ y ∈ l, sqDist p x.p ≤ sqDist p y.p) := by
  have hmin : ∀ l p x, geo.nearest l p = some x → x ∈ l ∧ ∀ y ∈ l, sqDist p x.p ≤ sqDist p y.p := by
    intro l p x h; rw [hgeo] at h; exact C19_nearest_rtree_min hO l p x h
  have hnone : ∀ l p, geo.nearest l p = none → l = [] := by
    intro l p h; rw [hgeo] at h; exact (C19_nearest_rtree_none hO l p).1 h
  exact ⟨⟨fun l p x h => (hmin l p x h).1, hnone⟩, fun l p x h => (hmin l p x h).1, hnone, hmin⟩

/-- `IdGeo` for the R-tree model: only the four facts about `op.PointEquals` on the end points remain -/
theorem idGeo_rtree {order : List Rat → List Nat} (hO : C12.OrderOK order) (geo : Geo Rat)
    (hgeo : geo.nearest = nearestRtreeWith order) (S : Pt Rat → Prop)
    (refl : ∀ p, S p → geo.ptEq p p = true)
    (symm : ∀ p q, S p → S q → geo.ptEq p q = true → geo.ptEq q p = true)
    (trans : ∀ p q r, S p → S q → S r → geo.ptEq p q = true → geo.ptEq q r = true → geo.ptEq p r = true)
    (sep : ∀ p q r, S p → S q → S r → geo.ptEq p q = true → geo.ptEq p r = false → sqDist p q < sqDist p r) :
    IdGeo geo sqDist S := by
  obtain ⟨_, _, h3, h4⟩ := C19_geo_rtree_contract hO geo hgeo
  exact ⟨h3, h4, refl, symm, trans, sep⟩

/-- **`C19_ident_build` with the R-tree model instead of an assumed nearest function**: for every `AddLink`
history run with `nearest` = the C11/C12 R-tree model (any base geometry for `op.*`), every link end is exactly
at or `PointEquals` to the position of its node, and every node sits at an end point of a link of the history.
No hypothesis about the R-tree is left except that `sort.Sort` permutes (`OrderOK`). -/
theorem C19_ident_build_rtree {order : List Rat → List Nat} (hO : C12.OrderOK order) (geo : Geo Rat) (o : Opt)
    (ls : List (Link Rat)) (net : Net Rat) (hb : build (withRtree order geo) o ls = .ok net) :
    (∀ r u, EndOf net ls r u →
      ∃ n ∈ net.nodes, n.id = u ∧ (n.p = r ∨ geo.ptEq r n.p = true) ∧ (∀ n' ∈ net.nodes, n'.id = u → n' = n)) ∧
    (∀ n ∈ net.nodes, ∃ (j : Nat) (l : Link Rat), ls[j]? = some l ∧
      (l.pts.head? = some n.p ∨ l.pts.getLast? = some n.p)) := by
  have hc := (C19_geo_rtree_contract hO (withRtree order geo) rfl).1
  obtain ⟨h1, h2, _, _⟩ := C19_ident_build (withRtree order geo) hc o ls net hb
  refine ⟨?_, h2⟩
  intro r u h
  obtain ⟨n, hn, hid, hat, huniq, _⟩ := h1 r u h
  exact ⟨n, hn, hid, hat, huniq⟩

/-! ### non-vacuity -/

/-- the remaining hypothesis is satisfiable: the model's visiting order is a permutation -/
example : C12.OrderOK C12.stableOrder := C12.C12_stableOrder_ok

/-- all contracts hold for the executable instance `nearestRtree` -/
example (geo : Geo Rat) : NearestIn (withRtree C12.stableOrder geo) :=
  (C19_geo_rtree_contract C12.C12_stableOrder_ok _ rfl).1

/-- on a non-empty table the R-tree model answers -/
example (n : MNode Rat) (l : List (MNode Rat)) (p : Pt Rat) : ∃ x, nearestRtree (n :: l) p = some x := by
  cases h : nearestRtree (n :: l) p with
  | some x => exact ⟨x, rfl⟩
  | none => exact absurd ((C19_nearest_rtree_none C12.C12_stableOrder_ok (n :: l) p).1 h) (by simp)

/-- the model computes: of the nodes at (0,0) and (3,0) the one nearest (2,0) is node 2; the empty table gives none -/
example : (nearestRtree [⟨1, ⟨0, 0⟩⟩, ⟨2, ⟨3, 0⟩⟩] ⟨2, 0⟩).map (·.id) = some 2 ∧
    (nearestRtree [] ⟨2, 0⟩).map (·.id) = none := by
  refine ⟨by decide +kernel, by decide +kernel⟩

end GeomV.C19
