import GeomV.C19.Spec
/-!
Driver for C19: `geomv_c19 judge` reads `<case> => <implementation answer>` lines (format: see
harness/cmd/c19/main.go) and prints one verdict per line:

  OK <class>            the answer satisfies the Spec and agrees with the model
  SPEC <class> <why>    the implementation's answer violates the Spec (failing input)
  DIFF <class> <why>    implementation and model differ (correspondence broken)
-/
namespace GeomV.C19

abbrev P := StateT Tok Option

def tok : P String := fun t => match t with | a :: r => some (a, r) | [] => none
def pNat : P Nat := do let s ← tok; match s.toNat? with | some n => pure n | none => failure
def pInt : P Int := do let s ← tok; match s.toInt? with | some n => pure n | none => failure
def pRat : P Rat := do
  let s ← tok
  match parseU64 s with
  | some u => match bitsToRat u with | some r => pure r | none => failure
  | none => failure
def pPtR : P (Pt Rat) := do let x ← pRat; let y ← pRat; pure ⟨x, y⟩
def pRep {β : Type} (p : P β) : Nat → P (List β)
  | 0 => pure []
  | n + 1 => do let a ← p; let r ← pRep p n; pure (a :: r)
def pCount {β : Type} (p : P β) : P (List β) := do let n ← pNat; pRep p n
def expect (s : String) : P Unit := do let a ← tok; if a == s then pure () else failure

/-! the instance of the geometric parameters the driver runs the model with -/

def nearestRat (nodes : List (MNode Rat)) (p : Pt Rat) : Option (MNode Rat) :=
  match nodes with
  | [] => none
  | n :: ns => some (ns.foldl (fun m x => if sqDist p x.p < sqDist p m.p then x else m) n)

def geoRat : Geo Rat := { nearest := nearestRat, ptEq := ptEqRat, length := polyLen, euclid := segLen, one := 1 }

/-- a case is a HISTORY of operations on one network -/
structure Case where
  fam : String
  exact : Bool
  opt : Opt
  ops : List (Op Rat)

def pOp : P (Op Rat) := do
  let k ← tok
  if k == "L" then
    let sp ← pRat; let pts ← pCount pPtR; pure (.link ⟨pts, sp⟩)
  else if k == "Q" then
    let a ← pPtR; let b ← pPtR; pure (.query a b)
  else failure

def pCase : P Case := do
  expect "net"
  let fam ← tok
  let x ← tok
  let o ← tok
  let ops ← pCount pOp
  pure ⟨fam, x == "X", if o == "T" then .time else .distance, ops⟩

def Case.links (c : Case) : List (Link Rat) := linksOf c.ops

/-- the queries of the history, each with the number of links added before it and the model network
at that moment (`none`: the model faulted building it) -/
def Case.moments (c : Case) : List (Pt Rat × Pt Rat × Nat × Option (Net Rat)) :=
  let rec go : Option (Net Rat) → Nat → List (Op Rat) → List (Pt Rat × Pt Rat × Nat × Option (Net Rat))
    | _, _, [] => []
    | net, i, .link l :: r =>
      let net' := match net with
        | some n => match addLink geoRat n i l with | .ok n' => some n' | .error _ => none
        | none => none
      go net' (i + 1) r
    | net, i, .query a b :: r => (a, b, i, net) :: go net i r
  go (some (newNetwork c.opt)) 0 c.ops

structure Arc where
  u : Nat
  v : Nat
  eu : Nat
  ev : Nat
  link : Int
  w : Option Rat      -- `none`: not weighted / not ok / not finite

def pWeight : P (Option Rat) := do
  let s ← tok
  if s == "-" || s.startsWith "!" then pure none
  else match parseU64 s with
    | some u => pure (bitsToRat u)
    | none => failure

structure Dump where
  weighted : Bool
  nodes : List (Nat × Pt Rat)
  arcs : List Arc

def pDump : P Dump := do
  expect "w"
  let w ← pNat
  expect "|"; expect "G"
  let nodes ← pCount (do let i ← pNat; let p ← pPtR; pure (i, p))
  let arcs ← pCount (do
    let u ← pNat; let v ← pNat; let eu ← pNat; let ev ← pNat; let l ← pInt; let w ← pWeight
    pure (⟨u, v, eu, ev, l, w⟩ : Arc))
  pure ⟨w == 1, nodes, arcs⟩

inductive QRes | ok (a : Answer) (raw : List Int) | panic (msg : String) | bad

/-- results are read leniently (a NaN total must become a verdict, not a parse error) -/
def pQRes : P QRes := do
  let k ← tok
  if k == "panic" then
    let m ← tok; expect ";"; pure (.panic m)
  else
    let ls ← pCount pInt
    let vals ← pRep (do let s ← tok; pure ((parseU64 s).bind bitsToRat)) 4
    expect ";"
    match vals with
    | [some d, some t, some sd, some ed] =>
      if ls.all (· ≥ 0) then pure (.ok ⟨ls.map Int.toNat, d, t, sd, ed⟩ ls) else pure .bad
    | _ => pure .bad

def idOrd : Nat → List Nat → List Nat := fun _ l => l

def hasParallel (net : Net Rat) : Bool :=
  let rec go : List (MEdge Rat) → Bool
    | [] => false
    | e :: r => r.any (fun x => (x.a == e.a && x.b == e.b) || (x.a == e.b && x.b == e.a)) || go r
  go net.edges

def faultName : Fault → String
  | .emptyLink => "emptyLink" | .selfEdge => "selfEdge" | .nilNode => "nilNode" | .missingEdge => "missingEdge"
  | .badWeight => "badWeight" | .negWeight => "negWeight" | .noPrev => "noPrev" | .negCycle => "negCycle" | .fuel => "fuel"

/-- model network against the adapter dump (ids, positions, adjacency, edge ends, link, weight) -/
def diffGraph (c : Case) (net : Net Rat) (d : Dump) : Option String :=
  if !d.weighted then some "network-value-does-not-implement-path.Weighted(model:implementsWeighted=true)"
  else if d.nodes.length != net.nodes.length then some s!"node-count model={net.nodes.length} impl={d.nodes.length}"
  else if !(d.nodes.all fun (i, p) => net.nodes.any fun n => n.id == i && n.p.x == p.x && n.p.y == p.y) then some "node-ids-or-positions-differ"
  else
    let bad := d.arcs.find? fun a =>
      match neighbor net a.u a.v, weightOf net a.u a.v, a.w with
      | some e, some w, some w' => !(e.a == a.eu && e.b == a.ev && (e.link : Int) == a.link && closeTo c.exact w w')
      | _, _, _ => true
    match bad with
    | some a => some s!"arc-{a.u}-{a.v}-differs"
    | none =>
      let cnt := net.nodes.foldl (fun s n => s + (fromOf net idOrd n.id).length) 0
      if cnt != d.arcs.length then some s!"arc-count model={cnt} impl={d.arcs.length}" else none

def specNet (c : Case) (d : Dump) : Option SNet := do
  let links ← (c.links.zipIdx).mapM fun (l, i) =>
    match d.arcs.find? (fun a => a.link == (i : Int)) with
    | some a => some (⟨l.pts, l.speed, a.eu, a.ev⟩ : SLink)
    | none => none
  pure ⟨links, d.nodes⟩

/-- the network as it was when only the first `m` links had been added: those links (their end
nodes never change afterwards) and the nodes they touch -/
def SNet.atMoment (sn : SNet) (m : Nat) : SNet :=
  let ls := sn.links.take m
  ⟨ls, sn.pos.filter fun (i, _) => ls.any fun l => l.a == i || l.b == i⟩

/-! ### the priority queue on its own: `heapq` lines (tie of `heapQ` to container/heap + gonum's `aStarQueue`) -/

inductive HOp | push (id : Nat) (g f : Rat) | upd (id : Nat) (g f : Rat) | pop

def pHOp : P HOp := do
  let k ← tok
  if k == "P" then
    let i ← pNat; let g ← pRat; let f ← pRat; pure (.push i g f)
  else if k == "U" then
    let i ← pNat; let g ← pRat; let f ← pRat; pure (.upd i g f)
  else if k == "O" then pure .pop
  else failure

def pHRes : P (Int × List (Entry Rat)) := do
  expect "="
  let m ← pInt
  let l ← pCount (do let i ← pNat; let g ← pRat; let f ← pRat; pure (⟨i, g, f⟩ : Entry Rat))
  pure (m, l)

def sameEntry (a b : Entry Rat) : Bool := a.node == b.node && a.g == b.g && a.f == b.f
def sameLayout (a b : List (Entry Rat)) : Bool := a.length == b.length && (a.zip b).all fun (x, y) => sameEntry x y
def sameSet (a b : List (Entry Rat)) : Bool := a.length == b.length && a.all fun x => b.any (sameEntry x)

/-- Spec side (the contract `QueueSpec`, judged on the implementation's own layouts): a push adds the entry,
an update replaces the entry of that node, a pop removes an entry of minimal fscore; model side: the
layouts of `heapQ` must be the implementation's, slot by slot. -/
def judgeHeap (ops : List HOp) (res : List (Int × List (Entry Rat))) : String := Id.run do
  let mut model : List (Entry Rat) := []
  let mut prev : List (Entry Rat) := []
  let mut k := 0
  for (o, (m, lay)) in ops.zip res do
    match o with
    | .push i g f =>
      if !sameSet lay (prev ++ [⟨i, g, f⟩]) then return s!"SPEC heapq op{k}:push-does-not-add-exactly-the-entry"
      model := heapQ.push model ⟨i, g, f⟩
    | .upd i g f =>
      if !sameSet lay (prev.map fun e => if e.node == i then ⟨i, g, f⟩ else e) then
        return s!"SPEC heapq op{k}:update-does-not-replace-exactly-the-entry-of-the-node"
      model := heapQ.update model i g f
    | .pop =>
      match prev.find? (fun e => (e.node : Int) == m) with
      | none => return s!"SPEC heapq op{k}:popped-entry-was-not-queued"
      | some e =>
        if prev.any (fun x => x.f < e.f) then return s!"SPEC heapq op{k}:popped-entry-is-not-of-minimal-fscore"
        if !sameSet lay (prev.filter fun x => x.node != e.node) then return s!"SPEC heapq op{k}:pop-does-not-leave-exactly-the-other-entries"
      match heapQ.pop model with
      | none => return s!"DIFF heapq op{k}:model-queue-is-empty"
      | some (e, rest) =>
        if (e.node : Int) != m then return s!"DIFF heapq op{k}:model-pops-node-{e.node}-impl-{m}"
        model := rest
    if !sameLayout model lay then return s!"DIFF heapq op{k}:slice-layout-differs-from-the-model"
    prev := lay
    k := k + 1
  return (if ops.length ≤ 12 then "OK heapq-small" else if ops.length ≤ 100 then "OK heapq" else "OK heapq-long")

def judgeHeapLine (lhs rhs : Tok) : String :=
  match (do expect "heapq"; pCount pHOp) lhs with
  | none => "BAD parse-heapq"
  | some (ops, _) =>
    match (do expect "H"; pRep pHRes ops.length) rhs with
    | none => s!"DIFF heapq unparsable-result-or-indexOf-inconsistent({" ".intercalate (rhs.take 6)})"
    | some (res, _) => judgeHeap ops res

def judgeLine (line : String) : String :=
  let (lhs, rhs) := splitArrow (tokens line)
  if lhs.head? == some "heapq" then judgeHeapLine lhs rhs else
  match pCase lhs with
  | none => "BAD parse-case"
  | some (c, _) =>
    let cls := c.fam ++ (if c.opt == .time then "-T" else "-D") ++ (if c.exact then "" else "-f")
    let model := build geoRat c.opt c.links
    match rhs with
    | "crash" :: msg => s!"SPEC {cls} process-died(crash-{"-".intercalate msg})"
    | "timeout" :: msg => s!"SPEC {cls} process-hung(timeout-{"-".intercalate msg})"
    | "buildpanic" :: msg =>
      match model with
      | .error f => s!"OK skipped-{faultName f}"
      | .ok _ => s!"DIFF {cls} impl-panics-building-the-network({" ".intercalate msg})-model-does-not"
    | _ =>
      match model with
      | .error f => s!"DIFF {cls} model-faults-{faultName f}-building-impl-does-not"
      | .ok net =>
        if hasParallel net then "OK skipped-parallel" else
        match pDump rhs with
        | none => "BAD parse-dump"
        | some (d, rest) =>
          let ms := c.moments
          match (do expect "|"; expect "R"; pRep pQRes ms.length) rest with
          | none => "BAD parse-results"
          | some (rs, rest2) =>
            -- cc probe: `| C <ncalls> <nreplaced>`; a replaced answer is a concurrent one (class suffix -cc)
            let cls := match (do expect "|"; expect "C"; let _ ← pNat; pNat) rest2 with
              | some (k, _) => if k > 0 then cls ++ "-cc" else cls
              | none => cls
            match specNet c d with
            | none => s!"SPEC {cls} a-link-is-missing-from-the-network"
            | some sn =>
              if !sn.endsOk then s!"SPEC {cls} link-end-node-not-at-link-end-point" else
              if !sn.identOk then s!"SPEC {cls} link-ends-are-PointEquals-but-do-not-share-a-node(or-share-one-without-being-equal)" else
              -- Spec verdicts on the implementation's answers
              let sv := (ms.zip rs).zipIdx.findSome? fun (((a, b, m, _), r), i) =>
                match r with
                | .ok ans _ => (judgeQuery (sn.atMoment m) c.opt c.exact a b ans).map (s!"q{i}@{m}:" ++ ·)
                | .panic m => some s!"q{i}:panic-{m}"
                | .bad => some s!"q{i}:route-element-is-not-a-link-or-total-not-finite"
              match sv with
              | some why => s!"SPEC {cls} {why}"
              | none =>
                match diffGraph c net d with
                | some why => s!"DIFF {cls} {why}"
                | none =>
                  -- model routes against implementation routes
                  let mv := (ms.zip rs).zipIdx.foldl (init := (none, true)) fun (acc : Option String × Bool) (((a, b, m, mnet), r), i) =>
                    match acc.1 with
                    | some _ => acc
                    | none =>
                      -- a query point equidistant from several nodes: the R-tree may pick any of them
                      let snm := sn.atMoment m
                      if (snm.nearest a c.exact).length != 1 || (snm.nearest b c.exact).length != 1 then (none, false) else
                      match mnet with
                      | none => (some s!"q{i}:model-has-no-network-at-this-moment", false)
                      | some net =>
                      match shortestRoute geoRat heapQ true idOrd net a b, r with
                      | .ok m, .ok ans _ =>
                        let cm := match c.opt with | .distance => m.distance | .time => m.time
                        let ci := match c.opt with | .distance => ans.distance | .time => ans.time
                        if !closeTo c.exact cm ci then (some s!"q{i}:model-cost-differs(model:{m.links}:{cm}|impl:{ans.links}:{ci}|s={m.startNode},t={m.endNode})", false)
                        else if m.links.isEmpty != ans.links.isEmpty then (some s!"q{i}:emptiness-differs", false)
                        else (none, acc.2 && m.links == ans.links)
                      | .error f, _ => (some s!"q{i}:model-faults-{faultName f}", false)
                      | _, _ => (some s!"q{i}:impl-fails", false)
                  match mv with
                  | (some why, _) => s!"DIFF {cls} {why}"
                  | (none, same) => if same then s!"OK {cls}" else s!"OK {cls}-alt"

end GeomV.C19

open GeomV GeomV.C19 in
def main (args : List String) : IO Unit := do
  let out ← IO.getStdout
  match args with
  | ["judge"] => forEachLine fun l => out.putStrLn (judgeLine l)
  | _ => IO.eprintln "usage: geomv_c19 judge"
