import GeomV.C19.Lemmas
/-
C19: the modelled gonum A* loop returns a minimum-cost path (classical invariant: a node is
expanded with its optimal g; closed nodes are never re-opened, which is sound for a consistent
heuristic), terminates, never faults, and `Shortest.To` reconstructs a walk of that cost.
-/
set_option linter.unusedVariables false
set_option linter.unusedSimpArgs false
set_option linter.unusedSectionVars false
namespace GeomV.C19

variable {α : Type} [Field α] [LinearOrder α] [IsStrictOrderedRing α]

/-- the shortest-path tree stored in `prev`: `Tree … C v g p` says that following `prev` from `v`
leads back to `s` along the walk `p` (nodes after `s`), of cost `g`, whose inner nodes were closed
one after the other (`C` is the closed list, newest first) -/
inductive Tree (G : Graph α) (s : Nat) (prev : Nat → Option Nat) : List Nat → Nat → α → List Nat → Prop
  | root (C : List Nat) : Tree G s prev C s 0 []
  | step {C C' : List Nat} {u v : Nat} {g : α} {p : List Nat} :
      Tree G s prev C u g p → prev v = some u → v ∈ G.adj u → v ≠ s → (u :: C) <:+ C' →
      Tree G s prev C' v (g + G.w u v) (p ++ [v])

theorem Tree.walk {G : Graph α} {s : Nat} {prev : Nat → Option Nat} {C : List Nat} {v : Nat} {g : α} {p : List Nat}
    (h : Tree G s prev C v g p) : isWalk G s p ∧ endOf s p = v ∧ cost G s p = g := by
  induction h with
  | root C => simp [isWalk, endOf, cost]
  | step h1 h2 h3 h4 h5 ih =>
    obtain ⟨i1, i2, i3⟩ := ih
    refine ⟨?_, ?_, ?_⟩
    · rw [isWalk_append]; exact ⟨i1, by simp [isWalk, i2, h3]⟩
    · rw [endOf_append]; simp [endOf]
    · rw [cost_append, i2, i3]; simp [cost]

theorem Tree.len {G : Graph α} {s : Nat} {prev : Nat → Option Nat} {C : List Nat} {v : Nat} {g : α} {p : List Nat}
    (h : Tree G s prev C v g p) : p.length ≤ C.length := by
  induction h with
  | root C => simp
  | step h1 h2 h3 h4 h5 ih =>
    have := h5.length_le
    simp at this ⊢
    omega

theorem Tree.mono {G : Graph α} {s : Nat} {prev : Nat → Option Nat} {C C' : List Nat} {v : Nat} {g : α} {p : List Nat}
    (h : Tree G s prev C v g p) (hc : C <:+ C') : Tree G s prev C' v g p := by
  cases h with
  | root C => exact Tree.root C'
  | step h1 h2 h3 h4 h5 => exact Tree.step h1 h2 h3 h4 (h5.trans hc)

theorem Tree.upd {G : Graph α} {s : Nat} {prev : Nat → Option Nat} {C : List Nat} {x : Nat} {g : α} {p : List Nat}
    (k u' : Nat) (h : Tree G s prev C x g p) (hk : k ∉ C) (hx : x ≠ k) : Tree G s (upd prev k u') C x g p := by
  induction h with
  | root C => exact Tree.root C
  | @step C C' u v g p h1 h2 h3 h4 h5 ih =>
    have hu : u ∈ C' := h5.subset (by simp)
    have huk : u ≠ k := fun e => hk (e ▸ hu)
    have hkC : k ∉ C := fun hm => hk (h5.subset (List.mem_cons_of_mem _ hm))
    refine Tree.step (ih hkC huk) ?_ h3 h4 h5
    simp [GeomV.C19.upd, hx, h2]

theorem Tree.pathTo {G : Graph α} {s : Nat} {prev : Nat → Option Nat} {C : List Nat} {v : Nat} {g : α} {p : List Nat}
    (h : Tree G s prev C v g p) (fuel : Nat) (hf : p.length < fuel) : pathTo prev s fuel v = .ok (s :: p) := by
  induction h generalizing fuel with
  | root C =>
    cases fuel with
    | zero => simp at hf
    | succ f => simp [GeomV.C19.pathTo]
  | @step C C' u v g p h1 h2 h3 h4 h5 ih =>
    cases fuel with
    | zero => simp at hf
    | succ f =>
      have : p.length < f := by simp at hf; omega
      simp [GeomV.C19.pathTo, h4, h2, ih f this]

/-- `h y ≤ cost(q) + h (end of q)`: consistency telescopes along a walk -/
theorem h_le_cost {G : Graph α} {h : Nat → Nat → α} {t : Nat} (hC : Consistent G h t) (q : List Nat) (y : Nat)
    (hq : isWalk G y q) : h y t ≤ cost G y q + h (endOf y q) t := by
  induction q generalizing y with
  | nil => simp [cost, endOf]
  | cons z q ih =>
    simp only [isWalk] at hq
    have := hC y z hq.1
    have := ih z hq.2
    simp only [cost, endOf]; linarith

/-- neighbour clause of a closed node `u` (with optimal `gu`) -/
def NbrOk (G : Graph α) (st : AState α) (gu : α) (u y : Nat) : Prop :=
  ∃ gy, st.dist y = some gy ∧ gy ≤ gu + G.w u y ∧ (y ∈ st.closed ∨ ∃ e ∈ st.openQ, e.node = y)

/-- loop invariant; `ex u y` exempts the pairs (expanded node, neighbour not yet relaxed) -/
structure Inv (Good : List (Entry α) → Prop) (A : Adapter α) (G : Graph α) (s t n : Nat) (ex : Nat → Nat → Prop) (st : AState α) : Prop where
  open_ok : ∀ e ∈ st.openQ, e.f = e.g + A.h e.node t ∧ st.dist e.node = some e.g ∧ e.node ∉ st.closed ∧ e.node < n
  sound : ∀ v g, st.dist v = some g → ∃ p, Tree G s st.prev st.closed v g p
  closed_ok : ∀ u ∈ st.closed, u < n ∧ ∃ gu, st.dist u = some gu ∧
      (∀ p, isWalk G s p → endOf s p = u → gu ≤ cost G s p) ∧
      ∀ y ∈ G.adj u, ¬ ex u y → NbrOk G st gu u y
  start : s ∈ st.closed ∨ st.openQ = [⟨s, 0, A.h s t⟩]
  known : ∀ v g, st.dist v = some g → v ∈ st.closed ∨ ∃ e ∈ st.openQ, e.node = v
  nodup : st.closed.Nodup
  good : Good st.openQ

variable {A : Adapter α} {G : Graph α} {s t n : Nat} {Good : List (Entry α) → Prop} {Q : Queue α}

theorem init_inv (hQ : QueueSpec Q Good) (hs : s < n) : Inv Good A G s t n (fun _ _ => False) (astarInit A Q s t) := by
  have hgood : Good [(⟨s, 0, A.h s t⟩ : Entry α)] := by
    have := (hQ.push [] ⟨s, 0, A.h s t⟩ hQ.good_nil (by simp)).1
    rwa [hQ.push_nil] at this
  refine ⟨?_, ?_, ?_, ?_, ?_, ?_, by simpa [astarInit, hQ.push_nil] using hgood⟩
  · intro e he
    simp [astarInit, hQ.push_nil] at he
    subst he
    simp [astarInit, upd, hs]
  · intro v g hv
    simp only [astarInit, upd] at hv
    split_ifs at hv with h
    · subst h; simp at hv; subst hv; exact ⟨[], Tree.root _⟩
  · intro u hu; simp [astarInit] at hu
  · right; simp [astarInit, hQ.push_nil]
  · intro v g hv
    simp only [astarInit, upd] at hv
    split_ifs at hv with h
    · right; exact ⟨⟨s, 0, A.h s t⟩, by simp [astarInit, hQ.push_nil], h.symm⟩
  · simp [astarInit]

/-- the entry popped with minimal `f` carries the optimal `g` -/
theorem pop_optimal (hW : WeightsOk A G) (hC : Consistent G A.h t) {st : AState α}
    (hI : Inv Good A G s t n (fun _ _ => False) st) (u : Entry α) (hu : u ∈ st.openQ)
    (hmin : ∀ x ∈ st.openQ, u.f ≤ x.f) (p : List Nat) (hp : isWalk G s p) (he : endOf s p = u.node) :
    u.g ≤ cost G s p := by
  have hnn : NonnegW G := fun a b hab => (hW.2 a b hab).2
  rcases hI.start with hs | hs
  · -- frontier argument
    have front : ∀ (q : List Nat) (x : Nat) (gx : α), x ∈ st.closed → st.dist x = some gx → isWalk G x q →
        endOf x q = u.node → u.f ≤ gx + cost G x q + A.h u.node t := by
      intro q
      induction q with
      | nil =>
        intro x gx hx _ _ hend
        simp only [endOf] at hend
        exact absurd (hend ▸ hx) (hI.open_ok u hu).2.2.1
      | cons y q ih =>
        intro x gx hx hdx hq hend
        simp only [isWalk] at hq
        simp only [endOf] at hend
        obtain ⟨_, gu, hgu, _, hn⟩ := hI.closed_ok x hx
        rw [hdx] at hgu; cases hgu
        obtain ⟨gy, hgy, hle, hco⟩ := hn y hq.1 (fun h => h)
        simp only [cost]
        rcases hco with hyc | ⟨e, heo, hen⟩
        · have := ih y gy hyc hgy hq.2 hend
          linarith
        · have h1 := hmin e heo
          obtain ⟨hf, hd, _, _⟩ := hI.open_ok e heo
          rw [hen] at hf hd
          rw [hgy] at hd; cases hd
          have h2 := h_le_cost hC q y hq.2
          rw [hend] at h2
          linarith
    obtain ⟨_, gs, hgs, hopt, _⟩ := hI.closed_ok s hs
    have h0 : gs ≤ 0 := by simpa [cost] using hopt [] (by simp [isWalk]) rfl
    have := front p s gs hs hgs hp he
    have hf := (hI.open_ok u hu).1
    linarith
  · rw [hs] at hu
    simp at hu
    subst hu
    exact cost_nonneg hnn p s hp

theorem suffix_cons_self (a : Nat) (l : List Nat) : l <:+ a :: l := List.suffix_cons a l

/-- popping `u` (not the target) and closing it -/
theorem pop_inv (hW : WeightsOk A G) (hC : Consistent G A.h t) (hQ : QueueSpec Q Good) {st : AState α}
    (hI : Inv Good A G s t n (fun _ _ => False) st) (u : Entry α) (rest : List (Entry α))
    (hpick : Q.pop st.openQ = some (u, rest)) :
    Inv Good A G s t n (fun a y => a = u.node ∧ y ∈ G.adj u.node)
      { st with openQ := rest, closed := u.node :: st.closed } ∧ s ∈ u.node :: st.closed := by
  obtain ⟨hu, hmin, hrest, hgr⟩ := hQ.pop _ _ _ hI.good hpick
  obtain ⟨huf, hud, hunc, hun⟩ := hI.open_ok u hu
  have hstart : s ∈ u.node :: st.closed := by
    rcases hI.start with h | h
    · exact List.mem_cons_of_mem _ h
    · rw [h] at hu; simp at hu; subst hu; simp
  refine ⟨⟨?_, ?_, ?_, Or.inl hstart, ?_, ?_, hgr⟩, hstart⟩
  · intro e he
    obtain ⟨he1, he2⟩ := (hrest e).1 he
    obtain ⟨a, b, c, d⟩ := hI.open_ok e he1
    refine ⟨a, b, ?_, d⟩
    simp only [List.mem_cons, not_or]
    exact ⟨he2, c⟩
  · intro v g hv
    obtain ⟨p, hp⟩ := hI.sound v g hv
    exact ⟨p, hp.mono (suffix_cons_self _ _)⟩
  · intro a ha
    -- membership in the new open/closed sets
    have mem' : ∀ y, (y ∈ st.closed ∨ ∃ e ∈ st.openQ, e.node = y) →
        (y ∈ u.node :: st.closed ∨ ∃ e ∈ rest, e.node = y) := by
      intro y hy
      rcases hy with h | ⟨e, he, hen⟩
      · left; exact List.mem_cons_of_mem _ h
      · by_cases hyu : e.node = u.node
        · left; rw [← hen, hyu]; simp
        · right; exact ⟨e, (hrest e).2 ⟨he, hyu⟩, hen⟩
    rcases List.mem_cons.1 ha with rfl | ha'
    · refine ⟨hun, u.g, hud, ?_, ?_⟩
      · intro p hp he
        exact pop_optimal hW hC hI u hu hmin p hp he
      · intro y hy hex
        exact absurd ⟨rfl, hy⟩ hex
    · obtain ⟨han, gu, hgu, hopt, hn⟩ := hI.closed_ok a ha'
      refine ⟨han, gu, hgu, hopt, ?_⟩
      intro y hy _
      obtain ⟨gy, h1, h2, h3⟩ := hn y hy (fun h => h)
      exact ⟨gy, h1, h2, mem' y h3⟩
  · intro v g hv
    rcases hI.known v g hv with h | ⟨e, he, hen⟩
    · left; exact List.mem_cons_of_mem _ h
    · by_cases hyu : e.node = u.node
      · left; rw [← hen, hyu]; simp
      · right; exact ⟨e, (hrest e).2 ⟨he, hyu⟩, hen⟩
  · exact List.nodup_cons.2 ⟨hunc, hI.nodup⟩

/-- an unchanged state with one more neighbour pair accounted for -/
theorem shrink_inv {ex ex' : Nat → Nat → Prop} {st : AState α} (un v : Nat)
    (hI : Inv Good A G s t n ex st)
    (hex : ∀ a y, ¬ ex' a y → ex a y → a = un ∧ y = v)
    (hpair : ∀ gu, st.dist un = some gu → NbrOk G st gu un v) : Inv Good A G s t n ex' st := by
  refine ⟨hI.open_ok, hI.sound, ?_, hI.start, hI.known, hI.nodup, hI.good⟩
  intro a ha
  obtain ⟨han, gu, hgu, hopt, hn⟩ := hI.closed_ok a ha
  refine ⟨han, gu, hgu, hopt, ?_⟩
  intro y hy hne
  by_cases hexy : ex a y
  · obtain ⟨rfl, rfl⟩ := hex a y hne hexy
    exact hpair gu hgu
  · exact hn y hy hexy

/-- `path.set` + push/update: `v` gets the better value `u.g + w` through `u` -/
theorem improve_inv {ex ex' : Nat → Nat → Prop} (st : AState α) (u : Entry α) (C0 : List Nat) (v : Nat) (w : α)
    (Q' : List (Entry α))
    (hv : v ∈ G.adj u.node) (hw : w = G.w u.node v) (hvn : v < n)
    (hcl : st.closed = u.node :: C0) (hdu : st.dist u.node = some u.g)
    (hTu : ∃ p, Tree G s st.prev C0 u.node u.g p)
    (hs : s ∈ st.closed) (hvc : v ∉ st.closed)
    (himp : ∀ gy, st.dist v = some gy → u.g + w ≤ gy)
    (hQ1 : ∀ e' ∈ Q', (e' ∈ st.openQ ∧ e'.node ≠ v) ∨ e' = ⟨v, u.g + w, u.g + w + A.h v t⟩)
    (hQ2 : ∀ e ∈ st.openQ, ∃ e' ∈ Q', e'.node = e.node)
    (hQ3 : ∃ e' ∈ Q', e'.node = v) (hQg : Good Q')
    (hex : ∀ a y, ¬ ex' a y → ex a y → a = u.node ∧ y = v)
    (hI : Inv Good A G s t n ex st) :
    Inv Good A G s t n ex' { st with dist := upd st.dist v (u.g + w), prev := upd st.prev v u.node, openQ := Q' } := by
  have hunc : u.node ∈ st.closed := by rw [hcl]; simp
  have huv : u.node ≠ v := fun e => hvc (e ▸ hunc)
  have hvs : v ≠ s := fun e => hvc (e ▸ hs)
  have hC0 : ∀ x ∈ C0, x ∈ st.closed := fun x hx => by rw [hcl]; exact List.mem_cons_of_mem _ hx
  refine ⟨?_, ?_, ?_, Or.inl hs, ?_, hI.nodup, hQg⟩
  · intro e' he'
    rcases hQ1 e' he' with ⟨he, hne⟩ | rfl
    · obtain ⟨a, b, c, d⟩ := hI.open_ok e' he
      exact ⟨a, by simp [upd, hne, b], c, d⟩
    · exact ⟨rfl, by simp [upd], hvc, hvn⟩
  · intro x g0 hx
    by_cases hxv : x = v
    · subst hxv
      simp [upd] at hx
      subst hx
      obtain ⟨p, hp⟩ := hTu
      have hp' := hp.upd x u.node (fun hm => hvc (hC0 _ hm)) huv
      refine ⟨p ++ [x], ?_⟩
      rw [hw]
      refine Tree.step hp' (by simp [upd]) hv hvs ?_
      show (u.node :: C0) <:+ st.closed
      rw [hcl]
      exact List.suffix_refl _
    · simp only [upd, if_neg hxv] at hx
      obtain ⟨p, hp⟩ := hI.sound x g0 hx
      exact ⟨p, hp.upd v u.node hvc hxv⟩
  · intro a ha
    obtain ⟨han, gu, hgu, hopt, hn⟩ := hI.closed_ok a ha
    have hav : a ≠ v := fun e => hvc (e ▸ ha)
    refine ⟨han, gu, by simp [upd, hav, hgu], hopt, ?_⟩
    intro y hy hne
    by_cases hexy : ex a y
    · obtain ⟨rfl, rfl⟩ := hex a y hne hexy
      rw [hdu] at hgu; cases hgu
      exact ⟨u.g + w, by simp [upd], by rw [hw], Or.inr hQ3⟩
    · obtain ⟨gy, h1, h2, h3⟩ := hn y hy hexy
      by_cases hyv : y = v
      · subst hyv
        exact ⟨u.g + w, by simp [upd], le_trans (himp gy h1) h2, Or.inr hQ3⟩
      · refine ⟨gy, by simp [upd, hyv, h1], h2, ?_⟩
        rcases h3 with h | ⟨e, he, hen⟩
        · exact Or.inl h
        · obtain ⟨e', he', hen'⟩ := hQ2 e he
          exact Or.inr ⟨e', he', hen'.trans hen⟩
  · intro x g0 hx
    by_cases hxv : x = v
    · subst hxv; exact Or.inr hQ3
    · simp only [upd, if_neg hxv] at hx
      rcases hI.known x g0 hx with h | ⟨e, he, hen⟩
      · exact Or.inl h
      · obtain ⟨e', he', hen'⟩ := hQ2 e he
        exact Or.inr ⟨e', he', hen'.trans hen⟩

/-- side facts carried through the relaxation of the neighbours of `u` -/
structure Side (G : Graph α) (s : Nat) (u : Entry α) (C0 : List Nat) (st : AState α) : Prop where
  hcl : st.closed = u.node :: C0
  hdu : st.dist u.node = some u.g
  hTu : ∃ p, Tree G s st.prev C0 u.node u.g p
  hs : s ∈ st.closed

theorem relaxStep_inv (hW : WeightsOk A G) (hQ : QueueSpec Q Good) (hr : InRange G n) (u : Entry α) (C0 : List Nat) (vs : List Nat) (v : Nat)
    (st : AState α) (hv : v ∈ G.adj u.node) (hS : Side G s u C0 st)
    (hI : Inv Good A G s t n (fun a y => a = u.node ∧ y ∈ v :: vs) st) :
    ∃ st', relaxStep A Q t u st v = .ok st' ∧ Side G s u C0 st' ∧
      Inv Good A G s t n (fun a y => a = u.node ∧ y ∈ vs) st' := by
  obtain ⟨hcl, hdu, hTu, hs⟩ := hS
  have hunc : u.node ∈ st.closed := by rw [hcl]; simp
  obtain ⟨hwt, hw0⟩ := hW.2 u.node v hv
  have hvn : v < n := hr _ _ hv
  have hex : ∀ a y, ¬ (a = u.node ∧ y ∈ vs) → (a = u.node ∧ y ∈ v :: vs) → a = u.node ∧ y = v := by
    intro a y h1 h2
    refine ⟨h2.1, ?_⟩
    rcases List.mem_cons.1 h2.2 with h | h
    · exact h
    · exact absurd ⟨h2.1, h⟩ h1
  -- the walk to u extended by the edge (u, v)
  have walk_uv : ∃ p, isWalk G s p ∧ endOf s p = v ∧ cost G s p = u.g + G.w u.node v := by
    obtain ⟨p, hp⟩ := hTu
    obtain ⟨i1, i2, i3⟩ := hp.walk
    refine ⟨p ++ [v], ?_, ?_, ?_⟩
    · rw [isWalk_append]; exact ⟨i1, by simp [isWalk, i2, hv]⟩
    · rw [endOf_append]; simp [endOf]
    · rw [cost_append, i2, i3]; simp [cost]
  unfold relaxStep
  by_cases hvc : v ∈ st.closed
  · rw [if_pos hvc]
    refine ⟨st, rfl, ⟨hcl, hdu, hTu, hs⟩, shrink_inv u.node v hI hex ?_⟩
    intro gu hgu
    rw [hdu] at hgu; cases hgu
    obtain ⟨_, gv, hgv, hopt, _⟩ := hI.closed_ok v hvc
    obtain ⟨p, hp1, hp2, hp3⟩ := walk_uv
    exact ⟨gv, hgv, by rw [← hp3]; exact hopt p hp1 hp2, Or.inl hvc⟩
  · rw [if_neg hvc]
    simp only [hwt]
    rw [if_neg (not_lt.2 hw0)]
    cases hfind : st.openQ.find? (fun e => e.node == v) with
    | none =>
      have hnot : ∀ e ∈ st.openQ, e.node ≠ v := by
        intro e he
        have := List.find?_eq_none.1 hfind e he
        simpa using this
      have hdv : st.dist v = none := by
        cases hd : st.dist v with
        | none => rfl
        | some g0 =>
          rcases hI.known v g0 hd with h | ⟨e, he, hen⟩
          · exact absurd h hvc
          · exact absurd hen (hnot e he)
      refine ⟨_, rfl, ⟨hcl, ?_, ?_, hs⟩, ?_⟩
      · have : u.node ≠ v := fun e => hvc (e ▸ hunc)
        simp [upd, this, hdu]
      · obtain ⟨p, hp⟩ := hTu
        refine ⟨p, hp.upd v u.node ?_ (fun e => hvc (e ▸ hunc))⟩
        intro hm; exact hvc (by rw [hcl]; exact List.mem_cons_of_mem _ hm)
      · obtain ⟨hpg, hpm⟩ := hQ.push st.openQ ⟨v, u.g + G.w u.node v, u.g + G.w u.node v + A.h v t⟩ hI.good
          (fun x hx => hnot x hx)
        refine improve_inv st u C0 v (G.w u.node v) _ hv rfl hvn hcl hdu hTu hs hvc ?_ ?_ ?_ ?_ hpg hex hI
        · intro gy hgy; rw [hdv] at hgy; cases hgy
        · intro e' he'
          rcases (hpm e').1 he' with h | h
          · exact Or.inl ⟨h, hnot e' h⟩
          · right; exact h
        · intro e he; exact ⟨e, (hpm e).2 (Or.inl he), rfl⟩
        · exact ⟨_, (hpm _).2 (Or.inr rfl), rfl⟩
    | some nn =>
      have hnm : nn ∈ st.openQ := List.mem_of_find?_eq_some hfind
      have hnv : nn.node = v := by simpa using List.find?_some hfind
      obtain ⟨_, hnd, _, _⟩ := hI.open_ok nn hnm
      rw [hnv] at hnd
      simp only []
      by_cases hlt : u.g + G.w u.node v < nn.g
      · rw [if_pos hlt]
        refine ⟨_, rfl, ⟨hcl, ?_, ?_, hs⟩, ?_⟩
        · have : u.node ≠ v := fun e => hvc (e ▸ hunc)
          simp [upd, this, hdu]
        · obtain ⟨p, hp⟩ := hTu
          refine ⟨p, hp.upd v u.node ?_ (fun e => hvc (e ▸ hunc))⟩
          intro hm; exact hvc (by rw [hcl]; exact List.mem_cons_of_mem _ hm)
        · obtain ⟨hug, hum⟩ := hQ.update st.openQ v (u.g + G.w u.node v) (u.g + G.w u.node v + A.h v t) hI.good
            ⟨nn, hnm, hnv⟩
          refine improve_inv st u C0 v (G.w u.node v) _ hv rfl hvn hcl hdu hTu hs hvc ?_ ?_ ?_ ?_ hug hex hI
          · intro gy hgy; rw [hnd] at hgy; cases hgy; exact le_of_lt hlt
          · intro e' he'
            exact (hum e').1 he'
          · intro e he
            by_cases hev : e.node = v
            · exact ⟨_, (hum _).2 (Or.inr rfl), hev.symm⟩
            · exact ⟨e, (hum e).2 (Or.inl ⟨he, hev⟩), rfl⟩
          · exact ⟨_, (hum _).2 (Or.inr rfl), rfl⟩
      · rw [if_neg hlt]
        refine ⟨st, rfl, ⟨hcl, hdu, hTu, hs⟩, shrink_inv u.node v hI hex ?_⟩
        intro gu hgu
        rw [hdu] at hgu; cases hgu
        exact ⟨nn.g, hnd, not_lt.1 hlt, Or.inr ⟨nn, hnm, hnv⟩⟩

theorem relaxAll_inv (hW : WeightsOk A G) (hQ : QueueSpec Q Good) (hr : InRange G n) (u : Entry α) (C0 : List Nat) (vs : List Nat)
    (st : AState α) (hvs : ∀ v ∈ vs, v ∈ G.adj u.node) (hS : Side G s u C0 st)
    (hI : Inv Good A G s t n (fun a y => a = u.node ∧ y ∈ vs) st) :
    ∃ st', relaxAll A Q t u st vs = .ok st' ∧ Side G s u C0 st' ∧ Inv Good A G s t n (fun _ _ => False) st' := by
  induction vs generalizing st with
  | nil =>
    refine ⟨st, rfl, hS, ?_⟩
    refine ⟨hI.open_ok, hI.sound, ?_, hI.start, hI.known, hI.nodup, hI.good⟩
    intro a ha
    obtain ⟨han, gu, hgu, hopt, hn⟩ := hI.closed_ok a ha
    exact ⟨han, gu, hgu, hopt, fun y hy _ => hn y hy (by simp)⟩
  | cons v vs ih =>
    obtain ⟨st1, h1, hS1, hI1⟩ := relaxStep_inv hW hQ hr u C0 vs v st (hvs v (by simp)) hS hI
    obtain ⟨st2, h2, hS2, hI2⟩ := ih st1 (fun x hx => hvs x (List.mem_cons_of_mem _ hx)) hS1 hI1
    exact ⟨st2, by simp [relaxAll, h1, h2], hS2, hI2⟩

/-- what the loop leaves behind -/
def Post (G : Graph α) (s t : Nat) (st : AState α) : Prop :=
  (∃ c p, st.dist t = some c ∧ IsMinCost G s t c ∧ Tree G s st.prev st.closed t c p) ∨
  (st.dist t = none ∧ ¬ Reachable G s t)

theorem astarLoop_post (hW : WeightsOk A G) (hC : Consistent G A.h t) (hQ : QueueSpec Q Good) (hr : InRange G n)
    (fuel : Nat) (st : AState α) (hI : Inv Good A G s t n (fun _ _ => False) st)
    (hf : n + 1 ≤ fuel + st.closed.length) :
    ∃ st', astarLoop A Q t fuel st = .ok st' ∧ Post G s t st' ∧ st'.closed.length ≤ n := by
  have hclen : ∀ st : AState α, Inv Good A G s t n (fun _ _ => False) st → st.closed.length ≤ n := by
    intro st hI
    exact nodup_length_le _ _ hI.nodup (fun x hx => (hI.closed_ok x hx).1)
  induction fuel generalizing st with
  | zero =>
    have := hclen st hI
    omega
  | succ fuel ih =>
    unfold astarLoop
    cases hpick : Q.pop st.openQ with
    | none =>
      have hempty : st.openQ = [] := (hQ.pop_none _).1 hpick
      refine ⟨st, rfl, ?_, hclen st hI⟩
      have hs : s ∈ st.closed := by
        rcases hI.start with h | h
        · exact h
        · rw [hempty] at h; cases h
      cases hd : st.dist t with
      | some c =>
        left
        have htc : t ∈ st.closed := by
          rcases hI.known t c hd with h | ⟨e, he, _⟩
          · exact h
          · rw [hempty] at he; cases he
        obtain ⟨_, gu, hgu, hopt, _⟩ := hI.closed_ok t htc
        rw [hd] at hgu; cases hgu
        obtain ⟨p, hp⟩ := hI.sound t c hd
        obtain ⟨i1, i2, i3⟩ := hp.walk
        exact ⟨c, p, hd, ⟨⟨p, i1, i2, i3⟩, hopt⟩, hp⟩
      | none =>
        right
        refine ⟨hd, ?_⟩
        rintro ⟨p, hp, he⟩
        have allc : ∀ (q : List Nat) (x : Nat), x ∈ st.closed → isWalk G x q → endOf x q ∈ st.closed := by
          intro q
          induction q with
          | nil => intro x hx _; exact hx
          | cons y q ihq =>
            intro x hx hq
            simp only [isWalk] at hq
            obtain ⟨_, gu, _, _, hn⟩ := hI.closed_ok x hx
            obtain ⟨gy, _, _, h3⟩ := hn y hq.1 (fun h => h)
            rcases h3 with h | ⟨e, he, _⟩
            · exact ihq y h hq.2
            · rw [hempty] at he; cases he
        have htc := allc p s hs hp
        rw [he] at htc
        obtain ⟨_, gu, hgu, _, _⟩ := hI.closed_ok t htc
        rw [hd] at hgu; cases hgu
    | some ur =>
      obtain ⟨u, rest⟩ := ur
      obtain ⟨hu, hmin, _, _⟩ := hQ.pop _ _ _ hI.good hpick
      simp only []
      by_cases hut : u.node = t
      · rw [if_pos hut]
        refine ⟨_, rfl, ?_, hclen st hI⟩
        left
        obtain ⟨_, hud, _, _⟩ := hI.open_ok u hu
        rw [hut] at hud
        obtain ⟨p, hp⟩ := hI.sound t u.g hud
        obtain ⟨i1, i2, i3⟩ := hp.walk
        refine ⟨u.g, p, hud, ⟨⟨p, i1, i2, i3⟩, ?_⟩, hp⟩
        intro q hq he
        exact pop_optimal hW hC hI u hu hmin q hq (he.trans hut.symm)
      · rw [if_neg hut]
        obtain ⟨hI1, hs1⟩ := pop_inv hW hC hQ hI u rest hpick
        obtain ⟨_, hud, hunc, _⟩ := hI.open_ok u hu
        have hS : Side G s u st.closed { st with openQ := rest, closed := u.node :: st.closed } :=
          ⟨rfl, hud, hI.sound _ _ hud, hs1⟩
        have hfrm : A.frm u.node = G.adj u.node := hW.1 u.node
        rw [hfrm]
        obtain ⟨st2, h2, hS2, hI2⟩ := relaxAll_inv hW hQ hr u st.closed (G.adj u.node) _ (fun v hv => hv) hS hI1
        rw [h2]
        simp only []
        have hlen : st2.closed.length = st.closed.length + 1 := by rw [hS2.hcl]; simp
        exact ih st2 hI2 (by omega)

end GeomV.C19
