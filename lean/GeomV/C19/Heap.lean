import Mathlib.Tactic.Linarith
import Mathlib.Tactic.SplitIfs
import Mathlib.Order.Basic
import Mathlib.Data.List.Perm.Basic
import Mathlib.Data.List.Nodup
import GeomV.C19.Spec
/-
C19: gonum's `aStarQueue` under Go's `container/heap` (`heapUp`/`heapDown`/`heapPush`/`heapPop`/`heapFix`/
`heapUpdate` of Model.lean) is a priority queue in the sense of `QueueSpec`: the invariant is the heap
order of the slice plus "at most one entry per node".
-/
set_option linter.unusedVariables false
set_option linter.unusedSimpArgs false
set_option linter.unusedSectionVars false
namespace GeomV.C19

variable {α : Type} [Zero α] [Add α] [LinearOrder α]

/-- slot `k` (inside the prefix of length `n`) is not smaller than its parent slot -/
def OrdAt (a : Array (Entry α)) (n k : Nat) : Prop :=
  ∀ (hk : k < a.size), k < n → 0 < k → (a[(k - 1) / 2]'(by omega)).f ≤ a[k].f

/-- `up`: if the heap order holds everywhere except between `j` and its parent, and the children of `j`
are not smaller than the parent of `j`, the result is heap ordered (and a permutation) -/
theorem heapUp_spec (j : Nat) : ∀ (a : Array (Entry α)),
    (∀ k, k ≠ j → OrdAt a a.size k) →
    (∀ k (hk : k < a.size) (hj : j < a.size), 0 < j → 0 < k → (k - 1) / 2 = j → (a[(j - 1) / 2]'(by omega)).f ≤ a[k].f) →
    (heapUp a j).size = a.size ∧ (heapUp a j).Perm a ∧ ∀ k, OrdAt (heapUp a j) a.size k := by
  induction j using Nat.strong_induction_on with
  | _ j ih =>
    intro a h1 h2
    rw [heapUp]
    split_ifs with h hlt
    · -- swap with the parent and continue there
      have hp : (j - 1) / 2 < j := by omega
      set a' := a.swap ((j - 1) / 2) j (by omega) h.2 with ha'
      have hsz : a'.size = a.size := by simp [ha']
      have := ih ((j - 1) / 2) hp a' ?_ ?_
      · rw [hsz] at this
        exact ⟨this.1, this.2.1.trans (Array.swap_perm _ _), this.2.2⟩
      · intro k hk hks hkn hk0
        simp only [ha', Array.getElem_swap]
        have hsz' : k < a.size := by rw [← hsz]; exact hks
        by_cases hkj : k = j
        · subst hkj
          have e1 : ¬ (k - 1) / 2 = k := by omega
          simp only [if_true, if_neg e1, if_pos rfl]
          rw [if_neg (by omega)]
          exact le_of_lt hlt
        · by_cases hpk : (k - 1) / 2 = j
          · -- child of j: compare with the old parent of j
            have := h2 k hsz' h.2 h.1 hk0 hpk
            rw [if_neg (by omega), if_pos hpk, if_neg hk, if_neg hkj]
            exact this
          · by_cases hpp : (k - 1) / 2 = (j - 1) / 2
            · -- sibling side: child of the parent slot
              have := h1 k hkj hsz' hsz' hk0
              rw [if_pos hpp, if_neg hk, if_neg hkj]
              simp only [hpp] at this
              exact le_trans (le_of_lt hlt) this
            · rw [if_neg hpp, if_neg hpk, if_neg hk, if_neg hkj]
              exact h1 k hkj hsz' hsz' hk0
      · intro k hk hj' hp0 hk0 hkp
        simp only [ha', Array.getElem_swap]
        have hsz' : k < a.size := by rw [← hsz]; exact hk
        have q1 : ¬ ((j - 1) / 2 - 1) / 2 = (j - 1) / 2 := by omega
        have q2 : ¬ ((j - 1) / 2 - 1) / 2 = j := by omega
        rw [if_neg q1, if_neg q2]
        have hpar := h1 ((j - 1) / 2) (by omega) (by omega) (by omega) hp0
        by_cases hkj : k = j
        · subst hkj
          rw [if_neg (by omega), if_pos rfl]
          exact hpar
        · rw [if_neg (by omega), if_neg hkj]
          have := h1 k hkj hsz' hsz' hk0
          simp only [hkp] at this
          exact le_trans hpar this
    · -- the parent is not larger: done
      refine ⟨rfl, Array.Perm.refl _, ?_⟩
      intro k
      by_cases hkj : k = j
      · subst hkj
        intro hk _ _
        exact not_lt.1 hlt
      · exact h1 k hkj
    · refine ⟨rfl, Array.Perm.refl _, ?_⟩
      intro k
      by_cases hkj : k = j
      · subst hkj
        intro hk _ hk0
        exact absurd ⟨hk0, hk⟩ h
      · exact h1 k hkj

theorem heapChild_spec (a : Array (Entry α)) (i n : Nat) (hn : n ≤ a.size) (h1 : 2 * i + 1 < n) :
    (heapChild a i n hn h1 = 2 * i + 1 ∨ heapChild a i n hn h1 = 2 * i + 2) ∧ heapChild a i n hn h1 < n ∧
    ∀ k (hk : k < a.size) (hj : heapChild a i n hn h1 < a.size), k < n → (k = 2 * i + 1 ∨ k = 2 * i + 2) →
      (a[heapChild a i n hn h1]'hj).f ≤ a[k].f := by
  unfold heapChild
  split_ifs with h2 h3
  · refine ⟨Or.inr rfl, h2, ?_⟩
    intro k hk hj hkn hk2
    rcases hk2 with rfl | rfl
    · exact le_of_lt h3
    · exact le_refl _
  · refine ⟨Or.inl rfl, h1, ?_⟩
    intro k hk hj hkn hk2
    rcases hk2 with rfl | rfl
    · exact le_refl _
    · exact not_lt.1 h3
  · refine ⟨Or.inl rfl, h1, ?_⟩
    intro k hk hj hkn hk2
    rcases hk2 with rfl | rfl
    · exact le_refl _
    · omega

/-- `down` inside the prefix of length `n`: if the heap order holds everywhere except between `i` and its
children, and the children of `i` are not smaller than the parent of `i`, the result is heap ordered on the
prefix, a permutation, and untouched from slot `n` on; the returned slot is `i` only if nothing moved -/
theorem heapDown_spec (n : Nat) (m : Nat) : ∀ (a : Array (Entry α)) (i : Nat) (hn : n ≤ a.size), n - i = m →
    (∀ k, (k - 1) / 2 ≠ i → OrdAt a n k) →
    (∀ k (hk : k < a.size) (hi : i < a.size), k < n → 0 < i → 0 < k → (k - 1) / 2 = i → (a[(i - 1) / 2]'(by omega)).f ≤ a[k].f) →
    (heapDown a i n hn).1.size = a.size ∧ (heapDown a i n hn).1.Perm a ∧ (∀ k, OrdAt (heapDown a i n hn).1 n k) ∧
    (∀ k (hk : k < a.size) (hk' : k < (heapDown a i n hn).1.size), n ≤ k → (heapDown a i n hn).1[k] = a[k]) ∧
    i ≤ (heapDown a i n hn).2 ∧ ((heapDown a i n hn).2 = i → (heapDown a i n hn).1 = a) := by
  induction m using Nat.strong_induction_on with
  | _ m ih =>
    intro a i hn hm h1 h2
    rw [heapDown]
    dsimp only
    split_ifs with hc hlt
    · obtain ⟨hj12, hjn, hjmin⟩ := heapChild_spec a i n hn hc
      set j := heapChild a i n hn hc with hj
      have hij : i < j := by omega
      have hja : j < a.size := by omega
      have hia : i < a.size := by omega
      set a' := a.swap i j hia hja with ha'
      have hsz : a'.size = a.size := by simp [ha']
      have hn' : n ≤ a'.size := by rw [hsz]; exact hn
      have hpj : (j - 1) / 2 = i := by omega
      have := ih (n - j) (by omega) a' j hn' rfl ?_ ?_
      · obtain ⟨r1, r2, r3, r4, r5, r6⟩ := this
        refine ⟨r1.trans hsz, r2.trans (Array.swap_perm _ _), r3, ?_, le_trans (le_of_lt hij) r5, ?_⟩
        · intro k hk hk' hnk
          rw [r4 k (by rw [hsz]; exact hk) hk' hnk]
          simp only [ha', Array.getElem_swap]
          rw [if_neg (by omega), if_neg (by omega)]
        · intro h
          have h' : (heapDown a' j n hn').2 = i := h
          omega
      · intro k hkp hk hkn hk0
        have hka : k < a.size := by rw [← hsz]; exact hk
        simp only [ha', Array.getElem_swap]
        by_cases hkj : k = j
        · subst hkj
          rw [if_pos hpj, if_neg (by omega), if_pos rfl]
          exact le_of_lt hlt
        · by_cases hpk : (k - 1) / 2 = i
          · rw [if_pos hpk, if_neg (by omega), if_neg hkj]
            exact hjmin k hka hja hkn (by omega)
          · by_cases hki : k = i
            · subst hki
              rw [if_neg hpk, if_neg (by omega), if_pos rfl]
              exact h2 j hja hia hjn hk0 (by omega) hpj
            · rw [if_neg hpk, if_neg hkp, if_neg hki, if_neg hkj]
              exact h1 k hpk hka hkn hk0
      · intro k hk hj' hkn hj0 hk0 hkp
        have hka : k < a.size := by rw [← hsz]; exact hk
        simp only [ha', Array.getElem_swap]
        rw [if_pos hpj, if_neg (by omega), if_neg (by omega)]
        have := h1 k (by omega) hka hkn hk0
        simp only [hkp] at this
        exact this
    · obtain ⟨hj12, hjn, hjmin⟩ := heapChild_spec a i n hn hc
      refine ⟨rfl, Array.Perm.refl _, ?_, fun _ _ _ _ => rfl, le_refl _, fun _ => rfl⟩
      intro k
      by_cases hpk : (k - 1) / 2 = i
      · intro hk hkn hk0
        have h3 := hjmin k hk (by omega) hkn (by omega)
        simp only [hpk]
        exact le_trans (not_lt.1 hlt) h3
      · exact h1 k hpk
    · refine ⟨rfl, Array.Perm.refl _, ?_, fun _ _ _ _ => rfl, le_refl _, fun _ => rfl⟩
      intro k
      by_cases hpk : (k - 1) / 2 = i
      · intro hk hkn hk0
        omega
      · exact h1 k hpk

/-! ### the queue operations -/

/-- the invariant of gonum's queue: heap order, at most one entry per node -/
def HeapOk (a : Array (Entry α)) : Prop := (∀ k, OrdAt a a.size k) ∧ (a.toList.map (·.node)).Nodup

/-- the same on the list the model carries (`q.nodes`) -/
def GoodH (l : List (Entry α)) : Prop := HeapOk l.toArray

theorem root_min (a : Array (Entry α)) (h : ∀ k, OrdAt a a.size k) (k : Nat) :
    ∀ (hk : k < a.size), (a[0]'(by omega)).f ≤ a[k].f := by
  induction k using Nat.strong_induction_on with
  | _ k ih =>
    intro hk
    by_cases hk0 : k = 0
    · subst hk0; exact le_refl _
    · have h1 := h k hk hk (by omega)
      have h2 := ih ((k - 1) / 2) (by omega) (by omega)
      exact le_trans h2 h1

theorem node_inj (a : Array (Entry α)) (hnd : (a.toList.map (·.node)).Nodup) (i k : Nat) (hi : i < a.size) (hk : k < a.size)
    (h : a[i].node = a[k].node) : i = k := by
  have := @List.Nodup.getElem_inj_iff _ _ hnd i (by simpa using hi) k (by simpa using hk)
  apply this.1
  simpa using h

theorem perm_nodes {a b : Array (Entry α)} (h : a.Perm b) :
    ((a.toList.map (·.node)).Nodup ↔ (b.toList.map (·.node)).Nodup) ∧ ∀ x, x ∈ a.toList ↔ x ∈ b.toList := by
  have hp := Array.perm_iff_toList_perm.1 h
  exact ⟨(hp.map _).nodup_iff, fun x => hp.mem_iff⟩

/-- `heap.Push` -/
theorem heapPush_spec (a : Array (Entry α)) (e : Entry α) (hok : HeapOk a) (hfresh : ∀ x ∈ a.toList, x.node ≠ e.node) :
    HeapOk (heapPush a e) ∧ ∀ x, x ∈ (heapPush a e).toList ↔ (x ∈ a.toList ∨ x = e) := by
  unfold heapPush
  have hsz : (a.push e).size = a.size + 1 := by simp
  have hspec := heapUp_spec a.size (a.push e) ?_ ?_
  · obtain ⟨r1, r2, r3⟩ := hspec
    obtain ⟨p1, p2⟩ := perm_nodes r2
    refine ⟨⟨?_, ?_⟩, ?_⟩
    · intro k; rw [r1]; exact r3 k
    · rw [p1, Array.toList_push, List.map_append, List.nodup_append]
      refine ⟨hok.2, by simp, ?_⟩
      intro x hx y hy
      simp at hy; subst hy
      obtain ⟨z, hz, rfl⟩ := List.mem_map.1 hx
      exact hfresh z hz
    · intro x; rw [p2, Array.toList_push]; simp
  · intro k hkj hk hk' hk0
    have hka : k < a.size := by omega
    simp only [Array.getElem_push]
    rw [dif_pos (by omega), dif_pos hka]
    exact hok.1 k hka hka hk0
  · intro k hk hj hj0 hk0 hkp
    omega

/-- `heap.Pop` -/
theorem heapPop_spec (a : Array (Entry α)) (hok : HeapOk a) (m : Entry α) (r : Array (Entry α))
    (h : heapPop a = some (m, r)) :
    m ∈ a.toList ∧ (∀ x ∈ a.toList, m.f ≤ x.f) ∧ (∀ x, x ∈ r.toList ↔ (x ∈ a.toList ∧ x.node ≠ m.node)) ∧ HeapOk r := by
  unfold heapPop at h
  split_ifs at h with h0
  set a1 := a.swap 0 (a.size - 1) h0 (by omega) with ha1
  have hsz1 : a1.size = a.size := by simp [ha1]
  have hn1 : a.size - 1 ≤ a1.size := by omega
  have hspec := heapDown_spec (a.size - 1) _ a1 0 hn1 rfl ?_ ?_
  · obtain ⟨r1, r2, r3, r4, _, _⟩ := hspec
    simp only [] at h
    set a2 := (heapDown a1 0 (a.size - 1) hn1).1 with ha2
    have h' : (match a2.back? with | some m => some (m, a2.pop) | none => none) = some (m, r) := h
    cases hb : a2.back? with
    | none => rw [hb] at h'; cases h'
    | some m' =>
      rw [hb] at h'
      simp only [Option.some.injEq, Prod.mk.injEq] at h'
      obtain ⟨rfl, rfl⟩ := h'
      obtain ⟨ys, hys⟩ := Array.back?_eq_some_iff.1 hb
      have hpop : a2.pop = ys := by rw [hys, Array.pop_push]
      have hlist : a2.toList = ys.toList ++ [m'] := by rw [hys, Array.toList_push]
      have hperm : a2.Perm a := r2.trans (Array.swap_perm _ _)
      obtain ⟨p1, p2⟩ := perm_nodes hperm
      have hnd2 : (a2.toList.map (·.node)).Nodup := p1.2 hok.2
      rw [hlist, List.map_append, List.nodup_append] at hnd2
      obtain ⟨nd1, _, nd3⟩ := hnd2
      -- the popped entry is the old root
      have hsz2 : a2.size = a.size := r1.trans hsz1
      have hm : m' = a[0] := by
        have e1 : a2[a.size - 1]'(by omega) = a1[a.size - 1]'(by omega) := r4 (a.size - 1) (by omega) (by omega) (le_refl _)
        have e2 : a1[a.size - 1]'(by omega) = a[0] := by
          simp only [ha1, Array.getElem_swap]
          split_ifs with q1
          · simp only [q1]
          · rfl
        have e3 : a2.back? = some (a2[a.size - 1]'(by omega)) := by
          rw [Array.back?_eq_getElem?]
          have : a2.size - 1 = a.size - 1 := by omega
          simp only [this]
          exact Array.getElem?_eq_getElem _
        rw [hb] at e3
        simp only [Option.some.injEq] at e3
        rw [e3, e1, e2]
      have hysz : ys.size = a.size - 1 := by
        have : a2.size = ys.size + 1 := by rw [hys]; simp
        omega
      rw [hpop]
      refine ⟨?_, ?_, ?_, ⟨?_, nd1⟩⟩
      · rw [hm]; simp
      · intro x hx
        obtain ⟨k, hk, rfl⟩ := Array.mem_iff_getElem.1 (Array.mem_toList_iff.1 hx)
        rw [hm]
        exact root_min a hok.1 k hk
      · intro x
        constructor
        · intro hx
          refine ⟨(p2 x).1 (by rw [hlist]; simp [hx]), ?_⟩
          exact nd3 _ (List.mem_map.2 ⟨x, hx, rfl⟩) _ (by simp)
        · rintro ⟨hx, hne⟩
          have := (p2 x).2 hx
          rw [hlist] at this
          rcases List.mem_append.1 this with h1 | h1
          · exact h1
          · simp at h1; subst h1; exact absurd rfl hne
      · intro k hk hk' hk0
        have hk2 : k < a2.size := by omega
        have := r3 k hk2 (by omega) hk0
        have g1 : ys[k] = a2[k] := by simp [hys, Array.getElem_push, hk]
        have g2 : ys[(k - 1) / 2]'(by omega) = a2[(k - 1) / 2]'(by omega) := by
          simp only [hys, Array.getElem_push]
          rw [dif_pos (by omega)]
        rw [g1, g2]
        exact this
  · intro k hkp hk hkn hk0
    simp only [ha1, Array.getElem_swap]
    rw [if_neg hkp, if_neg (by omega), if_neg (by omega), if_neg (by omega)]
    exact hok.1 k (by omega) (by omega) hk0
  · intro k hk hi hkn hi0
    omega

theorem heapDown_noop (a : Array (Entry α)) (i n : Nat) (hn : n ≤ a.size)
    (h : ∀ (hc : 2 * i + 1 < n), ¬ (a[heapChild a i n hn hc]'(by have := heapChild_lt a i n hn hc; omega)).f < (a[i]'(by omega)).f) :
    heapDown a i n hn = (a, i) := by
  rw [heapDown]
  dsimp only
  split_ifs with hc hlt
  · exact absurd hlt (h hc)
  · rfl
  · rfl

/-- `heap.Fix` after slot `i` changed: whatever the new value, if all pairs that do not involve slot `i`
are ordered and the children of `i` are not smaller than the parent of `i` (both inherited from the heap
before the change), the result is heap ordered -/
theorem heapFix_spec (a : Array (Entry α)) (i : Nat) (hi : i < a.size)
    (h1 : ∀ k, k ≠ i → (k - 1) / 2 ≠ i → OrdAt a a.size k)
    (h2 : ∀ k (hk : k < a.size) (hj : i < a.size), 0 < i → 0 < k → (k - 1) / 2 = i → (a[(i - 1) / 2]'(by omega)).f ≤ a[k].f) :
    (heapFix a i).size = a.size ∧ (heapFix a i).Perm a ∧ ∀ k, OrdAt (heapFix a i) a.size k := by
  unfold heapFix
  by_cases hA : 0 < i ∧ a[i].f < (a[(i - 1) / 2]'(by omega)).f
  · -- the new value is below the parent: `down` does nothing, `up` repairs
    have hno : heapDown a i a.size (Nat.le_refl _) = (a, i) := by
      apply heapDown_noop
      intro hc
      obtain ⟨hj12, hjn, _⟩ := heapChild_spec a i a.size (Nat.le_refl _) hc
      have := h2 (heapChild a i a.size (Nat.le_refl _) hc) hjn hi hA.1 (by omega) (by omega)
      exact not_lt.2 (le_trans (le_of_lt hA.2) this)
    simp only [hno, lt_irrefl, if_false]
    refine heapUp_spec i a ?_ h2
    intro k hki
    by_cases hpk : (k - 1) / 2 = i
    · intro hk _ hk0
      have := h2 k hk hi hA.1 hk0 hpk
      simp only [hpk]
      exact le_trans (le_of_lt hA.2) this
    · exact h1 k hki hpk
  · have hspec := heapDown_spec a.size _ a i (Nat.le_refl _) rfl ?_ ?_
    · obtain ⟨r1, r2, r3, _, r5, r6⟩ := hspec
      simp only []
      split_ifs with hmv
      · exact ⟨r1, r2, r3⟩
      · have heq : (heapDown a i a.size (Nat.le_refl _)).1 = a := r6 (by omega)
        rw [heq] at r3 ⊢
        refine heapUp_spec i a (fun k _ => r3 k) ?_
        intro k hk hj hi0 hk0 hkp
        have q1 := r3 k hk hk hk0
        have q2 := r3 i hi hi hi0
        simp only [hkp] at q1
        exact le_trans q2 q1
    · intro k hpk
      by_cases hki : k = i
      · subst hki
        intro hk _ hk0
        exact not_lt.1 (fun hlt => hA ⟨hk0, hlt⟩)
      · exact h1 k hki hpk
    · intro k hk hi' _ hi0 hk0 hkp
      exact h2 k hk hi hi0 hk0 hkp

/-- `aStarQueue.update` -/
theorem heapUpdate_spec (a : Array (Entry α)) (v : Nat) (g f : α) (hok : HeapOk a) (hex : ∃ x ∈ a.toList, x.node = v) :
    HeapOk (heapUpdate a v g f) ∧
    ∀ x, x ∈ (heapUpdate a v g f).toList ↔ ((x ∈ a.toList ∧ x.node ≠ v) ∨ x = ⟨v, g, f⟩) := by
  unfold heapUpdate
  cases hfi : a.findFinIdx? (fun e => e.node == v) with
  | none =>
    obtain ⟨x, hx, hxv⟩ := hex
    have := Array.findFinIdx?_eq_none_iff.1 hfi x (Array.mem_toList_iff.1 hx)
    simp [hxv] at this
  | some i =>
    have hnode : a[i].node = v := by
      have := (Array.findFinIdx?_eq_some_iff.1 hfi).1
      simpa using this
    simp only []
    have hnode' : (a[(i : Nat)]'i.2).node = v := hnode
    have hnew : ({ a[i] with g := g, f := f } : Entry α) = ⟨v, g, f⟩ := by simp [hnode']
    rw [hnew]
    set a1 := a.set i ⟨v, g, f⟩ i.2 with ha1
    have hsz : a1.size = a.size := by simp [ha1]
    have hi1 : (i : Nat) < a1.size := by rw [hsz]; exact i.2
    have hspec := heapFix_spec a1 i hi1 ?_ ?_
    · obtain ⟨r1, r2, r3⟩ := hspec
      obtain ⟨p1, p2⟩ := perm_nodes r2
      have hnodes : a1.toList.map (·.node) = a.toList.map (·.node) := by
        apply List.ext_getElem (by simp [ha1])
        intro k hk1 hk2
        simp only [ha1, List.getElem_map, Array.getElem_toList, Array.getElem_set]
        split_ifs with hik
        · subst hik; exact hnode.symm
        · rfl
      refine ⟨⟨?_, ?_⟩, ?_⟩
      · intro k; rw [r1]; exact r3 k
      · rw [p1, hnodes]; exact hok.2
      · intro x
        rw [p2]
        constructor
        · intro hx
          obtain ⟨k, hk, rfl⟩ := Array.mem_iff_getElem.1 (Array.mem_toList_iff.1 hx)
          simp only [ha1, Array.getElem_set]
          split_ifs with hik
          · right; trivial
          · left
            have hka : k < a.size := by rw [← hsz]; exact hk
            refine ⟨by simp, ?_⟩
            intro hkv
            exact hik (node_inj a hok.2 i k i.2 hka (hnode'.trans hkv.symm))
        · rintro (⟨hx, hxv⟩ | rfl)
          · obtain ⟨k, hk, rfl⟩ := Array.mem_iff_getElem.1 (Array.mem_toList_iff.1 hx)
            have hik : (i : Nat) ≠ k := by
              intro e; apply hxv; subst e; exact hnode'
            have : a1[k]'(by rw [hsz]; exact hk) = a[k] := by
              simp only [ha1, Array.getElem_set, if_neg hik]
            rw [← this]
            exact Array.mem_toList_iff.2 (Array.getElem_mem _)
          · have : a1[(i : Nat)]'hi1 = ⟨v, g, f⟩ := by simp [ha1]
            rw [← this]
            exact Array.mem_toList_iff.2 (Array.getElem_mem _)
    · intro k hki hpk hk hk' hk0
      have hka : k < a.size := by rw [← hsz]; exact hk
      simp only [ha1, Array.getElem_set]
      rw [if_neg (Ne.symm hpk), if_neg (Ne.symm hki)]
      exact hok.1 k hka hka hk0
    · intro k hk hj hi0 hk0 hkp
      have hka : k < a.size := by rw [← hsz]; exact hk
      simp only [ha1, Array.getElem_set]
      rw [if_neg (by omega), if_neg (by omega)]
      have q1 := hok.1 k hka hka hk0
      have q2 := hok.1 i i.2 i.2 hi0
      simp only [hkp] at q1
      exact le_trans q2 q1

theorem heapDown_size (n : Nat) (m : Nat) : ∀ (a : Array (Entry α)) (i : Nat) (hn : n ≤ a.size), n - i = m →
    (heapDown a i n hn).1.size = a.size := by
  induction m using Nat.strong_induction_on with
  | _ m ih =>
    intro a i hn hm
    rw [heapDown]
    dsimp only
    split_ifs with hc hlt
    · have hj := heapChild_lt a i n hn hc
      rw [ih (n - heapChild a i n hn hc) (by omega) _ _ _ rfl]
      simp
    · rfl
    · rfl

theorem heapPop_none (a : Array (Entry α)) : heapPop a = none ↔ a.size = 0 := by
  unfold heapPop
  split_ifs with h0
  · have hsz := heapDown_size (a.size - 1) _ (a.swap 0 (a.size - 1) h0 (by omega)) 0 (by simp) rfl
    simp only []
    constructor
    · intro h
      cases hb : (heapDown (a.swap 0 (a.size - 1) h0 (by omega)) 0 (a.size - 1) (by simp)).1.back? with
      | none =>
        rw [Array.back?_eq_getElem?, Array.getElem?_eq_getElem (by rw [hsz]; simp; omega)] at hb
        cases hb
      | some m => rw [hb] at h; cases h
    · intro h; omega
  · exact ⟨fun _ => by omega, fun _ => rfl⟩

/-- **gonum's binary heap is a priority queue**: `aStarQueue` driven by Go's `container/heap`
(`heap.Push` = append + `up`, `heap.Pop` = swap with the last slot + `down` + remove it, `update` =
overwrite the scores + `heap.Fix` = `down`, else `up`) satisfies `QueueSpec` with the invariant "heap
ordered, at most one entry per node": `Pop` returns an entry of MINIMAL fscore and leaves exactly the
entries of the other nodes.  With `astar_optimal` (which assumes only `QueueSpec`) this replaces the
former hypothesis `PickSpec` about an abstract heap. -/
theorem heapQ_spec : QueueSpec (heapQ : Queue α) GoodH := by
  refine ⟨?_, ?_, ?_, ?_, ?_, ?_⟩
  · refine ⟨?_, by simp⟩
    intro k hk; simp at hk
  · intro e
    simp only [heapQ, heapPush]
    rw [heapUp]
    simp
  · intro l e hg hf
    have := heapPush_spec l.toArray e hg (by simpa using hf)
    simp only [heapQ, GoodH]
    exact ⟨by simpa using this.1, fun x => by simpa using this.2 x⟩
  · intro l v g f hg hex
    have := heapUpdate_spec l.toArray v g f hg (by simpa using hex)
    simp only [heapQ, GoodH]
    exact ⟨by simpa using this.1, fun x => by simpa using this.2 x⟩
  · intro l
    simp only [heapQ, Option.map_eq_none_iff, heapPop_none]
    simp
  · intro l m r hg h
    simp only [heapQ, Option.map_eq_some_iff] at h
    obtain ⟨⟨m', r'⟩, h1, h2⟩ := h
    simp only [Prod.mk.injEq] at h2
    obtain ⟨rfl, rfl⟩ := h2
    have := heapPop_spec l.toArray hg m' r' h1
    simp only [GoodH]
    exact ⟨by simpa using this.1, fun x hx => this.2.1 x (by simpa using hx),
      fun x => by simpa using this.2.2.1 x, by simpa using this.2.2.2⟩

end GeomV.C19
