import GeomV.C19.Ties
/-!
# C19 — T1 tie lemmas for the regenerated QUERY-side methods of route.go: `Node`, `Edge`, `From`

(continuation of Ties.lean; same refinement relation `Rep g net`.)

* `tie_Node` : `Node(id)` = the stored node with that id (`nil` when there is none); never a fault.
* `tie_Edge` : `Edge(u, v)` never faults; for an unknown `u` it is `nil`; for a known `u` it is the entry
  `neighbors[u][v]`, which carries the numbers and end-node ids of the model's `neighbor net u v` (`nil` iff the model has
  no link between `u` and `v`).
* `forMap_setIdx` / `tie_From` : the `make` + `range` + `neighbors[i] = …; i++` loop of `From` never faults (no index
  out of range: the slice was made with `len(net.neighbors[n])` slots and the map is visited once per key) and returns,
  for a known node, exactly the `nodeMap` images of the keys of `neighbors[n]` in the order the map was visited; `nil` for an
  unknown node.  `tie_From_mem`: an id is listed iff `neighbors[n]` has that key, i.e. (by `Rep.nb`) iff the model has a
  link between `n` and it (`neighbor net n v ≠ none`) — under ANY visiting order that keeps the entries (`Perm`).
  (That the listed ids are a PERMUTATION of `neighborIds` — no repetition — is `tie_From_perm` in TiesR.lean: `Rep.nbNodup`
  records that the keys of an inner map are distinct, maintained by `mapSet`.)
-/
set_option linter.unusedVariables false
set_option linter.unusedSimpArgs false
set_option linter.unusedSectionVars false
namespace GeomV.C19.Ties
open GeomV GeomV.C19 GeomV.C19.Go GeomV.C19.Gen

variable {α : Type} [Field α] [LinearOrder α] [IsStrictOrderedRing α]
variable {geoOf : Nat → List (Pt α)}

/-- `Node(id)`: the stored node with that id, `nil` (`none`) otherwise; never a fault -/
theorem tie_Node (C : Ctx α) (g : Network α) (net : Net α) (hR : Rep geoOf g net) (id : Nat) :
    network_Node C g id = .ok (net.nodes.find? (fun n => n.id == id)) := by
  unfold network_Node mapGetD mapGet?
  rw [hR.nodeMap, lookup_nodeMap]
  cases net.nodes.find? (fun n => n.id == id) <;> rfl

/-- `Edge(u, v)`: never a fault; `nil` for an unknown `u`; otherwise the entry `neighbors[u][v]`, related to the model's
`neighbor net u v` (same length, speed, time, end-node ids; `nil` iff the model has no such link) -/
theorem tie_Edge (C : Ctx α) (g : Network α) (net : Net α) (hR : Rep geoOf g net) (u v : Nat) :
    ∃ r, network_Edge C g u v = .ok r ∧
      (hasNode net u = false → r = none) ∧
      (hasNode net u = true → match r, neighbor net u v with
        | some ge, some me => ERel geoOf ge me
        | none, none => True
        | _, _ => False) := by
  unfold network_Edge
  rw [tie_Has C g net hR u]
  cases hu : hasNode net u with
  | false =>
    refine ⟨none, rfl, fun _ => rfl, ?_⟩
    intro h; cases h
  | true =>
    refine ⟨_, rfl, ?_, fun _ => ?_⟩
    · intro h; cases h
    have hnb := hR.nb u v
    unfold NbRel at hnb
    unfold mapGetD mapGet? at hnb ⊢
    cases hl : lookup v ((lookup u g.neighbors).getD []) with
    | none =>
      rw [hl] at hnb
      cases hm : neighbor net u v with
      | none => simp
      | some me => rw [hm] at hnb; simp at hnb
    | some x =>
      rw [hl] at hnb
      cases x with
      | none => cases hm : neighbor net u v <;> rw [hm] at hnb <;> simp at hnb
      | some ge =>
        cases hm : neighbor net u v with
        | none => rw [hm] at hnb; simp at hnb
        | some me => rw [hm] at hnb; simpa using hnb

/-! ### the loop of `From` -/

/-- `for k := range m { s[i] = f k; i++ }` on a slice whose slots from `i` on are exactly as many as the keys left:
never an index fault; the visited keys' images are written in order -/
theorem forMapAux_setIdx {β γ : Type} (f : Nat → γ) (z : γ) :
    ∀ (m : List (Nat × β)) (pre : List γ),
    forMapAux (fun (s : List γ × Int) k (_ : β) => do
        let l ← Go.setIdx s.1 s.2 (f k)
        pure (l, s.2 + 1)) m (pre ++ List.replicate m.length z, (pre.length : Int))
      = .ok (pre ++ m.map (fun kv => f kv.1), ((pre.length + m.length : Nat) : Int)) := by
  intro m
  induction m with
  | nil => intro pre; simp [forMapAux, pure, Except.pure]
  | cons kv r ih =>
    intro pre
    obtain ⟨k, v⟩ := kv
    have hset : Go.setIdx (pre ++ List.replicate (r.length + 1) z) (pre.length : Int) (f k)
        = .ok ((pre ++ [f k]) ++ List.replicate r.length z) := by
      unfold Go.setIdx
      have h1 : (0 : Int) ≤ (pre.length : Int) ∧ (pre.length : Int) < ((pre ++ List.replicate (r.length + 1) z).length : Int) := by
        constructor
        · exact Int.natCast_nonneg _
        · simp only [List.length_append, List.length_replicate]; omega
      rw [if_pos h1]
      simp only [Int.toNat_natCast, pure, Except.pure]
      congr 1
      rw [List.set_append_right _ _ (Nat.le_refl _)]
      simp [List.replicate_succ]
    simp only [List.length_cons, forMapAux, bind, Except.bind, hset, pure, Except.pure]
    have := ih (pre ++ [f k])
    simp only [List.length_append, List.length_cons, List.length_nil, Nat.zero_add, Nat.cast_add, Nat.cast_one] at this
    simp only [bind, Except.bind, pure, Except.pure] at this ⊢
    rw [this]
    refine congrArg Except.ok (Prod.ext ?_ ?_)
    · simp
    · simp <;> omega

/-- **`From(n)`**: never a fault; `nil` for an unknown node; for a known node the `nodeMap` images of the keys of
`neighbors[n]`, one per entry, in the order `C.mo.perm` visits the map (any order that keeps the number of entries) -/
theorem tie_From (C : Ctx α) (g : Network α) (net : Net α) (hR : Rep geoOf g net) (n : Nat)
    (hlen : (C.mo.perm (mapGetD g.neighbors n [])).length = (mapGetD g.neighbors n []).length) :
    network_From C g n = .ok (if hasNode net n then
        some ((C.mo.perm (mapGetD g.neighbors n [])).map fun kv => mapGetD g.nodeMap kv.1 none)
      else none) := by
  unfold network_From
  rw [tie_Has C g net hR n]
  cases hu : hasNode net n with
  | false => rfl
  | true =>
    simp only [Bool.not_true, Bool.false_eq_true, if_false, if_true, bind, Except.bind, pure, Except.pure]
    unfold Go.make Go.len
    rw [if_pos (Int.natCast_nonneg _)]
    simp only [Int.toNat_natCast, pure, Except.pure, Go.forMap]
    have h := forMapAux_setIdx (β := Option (Edge α)) (fun k => mapGetD g.nodeMap k none) (none : Option (MNode α))
      (C.mo.perm (mapGetD g.neighbors n [])) []
    simp only [List.nil_append, List.length_nil, Nat.zero_add, Nat.cast_zero, hlen, bind, Except.bind, pure, Except.pure] at h
    simp only [h]

/-- an id is listed by `From(n)` iff the model has a link between `n` and it — for any visiting order that is a
permutation of the entries -/
theorem tie_From_mem (C : Ctx α) (g : Network α) (net : Net α) (hR : Rep geoOf g net) (n : Nat)
    (hperm : (C.mo.perm (mapGetD g.neighbors n [])).Perm (mapGetD g.neighbors n [])) (hn : hasNode net n = true) :
    ∃ l, network_From C g n = .ok (some l) ∧ l.length = (mapGetD g.neighbors n []).length ∧
      ∀ v, (∃ kv ∈ mapGetD g.neighbors n [], kv.1 = v) → (neighbor net n v).isSome = true := by
  refine ⟨_, by rw [tie_From C g net hR n hperm.length_eq, hn]; rfl, by simp [hperm.length_eq], ?_⟩
  intro v ⟨kv, hkv, hk⟩
  subst hk
  have hnb := hR.nb n kv.1
  unfold NbRel at hnb
  have : (lookup kv.1 (mapGetD g.neighbors n [])).isSome = true := by
    generalize mapGetD g.neighbors n [] = m at hkv
    induction m with
    | nil => cases hkv
    | cons a r ih =>
      obtain ⟨ka, va⟩ := a
      simp only [lookup]
      by_cases h : kv.1 = ka
      · simp [h]
      · simp only [if_neg h]
        rcases List.mem_cons.1 hkv with rfl | h'
        · exact absurd rfl h
        · exact ih h'
  cases hl : lookup kv.1 (mapGetD g.neighbors n []) with
  | none => rw [hl] at this; cases this
  | some x =>
    rw [hl] at hnb
    cases hm : neighbor net n kv.1 with
    | none => rw [hm] at hnb; cases x <;> simp at hnb
    | some me => rfl

end GeomV.C19.Ties
