import GeomV.C19.Ident
/-
C19: node identification for link end points that are NOT well separated.

`Ident.lean` proves that on well separated end points the nodes of a built network are the
`PointEquals` classes, whatever the order of the `AddLink` calls.  This file states what the code does
on EVERY `AddLink` history, with no separation hypothesis and only the weakest contract on the R-tree
(`NearestIn`: an answer is a stored node, no answer only on the empty table):

`newNode p` asks the R-tree for ONE candidate — the nearest stored node — and identifies `p` with it iff
`op.PointEquals p candidate`; otherwise it creates a fresh node AT `p`, even if some other stored node
would be `PointEquals` to `p`.  Identification is "first fit on the single nearest candidate" and
therefore depends on the order of the calls (`C19_ident_order_dependent`).  What holds for every
history (`C19_ident_general`): every link end is `PointEquals` to — or exactly at — the position of its
node; a node sits at the link end point that created it; nodes are never moved or removed.

The property's "network node nearest the start point" therefore reads: the nearest node of the node
table AS BUILT by the history (`C19_nearest_meaning`).
-/
set_option linter.unusedVariables false
set_option linter.unusedSimpArgs false
set_option linter.unusedSectionVars false
namespace GeomV.C19

variable {α : Type} [Field α] [LinearOrder α] [IsStrictOrderedRing α]

/-- The only contract on the R-tree query that this file needs: an answer is one of the stored nodes,
and "no answer" happens on the empty node table only.  (Named `NearestIn` because `Proofs.lean`
already owns the name `NearestMem` for the first half.) -/
structure NearestIn (geo : Geo α) : Prop where
  mem : ∀ l p x, geo.nearest l p = some x → x ∈ l
  none_nil : ∀ l p, geo.nearest l p = none → l = []

/-! ### one `newNode` call -/

/-- **`newNode` is "first fit on the single nearest candidate"** (mechanism clause "node identification":
what the code does, no hypothesis at all).  Either the R-tree's ONE answer `m` is `PointEquals` to `p`
and is returned (the network is unchanged), or a fresh node with the next id is created AT `p` — because
the table is empty or because that one candidate is not `PointEquals` to `p`; no other stored node is
ever looked at. -/
theorem newNode_firstfit (geo : Geo α) (net : Net α) (p : Pt α) (m : MNode α) (net' : Net α)
    (h : newNode geo net p = (m, net')) :
    (geo.nearest net.nodes p = some m ∧ geo.ptEq p m.p = true ∧ net' = net) ∨
    (m = ⟨net.maxID + 1, p⟩ ∧ net'.maxID = net.maxID + 1 ∧
      (geo.nearest net.nodes p = none ∨ ∃ x, geo.nearest net.nodes p = some x ∧ geo.ptEq p x.p = false)) := by
  unfold newNode at h
  cases hn : geo.nearest net.nodes p with
  | none =>
    simp only [hn, Prod.mk.injEq] at h
    obtain ⟨rfl, rfl⟩ := h
    exact Or.inr ⟨rfl, rfl, Or.inl rfl⟩
  | some x =>
    simp only [hn] at h
    split_ifs at h with he
    · simp only [Prod.mk.injEq] at h
      obtain ⟨rfl, rfl⟩ := h
      exact Or.inl ⟨rfl, he, rfl⟩
    · simp only [Prod.mk.injEq] at h
      obtain ⟨rfl, rfl⟩ := h
      exact Or.inr ⟨rfl, rfl, Or.inr ⟨x, rfl, by simpa using he⟩⟩

/-- `newNode` touches neither the node table nor the links -/
theorem newNode_frame (geo : Geo α) (net : Net α) (p : Pt α) (m : MNode α) (net' : Net α)
    (h : newNode geo net p = (m, net')) : net'.nodes = net.nodes ∧ net'.edges = net.edges := by
  unfold newNode at h
  split at h
  · split_ifs at h <;> simp only [Prod.mk.injEq] at h <;> exact ⟨by rw [← h.2], by rw [← h.2]⟩
  · simp only [Prod.mk.injEq] at h; exact ⟨by rw [← h.2], by rw [← h.2]⟩

/-! ### the node table after `addNode from; addNode to` -/

/-- `addNode` on the node list -/
def addIf (l : List (MNode α)) (a : MNode α) : List (MNode α) :=
  if (l.any fun n => n.id == a.id) then l else l ++ [a]

theorem nodes2_eq_addIf (l : List (MNode α)) (a b : MNode α) : nodes2 l a b = addIf (addIf l a) b := rfl

theorem addIf_sub (l : List (MNode α)) (a : MNode α) : ∀ m ∈ l, m ∈ addIf l a := by
  intro m hm; unfold addIf; split_ifs <;> simp [hm]

theorem mem_addIf (l : List (MNode α)) (a m : MNode α) (h : m ∈ addIf l a) : m ∈ l ∨ m = a := by
  unfold addIf at h
  split_ifs at h
  · exact Or.inl h
  · simpa using h

theorem mem_addIf_self (l : List (MNode α)) (a : MNode α) (h : a ∈ l ∨ ∀ m ∈ l, m.id ≠ a.id) : a ∈ addIf l a := by
  unfold addIf
  split_ifs with hany
  · rcases h with h | h
    · exact h
    · exfalso
      simp only [List.any_eq_true, beq_iff_eq] at hany
      obtain ⟨m, hm, hmid⟩ := hany
      exact h m hm hmid
  · simp

theorem addIf_nodup (l : List (MNode α)) (a : MNode α) (hnd : (l.map (·.id)).Nodup) : ((addIf l a).map (·.id)).Nodup := by
  unfold addIf
  split_ifs with hany
  · exact hnd
  · rw [List.map_append, List.nodup_append]
    refine ⟨hnd, by simp, ?_⟩
    intro x hx y hy
    simp only [List.map_cons, List.map_nil, List.mem_singleton] at hy
    subst hy
    intro e
    apply hany
    obtain ⟨m, hm, hmid⟩ := List.mem_map.1 hx
    simp only [List.any_eq_true, beq_iff_eq]
    exact ⟨m, hm, hmid.trans e⟩

/-- ids are unique: the node stored under an id -/
theorem node_unique (l : List (MNode α)) (hnd : (l.map (·.id)).Nodup) (x y : MNode α) (hx : x ∈ l) (hy : y ∈ l)
    (h : x.id = y.id) : x = y := by
  have f1 := find_id_of_mem l hnd x hx
  have f2 := find_id_of_mem l hnd y hy
  rw [h, f2] at f1
  exact (Option.some.inj f1).symm

/-! ### one `AddLink` call -/

theorem addLink_maxID (geo : Geo α) (net net' : Net α) (i : Nat) (l : Link α) (h : addLink geo net i l = .ok net')
    (p0 pn : Pt α) (a : MNode α) (net1 : Net α) (b : MNode α) (net2 : Net α)
    (hh : l.pts.head? = some p0) (hl : l.pts.getLast? = some pn)
    (hn1 : newNode geo net p0 = (a, net1)) (hn2 : newNode geo net1 pn = (b, net2)) : net'.maxID = net2.maxID := by
  unfold addLink at h
  simp only [hh, hl, hn1, hn2] at h
  by_cases hab : a.id = b.id
  · simp [hab] at h
  · simp only [if_neg hab, Except.ok.injEq] at h
    subst h
    simp only [addNode]
    split_ifs <;> rfl

/-- end point `r` is represented by node `n`: the node sits exactly at `r` (it was created there) or at a
position `PointEquals` to `r` (it was the nearest node when `r` was added) -/
def At (geo : Geo α) (r : Pt α) (n : MNode α) : Prop := n.p = r ∨ geo.ptEq r n.p = true

/-- where a node's position comes from: the node belonged to the initial network `base`, or its position
is the first or last point of a link of the history with index at most `k` -/
def Origin (base : List (MNode α)) (hist : List (Link α)) (k : Nat) (n : MNode α) : Prop :=
  n ∈ base ∨ ∃ j l, j ≤ k ∧ hist[j]? = some l ∧ (l.pts.head? = some n.p ∨ l.pts.getLast? = some n.p)

/-- the first-fit rule of one end point: `m` is the R-tree's answer on `nodes` and `PointEquals` to `p`,
or `m` is the fresh node `K+1` at `p` and the R-tree's answer (if any) is not `PointEquals` to `p` -/
def FirstFit (geo : Geo α) (nodes : List (MNode α)) (K : Nat) (p : Pt α) (m : MNode α) : Prop :=
  (geo.nearest nodes p = some m ∧ geo.ptEq p m.p = true) ∨
  (m = ⟨K + 1, p⟩ ∧ (geo.nearest nodes p = none ∨ ∃ x, geo.nearest nodes p = some x ∧ geo.ptEq p x.p = false))

/-- the invariant of `AddLink` histories used here (`base` = nodes of the initial network, `hist` = the
links added so far): ids never exceed `maxID` and are unique; every node stems from `base` or sits at an
end point of a link of the history; every stored link's two end nodes are stored nodes representing its
two end points, each created no later than the link. -/
structure GenInv (geo : Geo α) (base : List (MNode α)) (net : Net α) (hist : List (Link α)) : Prop where
  idle : ∀ m ∈ net.nodes, m.id ≤ net.maxID
  nodup : (net.nodes.map (·.id)).Nodup
  origin : ∀ n ∈ net.nodes, ∃ k, Origin base hist k n
  ends : ∀ e ∈ net.edges, ∃ l p q a b, hist[e.link]? = some l ∧ l.pts.head? = some p ∧ l.pts.getLast? = some q ∧
    a ∈ net.nodes ∧ b ∈ net.nodes ∧ a.id = e.a ∧ b.id = e.b ∧ At geo p a ∧ At geo q b ∧
    Origin base hist e.link a ∧ Origin base hist e.link b

theorem getElem?_append_some {β : Type} (pre ls : List β) (j : Nat) (x : β) (h : pre[j]? = some x) :
    (pre ++ ls)[j]? = some x := by
  have hlt : j < pre.length := (List.getElem?_eq_some_iff.1 h).1
  rw [List.getElem?_append_left hlt]; exact h

theorem Origin.mono {base : List (MNode α)} {pre : List (Link α)} {k : Nat} {n : MNode α} (ls : List (Link α))
    (h : Origin base pre k n) : Origin base (pre ++ ls) k n := by
  rcases h with h | ⟨j, l, hj, hl, hp⟩
  · exact Or.inl h
  · exact Or.inr ⟨j, l, hj, getElem?_append_some pre ls j l hl, hp⟩

/-- an origin inside `pre` has an index below `pre.length` -/
theorem Origin.bound {base : List (MNode α)} {pre : List (Link α)} {k : Nat} {n : MNode α}
    (h : Origin base pre k n) : Origin base pre pre.length n := by
  rcases h with h | ⟨j, l, hj, hl, hp⟩
  · exact Or.inl h
  · exact Or.inr ⟨j, l, le_of_lt (List.getElem?_eq_some_iff.1 hl).1, hl, hp⟩

/-- **One `AddLink` call, any network with ids `≤ maxID`** (clause "node identification", one step):
both end points go through the first-fit rule — the start point against the node table before the call
with fresh id `maxID+1`, the end point against the SAME table (the start node is not yet stored) with
the next fresh id —, both resulting nodes are stored afterwards, every old node is kept, and the new
link records their ids. -/
theorem addLink_firstfit (geo : Geo α) (hn : NearestIn geo) (net net' : Net α) (i : Nat) (l : Link α)
    (hid : ∀ m ∈ net.nodes, m.id ≤ net.maxID) (h : addLink geo net i l = .ok net') :
    ∃ p0 pn a b K1, l.pts.head? = some p0 ∧ l.pts.getLast? = some pn ∧
      FirstFit geo net.nodes net.maxID p0 a ∧ FirstFit geo net.nodes K1 pn b ∧
      (K1 = net.maxID ∨ K1 = net.maxID + 1) ∧ a.id ≤ K1 ∧ K1 ≤ net'.maxID ∧ b.id ≤ net'.maxID ∧
      a ∈ net'.nodes ∧ b ∈ net'.nodes ∧ a.id ≠ b.id ∧
      (∀ m ∈ net.nodes, m ∈ net'.nodes) ∧ (∀ m ∈ net'.nodes, m ∈ net.nodes ∨ m = a ∨ m = b) ∧
      net'.edges = net.edges ++ [⟨i, a.id, b.id, geo.length l.pts, l.speed, geo.length l.pts / l.speed⟩] := by
  obtain ⟨p0, pn, a, net1, b, net2, hh, hl, hn1, hn2, hab, hnodes, hedges⟩ := addLink_shape geo net net' i l h
  have hmax := addLink_maxID geo net net' i l h p0 pn a net1 b net2 hh hl hn1 hn2
  obtain ⟨e1, _⟩ := newNode_frame geo net p0 a net1 hn1
  have ff1 := newNode_firstfit geo net p0 a net1 hn1
  have ff2 := newNode_firstfit geo net1 pn b net2 hn2
  rw [e1] at hnodes ff2
  rw [nodes2_eq_addIf] at hnodes
  have hF1 : FirstFit geo net.nodes net.maxID p0 a := by
    rcases ff1 with ⟨h1, h2, _⟩ | ⟨h1, _, h3⟩
    · exact Or.inl ⟨h1, h2⟩
    · exact Or.inr ⟨h1, h3⟩
  have hF2 : FirstFit geo net.nodes net1.maxID pn b := by
    rcases ff2 with ⟨h1, h2, _⟩ | ⟨h1, _, h3⟩
    · exact Or.inl ⟨h1, h2⟩
    · exact Or.inr ⟨h1, h3⟩
  have hK1 : (a ∈ net.nodes ∧ net1.maxID = net.maxID) ∨ (a.id = net.maxID + 1 ∧ net1.maxID = net.maxID + 1) := by
    rcases ff1 with ⟨h1, _, h3⟩ | ⟨h1, h2, _⟩
    · exact Or.inl ⟨hn.mem _ _ _ h1, by rw [h3]⟩
    · exact Or.inr ⟨by rw [h1], h2⟩
  have hK2 : (b ∈ net.nodes ∧ net2.maxID = net1.maxID) ∨ (b.id = net1.maxID + 1 ∧ net2.maxID = net1.maxID + 1) := by
    rcases ff2 with ⟨h1, _, h3⟩ | ⟨h1, h2, _⟩
    · exact Or.inl ⟨hn.mem _ _ _ h1, by rw [h3]⟩
    · exact Or.inr ⟨by rw [h1], h2⟩
  have haK : a.id ≤ net1.maxID := by
    rcases hK1 with ⟨h1, h2⟩ | ⟨h1, h2⟩
    · have := hid a h1; omega
    · omega
  have hbK : b.id ≤ net2.maxID := by
    rcases hK2 with ⟨h1, h2⟩ | ⟨h1, h2⟩
    · have := hid b h1
      rcases hK1 with ⟨_, h3⟩ | ⟨_, h3⟩ <;> omega
    · omega
  have hK12 : net1.maxID ≤ net2.maxID := by rcases hK2 with ⟨_, h2⟩ | ⟨_, h2⟩ <;> omega
  have ha_in : a ∈ addIf net.nodes a := by
    apply mem_addIf_self
    rcases hK1 with ⟨h1, _⟩ | ⟨h1, _⟩
    · exact Or.inl h1
    · right; intro m hm e; have := hid m hm; omega
  have hb_in : b ∈ addIf (addIf net.nodes a) b := by
    apply mem_addIf_self
    rcases hK2 with ⟨h1, _⟩ | ⟨h1, _⟩
    · exact Or.inl (addIf_sub _ _ b h1)
    · right; intro m hm e
      rcases mem_addIf _ _ _ hm with hm' | rfl
      · have := hid m hm'
        rcases hK1 with ⟨_, h3⟩ | ⟨_, h3⟩ <;> omega
      · exact hab e
  refine ⟨p0, pn, a, b, net1.maxID, hh, hl, hF1, hF2, ?_, haK, by rw [hmax]; exact hK12, by rw [hmax]; exact hbK,
    by rw [hnodes]; exact addIf_sub _ _ a ha_in, by rw [hnodes]; exact hb_in, hab, ?_, ?_, hedges⟩
  · rcases hK1 with ⟨_, h3⟩ | ⟨_, h3⟩
    · exact Or.inl h3
    · exact Or.inr h3
  · intro m hm; rw [hnodes]; exact addIf_sub _ _ m (addIf_sub _ _ m hm)
  · intro m hm; rw [hnodes] at hm
    rcases mem_addIf _ _ _ hm with hm' | rfl
    · rcases mem_addIf _ _ _ hm' with hm'' | rfl
      · exact Or.inl hm''
      · exact Or.inr (Or.inl rfl)
    · exact Or.inr (Or.inr rfl)

theorem addLink_nodup (geo : Geo α) (net net' : Net α) (i : Nat) (l : Link α)
    (hnd : (net.nodes.map (·.id)).Nodup) (h : addLink geo net i l = .ok net') : (net'.nodes.map (·.id)).Nodup := by
  obtain ⟨p0, pn, a, net1, b, net2, hh, hl, hn1, hn2, hab, hnodes, hedges⟩ := addLink_shape geo net net' i l h
  obtain ⟨e1, _⟩ := newNode_frame geo net p0 a net1 hn1
  rw [hnodes, e1, nodes2_eq_addIf]
  exact addIf_nodup _ _ (addIf_nodup _ _ hnd)

/-- one `AddLink` call keeps the invariant -/
theorem addLink_genInv (geo : Geo α) (hn : NearestIn geo) (base : List (MNode α)) (pre : List (Link α))
    (net net' : Net α) (l : Link α) (hI : GenInv geo base net pre)
    (h : addLink geo net pre.length l = .ok net') : GenInv geo base net' (pre ++ [l]) := by
  obtain ⟨p0, pn, a, b, K1, hh, hl, hF1, hF2, hK1, haK, hK1', hbK, ha', hb', hab, hsub, hsup, hedges⟩ :=
    addLink_firstfit geo hn net net' pre.length l hI.idle h
  have hlast : (pre ++ [l])[pre.length]? = some l := by simp
  -- the two end nodes represent the two end points and stem from `base` or a link with index ≤ pre.length
  have repr : ∀ (K : Nat) (p : Pt α) (m : MNode α), FirstFit geo net.nodes K p m →
      (l.pts.head? = some p ∨ l.pts.getLast? = some p) → At geo p m ∧ Origin base (pre ++ [l]) pre.length m := by
    intro K p m hF hp
    rcases hF with ⟨h1, h2⟩ | ⟨h1, _⟩
    · refine ⟨Or.inr h2, ?_⟩
      obtain ⟨k, hk⟩ := hI.origin m (hn.mem _ _ _ h1)
      exact (hk.bound).mono [l]
    · subst h1
      exact ⟨Or.inl rfl, Or.inr ⟨pre.length, l, le_refl _, hlast, hp⟩⟩
  obtain ⟨ra, oa⟩ := repr _ p0 a hF1 (Or.inl hh)
  obtain ⟨rb, ob⟩ := repr _ pn b hF2 (Or.inr hl)
  refine ⟨?_, addLink_nodup geo net net' pre.length l hI.nodup h, ?_, ?_⟩
  · intro m hm
    rcases hsup m hm with h' | rfl | rfl
    · have := hI.idle m h'; omega
    · omega
    · exact hbK
  · intro m hm
    rcases hsup m hm with h' | rfl | rfl
    · obtain ⟨k, hk⟩ := hI.origin m h'
      exact ⟨k, hk.mono [l]⟩
    · exact ⟨_, oa⟩
    · exact ⟨_, ob⟩
  · intro e he
    rw [hedges] at he
    rcases List.mem_append.1 he with h' | h'
    · obtain ⟨l', p, q, a', b', g1, g2, g3, g4, g5, g6, g7, g8, g9, g10, g11⟩ := hI.ends e h'
      exact ⟨l', p, q, a', b', getElem?_append_some pre [l] _ _ g1, g2, g3, hsub a' g4, hsub b' g5, g6, g7, g8, g9,
        g10.mono [l], g11.mono [l]⟩
    · simp only [List.mem_singleton] at h'
      subst h'
      exact ⟨l, p0, pn, a, b, hlast, hh, hl, ha', hb', rfl, rfl, ra, rb, oa, ob⟩

/-! ### every history -/

/-- every `AddLink` history keeps the invariant -/
theorem buildFrom_genInv (geo : Geo α) (hn : NearestIn geo) (base : List (MNode α)) (ls : List (Link α)) :
    ∀ (pre : List (Link α)) (net net' : Net α), GenInv geo base net pre →
      buildFrom geo net pre.length ls = .ok net' → GenInv geo base net' (pre ++ ls) := by
  induction ls with
  | nil =>
    intro pre net net' hI h
    simp [buildFrom] at h; subst h
    simpa using hI
  | cons l ls ih =>
    intro pre net net' hI h
    simp only [buildFrom] at h
    cases ha : addLink geo net pre.length l with
    | error e => simp [ha] at h
    | ok net1 =>
      simp only [ha] at h
      have hI1 := addLink_genInv geo hn base pre net net1 l hI ha
      have := ih (pre ++ [l]) net1 net' hI1 (by simpa using h)
      simpa using this

/-- **Nodes are never removed and never moved by later `AddLink` calls** (clause "network node"; no
hypothesis): every node `⟨id, position⟩` of the network before a history is a node of the network after
it, unchanged. -/
theorem buildFrom_nodes_mono (geo : Geo α) (ls : List (Link α)) (net0 net : Net α) (i0 : Nat)
    (h : buildFrom geo net0 i0 ls = .ok net) : ∀ n ∈ net0.nodes, n ∈ net.nodes := by
  induction ls generalizing net0 i0 with
  | nil => simp [buildFrom] at h; subst h; exact fun n hn => hn
  | cons l ls ih =>
    simp only [buildFrom] at h
    cases ha : addLink geo net0 i0 l with
    | error e => simp [ha] at h
    | ok net1 =>
      simp only [ha] at h
      intro n hn
      apply ih net1 (i0 + 1) h
      obtain ⟨p0, pn, a, net1', b, net2, hh, hl, hn1, hn2, hab, hnodes, hedges⟩ := addLink_shape geo net0 net1 i0 l ha
      obtain ⟨e1, _⟩ := newNode_frame geo net0 p0 a net1' hn1
      rw [hnodes, e1, nodes2_eq_addIf]
      exact addIf_sub _ _ n (addIf_sub _ _ n hn)

/-- the empty network satisfies the invariant -/
theorem genInv_new (geo : Geo α) (o : Opt) : GenInv geo [] (newNetwork o : Net α) [] := by
  refine ⟨?_, by simp [newNetwork], ?_, ?_⟩ <;> intro x hx <;> simp [newNetwork] at hx

/-- **Node identification on EVERY `AddLink` history, no separation hypothesis** (clause "network node",
mechanism "nearest existing node within tolerance"; the companion of `C19_ident` for end points that are
not well separated).  Start from any network `net0` satisfying the invariant `GenInv` w.r.t. the links
`pre` added before (the empty network does: `genInv_new`) and add the links `ls`.  Then, under the R-tree
contract `NearestIn` only:

1. every stored link end (`EndOf`: end point `r` of link `e.link` was given node id `u`) has a stored node
   `n` with `n.id = u` which is THE node of that id, and `n.p = r ∨ PointEquals r n.p`: the end point is
   exactly at, or `PointEquals` to, the position of its node;
   moreover that node belonged to `base` or sits at the first/last point of a link of the history whose
   index is at most `e.link` (the `AddLink` call that created it);
2. every node of the result belonged to `base` or sits at the first/last point of some link of the history;
3. node ids are unique and at most `maxID`.

(That nodes of `net0` are kept unchanged is `buildFrom_nodes_mono`.)  Nothing says that two `PointEquals`
ends share a node or that ends sharing a node are `PointEquals`: both fail on chains of points, see
`C19_ident_order_dependent`. -/
theorem C19_ident_general (geo : Geo α) (hn : NearestIn geo) (base : List (MNode α)) (pre ls : List (Link α))
    (net0 net : Net α) (h0 : GenInv geo base net0 pre) (hb : buildFrom geo net0 pre.length ls = .ok net) :
    (∀ r u, EndOf net (pre ++ ls) r u →
      ∃ n ∈ net.nodes, n.id = u ∧ (n.p = r ∨ geo.ptEq r n.p = true) ∧ (∀ n' ∈ net.nodes, n'.id = u → n' = n) ∧
        ∃ e ∈ net.edges, (e.a = u ∨ e.b = u) ∧
          (n ∈ base ∨ ∃ (j : Nat) (l : Link α), j ≤ e.link ∧ (pre ++ ls)[j]? = some l ∧
            (l.pts.head? = some n.p ∨ l.pts.getLast? = some n.p))) ∧
    (∀ n ∈ net.nodes, n ∈ base ∨ ∃ (j : Nat) (l : Link α), (pre ++ ls)[j]? = some l ∧
      (l.pts.head? = some n.p ∨ l.pts.getLast? = some n.p)) ∧
    (net.nodes.map (·.id)).Nodup ∧ (∀ n ∈ net.nodes, n.id ≤ net.maxID) := by
  have hI := buildFrom_genInv geo hn base ls pre net0 net h0 hb
  refine ⟨?_, ?_, hI.nodup, hI.idle⟩
  · rintro r u ⟨e, he, l, hl, hru⟩
    obtain ⟨l', p, q, a, b, g1, g2, g3, g4, g5, g6, g7, g8, g9, g10, g11⟩ := hI.ends e he
    rw [hl] at g1; cases g1
    rcases hru with ⟨hr, hu⟩ | ⟨hr, hu⟩
    · rw [g2] at hr; cases hr
      refine ⟨a, g4, g6.trans hu, g8, ?_, e, he, Or.inl hu, g10⟩
      intro n' hn' hid
      exact node_unique net.nodes hI.nodup n' a hn' g4 (by rw [hid, g6, hu])
    · rw [g3] at hr; cases hr
      refine ⟨b, g5, g7.trans hu, g9, ?_, e, he, Or.inr hu, g11⟩
      intro n' hn' hid
      exact node_unique net.nodes hI.nodup n' b hn' g5 (by rw [hid, g7, hu])
  · intro n hn'
    obtain ⟨k, hk⟩ := hI.origin n hn'
    rcases hk with h | ⟨j, l, _, h1, h2⟩
    · exact Or.inl h
    · exact Or.inr ⟨j, l, h1, h2⟩

/-- **`C19_ident_general` for `build`** (a network built from the empty one by any sequence of `AddLink`
calls): every link end is exactly at or `PointEquals` to the position of its (unique) node; every node
sits at the first or last point of a link of the history — for an end node of link `e.link`, of a link with
index `≤ e.link`. -/
theorem C19_ident_build (geo : Geo α) (hn : NearestIn geo) (o : Opt) (ls : List (Link α)) (net : Net α)
    (hb : build geo o ls = .ok net) :
    (∀ r u, EndOf net ls r u →
      ∃ n ∈ net.nodes, n.id = u ∧ (n.p = r ∨ geo.ptEq r n.p = true) ∧ (∀ n' ∈ net.nodes, n'.id = u → n' = n) ∧
        ∃ e ∈ net.edges, (e.a = u ∨ e.b = u) ∧
          ∃ (j : Nat) (l : Link α), j ≤ e.link ∧ ls[j]? = some l ∧ (l.pts.head? = some n.p ∨ l.pts.getLast? = some n.p)) ∧
    (∀ n ∈ net.nodes, ∃ (j : Nat) (l : Link α), ls[j]? = some l ∧ (l.pts.head? = some n.p ∨ l.pts.getLast? = some n.p)) ∧
    (net.nodes.map (·.id)).Nodup ∧ (∀ n ∈ net.nodes, n.id ≤ net.maxID) := by
  obtain ⟨h1, h2, h3, h4⟩ := C19_ident_general geo hn [] [] ls (newNetwork o) net (genInv_new geo o)
    (by simpa [build] using hb)
  simp only [List.nil_append, List.not_mem_nil, false_or] at h1 h2
  exact ⟨h1, h2, h3, h4⟩

/-- **Positions stored under an id never change** (clause "network node"): if the network before a history
satisfies the invariant and stores position `p` under id `u`, so does the network after it. -/
theorem buildFrom_nodePos_stable (geo : Geo α) (hn : NearestIn geo) (base : List (MNode α)) (pre ls : List (Link α))
    (net0 net : Net α) (h0 : GenInv geo base net0 pre) (hb : buildFrom geo net0 pre.length ls = .ok net)
    (u : Nat) (p : Pt α) (hp : nodePos net0 u = some p) : nodePos net u = some p := by
  have hI := buildFrom_genInv geo hn base ls pre net0 net h0 hb
  unfold nodePos at hp
  cases hf : net0.nodes.find? (fun n => n.id == u) with
  | none => simp [hf] at hp
  | some n =>
    simp only [hf, Option.map_some, Option.some.injEq] at hp
    have hmem : n ∈ net0.nodes := List.mem_of_find?_eq_some hf
    have hid : n.id = u := by simpa using List.find?_some hf
    have := nodePos_of_mem net hI.nodup n (buildFrom_nodes_mono geo ls net0 net pre.length hb n hmem)
    rw [hid, hp] at this
    exact this

/-! ### the meaning of "nearest node" in `ShortestRoute` -/

/-- **What "the network node nearest the start/end point" means in the model** (clause "from the network
node nearest the start point to the network node nearest the end point").  Whenever `ShortestRoute` returns
(no panic), its start and end nodes are the ids of the stored nodes that the R-tree answers for the two
query points ON THE NODE TABLE AS BUILT by the history (each node sitting at the link end point that created
it, `C19_ident_general`), and the reported start/end distances are `op.Distance` from the query points to
exactly those nodes.  Only the first half of `NearestIn` (an answer is a stored node) is used. -/
theorem C19_nearest_meaning (geo : Geo α) (hn : NearestIn geo) (pick : Queue α) (iw : Bool)
    (ord : Nat → List Nat → List Nat) (net : Net α) (a b : Pt α) (r : Route α)
    (h : shortestRoute geo pick iw ord net a b = .ok r) :
    ∃ s t, geo.nearest net.nodes a = some s ∧ geo.nearest net.nodes b = some t ∧
      s ∈ net.nodes ∧ t ∈ net.nodes ∧ r.startNode = s.id ∧ r.endNode = t.id ∧
      r.startDistance = geo.euclid a s.p ∧ r.endDistance = geo.euclid b t.p := by
  unfold shortestRoute at h
  cases hs : geo.nearest net.nodes a with
  | none => simp [hs] at h
  | some s =>
    cases ht : geo.nearest net.nodes b with
    | none => simp [hs, ht] at h
    | some t =>
      simp only [hs, ht] at h
      refine ⟨s, t, rfl, rfl, hn.mem _ _ _ hs, hn.mem _ _ _ ht, ?_⟩
      split at h
      · cases h
      · split at h
        · cases h
        · split at h
          · cases h
          · simp only [Except.ok.injEq] at h
            subst h
            exact ⟨rfl, rfl, rfl, rfl⟩

/-- **An empty node table makes `ShortestRoute` panic** (the nil type assertion): with `NearestIn`, a
`nilNode` fault of the nearest-node step happens on the empty network only. -/
theorem C19_nearest_none (geo : Geo α) (hn : NearestIn geo) (net : Net α) (a : Pt α)
    (h : geo.nearest net.nodes a = none) : net.nodes = [] := hn.none_nil _ _ h

/-! ### identification depends on the order of the calls: a concrete witness over ℚ -/

def absT (a : ℚ) : ℚ := if a < 0 then -a else a

/-- Manhattan distance -/
def distT (p q : Pt ℚ) : ℚ := absT (p.x - q.x) + absT (p.y - q.y)

/-- an exact nearest-neighbour search (first of the nearest in table order) -/
def nearestT (l : List (MNode ℚ)) (p : Pt ℚ) : Option (MNode ℚ) :=
  match l with
  | [] => none
  | n :: ns => some (ns.foldl (fun m x => if distT p x.p < distT p m.p then x else m) n)

/-- a tolerance geometry on integer points: exact nearest search, `PointEquals` = at most 1 apart in each
coordinate (a stand-in for `op.PointEquals`' relative tolerance) -/
def geoT : Geo ℚ :=
  { nearest := nearestT
    ptEq := fun p q => decide (absT (p.x - q.x) ≤ 1 ∧ absT (p.y - q.y) ≤ 1)
    length := fun pts => match pts with
      | [p, q] => distT p q
      | _ => 0
    euclid := distT
    one := 1 }

/-- three links whose start points (0,0), (1,0), (2,0) form a chain — each within tolerance of the next,
the two outer ones not within tolerance of each other; the far ends are 100 apart -/
def linkT (k : ℚ) : Link ℚ := ⟨[⟨k, 0⟩, ⟨100 * k, 100⟩], 1⟩

/-- number of nodes, and (link index, start node id, end node id) of every stored link -/
def shapeT (r : Except Fault (Net ℚ)) : Nat × List (Nat × Nat × Nat) :=
  match r with
  | .ok net => (net.nodes.length, net.edges.map fun e => (e.link, e.a, e.b))
  | .error _ => (0, [])

/-- **Node identification depends on the order of the `AddLink` calls when end points are not well
separated** (why the Spec cannot prescribe the node table on such data, and why "nearest network node" means
nearest node of the table AS BUILT).  The SAME three links, start points (0,0), (1,0), (2,0):
* order 0, 2, 1: (0,0) and (2,0) get nodes 1 and 3 (not within tolerance); (1,0) is within tolerance of both
  and is identified with node 1, the first nearest — 5 nodes;
* order 1, 0, 2: (1,0) gets node 1; (0,0) and (2,0) are both identified with it although they are NOT
  `PointEquals` to each other — 4 nodes.
So neither "ends share a node ⇒ `PointEquals`" nor a fixed number of nodes holds without separation; what
does hold is `C19_ident_general`. -/
theorem C19_ident_order_dependent :
    shapeT (build geoT .distance [linkT 0, linkT 2, linkT 1]) = (5, [(0, 1, 2), (1, 3, 4), (2, 1, 5)]) ∧
    shapeT (build geoT .distance [linkT 1, linkT 0, linkT 2]) = (4, [(0, 1, 2), (1, 1, 3), (2, 1, 4)]) ∧
    [linkT 0, linkT 2, linkT 1].length = [linkT 1, linkT 0, linkT 2].length ∧
    (∀ k ∈ [(0 : ℚ), 1, 2], linkT k ∈ [linkT 0, linkT 2, linkT 1] ∧ linkT k ∈ [linkT 1, linkT 0, linkT 2]) ∧
    geoT.ptEq ⟨0, 0⟩ ⟨1, 0⟩ = true ∧ geoT.ptEq ⟨1, 0⟩ ⟨2, 0⟩ = true ∧ geoT.ptEq ⟨0, 0⟩ ⟨2, 0⟩ = false := by
  refine ⟨by decide +kernel, by decide +kernel, rfl, ?_, by decide +kernel, by decide +kernel, by decide +kernel⟩
  intro k hk
  simp only [List.mem_cons, List.not_mem_nil, or_false] at hk
  rcases hk with rfl | rfl | rfl <;> simp

/-- the node table `1 ↦ (1,1)`, `2 ↦ (3/2,0)` -/
def netT : Net ℚ :=
  { opt := .distance, nodes := [⟨1, ⟨1, 1⟩⟩, ⟨2, ⟨3 / 2, 0⟩⟩], maxID := 2, maxSpeed := 1, hscale := 1 }

/-- **Only the single nearest candidate is tested** (the "first fit" half of `newNode_firstfit`, concrete
witness): for the point (0,0) the nearest stored node is node 2 at (3/2,0), which is not `PointEquals`
(1.5 apart in x), so a FRESH node 3 is created at (0,0) — although the stored node 1 at (1,1) IS
`PointEquals` to (0,0) (it is farther away in the search metric). -/
theorem C19_ident_single_candidate :
    (newNode geoT netT ⟨0, 0⟩).1.id = 3 ∧ (newNode geoT netT ⟨0, 0⟩).1.p.x = 0 ∧ (newNode geoT netT ⟨0, 0⟩).1.p.y = 0 ∧
    (geoT.nearest netT.nodes ⟨0, 0⟩).map (·.id) = some 2 ∧
    geoT.ptEq ⟨0, 0⟩ ⟨1, 1⟩ = true ∧ geoT.ptEq ⟨0, 0⟩ ⟨3 / 2, 0⟩ = false := by
  refine ⟨by decide +kernel, by decide +kernel, by decide +kernel, by decide +kernel, by decide +kernel, by decide +kernel⟩

/-! ### non-vacuity -/

theorem foldMinT_mem (p : Pt ℚ) (n : MNode ℚ) (ns : List (MNode ℚ)) :
    ns.foldl (fun m x => if distT p x.p < distT p m.p then x else m) n ∈ n :: ns := by
  induction ns generalizing n with
  | nil => simp
  | cons x ns ih =>
    simp only [List.foldl_cons]
    have := ih (if distT p x.p < distT p n.p then x else n)
    split_ifs at this ⊢ with hx
    · rcases List.mem_cons.1 this with h | h
      · rw [h]; simp
      · simp [h]
    · rcases List.mem_cons.1 this with h | h
      · rw [h]; simp
      · simp [h]

/-- the concrete tolerance geometry satisfies the R-tree contract -/
theorem nearestIn_geoT : NearestIn geoT := by
  refine ⟨?_, ?_⟩
  · intro l p x h
    cases l with
    | nil => simp [geoT, nearestT] at h
    | cons n ns =>
      simp only [geoT, nearestT, Option.some.injEq] at h
      rw [← h]; exact foldMinT_mem p n ns
  · intro l p h
    cases l with
    | nil => rfl
    | cons n ns => simp [geoT, nearestT] at h

example : NearestIn geoT := nearestIn_geoT
example : NearestIn geoE :=
  ⟨fun l p x h => by
      cases l with
      | nil => simp [geoE, nearestBy] at h
      | cons n ns =>
        simp only [geoE, nearestBy, Option.some.injEq] at h
        rw [← h]; exact (foldMin_spec p n ns).1,
   fun l p h => by
      cases l with
      | nil => rfl
      | cons n ns => simp [geoE, nearestBy] at h⟩
/-- the invariant is satisfiable: the empty network, and hence (by `buildFrom_genInv`) every built network -/
example : GenInv geoT [] (newNetwork .distance : Net ℚ) [] := genInv_new geoT .distance

end GeomV.C19
