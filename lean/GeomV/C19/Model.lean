import GeomV.Common.Geom
/-!
# C19 — executable model of `route/route.go` on top of gonum v0.9.3 `graph/path.AStar`

Function by function, in the order of the Go sources:

* `astarLoop`, `relaxStep`, `pathTo` : gonum `graph/path/a_star.go` `AStar` (the `for open.Len() != 0` loop, the
  closed set `visited` that is never re-opened, `Shortest.set`) and `graph/path/shortest.go`
  `Shortest.To`.  The binary heap is abstracted to a function `pick` that removes SOME entry of
  minimal `fscore` (`PickSpec` in Spec.lean is the contract the theorems assume; `pickMin` below
  is the instance the driver runs).  gonum is pinned by its go.sum hash (see checks/C19.py).
* `Net`, `newNode`, `addLink`, `weightOf`, `uniformCost`, `fromOf`, `heuristic`, `shortestRoute` :
  `route/route.go` AFTER the three `fix:` commits (Weight has gonum's signature, the time heuristic
  divides by the MAXIMUM speed, the heuristic's distance is multiplied by `heuristicScale`).  Which weighting gonum picks is the explicit boolean
  `implementsWeighted` (Go interface satisfaction is not visible to Lean; the harness reports it
  at run time and `harness/cmd/c19/weighted` asserts it at compile time).

Everything is generic over the number type `α`: the driver instantiates `Rat`, the theorems any
linear ordered field (ℚ, ℝ).  `op.Length`, `op.Distance`, `op.PointEquals` and the R-tree's
`NearestNeighbor` are the parameters `Geo` (their contracts are hypotheses of the theorems).
Core Lean only.
-/
set_option linter.unusedVariables false
set_option linter.unusedSectionVars false
namespace GeomV.C19

inductive Fault
  | emptyLink      -- l[0] on an empty LineString: index out of range
  | selfEdge       -- panic("concrete: adding self edge")
  | nilNode        -- NearestNeighbor(..).(*node) on an empty network: nil type assertion
  | missingEdge    -- panic("route: missing edge; this shouldn't happen")
  | badWeight      -- panic("path: A* unexpected invalid weight")
  | negWeight      -- panic("path: A* negative edge weight")
  | noPrev         -- Shortest.To: p.next[to] == -1 used as an index
  | negCycle       -- panic("path: unexpected negative cycle")
  | fuel           -- modelling device only: the Go loop has no bound (termination is a theorem)
deriving Repr, DecidableEq, Inhabited

/-! ## gonum: `path.AStar` -/

/-- What `AStar` sees of the graph: `From`, the chosen `Weighting`, the heuristic. -/
structure Adapter (α : Type) where
  frm : Nat → List Nat
  /-- `some w` = `(w, true)`, `none` = `(_, false)` -/
  weight : Nat → Nat → Option α
  h : Nat → Nat → α

/-- `aStarNode` -/
structure Entry (α : Type) where
  node : Nat
  g : α
  f : α
deriving Repr

/-- loop state: the queue `open`, the set `visited`, and `path.dist` / `path.next` of `Shortest`
(`none` = `+Inf` resp. `-1`; nodes not yet added to the `Shortest` are `none` as well) -/
structure AState (α : Type) where
  openQ : List (Entry α)
  closed : List Nat
  dist : Nat → Option α
  prev : Nat → Option Nat

def upd {β : Type} (f : Nat → Option β) (k : Nat) (v : β) : Nat → Option β :=
  fun x => if x = k then some v else f x

/-- removes one entry from the queue; `none` on the empty queue (`heap.Pop`) -/
abbrev Pick (α : Type) := List (Entry α) → Option (Entry α × List (Entry α))

/-- the priority queue `open` as `AStar` uses it (the queue content is a list of entries; for gonum's
`aStarQueue` it is the slice `nodes` in heap layout, see `heapQ`) -/
structure Queue (α : Type) where
  /-- `heap.Push(open, e)` -/
  push : List (Entry α) → Entry α → List (Entry α)
  /-- `open.update(id, g, f)` -/
  update : List (Entry α) → Nat → α → α → List (Entry α)
  /-- `heap.Pop(open)` -/
  pop : Pick α

/-- the abstract queue: push appends, update rewrites in place, pop is any function `pick`
(contract `PickSpec`: some entry of minimal fscore) -/
def listQ {α : Type} (pick : Pick α) : Queue α :=
  { push := fun l e => l ++ [e]
    update := fun l v g f => l.map fun e => if e.node == v then ⟨v, g, f⟩ else e
    pop := pick }

section astar
variable {α : Type} [Zero α] [Add α] [LT α] [DecidableLT α]

/-- body of `for to.Next() { … }` for one neighbour `v` of the expanded entry `u` -/
def relaxStep (A : Adapter α) (Q : Queue α) (t : Nat) (u : Entry α) (st : AState α) (v : Nat) : Except Fault (AState α) :=
  if v ∈ st.closed then .ok st                                   -- visited.Has(vid): continue
  else match A.weight u.node v with
    | none => .error .badWeight
    | some w =>
      if w < 0 then .error .negWeight
      else
        let g := u.g + w
        match st.openQ.find? (fun e => e.node == v) with
        | none =>                                                -- path.set; heap.Push
          .ok { st with dist := upd st.dist v g, prev := upd st.prev v u.node,
                        openQ := Q.push st.openQ ⟨v, g, g + A.h v t⟩ }
        | some n =>
          if g < n.g then                                        -- path.set; open.update
            .ok { st with dist := upd st.dist v g, prev := upd st.prev v u.node,
                          openQ := Q.update st.openQ v g (g + A.h v t) }
          else .ok st

def relaxAll (A : Adapter α) (Q : Queue α) (t : Nat) (u : Entry α) : AState α → List Nat → Except Fault (AState α)
  | st, [] => .ok st
  | st, v :: vs => match relaxStep A Q t u st v with
    | .error e => .error e
    | .ok st' => relaxAll A Q t u st' vs

/-- `for open.Len() != 0 { u := heap.Pop(open); if uid == tid { break }; visited.Add(uid); … }` -/
def astarLoop (A : Adapter α) (Q : Queue α) (t : Nat) : Nat → AState α → Except Fault (AState α)
  | 0, _ => .error .fuel
  | fuel + 1, st =>
    match Q.pop st.openQ with
    | none => .ok st
    | some (u, rest) =>
      if u.node = t then .ok { st with openQ := rest }
      else
        match relaxAll A Q t u { st with openQ := rest, closed := u.node :: st.closed } (A.frm u.node) with
        | .error e => .error e
        | .ok st' => astarLoop A Q t fuel st'

/-- `newShortestFrom(s, {s, t})` and `heap.Push(open, {s, 0, h(s, t)})` -/
def astarInit (A : Adapter α) (Q : Queue α) (s t : Nat) : AState α :=
  { openQ := Q.push [] ⟨s, 0, A.h s t⟩, closed := [], dist := upd (fun _ => none) s 0, prev := fun _ => none }

def astar (A : Adapter α) (Q : Queue α) (fuel : Nat) (s t : Nat) : Except Fault (AState α) :=
  astarLoop A Q t fuel (astarInit A Q s t)

/-- the inner loop of `Shortest.To` (no negative cycle): follow `next` from `v` back to `from`;
`fuel` is `len(p.nodes)` -/
def pathTo (prev : Nat → Option Nat) (s : Nat) : Nat → Nat → Except Fault (List Nat)
  | 0, _ => .error .negCycle
  | fuel + 1, v =>
    if v = s then .ok [s]
    else match prev v with
      | none => .error .noPrev
      | some u => match pathTo prev s fuel u with
        | .error e => .error e
        | .ok p => .ok (p ++ [v])

/-- `Shortest.To(t)`: nil when `t` is unknown or at distance `+Inf` -/
def shortestTo (st : AState α) (s t : Nat) (fuel : Nat) : Except Fault (List Nat) :=
  match st.dist t with
  | none => .ok []
  | some _ => pathTo st.prev s fuel t

/-- the instance of `pick` the driver runs: the first entry of minimal `f` -/
def minEntry (e : Entry α) (es : List (Entry α)) : Entry α :=
  es.foldl (fun m x => if x.f < m.f then x else m) e

def pickMin : Pick α
  | [] => none
  | e :: es => let m := minEntry e es; some (m, (e :: es).filter fun x => x.node != m.node)

/-! ### gonum's `aStarQueue` under Go's `container/heap`

The queue content is the slice `q.nodes` in heap layout.  `Less(i, j)` is
`nodes[i].fscore < nodes[j].fscore`; `Swap` exchanges two slots (and keeps `indexOf[id]` = slot of
the entry of node `id`, which is why `open.node(id)` / `open.update(id, …)` are modelled as a search
for the entry of that node).  Every slot access below carries its bounds proof: the Go code cannot
index out of range either. -/

/-- `heap.up(h, j)`: `for { i := (j-1)/2 /* parent */; if i == j || !h.Less(j, i) { break }; h.Swap(i, j); j = i }`
(in Go `(0-1)/2 = 0`, so `i == j` exactly when `j = 0`) -/
def heapUp (a : Array (Entry α)) (j : Nat) : Array (Entry α) :=
  if h : 0 < j ∧ j < a.size then
    if a[j].f < (a[(j - 1) / 2]'(by omega)).f then
      heapUp (a.swap ((j - 1) / 2) j (by omega) h.2) ((j - 1) / 2)
    else a
  else a
termination_by j
decreasing_by omega

/-- `j := j1; if j2 := j1 + 1; j2 < n && h.Less(j2, j1) { j = j2 }` with `j1 = 2*i + 1 < n` -/
def heapChild (a : Array (Entry α)) (i n : Nat) (hn : n ≤ a.size) (h1 : 2 * i + 1 < n) : Nat :=
  if h2 : 2 * i + 2 < n then
    (if (a[2 * i + 2]'(by omega)).f < (a[2 * i + 1]'(by omega)).f then 2 * i + 2 else 2 * i + 1)
  else 2 * i + 1

theorem heapChild_lt (a : Array (Entry α)) (i n : Nat) (hn : n ≤ a.size) (h1 : 2 * i + 1 < n) :
    heapChild a i n hn h1 < n ∧ i < heapChild a i n hn h1 := by
  unfold heapChild; split
  · split <;> omega
  · omega

/-- `heap.down(h, i0, n)`: `for { j1 := 2*i + 1; if j1 >= n || j1 < 0 { break }; …; if !h.Less(j, i) { break };
h.Swap(i, j); i = j }; return i > i0` — returned here: the slice and the final `i` (`j1 < 0` is integer
overflow, impossible for slices that fit in memory) -/
def heapDown (a : Array (Entry α)) (i n : Nat) (hn : n ≤ a.size) : Array (Entry α) × Nat :=
  if h1 : 2 * i + 1 < n then
    have hj := heapChild_lt a i n hn h1
    if (a[heapChild a i n hn h1]'(by omega)).f < (a[i]'(by omega)).f then
      heapDown (a.swap i (heapChild a i n hn h1) (by omega) (by omega)) (heapChild a i n hn h1) n (by simpa using hn)
    else (a, i)
  else (a, i)
termination_by n - i
decreasing_by omega

/-- `heap.Push(h, x)`: `h.Push(x); up(h, h.Len()-1)` -/
def heapPush (a : Array (Entry α)) (e : Entry α) : Array (Entry α) := heapUp (a.push e) a.size

/-- `heap.Pop(h)`: `n := h.Len() - 1; h.Swap(0, n); down(h, 0, n); return h.Pop()` (the last slot) -/
def heapPop (a : Array (Entry α)) : Option (Entry α × Array (Entry α)) :=
  if h : 0 < a.size then
    let a2 := (heapDown (a.swap 0 (a.size - 1) h (by omega)) 0 (a.size - 1) (by simp)).1
    match a2.back? with
    | some m => some (m, a2.pop)
    | none => none
  else none

/-- `heap.Fix(h, i)`: `if !down(h, i, h.Len()) { up(h, i) }` -/
def heapFix (a : Array (Entry α)) (i : Nat) : Array (Entry α) :=
  let r := heapDown a i a.size (Nat.le_refl _)
  if i < r.2 then r.1 else heapUp r.1 i

/-- `aStarQueue.update(id, g, f)`: `i, ok := q.indexOf[id]; if !ok { return }; q.nodes[i].gscore = g;
q.nodes[i].fscore = f; heap.Fix(q, i)` -/
def heapUpdate (a : Array (Entry α)) (v : Nat) (g f : α) : Array (Entry α) :=
  match a.findFinIdx? (fun e => e.node == v) with
  | none => a
  | some i => heapFix (a.set i { a[i] with g := g, f := f }) i

/-- gonum's queue: the list is `q.nodes` -/
def heapQ : Queue α :=
  { push := fun l e => (heapPush l.toArray e).toList
    update := fun l v g f => (heapUpdate l.toArray v g f).toList
    pop := fun l => (heapPop l.toArray).map fun r => (r.1, r.2.toList) }

end astar

/-! ## route.go -/

inductive Opt | distance | time
deriving Repr, DecidableEq, Inhabited

structure Link (α : Type) where
  pts : List (Pt α)
  speed : α

/-- `node` -/
structure MNode (α : Type) where
  id : Nat
  p : Pt α

/-- `edge` (`link` = index of the AddLink call that created it, standing for `e.LineString`) -/
structure MEdge (α : Type) where
  link : Nat
  a : Nat
  b : Nat
  length : α
  speed : α
  time : α

/-- `Network`: `nodeMap` in insertion order, the edges in insertion order (`neighbors` is derived:
the LAST edge stored for an ordered pair wins, as a Go map assignment does) -/
structure Net (α : Type) where
  opt : Opt
  nodes : List (MNode α) := []
  edges : List (MEdge α) := []
  maxID : Nat := 0
  maxSpeed : α
  /-- `heuristicScale` (fix 3): the largest factor ≤ 1 such that, for every link, the factor times the
  straight-line distance between the link's end NODES does not exceed the link's length -/
  hscale : α

/-- the geometric primitives the package calls, as parameters -/
structure Geo (α : Type) where
  /-- `net.nodes.NearestNeighbor(p)` (R-tree, k = 1): `none` on the empty tree -/
  nearest : List (MNode α) → Pt α → Option (MNode α)
  /-- `op.PointEquals` -/
  ptEq : Pt α → Pt α → Bool
  /-- `op.Length` of a line string -/
  length : List (Pt α) → α
  /-- `op.Distance` of two points -/
  euclid : Pt α → Pt α → α
  /-- the constant 1 (cost per link of gonum's `UniformCost`) -/
  one : α

section route
variable {α : Type} [Zero α] [One α] [Add α] [Mul α] [Div α] [LT α] [DecidableLT α]

def newNetwork (o : Opt) : Net α := { opt := o, maxSpeed := 0, hscale := 1 }

def hasNode (net : Net α) (id : Nat) : Bool := net.nodes.any fun n => n.id == id

/-- `newNode`: the nearest existing node when it `PointEquals` p, else a fresh node with the next id
(returned with the bumped `maxID`; the node is NOT yet in `nodeMap`) -/
def newNode (geo : Geo α) (net : Net α) (p : Pt α) : MNode α × Net α :=
  match geo.nearest net.nodes p with
  | some n => if geo.ptEq p n.p then (n, net) else (⟨net.maxID + 1, p⟩, { net with maxID := net.maxID + 1 })
  | none => (⟨net.maxID + 1, p⟩, { net with maxID := net.maxID + 1 })

/-- `addNode` (the id-collision panic cannot fire: ids are fresh) -/
def addNode (net : Net α) (n : MNode α) : Net α :=
  if hasNode net n.id then net else { net with nodes := net.nodes ++ [n] }

/-- `AddLink`; `i` is the index of the call -/
def addLink (geo : Geo α) (net : Net α) (i : Nat) (l : Link α) : Except Fault (Net α) :=
  match l.pts.head?, l.pts.getLast? with
  | some p0, some pn =>
    let (from_, net) := newNode geo net p0
    let (to, net) := newNode geo net pn
    let length := geo.length l.pts
    let e : MEdge α := ⟨i, from_.id, to.id, length, l.speed, length / l.speed⟩
    let net := if net.maxSpeed < e.speed then { net with maxSpeed := e.speed } else net
    if from_.id = to.id then .error .selfEdge
    else
      let net := addNode net from_
      let net := addNode net to
      -- `if nd := op.Distance(from.Point, to.Point); nd > 0 && length/nd < net.heuristicScale { … }`
      let nd := geo.euclid from_.p to.p
      let hs := if 0 < nd ∧ length / nd < net.hscale then length / nd else net.hscale
      .ok { net with edges := net.edges ++ [e], hscale := hs }
  | _, _ => .error .emptyLink

def buildFrom (geo : Geo α) : Net α → Nat → List (Link α) → Except Fault (Net α)
  | net, _, [] => .ok net
  | net, i, l :: ls => match addLink geo net i l with
    | .error e => .error e
    | .ok net' => buildFrom geo net' (i + 1) ls

/-- a network built by a sequence of `AddLink` calls -/
def build (geo : Geo α) (o : Opt) (ls : List (Link α)) : Except Fault (Net α) :=
  buildFrom geo (newNetwork o) 0 ls

/-- `net.neighbors[u][v]`: the last edge stored under (u, v) (either orientation stores both keys) -/
def neighbor (net : Net α) (u v : Nat) : Option (MEdge α) :=
  net.edges.reverse.find? fun e => (e.a == u && e.b == v) || (e.a == v && e.b == u)

def insertSorted (x : Nat) : List Nat → List Nat
  | [] => [x]
  | y :: ys => if x < y then x :: y :: ys else if x = y then y :: ys else y :: insertSorted x ys

/-- keys of `net.neighbors[u]` (a Go map: iteration order is unspecified; `fromOf` applies the
order parameter `ord`, any permutation) -/
def neighborIds (net : Net α) (u : Nat) : List Nat :=
  net.edges.foldl (fun acc e => if e.a = u then insertSorted e.b acc else if e.b = u then insertSorted e.a acc else acc) []

/-- `From` -/
def fromOf (net : Net α) (ord : Nat → List Nat → List Nat) (u : Nat) : List Nat :=
  if hasNode net u then ord u (neighborIds net u) else []

/-- `Weight(xid, yid)` (after the fix) -/
def weightOf (net : Net α) (x y : Nat) : Option α :=
  if x = y then some 0
  else match neighbor net x y with
    | some e => some (match net.opt with | .time => e.time | .distance => e.length)
    | none => none

/-- gonum `UniformCost(g)`: used when the graph value does not satisfy `path.Weighted`.
(`Edge` returns a typed nil pointer inside a non-nil interface for a missing edge, so the test
`e != nil` always succeeds for a known `u`.) -/
def uniformCost (geo : Geo α) (net : Net α) (x y : Nat) : Option α :=
  if x = y then some 0 else if hasNode net x then some geo.one else none

def nodePos (net : Net α) (id : Nat) : Option (Pt α) := (net.nodes.find? fun n => n.id == id).map (·.p)

/-- `costHeuristic` (after the fixes: maximum speed, scaled distance); unknown ids cannot occur (gonum passes graph nodes) -/
def heuristic (geo : Geo α) (net : Net α) (x t : Nat) : α :=
  match nodePos net x, nodePos net t with
  | some p, some q =>
    match net.opt with
    | .time => geo.euclid p q * net.hscale / net.maxSpeed
    | .distance => geo.euclid p q * net.hscale
  | _, _ => 0

def adapter (geo : Geo α) (net : Net α) (implementsWeighted : Bool) (ord : Nat → List Nat → List Nat) : Adapter α :=
  { frm := fromOf net ord
    weight := if implementsWeighted then weightOf net else uniformCost geo net
    h := heuristic geo net }

structure Route (α : Type) where
  links : List Nat
  distance : α
  time : α
  startDistance : α
  endDistance : α
  startNode : Nat
  endNode : Nat

/-- `for i := 0; i < len(nodes)-1; i++ { e, ok := net.neighbors[nodes[i]][nodes[i+1]] … }` -/
def collect (net : Net α) : List Nat → Except Fault (List Nat × α × α)
  | [] => .ok ([], 0, 0)
  | [_] => .ok ([], 0, 0)
  | u :: v :: rest =>
    match neighbor net u v with
    | none => .error .missingEdge
    | some e => match collect net (v :: rest) with
      | .error x => .error x
      | .ok (ls, d, t) => .ok (e.link :: ls, e.length + d, e.time + t)

/-- `ShortestRoute`.  The two fuel values are modelling devices (ids are `1 … n`, so `n + 2` expansions
and `n + 3` path steps can never be exhausted: theorem `C19_route`).  (Go accumulates `distance += e.length` left to right; `collect` sums right to
left — the same number in exact arithmetic, which is what the model computes in.) -/
def shortestRoute (geo : Geo α) (pick : Queue α) (implementsWeighted : Bool) (ord : Nat → List Nat → List Nat)
    (net : Net α) (from_ to : Pt α) : Except Fault (Route α) :=
  match geo.nearest net.nodes from_, geo.nearest net.nodes to with
  | some s, some t =>
    let A := adapter geo net implementsWeighted ord
    let n := net.nodes.length
    match astar A pick (n + 2) s.id t.id with
    | .error e => .error e
    | .ok st =>
      match shortestTo st s.id t.id (n + 3) with
      | .error e => .error e
      | .ok nodes =>
        match collect net nodes with
        | .error e => .error e
        | .ok (ls, d, tm) => .ok ⟨ls, d, tm, geo.euclid from_ s.p, geo.euclid to t.p, s.id, t.id⟩
  | _, _ => .error .nilNode

/-- one step of a history on ONE `Network` value -/
inductive Op (α : Type) where
  | link (l : Link α)
  | query (a b : Pt α)

/-- A history of `AddLink` and `ShortestRoute` calls on one network; the answers in order.
`ShortestRoute` has a value receiver and "does not change the Network": the model is a pure
function of the network built so far, so an answer CANNOT depend on earlier queries
(`C19_history`).  Any such dependence in the real code (a cache that `AddLink` does not
invalidate, say) shows up as a SPEC/DIFF verdict on a query asked again after further links. -/
def runOps (geo : Geo α) (pick : Queue α) (implementsWeighted : Bool) (ord : Nat → List Nat → List Nat) :
    Net α → Nat → List (Op α) → Except Fault (List (Except Fault (Route α)))
  | _, _, [] => .ok []
  | net, i, .link l :: r =>
    match addLink geo net i l with
    | .error e => .error e
    | .ok net' => runOps geo pick implementsWeighted ord net' (i + 1) r
  | net, i, .query a b :: r =>
    match runOps geo pick implementsWeighted ord net i r with
    | .error e => .error e
    | .ok rs => .ok (shortestRoute geo pick implementsWeighted ord net a b :: rs)

/-- the links of a history, in order -/
def linksOf : List (Op α) → List (Link α)
  | [] => []
  | .link l :: r => l :: linksOf r
  | .query _ _ :: r => linksOf r

/-- the number of queries in a history -/
def queriesIn : List (Op α) → Nat
  | [] => 0
  | .link _ :: r => queriesIn r
  | .query _ _ :: r => queriesIn r + 1

end route
end GeomV.C19
