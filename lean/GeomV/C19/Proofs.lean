import Mathlib.Analysis.Complex.Norm
import GeomV.C19.Build
import GeomV.C19.Heap
/-!
# C19 — property theorems
-/
set_option linter.unusedVariables false
set_option linter.unusedSimpArgs false
set_option linter.unusedSectionVars false
namespace GeomV.C19

variable {α : Type} [Field α] [LinearOrder α] [IsStrictOrderedRing α]

/-- **The oracle is the minimum.**  For non-negative weights and nodes `0 … n-1`, the Bellman–Ford
table after `n - 1` rounds holds, for every node `t`, exactly the minimum of the costs of ALL walks
(chains) from `s` to `t`; an empty entry means that `t` is not connected to `s`.  This is what the
judge compares the implementation's route cost with ("cost … minimal over all such chains",
"when the two nodes are not connected"). -/
theorem bellmanFord_correct (G : Graph α) (preds : Nat → List Nat) (hpr : PredsOk G preds) (n s : Nat)
    (hw : NonnegW G) (hr : InRange G n) (hs : s < n) (t : Nat) :
    (∀ c, look (bellmanFord G preds n s) t = some c ↔ IsMinCost G s t c) ∧
    (look (bellmanFord G preds n s) t = none ↔ ¬ Reachable G s t) := by
  have hle := bellmanFord_le G preds hpr n s hw hr hs
  constructor
  · intro c
    constructor
    · intro h
      refine ⟨bfIter_sound G preds n s _ t c h, ?_⟩
      intro p hp he
      obtain ⟨y, hy, hyc⟩ := hle p hp
      rw [he, h] at hy
      cases hy; exact hyc
    · rintro ⟨⟨p, hp, he, hc⟩, hmin⟩
      obtain ⟨y, hy, hyc⟩ := hle p hp
      rw [he] at hy
      obtain ⟨q, hq, hqe, hqc⟩ := bfIter_sound G preds n s _ t y hy
      have := hmin q hq hqe
      have : y = c := le_antisymm (by rw [← hc]; exact hyc) (by rw [← hqc]; exact this)
      rw [hy, this]
  · constructor
    · rintro h ⟨p, hp, he⟩
      obtain ⟨y, hy, _⟩ := hle p hp
      rw [he, h] at hy
      cases hy
    · intro h
      cases hl : look (bellmanFord G preds n s) t with
      | none => rfl
      | some c =>
        obtain ⟨q, hq, hqe, _⟩ := bfIter_sound G preds n s _ t c hl
        exact absurd ⟨q, hq, hqe⟩ h


/-! ### the heap contract is satisfiable: the instance the driver runs -/

theorem minEntry_spec (e : Entry α) (es : List (Entry α)) :
    minEntry e es ∈ e :: es ∧ ∀ x ∈ e :: es, (minEntry e es).f ≤ x.f := by
  induction es generalizing e with
  | nil => simp [minEntry]
  | cons x es ih =>
    have hfold : minEntry e (x :: es) = minEntry (if x.f < e.f then x else e) es := by
      simp [minEntry]
    rw [hfold]
    obtain ⟨h1, h2⟩ := ih (if x.f < e.f then x else e)
    by_cases hx : x.f < e.f
    · simp only [if_pos hx] at h1 h2 ⊢
      refine ⟨?_, ?_⟩
      · rcases List.mem_cons.1 h1 with h | h
        · rw [h]; simp
        · simp [h]
      · intro y hy
        rcases List.mem_cons.1 hy with rfl | hy
        · exact le_trans (h2 x (by simp)) (le_of_lt hx)
        · exact h2 y hy
    · simp only [if_neg hx] at h1 h2 ⊢
      refine ⟨?_, ?_⟩
      · rcases List.mem_cons.1 h1 with h | h
        · rw [h]; simp
        · simp [h]
      · intro y hy
        rcases List.mem_cons.1 hy with rfl | hy
        · exact h2 y (by simp)
        · rcases List.mem_cons.1 hy with rfl | hy
          · exact le_trans (h2 e (by simp)) (not_lt.1 hx)
          · exact h2 y (List.mem_cons_of_mem _ hy)

/-- `pickMin` (first entry of minimal fscore — the instance the driver runs) satisfies the heap
contract `PickSpec`; non-vacuity of the hypothesis of `astar_optimal`. -/
theorem pickMin_spec : PickSpec (pickMin : Pick α) := by
  refine ⟨?_, ?_, ?_, ?_⟩
  · intro l; cases l <;> simp [pickMin]
  · intro l m r h
    cases l with
    | nil => simp [pickMin] at h
    | cons e es =>
      simp only [pickMin, Option.some.injEq, Prod.mk.injEq] at h
      rw [← h.1]; exact (minEntry_spec e es).1
  · intro l m r h
    cases l with
    | nil => simp [pickMin] at h
    | cons e es =>
      simp only [pickMin, Option.some.injEq, Prod.mk.injEq] at h
      rw [← h.1]; exact (minEntry_spec e es).2
  · intro l m r h x
    cases l with
    | nil => simp [pickMin] at h
    | cons e es =>
      simp only [pickMin, Option.some.injEq, Prod.mk.injEq] at h
      rw [← h.2, ← h.1]
      simp [List.mem_filter]

/-- the abstract list queue with ANY `pick` satisfying `PickSpec` is a queue in the sense of `QueueSpec`
(no invariant needed): the theorems below hold for every tie-breaking rule -/
theorem listQ_spec (pick : Pick α) (hP : PickSpec pick) : QueueSpec (listQ pick) (fun _ => True) := by
  refine ⟨trivial, fun e => rfl, ?_, ?_, hP.none_iff, ?_⟩
  · intro l e _ _
    exact ⟨trivial, fun x => by simp [listQ]⟩
  · intro l v g f _ _
    refine ⟨trivial, fun x => ?_⟩
    simp only [listQ, List.mem_map]
    constructor
    · rintro ⟨e, he, hee⟩
      by_cases hev : e.node = v
      · right; simp [hev] at hee; exact hee.symm
      · left
        have : (e.node == v) = false := by simpa using hev
        simp [this] at hee; subst hee; exact ⟨he, hev⟩
    · rintro (⟨hx, hxv⟩ | rfl)
      · refine ⟨x, hx, ?_⟩
        have : (x.node == v) = false := by simpa using hxv
        simp [this]
      · obtain ⟨e, he, hev⟩ := ‹∃ x ∈ l, x.node = v›
        exact ⟨e, he, by simp [hev]⟩
  · intro l m r _ h
    exact ⟨hP.mem _ _ _ h, hP.min _ _ _ h, hP.rest _ _ _ h, trivial⟩

/-- **A\* is optimal** (gonum's loop as modelled: closed set without re-opening; the queue is ANY
implementation satisfying `QueueSpec` — gonum's binary heap `heapQ` (`heapQ_spec`) or the list queue with
any tie-breaking rule (`listQ_spec`)).  For non-negative weights, a CONSISTENT heuristic and nodes `0 … n-1`, with fuel `≥ n+1`
the loop terminates without a fault (no `fuel`, `badWeight`, `negWeight`), and either
* `dist t = some c` where `c` is the minimum cost over all walks from `s` to `t`, and `Shortest.To`
  returns a walk from `s` to `t` of exactly that cost (no `noPrev`/`negCycle` fault), or
* `dist t = none`, `t` is not reachable from `s`, and `Shortest.To` returns the empty path.
Covers "whose cost … is minimal over all such chains" and "when the two nodes are not connected the
route is empty" at the level of node paths. -/
theorem astar_optimal (A : Adapter α) (G : Graph α) (pick : Queue α) (Good : List (Entry α) → Prop) (s t n fuel : Nat)
    (hP : QueueSpec pick Good) (hW : WeightsOk A G) (hC : Consistent G A.h t) (hr : InRange G n) (hs : s < n)
    (hf : n + 1 ≤ fuel) :
    ∃ st, astar A pick fuel s t = .ok st ∧
      ((∃ c p, st.dist t = some c ∧ IsMinCost G s t c ∧ shortestTo st s t (n + 2) = .ok (s :: p) ∧
          isWalk G s p ∧ endOf s p = t ∧ cost G s p = c) ∨
       (st.dist t = none ∧ ¬ Reachable G s t ∧ shortestTo st s t (n + 2) = .ok [])) := by
  obtain ⟨st, h1, h2, h3⟩ := astarLoop_post hW hC hP hr fuel (astarInit A pick s t) (init_inv hP hs)
    (by simp [astarInit]; omega)
  refine ⟨st, h1, ?_⟩
  rcases h2 with ⟨c, p, hd, hmin, htree⟩ | ⟨hd, hnr⟩
  · left
    obtain ⟨i1, i2, i3⟩ := htree.walk
    refine ⟨c, p, hd, hmin, ?_, i1, i2, i3⟩
    have hl := htree.len
    simp [shortestTo, hd, htree.pathTo (n + 2) (by omega)]
  · right
    exact ⟨hd, hnr, by simp [shortestTo, hd]⟩

/-- Dijkstra = the zero heuristic (gonum's `NullHeuristic`) is consistent for non-negative weights:
the hypothesis `Consistent` of `astar_optimal` is satisfiable on every such graph. -/
theorem consistent_zero (G : Graph α) (hw : NonnegW G) (t : Nat) : Consistent G (fun _ _ => (0 : α)) t := by
  intro x y hxy
  have := hw x y hxy
  simp; exact this

/-! ### the heuristic of `route.go` (after the fix) is consistent -/

/-- what the heuristic needs from the geometry and the network: `op.Distance` obeys the triangle
inequality; the SCALED distance between the end NODES of a link is at most the link's length (the
invariant `AddLink` maintains by lowering `heuristicScale`, see `build_wf` — without the scale this
fails when an end vertex is only near its node, `C19_gap_not_minimal`); the scale is non-negative;
and every link's speed is positive and at most the tracked MAXIMUM speed. -/
structure GeoOk (geo : Geo α) (net : Net α) : Prop where
  tri : ∀ p q r, geo.euclid p r ≤ geo.euclid p q + geo.euclid q r
  chord : ∀ e ∈ net.edges, ∀ pa pb, nodePos net e.a = some pa → nodePos net e.b = some pb →
    net.hscale * geo.euclid pa pb ≤ e.length ∧ net.hscale * geo.euclid pb pa ≤ e.length
  scale0 : 0 ≤ net.hscale
  speed : ∀ e ∈ net.edges, 0 < e.speed ∧ e.speed ≤ net.maxSpeed ∧ e.time = e.length / e.speed

theorem nodePos_of_hasNode (net : Net α) (i : Nat) (h : hasNode net i = true) : ∃ p, nodePos net i = some p := by
  obtain ⟨m, hm, hid⟩ := (hasNode_iff net i).1 h
  unfold nodePos
  cases hf : net.nodes.find? (fun n => n.id == i) with
  | some x => exact ⟨x.p, rfl⟩
  | none =>
    have := List.find?_eq_none.1 hf m hm
    simp [hid] at this

/-- **The heuristic is consistent**: `h(x,t) ≤ w(x,y) + h(y,t)` on every link, for `h` = straight-line
distance (Distance option) or straight-line distance / MAXIMUM speed (Time option) — the hypothesis
under which gonum's closed-set A* is optimal (`astar_optimal`).  With the minimum speed (the code
before fix 84b0569) `h2` below has no counterpart and the statement fails (findings/C19.json). -/
theorem heuristic_consistent (geo : Geo α) (net : Net α) (ord : Nat → List Nat → List Nat)
    (hord : ∀ u l x, x ∈ ord u l ↔ x ∈ l) (hwf : WF net) (hg : GeoOk geo net) (t : Nat) :
    Consistent (netGraph net ord) (heuristic geo net) t := by
  intro x y hxy
  obtain ⟨e, _, hm, hj, _, _, hw⟩ := adj_edge net ord hord hwf x y hxy
  rw [hw]
  obtain ⟨hl0, ht0⟩ := hwf.nonneg e hm
  have hc0 : 0 ≤ ecost net.opt e := by unfold ecost; cases net.opt <;> simp [hl0, ht0]
  obtain ⟨ha, hb⟩ := hwf.ends e hm
  have hx : hasNode net x = true := by
    rcases hj with h | h
    · rw [← h.1]; exact ha
    · rw [← h.2]; exact hb
  have hy : hasNode net y = true := by
    rcases hj with h | h
    · rw [← h.2]; exact hb
    · rw [← h.1]; exact ha
  obtain ⟨px, hpx⟩ := nodePos_of_hasNode net x hx
  obtain ⟨py, hpy⟩ := nodePos_of_hasNode net y hy
  unfold heuristic
  rw [hpx, hpy]
  cases hpt : nodePos net t with
  | none => simpa using hc0
  | some pt =>
    have hch : net.hscale * geo.euclid px py ≤ e.length := by
      rcases hj with h | h
      · exact (hg.chord e hm px py (by rw [h.1]; exact hpx) (by rw [h.2]; exact hpy)).1
      · exact (hg.chord e hm py px (by rw [h.1]; exact hpy) (by rw [h.2]; exact hpx)).2
    have htri : net.hscale * geo.euclid px pt ≤ net.hscale * (geo.euclid px py + geo.euclid py pt) :=
      mul_le_mul_of_nonneg_left (hg.tri px py pt) hg.scale0
    rw [mul_add] at htri
    obtain ⟨hs0, hsM, hte⟩ := hg.speed e hm
    have hM : 0 < net.maxSpeed := lt_of_lt_of_le hs0 hsM
    simp only []
    rw [mul_comm (geo.euclid px pt), mul_comm (geo.euclid py pt)]
    cases ho : net.opt with
    | distance => simp only [ecost, ho]; linarith
    | time =>
      simp only [ecost, ho]
      rw [hte]
      have h1 : net.hscale * geo.euclid px pt / net.maxSpeed ≤ (e.length + net.hscale * geo.euclid py pt) / net.maxSpeed :=
        div_le_div_of_nonneg_right (by linarith) (le_of_lt hM)
      have h2 : e.length / net.maxSpeed ≤ e.length / e.speed :=
        div_le_div_of_nonneg_left hl0 hs0 hsM
      rw [add_div] at h1
      linarith

/-- sum of the distances of consecutive vertices (`op.Length` of a line string) -/
def polyLenG (geo : Geo α) : List (Pt α) → α
  | p :: q :: r => geo.euclid p q + polyLenG geo (q :: r)
  | _ => 0

/-- **A link is at least as long as its chord** (triangle inequality along the vertices): discharges
`GeoOk.chord` whenever the link's end points are exactly the positions of its end nodes. -/
theorem polyLen_ge_chord (geo : Geo α) (tri : ∀ p q r, geo.euclid p r ≤ geo.euclid p q + geo.euclid q r)
    (hrefl : ∀ p, geo.euclid p p ≤ 0) (p0 : Pt α) (rest : List (Pt α)) :
    geo.euclid p0 ((p0 :: rest).getLast (by simp)) ≤ polyLenG geo (p0 :: rest) := by
  induction rest generalizing p0 with
  | nil => simpa [polyLenG] using hrefl p0
  | cons q rest ih =>
    have h1 := ih q
    have h2 := tri p0 q ((q :: rest).getLast (by simp))
    simp only [polyLenG, List.getLast_cons_cons]
    linarith

/-- Euclidean distance of the plane over ℝ (`op.Distance`: `sqrt(dx² + dy²)`) -/
noncomputable def euclidR (p q : Pt ℝ) : ℝ := Real.sqrt ((p.x - q.x) ^ 2 + (p.y - q.y) ^ 2)

/-- **Triangle inequality for `op.Distance` over ℝ** — `GeoOk.tri` holds for the real geometry. -/
theorem euclidR_tri (p q r : Pt ℝ) : euclidR p r ≤ euclidR p q + euclidR q r := by
  have h := dist_triangle (⟨p.x, p.y⟩ : ℂ) ⟨q.x, q.y⟩ ⟨r.x, r.y⟩
  simpa [Complex.dist_eq_re_im, euclidR] using h

theorem euclidR_self (p : Pt ℝ) : euclidR p p ≤ 0 := by simp [euclidR]

/-! ### ShortestRoute -/

/-- contract of the R-tree query used here: the nearest neighbour is one of the stored nodes -/
def NearestMem (geo : Geo α) : Prop := ∀ l p x, geo.nearest l p = some x → x ∈ l

/-- **ShortestRoute returns a minimum-cost chain of links.**  Given that the value handed to gonum
implements `path.Weighted` (`implementsWeighted = true`, tied by the harness) and the heuristic is
consistent (`heuristic_consistent`: maximum-speed heuristic), for ANY heap tie-breaking (`PickSpec`)
and ANY map iteration order (`ord`), on a well-formed network without parallel links, when the node
`s` nearest the start point and the node `t` nearest the end point are joined by some chain of links:
the call does not panic; the returned links form a chain from `s` to `t` (each link shares an end
node with the next); the reported distance and time are the sums over the returned links; and the
minimised quantity is minimal over ALL chains of links from `s` to `t`. -/
theorem C19_route (geo : Geo α) (pick : Queue α) (Good : List (Entry α) → Prop) (ord : Nat → List Nat → List Nat) (net : Net α)
    (from_ to_ : Pt α) (s t : MNode α)
    (hP : QueueSpec pick Good) (hord : ∀ u l x, x ∈ ord u l ↔ x ∈ l) (hwf : WF net) (hnp : NoParallel net)
    (hnear : NearestMem geo) (hs : geo.nearest net.nodes from_ = some s) (ht : geo.nearest net.nodes to_ = some t)
    (hC : Consistent (netGraph net ord) (heuristic geo net) t.id)
    (hconn : ∃ es0, (∀ e ∈ es0, e ∈ net.edges) ∧ EChain s.id es0 t.id) :
    ∃ r es, shortestRoute geo pick true ord net from_ to_ = .ok r ∧
      r.startNode = s.id ∧ r.endNode = t.id ∧
      r.startDistance = geo.euclid from_ s.p ∧ r.endDistance = geo.euclid to_ t.p ∧
      r.links = es.map (·.link) ∧ (∀ e ∈ es, e ∈ net.edges) ∧ EChain s.id es t.id ∧
      r.distance = esum (·.length) es ∧ r.time = esum (·.time) es ∧
      ∀ es', (∀ e ∈ es', e ∈ net.edges) → EChain s.id es' t.id →
        esum (ecost net.opt) es ≤ esum (ecost net.opt) es' := by
  have hsn : s.id < net.nodes.length + 1 := hwf.ids s (hnear _ _ _ hs)
  obtain ⟨st, hst, hres⟩ := astar_optimal (adapter geo net true ord) (netGraph net ord) pick Good s.id t.id
    (net.nodes.length + 1) (net.nodes.length + 2) hP (weightsOk_net geo net ord hord hwf) hC
    (inRange_net net ord hord hwf) hsn (le_refl _)
  obtain ⟨es0, hes0, hch0⟩ := hconn
  obtain ⟨p0, hp0, he0, _⟩ := chain_walk net ord hord hwf hnp es0 s.id t.id hes0 hch0
  rcases hres with ⟨c, p, hd, hmin, hto, hw, hend, hcost⟩ | ⟨_, hnr, _⟩
  · obtain ⟨es, h1, h2, h3, h4⟩ := collect_walk net ord hord hwf p s.id hw
    rw [hend] at h2
    refine ⟨⟨es.map (·.link), esum (·.length) es, esum (·.time) es, geo.euclid from_ s.p, geo.euclid to_ t.p, s.id, t.id⟩,
      es, ?_, rfl, rfl, rfl, rfl, rfl, h3, h2, rfl, rfl, ?_⟩
    · simp only [shortestRoute, hs, ht, hst, hto, h1]
    · intro es' hes' hch'
      obtain ⟨p', hp', he', hc'⟩ := chain_walk net ord hord hwf hnp es' s.id t.id hes' hch'
      rw [← h4, hcost, ← hc']
      exact hmin.2 p' hp' he'
  · exact absurd ⟨p0, hp0, he0⟩ hnr

/-- **Unconnected nodes give the empty route** (and zero totals, no panic): when no chain of links
leads from the node nearest the start point to the node nearest the end point. -/
theorem C19_unreachable (geo : Geo α) (pick : Queue α) (Good : List (Entry α) → Prop) (ord : Nat → List Nat → List Nat) (net : Net α)
    (from_ to_ : Pt α) (s t : MNode α)
    (hP : QueueSpec pick Good) (hord : ∀ u l x, x ∈ ord u l ↔ x ∈ l) (hwf : WF net)
    (hnear : NearestMem geo) (hs : geo.nearest net.nodes from_ = some s) (ht : geo.nearest net.nodes to_ = some t)
    (hC : Consistent (netGraph net ord) (heuristic geo net) t.id)
    (hdis : ¬ ∃ es0, (∀ e ∈ es0, e ∈ net.edges) ∧ EChain s.id es0 t.id) :
    ∃ r, shortestRoute geo pick true ord net from_ to_ = .ok r ∧ r.links = [] ∧ r.distance = 0 ∧ r.time = 0 ∧
      r.startNode = s.id ∧ r.endNode = t.id := by
  have hsn : s.id < net.nodes.length + 1 := hwf.ids s (hnear _ _ _ hs)
  obtain ⟨st, hst, hres⟩ := astar_optimal (adapter geo net true ord) (netGraph net ord) pick Good s.id t.id
    (net.nodes.length + 1) (net.nodes.length + 2) hP (weightsOk_net geo net ord hord hwf) hC
    (inRange_net net ord hord hwf) hsn (le_refl _)
  rcases hres with ⟨c, p, hd, hmin, hto, hw, hend, hcost⟩ | ⟨_, hnr, hto⟩
  · obtain ⟨es, h1, h2, h3, h4⟩ := collect_walk net ord hord hwf p s.id hw
    rw [hend] at h2
    exact absurd ⟨es, h3, h2⟩ hdis
  · refine ⟨⟨[], 0, 0, geo.euclid from_ s.p, geo.euclid to_ t.p, s.id, t.id⟩, ?_, rfl, rfl, rfl, rfl, rfl⟩
    simp only [shortestRoute, hs, ht, hst, hto, collect]

/-! ### all histories -/

theorem binv_new (geo : Geo α) (o : Opt) : BInv geo (newNetwork o : Net α) := by
  refine ⟨rfl, ?_, ?_, ?_, ?_, ?_, by simp [newNetwork], by simp [newNetwork], ?_⟩ <;> intro x hx <;> simp [newNetwork] at hx

/-- **Every sequence of AddLink calls gives a well-formed network** (no bound on the history):
node ids are `1 … |nodes|` and unique, every stored link joins two distinct stored nodes, lengths and
times are non-negative, `time = length / speed`, every speed is positive and at most the tracked maximum
speed, `0 ≤ heuristicScale ≤ 1`, and for EVERY stored link `heuristicScale ×` (distance between the
positions of its two end nodes) `≤` its length — whatever vertices were identified with those nodes
(what `heuristic_consistent` needs).  Hypotheses: the R-tree returns a stored node, `op.Length` and
`op.Distance` are non-negative, speeds are positive (the property's quantifier). -/
theorem build_wf (geo : Geo α) (hc : GeoContract geo) (o : Opt) (ls : List (Link α)) (net : Net α)
    (hsp : ∀ l ∈ ls, 0 < l.speed) (h : build geo o ls = .ok net) :
    WF net ∧ (∀ e ∈ net.edges, 0 < e.speed ∧ e.speed ≤ net.maxSpeed ∧ e.time = e.length / e.speed) ∧
    (net.nodes.map (·.id)).Nodup ∧ (0 ≤ net.hscale ∧ net.hscale ≤ 1) ∧
    ∀ e ∈ net.edges, ∀ pa pb, nodePos net e.a = some pa → nodePos net e.b = some pb →
      net.hscale * geo.euclid pa pb ≤ e.length := by
  have := buildFrom_inv geo hc ls (newNetwork o) net 0 (binv_new geo o) hsp h
  exact ⟨this.wf, this.speed, this.nodup, this.scale, this.chord⟩

/-- **C19 for networks built by any AddLink history** — `build_wf`, `heuristic_consistent` and
`C19_route` composed: the only remaining hypotheses are the contracts of the geometric primitives
(`GeoContract`: the R-tree returns a stored node, lengths and distances are non-negative, `op.Distance`
is symmetric; and its triangle inequality), the heap contract, the quantifier of the property (positive
speeds, no parallel links; self-loops make `build` fault), and that the two nearest nodes are connected.
NO hypothesis relates link lengths to node positions any more: since fix 3 the code scales its heuristic
so that it is consistent also when link end vertices are only near their nodes. -/
theorem C19_built (geo : Geo α) (pick : Queue α) (Good : List (Entry α) → Prop) (ord : Nat → List Nat → List Nat) (o : Opt)
    (ls : List (Link α)) (net : Net α) (from_ to_ : Pt α) (s t : MNode α)
    (hb : build geo o ls = .ok net) (hsp : ∀ l ∈ ls, 0 < l.speed) (hc : GeoContract geo)
    (htri : ∀ p q r, geo.euclid p r ≤ geo.euclid p q + geo.euclid q r)
    (hP : QueueSpec pick Good) (hord : ∀ u l x, x ∈ ord u l ↔ x ∈ l) (hnp : NoParallel net)
    (hs : geo.nearest net.nodes from_ = some s) (ht : geo.nearest net.nodes to_ = some t)
    (hconn : ∃ es0, (∀ e ∈ es0, e ∈ net.edges) ∧ EChain s.id es0 t.id) :
    ∃ r es, shortestRoute geo pick true ord net from_ to_ = .ok r ∧
      r.startNode = s.id ∧ r.endNode = t.id ∧
      r.startDistance = geo.euclid from_ s.p ∧ r.endDistance = geo.euclid to_ t.p ∧
      r.links = es.map (·.link) ∧ (∀ e ∈ es, e ∈ net.edges) ∧ EChain s.id es t.id ∧
      r.distance = esum (·.length) es ∧ r.time = esum (·.time) es ∧
      ∀ es', (∀ e ∈ es', e ∈ net.edges) → EChain s.id es' t.id →
        esum (ecost net.opt) es ≤ esum (ecost net.opt) es' := by
  obtain ⟨hwf, hspeed, _, hscale, hchord⟩ := build_wf geo hc o ls net hsp hb
  have hch : ∀ e ∈ net.edges, ∀ pa pb, nodePos net e.a = some pa → nodePos net e.b = some pb →
      net.hscale * geo.euclid pa pb ≤ e.length ∧ net.hscale * geo.euclid pb pa ≤ e.length := by
    intro e he pa pb ha hb'
    have := hchord e he pa pb ha hb'
    exact ⟨this, by rw [hc.euclidSymm pb pa]; exact this⟩
  exact C19_route geo pick Good ord net from_ to_ s t hP hord hwf hnp hc.nearestMem hs ht
    (heuristic_consistent geo net ord hord hwf ⟨htri, hch, hscale.1, hspeed⟩ t.id) hconn

/-- **C19 with gonum's real queue** — `C19_built` instantiated with the binary heap `heapQ`
(`heapQ_spec`): for networks built by any AddLink history and gonum's `aStarQueue` under Go's
`container/heap`, no hypothesis about the priority queue is left. -/
theorem C19_built_gonum (geo : Geo α) (ord : Nat → List Nat → List Nat) (o : Opt)
    (ls : List (Link α)) (net : Net α) (from_ to_ : Pt α) (s t : MNode α)
    (hb : build geo o ls = .ok net) (hsp : ∀ l ∈ ls, 0 < l.speed) (hc : GeoContract geo)
    (htri : ∀ p q r, geo.euclid p r ≤ geo.euclid p q + geo.euclid q r)
    (hord : ∀ u l x, x ∈ ord u l ↔ x ∈ l) (hnp : NoParallel net)
    (hs : geo.nearest net.nodes from_ = some s) (ht : geo.nearest net.nodes to_ = some t)
    (hconn : ∃ es0, (∀ e ∈ es0, e ∈ net.edges) ∧ EChain s.id es0 t.id) :
    ∃ r es, shortestRoute geo heapQ true ord net from_ to_ = .ok r ∧
      r.startNode = s.id ∧ r.endNode = t.id ∧
      r.startDistance = geo.euclid from_ s.p ∧ r.endDistance = geo.euclid to_ t.p ∧
      r.links = es.map (·.link) ∧ (∀ e ∈ es, e ∈ net.edges) ∧ EChain s.id es t.id ∧
      r.distance = esum (·.length) es ∧ r.time = esum (·.time) es ∧
      ∀ es', (∀ e ∈ es', e ∈ net.edges) → EChain s.id es' t.id →
        esum (ecost net.opt) es ≤ esum (ecost net.opt) es' :=
  C19_built geo heapQ GoodH ord o ls net from_ to_ s t hb hsp hc htri heapQ_spec hord hnp hs ht hconn

/-- **Answers do not depend on the query history.**  In any history of `AddLink` and `ShortestRoute`
calls on one network (`runOps`), the answer to a query is `shortestRoute` on the network built from
exactly the links added before it — whatever was asked earlier.  Together with `C19_built` this is
the property for "networks built by ANY sequence of AddLink calls" when calls are interleaved; the
correspondence run asks the real code the same query again after further links (stale caches). -/
theorem C19_history (geo : Geo α) (pick : Queue α) (iw : Bool) (ord : Nat → List Nat → List Nat)
    (pre post : List (Op α)) (a b : Pt α) (net : Net α) (i : Nat) (rs : List (Except Fault (Route α)))
    (h : runOps geo pick iw ord net i (pre ++ Op.query a b :: post) = .ok rs) :
    ∃ net', buildFrom geo net i (linksOf pre) = .ok net' ∧
      rs[queriesIn pre]? = some (shortestRoute geo pick iw ord net' a b) := by
  induction pre generalizing net i rs with
  | nil =>
    simp only [List.nil_append, runOps] at h
    cases hr : runOps geo pick iw ord net i post with
    | error e => simp [hr] at h
    | ok rs' =>
      simp only [hr, Except.ok.injEq] at h
      subst h
      exact ⟨net, rfl, by simp [queriesIn]⟩
  | cons o pre ih =>
    cases o with
    | link l =>
      simp only [List.cons_append, runOps] at h
      cases ha : addLink geo net i l with
      | error e => simp [ha] at h
      | ok net1 =>
        simp only [ha] at h
        obtain ⟨net', h1, h2⟩ := ih net1 (i + 1) rs h
        exact ⟨net', by simp [linksOf, buildFrom, ha, h1], by simpa [queriesIn] using h2⟩
    | query a' b' =>
      simp only [List.cons_append, runOps] at h
      cases hr : runOps geo pick iw ord net i (pre ++ Op.query a b :: post) with
      | error e => simp [hr] at h
      | ok rs' =>
        simp only [hr, Except.ok.injEq] at h
        subst h
        obtain ⟨net', h1, h2⟩ := ih net i rs' hr
        exact ⟨net', by simpa [linksOf] using h1, by simpa [queriesIn] using h2⟩

/-! ### why the heuristic is scaled (finding "identification gaps", fixed by fix 3) -/

def absQ (a : ℚ) : ℚ := if a < 0 then -a else a
/-- Manhattan geometry, exact-position lookup -/
def geoW : Geo ℚ :=
  { nearest := fun l p => l.find? fun m => decide (m.p.x = p.x ∧ m.p.y = p.y)
    ptEq := fun p q => decide (p.x = q.x ∧ p.y = q.y)
    length := fun _ => 0
    euclid := fun p q => absQ (p.x - q.x) + absQ (p.y - q.y)
    one := 1 }

/-- nodes 1 (0,0), 2 (10,0), 3 (20,0); link 2–3 is 8 long although its end nodes are 10 apart (its end
vertex near node 2 lies 2 closer to node 3, inside the identification tolerance at that magnitude);
the direct link 1–3 is 19 long -/
def netW : Net ℚ :=
  { opt := .distance
    nodes := [⟨1, ⟨0, 0⟩⟩, ⟨2, ⟨10, 0⟩⟩, ⟨3, ⟨20, 0⟩⟩]
    edges := [⟨0, 1, 2, 10, 1, 10⟩, ⟨1, 2, 3, 8, 1, 8⟩, ⟨2, 1, 3, 19, 1, 19⟩]
    maxID := 3
    maxSpeed := 1
    hscale := 1 }

def routeDist (r : Except Fault (Route ℚ)) : ℚ := match r with | .ok r => r.distance | .error _ => 0


/-- **The unscaled heuristic (`heuristicScale = 1`, the code before fix 3) is not enough.**  With
`hscale = 1` `GeoOk.chord` says that every link is at least as long as the distance between its END
NODES.  When a link's end vertex is merely near its node (inside `op.PointEquals`' tolerance) that
fails by the size of the gap, the heuristic overestimates, and the modelled A* — like the real code
before the fix on the corpus case `gap` — returns the direct link of length 19 although the chain
over node 2 costs 18; all other hypotheses of `C19_route` hold.  `C19_gap_fixed` below is the same
network built by the fixed `AddLink`. -/
theorem C19_gap_not_minimal :
    routeDist (shortestRoute geoW (listQ pickMin) true (fun _ l => l) netW ⟨0, 0⟩ ⟨20, 0⟩) = 19 ∧
    EChain 1 [(⟨0, 1, 2, 10, 1, 10⟩ : MEdge ℚ), ⟨1, 2, 3, 8, 1, 8⟩] 3 ∧
    (∀ e ∈ [(⟨0, 1, 2, 10, 1, 10⟩ : MEdge ℚ), ⟨1, 2, 3, 8, 1, 8⟩], e ∈ netW.edges) ∧
    esum (ecost netW.opt) [(⟨0, 1, 2, 10, 1, 10⟩ : MEdge ℚ), ⟨1, 2, 3, 8, 1, 8⟩] = 18 ∧
    WF netW ∧ NoParallel netW := by
  refine ⟨by decide +kernel, by simp [EChain], by simp [netW], by norm_num [esum, ecost, netW], ?_, ?_⟩
  · refine ⟨?_, ?_, ?_, ?_⟩
    · intro e he; simp [netW] at he; rcases he with rfl | rfl | rfl <;> norm_num
    · intro e he; simp [netW] at he; rcases he with rfl | rfl | rfl <;> norm_num
    · intro e he; simp [netW] at he; rcases he with rfl | rfl | rfl <;> simp [hasNode, netW]
    · intro m hm; simp [netW] at hm; rcases hm with rfl | rfl | rfl <;> simp [netW]
  · intro e he e' he' u v h1 h2
    simp [netW] at he he'
    rcases he with rfl | rfl | rfl <;> rcases he' with rfl | rfl | rfl <;> simp [Joins] at h1 h2 ⊢ <;> omega

/-- Manhattan geometry; an end point is identified with the NEAREST node when at most 2 away on the same
horizontal line (a stand-in for `op.PointEquals`' tolerance) -/
def geoN : Geo ℚ :=
  { nearest := fun l p => match l with
      | [] => none
      | n :: ns => some (ns.foldl (fun m x =>
          if absQ (x.p.x - p.x) + absQ (x.p.y - p.y) < absQ (m.p.x - p.x) + absQ (m.p.y - p.y) then x else m) n)
    ptEq := fun p q => decide (absQ (p.x - q.x) ≤ 2 ∧ p.y = q.y)
    length := fun pts => match pts with
      | [p, q] => absQ (p.x - q.x) + absQ (p.y - q.y)
      | _ => 0
    euclid := fun p q => absQ (p.x - q.x) + absQ (p.y - q.y)
    one := 1 }

def gapLinks : List (Link ℚ) :=
  [⟨[⟨0, 0⟩, ⟨10, 0⟩], 1⟩, ⟨[⟨12, 0⟩, ⟨20, 0⟩], 1⟩, ⟨[⟨1, 0⟩, ⟨20, 0⟩], 1⟩]

def builtDist (r : Except Fault (Net ℚ)) : ℚ × ℚ × Nat :=
  match r with
  | .ok net => (routeDist (shortestRoute geoN (listQ pickMin) true (fun _ l => l) net ⟨0, 0⟩ ⟨20, 0⟩), net.hscale, net.nodes.length)
  | .error _ => (0, 0, 0)

/-- **The witness network built by the fixed `AddLink`**: links (0,0)–(10,0), (12,0)–(20,0) (its first
vertex is identified with the node at (10,0): length 8, node distance 10) and (1,0)–(20,0) (identified
with the node at (0,0): length 19, node distance 20) give three nodes and `heuristicScale = 8/10`; the
route from (0,0) to (20,0) now is the chain over the middle node, 18 — the minimum. -/
theorem C19_gap_fixed : builtDist (build geoN .distance gapLinks) = (18, 4/5, 3) := by decide +kernel

/-! ### non-vacuity: the hypotheses are satisfiable together (a two-link network over ℚ) -/

example : PickSpec (pickMin : Pick ℚ) := pickMin_spec
example : QueueSpec (heapQ : Queue ℚ) GoodH := heapQ_spec

/-- Manhattan geometry over ℚ with lookup-by-position as the "nearest" query -/
def geoQ : Geo ℚ :=
  { nearest := fun l p => l.find? fun m => decide (m.p.x = p.x ∧ m.p.y = p.y)
    ptEq := fun p q => p.x == q.x && p.y == q.y
    length := fun _ => 0
    euclid := fun p q => |p.x - q.x| + |p.y - q.y|
    one := 1 }

/-- nodes 1 (0,0), 2 (4,0), 3 (4,3); links 1–2 (length 4) and 2–3 (length 3), speed 1 -/
def netQ : Net ℚ :=
  { opt := .distance
    nodes := [⟨1, ⟨0, 0⟩⟩, ⟨2, ⟨4, 0⟩⟩, ⟨3, ⟨4, 3⟩⟩]
    edges := [⟨0, 1, 2, 4, 1, 4⟩, ⟨1, 2, 3, 3, 1, 3⟩]
    maxID := 3
    maxSpeed := 1
    hscale := 1 }

theorem wfQ : WF netQ := by
  refine ⟨?_, ?_, ?_, ?_⟩
  · intro e he; simp [netQ] at he; rcases he with rfl | rfl <;> norm_num
  · intro e he; simp [netQ] at he; rcases he with rfl | rfl <;> norm_num
  · intro e he; simp [netQ] at he; rcases he with rfl | rfl <;> simp [hasNode, netQ]
  · intro m hm; simp [netQ] at hm; rcases hm with rfl | rfl | rfl <;> simp [netQ]

theorem npQ : NoParallel netQ := by
  intro e he e' he' u v h1 h2
  simp [netQ] at he he'
  rcases he with rfl | rfl <;> rcases he' with rfl | rfl <;> simp [Joins] at h1 h2 ⊢ <;> omega

theorem geoOkQ : GeoOk geoQ netQ := by
  refine ⟨?_, ?_, by norm_num [netQ], ?_⟩
  · intro p q r
    have h1 := abs_sub_le p.x q.x r.x
    have h2 := abs_sub_le p.y q.y r.y
    simp only [geoQ]; linarith
  · intro e he pa pb ha hb
    simp [netQ] at he
    rcases he with rfl | rfl <;> simp [nodePos, netQ] at ha hb <;> subst ha <;> subst hb <;> norm_num [geoQ, netQ]
  · intro e he; simp [netQ] at he; rcases he with rfl | rfl <;> norm_num [netQ]

/-- the hypotheses of `C19_route` are jointly satisfiable (query from (0,0) to (4,3): nodes 1 and 3) -/
example : ∃ (r : Route ℚ) (es : List (MEdge ℚ)), shortestRoute geoQ (listQ pickMin) true (fun _ l => l) netQ ⟨0, 0⟩ ⟨4, 3⟩ = .ok r ∧
      r.startNode = 1 ∧ r.endNode = 3 ∧ EChain 1 es 3 ∧ r.links = es.map (·.link) := by
  have hs : geoQ.nearest netQ.nodes ⟨0, 0⟩ = some ⟨1, ⟨0, 0⟩⟩ := by simp [geoQ, netQ]
  have ht : geoQ.nearest netQ.nodes ⟨4, 3⟩ = some ⟨3, ⟨4, 3⟩⟩ := by
    simp [geoQ, netQ, List.find?]
  have hnear : NearestMem geoQ := by
    intro l p x h; exact List.mem_of_find?_eq_some h
  have hord : ∀ (u : Nat) (l : List Nat) (x : Nat), x ∈ (fun (_ : Nat) (l : List Nat) => l) u l ↔ x ∈ l := fun _ _ _ => Iff.rfl
  obtain ⟨r, es, h1, h2, h3, _, _, h6, _, h8, _⟩ := C19_route geoQ (listQ pickMin) (fun _ => True) (fun _ l => l) netQ ⟨0, 0⟩ ⟨4, 3⟩ ⟨1, ⟨0, 0⟩⟩ ⟨3, ⟨4, 3⟩⟩
    (listQ_spec _ pickMin_spec) hord wfQ npQ hnear hs ht (heuristic_consistent geoQ netQ _ hord wfQ geoOkQ 3)
    ⟨[⟨0, 1, 2, 4, 1, 4⟩, ⟨1, 2, 3, 3, 1, 3⟩], by simp [netQ], by simp [EChain]⟩
  exact ⟨r, es, h1, h2, h3, h8, h6⟩

end GeomV.C19
