import GeomV.C19.AStar
/-!
# C19 — property theorems
-/
set_option linter.unusedVariables false
set_option linter.unusedSimpArgs false
set_option linter.unusedSectionVars false
namespace GeomV.C19

variable {α : Type} [Field α] [LinearOrder α] [IsStrictOrderedRing α]

/-- **The oracle is the minimum.**  For non-negative weights and nodes `0 … n-1`, the Bellman–Ford
table after `n - 1` rounds holds, for every node `t`, exactly the minimum of the costs of ALL walks
(chains) from `s` to `t`; an empty entry means that `t` is not connected to `s`.  This is what the
judge compares the implementation's route cost with ("cost … minimal over all such chains",
"when the two nodes are not connected"). -/
theorem bellmanFord_correct (G : Graph α) (n s : Nat) (hw : NonnegW G) (hr : InRange G n) (hs : s < n) (t : Nat) :
    (∀ c, look (bellmanFord G n s) t = some c ↔ IsMinCost G s t c) ∧
    (look (bellmanFord G n s) t = none ↔ ¬ Reachable G s t) := by
  have hle := bellmanFord_le G n s hw hr hs
  constructor
  · intro c
    constructor
    · intro h
      refine ⟨bfIter_sound G n s _ t c h, ?_⟩
      intro p hp he
      obtain ⟨y, hy, hyc⟩ := hle p hp
      rw [he, h] at hy
      cases hy; exact hyc
    · rintro ⟨⟨p, hp, he, hc⟩, hmin⟩
      obtain ⟨y, hy, hyc⟩ := hle p hp
      rw [he] at hy
      obtain ⟨q, hq, hqe, hqc⟩ := bfIter_sound G n s _ t y hy
      have := hmin q hq hqe
      have : y = c := le_antisymm (by rw [← hc]; exact hyc) (by rw [← hqc]; exact this)
      rw [hy, this]
  · constructor
    · rintro h ⟨p, hp, he⟩
      obtain ⟨y, hy, _⟩ := hle p hp
      rw [he, h] at hy
      cases hy
    · intro h
      cases hl : look (bellmanFord G n s) t with
      | none => rfl
      | some c =>
        obtain ⟨q, hq, hqe, _⟩ := bfIter_sound G n s _ t c hl
        exact absurd ⟨q, hq, hqe⟩ h


/-! ### the heap contract is satisfiable: the instance the driver runs -/

theorem minEntry_spec (e : Entry α) (es : List (Entry α)) :
    minEntry e es ∈ e :: es ∧ ∀ x ∈ e :: es, (minEntry e es).f ≤ x.f := by
  induction es generalizing e with
  | nil => simp [minEntry]
  | cons x es ih =>
    have hfold : minEntry e (x :: es) = minEntry (if x.f < e.f then x else e) es := by
      simp [minEntry]
    rw [hfold]
    obtain ⟨h1, h2⟩ := ih (if x.f < e.f then x else e)
    by_cases hx : x.f < e.f
    · simp only [if_pos hx] at h1 h2 ⊢
      refine ⟨?_, ?_⟩
      · rcases List.mem_cons.1 h1 with h | h
        · rw [h]; simp
        · simp [h]
      · intro y hy
        rcases List.mem_cons.1 hy with rfl | hy
        · exact le_trans (h2 x (by simp)) (le_of_lt hx)
        · exact h2 y hy
    · simp only [if_neg hx] at h1 h2 ⊢
      refine ⟨?_, ?_⟩
      · rcases List.mem_cons.1 h1 with h | h
        · rw [h]; simp
        · simp [h]
      · intro y hy
        rcases List.mem_cons.1 hy with rfl | hy
        · exact h2 y (by simp)
        · rcases List.mem_cons.1 hy with rfl | hy
          · exact le_trans (h2 e (by simp)) (not_lt.1 hx)
          · exact h2 y (List.mem_cons_of_mem _ hy)

/-- `pickMin` (first entry of minimal fscore — the instance the driver runs) satisfies the heap
contract `PickSpec`; non-vacuity of the hypothesis of `astar_optimal`. -/
theorem pickMin_spec : PickSpec (pickMin : Pick α) := by
  refine ⟨?_, ?_, ?_, ?_⟩
  · intro l; cases l <;> simp [pickMin]
  · intro l m r h
    cases l with
    | nil => simp [pickMin] at h
    | cons e es =>
      simp only [pickMin, Option.some.injEq, Prod.mk.injEq] at h
      rw [← h.1]; exact (minEntry_spec e es).1
  · intro l m r h
    cases l with
    | nil => simp [pickMin] at h
    | cons e es =>
      simp only [pickMin, Option.some.injEq, Prod.mk.injEq] at h
      rw [← h.1]; exact (minEntry_spec e es).2
  · intro l m r h x
    cases l with
    | nil => simp [pickMin] at h
    | cons e es =>
      simp only [pickMin, Option.some.injEq, Prod.mk.injEq] at h
      rw [← h.2, ← h.1]
      simp [List.mem_filter]

/-- **A\* is optimal** (gonum's loop as modelled: closed set without re-opening, heap abstracted to
`PickSpec`).  For non-negative weights, a CONSISTENT heuristic and nodes `0 … n-1`, with fuel `≥ n+1`
the loop terminates without a fault (no `fuel`, `badWeight`, `negWeight`), and either
* `dist t = some c` where `c` is the minimum cost over all walks from `s` to `t`, and `Shortest.To`
  returns a walk from `s` to `t` of exactly that cost (no `noPrev`/`negCycle` fault), or
* `dist t = none`, `t` is not reachable from `s`, and `Shortest.To` returns the empty path.
Covers "whose cost … is minimal over all such chains" and "when the two nodes are not connected the
route is empty" at the level of node paths. -/
theorem astar_optimal (A : Adapter α) (G : Graph α) (pick : Pick α) (s t n fuel : Nat)
    (hP : PickSpec pick) (hW : WeightsOk A G) (hC : Consistent G A.h t) (hr : InRange G n) (hs : s < n)
    (hf : n + 1 ≤ fuel) :
    ∃ st, astar A pick fuel s t = .ok st ∧
      ((∃ c p, st.dist t = some c ∧ IsMinCost G s t c ∧ shortestTo st s t (n + 2) = .ok (s :: p) ∧
          isWalk G s p ∧ endOf s p = t ∧ cost G s p = c) ∨
       (st.dist t = none ∧ ¬ Reachable G s t ∧ shortestTo st s t (n + 2) = .ok [])) := by
  obtain ⟨st, h1, h2, h3⟩ := astarLoop_post hW hC hP hr fuel (astarInit A s t) (init_inv hs)
    (by simp [astarInit]; omega)
  refine ⟨st, h1, ?_⟩
  rcases h2 with ⟨c, p, hd, hmin, htree⟩ | ⟨hd, hnr⟩
  · left
    obtain ⟨i1, i2, i3⟩ := htree.walk
    refine ⟨c, p, hd, hmin, ?_, i1, i2, i3⟩
    have hl := htree.len
    simp [shortestTo, hd, htree.pathTo (n + 2) (by omega)]
  · right
    exact ⟨hd, hnr, by simp [shortestTo, hd]⟩

/-- Dijkstra = the zero heuristic (gonum's `NullHeuristic`) is consistent for non-negative weights:
the hypothesis `Consistent` of `astar_optimal` is satisfiable on every such graph. -/
theorem consistent_zero (G : Graph α) (hw : NonnegW G) (t : Nat) : Consistent G (fun _ _ => (0 : α)) t := by
  intro x y hxy
  have := hw x y hxy
  simp; exact this

end GeomV.C19
