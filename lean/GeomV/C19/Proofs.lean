import GeomV.C19.Spec
namespace GeomV.C19
end GeomV.C19
