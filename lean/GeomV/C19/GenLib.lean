import GeomV.C19.Model
/-!
# Go constructs used by the regenerated definitions (`Gen.lean`) of C19

`harness/cmd/c19/extract` renders the functions of `route/route.go` of the tree under test (NewNetwork,
Has, From, Edge, Node, newNodeID, newNode, addNode, AddLink, Weight, costHeuristic, ShortestRoute) into the
monad `M = Except GFault`.  Every Go construct that can panic is a faulting operation here, nothing is
totalised: `a[i]`, `x.f` / `x.m()` through a nil pointer (`deref`), `x.(*T)` on a nil interface (`assert`),
`m[k1][k2] = v` on a nil inner map (`mapSet2`), `panic(..)`.

Representation (translation table: header of `harness/cmd/c19/extract/main.go`):
* `*node`, `graph.Node`, `rtree.Spatial` holding a node ↦ `Option (MNode α)` (`none` = nil); `*edge` ↦ `Option (Edge α)`;
  a node/edge is never written after its construction (the extractor rejects assignments through such a
  pointer), so a pointer is modelled by the value it points to.
* Go maps ↦ association lists in insertion order (`Map`); `range` over a map visits the entries in the order
  `mo.perm` (ANY function; Go's order is unspecified).
* the two R-trees ↦ the list of stored objects (`Insert` appends); `NearestNeighbor` is the parameter
  `geo.nearest` (property C12), `op.PointEquals / Length / Distance` the parameters `geo.ptEq / length / euclid`.
* `float64` ↦ the number type `α`; `math.Inf(1)` ↦ the parameter `inf`; `int64`/node ids ↦ `Nat`
  (`maxInt = 2^63 - 1` is the bound the source tests); `int` index expressions ↦ `Int`.
* `path.AStar(s, t, net, net.costHeuristic)` + `Shortest.To` ↦ `aStar` / `shortestTo`: the transliterated gonum
  loop of Model.lean run on the adapter made of the REGENERATED `From`, `Weight`, `costHeuristic`.
Core Lean only.
-/
set_option linter.unusedVariables false
namespace GeomV.C19.Go
open GeomV GeomV.C19

inductive GFault
  | index        -- index out of range
  | nilDeref     -- field / method through a nil pointer
  | nilAssert    -- x.(*T) on a nil interface
  | nilMap       -- assignment to an entry of a nil map
  | panic (msg : String)
  | gonum (f : Fault)   -- a panic inside gonum's AStar / Shortest.To (model faults)
deriving Repr, DecidableEq, Inhabited

abbrev M := Except GFault

/-- Go `edge` (`LineString` embedded, `start`/`end` are `*node`) -/
structure Edge (α : Type) where
  LineString : List (Pt α)
  start : Option (MNode α)
  end_ : Option (MNode α)
  length : α
  speed : α
  time : α

abbrev Map (κ β : Type) := List (κ × β)

/-- Go `Network` (`freeMap` is never used by the package and is left out; the extractor checks the field list) -/
structure Network (α : Type) where
  nodes : List (MNode α)
  edges : List (Edge α)
  neighbors : Map Nat (Map Nat (Option (Edge α)))
  nodeMap : Map Nat (Option (MNode α))
  maxID : Nat
  minimizeOption : α
  maximumSpeed : α
  heuristicScale : α

/-- order in which `range` visits a map: any function (only permutations occur) -/
structure MapOrder where
  perm : {β : Type} → Map Nat β → Map Nat β

def maxInt : Nat := 2 ^ 63 - 1

def len {β : Type} (l : List β) : Int := l.length

/-- `l[i]` -/
def idx {β : Type} (l : List β) (i : Int) : M β :=
  if 0 ≤ i then
    match l[i.toNat]? with
    | some v => pure v
    | none => throw .index
  else throw .index

/-- `l[i] = v` -/
def setIdx {β : Type} (l : List β) (i : Int) (v : β) : M (List β) :=
  if 0 ≤ i ∧ i < l.length then pure (l.set i.toNat v) else throw .index

/-- `make([]T, n)` -/
def make {β : Type} (n : Int) (z : β) : M (List β) :=
  if 0 ≤ n then pure (List.replicate n.toNat z) else throw (.panic "makeslice: len out of range")

/-- `p.f`, `p.m()` through a pointer -/
def deref {β : Type} (p : Option β) : M β :=
  match p with
  | some v => pure v
  | none => throw .nilDeref

/-- `x.(*T)` -/
def assert {β : Type} (x : Option β) : M (Option β) :=
  match x with
  | some v => pure (some v)
  | none => throw .nilAssert

/-- the entry of key `k` (keys are unique: `mapSet` overwrites) -/
def lookup {β : Type} (k : Nat) : Map Nat β → Option β
  | [] => none
  | (k', v) :: r => if k = k' then some v else lookup k r

/-- `v, ok := m[k]` -/
def mapGet? {β : Type} (m : Map Nat β) (k : Nat) : Option β := lookup k m

/-- `_, ok := m[k]` -/
def mapHas {β : Type} (m : Map Nat β) (k : Nat) : Bool := (mapGet? m k).isSome

/-- `m[k]` (zero value `z` when absent) -/
def mapGetD {β : Type} (m : Map Nat β) (k : Nat) (z : β) : β := (mapGet? m k).getD z

/-- `v, ok := m[k]` as a pair -/
def mapGetOk {β : Type} (m : Map Nat β) (k : Nat) (z : β) : β × Bool :=
  match mapGet? m k with
  | some v => (v, true)
  | none => (z, false)

/-- `m[k] = v`: overwrite the entry of `k`, or add one at the end -/
def mapSet {β : Type} : Map Nat β → Nat → β → Map Nat β
  | [], k, v => [(k, v)]
  | (k', v') :: r, k, v => if k = k' then (k, v) :: r else (k', v') :: mapSet r k v

/-- `m[k1][k2] = v`: the inner map must exist (a nil map cannot be assigned to) -/
def mapSet2 {β : Type} (m : Map Nat (Map Nat β)) (k1 k2 : Nat) (v : β) : M (Map Nat (Map Nat β)) :=
  match mapGet? m k1 with
  | none => throw .nilMap
  | some inner => pure (mapSet m k1 (mapSet inner k2 v))

/-- `rtree.Insert` -/
def treeInsert {β : Type} (t : List β) (x : β) : List β := t ++ [x]

/-- `rtree.Size` -/
def treeSize {β : Type} (t : List β) : Int := t.length

def forUpToAux {σ : Type} (body : σ → Int → M σ) : Nat → Int → σ → M σ
  | 0, _, s => pure s
  | n + 1, i, s => do
    let s ← body s i
    forUpToAux body n (i + 1) s

/-- `for i := 0; i < n; i++ { body }` where the body assigns neither `i` nor anything `n` depends on -/
def forUpTo {σ : Type} (n : Int) (init : σ) (body : σ → Int → M σ) : M σ :=
  forUpToAux body n.toNat 0 init

def forMapAux {β σ : Type} (body : σ → Nat → β → M σ) : List (Nat × β) → σ → M σ
  | [], s => pure s
  | (k, v) :: r, s => do
    let s ← body s k v
    forMapAux body r s

/-- `for k, v := range m { body }` -/
def forMap {β σ : Type} (mo : MapOrder) (m : Map Nat β) (init : σ) (body : σ → Nat → β → M σ) : M σ :=
  forMapAux body (mo.perm m) init

section gonum
variable {α : Type} [Zero α] [Add α] [LT α] [DecidableLT α]

/-- `path.AStar(s, t, net, net.costHeuristic)`: the transliterated gonum loop (`astar` of Model.lean, queue `Q`)
on the adapter made of the REGENERATED methods.  A callback that faults is read as "no neighbours" / "no
weight" / 0 here; the tie lemmas prove that the regenerated callbacks never fault on a network built by
`AddLink` (`tie_From`, `tie_Weight`, `tie_costHeuristic`). -/
def aStar (Q : Queue α) (frm : Nat → M (Option (List (Option (MNode α)))))
    (weight : Nat → Nat → M (α × Bool)) (h : Option (MNode α) → Option (MNode α) → M α)
    (node : Nat → Option (MNode α)) (fuel : Nat) (s t : Option (MNode α)) : M (AState α × Nat) := do
  let s ← deref s
  let t ← deref t
  let A : Adapter α :=
    { frm := fun u => match frm u with
        | .ok (some l) => l.filterMap fun n => n.map (·.id)
        | _ => []
      weight := fun x y => match weight x y with
        | .ok (w, true) => some w
        | _ => none
      h := fun x y => match h (node x) (node y) with
        | .ok v => v
        | .error _ => 0 }
  match astar A Q fuel s.id t.id with
  | .ok st => pure (st, s.id)
  | .error f => throw (.gonum f)

/-- `shortest.To(id)`; the ids of the path's nodes -/
def shortestTo (sh : AState α × Nat) (t : Nat) (fuel : Nat) : M (List Nat) :=
  match GeomV.C19.shortestTo sh.1 sh.2 t fuel with
  | .ok l => pure l
  | .error f => throw (.gonum f)

end gonum
end GeomV.C19.Go
