import GeomV.C19.TiesQ
import GeomV.C19.Proofs
/-!
# C19 — T1 tie lemma for the regenerated body of `ShortestRoute`

(continuation of Ties.lean / TiesQ.lean; same refinement relation `Rep g net`.)

* `genAdapter` : what `Go.aStar` hands to the transliterated gonum loop — the adapter made of the REGENERATED `From`,
  `Weight`, `costHeuristic` (a faulting callback reads as "no neighbours" / "no weight" / 0).
* `candOf` / `ordOf` : the ids that the regenerated `From(u)` lists, in the order the Go map was visited, as an order
  parameter of the model (`ordOf_mem`: it satisfies the only hypothesis the property theorems make about `ord`).
* `cand_mem` : under `Rep`, a visiting order that is a permutation, and link ends that are stored nodes, `From(u)` lists
  exactly the members of the model's `neighborIds net u`.
* `tie_adapter` : `genAdapter C g = adapter C.geo net true (ordOf C g)` — the regenerated callbacks never fault on related
  states and ARE the model's adapter (so `implementsWeighted = true` is what the regenerated `Weight` gives).
* `tie_totals` : the `for i := 0; i < len(nodes)-1; i++` loop (left-to-right sums, `append`) = the model's `collect`
  (right-to-left sums); the "missing edge" panic exactly when `collect` faults.
* **`tie_ShortestRoute`** : the regenerated `ShortestRoute` = the model's `shortestRoute` (nearest nodes, A*, `To`, totals,
  start/end distance), fault for fault; `tie_ShortestRoute_ok` (the returned route = the geometries passed to `AddLink` for the
  model's links: `ERel` records `LineString = geoOf link`), `tie_ShortestRoute_fault`, `C19_regenerated` (composition with
  `tie_build` and `C19_built_gonum`).
-/
set_option linter.unusedVariables false
set_option linter.unusedSimpArgs false
set_option linter.unusedSectionVars false
namespace GeomV.C19.Ties
open GeomV GeomV.C19 GeomV.C19.Go GeomV.C19.Gen

variable {α : Type} [Field α] [LinearOrder α] [IsStrictOrderedRing α]
variable {geoOf : Nat → List (Pt α)}

/-- the adapter `Go.aStar` builds from the regenerated callbacks -/
def genAdapter (C : Ctx α) (g : Network α) : Adapter α :=
  { frm := fun u => match network_From C g u with
      | .ok (some l) => l.filterMap fun n => n.map (·.id)
      | _ => []
    weight := fun x y => match network_Weight C g x y with
      | .ok (w, true) => some w
      | _ => none
    h := fun x y => match network_costHeuristic C g (Go.mapGetD g.nodeMap x none) (Go.mapGetD g.nodeMap y none) with
      | .ok v => v
      | .error _ => 0 }

/-- the ids the regenerated `From(u)` lists, in the order the map `neighbors[u]` was visited -/
def candOf (C : Ctx α) (g : Network α) (u : Nat) : List Nat :=
  (C.mo.perm (mapGetD g.neighbors u [])).filterMap fun kv => (mapGetD g.nodeMap kv.1 none).map (·.id)

/-- the map order of the Go state as the model's order parameter: `From(u)`'s own list whenever it has the members of
the list it is asked to order -/
def ordOf (C : Ctx α) (g : Network α) : Nat → List Nat → List Nat := fun u l =>
  if (∀ x ∈ candOf C g u, x ∈ l) ∧ (∀ x ∈ l, x ∈ candOf C g u) then candOf C g u else l

/-- `ordOf` satisfies the hypothesis `hord` of `C19_route` / `C19_built` / `C19_unreachable` -/
theorem ordOf_mem (C : Ctx α) (g : Network α) : ∀ u l x, x ∈ ordOf C g u l ↔ x ∈ l := by
  intro u l x
  unfold ordOf
  split
  · rename_i h; exact ⟨h.1 x, h.2 x⟩
  · rfl

theorem nodeMap_get {g : Network α} {net : Net α} (hR : Rep geoOf g net) (id : Nat) :
    mapGetD g.nodeMap id none = net.nodes.find? (fun n => n.id == id) := by
  unfold mapGetD mapGet?
  rw [hR.nodeMap, lookup_nodeMap]
  cases net.nodes.find? (fun n => n.id == id) <;> rfl

theorem lookup_isSome_of_mem {β : Type} (m : Map Nat β) (kv : Nat × β) (h : kv ∈ m) : (lookup kv.1 m).isSome = true := by
  induction m with
  | nil => cases h
  | cons a r ih =>
    obtain ⟨ka, va⟩ := a
    simp only [lookup]
    by_cases hk : kv.1 = ka
    · simp [hk]
    · simp only [if_neg hk]
      rcases List.mem_cons.1 h with rfl | h'
      · exact absurd rfl hk
      · exact ih h'

theorem mem_of_lookup {β : Type} (m : Map Nat β) (k : Nat) (v : β) (h : lookup k m = some v) : (k, v) ∈ m := by
  induction m with
  | nil => cases h
  | cons a r ih =>
    obtain ⟨ka, va⟩ := a
    simp only [lookup] at h
    by_cases hk : k = ka
    · simp only [if_pos hk, Option.some.injEq] at h
      subst hk; subst h; exact List.mem_cons_self
    · simp only [if_neg hk] at h
      exact List.mem_cons_of_mem _ (ih h)

theorem find_id {net : Net α} {k : Nat} {n : MNode α} (h : net.nodes.find? (fun n => n.id == k) = some n) : n.id = k := by
  have := List.find?_some h
  simpa using this

/-- **`From(u)` lists the model's neighbours**: under `Rep`, a visiting order that is a permutation of the entries, and
link ends that are stored nodes (`WF.ends`, proved for every AddLink history by `build_wf`) -/
theorem cand_mem (C : Ctx α) (g : Network α) (net : Net α) (hR : Rep geoOf g net) (u : Nat)
    (hperm : (C.mo.perm (mapGetD g.neighbors u [])).Perm (mapGetD g.neighbors u []))
    (hends : ∀ e ∈ net.edges, hasNode net e.a = true ∧ hasNode net e.b = true) (x : Nat) :
    x ∈ candOf C g u ↔ x ∈ neighborIds net u := by
  unfold candOf
  rw [List.mem_filterMap, mem_neighborIds]
  constructor
  · rintro ⟨kv, hkv, hx⟩
    rw [hperm.mem_iff] at hkv
    rw [nodeMap_get hR] at hx
    cases hf : net.nodes.find? (fun n => n.id == kv.1) with
    | none => rw [hf] at hx; cases hx
    | some n =>
      rw [hf] at hx
      simp only [Option.map_some, Option.some.injEq] at hx
      have hid := find_id hf
      have hx' : kv.1 = x := by rw [← hid]; exact hx
      have hl := lookup_isSome_of_mem _ kv hkv
      rw [hx'] at hl
      have hnb := hR.nb u x
      unfold NbRel at hnb
      cases hm : neighbor net u x with
      | none =>
        rw [hm] at hnb
        cases hl2 : lookup x (mapGetD g.neighbors u []) with
        | none => rw [hl2] at hl; cases hl
        | some v => rw [hl2] at hnb; cases v <;> simp at hnb
      | some me =>
        obtain ⟨hme, hj⟩ := neighbor_some net u x me hm
        refine ⟨me, hme, ?_⟩
        rcases hj with ⟨a, b⟩ | ⟨a, b⟩
        · exact Or.inl ⟨a, b⟩
        · exact Or.inr ⟨b, a⟩
  · rintro ⟨e, he, hj⟩
    have hj' : Joins e u x := by
      rcases hj with ⟨a, b⟩ | ⟨a, b⟩
      · exact Or.inl ⟨a, b⟩
      · exact Or.inr ⟨b, a⟩
    obtain ⟨e', he'⟩ := neighbor_of_joins net u x e he hj'
    have hnb := hR.nb u x
    unfold NbRel at hnb
    rw [he'] at hnb
    have hx : hasNode net x = true := by
      rcases hj with ⟨_, b⟩ | ⟨_, b⟩
      · rw [← b]; exact (hends e he).2
      · rw [← b]; exact (hends e he).1
    cases hl : lookup x (mapGetD g.neighbors u []) with
    | none => rw [hl] at hnb; simp at hnb
    | some v =>
      refine ⟨(x, v), ?_, ?_⟩
      · rw [hperm.mem_iff]; exact mem_of_lookup _ _ _ hl
      · rw [nodeMap_get hR]
        rw [hasNode_iff] at hx
        obtain ⟨m, hm, hmid⟩ := hx
        cases hf : net.nodes.find? (fun n => n.id == x) with
        | none =>
          have := List.find?_eq_none.1 hf m hm
          simp [hmid] at this
        | some n => simp [find_id hf]

/-! ### `From` lists every neighbour exactly once -/

theorem insertSorted_sorted (x : Nat) : ∀ l : List Nat, l.Pairwise (· < ·) → (insertSorted x l).Pairwise (· < ·) := by
  intro l
  induction l with
  | nil => intro _; simp [insertSorted]
  | cons y ys ih =>
    intro h
    have hy := List.pairwise_cons.1 h
    simp only [insertSorted]
    by_cases h1 : x < y
    · simp only [if_pos h1]
      refine List.pairwise_cons.2 ⟨?_, h⟩
      intro z hz
      rcases List.mem_cons.1 hz with rfl | hz
      · exact h1
      · exact Nat.lt_trans h1 (hy.1 z hz)
    · simp only [if_neg h1]
      by_cases h2 : x = y
      · simp only [if_pos h2]; exact h
      · simp only [if_neg h2]
        refine List.pairwise_cons.2 ⟨?_, ih hy.2⟩
        intro z hz
        rcases (mem_insertSorted z x ys).1 hz with rfl | hz
        · omega
        · exact hy.1 z hz

/-- the model's `neighborIds` lists no id twice -/
theorem neighborIds_nodup (net : Net α) (u : Nat) : (neighborIds net u).Nodup := by
  unfold neighborIds
  have key : ∀ (es : List (MEdge α)) (acc : List Nat), acc.Pairwise (· < ·) →
      (es.foldl (fun acc e => if e.a = u then insertSorted e.b acc else if e.b = u then insertSorted e.a acc else acc) acc).Pairwise (· < ·) := by
    intro es
    induction es with
    | nil => intro acc h; exact h
    | cons e es ih =>
      intro acc h
      simp only [List.foldl_cons]
      apply ih
      split
      · exact insertSorted_sorted _ _ h
      · split
        · exact insertSorted_sorted _ _ h
        · exact h
  exact (key net.edges [] List.Pairwise.nil).imp (fun h => Nat.ne_of_lt h)

/-- under `Rep` every key of `neighbors[u]` is the id of a stored node, so `From(u)` lists exactly the keys, in the order visited -/
theorem cand_eq_keys (C : Ctx α) (g : Network α) (net : Net α) (hR : Rep geoOf g net) (u : Nat)
    (hperm : (C.mo.perm (mapGetD g.neighbors u [])).Perm (mapGetD g.neighbors u []))
    (hends : ∀ e ∈ net.edges, hasNode net e.a = true ∧ hasNode net e.b = true) :
    candOf C g u = (C.mo.perm (mapGetD g.neighbors u [])).map Prod.fst := by
  unfold candOf
  rw [← List.filterMap_eq_map]
  apply List.filterMap_congr
  intro kv hkv
  rw [hperm.mem_iff] at hkv
  have hl := lookup_isSome_of_mem _ kv hkv
  have hnb := hR.nb u kv.1
  unfold NbRel at hnb
  have hx : hasNode net kv.1 = true := by
    cases hm : neighbor net u kv.1 with
    | none =>
      rw [hm] at hnb
      cases hl2 : lookup kv.1 (mapGetD g.neighbors u []) with
      | none => rw [hl2] at hl; cases hl
      | some v => rw [hl2] at hnb; cases v <;> simp at hnb
    | some me =>
      obtain ⟨hme, hj⟩ := neighbor_some net u kv.1 me hm
      rcases hj with ⟨_, b⟩ | ⟨a, _⟩
      · rw [← b]; exact (hends me hme).2
      · rw [← a]; exact (hends me hme).1
  rw [nodeMap_get hR]
  rw [hasNode_iff] at hx
  obtain ⟨m, hm, hmid⟩ := hx
  cases hf : net.nodes.find? (fun n => n.id == kv.1) with
  | none =>
    have := List.find?_eq_none.1 hf m hm
    simp [hmid] at this
  | some n => simp [find_id hf]

/-- **`From(u)` is a permutation of the model's `neighborIds net u`**: every neighbour exactly once (the keys of a Go map are
distinct: `Rep.nbNodup`, maintained by every `AddLink`), whatever order the map is visited in -/
theorem tie_From_perm (C : Ctx α) (g : Network α) (net : Net α) (hR : Rep geoOf g net) (u : Nat)
    (hperm : (C.mo.perm (mapGetD g.neighbors u [])).Perm (mapGetD g.neighbors u []))
    (hends : ∀ e ∈ net.edges, hasNode net e.a = true ∧ hasNode net e.b = true) :
    (candOf C g u).Perm (neighborIds net u) := by
  have hnd : (candOf C g u).Nodup := by
    rw [cand_eq_keys C g net hR u hperm hends]
    exact ((hperm.map Prod.fst).nodup_iff).2 (hR.nbNodup u)
  exact (List.perm_ext_iff_of_nodup hnd (neighborIds_nodup net u)).2 (fun x => cand_mem C g net hR u hperm hends x)

theorem ordOf_cand (C : Ctx α) (g : Network α) (net : Net α) (hR : Rep geoOf g net) (u : Nat)
    (hperm : (C.mo.perm (mapGetD g.neighbors u [])).Perm (mapGetD g.neighbors u []))
    (hends : ∀ e ∈ net.edges, hasNode net e.a = true ∧ hasNode net e.b = true) :
    ordOf C g u (neighborIds net u) = candOf C g u := by
  unfold ordOf
  rw [if_pos]
  exact ⟨fun x hx => (cand_mem C g net hR u hperm hends x).1 hx, fun x hx => (cand_mem C g net hR u hperm hends x).2 hx⟩

/-- **the regenerated callbacks are the model's adapter** (with `implementsWeighted = true` and the Go state's own map order) -/
theorem tie_adapter (C : Ctx α) (g : Network α) (net : Net α) (hR : Rep geoOf g net)
    (hperm : ∀ u, (C.mo.perm (mapGetD g.neighbors u [])).Perm (mapGetD g.neighbors u []))
    (hends : ∀ e ∈ net.edges, hasNode net e.a = true ∧ hasNode net e.b = true) :
    genAdapter C g = adapter C.geo net true (ordOf C g) := by
  unfold genAdapter adapter
  congr 1
  · funext u
    rw [tie_From C g net hR u (hperm u).length_eq]
    unfold fromOf
    cases hu : hasNode net u with
    | false => rfl
    | true =>
      simp only [if_true]
      rw [ordOf_cand C g net hR u (hperm u) hends, List.filterMap_map]
      rfl
  · funext x y
    rw [tie_Weight C g net hR x y]
    simp only [if_true]
    cases weightOf net x y <;> rfl
  · funext x y
    rw [nodeMap_get hR, nodeMap_get hR]
    unfold heuristic nodePos
    cases hx : net.nodes.find? (fun n => n.id == x) with
    | none => simp [network_costHeuristic, Go.assert, Go.deref, bind, Except.bind, throw, throwThe, MonadExceptOf.throw]
    | some n1 =>
      cases hy : net.nodes.find? (fun n => n.id == y) with
      | none => simp [network_costHeuristic, Go.assert, Go.deref, bind, Except.bind, pure, Except.pure, throw, throwThe, MonadExceptOf.throw]
      | some n2 =>
        rw [tie_costHeuristic C g net hR n1 n2]
        simp only [Option.map_some]
        cases net.opt <;> rfl

/-! ### the path → links loop -/

/-- the geometries the loop appends: `neighbors[nodes[i]][nodes[i+1]].LineString` for consecutive nodes -/
def routeG (g : Network α) : List Nat → List (List (Pt α))
  | [] => []
  | [_] => []
  | u :: v :: rest =>
    (match lookup v (mapGetD g.neighbors u []) with
      | some (some e) => [e.LineString]
      | _ => []) ++ routeG g (v :: rest)

theorem idx_append {β : Type} (pre : List β) (x : β) (sfx : List β) :
    Go.idx (pre ++ x :: sfx) (pre.length : Int) = .ok x := by
  unfold Go.idx
  rw [if_pos (Int.natCast_nonneg _)]
  simp [pure, Except.pure]

/-- **the totals loop**: `for i := 0; i < len(nodes)-1; i++ { e, ok := neighbors[nodes[i]][nodes[i+1]]; if !ok { panic };
route = append(route, e.LineString); distance += e.length; time += e.time }` started at index `|pre|` with accumulators
`(r, d, t)` adds exactly what the model's `collect` computes on the rest of the path (Go sums left to right, `collect`
right to left), and panics exactly when `collect` faults -/
theorem tie_totals (g : Network α) (net : Net α) (hR : Rep geoOf g net)
    (body : List (List (Pt α)) × α × α → Int → M (List (List (Pt α)) × α × α)) (nodes : List Nat)
    (hbody : ∀ r d t i, body (r, d, t) i = (do
      let u ← Go.idx nodes i
      let v ← Go.idx nodes (i + (1 : Int))
      match lookup v (mapGetD g.neighbors u []) with
      | none => throw (.panic "route: missing edge; this shouldn't happen")
      | some e => do
        let e' ← Go.deref e
        pure (r ++ [e'.LineString], d + e'.length, t + e'.time))) :
    ∀ (sfx pre : List Nat), nodes = pre ++ sfx → ∀ r d t,
      forUpToAux body (sfx.length - 1) (pre.length : Int) (r, d, t) =
        match collect net sfx with
        | .error _ => .error (.panic "route: missing edge; this shouldn't happen")
        | .ok (ls, d', t') => .ok (r ++ routeG g sfx, d + d', t + t') := by
  intro sfx
  induction sfx with
  | nil => intro pre _ r d t; simp [forUpToAux, collect, routeG, pure, Except.pure]
  | cons u rest ih =>
    intro pre hn r d t
    cases rest with
    | nil => simp [forUpToAux, collect, routeG, pure, Except.pure]
    | cons v rest =>
      have hlen : (u :: v :: rest).length - 1 = (v :: rest).length - 1 + 1 := by simp
      rw [hlen]
      simp only [forUpToAux, hbody]
      have h1 : Go.idx nodes (pre.length : Int) = .ok u := by rw [hn]; exact idx_append pre u _
      have h2 : Go.idx nodes ((pre.length : Int) + 1) = .ok v := by
        have := idx_append (pre ++ [u]) v rest
        simp only [List.length_append, List.length_cons, List.length_nil, Nat.zero_add, Nat.cast_add, Nat.cast_one,
          List.append_assoc, List.singleton_append] at this
        rw [hn]; exact this
      simp only [h1, h2, bind, Except.bind]
      have hnb := hR.nb u v
      unfold NbRel at hnb
      cases hm : neighbor net u v with
      | none =>
        rw [hm] at hnb
        cases hl : lookup v (mapGetD g.neighbors u []) with
        | none => simp [collect, hm, throw, throwThe, MonadExceptOf.throw]
        | some x => rw [hl] at hnb; cases x <;> simp at hnb
      | some me =>
        rw [hm] at hnb
        cases hl : lookup v (mapGetD g.neighbors u []) with
        | none => rw [hl] at hnb; simp at hnb
        | some x =>
          cases x with
          | none => rw [hl] at hnb; simp at hnb
          | some ge =>
            rw [hl] at hnb
            simp only at hnb
            obtain ⟨hlen', _, htime, _, _, hgeo⟩ := hnb
            simp only [Go.deref, pure, Except.pure]
            have := ih (pre ++ [u]) (by rw [hn]; simp) (r ++ [ge.LineString]) (d + ge.length) (t + ge.time)
            simp only [List.length_append, List.length_singleton, Nat.cast_add, Nat.cast_one] at this
            rw [this]
            simp only [collect, hm]
            cases hc : collect net (v :: rest) with
            | error e => rfl
            | ok res =>
              obtain ⟨ls, d', t'⟩ := res
              simp only [routeG, hl, List.append_assoc, hlen', htime, add_assoc]

/-! ### `ShortestRoute` -/

theorem len_nodeMap {g : Network α} {net : Net α} (hR : Rep geoOf g net) : (Go.len g.nodeMap).toNat = net.nodes.length := by
  simp [Go.len, hR.nodeMap]

/-- the loop of `ShortestRoute` from index 0 with empty accumulators -/
theorem tie_totals0 (g : Network α) (net : Net α) (hR : Rep geoOf g net)
    (body : List (List (Pt α)) × α × α → Int → M (List (List (Pt α)) × α × α)) (nodes : List Nat)
    (hbody : ∀ r d t i, body (r, d, t) i = (do
      let u ← Go.idx nodes i
      let v ← Go.idx nodes (i + (1 : Int))
      match lookup v (mapGetD g.neighbors u []) with
      | none => throw (.panic "route: missing edge; this shouldn't happen")
      | some e => do
        let e' ← Go.deref e
        pure (r ++ [e'.LineString], d + e'.length, t + e'.time))) :
    Go.forUpTo (Go.len nodes - (1 : Int)) (([] : List (List (Pt α))), (0 : α), (0 : α)) body =
      match collect net nodes with
      | .error _ => .error (.panic "route: missing edge; this shouldn't happen")
      | .ok (ls, d', t') => .ok (routeG g nodes, d', t') := by
  have h := tie_totals g net hR body nodes hbody nodes [] rfl [] 0 0
  have hl : (Go.len nodes - (1 : Int)).toNat = nodes.length - 1 := by simp [Go.len]
  unfold Go.forUpTo
  rw [hl]
  simp only [List.length_nil, Nat.cast_zero, List.nil_append, zero_add] at h
  exact h

/-- `path.AStar` on the regenerated callbacks = the transliterated loop on the model's adapter -/
theorem tie_aStar (C : Ctx α) (g : Network α) (net : Net α) (hR : Rep geoOf g net)
    (hperm : ∀ u, (C.mo.perm (mapGetD g.neighbors u [])).Perm (mapGetD g.neighbors u []))
    (hends : ∀ e ∈ net.edges, hasNode net e.a = true ∧ hasNode net e.b = true) (fuel : Nat) (s t : MNode α) :
    Go.aStar C.Q (fun u => network_From C g u) (fun x y => network_Weight C g x y) (fun x y => network_costHeuristic C g x y)
        (fun i => Go.mapGetD g.nodeMap i none) fuel (some s) (some t) =
      match astar (adapter C.geo net true (ordOf C g)) C.Q fuel s.id t.id with
      | .ok st => .ok (st, s.id)
      | .error f => .error (.gonum f) := by
  have hA := tie_adapter C g net hR hperm hends
  unfold Go.aStar
  simp only [Go.deref, bind, Except.bind, pure, Except.pure]
  show (match astar (genAdapter C g) C.Q fuel s.id t.id with
      | .ok st => (Except.ok (st, s.id) : M _)
      | .error f => .error (.gonum f)) = _
  rw [hA]

/-- **`ShortestRoute` as regenerated is the model's `shortestRoute`**, fault for fault: on related states (`Rep`), for a
Go map order that permutes the entries, and link ends that are stored nodes, the regenerated body (two nearest-node
searches with their nil type assertions, start/end distance, `path.AStar` on the regenerated `From`/`Weight`/
`costHeuristic`, `shortest.To`, the path → links loop with left-to-right totals) returns the model's distance, time,
start and end distance, the link geometries of the model's node path, and faults exactly where the model does. -/
theorem tie_ShortestRoute (C : Ctx α) (g : Network α) (net : Net α) (hR : Rep geoOf g net)
    (hperm : ∀ u, (C.mo.perm (mapGetD g.neighbors u [])).Perm (mapGetD g.neighbors u []))
    (hends : ∀ e ∈ net.edges, hasNode net e.a = true ∧ hasNode net e.b = true) (from_ to_ : Pt α) :
    network_ShortestRoute C g from_ to_ =
      match C.geo.nearest net.nodes from_, C.geo.nearest net.nodes to_ with
      | some s, some t =>
        match astar (adapter C.geo net true (ordOf C g)) C.Q (net.nodes.length + 2) s.id t.id with
        | .error f => .error (.gonum f)
        | .ok st =>
          match GeomV.C19.shortestTo st s.id t.id (net.nodes.length + 3) with
          | .error f => .error (.gonum f)
          | .ok nodes =>
            match collect net nodes with
            | .error _ => .error (.panic "route: missing edge; this shouldn't happen")
            | .ok (_, d, tm) => .ok (routeG g nodes, d, tm, C.geo.euclid from_ s.p, C.geo.euclid to_ t.p)
      | _, _ => .error .nilAssert := by
  unfold network_ShortestRoute
  rw [hR.nodes]
  cases hs : C.geo.nearest net.nodes from_ with
  | none => simp [Go.assert, bind, Except.bind, throw, throwThe, MonadExceptOf.throw]
  | some s =>
    cases ht : C.geo.nearest net.nodes to_ with
    | none => simp [Go.assert, Go.deref, bind, Except.bind, pure, Except.pure, throw, throwThe, MonadExceptOf.throw]
    | some t =>
      simp only [Go.assert, Go.deref, Go.shortestTo, bind, Except.bind, pure, Except.pure, len_nodeMap hR]
      rw [tie_aStar C g net hR hperm hends]
      cases hst : astar (adapter C.geo net true (ordOf C g)) C.Q (net.nodes.length + 2) s.id t.id with
      | error f => rfl
      | ok st =>
        simp only []
        cases hto : GeomV.C19.shortestTo st s.id t.id (net.nodes.length + 3) with
        | error f => rfl
        | ok nodes =>
          simp only []
          rw [tie_totals0 g net hR _ nodes ?hb]
          case hb =>
            intro r d t' i
            simp only [bind, Except.bind]
            cases Go.idx nodes i with
            | error e => rfl
            | ok u =>
              cases Go.idx nodes (i + 1) with
              | error e => rfl
              | ok v =>
                simp only [mapGetOk, mapGet?]
                rcases Option.eq_none_or_eq_some (lookup v (mapGetD g.neighbors u [])) with hl | ⟨e, hl⟩
                · simp only [hl]; rfl
                · simp only [hl]; cases e <;> rfl
          cases collect net nodes with
          | error e => rfl
          | ok res => obtain ⟨ls, d, tm⟩ := res; rfl

/-- the geometries the loop appends are the geometries passed to the `AddLink` calls of the links `collect` lists -/
theorem routeG_eq (g : Network α) (net : Net α) (hR : Rep geoOf g net) :
    ∀ (nodes : List Nat) (ls : List Nat) (d t : α), collect net nodes = .ok (ls, d, t) → routeG g nodes = ls.map geoOf := by
  intro nodes
  induction nodes with
  | nil => intro ls d t h; simp only [collect, Except.ok.injEq, Prod.mk.injEq] at h; simp [routeG, ← h.1]
  | cons u rest ih =>
    cases rest with
    | nil => intro ls d t h; simp only [collect, Except.ok.injEq, Prod.mk.injEq] at h; simp [routeG, ← h.1]
    | cons v rest =>
      intro ls d t h
      simp only [collect] at h
      have hnb := hR.nb u v
      unfold NbRel at hnb
      cases hm : neighbor net u v with
      | none => rw [hm] at h; cases h
      | some me =>
        rw [hm] at h hnb
        cases hc : collect net (v :: rest) with
        | error e => rw [hc] at h; cases h
        | ok res =>
          obtain ⟨ls', d', t'⟩ := res
          rw [hc] at h
          simp only [Except.ok.injEq, Prod.mk.injEq] at h
          have := ih ls' d' t' hc
          cases hl : lookup v (mapGetD g.neighbors u []) with
          | none => rw [hl] at hnb; simp at hnb
          | some x =>
            cases x with
            | none => rw [hl] at hnb; simp at hnb
            | some ge =>
              rw [hl] at hnb
              simp only at hnb
              simp [routeG, hl, this, ← h.1, hnb.2.2.2.2.2]

/-- when the model answers, the regenerated `ShortestRoute` returns the model's totals and distances, and as route the
geometries that were passed to the `AddLink` calls of the model's links, in order -/
theorem tie_ShortestRoute_ok (C : Ctx α) (g : Network α) (net : Net α) (hR : Rep geoOf g net)
    (hperm : ∀ u, (C.mo.perm (mapGetD g.neighbors u [])).Perm (mapGetD g.neighbors u []))
    (hends : ∀ e ∈ net.edges, hasNode net e.a = true ∧ hasNode net e.b = true) (from_ to_ : Pt α) (r : Route α)
    (h : shortestRoute C.geo C.Q true (ordOf C g) net from_ to_ = .ok r) :
    network_ShortestRoute C g from_ to_ =
      .ok (r.links.map geoOf, r.distance, r.time, r.startDistance, r.endDistance) := by
  rw [tie_ShortestRoute C g net hR hperm hends]
  unfold shortestRoute at h
  cases hs : C.geo.nearest net.nodes from_ with
  | none => rw [hs] at h; cases h
  | some s =>
    cases ht : C.geo.nearest net.nodes to_ with
    | none => rw [hs, ht] at h; cases h
    | some t =>
      rw [hs, ht] at h
      simp only at h ⊢
      cases hst : astar (adapter C.geo net true (ordOf C g)) C.Q (net.nodes.length + 2) s.id t.id with
      | error f => rw [hst] at h; cases h
      | ok st =>
        rw [hst] at h
        simp only at h ⊢
        cases hto : GeomV.C19.shortestTo st s.id t.id (net.nodes.length + 3) with
        | error f => rw [hto] at h; cases h
        | ok nodes =>
          rw [hto] at h
          simp only at h ⊢
          cases hc : collect net nodes with
          | error f => rw [hc] at h; cases h
          | ok res =>
            obtain ⟨ls, d, tm⟩ := res
            rw [hc] at h
            simp only [Except.ok.injEq] at h
            subst h
            simp only [routeG_eq g net hR nodes ls d tm hc]

/-- the regenerated `ShortestRoute` faults exactly when the model does -/
theorem tie_ShortestRoute_fault (C : Ctx α) (g : Network α) (net : Net α) (hR : Rep geoOf g net)
    (hperm : ∀ u, (C.mo.perm (mapGetD g.neighbors u [])).Perm (mapGetD g.neighbors u []))
    (hends : ∀ e ∈ net.edges, hasNode net e.a = true ∧ hasNode net e.b = true) (from_ to_ : Pt α) (f : Fault)
    (h : shortestRoute C.geo C.Q true (ordOf C g) net from_ to_ = .error f) :
    ∃ f', network_ShortestRoute C g from_ to_ = .error f' := by
  rw [tie_ShortestRoute C g net hR hperm hends]
  unfold shortestRoute at h
  cases hs : C.geo.nearest net.nodes from_ with
  | none => exact ⟨_, rfl⟩
  | some s =>
    cases ht : C.geo.nearest net.nodes to_ with
    | none => exact ⟨_, rfl⟩
    | some t =>
      rw [hs, ht] at h
      simp only at h ⊢
      cases hst : astar (adapter C.geo net true (ordOf C g)) C.Q (net.nodes.length + 2) s.id t.id with
      | error f => exact ⟨_, rfl⟩
      | ok st =>
        rw [hst] at h
        simp only at h ⊢
        cases hto : GeomV.C19.shortestTo st s.id t.id (net.nodes.length + 3) with
        | error f => exact ⟨_, rfl⟩
        | ok nodes =>
          rw [hto] at h
          simp only at h ⊢
          cases hc : collect net nodes with
          | error f => exact ⟨_, rfl⟩
          | ok res => obtain ⟨ls, d, tm⟩ := res; rw [hc] at h; cases h

/-- the geometry of the `i`-th link of a history -/
def linkGeo (ls : List (Link α)) (i : Nat) : List (Pt α) := (ls[i]?.map (·.pts)).getD []

/-- **The property for the code as regenerated from route.go**: the state built by the regenerated `NewNetwork` and any
sequence of regenerated `AddLink` calls (node ids below 2^63-1), queried by the regenerated `ShortestRoute` run on gonum's
binary heap — for every Go map order that permutes the entries, under the contracts of the geometric primitives, positive
speeds, no parallel links, and connected nearest nodes `s`, `t`: no fault; the returned route consists of the geometries
PASSED TO `AddLink` for a chain `es` of stored links from `s` to `t`, in order; the reported distance and time are the sums
over that chain; the start/end distances are those to `s`/`t`; and the minimised total is minimal over ALL chains of stored
links from `s` to `t`.  (`tie_build` + `tie_ShortestRoute_ok` + `C19_built_gonum`.) -/
theorem C19_regenerated (C : Ctx α) (o : Opt) (ls : List (Link α)) (net : Net α) (from_ to_ : Pt α) (s t : MNode α)
    (hQ : C.Q = heapQ) (hmo : ∀ m : Map Nat (Option (Edge α)), (C.mo.perm m).Perm m)
    (hnil : ∀ p, C.geo.nearest [] p = none) (hmax : 2 * ls.length ≤ Go.maxInt)
    (hb : build C.geo o ls = .ok net) (hsp : ∀ l ∈ ls, 0 < l.speed) (hc : GeoContract C.geo)
    (htri : ∀ p q r, C.geo.euclid p r ≤ C.geo.euclid p q + C.geo.euclid q r) (hnp : NoParallel net)
    (hs : C.geo.nearest net.nodes from_ = some s) (ht : C.geo.nearest net.nodes to_ = some t)
    (hconn : ∃ es0, (∀ e ∈ es0, e ∈ net.edges) ∧ EChain s.id es0 t.id) :
    ∃ g0 g es, network_NewNetwork C (optNum o) = .ok g0 ∧ genBuild C g0 ls = .ok g ∧
      network_ShortestRoute C g from_ to_ =
        .ok (es.map (fun e => linkGeo ls e.link), esum (·.length) es, esum (·.time) es,
             C.geo.euclid from_ s.p, C.geo.euclid to_ t.p) ∧
      (∀ e ∈ es, e ∈ net.edges) ∧ EChain s.id es t.id ∧
      ∀ es', (∀ e ∈ es', e ∈ net.edges) → EChain s.id es' t.id →
        esum (ecost net.opt) es ≤ esum (ecost net.opt) es' := by
  obtain ⟨g0, g, e0, eb, hR⟩ := tie_build (geoOf := linkGeo ls) C hnil o ls hmax
    (fun j hj => by simp [linkGeo, hj]) net hb
  obtain ⟨hwf, _⟩ := build_wf C.geo hc o ls net hsp hb
  obtain ⟨r, es, hr, _, _, hsd, hed, hl, hmem, hch, hd, htm, hmin⟩ :=
    C19_built_gonum C.geo (ordOf C g) o ls net from_ to_ s t hb hsp hc htri (ordOf_mem C g) hnp hs ht hconn
  rw [← hQ] at hr
  have hroute := tie_ShortestRoute_ok C g net hR (fun u => hmo _) hwf.ends from_ to_ r hr
  refine ⟨g0, g, es, e0, eb, ?_, hmem, hch, hmin⟩
  rw [hroute, hd, htm, hsd, hed, hl, List.map_map]
  rfl

/-- **Unconnected nodes, for the code as regenerated**: same setting as `C19_regenerated`, but NO chain of stored links
joins the two nearest nodes — the regenerated `ShortestRoute` returns without fault the empty route with zero distance
and time (and the start/end distances to `s`/`t`).  (`tie_build` + `tie_ShortestRoute_ok` + `build_wf` +
`heuristic_consistent` + `C19_unreachable` at gonum's heap.) -/
theorem C19_regenerated_unreachable (C : Ctx α) (o : Opt) (ls : List (Link α)) (net : Net α) (from_ to_ : Pt α) (s t : MNode α)
    (hQ : C.Q = heapQ) (hmo : ∀ m : Map Nat (Option (Edge α)), (C.mo.perm m).Perm m)
    (hnil : ∀ p, C.geo.nearest [] p = none) (hmax : 2 * ls.length ≤ Go.maxInt)
    (hb : build C.geo o ls = .ok net) (hsp : ∀ l ∈ ls, 0 < l.speed) (hc : GeoContract C.geo)
    (htri : ∀ p q r, C.geo.euclid p r ≤ C.geo.euclid p q + C.geo.euclid q r)
    (hs : C.geo.nearest net.nodes from_ = some s) (ht : C.geo.nearest net.nodes to_ = some t)
    (hdis : ¬ ∃ es0, (∀ e ∈ es0, e ∈ net.edges) ∧ EChain s.id es0 t.id) :
    ∃ g0 g, network_NewNetwork C (optNum o) = .ok g0 ∧ genBuild C g0 ls = .ok g ∧
      network_ShortestRoute C g from_ to_ = .ok ([], 0, 0, C.geo.euclid from_ s.p, C.geo.euclid to_ t.p) := by
  obtain ⟨g0, g, e0, eb, hR⟩ := tie_build (geoOf := linkGeo ls) C hnil o ls hmax
    (fun j hj => by simp [linkGeo, hj]) net hb
  obtain ⟨hwf, hspeed, _, hscale, hchord⟩ := build_wf C.geo hc o ls net hsp hb
  have hch : ∀ e ∈ net.edges, ∀ pa pb, nodePos net e.a = some pa → nodePos net e.b = some pb →
      net.hscale * C.geo.euclid pa pb ≤ e.length ∧ net.hscale * C.geo.euclid pb pa ≤ e.length := by
    intro e he pa pb ha hb'
    have := hchord e he pa pb ha hb'
    exact ⟨this, by rw [hc.euclidSymm pb pa]; exact this⟩
  obtain ⟨r, hr, hl, hd, htm, hsn, hen⟩ :=
    C19_unreachable C.geo heapQ GoodH (ordOf C g) net from_ to_ s t heapQ_spec (ordOf_mem C g) hwf hc.nearestMem hs ht
      (heuristic_consistent C.geo net (ordOf C g) (ordOf_mem C g) hwf ⟨htri, hch, hscale.1, hspeed⟩ t.id) hdis
  have hr' := hr
  rw [← hQ] at hr
  have hroute := tie_ShortestRoute_ok C g net hR (fun u => hmo _) hwf.ends from_ to_ r hr
  refine ⟨g0, g, e0, eb, ?_⟩
  rw [hroute, hl, hd, htm]
  simp only [shortestRoute, hs, ht] at hr'
  revert hr'
  split
  · intro h; cases h
  · split
    · intro h; cases h
    · split
      · intro h; cases h
      · intro h
        simp only [Except.ok.injEq] at h
        subst h
        rfl

/-- non-vacuity of the map-order hypothesis: visiting a map back to front is a permutation of its entries -/
example : ∀ m : Map Nat (Option (Edge ℚ)), ((⟨fun m => m.reverse⟩ : MapOrder).perm m).Perm m := fun m => List.reverse_perm m

end GeomV.C19.Ties
