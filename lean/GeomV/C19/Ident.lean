import GeomV.C19.Build
/-
C19: node identification (`newNode`/`addNode` in `AddLink`).  On end points that form well separated
clusters — `op.PointEquals` is an equivalence on them and every point is nearer to the points of its own
class than to any other (what `separated` of Spec.lean tests on every case) — the outcome of
"nearest existing node, identified when PointEquals" does not depend on the order of the calls:
the nodes of the built network ARE the classes.
-/
set_option linter.unusedVariables false
set_option linter.unusedSimpArgs false
set_option linter.unusedSectionVars false
namespace GeomV.C19

variable {α : Type} [Field α] [LinearOrder α] [IsStrictOrderedRing α]

/-- the R-tree really returns a nearest node (w.r.t. `dist`), and on the point set `S` `PointEquals` is an
equivalence whose classes are well separated -/
structure IdGeo (geo : Geo α) (dist : Pt α → Pt α → α) (S : Pt α → Prop) : Prop where
  nearest_none : ∀ l p, geo.nearest l p = none → l = []
  nearest_min : ∀ l p x, geo.nearest l p = some x → x ∈ l ∧ ∀ y ∈ l, dist p x.p ≤ dist p y.p
  refl : ∀ p, S p → geo.ptEq p p = true
  symm : ∀ p q, S p → S q → geo.ptEq p q = true → geo.ptEq q p = true
  trans : ∀ p q r, S p → S q → S r → geo.ptEq p q = true → geo.ptEq q r = true → geo.ptEq p r = true
  sep : ∀ p q r, S p → S q → S r → geo.ptEq p q = true → geo.ptEq p r = false → dist p q < dist p r

/-- every node sits at a point of `S`, and no two nodes are `PointEquals` -/
structure IdInv (geo : Geo α) (S : Pt α → Prop) (nodes : List (MNode α)) : Prop where
  inS : ∀ n ∈ nodes, S n.p
  distinct : ∀ x ∈ nodes, ∀ y ∈ nodes, geo.ptEq x.p y.p = true → x = y

/-- `newNode` returns THE node of the point's class when there is one, and a fresh node at the point otherwise -/
theorem newNode_class (geo : Geo α) (dist : Pt α → Pt α → α) (S : Pt α → Prop) (hg : IdGeo geo dist S)
    (net : Net α) (hI : IdInv geo S net.nodes) (p : Pt α) (hp : S p) (m : MNode α) (net' : Net α)
    (h : newNode geo net p = (m, net')) :
    ((∃ n ∈ net.nodes, geo.ptEq p n.p = true) → m ∈ net.nodes ∧ geo.ptEq p m.p = true) ∧
    ((¬ ∃ n ∈ net.nodes, geo.ptEq p n.p = true) → m = ⟨net.maxID + 1, p⟩) := by
  unfold newNode at h
  cases hn : geo.nearest net.nodes p with
  | none =>
    have := hg.nearest_none _ _ hn
    simp only [hn, Prod.mk.injEq] at h
    refine ⟨?_, fun _ => h.1.symm⟩
    rintro ⟨n, hn', _⟩
    rw [this] at hn'; cases hn'
  | some x =>
    obtain ⟨hxm, hxmin⟩ := hg.nearest_min _ _ _ hn
    simp only [hn] at h
    split_ifs at h with he
    · simp only [Prod.mk.injEq] at h
      refine ⟨fun _ => ?_, fun hne => absurd ⟨x, hxm, he⟩ hne⟩
      rw [← h.1]; exact ⟨hxm, he⟩
    · simp only [Prod.mk.injEq] at h
      refine ⟨?_, fun _ => h.1.symm⟩
      rintro ⟨n, hnm, hne⟩
      have hf : geo.ptEq p x.p = false := by simpa using he
      have := hg.sep p n.p x.p hp (hI.inS n hnm) (hI.inS x hxm) hne hf
      exact absurd (hxmin n hnm) (not_le.2 this)

theorem mem_nodes2 (l : List (MNode α)) (a b m : MNode α) (h : m ∈ nodes2 l a b) : m ∈ l ∨ m = a ∨ m = b := by
  unfold nodes2 at h
  split_ifs at h <;> (try simp only [List.mem_append, List.mem_singleton] at h) <;> tauto

/-- what one `AddLink` call does to the node table and the link list -/
theorem addLink_shape (geo : Geo α) (net net' : Net α) (i : Nat) (l : Link α) (h : addLink geo net i l = .ok net') :
    ∃ p0 pn a net1 b net2, l.pts.head? = some p0 ∧ l.pts.getLast? = some pn ∧
      newNode geo net p0 = (a, net1) ∧ newNode geo net1 pn = (b, net2) ∧ a.id ≠ b.id ∧
      net'.nodes = nodes2 net1.nodes a b ∧
      net'.edges = net.edges ++ [⟨i, a.id, b.id, geo.length l.pts, l.speed, geo.length l.pts / l.speed⟩] := by
  unfold addLink at h
  cases hh : l.pts.head? with
  | none => simp [hh] at h
  | some p0 =>
    cases hl : l.pts.getLast? with
    | none => simp [hh, hl] at h
    | some pn =>
      simp only [hh, hl] at h
      rcases hn1 : newNode geo net p0 with ⟨a, net1⟩
      rcases hn2 : newNode geo net1 pn with ⟨b, net2⟩
      simp only [hn1, hn2] at h
      by_cases hab : a.id = b.id
      · simp [hab] at h
      · simp only [if_neg hab] at h
        refine ⟨p0, pn, a, net1, b, net2, rfl, rfl, hn1, hn2, hab, ?_, ?_⟩
        · have e2 : net2.nodes = net1.nodes := by
            unfold newNode at hn2
            split at hn2
            · split_ifs at hn2 <;> simp only [Prod.mk.injEq] at hn2 <;> rw [← hn2.2]
            · simp only [Prod.mk.injEq] at hn2; rw [← hn2.2]
          have e1e : net2.edges = net.edges := by
            have x1 : net1.edges = net.edges := by
              unfold newNode at hn1
              split at hn1
              · split_ifs at hn1 <;> simp only [Prod.mk.injEq] at hn1 <;> rw [← hn1.2]
              · simp only [Prod.mk.injEq] at hn1; rw [← hn1.2]
            have x2 : net2.edges = net1.edges := by
              unfold newNode at hn2
              split at hn2
              · split_ifs at hn2 <;> simp only [Prod.mk.injEq] at hn2 <;> rw [← hn2.2]
              · simp only [Prod.mk.injEq] at hn2; rw [← hn2.2]
            rw [x2, x1]
          simp only [Except.ok.injEq] at h
          subst h
          simp only [addNode, hasNode, nodes2]
          split_ifs <;> simp_all
        · have x1 : net1.edges = net.edges := by
            unfold newNode at hn1
            split at hn1
            · split_ifs at hn1 <;> simp only [Prod.mk.injEq] at hn1 <;> rw [← hn1.2]
            · simp only [Prod.mk.injEq] at hn1; rw [← hn1.2]
          have x2 : net2.edges = net1.edges := by
            unfold newNode at hn2
            split at hn2
            · split_ifs at hn2 <;> simp only [Prod.mk.injEq] at hn2 <;> rw [← hn2.2]
            · simp only [Prod.mk.injEq] at hn2; rw [← hn2.2]
          simp only [Except.ok.injEq] at h
          subst h
          simp only [addNode, hasNode]
          split_ifs <;> simp_all

/-- an end node `z` of end point `q`: the class's old node, or a fresh node at `q` when the class had none -/
def EndNode (geo : Geo α) (old : List (MNode α)) (q : Pt α) (z : MNode α) : Prop :=
  (z ∈ old ∧ geo.ptEq q z.p = true) ∨ (z.p = q ∧ ¬ ∃ n ∈ old, geo.ptEq q n.p = true)

theorem EndNode.side {geo : Geo α} {dist : Pt α → Pt α → α} {S : Pt α → Prop} (hg : IdGeo geo dist S)
    {old : List (MNode α)} (hI : IdInv geo S old) {q : Pt α} (hq : S q) {z : MNode α} (hz : EndNode geo old q z) :
    S z.p ∧ geo.ptEq q z.p = true ∧
    ∀ x ∈ old, (geo.ptEq x.p z.p = true ∨ geo.ptEq z.p x.p = true) → x = z := by
  rcases hz with ⟨hzo, hze⟩ | ⟨hzp, hno⟩
  · refine ⟨hI.inS z hzo, hze, ?_⟩
    intro x hx h
    rcases h with h | h
    · exact hI.distinct x hx z hzo h
    · exact (hI.distinct z hzo x hx h).symm
  · refine ⟨by rw [hzp]; exact hq, by rw [hzp]; exact hg.refl q hq, ?_⟩
    intro x hx h
    exfalso
    apply hno
    rw [hzp] at h
    rcases h with h | h
    · exact ⟨x, hx, hg.symm _ _ (hI.inS x hx) hq h⟩
    · exact ⟨x, hx, h⟩

/-- **One `AddLink` call keeps "nodes = classes"**: both end points get a node of their class (the old one
when the class has one), no two nodes of the result are `PointEquals`. -/
theorem addLink_ident (geo : Geo α) (dist : Pt α → Pt α → α) (S : Pt α → Prop) (hg : IdGeo geo dist S)
    (hc : GeoContract geo) (net net' : Net α) (i : Nat) (l : Link α) (hB : BInv geo net) (hI : IdInv geo S net.nodes)
    (h : addLink geo net i l = .ok net') (p0 pn : Pt α) (hh : l.pts.head? = some p0) (hl : l.pts.getLast? = some pn)
    (hS0 : S p0) (hSn : S pn) (hne : geo.ptEq p0 pn = false) :
    IdInv geo S net'.nodes ∧ (∀ m ∈ net.nodes, m ∈ net'.nodes) ∧
    ∃ a b, a ∈ net'.nodes ∧ b ∈ net'.nodes ∧ geo.ptEq p0 a.p = true ∧ geo.ptEq pn b.p = true ∧
      net'.edges = net.edges ++ [⟨i, a.id, b.id, geo.length l.pts, l.speed, geo.length l.pts / l.speed⟩] := by
  obtain ⟨p0', pn', a, net1, b, net2, hh', hl', hn1, hn2, hab, hnodes, hedges⟩ := addLink_shape geo net net' i l h
  rw [hh] at hh'; rw [hl] at hl'
  cases hh'; cases hl'
  obtain ⟨e1, e2, _, hF⟩ := newNode_spec geo hc net p0 a net1 hn1
  obtain ⟨f1, f2, _, hT⟩ := newNode_spec geo hc net1 pn b net2 hn2
  rw [e1] at hnodes
  have hI1 : IdInv geo S net1.nodes := by rw [e1]; exact hI
  obtain ⟨ca1, ca2⟩ := newNode_class geo dist S hg net hI p0 hS0 a net1 hn1
  obtain ⟨cb1, cb2⟩ := newNode_class geo dist S hg net1 hI1 pn hSn b net2 hn2
  rw [e1] at cb1 cb2
  have hA : EndNode geo net.nodes p0 a := by
    by_cases hex : ∃ n ∈ net.nodes, geo.ptEq p0 n.p = true
    · exact Or.inl (ca1 hex)
    · exact Or.inr ⟨by rw [ca2 hex], hex⟩
  have hBn : EndNode geo net.nodes pn b := by
    by_cases hex : ∃ n ∈ net.nodes, geo.ptEq pn n.p = true
    · exact Or.inl (cb1 hex)
    · exact Or.inr ⟨by rw [cb2 hex], hex⟩
  obtain ⟨sa, ea, da⟩ := hA.side hg hI hS0
  obtain ⟨sb, eb, db⟩ := hBn.side hg hI hSn
  have hT' : b ∈ net.nodes ∨ b.id = net1.maxID + 1 := by
    rcases hT with h | h
    · left; rw [← e1]; exact h.1
    · right; exact h.1
  have hT'' : (b ∈ net.nodes ∧ net2.maxID = net1.maxID) ∨ (b.id = net1.maxID + 1 ∧ net2.maxID = net1.maxID + 1) := by
    rw [e1] at hT; exact hT
  obtain ⟨_, na, nb⟩ := nodes2_nodup net.nodes a b net.maxID net1.maxID hB.idle hab hB.nodup hF hT'
  obtain ⟨_, _, _, _, k5⟩ := nodes2_spec net.nodes a b net.maxID net1.maxID net2.maxID hB.maxid hB.idle hab hF hT''
  have hab' : ¬ geo.ptEq a.p b.p = true := by
    intro hq
    have h1 := hg.trans p0 a.p b.p hS0 sa sb ea hq
    have h2 := hg.trans p0 b.p pn hS0 sb hSn h1 (hg.symm _ _ hSn sb eb)
    rw [hne] at h2; cases h2
  refine ⟨⟨?_, ?_⟩, ?_, a, b, by rw [hnodes]; exact na, by rw [hnodes]; exact nb, ea, eb, hedges⟩
  · intro m hm
    rw [hnodes] at hm
    rcases mem_nodes2 _ _ _ _ hm with h | rfl | rfl
    · exact hI.inS m h
    · exact sa
    · exact sb
  · intro x hx y hy hxy
    rw [hnodes] at hx hy
    rcases mem_nodes2 _ _ _ _ hx with hx' | rfl | rfl <;> rcases mem_nodes2 _ _ _ _ hy with hy' | rfl | rfl
    · exact hI.distinct x hx' y hy' hxy
    · exact da x hx' (Or.inl hxy)
    · exact db x hx' (Or.inl hxy)
    · exact (da y hy' (Or.inr hxy)).symm
    · rfl
    · exact absurd hxy hab'
    · exact (db y hy' (Or.inr hxy)).symm
    · exact absurd (hg.symm _ _ sb sa hxy) hab'
    · rfl
  · intro m hm; rw [hnodes]; exact k5 m hm

/-- the property's quantifier for one link, on the point set `S`: both end points in `S`, not a self-loop -/
def LinkOk (geo : Geo α) (S : Pt α → Prop) (l : Link α) : Prop :=
  0 < l.speed ∧ ∀ p q, l.pts.head? = some p → l.pts.getLast? = some q → S p ∧ S q ∧ geo.ptEq p q = false

/-- every stored link's end nodes are nodes of the classes of its two end points -/
def EdgeEnds (geo : Geo α) (net : Net α) (pre : List (Link α)) : Prop :=
  ∀ e ∈ net.edges, ∃ l p q a b, pre[e.link]? = some l ∧ l.pts.head? = some p ∧ l.pts.getLast? = some q ∧
    a ∈ net.nodes ∧ b ∈ net.nodes ∧ a.id = e.a ∧ b.id = e.b ∧ geo.ptEq p a.p = true ∧ geo.ptEq q b.p = true

theorem buildFrom_ident (geo : Geo α) (dist : Pt α → Pt α → α) (S : Pt α → Prop) (hg : IdGeo geo dist S)
    (hc : GeoContract geo) (ls : List (Link α)) : ∀ (pre : List (Link α)) (net net' : Net α),
    BInv geo net → IdInv geo S net.nodes → EdgeEnds geo net pre → (∀ l ∈ ls, LinkOk geo S l) →
    buildFrom geo net pre.length ls = .ok net' →
    BInv geo net' ∧ IdInv geo S net'.nodes ∧ EdgeEnds geo net' (pre ++ ls) := by
  induction ls with
  | nil =>
    intro pre net net' hB hI hE _ h
    simp [buildFrom] at h; subst h
    exact ⟨hB, hI, by simpa using hE⟩
  | cons l ls ih =>
    intro pre net net' hB hI hE hL h
    simp only [buildFrom] at h
    cases ha : addLink geo net pre.length l with
    | error e => simp [ha] at h
    | ok net1 =>
      simp only [ha] at h
      obtain ⟨hsp, hlk⟩ := hL l (by simp)
      obtain ⟨p0, pn, _, _, _, _, hh, hl, _, _, _, _, _⟩ := addLink_shape geo net net1 pre.length l ha
      obtain ⟨s0, sn, hne⟩ := hlk p0 pn hh hl
      obtain ⟨hI1, hsub, a, b, ha1, hb1, ea, eb, hedges⟩ :=
        addLink_ident geo dist S hg hc net net1 pre.length l hB hI ha p0 pn hh hl s0 sn hne
      have hB1 := addLink_inv geo hc net net1 pre.length l hB hsp ha
      have hE1 : EdgeEnds geo net1 (pre ++ [l]) := by
        intro e he
        rw [hedges] at he
        rcases List.mem_append.1 he with h' | h'
        · obtain ⟨l', p, q, a', b', g1, g2, g3, g4, g5, g6, g7, g8, g9⟩ := hE e h'
          have hlt : e.link < pre.length := by
            obtain ⟨hlt, _⟩ := List.getElem?_eq_some_iff.1 g1
            exact hlt
          exact ⟨l', p, q, a', b', by rw [List.getElem?_append_left hlt]; exact g1, g2, g3, hsub a' g4, hsub b' g5, g6, g7, g8, g9⟩
        · simp at h'; subst h'
          exact ⟨l, p0, pn, a, b, by simp, hh, hl, ha1, hb1, rfl, rfl, ea, eb⟩
      have := ih (pre ++ [l]) net1 net' hB1 hI1 hE1 (fun x hx => hL x (List.mem_cons_of_mem _ hx))
        (by simpa using h)
      simpa using this

/-- link end point `r` was given node id `u` -/
def EndOf (net : Net α) (ls : List (Link α)) (r : Pt α) (u : Nat) : Prop :=
  ∃ e ∈ net.edges, ∃ l, ls[e.link]? = some l ∧
    ((l.pts.head? = some r ∧ e.a = u) ∨ (l.pts.getLast? = some r ∧ e.b = u))

/-- **The nodes of a built network are the `PointEquals` classes of the link end points** (clause "network
node", mechanism "node identification by nearest existing node within relative tolerance").  For every
AddLink history whose end points form well separated clusters (`IdGeo`: the R-tree returns a nearest node,
`PointEquals` is an equivalence on the end points, own class nearer than any other point — the decidable
test `separated` of Spec.lean) and has no self-loops: two link ends share a node **iff** they are
`PointEquals`, whatever the order of the calls.  This is the Spec rule `SNet.identOk`, now a theorem about
the model. -/
theorem C19_ident (geo : Geo α) (dist : Pt α → Pt α → α) (S : Pt α → Prop) (hg : IdGeo geo dist S)
    (hc : GeoContract geo) (o : Opt) (ls : List (Link α)) (net : Net α) (hL : ∀ l ∈ ls, LinkOk geo S l)
    (hb : build geo o ls = .ok net) (r r' : Pt α) (u u' : Nat) (h1 : EndOf net ls r u) (h2 : EndOf net ls r' u') :
    geo.ptEq r r' = true ↔ u = u' := by
  have hB0 : BInv geo (newNetwork o : Net α) := by
    refine ⟨rfl, ?_, ?_, ?_, ?_, ?_, by simp [newNetwork], by simp [newNetwork], ?_⟩ <;> intro x hx <;> simp [newNetwork] at hx
  have hI0 : IdInv geo S (newNetwork o : Net α).nodes := ⟨by simp [newNetwork], by simp [newNetwork]⟩
  have hE0 : EdgeEnds geo (newNetwork o : Net α) [] := by intro e he; simp [newNetwork] at he
  obtain ⟨hB, hI, hE⟩ := buildFrom_ident geo dist S hg hc ls [] _ net hB0 hI0 hE0 hL (by simpa [build] using hb)
  simp only [List.nil_append] at hE
  -- the node of a recorded end
  have key : ∀ r u, EndOf net ls r u → ∃ a ∈ net.nodes, a.id = u ∧ S r ∧ geo.ptEq r a.p = true := by
    intro r u ⟨e, he, l, hl, hru⟩
    obtain ⟨l', p, q, a, b, g1, g2, g3, g4, g5, g6, g7, g8, g9⟩ := hE e he
    rw [hl] at g1; cases g1
    have hmem : l ∈ ls := List.mem_of_getElem? hl
    obtain ⟨sp, sq, _⟩ := (hL l hmem).2 p q g2 g3
    rcases hru with ⟨hr, hu⟩ | ⟨hr, hu⟩
    · rw [g2] at hr; cases hr
      exact ⟨a, g4, g6.trans hu, sp, g8⟩
    · rw [g3] at hr; cases hr
      exact ⟨b, g5, g7.trans hu, sq, g9⟩
  obtain ⟨a, ha, hau, sr, ea⟩ := key r u h1
  obtain ⟨a', ha', hau', sr', ea'⟩ := key r' u' h2
  have sa := hI.inS a ha
  have sa' := hI.inS a' ha'
  constructor
  · intro hrr
    have h3 := hg.trans a.p r r' sa sr sr' (hg.symm _ _ sr sa ea) hrr
    have h4 := hg.trans a.p r' a'.p sa sr' sa' h3 ea'
    have := hI.distinct a ha a' ha' h4
    rw [← hau, ← hau', this]
  · intro huu
    have hid : a.id = a'.id := by rw [hau, hau', huu]
    have f1 := find_id_of_mem net.nodes hB.nodup a ha
    have f2 := find_id_of_mem net.nodes hB.nodup a' ha'
    rw [hid, f2] at f1
    have haa : a' = a := Option.some.inj f1
    subst haa
    exact hg.trans r a'.p r' sr sa' sr' ea (hg.symm _ _ sr' sa' ea')

/-! ### non-vacuity: exact identification with a true nearest-neighbour search satisfies `IdGeo` -/

def distE (p q : Pt ℚ) : ℚ := |p.x - q.x| + |p.y - q.y|

def nearestBy (l : List (MNode ℚ)) (p : Pt ℚ) : Option (MNode ℚ) :=
  match l with
  | [] => none
  | n :: ns => some (ns.foldl (fun m x => if distE p x.p < distE p m.p then x else m) n)

theorem foldMin_spec (p : Pt ℚ) (n : MNode ℚ) (ns : List (MNode ℚ)) :
    ns.foldl (fun m x => if distE p x.p < distE p m.p then x else m) n ∈ n :: ns ∧
    ∀ y ∈ n :: ns, distE p (ns.foldl (fun m x => if distE p x.p < distE p m.p then x else m) n).p ≤ distE p y.p := by
  induction ns generalizing n with
  | nil => simp
  | cons x ns ih =>
    simp only [List.foldl_cons]
    obtain ⟨h1, h2⟩ := ih (if distE p x.p < distE p n.p then x else n)
    by_cases hx : distE p x.p < distE p n.p
    · simp only [if_pos hx] at h1 h2 ⊢
      refine ⟨?_, ?_⟩
      · rcases List.mem_cons.1 h1 with h | h
        · rw [h]; simp
        · simp [h]
      · intro y hy
        rcases List.mem_cons.1 hy with rfl | hy
        · exact le_trans (h2 x (by simp)) (le_of_lt hx)
        · exact h2 y hy
    · simp only [if_neg hx] at h1 h2 ⊢
      refine ⟨?_, ?_⟩
      · rcases List.mem_cons.1 h1 with h | h
        · rw [h]; simp
        · simp [h]
      · intro y hy
        rcases List.mem_cons.1 hy with rfl | hy
        · exact h2 y (by simp)
        · rcases List.mem_cons.1 hy with rfl | hy
          · exact le_trans (h2 n (by simp)) (not_lt.1 hx)
          · exact h2 y (List.mem_cons_of_mem _ hy)

def geoE : Geo ℚ :=
  { nearest := nearestBy
    ptEq := fun p q => decide (p.x = q.x ∧ p.y = q.y)
    length := fun _ => 0
    euclid := distE
    one := 1 }

example : IdGeo geoE distE (fun _ => True) := by
  refine ⟨?_, ?_, ?_, ?_, ?_, ?_⟩
  · intro l p h; cases l with
    | nil => rfl
    | cons n ns => simp [geoE, nearestBy] at h
  · intro l p x h
    cases l with
    | nil => simp [geoE, nearestBy] at h
    | cons n ns =>
      simp only [geoE, nearestBy, Option.some.injEq] at h
      rw [← h]; exact foldMin_spec p n ns
  · intro p _; simp [geoE]
  · intro p q _ _ h; simp [geoE] at h ⊢; exact ⟨h.1.symm, h.2.symm⟩
  · intro p q r _ _ _ h1 h2; simp [geoE] at h1 h2 ⊢; exact ⟨h1.1.trans h2.1, h1.2.trans h2.2⟩
  · intro p q r _ _ _ h1 h2
    simp only [geoE, decide_eq_true_eq, decide_eq_false_iff_not] at h1 h2
    have e0 : distE p q = 0 := by simp [distE, h1.1, h1.2]
    rw [e0]
    unfold distE
    by_cases hx : p.x = r.x
    · have hy : p.y ≠ r.y := fun hy => h2 ⟨hx, hy⟩
      have : 0 < |p.y - r.y| := abs_pos.2 (sub_ne_zero.2 hy)
      have := abs_nonneg (p.x - r.x)
      linarith
    · have : 0 < |p.x - r.x| := abs_pos.2 (sub_ne_zero.2 hx)
      have := abs_nonneg (p.y - r.y)
      linarith

end GeomV.C19
