import GeomV.C19.GenFrame
import GeomV.C19.Model
/-!
# C19 — the frame property behind "This function does not change the Network, so multiple function calls can be run concurrently"

Regenerated tie against WRITES ON THE QUERY PATH (go/ast extraction on every run: `harness/cmd/c19/frame` →
`GenFrame.lean`).  In the source of the tree under test

* no function of package `route` on the query path — `ShortestRoute`, every function/method of the package it (transitively)
  names, and, because it hands its receiver to `path.AStar`, every method in the method set of a `Network` VALUE and every
  method of `node`/`edge` (gonum calls `From`, `Weight`, `Node`, `Edge`, `Has…`, `node.ID`, `edge.From/To/ReversedEdge` through
  interfaces) — assigns to a package-level or captured variable, stores through a pointer (`net` of `costHeuristic` is
  `*Network`), stores into a map or into a slice it did not make itself, appends to / copies into / deletes from such a
  slice or map, takes the address of anything but a fresh composite literal or a local, starts a goroutine or sends on a
  channel; package `route` has no package-level variable at all and imports none of unsafe/reflect/sync/atomic/cgo;
* the functions outside the package called on that path are exactly `op.Distance`, `path.AStar` (gonum, pinned by hash;
  its state — the open heap, `Shortest` — is allocated per call), `iterator.NewOrderedNodes` (on a slice the caller made),
  `fmt.Errorf`, `math.Inf` and the one R-tree call `net.nodes.NearestNeighbor` (`shortest.To` is a method of the value
  `AStar` returned);
* the same analysis of package `index/rtree` from the root `NearestNeighbor`: no write except `entrySlice.Swap`, which
  swaps elements of `s.entries`/`s.dists` — and the ONLY `entrySlice` literal on the path is built in `sortEntries` from two
  slices that `sortEntries` made itself (`fresh sorted`, `fresh dists`: locals that only ever hold `make(..)`), i.e. memory
  owned by the call; no package-level variable.

Hence a `ShortestRoute` call reads the network and writes only memory allocated during the call: calls that overlap in
time on one network value (with no `AddLink` in between) do not race, and each returns what it returns alone —
on the model `C19_queries_frame`: the answers of a block of queries are `shortestRoute net q` for each `q`, a function of
the network value and of the query's own arguments (the model has no other state to read).

A memo table / scratch buffer / latched field written on the path (mutations cc-M1, cc-M2, N34, N41..N43 of the notes)
breaks `tie_Frame`.  NOT seen: state behind method calls on objects of other packages (a new one appears in `extCalls` and
breaks the tie), `op.Distance`'s own body (pure float arithmetic, property C05's anchor), the Go memory model itself.
-/
set_option linter.unusedSectionVars false
namespace GeomV.C19.Frame
open GeomV GeomV.C19

/-- functions that must be among the analysed ones (a rename cannot silently drop one) -/
def routeRequired : List String :=
  ["Network.ShortestRoute", "*Network.costHeuristic", "Network.From", "Network.Weight", "Network.Node", "Network.Edge",
   "Network.Has", "node.ID", "edge.From", "edge.To"]

def routeExtModel : List String :=
  ["fmt.Errorf", "iterator.NewOrderedNodes", "math.Inf", "net.nodes.NearestNeighbor", "op.Distance", "path.AStar"]

def rtreeRequired : List String :=
  ["*Rtree.NearestNeighbor", "*Rtree.nearestNeighbor", "sortEntries", "pruneEntries", "minDist", "minMaxDist",
   "entrySlice.Len", "entrySlice.Less", "entrySlice.Swap"]

/-- the single exception: `sort.Sort` permutes the two slices `sortEntries` made -/
def rtreeWritesModel : List (String × List String) :=
  [("entrySlice.Swap", ["store s.entries[]", "store s.entries[]", "store s.dists[]", "store s.dists[]"])]

def rtreeLiteralsModel : List String := ["sortEntries: entrySlice{fresh sorted, fresh dists, p}"]

theorem tie_Frame :
    GenFrame.route_writes = [] ∧ GenFrame.route_pkgVars = [] ∧ GenFrame.route_riskyImports = [] ∧
    GenFrame.route_problems = [] ∧ GenFrame.route_extCalls = routeExtModel ∧
    routeRequired.all (fun n => GenFrame.route_queryPath.contains n) = true ∧
    GenFrame.rtree_writes = rtreeWritesModel ∧ GenFrame.rtree_literals = rtreeLiteralsModel ∧
    GenFrame.rtree_pkgVars = [] ∧ GenFrame.rtree_riskyImports = [] ∧ GenFrame.rtree_problems = [] ∧
    GenFrame.rtree_extCalls = ["math.Abs", "sort.Sort"] ∧
    rtreeRequired.all (fun n => GenFrame.rtree_queryPath.contains n) = true := by
  decide

section model
variable {α : Type} [Zero α] [One α] [Add α] [Mul α] [Div α] [LT α] [DecidableLT α]

/-- **C19_queries_frame**: any block of queries asked on one network value (no `AddLink` in between) is answered
query by query by `shortestRoute` on THAT network: the k-th answer is a function of the network and of the k-th
query's arguments only — not of its position, of the other queries, or of how often it is asked. -/
theorem C19_queries_frame (geo : Geo α) (pick : Queue α) (iw : Bool) (ord : Nat → List Nat → List Nat)
    (net : Net α) (i : Nat) (qs : List (Pt α × Pt α)) :
    runOps geo pick iw ord net i (qs.map fun q => Op.query q.1 q.2)
      = .ok (qs.map fun q => shortestRoute geo pick iw ord net q.1 q.2) := by
  induction qs with
  | nil => rfl
  | cons q qs ih => simp only [List.map_cons, runOps, ih]

/-- reordering / repeating the calls reorders / repeats the answers: whatever schedule `f` picks the queries in -/
theorem C19_queries_schedule (geo : Geo α) (pick : Queue α) (iw : Bool) (ord : Nat → List Nat → List Nat)
    (net : Net α) (i : Nat) (qs : List (Pt α × Pt α)) (sched : List (Pt α × Pt α)) (hs : ∀ q ∈ sched, q ∈ qs) :
    ∃ rs, runOps geo pick iw ord net i (sched.map fun q => Op.query q.1 q.2) = .ok rs ∧
      rs = sched.map (fun q => shortestRoute geo pick iw ord net q.1 q.2) ∧
      ∀ r ∈ rs, ∃ q ∈ qs, r = shortestRoute geo pick iw ord net q.1 q.2 := by
  refine ⟨_, C19_queries_frame geo pick iw ord net i sched, rfl, ?_⟩
  intro r hr
  obtain ⟨q, hq, rfl⟩ := List.mem_map.mp hr
  exact ⟨q, hs q hq, rfl⟩

end model
end GeomV.C19.Frame
