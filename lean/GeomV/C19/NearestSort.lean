import GeomV.C12.ProofsExt
import GeomV.C19.Nearest
/-!
# C19 — the last R-tree hypothesis (`C12.OrderOK`) discharged for the node tables route builds

`Nearest.lean` proves C19's contract of `net.nodes.NearestNeighbor` from C11/C12's tree model under ONE hypothesis:
the visiting order `order` that `sortEntries` (Go's unstable `sort.Sort`) induces on the branches of an inner node is
a permutation of the entry indices (`C12.OrderOK order`).  C12 models `sort.Sort` as what it is to `entrySlice` — a
program of `Swap(i, j)` calls computed from the distances (`sort.Sort` sees the data through `Len`/`Less`/`Swap` only):
`C12.sortEntriesLit sorter` for an ARBITRARY `sorter : List Rat → List (Nat × Nat)`, and proves
(`C12.C12_sort_contract`) that the entries are then read in the order `C12.swapOrder sorter`, which is a permutation
whatever the program does (`C12.swapOrder_ok`; a `Swap` outside the slice is Go's index panic and C12's fault).

So for the node tables route builds (degenerate point boxes, `NewTree(25, 50)`, `Insert` in table order) the
contract holds for EVERY `sorter`: no hypothesis about sorting, stability or tie-breaking is left — the theorems below
are `Nearest.lean`'s at `order := C12.swapOrder sorter`.  (In a leaf — every table of ≤ 50 nodes — nothing is sorted at
all.)  What remains outside: that Go's `sort.Sort` IS such a program (its source is the standard library's, not the
repository's; C12's harness observes the `Swap` calls), IEEE rounding of MINDIST/MINMAXDIST (C12's float-tree theorems),
and C12's own tie of the tree model to `index/rtree`.
-/
set_option linter.unusedVariables false
namespace GeomV.C19

/-- **C19_nearest_rtree_sort**: with `sort.Sort` = any program of `Swap` calls, the guarded R-tree query on the tree built
from any node table never faults, answers `none` exactly on the empty table and otherwise a stored node at minimum
squared distance. -/
theorem C19_nearest_rtree_sort (sorter : List Rat → List (Nat × Nat)) (l : List (MNode Rat)) (p : Pt Rat) :
    nearestRtreeE (C12.swapOrder sorter) l p = .ok (nearestRtreeWith (C12.swapOrder sorter) l p) ∧
    (nearestRtreeWith (C12.swapOrder sorter) l p = none ↔ l = []) ∧
    (∀ x, nearestRtreeWith (C12.swapOrder sorter) l p = some x → x ∈ l ∧ ∀ y ∈ l, sqDist p x.p ≤ sqDist p y.p) :=
  ⟨C19_nearest_rtree_nofault (C12.swapOrder_ok sorter) l p, C19_nearest_rtree_none (C12.swapOrder_ok sorter) l p,
    fun x h => C19_nearest_rtree_min (C12.swapOrder_ok sorter) l p x h⟩

/-- **C19_geo_rtree_contract_sort**: C19's assumptions about the R-tree (`NearestIn`, `nearestMem`, `nearest_none`,
`nearest_min`) for the geometry whose `nearest` is the R-tree model under any `sort.Sort` — no hypothesis. -/
theorem C19_geo_rtree_contract_sort (sorter : List Rat → List (Nat × Nat)) (geo : Geo Rat)
    (hgeo : geo.nearest = nearestRtreeWith (C12.swapOrder sorter)) :
    NearestIn geo ∧
    (∀ l p x, geo.nearest l p = some x → x ∈ l) ∧
    (∀ l p, geo.nearest l p = none → l = []) ∧
    (∀ l p x, geo.nearest l p = some x → x ∈ l ∧ ∀ y ∈ l, sqDist p x.p ≤ sqDist p y.p) :=
  C19_geo_rtree_contract (C12.swapOrder_ok sorter) geo hgeo

/-- **C19_ident_build_rtree_sort**: `C19_ident_build` for every `AddLink` history run on the R-tree model under any
`sort.Sort`; the only parameters left are `op.PointEquals/Length/Distance`. -/
theorem C19_ident_build_rtree_sort (sorter : List Rat → List (Nat × Nat)) (geo : Geo Rat) (o : Opt)
    (ls : List (Link Rat)) (net : Net Rat) (hb : build (withRtree (C12.swapOrder sorter) geo) o ls = .ok net) :
    (∀ r u, EndOf net ls r u →
      ∃ n ∈ net.nodes, n.id = u ∧ (n.p = r ∨ geo.ptEq r n.p = true) ∧ (∀ n' ∈ net.nodes, n'.id = u → n' = n)) ∧
    (∀ n ∈ net.nodes, ∃ (j : Nat) (l : Link Rat), ls[j]? = some l ∧
      (l.pts.head? = some n.p ∨ l.pts.getLast? = some n.p)) :=
  C19_ident_build_rtree (C12.swapOrder_ok sorter) geo o ls net hb

/-- the unguarded call of `ShortestRoute` under any `sort.Sort`: `.ok` the same node on a non-empty table, the explicit
`nnNil` panic on the empty one -/
theorem C19_nearest_rtree_unguarded_sort (sorter : List Rat → List (Nat × Nat)) (l : List (MNode Rat)) (p : Pt Rat) :
    ∃ t, rtreeOf l = .ok t ∧
      (l = [] → C12.nearestNeighbor (C12.swapOrder sorter) t p.x p.y = .error C11.Fault.nnNil ∧
        nearestRtreeWith (C12.swapOrder sorter) l p = none) ∧
      (l ≠ [] → ∃ x, C12.nearestNeighbor (C12.swapOrder sorter) t p.x p.y = .ok x ∧
        nearestRtreeWith (C12.swapOrder sorter) l p = some x) :=
  C19_nearest_rtree_unguarded (C12.swapOrder_ok sorter) l p

/-- non-vacuity: a sorter that swaps nothing, and one that reverses a 2-slice, are both covered; the answers agree with
the stable order on a concrete table -/
example : (nearestRtreeWith (C12.swapOrder fun _ => []) [⟨1, ⟨0, 0⟩⟩, ⟨2, ⟨3, 0⟩⟩] ⟨2, 0⟩).map (·.id) = some 2 := by
  decide +kernel

end GeomV.C19
