import Mathlib.Tactic.Linarith
import Mathlib.Algebra.Order.Field.Basic
import Mathlib.Tactic.SplitIfs
import Mathlib.Data.List.Perm.Subperm
import Mathlib.Data.List.Nodup
import GeomV.C19.Spec
/-
Helper lemmas for C19: walks (append, cost, removal of cycles, pigeonhole) and the correctness of
the Bellman–Ford oracle of Spec.lean.
-/
set_option linter.unusedVariables false
set_option linter.unusedSimpArgs false
set_option linter.unusedSectionVars false
namespace GeomV.C19

variable {α : Type} [Field α] [LinearOrder α] [IsStrictOrderedRing α]

/-- weights of edges are non-negative -/
def NonnegW (G : Graph α) : Prop := ∀ u v, v ∈ G.adj u → 0 ≤ G.w u v

/-- all edge targets are node ids below `n` -/
def InRange (G : Graph α) (n : Nat) : Prop := ∀ u v, v ∈ G.adj u → v < n

/-! ### walks -/

theorem isWalk_append (G : Graph α) (p q : List Nat) (u : Nat) :
    isWalk G u (p ++ q) ↔ isWalk G u p ∧ isWalk G (endOf u p) q := by
  induction p generalizing u with
  | nil => simp [isWalk, endOf]
  | cons v p ih => simp [isWalk, endOf, ih, and_assoc]

theorem endOf_append (p q : List Nat) (u : Nat) : endOf u (p ++ q) = endOf (endOf u p) q := by
  induction p generalizing u with
  | nil => simp [endOf]
  | cons v p ih => simp [endOf, ih]

theorem cost_append (G : Graph α) (p q : List Nat) (u : Nat) :
    cost G u (p ++ q) = cost G u p + cost G (endOf u p) q := by
  induction p generalizing u with
  | nil => simp [cost, endOf]
  | cons v p ih => simp [cost, endOf, ih, add_assoc]

theorem cost_nonneg {G : Graph α} (hw : NonnegW G) (p : List Nat) (u : Nat) (h : isWalk G u p) :
    0 ≤ cost G u p := by
  induction p generalizing u with
  | nil => simp [cost]
  | cons v p ih =>
    simp only [isWalk] at h
    have := ih v h.2
    have := hw u v h.1
    simp only [cost]; linarith

theorem endOf_mem (p : List Nat) (u : Nat) : endOf u p = u ∨ endOf u p ∈ p := by
  induction p generalizing u with
  | nil => simp [endOf]
  | cons v p ih =>
    rcases ih v with h | h
    · right; simp [endOf, h]
    · right; simp [endOf, h]

theorem isWalk_mem_range {G : Graph α} {n : Nat} (hr : InRange G n) (p : List Nat) (u : Nat)
    (h : isWalk G u p) : ∀ x ∈ p, x < n := by
  induction p generalizing u with
  | nil => simp
  | cons v p ih =>
    simp only [isWalk] at h
    intro x hx
    rcases List.mem_cons.1 hx with rfl | hx
    · exact hr u _ h.1
    · exact ih v h.2 x hx

/-- a walk can be shortcut to one that visits no node twice, ends in the same node and costs no more -/
theorem exists_simple {G : Graph α} (hw : NonnegW G) (p : List Nat) (u : Nat) (h : isWalk G u p) :
    ∃ p', isWalk G u p' ∧ endOf u p' = endOf u p ∧ cost G u p' ≤ cost G u p ∧ (u :: p').Nodup ∧ p' ⊆ p := by
  induction p generalizing u with
  | nil => exact ⟨[], by simp [isWalk], rfl, le_refl _, by simp, by simp⟩
  | cons v p ih =>
    simp only [isWalk] at h
    obtain ⟨q, hq1, hq2, hq3, hq4, hq5⟩ := ih v h.2
    have hwuv := hw u v h.1
    by_cases hu : u ∈ v :: q
    · -- cut at an occurrence of u
      obtain ⟨a, b, hab⟩ := List.append_of_mem hu
      -- v :: q = a ++ u :: b ; the walk from v through q splits
      have hsplit : isWalk G v q := hq1
      have key : isWalk G u b ∧ endOf u b = endOf v q ∧ cost G u b ≤ cost G v q := by
        cases a with
        | nil =>
          simp only [List.nil_append, List.cons.injEq] at hab
          obtain ⟨rfl, rfl⟩ := hab
          exact ⟨hq1, rfl, le_refl _⟩
        | cons a0 a' =>
          simp only [List.cons_append, List.cons.injEq] at hab
          obtain ⟨rfl, rfl⟩ := hab
          have h1 := (isWalk_append G (a' ++ [u]) b v).1 (by simpa using hq1)
          have e1 : endOf v (a' ++ [u]) = u := by rw [endOf_append]; simp [endOf]
          rw [e1] at h1
          refine ⟨h1.2, ?_, ?_⟩
          · have := endOf_append (a' ++ [u]) b v
            rw [e1] at this
            simpa using this.symm
          · have hc := cost_append G (a' ++ [u]) b v
            rw [e1] at hc
            have hn := cost_nonneg hw _ _ h1.1
            have : cost G v (a' ++ u :: b) = cost G v ((a' ++ [u]) ++ b) := by simp
            rw [this, hc]; linarith
      refine ⟨b, key.1, ?_, ?_, ?_, ?_⟩
      · simp only [endOf]; rw [key.2.1, hq2]
      · simp only [cost]; linarith [key.2.2]
      · have hsub : (u :: b).Sublist (v :: q) := by
          rw [hab]; exact List.sublist_append_right a (u :: b)
        exact hq4.sublist hsub
      · intro x hx
        have : x ∈ v :: q := by rw [hab]; simp [hx]
        rcases List.mem_cons.1 this with rfl | hx'
        · simp
        · exact List.mem_cons_of_mem _ (hq5 hx')
    · refine ⟨v :: q, ⟨h.1, hq1⟩, by simp [endOf, hq2], ?_, ?_, ?_⟩
      · simp only [cost]; linarith
      · exact List.nodup_cons.2 ⟨hu, hq4⟩
      · intro x hx
        rcases List.mem_cons.1 hx with rfl | hx'
        · simp
        · exact List.mem_cons_of_mem _ (hq5 hx')

/-- pigeonhole: a duplicate-free list of numbers below `n` has at most `n` elements -/
theorem nodup_length_le (l : List Nat) (n : Nat) (hd : l.Nodup) (hl : ∀ x ∈ l, x < n) : l.length ≤ n := by
  have hsub : l ⊆ List.range n := fun x hx => List.mem_range.2 (hl x hx)
  have := (hd.subperm hsub).length_le
  simpa using this

/-! ### the relaxation fold -/

theorem omin_cases (a b : Option α) : omin a b = a ∨ omin a b = b := by
  cases a with
  | none => cases b <;> simp [omin]
  | some a =>
    cases b with
    | none => simp [omin]
    | some b => simp only [omin]; split_ifs <;> simp

theorem omin_le_left (a b : Option α) (x : α) (h : a = some x) : ∃ y, omin a b = some y ∧ y ≤ x := by
  subst h
  cases b with
  | none => exact ⟨x, by simp [omin], le_refl _⟩
  | some b =>
    by_cases hb : b < x
    · exact ⟨b, by simp [omin, hb], le_of_lt hb⟩
    · exact ⟨x, by simp [omin, hb], le_refl _⟩

theorem omin_le_right (a b : Option α) (x : α) (h : b = some x) : ∃ y, omin a b = some y ∧ y ≤ x := by
  subst h
  cases a with
  | none => exact ⟨x, by simp [omin], le_refl _⟩
  | some a =>
    by_cases hb : x < a
    · exact ⟨x, by simp [omin, hb], le_refl _⟩
    · exact ⟨a, by simp [omin, hb], not_lt.1 hb⟩

/-- the step function of `relax` -/
def relaxF (G : Graph α) (d : Array (Option α)) (v : Nat) (acc : Option α) (u : Nat) : Option α :=
  if v ∈ G.adj u then omin acc ((look d u).map (· + G.w u v)) else acc

theorem relax_eq (G : Graph α) (us : List Nat) (d : Array (Option α)) (v : Nat) :
    relax G us d v = us.foldl (relaxF G d v) (look d v) := rfl

theorem foldl_relaxF_sound (G : Graph α) (d : Array (Option α)) (v : Nat) (us : List Nat) (acc : Option α) (c : α)
    (h : us.foldl (relaxF G d v) acc = some c) :
    acc = some c ∨ ∃ u ∈ us, v ∈ G.adj u ∧ ∃ cu, look d u = some cu ∧ c = cu + G.w u v := by
  induction us generalizing acc with
  | nil => left; simpa using h
  | cons u us ih =>
    simp only [List.foldl_cons] at h
    rcases ih _ h with h1 | ⟨u', hu', h2⟩
    · unfold relaxF at h1
      split_ifs at h1 with hv
      · rcases omin_cases acc ((look d u).map (· + G.w u v)) with e | e
        · left; rw [← e]; exact h1
        · rw [e] at h1
          right
          cases hl : look d u with
          | none => simp [hl] at h1
          | some cu =>
            simp [hl] at h1
            exact ⟨u, by simp, hv, cu, hl, h1.symm⟩
      · left; exact h1
    · right; exact ⟨u', List.mem_cons_of_mem _ hu', h2⟩

theorem foldl_relaxF_le_acc (G : Graph α) (d : Array (Option α)) (v : Nat) (us : List Nat) (acc : Option α) (x : α)
    (h : acc = some x) : ∃ y, us.foldl (relaxF G d v) acc = some y ∧ y ≤ x := by
  induction us generalizing acc x with
  | nil => exact ⟨x, by simpa using h, le_refl _⟩
  | cons u us ih =>
    simp only [List.foldl_cons]
    have : ∃ y, relaxF G d v acc u = some y ∧ y ≤ x := by
      unfold relaxF
      split_ifs
      · exact omin_le_left _ _ _ h
      · exact ⟨x, h, le_refl _⟩
    obtain ⟨y, hy, hyx⟩ := this
    obtain ⟨z, hz, hzy⟩ := ih _ y hy
    exact ⟨z, hz, le_trans hzy hyx⟩

theorem foldl_relaxF_le_edge (G : Graph α) (d : Array (Option α)) (v : Nat) (us : List Nat) (acc : Option α)
    (u : Nat) (cu : α) (hu : u ∈ us) (hv : v ∈ G.adj u) (hl : look d u = some cu) :
    ∃ y, us.foldl (relaxF G d v) acc = some y ∧ y ≤ cu + G.w u v := by
  induction us generalizing acc with
  | nil => simp at hu
  | cons u' us ih =>
    simp only [List.foldl_cons]
    rcases List.mem_cons.1 hu with rfl | hu'
    · have : ∃ y, relaxF G d v acc u = some y ∧ y ≤ cu + G.w u v := by
        unfold relaxF
        rw [if_pos hv]
        exact omin_le_right _ _ _ (by simp [hl])
      obtain ⟨y, hy, hyx⟩ := this
      obtain ⟨z, hz, hzy⟩ := foldl_relaxF_le_acc G d v us _ y hy
      exact ⟨z, hz, le_trans hzy hyx⟩
    · exact ih _ hu'

theorem look_map_range (n : Nat) (f : Nat → Option α) (v : Nat) :
    look ((List.range n).map f).toArray v = if v < n then f v else none := by
  unfold look
  by_cases h : v < n
  · simp [h]
  · simp [h]

/-! ### Bellman–Ford -/

theorem bfIter_sound (G : Graph α) (preds : Nat → List Nat) (n s : Nat) (k : Nat) (v : Nat) (c : α)
    (h : look (bfIter G preds n s k) v = some c) : ∃ p, isWalk G s p ∧ endOf s p = v ∧ cost G s p = c := by
  induction k generalizing v c with
  | zero =>
    simp only [bfIter, look_map_range] at h
    split_ifs at h with h1 h2
    · simp at h; subst h2; exact ⟨[], by simp [isWalk], rfl, by simp [cost, h]⟩
  | succ k ih =>
    simp only [bfIter, look_map_range] at h
    split_ifs at h with h1
    rw [relax_eq] at h
    rcases foldl_relaxF_sound G _ v _ _ c h with h2 | ⟨u, _, hv, cu, hl, hc⟩
    · exact ih v c h2
    · obtain ⟨p, hp1, hp2, hp3⟩ := ih u cu hl
      refine ⟨p ++ [v], ?_, ?_, ?_⟩
      · rw [isWalk_append]; exact ⟨hp1, by simp [isWalk, hp2, hv]⟩
      · rw [endOf_append]; simp [endOf]
      · rw [cost_append, hp2, hp3, hc]; simp [cost]

theorem bfIter_le (G : Graph α) (preds : Nat → List Nat) (hpr : PredsOk G preds) (n s : Nat) (hr : InRange G n) (hs : s < n) (k : Nat) (p : List Nat)
    (hp : isWalk G s p) (hk : p.length ≤ k) : ∃ y, look (bfIter G preds n s k) (endOf s p) = some y ∧ y ≤ cost G s p := by
  induction k generalizing p with
  | zero =>
    have : p = [] := List.length_eq_zero_iff.1 (Nat.le_zero.1 hk)
    subst this
    simp only [bfIter, look_map_range, endOf, cost]
    simp [hs]
  | succ k ih =>
    have hend : endOf s p < n := by
      rcases endOf_mem p s with e | e
      · rw [e]; exact hs
      · exact isWalk_mem_range hr p s hp _ e
    simp only [bfIter, look_map_range, if_pos hend, relax_eq]
    rcases List.eq_nil_or_concat p with rfl | ⟨q, v, hqv⟩
    · obtain ⟨y, hy, hyc⟩ := ih [] (by simp [isWalk]) (by simp)
      obtain ⟨z, hz, hzy⟩ := foldl_relaxF_le_acc G (bfIter G preds n s k) (endOf s []) (preds (endOf s [])) _ y hy
      exact ⟨z, hz, le_trans hzy hyc⟩
    · rw [List.concat_eq_append] at hqv
      subst hqv
      have hq := (isWalk_append G q [v] s).1 (by simpa using hp)
      have hlen : q.length ≤ k := by simp at hk; omega
      obtain ⟨y, hy, hyc⟩ := ih q hq.1 hlen
      have hu : endOf s q < n := by
        rcases endOf_mem q s with e | e
        · rw [e]; exact hs
        · exact isWalk_mem_range hr q s hq.1 _ e
      have hv : v ∈ G.adj (endOf s q) := by simpa [isWalk] using hq.2
      have e1 : endOf s (q ++ [v]) = v := by rw [endOf_append]; simp [endOf]
      have e2 : cost G s (q ++ [v]) = cost G s q + G.w (endOf s q) v := by rw [cost_append]; simp [cost]
      rw [e1, e2]
      obtain ⟨z, hz, hzy⟩ := foldl_relaxF_le_edge G (bfIter G preds n s k) v (preds v) (look (bfIter G preds n s k) v)
        (endOf s q) y (hpr _ _ hv) hv hy
      exact ⟨z, hz, by linarith⟩

/-- every walk is matched by the table after `n - 1` rounds -/
theorem bellmanFord_le (G : Graph α) (preds : Nat → List Nat) (hpr : PredsOk G preds) (n s : Nat) (hw : NonnegW G) (hr : InRange G n) (hs : s < n)
    (p : List Nat) (hp : isWalk G s p) :
    ∃ y, look (bellmanFord G preds n s) (endOf s p) = some y ∧ y ≤ cost G s p := by
  obtain ⟨q, hq1, hq2, hq3, hq4, hq5⟩ := exists_simple hw p s hp
  have hlen : (s :: q).length ≤ n := by
    apply nodup_length_le _ _ hq4
    intro x hx
    rcases List.mem_cons.1 hx with rfl | hx
    · exact hs
    · exact isWalk_mem_range hr q s hq1 x hx
  have : q.length ≤ n - 1 := by simp at hlen; omega
  obtain ⟨y, hy, hyc⟩ := bfIter_le G preds hpr n s hr hs (n - 1) q hq1 this
  rw [hq2] at hy
  exact ⟨y, hy, le_trans hyc hq3⟩

end GeomV.C19
