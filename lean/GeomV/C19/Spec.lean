import GeomV.C19.Model
/-!
# C19 — specification

Reads like the property:  *ShortestRoute returns a chain of links leading from the network node
nearest the start point to the node nearest the end point, each link sharing an end node with
the next, whose summed distance and time are the reported totals and whose cost (distance or
time) is minimal over all such chains; when the two nodes are not connected the route is empty.*

* §1  walks in a weighted graph, their cost, `IsMinCost`, `Reachable` (the meaning of "minimal over
      all such chains" / "not connected");
* §2  the oracle: Bellman–Ford (`bellmanFord`), proved equal to `IsMinCost` in Proofs.lean
      (`bellmanFord_correct`), so that the judge below compares against a VERIFIED optimum;
* §3  contracts used as hypotheses of the theorems (`PickSpec` for the heap, `Consistent` for
      the heuristic, `WeightsOk` for the weighting);
* §4  the executable verdict on an implementation answer (`judgeQuery`), over exact `Rat`.

Independent of the model except for the shared data types (`Opt`, `Entry`, `Pick`, `Adapter`).
Core Lean only.
-/
namespace GeomV.C19

/-! ## §1 walks and minimum cost -/

structure Graph (α : Type) where
  adj : Nat → List Nat
  w : Nat → Nat → α

section walks
variable {α : Type} [Zero α] [Add α] [LE α]

/-- `isWalk G u p`: `p` lists the nodes visited AFTER `u`, each adjacent to its predecessor -/
def isWalk (G : Graph α) : Nat → List Nat → Prop
  | _, [] => True
  | u, v :: p => v ∈ G.adj u ∧ isWalk G v p

def endOf : Nat → List Nat → Nat
  | u, [] => u
  | _, v :: p => endOf v p

def cost (G : Graph α) : Nat → List Nat → α
  | _, [] => 0
  | u, v :: p => G.w u v + cost G v p

def Reachable (G : Graph α) (s t : Nat) : Prop := ∃ p, isWalk G s p ∧ endOf s p = t

/-- `c` is the minimum of the costs of all walks (chains) from `s` to `t` -/
def IsMinCost (G : Graph α) (s t : Nat) (c : α) : Prop :=
  (∃ p, isWalk G s p ∧ endOf s p = t ∧ cost G s p = c) ∧
  ∀ p, isWalk G s p → endOf s p = t → c ≤ cost G s p

end walks

/-! ## §2 the oracle: Bellman–Ford -/

section bf
variable {α : Type} [Zero α] [Add α] [LT α] [DecidableLT α]

/-- minimum with `none` = +∞ -/
def omin : Option α → Option α → Option α
  | none, b => b
  | a, none => a
  | some a, some b => if b < a then some b else some a

/-- table lookup (`none` = +∞ / outside the table) -/
def look (d : Array (Option α)) (v : Nat) : Option α := (d[v]?).join

/-- one round for node `v`: min of the old value and `d u + w u v` over the candidate predecessors
`us` (only those `u` with an edge `u → v` count) -/
def relax (G : Graph α) (us : List Nat) (d : Array (Option α)) (v : Nat) : Option α :=
  us.foldl (fun acc u => if v ∈ G.adj u then omin acc ((look d u).map (· + G.w u v)) else acc) (look d v)

/-- `preds v` lists candidate predecessors of `v`; it must contain every `u` with an edge `u → v`
(`PredsOk`), extra entries are harmless.  `fun _ => List.range n` always qualifies; the judge passes
the tabulated neighbour lists of the (undirected) network so that a round costs O(|E|). -/
def bfIter (G : Graph α) (preds : Nat → List Nat) (n s : Nat) : Nat → Array (Option α)
  | 0 => ((List.range n).map fun v => if v = s then some 0 else none).toArray
  | k + 1 => let d := bfIter G preds n s k; ((List.range n).map fun v => relax G (preds v) d v).toArray

/-- nodes are `0 … n-1`; `n - 1` rounds -/
def bellmanFord (G : Graph α) (preds : Nat → List Nat) (n s : Nat) : Array (Option α) := bfIter G preds n s (n - 1)

def PredsOk (G : Graph α) (preds : Nat → List Nat) : Prop := ∀ u v, v ∈ G.adj u → u ∈ preds v

end bf

/-! ## §3 contracts -/

section contracts
variable {α : Type} [Zero α] [Add α] [LE α] [LT α]

/-- the heap: `pick` removes an entry of minimal `f`; the rest are the entries of the other nodes
(gonum's queue holds at most one entry per node: `indexOf`) -/
structure PickSpec (pick : Pick α) : Prop where
  none_iff : ∀ l, pick l = none ↔ l = []
  mem : ∀ l m r, pick l = some (m, r) → m ∈ l
  min : ∀ l m r, pick l = some (m, r) → ∀ x ∈ l, m.f ≤ x.f
  rest : ∀ l m r, pick l = some (m, r) → ∀ x, x ∈ r ↔ (x ∈ l ∧ x.node ≠ m.node)

/-- the priority queue: there is an invariant `Good` of the queue content (for gonum's binary heap:
heap order and at most one entry per node; for the abstract list queue: nothing) under which
`push` adds the entry, `update` replaces the entry of a node, and `pop` removes an entry of minimal
`f` leaving the entries of the other nodes — all three preserving `Good` -/
structure QueueSpec (Q : Queue α) (Good : List (Entry α) → Prop) : Prop where
  good_nil : Good []
  push_nil : ∀ e, Q.push [] e = [e]
  push : ∀ l e, Good l → (∀ x ∈ l, x.node ≠ e.node) →
    Good (Q.push l e) ∧ ∀ x, x ∈ Q.push l e ↔ (x ∈ l ∨ x = e)
  update : ∀ l v g f, Good l → (∃ x ∈ l, x.node = v) →
    Good (Q.update l v g f) ∧ ∀ x, x ∈ Q.update l v g f ↔ ((x ∈ l ∧ x.node ≠ v) ∨ x = ⟨v, g, f⟩)
  pop_none : ∀ l, Q.pop l = none ↔ l = []
  pop : ∀ l m r, Good l → Q.pop l = some (m, r) →
    m ∈ l ∧ (∀ x ∈ l, m.f ≤ x.f) ∧ (∀ x, x ∈ r ↔ (x ∈ l ∧ x.node ≠ m.node)) ∧ Good r

/-- weights of existing edges are defined and non-negative and agree with the graph `G` -/
def WeightsOk (A : Adapter α) (G : Graph α) : Prop :=
  (∀ u, A.frm u = G.adj u) ∧ ∀ u v, v ∈ G.adj u → A.weight u v = some (G.w u v) ∧ 0 ≤ G.w u v

/-- consistent (monotone) heuristic towards `t`: `h(x,t) ≤ w(x,y) + h(y,t)` on every edge -/
def Consistent (G : Graph α) (h : Nat → Nat → α) (t : Nat) : Prop :=
  ∀ x y, y ∈ G.adj x → h x t ≤ G.w x y + h y t

end contracts

/-! ## §4 executable verdicts over `Rat` -/

def rabs (a : Rat) : Rat := if a < 0 then -a else a
def rmax (a b : Rat) : Rat := if a < b then b else a

def ratToFloat (r : Rat) : Float := Float.ofInt r.num / Float.ofNat r.den
def floatToRat (f : Float) : Rat := (bitsToRat f.toBits).getD 0

/-- √ for the verdicts: exact when a coordinate difference vanishes (axis-aligned segment),
otherwise the correctly rounded double of the double nearest the argument — used only under the
relative tolerance `tol` -/
def segLen (p q : Pt Rat) : Rat :=
  let dx := p.x - q.x; let dy := p.y - q.y
  if dx == 0 then rabs dy else if dy == 0 then rabs dx
  else floatToRat (Float.sqrt (ratToFloat (dx * dx + dy * dy)))

def polyLen : List (Pt Rat) → Rat
  | p :: q :: r => segLen p q + polyLen (q :: r)
  | _ => 0

def sqDist (p q : Pt Rat) : Rat := (p.x - q.x) * (p.x - q.x) + (p.y - q.y) * (p.y - q.y)

/-- the double 1e-9 -/
def tol : Rat := (bitsToRat 0x3E112E0BE826D695).getD 0

/-- `exact`: the case is made of integer coordinates, axis-aligned segments and power-of-two speeds,
so every float operation of the implementation is exact and the comparison is equality;
otherwise relative tolerance 1e-9 -/
def closeTo (exact : Bool) (a b : Rat) : Bool :=
  if exact then a == b else rabs (a - b) ≤ tol * rmax (rabs a) (rabs b)

/-- relative closeness of `op.PointEquals`, in exact arithmetic (a zero sum gives NaN/Inf: false) -/
def relClose (a b : Rat) : Bool := let s := rabs (a + b); s != 0 && rabs (a - b) / s < tol
def ptEqRat (p q : Pt Rat) : Bool := (p.x == q.x && p.y == q.y) || (relClose p.x q.x && relClose p.y q.y)

/-- a link with its end nodes as the implementation reports them -/
structure SLink where
  pts : List (Pt Rat)
  speed : Rat
  a : Nat
  b : Nat

structure SNet where
  links : List SLink
  pos : List (Nat × Pt Rat)

def SLink.len (l : SLink) : Rat := polyLen l.pts
def SLink.time (l : SLink) : Rat := l.len / l.speed
def SLink.cost (o : Opt) (l : SLink) : Rat := match o with | .distance => l.len | .time => l.time
def SLink.joins (l : SLink) (u v : Nat) : Bool := (l.a == u && l.b == v) || (l.a == v && l.b == u)

def SNet.size (sn : SNet) : Nat := sn.pos.foldl (fun m x => max m (x.1 + 1)) 0

/-- the graph of the network: nodes = link end nodes, an edge per link in both directions, weighted
by the link's length or time (adjacency tabulated once per network; a pair of nodes joined by
several links would get the first link's cost — excluded by the property) -/
def SNet.graph (sn : SNet) (o : Opt) : Graph Rat :=
  let costs := sn.links.map fun l => (l.a, l.b, l.cost o)
  let tbl : Array (List (Nat × Rat)) := ((List.range sn.size).map fun u =>
    costs.filterMap fun (a, b, c) => if a = u then some (b, c) else if b = u then some (a, c) else none).toArray
  { adj := fun u => (tbl.getD u []).map (·.1)
    w := fun u v => match (tbl.getD u []).find? (·.1 == v) with | some x => x.2 | none => 0 }

/-- ids of the nodes nearest `p` (all of them, should there be a tie).  On inexact data (`exact = false`)
nodes whose distance exceeds the minimum by less than 2e-9 relative count as tied: the float distances the
implementation compares cannot separate them. -/
def SNet.nearest (sn : SNet) (p : Pt Rat) (exact : Bool := true) : List Nat :=
  match sn.pos with
  | [] => []
  | x :: xs =>
    let m := xs.foldl (fun m y => if sqDist p y.2 < m then sqDist p y.2 else m) (sqDist p x.2)
    let lim := if exact then m else m * (1 + 4 * tol)
    (sn.pos.filter fun y => sqDist p y.2 ≤ lim).map (·.1)

/-- follow the chain of links from node `u`: each link must have the current node as one end -/
def SNet.chainEnd (sn : SNet) : Nat → List Nat → Option Nat
  | u, [] => some u
  | u, i :: r => match sn.links[i]? with
    | none => none
    | some l => if l.a = u then sn.chainEnd l.b r else if l.b = u then sn.chainEnd l.a r else none

def SNet.sum (sn : SNet) (f : SLink → Rat) (r : List Nat) : Rat :=
  r.foldl (fun acc i => acc + ((sn.links[i]?).map f).getD 0) 0

/-- an answer of `ShortestRoute` with the route as link indices -/
structure Answer where
  links : List Nat
  distance : Rat
  time : Rat
  startDistance : Rat
  endDistance : Rat

/-- every link's end nodes lie at its end points (within the identification tolerance) -/
def SNet.endsOk (sn : SNet) : Bool :=
  sn.links.all fun l =>
    match l.pts.head?, l.pts.getLast?, sn.pos.find? (·.1 == l.a), sn.pos.find? (·.1 == l.b) with
    | some p, some q, some a, some b => ptEqRat p a.2 && ptEqRat q b.2 && l.a != l.b
    | _, _, _, _ => false

/-! ### which link ends are the same network node

`newNode` identifies an end point with the NEAREST existing node when the two are `op.PointEquals`.
In general the outcome depends on the order of the calls; it does not when the end points of the
network form well separated clusters (`separated`): `PointEquals` restricted to them is an
equivalence relation and every point is nearer to all points of its own class than to any other
point.  Then (induction over the calls: each class has exactly one node, placed at its first
member, and that node is the nearest node of every later member) the nodes ARE the classes, and
the Spec demands exactly that of the implementation's node table (`identOk`). -/

/-- the distinct end points of the links -/
def SNet.endPoints (sn : SNet) : List (Pt Rat) :=
  (sn.links.flatMap fun l => (l.pts.head?.toList ++ l.pts.getLast?.toList)).foldl
    (fun acc p => if acc.any (fun q => q.x == p.x && q.y == p.y) then acc else p :: acc) []

/-- greedy classes of `PointEquals`; `none` when it is not an equivalence on these points or the
classes are not well separated -/
def separated (ps : List (Pt Rat)) : Bool :=
  let rec classes : Nat → List (Pt Rat) → List (List (Pt Rat))
    | 0, _ => []
    | _, [] => []
    | fuel + 1, p :: r => (p :: r.filter (ptEqRat p)) :: classes fuel (r.filter fun q => !ptEqRat p q)
  let cs := classes ps.length ps
  -- every pair inside a class is equal, no pair across classes is
  let equiv := cs.zipIdx.all fun (c, i) =>
    c.all (fun p => c.all (ptEqRat p)) &&
    cs.zipIdx.all fun (c', j) => i == j || c.all fun p => c'.all fun q => !ptEqRat p q
  -- own class nearer than any other point
  let sep := cs.zipIdx.all fun (c, i) => c.all fun p =>
    let inMax := c.foldl (fun m q => rmax m (sqDist p q)) 0
    cs.zipIdx.all fun (c', j) => i == j || c'.all fun q => inMax < sqDist p q
  equiv && sep

/-- on well separated end points: two link ends share a node iff they are `PointEquals` -/
def SNet.identOk (sn : SNet) : Bool :=
  if !separated sn.endPoints then true else
  let ends := sn.links.flatMap fun l =>
    (l.pts.head?.toList.map fun p => (p, l.a)) ++ (l.pts.getLast?.toList.map fun p => (p, l.b))
  ends.all fun (p, i) => ends.all fun (q, j) => ptEqRat p q == (i == j)

/-- the hypotheses of `bellmanFord_correct`, tested on the concrete oracle graph: targets in range,
non-negative weights, and the neighbour lists are complete predecessor lists (symmetry) -/
def graphOk (G : Graph Rat) (n : Nat) : Bool :=
  (List.range n).all fun u => (G.adj u).all fun v => v < n && (G.adj v).contains u && 0 ≤ G.w u v

/-- the verdict on one query: `none` = the answer satisfies the property, `some why` otherwise.
`s`/`t` range over the nearest nodes (a singleton unless the query point is equidistant). -/
def judgeQuery (sn : SNet) (o : Opt) (exact : Bool) (from_ to : Pt Rat) (ans : Answer) : Option String :=
  let n := sn.size
  let G := sn.graph o
  let ok (s t : Nat) : Option String :=
    let best := look (bellmanFord G G.adj n s) t
    if !closeTo exact (sn.sum SLink.len ans.links) ans.distance then some "distance-is-not-the-sum-of-link-lengths"
    else if !closeTo exact (sn.sum SLink.time ans.links) ans.time then some "time-is-not-the-sum-of-link-times"
    else if ans.links.isEmpty then
      -- the empty route: right exactly when the two nodes coincide or are not connected
      if s == t || best.isNone then none else some "empty-route-although-connected"
    else match sn.chainEnd s ans.links with
    | none => some "route-is-not-a-chain-from-the-start-node"
    | some e =>
      if e != t then some "chain-does-not-end-at-the-node-nearest-the-end-point"
      else
        let c := match o with | .distance => ans.distance | .time => ans.time
        match best with
        | none => some "route-between-unconnected-nodes"
        | some b =>
          -- (also when link end vertices are only NEAR their end nodes: since fix 3 the heuristic is scaled)
          if closeTo exact b c then none else some "cost-not-minimal"
  let sd (s t : Nat) : Option String :=
    match sn.pos.find? (·.1 == s), sn.pos.find? (·.1 == t) with
    | some a, some b =>
      if !closeTo false (segLen from_ a.2) ans.startDistance then some "startDistance-wrong"
      else if !closeTo false (segLen to b.2) ans.endDistance then some "endDistance-wrong" else none
    | _, _ => some "node-unknown"
  if !graphOk G n then some "oracle-graph-violates-the-hypotheses-of-bellmanFord_correct" else
  let cands := (sn.nearest from_ exact).flatMap fun s => (sn.nearest to exact).map fun t => (s, t)
  let res := cands.map fun (s, t) => match ok s t with | none => sd s t | some w => some w
  if res.isEmpty then some "no-node" else if res.any (·.isNone) then none else res.head?.join

end GeomV.C19
