import GeomV.C16.Model
/-!
# C16 — vocabulary of the definitions regenerated from `/repo/encoding/shp/shp2geom.go` (T1 tie)

`GenGeom.lean` is rewritten from the CURRENT `shp2geom.go` by `harness/cmd/c16/extract -geom`
(go/ast, statement by statement) before every build; `TieGeom.lean` proves the regenerated functions
equal to the hand-written ones of `Model.lean`.  What the translator needs from the outside world is
fixed here, once, and is part of the trusted base:

* Go `int` is `Int` (64-bit overflow is outside the model), `int32` part offsets are `Nat` (as in
  `Shape.polygon/polyLine` of the model), `int(x)` of such an offset is `Int.ofNat x`;
* a slice is a `List`; `make([]T, n)` is `mk zero n` (`n < 0` panics: `Fault.makeslice`), `a[i]` is
  `idx a i`, `a[i] = v` is `setAt a i v` (out of range panics: `Fault.index`), `append(a, v)` is
  `a ++ [v]`; aliasing between slices does not occur in the translated subset (every slice written to
  was made in the same function);
* an assignment `x.p1…pn = v` reads down the path (`idx` for an index, projection for a field), evaluates
  `v`, then writes back up (`setAt` / structure update) — the Go order of evaluation;
* a function returns `M T = Except Fault T`: a Go panic or a non-nil `error` result is `.error`;
* loops: `for v := a; v < b; v++` is `forUp a b`, `for v := a; v >= b; v--` is `forDown a b`
  (`v <= b` / `v > b` are translated with the bound shifted by one), `for i, x := range xs` is
  `forRange xs`.  The translator emits these only after checking that the body assigns neither the
  counter nor a variable of the bound, so the iteration count `(b - a)` resp. `(a - b + 1)` computed on
  entry IS the fuel; the loop state is the tuple of variables assigned in the body and declared outside;
* go-shp `shp.NewPolyLine(parts)` is the model's `newPolyLine` (`newPolyLineS`), go-shp struct values
  are `PolyS` (`Polygon`, `PolyLine`: `Parts`, `Points`), `MPointS` (`MultiPoint`: `Points`); `Box`,
  `NumParts`, `NumPoints` are functions of the rest and not stored (assignments to them are listed by the
  generator as `…_droppedAssignments`); `*geom.Bounds` is `BoundsS`;
* `op.FixOrientation` is NOT modelled (`opaque`): the ties hold because the generated constant
  `FixOrientation` (read from `var FixOrientation = …`) is `false`.
Core Lean only.
-/
namespace GeomV.C16.GenGeom
open GeomV GeomV.C16

abbrev M := Except Fault

/-- `shp.Polygon` / `shp.PolyLine` -/
structure PolyS (α : Type) where
  Parts : List Nat
  Points : List (Pt α)

/-- `shp.MultiPoint` -/
structure MPointS (α : Type) where
  Points : List (Pt α)

/-- `*geom.Bounds` (non-nil) -/
structure BoundsS (α : Type) where
  Min : Pt α
  Max : Pt α

section
variable {α β ι σ : Type}

/-- `len(x)` -/
abbrev len (l : List β) : Int := (l.length : Int)

/-- the zero value of `geom.Point` / `shp.Point` -/
def zeroPt [Inhabited α] : Pt α := ⟨default, default⟩

/-- `make([]T, n)` -/
def mk (z : β) (n : Int) : M (List β) :=
  if n < 0 then .error .makeslice else .ok (List.replicate n.toNat z)

/-- `make([]T, n, c)` (the capacity is not observable otherwise) -/
def mkCap (z : β) (n c : Int) : M (List β) :=
  if n < 0 ∨ c < n then .error .makeslice else .ok (List.replicate n.toNat z)

/-- `a[i]` -/
def idx (l : List β) (i : Int) : M β :=
  if i < 0 then .error .index else
  match l[i.toNat]? with
  | some v => .ok v
  | none => .error .index

/-- `a[i] = v` -/
def setAt (l : List β) (i : Int) (v : β) : M (List β) :=
  if 0 ≤ i ∧ i.toNat < l.length then .ok (l.set i.toNat v) else .error .index

/-- run the body once per element, in order; the first fault ends the loop -/
def forEach : List ι → σ → (ι → σ → M σ) → M σ
  | [], s, _ => .ok s
  | x :: xs, s, f =>
    match f x s with
    | .ok s' => forEach xs s' f
    | .error e => .error e

/-- the values of `v` in `for v := a; v < b; v++` -/
def upTo (a b : Int) : List Int := (List.range (b - a).toNat).map (fun k => a + Int.ofNat k)
/-- the values of `v` in `for v := a; v >= b; v--` -/
def downTo (a b : Int) : List Int := (List.range (a - b + 1).toNat).map (fun k => a - Int.ofNat k)

/-- `for v := a; v < b; v++ { body }` -/
def forUp (a b : Int) (s : σ) (f : Int → σ → M σ) : M σ := forEach (upTo a b) s f
/-- `for v := a; v >= b; v-- { body }` -/
def forDown (a b : Int) (s : σ) (f : Int → σ → M σ) : M σ := forEach (downTo a b) s f

/-- `(k, xs[0]), (k+1, xs[1]), …` -/
def indexed : Nat → List β → List (Int × β)
  | _, [] => []
  | k, x :: xs => (Int.ofNat k, x) :: indexed (k + 1) xs

/-- `for i, x := range xs { body }` -/
def forRange (xs : List β) (s : σ) (f : Int → β → σ → M σ) : M σ :=
  forEach (indexed 0 xs) s (fun p s => f p.1 p.2 s)

/-- `*shp.NewPolyLine(parts)` -/
def newPolyLineS (parts : List (List (Pt α))) : PolyS α := ⟨(newPolyLine parts).1, (newPolyLine parts).2⟩

/-- `new(shp.MultiPoint)` -/
def MPointS.zero : MPointS α := ⟨[]⟩

/-- `g == nil` for `g geom.Geom` -/
def isNilGeom : Geom α → Bool
  | .nil => true
  | _ => false

/-- `return …, fmt.Errorf(format, …)` -/
def errorf (_format : String) : M β := .error .unsupported

/-- `op.FixOrientation(pg)`: not modelled -/
opaque opFixOrientation : List (List (Pt α)) → List (List (Pt α))

end
end GeomV.C16.GenGeom
