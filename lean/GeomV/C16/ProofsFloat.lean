import GeomV.C16.FloatCertProofs
/-!
# C16 — "floats agree to 10 decimal places" without a contract on `strconv`

`FloatCertProofs.lean` proves `FloatFmt (fmtFloat p) parseFloat (closeBits p)` for every `p ≤ 5000` and every bit
pattern (`C16_floatFmt_instance`): the text `FormatFloat(v,'f',p,64)` prints is the decimal `N/10^p` nearest to `v`
(`C16_float_render`), the parser (`Dec.toBits`, proved to be IEEE round-to-nearest-even in `C17/DecProofs.lean`)
returns the double nearest to that decimal, and `v` itself is a double, so the result is within `10^-p` of `v`.
Here the hypothesis `FloatFmt …` of `C16_struct_roundtrip` is discharged for the struct path's `floatPrecision = 10`.
-/
set_option linter.unusedSimpArgs false
set_option linter.unusedVariables false
namespace GeomV.C16

/-- **C16_struct_roundtrip_float** (clause "floats agree to 10 decimal places", struct path, NO hypothesis on the
formatter/parser): under the hypotheses of `C16_struct_roundtrip` a float64 field written with `Encode` is read back by
`DecodeRow` as a double `y` with `closeBits 10 u y`: both NaN, the same infinity, or finite with
`|y − u| ≤ 10^-10` as exact rationals. -/
theorem C16_struct_roundtrip_float {α : Type} (sfs : List SField) (e : EncS) (henc : newEncoder sfs = .ok e)
    (hp : ∀ sf ∈ attrsOf sfs, Plain (effName sf))
    (hd : ∀ a b (ha : a < (attrsOf sfs).length) (hb : b < (attrsOf sfs).length),
      keyOf (attrsOf sfs)[a] = keyOf (attrsOf sfs)[b] → a = b)
    (vals : List Val) (hl : e.fields.length = vals.length)
    (hfit : ∀ i (hi : i < e.fields.length) (hv : i < vals.length),
      writeAttr e.fields[i] vals[i] = some (render e.fields[i] vals[i]))
    (g : Geom α) (i : Nat) (hi : i < (attrsOf sfs).length) (hv : i < vals.length) (rf : SField) (prev : RVal α)
    (hkind : rf.kind = (attrsOf sfs)[i].kind)
    (htag : lower rf.tag = lower (attrsOf sfs)[i].tag) (hname : lower rf.name = lower (attrsOf sfs)[i].name)
    (u : UInt64) (hk : rf.kind = .float) (hval : vals[i] = .float u) :
    ∃ y, decodeField (fileKeys e.fields) g (writeStrict e.fields vals).1 rf prev = .ok (.float y, false) ∧
      closeBits floatPrecision u y = true :=
  (C16_struct_roundtrip sfs e henc hp hd vals hl hfit g i hi hv rf prev hkind htag hname).2.2.2
    (fun u y => closeBits floatPrecision u y = true) u
    (C16_floatFmt_instance floatPrecision (by decide)) hk hval

end GeomV.C16
