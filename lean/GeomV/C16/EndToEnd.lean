import GeomV.C16.LayoutProofs
import GeomV.C16.WriterGen
import GeomV.C16.Proofs
/-!
# C16 — end to end on the bytes

The per-record step theorems of `LayoutProofs.lean` composed over a WHOLE call sequence, followed by `Close()`
and `Layout.C16_container`: for every history of `Encode` / `EncodeFields` calls on one encoder — refused
attributes, geometries `geom2Shp` rejects, a nil `*Bounds`, `EncodeFields` with more values than columns (index
panic, cursor left behind) all included — the bytes of the `.shp` and `.dbf` files parse back (`fileOfBytes`,
go-shp's reader) to exactly the row store the abstract writer computes. Core Lean only.
-/
set_option linter.unusedSimpArgs false
set_option linter.unusedVariables false
namespace GeomV.C16.Layout
open GeomV GeomV.C16

/-! ## positioned writes inside a longer file -/

/-- `WriteAttribute` addresses one cell, whatever FOLLOWS the row in the file (later rows) -/
theorem writeAt_cell_mid (fs : List Field) (P : Bytes) (cur : List Bytes) (S : Bytes) (hok : RowOK fs cur) (j : Nat)
    (hj : j < cur.length) (b : Bytes) (hb : b.length ≤ cur[j].length) :
    writeAt (P ++ (rowBytes cur ++ S)) (P.length + (1 + sizeSum (fs.take j))) b
      = P ++ (rowBytes (cur.set j (putCell cur[j] b)) ++ S) := by
  have e : ∀ c : List Bytes, rowBytes c ++ S = rowBytes (c ++ [S]) := by intro c; simp [rowBytes]
  have hj' : j < (cur ++ [S]).length := by simp; omega
  have h1 : (cur ++ [S]).take j = cur.take j := List.take_append_of_le_length (by omega)
  have h2 : (cur ++ [S])[j] = cur[j] := List.getElem_append_left hj
  have hblk := writeAt_blocks (cur ++ [S]) j hj' b (by rw [h2]; exact hb)
  rw [h1, h2] at hblk
  rw [e, e, writeAt_append_right, rowBytes, show 1 + sizeSum (fs.take j) = sizeSum (fs.take j) + 1 by omega,
    writeAt_cons_succ, ← take_sizes fs cur hok j, hblk, List.set_append_left _ _ hj]
  rfl

theorem putCell_length (c b : Bytes) (h : b.length ≤ c.length) : (putCell c b).length = c.length := by
  simp [putCell]; omega

/-! ## the attribute loops on a row in ANY state, in the middle of the file -/

/-- the loop of `Encode` started at column `i` of the row at the encoder's cursor (after `P`, before `S`): the cells
become `overStrict`, the result is the one `writeStrict` reports (it does not depend on what the row held) -/
theorem attrsStrict_over (fs : List Field) (row : Nat) (P S : Bytes) (hP : P.length = hdrLen fs + row * recLen fs) :
    ∀ (vals : List Val) (i : Nat) (done rest : List Bytes), done.map List.length = (fs.take i).map (·.size) →
      rest.map List.length = (fs.drop i).map (·.size) →
    attrsStrict fs row i vals (P ++ (rowBytes (done ++ rest) ++ S))
      = (P ++ (rowBytes (done ++ overStrict (fs.drop i) vals rest) ++ S), (writeStrict (fs.drop i) vals).2)
  | [], i, done, rest, _, _ => by
    cases h : fs.drop i <;> cases rest <;> simp [attrsStrict, writeStrict, overStrict]
  | v :: vs, i, done, rest, hd, hr => by
    have hdl : done.length = min i fs.length := by
      have := congrArg List.length hd; simpa using this
    by_cases hi : i < fs.length
    · have hdrop : fs.drop i = fs[i] :: fs.drop (i + 1) := List.drop_eq_getElem_cons hi
      have hdl' : done.length = i := by omega
      rw [hdrop] at hr
      cases rest with
      | nil => simp at hr; omega
      | cons c cs =>
        simp only [List.map_cons, List.cons.injEq] at hr
        obtain ⟨hc, hcs⟩ := hr
        rw [attrsStrict, if_pos hi]
        simp only [writeAttribute, List.getElem?_eq_getElem hi]
        rw [hdrop]
        cases hw : writeAttr fs[i] v with
        | none => simp [writeStrict, overStrict, hw]
        | some buf =>
          have hb := writeAttr_len _ _ _ hw
          simp only [writeStrict, overStrict, hw]
          have hoff : cellOff fs row i = P.length + (1 + sizeSum (fs.take i)) := by simp only [cellOff, hP]; omega
          have hok : RowOK fs (done ++ c :: cs) := by
            unfold RowOK
            rw [List.map_append, hd, List.map_cons, hc, hcs, ← List.map_cons (f := fun x : Field => x.size), ← hdrop, ← List.map_append,
              List.take_append_drop]
          have hj : i < (done ++ c :: cs).length := by simp; omega
          have hcell : (done ++ c :: cs)[i] = c := by
            rw [List.getElem_append_right (by omega)]; simp [hdl']
          rw [hoff, writeAt_cell_mid fs P _ S hok i hj buf (by rw [hcell, hc]; exact hb), hcell]
          have hset : (done ++ c :: cs).set i (putCell c buf) = (done ++ [putCell c buf]) ++ cs := by
            rw [List.set_append_right _ _ (by omega), hdl', Nat.sub_self]
            simp
          have htk : (fs.take (i + 1)).map (·.size) = (fs.take i).map (·.size) ++ [fs[i].size] := by
            rw [List.take_succ_eq_append_getElem hi, List.map_append]; rfl
          rw [hset, attrsStrict_over fs row P S hP vs (i + 1) (done ++ [putCell c buf]) cs
            (by rw [List.map_append, hd, htk]; simp only [List.map_cons, List.map_nil, putCell_length c buf (by omega), hc]) hcs]
          simp [List.append_assoc]
    · have hdrop : fs.drop i = [] := List.drop_eq_nil_of_le (by omega)
      rw [hdrop] at hr
      have : rest = [] := by simpa using hr
      subst this
      rw [attrsStrict, if_neg hi, hdrop]
      simp [writeStrict, overStrict]

/-- the loop of `EncodeFields` likewise; it ends in the index panic exactly when values are left over after the
last column (`false`), and then every column has been served -/
theorem attrsLenient_over (fs : List Field) (row : Nat) (P S : Bytes) (hP : P.length = hdrLen fs + row * recLen fs) :
    ∀ (vals : List Val) (i : Nat) (done rest : List Bytes), done.map List.length = (fs.take i).map (·.size) →
      rest.map List.length = (fs.drop i).map (·.size) → i ≤ fs.length →
    attrsLenient fs row i vals (P ++ (rowBytes (done ++ rest) ++ S))
      = (P ++ (rowBytes (done ++ overLenient (fs.drop i) vals rest) ++ S), decide (i + vals.length ≤ fs.length))
  | [], i, done, rest, _, _, hle => by
    cases h : fs.drop i <;> cases rest <;> simp [attrsLenient, overLenient, hle]
  | v :: vs, i, done, rest, hd, hr, hle => by
    have hdl : done.length = min i fs.length := by
      have := congrArg List.length hd; simpa using this
    by_cases hi : i < fs.length
    · have hdrop : fs.drop i = fs[i] :: fs.drop (i + 1) := List.drop_eq_getElem_cons hi
      have hdl' : done.length = i := by omega
      rw [hdrop] at hr
      cases rest with
      | nil => simp at hr; omega
      | cons c cs =>
        simp only [List.map_cons, List.cons.injEq] at hr
        obtain ⟨hc, hcs⟩ := hr
        have htk : (fs.take (i + 1)).map (·.size) = (fs.take i).map (·.size) ++ [fs[i].size] := by
          rw [List.take_succ_eq_append_getElem hi, List.map_append]; rfl
        have hlen : (i + 1 + vs.length ≤ fs.length) = (i + (v :: vs).length ≤ fs.length) := by
          simp only [List.length_cons]; congr 1; omega
        rw [attrsLenient]
        simp only [writeAttribute, List.getElem?_eq_getElem hi]
        rw [hdrop]
        cases hw : writeAttr fs[i] v with
        | none =>
          simp only [overLenient, hw]
          have hsplit : done ++ c :: cs = (done ++ [c]) ++ cs := by simp
          rw [hsplit, attrsLenient_over fs row P S hP vs (i + 1) (done ++ [c]) cs
            (by rw [List.map_append, hd, htk]; simp [hc]) hcs (by omega)]
          simp only [List.append_assoc, List.singleton_append, hlen]
        | some buf =>
          have hb := writeAttr_len _ _ _ hw
          simp only [overLenient, hw]
          have hoff : cellOff fs row i = P.length + (1 + sizeSum (fs.take i)) := by simp only [cellOff, hP]; omega
          have hok : RowOK fs (done ++ c :: cs) := by
            unfold RowOK
            rw [List.map_append, hd, List.map_cons, hc, hcs, ← List.map_cons (f := fun x : Field => x.size), ← hdrop, ← List.map_append,
              List.take_append_drop]
          have hj : i < (done ++ c :: cs).length := by simp; omega
          have hcell : (done ++ c :: cs)[i] = c := by
            rw [List.getElem_append_right (by omega)]; simp [hdl']
          rw [hoff, writeAt_cell_mid fs P _ S hok i hj buf (by rw [hcell, hc]; exact hb), hcell]
          have hset : (done ++ c :: cs).set i (putCell c buf) = (done ++ [putCell c buf]) ++ cs := by
            rw [List.set_append_right _ _ (by omega), hdl', Nat.sub_self]
            simp
          rw [hset, attrsLenient_over fs row P S hP vs (i + 1) (done ++ [putCell c buf]) cs
            (by rw [List.map_append, hd, htk]; simp only [List.map_cons, List.map_nil, putCell_length c buf (by omega), hc]) hcs (by omega)]
          simp only [List.append_assoc, List.singleton_append, hlen]
    · have hie : i = fs.length := by omega
      have hdrop : fs.drop i = [] := List.drop_eq_nil_of_le (by omega)
      rw [hdrop] at hr
      have : rest = [] := by simpa using hr
      subst this
      have hnone : fs[i]? = none := List.getElem?_eq_none (by omega)
      rw [attrsLenient]
      simp only [writeAttribute, hnone, hdrop, overLenient]
      simp; omega

/-! ## one call: the `.dbf` as a list of rows -/

theorem map_snd_modify {β γ : Type} (F : γ → γ) : ∀ (l : List (β × γ)) (k : Nat),
    (l.modify k (fun r => (r.1, F r.2))).map (·.2) = (l.map (·.2)).modify k F
  | [], k => by simp
  | a :: l, 0 => by simp
  | a :: l, k + 1 => by simp [List.modify_succ_cons, map_snd_modify F l k]

theorem map_fst_modify {β γ : Type} (F : γ → γ) : ∀ (l : List (β × γ)) (k : Nat),
    (l.modify k (fun r => (r.1, F r.2))).map (·.1) = l.map (·.1)
  | [], k => by simp
  | a :: l, 0 => by simp
  | a :: l, k + 1 => by simp [List.modify_succ_cons, map_fst_modify F l k]

theorem overStrict_ok : ∀ (fs : List Field) (vals : List Val) (cur : List Bytes), RowOK fs cur → RowOK fs (overStrict fs vals cur)
  | [], vals, cur, h => by cases vals <;> cases cur <;> simpa [overStrict] using h
  | f :: fs, [], cur, h => by cases cur <;> simpa [overStrict] using h
  | f :: fs, v :: vs, [], h => by simpa [overStrict] using h
  | f :: fs, v :: vs, c :: cs, h => by
    unfold RowOK at h ⊢
    simp only [List.map_cons, List.cons.injEq] at h
    have ih := overStrict_ok fs vs cs h.2
    unfold RowOK at ih
    cases hw : writeAttr f v with
    | none => simp [overStrict, hw, h.1, h.2]
    | some b =>
      have := writeAttr_len _ _ _ hw
      simp only [overStrict, hw, List.map_cons, ih, putCell_length c b (by omega), h.1]

theorem overLenient_ok : ∀ (fs : List Field) (vals : List Val) (cur : List Bytes), RowOK fs cur → RowOK fs (overLenient fs vals cur)
  | [], vals, cur, h => by cases vals <;> cases cur <;> simpa [overLenient] using h
  | f :: fs, [], cur, h => by cases cur <;> simpa [overLenient] using h
  | f :: fs, v :: vs, [], h => by simpa [overLenient] using h
  | f :: fs, v :: vs, c :: cs, h => by
    unfold RowOK at h ⊢
    simp only [List.map_cons, List.cons.injEq] at h
    have ih := overLenient_ok fs vs cs h.2
    unfold RowOK at ih
    cases hw : writeAttr f v with
    | none => simp [overLenient, hw, h.1, ih]
    | some b =>
      have := writeAttr_len _ _ _ hw
      simp only [overLenient, hw, List.map_cons, ih, putCell_length c b (by omega), h.1]

/-- the file around row `k` -/
theorem dbf_split (fs : List Field) (cr : List (List Bytes)) (hok : ∀ r ∈ cr, RowOK fs r) (k : Nat) (hk : k < cr.length)
    (F : List Bytes → List Bytes) :
    (zeros (hdrLen fs) ++ ((cr.take k).map rowBytes).flatten).length = hdrLen fs + k * recLen fs ∧
    zeros (hdrLen fs) ++ (cr.map rowBytes).flatten
      = (zeros (hdrLen fs) ++ ((cr.take k).map rowBytes).flatten) ++ (rowBytes cr[k] ++ ((cr.drop (k + 1)).map rowBytes).flatten) ∧
    zeros (hdrLen fs) ++ ((cr.modify k F).map rowBytes).flatten
      = (zeros (hdrLen fs) ++ ((cr.take k).map rowBytes).flatten) ++ (rowBytes (F cr[k]) ++ ((cr.drop (k + 1)).map rowBytes).flatten) := by
  refine ⟨?_, ?_, ?_⟩
  · rw [List.length_append, flatten_rows_length fs (cr.take k) (fun r hr => hok r (List.mem_of_mem_take hr))]
    simp [zeros]; rw [Nat.min_eq_left (by omega)]
  · have : cr = cr.take k ++ cr[k] :: cr.drop (k + 1) := by
      rw [List.getElem_cons_drop hk, List.take_append_drop]
    have e : (cr.map rowBytes).flatten
        = ((cr.take k).map rowBytes).flatten ++ (rowBytes cr[k] ++ ((cr.drop (k + 1)).map rowBytes).flatten) := by
      conv => lhs; rw [this]
      rw [List.map_append, List.flatten_append, List.map_cons, List.flatten_cons]
    rw [e, List.append_assoc]
  · rw [List.modify_eq_take_cons_drop hk, List.map_append, List.flatten_append, List.map_cons, List.flatten_cons,
      List.append_assoc]

/-- the attribute loop of `Encode` with the cursor at ANY existing row `k` of the table -/
theorem dbf_strict (fs : List Field) (cr : List (List Bytes)) (hok : ∀ r ∈ cr, RowOK fs r) (k : Nat) (hk : k < cr.length)
    (vals : List Val) :
    attrsStrict fs k 0 vals (zeros (hdrLen fs) ++ (cr.map rowBytes).flatten)
      = (zeros (hdrLen fs) ++ ((cr.modify k (overStrict fs vals)).map rowBytes).flatten, (writeStrict fs vals).2) := by
  obtain ⟨hP, h1, h2⟩ := dbf_split fs cr hok k hk (overStrict fs vals)
  have hrow : RowOK fs cr[k] := hok _ (List.getElem_mem hk)
  have := attrsStrict_over fs k _ (((cr.drop (k + 1)).map rowBytes).flatten) hP vals 0 [] cr[k] (by simp) (by simpa [RowOK] using hrow)
  simp only [List.nil_append, List.drop_zero] at this
  rw [h1, h2, this]

/-- the attribute loop of `EncodeFields` likewise -/
theorem dbf_lenient (fs : List Field) (cr : List (List Bytes)) (hok : ∀ r ∈ cr, RowOK fs r) (k : Nat) (hk : k < cr.length)
    (vals : List Val) :
    attrsLenient fs k 0 vals (zeros (hdrLen fs) ++ (cr.map rowBytes).flatten)
      = (zeros (hdrLen fs) ++ ((cr.modify k (overLenient fs vals)).map rowBytes).flatten, decide (vals.length ≤ fs.length)) := by
  obtain ⟨hP, h1, h2⟩ := dbf_split fs cr hok k hk (overLenient fs vals)
  have hrow : RowOK fs cr[k] := hok _ (List.getElem_mem hk)
  have := attrsLenient_over fs k _ (((cr.drop (k + 1)).map rowBytes).flatten) hP vals 0 [] cr[k] (by simp) (by simpa [RowOK] using hrow) (by omega)
  simp only [List.nil_append, List.drop_zero, Nat.zero_add] at this
  rw [h1, h2, this]

theorem mem_modify {β : Type} (F : β → β) (P : β → Prop) : ∀ (l : List β) (k : Nat), (∀ x ∈ l, P x) → (∀ x, P x → P (F x)) →
    ∀ x ∈ l.modify k F, P x
  | [], k, h, _ => by simp
  | a :: l, 0, h, hF => by
    intro x hx
    simp only [List.modify_zero_cons, List.mem_cons] at hx
    rcases hx with rfl | hx
    · exact hF _ (h a (by simp))
    · exact h x (by simp [hx])
  | a :: l, k + 1, h, hF => by
    intro x hx
    simp only [List.modify_succ_cons, List.mem_cons] at hx
    rcases hx with rfl | hx
    · exact h _ (by simp)
    · exact mem_modify F P l k (fun y hy => h y (by simp [hy])) hF x hx

theorem recsOf_append (t : Nat) : ∀ (ss : List BShape) (k : Nat) (s : BShape),
    recsOf t k (ss ++ [s]) = recsOf t k ss ++ recordBytes t (k + ss.length + 1) s
  | [], k, s => by simp [recsOf]
  | a :: ss, k, s => by
    simp only [List.cons_append, recsOf, recsOf_append t ss (k + 1) s, List.length_cons, List.append_assoc]
    congr 3; omega

/-! ## the whole history -/

/-- one call on the encoder as the byte-level writer sees it: the method, the result of `geom2Shp` (with the box
go-shp stores), the attribute values -/
structure CallB where
  via : Bool
  shape : Except Fault BShape
  vals : List Val

/-- the byte-level writer over a call sequence on a fresh encoder: final writer state and per-call results -/
def runB (t : Nat) (fs : List Field) (calls : List CallB) : BW × List WRes :=
  calls.foldl (fun acc c => let x := encode t fs acc.1 c.via c.shape c.vals; (x.1, acc.2 ++ [x.2])) (create fs, [])

/-- the row-store writer over the same call sequence -/
def runG (fs : List Field) (calls : List CallB) : WState UInt64 × List WRes :=
  calls.foldl (fun acc c => let x := encodeG fs acc.1 c.via (c.shape.map BShape.toShape) c.vals; (x.1, acc.2 ++ [x.2])) (⟨[], 0⟩, [])

/-- the shapes a call sequence writes (calls whose geometry is rejected write nothing) -/
def shapesOf (calls : List CallB) : List BShape :=
  calls.filterMap fun c => match c.shape with | .ok s => some s | .error _ => none

/-- byte-level writer and row-store writer in step -/
structure Sync (t : Nat) (fs : List Field) (w : BW) (st : WState UInt64) (shapes : List BShape) : Prop where
  recs : w.recs = recsOf t 0 shapes
  num : w.num = shapes.length
  dbf : w.dbf = zeros (hdrLen fs) ++ ((st.rows.map (·.2)).map rowBytes).flatten
  row : w.row = st.row
  le : st.row ≤ st.rows.length
  shp : st.rows.map (·.1) = shapes.map BShape.toShape
  ok : ∀ r ∈ st.rows.map (·.2), RowOK fs r

theorem sync_create (t : Nat) (fs : List Field) : Sync t fs (create fs) ⟨[], 0⟩ [] :=
  ⟨rfl, rfl, by simp [create], rfl, by simp, rfl, by simp⟩

/-- **one call, any state of the cursor** (generalises `encode_strict_step` / `encode_lenient_step`: the cursor may
lag behind, `EncodeFields` may have more values than columns, the geometry may be rejected) -/
theorem encode_sync (t : Nat) (fs : List Field) (w : BW) (st : WState UInt64) (shapes : List BShape) (c : CallB)
    (h : Sync t fs w st shapes) :
    (encode t fs w c.via c.shape c.vals).2 = (encodeG fs st c.via (c.shape.map BShape.toShape) c.vals).2 ∧
    Sync t fs (encode t fs w c.via c.shape c.vals).1 (encodeG fs st c.via (c.shape.map BShape.toShape) c.vals).1
      (shapes ++ shapesOf [c]) := by
  obtain ⟨via, shape, vals⟩ := c
  cases shape with
  | error f =>
    cases f <;> simp [encode, encodeG, Except.map, shapesOf] <;> exact h
  | ok s =>
    obtain ⟨hrecs, hnum, hdbf, hrow, hle, hshp, hok⟩ := h
    have hok' : ∀ r ∈ (st.rows.map (·.2)) ++ [blankRow fs], RowOK fs r := by
      intro r hr
      rcases List.mem_append.mp hr with h | h
      · exact hok r h
      · simp at h; subst h; exact blankRow_ok fs
    have hk : st.row < ((st.rows.map (·.2)) ++ [blankRow fs]).length := by simp; omega
    have hdbf1 : w.dbf ++ emptyRecord fs = zeros (hdrLen fs) ++ (((st.rows.map (·.2)) ++ [blankRow fs]).map rowBytes).flatten := by
      rw [hdbf, emptyRecord_eq]; simp [List.append_assoc]
    have happ : (st.rows ++ [(s.toShape, blankRow fs)]).map (·.2) = (st.rows.map (·.2)) ++ [blankRow fs] := by simp
    have happ1 : (st.rows ++ [(s.toShape, blankRow fs)]).map (·.1) = (shapes ++ [s]).map BShape.toShape := by simp [hshp]
    have hrec : w.recs ++ recordBytes t (w.num + 1) s = recsOf t 0 (shapes ++ [s]) := by
      rw [recsOf_append, hrecs, hnum]; simp
    cases via with
    | true =>
      have hs := dbf_strict fs _ hok' st.row hk vals
      simp only [encode, write, encodeG, Except.map, shapesOf, List.filterMap_cons, List.filterMap_nil, if_true, hrow, hdbf1, hs]
      refine ⟨trivial, ⟨hrec, by simp [hnum], ?_, rfl, ?_, ?_, ?_⟩⟩
      · simp only [map_snd_modify, happ]
      · simp only [List.length_modify, List.length_append, List.length_singleton]; omega
      · simp only [map_fst_modify, happ1]
      · simp only [map_snd_modify, happ]
        exact mem_modify _ (RowOK fs) _ _ hok' (fun x hx => overStrict_ok fs vals x hx)
    | false =>
      have hs := dbf_lenient fs _ hok' st.row hk vals
      simp only [encode, write, encodeG, Except.map, shapesOf, List.filterMap_cons, List.filterMap_nil, hrow, hdbf1, hs,
        Bool.false_eq_true, if_false]
      by_cases hov : vals.length ≤ fs.length
      · have hnot : ¬ vals.length > fs.length := by omega
        simp only [hov, hnot, decide_true, if_true, if_false]
        refine ⟨trivial, ⟨hrec, by simp [hnum], ?_, rfl, ?_, ?_, ?_⟩⟩
        · simp only [map_snd_modify, happ]
        · simp only [List.length_modify, List.length_append, List.length_singleton]; omega
        · simp only [map_fst_modify, happ1]
        · simp only [map_snd_modify, happ]
          exact mem_modify _ (RowOK fs) _ _ hok' (fun x hx => overLenient_ok fs vals x hx)
      · have hgt : vals.length > fs.length := by omega
        simp only [hov, hgt, decide_false, if_true, Bool.false_eq_true, if_false]
        refine ⟨trivial, ⟨hrec, by simp [hnum], ?_, rfl, ?_, ?_, ?_⟩⟩
        · simp only [map_snd_modify, happ]
        · simp only [List.length_modify, List.length_append, List.length_singleton]; omega
        · simp only [map_fst_modify, happ1]
        · simp only [map_snd_modify, happ]
          exact mem_modify _ (RowOK fs) _ _ hok' (fun x hx => overLenient_ok fs vals x hx)

theorem shapesOf_append (a b : List CallB) : shapesOf (a ++ b) = shapesOf a ++ shapesOf b := by
  simp [shapesOf]

/-- the fold of `encode_sync` over a call sequence, from any synchronised state -/
theorem run_sync (t : Nat) (fs : List Field) : ∀ (calls : List CallB) (w : BW) (st : WState UInt64) (shapes : List BShape)
    (res : List WRes), Sync t fs w st shapes →
    let b := calls.foldl (fun (acc : BW × List WRes) c => let x := encode t fs acc.1 c.via c.shape c.vals; (x.1, acc.2 ++ [x.2])) (w, res)
    let g := calls.foldl (fun (acc : WState UInt64 × List WRes) c =>
      let x := encodeG fs acc.1 c.via (c.shape.map BShape.toShape) c.vals; (x.1, acc.2 ++ [x.2])) (st, res)
    b.2 = g.2 ∧ Sync t fs b.1 g.1 (shapes ++ shapesOf calls)
  | [], w, st, shapes, res, h => by simpa [shapesOf] using h
  | c :: calls, w, st, shapes, res, h => by
    obtain ⟨h1, h2⟩ := encode_sync t fs w st shapes c h
    have ih := run_sync t fs calls _ _ _ (res ++ [(encodeG fs st c.via (c.shape.map BShape.toShape) c.vals).2]) h2
    simp only [List.foldl_cons, h1]
    rw [show c :: calls = [c] ++ calls from rfl, shapesOf_append, ← List.append_assoc]
    exact ih

/-! ## the end-to-end theorem -/

/-- what the end-to-end theorem assumes about a history (all decidable): every shape that gets written has the
file's shape type (go-shp writes the FILE's type into each record header) and fits go-shp's 32-bit counters; the
field descriptors fit their bytes; header and record length fit go-shp's 16-bit fields -/
def FileOK (t : Nat) (fs : List Field) (calls : List CallB) : Prop :=
  t < 4294967296 ∧ (∀ s ∈ shapesOf calls, s.Valid ∧ s.typ = t ∧ (shapeBytes s).length < 4294967296) ∧
  (∀ f ∈ fs, FieldValid f) ∧ hdrLen fs < 65536 ∧ recLen fs < 65536

instance (t : Nat) (fs : List Field) (calls : List CallB) : Decidable (FileOK t fs calls) := by
  unfold FileOK; infer_instance

/-- **C16_end_to_end** (the container clause for whole histories, on the bytes): take ANY sequence of `Encode` /
`EncodeFields` calls on one encoder — attributes that are refused, geometries `geom2Shp` rejects, a nil `*Bounds`
(panic before anything is written), `EncodeFields` with more values than columns (index panic after the shape
and the cells were written, the cursor `e.row` left behind for all later calls) — run go-shp's writer on the bytes
(`Writer.Write`, positioned `WriteAttribute`s at the encoder's cursor, `Close()`), and read the resulting `.shp` and
`.dbf` with go-shp's reader (`Next` to the end of the file, `Fields`, `ReadAttribute(i, j)`): what comes out is
EXACTLY the file's shape type, the field list, and the rows of the row-store writer `encodeG` run on the same calls
— one row per shape written, in call order — and every call returns the result the row-store writer predicts.
This is the composition of `encode_sync` over the history with `close_dbf` and `C16_container`. -/
theorem C16_end_to_end (t : Nat) (fs : List Field) (calls : List CallB) (h : FileOK t fs calls) :
    fileOfBytes (close t fs (runB t fs calls).1).shp (close t fs (runB t fs calls).1).dbf
      = some ⟨t, fs, (runG fs calls).1.rows⟩ ∧
    (runB t fs calls).2 = (runG fs calls).2 ∧
    ((runG fs calls).1.rows.map (·.1)) = (shapesOf calls).map BShape.toShape := by
  obtain ⟨ht, hshapes, hfs, hl, hr⟩ := h
  obtain ⟨hres, hs⟩ := run_sync t fs calls (create fs) ⟨[], 0⟩ [] [] (sync_create t fs)
  simp only [List.nil_append] at hres hs
  refine ⟨?_, hres, hs.shp⟩
  have hshp : (close t fs (runB t fs calls).1).shp = shpOf t (runB t fs calls).1.bbox (shapesOf calls) := by
    simp only [close, shpOf, runB, hs.recs]
  have hdbf : (close t fs (runB t fs calls).1).dbf
      = dbfOf (runB t fs calls).1.num fs ((runG fs calls).1.rows.map (·.2)) := by
    simp only [close, dbfOf, runB, runG, hs.dbf]
    exact close_dbf _ fs hfs _
  have hlen : ((runG fs calls).1.rows.map (·.2)).length = (shapesOf calls).length := by
    have := congrArg List.length hs.shp
    simpa [runG] using this
  have hc := C16_container t (runB t fs calls).1.num (runB t fs calls).1.bbox fs (shapesOf calls)
    ((runG fs calls).1.rows.map (·.2)) ht hshapes hfs hl hr hs.ok hlen
  rw [hshp, hdbf, hc]
  congr 2
  exact (List.zip_of_prod hs.shp rfl).symm

/-! ## histories without left-over values: record `i` is row `i` -/

theorem overStrict_blank : ∀ (fs : List Field) (vals : List Val), overStrict fs vals (blankRow fs) = (writeStrict fs vals).1
  | [], vals => by cases vals <;> simp [overStrict, writeStrict, blankRow]
  | f :: fs, [] => by simp [overStrict, writeStrict]
  | f :: fs, v :: vs => by
    have ih := overStrict_blank fs vs
    simp only [blankRow, List.map_cons] at ih ⊢
    cases hw : writeAttr f v with
    | none => simp [overStrict, writeStrict, hw, blankRow]
    | some b => simp only [overStrict, writeStrict, hw, ih, putCell, cellOf_eq]

theorem overLenient_blank : ∀ (fs : List Field) (vals : List Val), overLenient fs vals (blankRow fs) = writeLenient fs vals
  | [], vals => by cases vals <;> simp [overLenient, writeLenient, blankRow]
  | f :: fs, [] => by simp [overLenient, writeLenient]
  | f :: fs, v :: vs => by
    have ih := overLenient_blank fs vs
    simp only [blankRow, List.map_cons] at ih ⊢
    cases hw : writeAttr f v with
    | none => simp [overLenient, writeLenient, hw, ih]
    | some b => simp only [overLenient, writeLenient, hw, ih, putCell, cellOf_eq]

/-- the row a call leaves when the cursor is synchronised: its shape with the cells ITS method writes -/
def rowOfCall (fs : List Field) (c : CallB) : Option (Shape UInt64 × List Bytes) :=
  match c.shape with
  | .ok s => some (s.toShape, if c.via then (writeStrict fs c.vals).1 else writeLenient fs c.vals)
  | .error _ => none

/-- the result of a call without left-over values -/
def resOfCall (fs : List Field) (c : CallB) : WRes :=
  match c.shape with
  | .error .nilDeref => .panic
  | .error _ => .err
  | .ok _ => if c.via then (if (writeStrict fs c.vals).2 then .ok else .err) else .ok

/-- no `EncodeFields` call has more values than the file has columns (decidable) -/
def NoLeftOver (fs : List Field) (calls : List CallB) : Prop := ∀ c ∈ calls, c.via = false → c.vals.length ≤ fs.length

instance (fs : List Field) (calls : List CallB) : Decidable (NoLeftOver fs calls) := by unfold NoLeftOver; infer_instance

theorem runG_go_in_order (fs : List Field) : ∀ (calls : List CallB) (st : WState UInt64) (res : List WRes),
    st.row = st.rows.length → NoLeftOver fs calls →
    let g := calls.foldl (fun (acc : WState UInt64 × List WRes) c =>
      let x := encodeG fs acc.1 c.via (c.shape.map BShape.toShape) c.vals; (x.1, acc.2 ++ [x.2])) (st, res)
    g.1.rows = st.rows ++ calls.filterMap (rowOfCall fs) ∧ g.2 = res ++ calls.map (resOfCall fs)
  | [], st, res, _, _ => by simp
  | c :: calls, st, res, hrow, hno => by
    have hno' : NoLeftOver fs calls := fun x hx => hno x (List.mem_cons_of_mem _ hx)
    have hc := hno c List.mem_cons_self
    obtain ⟨via, shape, vals⟩ := c
    simp only [List.foldl_cons]
    cases shape with
    | error f =>
      have e : encodeG fs st via (Except.map BShape.toShape (Except.error f : Except Fault BShape)) vals = (st, resOfCall fs ⟨via, .error f, vals⟩) := by
        cases f <;> simp [encodeG, Except.map, resOfCall]
      rw [e]
      obtain ⟨h1, h2⟩ := runG_go_in_order fs calls st (res ++ [resOfCall fs ⟨via, .error f, vals⟩]) hrow hno'
      have hfm : List.filterMap (rowOfCall fs) (⟨via, .error f, vals⟩ :: calls) = List.filterMap (rowOfCall fs) calls := by
        rw [List.filterMap_cons]; rfl
      rw [hfm]
      exact ⟨h1, by simpa using h2⟩
    | ok s =>
      cases via with
      | true =>
        have e : encodeG fs st true (Except.map BShape.toShape (Except.ok s : Except Fault BShape)) vals
            = (⟨st.rows ++ [(s.toShape, (writeStrict fs vals).1)], st.rows.length + 1⟩, resOfCall fs ⟨true, .ok s, vals⟩) := by
          simp [encodeG, Except.map, resOfCall, hrow, modify_append_last, overStrict_blank]
        rw [e]
        obtain ⟨h1, h2⟩ := runG_go_in_order fs calls ⟨st.rows ++ [(s.toShape, (writeStrict fs vals).1)], st.rows.length + 1⟩
          (res ++ [resOfCall fs ⟨true, .ok s, vals⟩]) (by simp) hno'
        exact ⟨by simpa [rowOfCall] using h1, by simpa using h2⟩
      | false =>
        have hle : vals.length ≤ fs.length := hc rfl
        have hnot : ¬ vals.length > fs.length := by omega
        have e : encodeG fs st false (Except.map BShape.toShape (Except.ok s : Except Fault BShape)) vals
            = (⟨st.rows ++ [(s.toShape, writeLenient fs vals)], st.rows.length + 1⟩, resOfCall fs ⟨false, .ok s, vals⟩) := by
          simp [encodeG, Except.map, resOfCall, hrow, modify_append_last, overLenient_blank, hnot]
        rw [e]
        obtain ⟨h1, h2⟩ := runG_go_in_order fs calls ⟨st.rows ++ [(s.toShape, writeLenient fs vals)], st.rows.length + 1⟩
          (res ++ [resOfCall fs ⟨false, .ok s, vals⟩]) (by simp) hno'
        exact ⟨by simpa [rowOfCall] using h1, by simpa using h2⟩

/-- **C16_bytes_in_order** (clause "come back in the same order and number", on the bytes, any writer schedule):
when no `EncodeFields` call has more values than columns, the files read back as one row per written record in
call order, record `i` carrying the cells its own call wrote (`writeStrict` for `Encode`, also when an attribute was
refused; `writeLenient` for `EncodeFields`), and the calls return `ok` / `err` / `panic` as `resOfCall` says -/
theorem C16_bytes_in_order (t : Nat) (fs : List Field) (calls : List CallB) (h : FileOK t fs calls) (hno : NoLeftOver fs calls) :
    fileOfBytes (close t fs (runB t fs calls).1).shp (close t fs (runB t fs calls).1).dbf
      = some ⟨t, fs, calls.filterMap (rowOfCall fs)⟩ ∧
    (runB t fs calls).2 = calls.map (resOfCall fs) := by
  obtain ⟨h1, h2, _⟩ := C16_end_to_end t fs calls h
  obtain ⟨g1, g2⟩ := runG_go_in_order fs calls ⟨[], 0⟩ [] rfl hno
  simp only [List.nil_append] at g1 g2
  refine ⟨?_, ?_⟩
  · rw [h1]; simp only [runG, g1]
  · rw [h2]; simp only [runG, g2]

theorem rows_count (fs : List Field) : ∀ (calls : List CallB), (calls.filterMap (rowOfCall fs)).length = (shapesOf calls).length
  | [] => rfl
  | c :: calls => by
    have ih := rows_count fs calls
    obtain ⟨via, shape, vals⟩ := c
    cases shape <;> simp [rowOfCall, shapesOf, List.filterMap_cons] at ih ⊢ <;> exact ih

/-- **C16_headline_bytes** (the property's headline as ONE statement on the byte-level model): write any history of
`Encode` / `EncodeFields` calls (no left-over values) through go-shp's byte-level writer, close, and read the bytes
with go-shp's reader and ANY reading schedule `rcalls` on one Decoder mixing `DecodeRow` (fresh or reused record
variables) and `DecodeRowFields` (any field lists). If every shape converts back (`hg`; `C16_bytes_geometry` gives it
with `G = Spec.normal` for every supported geometry) and every reading call succeeds on every written row (`CallOK`:
requested names are columns, matched numeric cells parse — `C16_bytes_cells` + `C16_int/_string/_float` give the cells'
content for values that fit), then exactly one row per written record comes back, in call order, without panic or
error, and row `i` is built from record `i`'s own shape and own cells (`RowsOf`). -/
theorem C16_headline_bytes (t : Nat) (fs : List Field) (calls : List CallB) (h : FileOK t fs calls) (hno : NoLeftOver fs calls)
    (rcalls : List Call) (G : Shape UInt64 → Geom UInt64) (hne : rcalls ≠ [])
    (hg : ∀ r ∈ calls.filterMap (rowOfCall fs), shp2Geom r.1 = .ok (G r.1))
    (hc : ∀ rc ∈ rcalls, ∀ r ∈ calls.filterMap (rowOfCall fs), CallOK (0 : UInt64) (fileKeys fs) G rc r) :
    ∃ F rows, fileOfBytes (close t fs (runB t fs calls).1).shp (close t fs (runB t fs calls).1).dbf = some F ∧
      F.shpType = t ∧ F.fields = fs ∧ F.rows = calls.filterMap (rowOfCall fs) ∧
      readM 0 F rcalls = ⟨rows, false, false⟩ ∧ rows.length = (shapesOf calls).length ∧
      RowsOf 0 (fileKeys fs) G rcalls F.rows 0 rows := by
  obtain ⟨h1, _⟩ := C16_bytes_in_order t fs calls h hno
  obtain ⟨rows, r1, r2, r3⟩ := C16_order_schedule (0 : UInt64) ⟨t, fs, calls.filterMap (rowOfCall fs)⟩ rcalls G hne hc hg
  refine ⟨_, rows, h1, rfl, rfl, rfl, r1, ?_, r3⟩
  rw [r2]
  exact rows_count fs calls

/-- the geometry clause for a call on the bytes: a supported geometry `g` (`Spec.normal g = some n`) is converted by
`geom2Shp` to a shape (with its stored box) that `shp2Geom` converts back to `n` -/
theorem C16_bytes_geometry (g n : Geom UInt64) (h : Spec.normal ptEqBits g = some n) :
    ∃ s, geom2ShpB g = .ok s ∧ shp2Geom s.toShape = .ok n := by
  have h1 := toShape_geom2ShpB g
  have h2 := C16_geom ptEqBits g n h
  cases hs : geom2ShpB g with
  | error f =>
    rw [hs] at h1
    simp only [Except.map] at h1
    rw [← h1] at h2
    simp [bind, Except.bind] at h2
  | ok s =>
    rw [hs] at h1
    simp only [Except.map] at h1
    rw [← h1] at h2
    exact ⟨s, rfl, by simpa [bind, Except.bind] using h2⟩

/-- the cells of a record whose values all fit, for either method: cell `j` is `cellOf size (render value)` — the
form `C16_int`, `C16_string`, `C16_float` are about -/
theorem C16_bytes_cells (fs : List Field) (c : CallB) (s : BShape) (hs : c.shape = .ok s) (hl : fs.length = c.vals.length)
    (hfit : ∀ i (hi : i < fs.length) (hv : i < c.vals.length), writeAttr fs[i] c.vals[i] = some (render fs[i] c.vals[i])) :
    ∃ cells, rowOfCall fs c = some (s.toShape, cells) ∧ resOfCall fs c = .ok ∧
      ∀ i (hi : i < fs.length) (hv : i < c.vals.length), cells[i]? = some (cellOf fs[i].size (render fs[i] c.vals[i])) := by
  obtain ⟨via, shape, vals⟩ := c
  simp only at hs hl hfit
  subst hs
  obtain ⟨hok, hcells⟩ := writeStrict_cells fs vals hl hfit
  have hlen : ∀ (fs : List Field) (vals : List Val), fs.length = vals.length →
      (∀ i (hi : i < fs.length) (hv : i < vals.length), writeAttr fs[i] vals[i] = some (render fs[i] vals[i])) →
      writeLenient fs vals = (writeStrict fs vals).1 := by
    intro fs
    induction fs with
    | nil => intro vals _ _; cases vals <;> simp [writeLenient, writeStrict]
    | cons f fs ih =>
      intro vals hl h
      cases vals with
      | nil => simp at hl
      | cons v vs =>
        have h0 := h 0 (by simp) (by simp)
        simp only [List.getElem_cons_zero] at h0
        have := ih vs (by simpa using hl) (fun i hi hv => by
          have := h (i + 1) (by simp; omega) (by simp; omega)
          simpa using this)
        simp [writeLenient, writeStrict, h0, this]
  cases via with
  | true => exact ⟨_, by simp [rowOfCall], by simp [resOfCall, hok], hcells⟩
  | false => exact ⟨(writeStrict fs vals).1, by simp [rowOfCall, hlen fs vals hl hfit], by simp [resOfCall], hcells⟩

/-! ## non-vacuity and the stale cursor, concretely -/

/-- a POINT file with one 3-byte string column; four calls: `Encode` "x"; `EncodeFields` with TWO values (index
panic after "y" was written, cursor left at row 1); `EncodeFields` "ww" (its blank row is appended as row 2, its
value lands in row 1 on top of "y"); an unsupported geometry (nothing written) -/
def demoCalls : List CallB :=
  [⟨true, .ok (.point ⟨0, 0⟩), [.str [120]]⟩, ⟨false, .ok (.point ⟨1, 2⟩), [.str [121], .str [122]]⟩,
   ⟨false, .ok (.point ⟨3, 3⟩), [.str [119, 119]]⟩, ⟨true, .error .unsupported, []⟩]
def demoFields : List Field := [⟨name11 [97], 67, 3, 0⟩]

/-- non-vacuity of `C16_end_to_end` (with a left-over value in the history) -/
example : FileOK 1 demoFields demoCalls := by decide +kernel
/-- non-vacuity of `C16_bytes_in_order` / `C16_headline_bytes` -/
example : FileOK 1 demoFields (demoCalls.take 1 ++ demoCalls.drop 2) ∧ NoLeftOver demoFields (demoCalls.take 1 ++ demoCalls.drop 2) := by
  decide +kernel
/-- what the left-over value does: three rows, the third record's value in the second record's row, the third row blank -/
example : (runG demoFields demoCalls).1.rows.map (·.2) = [[[120, 0, 0]], [[119, 119, 0]], [[0, 0, 0]]] ∧
    (runG demoFields demoCalls).2 = [.ok, .panic, .ok, .err] := by decide +kernel

end GeomV.C16.Layout

namespace GeomV.C16
open GeomV GeomV.C16.Layout

theorem encodeG_eq_encodeF {α : Type} (eq : Pt α → Pt α → Bool) (fields : List Field) (st : WState α) (g : Geom α) (vals : List Val)
    (hrow : st.row = st.rows.length) (hle : vals.length ≤ fields.length) :
    (encodeG fields st false (geom2Shp eq g) vals).1.rows = (encodeF eq fields st.rows g vals).1 ∧
    (encodeG fields st false (geom2Shp eq g) vals).1.row = (encodeF eq fields st.rows g vals).1.length ∧
    (encodeG fields st false (geom2Shp eq g) vals).2 = (encodeF eq fields st.rows g vals).2 := by
  have hnot : ¬ vals.length > fields.length := by omega
  cases g <;> simp [geom2Shp, encodeG, encodeF, hrow, hnot, modify_append_last, overLenient_blank]

theorem writeAllG_go {α : Type} (eq : Pt α → Pt α → Bool) (fields : List Field) :
    ∀ (recs : List (Geom α × List Val)) (st : WState α) (res : List WRes), st.row = st.rows.length →
    (∀ r ∈ recs, r.2.length ≤ fields.length) →
    ((recs.foldl (fun (acc : WState α × List WRes) r =>
        let x := encodeG fields acc.1 false (geom2Shp eq r.1) r.2; (x.1, acc.2 ++ [x.2])) (st, res)).1.rows,
     (recs.foldl (fun (acc : WState α × List WRes) r =>
        let x := encodeG fields acc.1 false (geom2Shp eq r.1) r.2; (x.1, acc.2 ++ [x.2])) (st, res)).2)
      = recs.foldl (fun acc r => let x := encodeF eq fields acc.1 r.1 r.2; (x.1, acc.2 ++ [x.2])) (st.rows, res)
  | [], st, res, _, _ => rfl
  | r :: recs, st, res, hrow, h => by
    obtain ⟨h1, h2, h3⟩ := encodeG_eq_encodeF eq fields st r.1 r.2 hrow (h r List.mem_cons_self)
    simp only [List.foldl_cons]
    rw [writeAllG_go eq fields recs _ _ (by rw [h2, h1]) (fun x hx => h x (List.mem_cons_of_mem _ hx)), h1, h3]

/-- **writeAllG_eq_writeAllF**: the row-store writer the judge runs for the field path (`writeAllG`, cursor explicit,
exact after left-over values) IS `writeAllF` — the function `C16_order`, `C16_order_struct_written` are about — on every
record sequence without left-over values -/
theorem writeAllG_eq_writeAllF {α : Type} (eq : Pt α → Pt α → Bool) (fields : List Field) (recs : List (Geom α × List Val))
    (h : ∀ r ∈ recs, r.2.length ≤ fields.length) : writeAllG eq fields recs = writeAllF eq fields recs := by
  have := writeAllG_go eq fields recs ⟨[], 0⟩ [] rfl h
  simpa [writeAllG, writeAllF] using this

end GeomV.C16

/-! ## go-shp's fixed-width counters (int16 / int32) and where the `Nat` model stops being faithful

`Writer.dbfHeaderLength`, `Writer.dbfRecordLength` are SIGNED `int16` (`int16(len(fields)*32+33)`, `int16(1)` then
`+= int16(field.Size)` per field), `Writer.num`, the record's content length, the `.shx` offset, `NumParts`,
`NumPoints` are `int32`. Go's conversions and `+=` wrap modulo 2^16 / 2^32 (two's complement). The layout model computes
with `Nat`. The statements below say exactly when both agree (`WidthsOK`: below 2^15 resp. 2^31 — the standing
assumption of the check), that `WidthsOK` implies the hypotheses of `C16_end_to_end`, and exhibit the wrap just beyond. -/
namespace GeomV.C16.Layout
open GeomV GeomV.C16

/-- Go `int16(z)` -/
def i16 (z : Int) : Int := (z + 32768) % 65536 - 32768
/-- Go `int32(z)` -/
def i32 (z : Int) : Int := (z + 2147483648) % 4294967296 - 2147483648

/-- the conversion is the identity exactly on the int16 range -/
theorem i16_eq_iff (n : Nat) : i16 n = n ↔ n < 32768 := by unfold i16; omega
theorem i32_eq_iff (n : Nat) : i32 n = n ↔ n < 2147483648 := by unfold i32; omega
/-- wrapping `+=` is addition followed by one conversion -/
theorem i16_add (a b : Int) : i16 (i16 a + b) = i16 (a + b) := by unfold i16; omega
/-- the bytes `binary.Write` produces for a wrapped counter are the bytes of the `Nat` modulo 2^32: writer-side bytes
never differ, only the READER's signed interpretation does -/
theorem i32_bytes (n : Nat) : (i32 n) % 4294967296 = (n : Int) % 4294967296 := by unfold i32; omega

/-- `dbfRecordLength` as go-shp computes it: `int16(1)`, then `+= int16(field.Size)` per field -/
def recLenGo (fs : List Field) : Int := fs.foldl (fun a f => i16 (a + i16 f.size)) (i16 1)
/-- `dbfHeaderLength = int16(len(fields)*32 + 33)` -/
def hdrLenGo (fs : List Field) : Int := i16 ((fs.length * 32 + 33 : Nat) : Int)
/-- `seekTo` of `WriteAttribute` / `ReadAttribute`: `1 + int64(dbfHeaderLength) + int64(row)*int64(dbfRecordLength) + Σ Size` -/
def cellOffGo (fs : List Field) (row field : Nat) : Int := 1 + hdrLenGo fs + row * recLenGo fs + sizeSum (fs.take field)

theorem recLenGo_fold (fs : List Field) : ∀ (a : Int), fs.foldl (fun a f => i16 (a + i16 f.size)) (i16 a) = i16 (a + sizeSum fs) := by
  induction fs with
  | nil => intro a; simp [sizeSum]
  | cons f fs ih =>
    intro a
    have h : i16 (i16 a + i16 (f.size : Int)) = i16 (a + f.size) := by unfold i16; omega
    simp only [List.foldl_cons, h, ih, sizeSum, List.map_cons, List.sum_cons]
    congr 1
    push_cast
    omega

/-- go-shp's wrapped record length is the conversion of the model's `recLen` -/
theorem recLenGo_eq (fs : List Field) : recLenGo fs = i16 (recLen fs) := by
  have := recLenGo_fold fs 1
  simp only [recLenGo, recLen] at this ⊢
  rw [this]; congr 1

/-- the widths within which the `Nat` model IS go-shp (decidable; the check's standing assumption) -/
def WidthsOK (fs : List Field) : Prop := hdrLen fs < 32768 ∧ recLen fs < 32768

instance (fs : List Field) : Decidable (WidthsOK fs) := by unfold WidthsOK; infer_instance

/-- **widths_faithful**: within `WidthsOK`, go-shp's int16 arithmetic computes the model's header length, record length
and every cell offset -/
theorem widths_faithful (fs : List Field) (h : WidthsOK fs) (row field : Nat) :
    hdrLenGo fs = hdrLen fs ∧ recLenGo fs = recLen fs ∧ cellOffGo fs row field = cellOff fs row field := by
  obtain ⟨h1, h2⟩ := h
  have e1 : hdrLenGo fs = hdrLen fs := by
    simp only [hdrLenGo, hdrLen] at h1 ⊢
    exact (i16_eq_iff _).mpr h1
  have e2 : recLenGo fs = recLen fs := by rw [recLenGo_eq]; exact (i16_eq_iff _).mpr h2
  refine ⟨e1, e2, ?_⟩
  simp only [cellOffGo, cellOff, e1, e2]
  push_cast
  omega

/-- `WidthsOK` (with 31-bit shape counters) is stronger than what `C16_end_to_end` assumes -/
theorem FileOK_of_widths (t : Nat) (fs : List Field) (calls : List CallB) (ht : t < 4294967296)
    (hs : ∀ s ∈ shapesOf calls, s.Valid ∧ s.typ = t ∧ (shapeBytes s).length < 2147483648)
    (hf : ∀ f ∈ fs, FieldValid f) (hw : WidthsOK fs) : FileOK t fs calls :=
  ⟨ht, fun s h => ⟨(hs s h).1, (hs s h).2.1, by have := (hs s h).2.2; omega⟩, hf, by have := hw.1; omega, by have := hw.2; omega⟩

/-- **widths_wrap** (the boundary, concretely): 129 columns of 255 bytes give `recLen = 32896`; go-shp's `int16` record
length is then NEGATIVE (−32640), so the offset it seeks to for row 1 lies BEFORE the start of the file while the
model's lies 32896 bytes further — beyond `WidthsOK` the model says nothing about go-shp. 1023 columns do the same to
the header length (32769 ↦ −32767). -/
theorem widths_wrap :
    let fs := List.replicate 129 (⟨name11 [97], 67, 255, 0⟩ : Field)
    recLen fs = 32896 ∧ recLenGo fs = -32640 ∧ cellOffGo fs 1 0 < 0 ∧ ¬ WidthsOK fs ∧
    hdrLenGo (List.replicate 1023 (⟨name11 [97], 67, 1, 0⟩ : Field)) = -32767 := by
  refine ⟨by decide +kernel, ?_, ?_, by decide +kernel, by decide +kernel⟩
  · rw [recLenGo_eq]; decide +kernel
  · simp only [cellOffGo, recLenGo_eq]; decide +kernel

end GeomV.C16.Layout
